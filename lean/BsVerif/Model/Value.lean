import BsVerif.Gen.ValGuards
/-!
# C06 — executable model of BugStalker's value decoder

Mirrors `src/debugger/variable/value/parser.rs` (`parse_inner`: scalars, structure members, arrays, C-like and
Rust enums, pointers, modified types, and the dispatch to the std re-interpretations by type name + namespace),
`value/specialization/mod.rs` (`&str`, `String`, `Vec`, `VecDeque`, `HashMap`/`HashSet`, `BTreeMap`/`BTreeSet`,
`Cell`/`RefCell`, `Rc`/`Arc`; `guard_len`/`guard_cap`), `specialization/hashbrown.rs` (control-byte group scan,
buckets below the control bytes), `specialization/btree.rs` (leaf/internal markup, first-leaf-edge / next-leaf-edge /
ascend), `value/bfs.rs` (breadth-first field lookup of the `assume_field_*` helpers) and
`debugee/dwarf/type.rs` (`identity`, `type_size_in_bytes`, `StructureMember::value`, the type-graph BFS).

The type graph is an INPUT (as parsed by the debugger, shipped by the harness); memory is an INPUT (`rd`).
Core Lean only (linked into `bsmodel`).  Bytes are `Nat`s below 256.
-/
namespace BsVerif.Value

abbrev Bytes := List Nat

/-! ## little-endian numbers -/

def leNat : Bytes → Nat
  | [] => 0
  | b :: bs => b + 256 * leNat bs

/-- two's complement reading of a `w`-byte word -/
def toSigned (w : Nat) (n : Nat) : Int :=
  if n < 2 ^ (8 * w - 1) then (n : Int) else (n : Int) - (2 ^ (8 * w) : Nat)

/-- Rust `as i64` on a 64-bit unsigned value -/
def wrapI64 (i : Int) : Int := toSigned 8 (i % (2 ^ 64 : Nat)).toNat

/-- width mask of `Die::int_const`: constants of an unsigned type narrower than 8 bytes are cut to the type's width -/
def constMaskBits (size : Nat) : Nat := if 1 ≤ size ∧ size ≤ 7 then 8 * size else 64

/-- `Die::int_const` (unit/die.rs) on a fixed-size data form (`DW_FORM_data1/2/4/8`, `w` bytes holding `raw`).
    `unsigned = none`: the constant belongs to a signed type, gimli's `sdata_value` sign-extends the form;
    `unsigned = some size`: it belongs to an unsigned type of `size` bytes: zero-extended, cut to the type's width and kept as the
    `i64` with the same bits — exactly what `try_as_number` makes of the number read from memory -/
def intConstData (unsigned : Option Nat) (w raw : Nat) : Int :=
  match unsigned with
  | none => toSigned w raw
  | some size => wrapI64 ((raw % 2 ^ constMaskBits size : Nat) : Int)

/-- `Die::int_const` on a `DW_FORM_udata` constant (`sdata_value` of an unsigned LEB value is `i64::try_from(v).ok()`) -/
def intConstUdata (unsigned : Option Nat) (raw : Nat) : Option Int :=
  match unsigned with
  | none => if raw < 2 ^ 63 then some (raw : Int) else none
  | some size => some (wrapI64 ((raw % 2 ^ constMaskBits size : Nat) : Int))

/-- `Die::wide_int_const`: a constant of a 128-bit type is a block of (little-endian) bytes; it gets a key iff its value fits
    the 64-bit key domain (`u64::try_from` / `i64::try_from`) -/
def wideConst (unsigned : Bool) (bytes : Bytes) : Option Int :=
  if bytes.isEmpty ∨ bytes.length > 16 then none else
  if unsigned then
    (if leNat bytes < 2 ^ 64 then some (wrapI64 (leNat bytes : Int)) else none)
  else
    let v := toSigned bytes.length (leNat bytes)
    if -(2 ^ 63 : Int) ≤ v ∧ v < 2 ^ 63 then some v else none

/-- `Die::discr_value` for the UNSIGNED `w`-byte tag of a Rust enum whose `DW_AT_discr_value` is a `w`-byte data form holding
    `raw` — the key under which `TypeParser` files the variant -/
def discrKey (w raw : Nat) : Int := intConstData (some w) w raw

/-- `Die::const_value` for an enumerator of a C-like enum with an unsigned underlying type (`DW_FORM_udata`) -/
def constKey (raw : Nat) : Option Int := intConstUdata (some 8) raw

/-! ## the type graph (what `TypeParser` produced) -/

structure Member where
  /-- `none`: no location; `some none`: a DWARF expression (not modelled); `some (some o)`: constant offset -/
  loc : Option (Option Int)
  name : Option String
  ty : Option Nat
deriving Inhabited, Repr

inductive Decl where
  | scalar (name : Option String) (ns : List String) (size : Option Nat) (enc : Option Nat)
  | struct (name : Option String) (ns : List String) (size : Option Nat) (members : List Member)
      (tparams : List (String × Option Nat))
  | union (name : Option String) (ns : List String) (size : Option Nat) (members : List Member)
  | array (ns : List String) (elem : Option Nat) (lb : Option Int) (len : Option Int) (bytes : Option Nat)
  | cenum (name : Option String) (ns : List String) (size : Option Nat) (discr : Option Nat) (enums : List (Int × String))
  | renum (name : Option String) (ns : List String) (size : Option Nat) (discr : Option Member)
      (enums : List (Option Int × Member))
  | ptr (name : Option String) (ns : List String) (target : Option Nat)
  | sub (name : Option String) (ns : List String) (ret : Option Nat)
  | modified (modifier : String) (name : Option String) (ns : List String) (inner : Option Nat)
deriving Inhabited, Repr

abbrev Graph := Nat → Option Decl

/-- `TypeIdentity` -/
structure Ident where
  ns : List String
  name : Option String
deriving Inhabited, Repr

def Ident.nameFmt (i : Ident) : String := i.name.getD "unknown"

/-- `Display for TypeIdentity` -/
def Ident.show (i : Ident) : String :=
  if i.ns.isEmpty then i.nameFmt else "::".intercalate i.ns ++ "::" ++ i.nameFmt

/-- `ComplexType::identity` (fuel: arrays and unnamed modified types recurse into their element type) -/
def identity (g : Graph) : Nat → Nat → Ident
  | 0, _ => ⟨[], none⟩
  | fuel + 1, id =>
    match g id with
    | none => ⟨[], none⟩
    | some (.scalar name ns _ _) => ⟨ns, name⟩
    | some (.struct name ns _ _ _) => ⟨ns, name⟩
    | some (.union name ns _ _) => ⟨ns, name⟩
    | some (.array ns elem _ _ _) =>
      let el := match elem with | some e => (identity g fuel e).nameFmt | none => "unknown"
      ⟨ns, some ("[" ++ el ++ "]")⟩
    | some (.cenum name ns _ _ _) => ⟨ns, name⟩
    | some (.renum name ns _ _ _) => ⟨ns, name⟩
    | some (.ptr name ns _) => ⟨ns, name⟩
    | some (.sub name ns _) => ⟨ns, name⟩
    | some (.modified m name ns inner) =>
      match name with
      | some n => ⟨ns, some n⟩
      | none => ⟨ns, inner.map fun i => m ++ " " ++ (identity g fuel i).nameFmt⟩

/-- `ComplexType::type_size_in_bytes` (array sizes arrive evaluated) -/
def typeSize (g : Graph) : Nat → Nat → Option Nat
  | 0, _ => none
  | fuel + 1, id =>
    match g id with
    | none => none
    | some (.scalar _ _ size _) => size
    | some (.struct _ _ size _ _) => size
    | some (.union _ _ size _) => size
    | some (.array _ _ _ _ bytes) => bytes
    | some (.cenum _ _ size _ _) => size
    | some (.renum _ _ size _ _) => size
    | some (.ptr ..) => some 8
    | some (.sub ..) => some 8
    | some (.modified _ _ _ inner) => inner.bind (typeSize g fuel)

/-- `NamespaceHierarchy::contains`: contiguous sub-list -/
def nsContains (ns needle : List String) : Bool :=
  (List.range (ns.length + 1 - needle.length)).any fun i => (ns.drop i).take needle.length == needle

/-! ## values (`Value`) -/

/-- the integer variants of `SupportedScalar` -/
inductive IK where
  | i8 | i16 | i32 | i64 | i128 | isize | u8 | u16 | u32 | u64 | u128 | usize
deriving Inhabited, Repr, BEq, DecidableEq

inductive Scalar where
  | num (kind : IK) (v : Int)
  | f32 (bits : Nat) | f64 (bits : Nat) | bool (b : Bool) | chr (c : Nat) | empty
deriving Inhabited, Repr, BEq

/-- `ScalarValue::try_as_number` -/
def Scalar.asNumber : Scalar → Option Int
  | .num k v =>
    if k = .i128 then (if -(2 ^ 63 : Int) ≤ v ∧ v < 2 ^ 63 then some v else none)      -- `i64::try_from(num).ok()`
    else if k = .u128 then (if v < 2 ^ 64 then some (wrapI64 v) else none)              -- `u64::try_from(num).ok().map(as i64)`
    else some (wrapI64 v)
  | _ => none

inductive Val where
  | scalar (ty : String) (v : Option Scalar)
  | struct (ty : String) (names : List (Option String)) (vals : List Val) (tparams : List (String × Option Nat))
  | arrayNone (ty : String)
  | array (ty : String) (base : Int) (items : List Val)
  | cenum (ty : String) (v : Option String)
  | renumNone (ty : String)
  | renum (ty : String) (name : Option String) (v : Val)
  | ptr (ty : String) (v : Option Nat) (target : Option Nat)
  | sub
  | modifiedNone (ty : String)
  | modified (ty : String) (v : Val)
  | specNone (orig : Val)
  | specVec (deq : Bool) (orig : Val) (st : Val)
  | specMap (bt : Bool) (orig : Val) (keys : List Val) (vals : List Val)
  | specSet (bt : Bool) (orig : Val) (items : List Val)
  | specStr (isString : Bool) (orig : Val) (bytes : Bytes)
  | specCell (refc : Bool) (orig : Val) (inner : Val)
  | specRc (arc : Bool) (orig : Val) (p : Val)
  | specOther (kind : String) (orig : Val)
deriving Inhabited

/-- type name a value carries (`Value::type`) for the specialised wrappers: the original structure's -/
def Val.tyName : Val → String
  | .scalar ty _ | .struct ty _ _ _ | .arrayNone ty | .array ty _ _ | .cenum ty _ | .renumNone ty | .renum ty _ _
  | .ptr ty _ _ | .modifiedNone ty | .modified ty _ => ty
  | .sub => "fn"
  | .specNone o | .specVec _ o _ | .specMap _ o _ _ | .specSet _ o _ | .specStr _ o _ | .specCell _ o _
  | .specRc _ o _ | .specOther _ o =>
    match o with | .struct ty _ _ _ => ty | _ => ""

/-! ## canonical rendering (the answer line; the harness renders the real `Value` the same way) -/

def hexDigit (n : Nat) : Char := if n < 10 then Char.ofNat (48 + n) else Char.ofNat (87 + n)
def hexOf (bs : Bytes) : String := String.ofList (bs.flatMap fun b => [hexDigit (b / 16), hexDigit (b % 16)])

def Scalar.render : Scalar → String
  | .num _ v => toString v
  | .f32 b => "f" ++ toString b
  | .f64 b => "d" ++ toString b
  | .bool b => if b then "true" else "false"
  | .chr c => "c" ++ toString c
  | .empty => "()"

def joinMembers (names : List (Option String)) (rs : List String) : String :=
  ",".intercalate ((names.zip rs).map fun (n, r) => n.getD "-" ++ ":" ++ r)
def joinItems (base : Int) (rs : List String) : String :=
  ",".intercalate (((List.range rs.length).zip rs).map fun (i, r) => toString (base + (i : Int)) ++ ":" ++ r)
def joinKVs (ks vs : List String) : String :=
  ",".intercalate ((ks.zip vs).map fun (k, v) => k ++ "=>" ++ v)

mutual
def render : Val → String
  | .scalar ty v => "S<" ++ ty ++ ">" ++ (match v with | some s => s.render | none => "?")
  | .struct ty names vals _ => "T<" ++ ty ++ ">{" ++ joinMembers names (renderEach vals) ++ "}"
  | .arrayNone ty => "A<" ++ ty ++ ">?"
  | .array ty base items => "A<" ++ ty ++ ">[" ++ joinItems base (renderEach items) ++ "]"
  | .cenum ty v => "C<" ++ ty ++ ">" ++ v.getD "?"
  | .renumNone ty => "E<" ++ ty ++ ">?"
  | .renum ty name v => "E<" ++ ty ++ ">(" ++ name.getD "-" ++ ":" ++ render v ++ ")"
  | .ptr ty v _ => "P<" ++ ty ++ ">" ++ (match v with | some p => toString p | none => "?")
  | .sub => "F"
  | .modifiedNone ty => "M<" ++ ty ++ ">?"
  | .modified ty v => "M<" ++ ty ++ ">" ++ render v
  | .specNone o => "X?" ++ render o
  | .specVec deq o s => "X" ++ (if deq then "deq" else "vec") ++ "<" ++ o.tyName ++ ">" ++ render s
  | .specMap bt o ks vs => "X" ++ (if bt then "bm" else "hm") ++ "<" ++ o.tyName ++ ">{" ++ joinKVs (renderEach ks) (renderEach vs) ++ "}"
  | .specSet bt o items => "X" ++ (if bt then "bs" else "hs") ++ "<" ++ o.tyName ++ ">{" ++ ",".intercalate (renderEach items) ++ "}"
  | .specStr isString o bs => "X" ++ (if isString then "string" else "str") ++ "<" ++ o.tyName ++ ">" ++ hexOf bs
  | .specCell refc o v => "X" ++ (if refc then "refcell" else "cell") ++ "<" ++ o.tyName ++ ">(" ++ render v ++ ")"
  | .specRc arc o p => "X" ++ (if arc then "arc" else "rc") ++ "<" ++ o.tyName ++ ">(" ++ render p ++ ")"
  | .specOther kind o => "X" ++ kind ++ "<" ++ o.tyName ++ ">"
def renderEach : List Val → List String
  | [] => []
  | v :: vs => render v :: renderEach vs
end

/-! ## breadth-first lookup (`value/bfs.rs`) -/

inductive Field where
  | root | field (n : Option String) | index (i : Int)
deriving Inhabited

def Field.is (f : Field) (n : String) : Bool := match f with | .field (some m) => m == n | _ => false

def structChildren : Val → List (Field × Val)
  | .struct _ names vals _ => (names.zip vals).map fun (n, v) => (Field.field n, v)
  | _ => []

/-- children pushed by `BfsIterator::next` -/
def children : Val → List (Field × Val)
  | .struct ty names vals tp => structChildren (.struct ty names vals tp)
  | .array _ base items => (List.range items.length).zip items |>.map fun (i, v) => (Field.index (base + i), v)
  | .renum _ name v => [(Field.field name, v)]
  | .specNone o | .specVec _ o _ | .specMap _ o _ _ | .specSet _ o _ | .specStr _ o _ | .specCell _ o _
  | .specRc _ o _ | .specOther _ o => structChildren o
  | _ => []

/-- first hit of `p` in breadth-first order (level by level = queue order) -/
def bfsFind {α} (p : Field × Val → Option α) : Nat → List (Field × Val) → Option α
  | 0, _ => none
  | fuel + 1, level =>
    match level.findSome? p with
    | some a => some a
    | none =>
      let next := level.flatMap fun (_, v) => children v
      if next.isEmpty then none else bfsFind p fuel next

def bfsFuel : Nat := 64

def assumeScalarNumber (v : Val) (name : String) : Option Int :=
  match bfsFind (fun (f, c) => if f.is name then some c else none) bfsFuel [(Field.root, v)] with
  | some (.scalar _ (some s)) => s.asNumber
  | _ => none

def assumePointer (v : Val) (name : String) : Option Nat :=
  bfsFind (fun (f, c) => match c with | .ptr _ (some p) _ => if f.is name then some p else none | _ => none)
    bfsFuel [(Field.root, v)]

def assumePointerVal (v : Val) (name : String) : Option Val :=
  bfsFind (fun (f, c) => match c with | .ptr ty p t => if f.is name then some (.ptr ty p t) else none | _ => none)
    bfsFuel [(Field.root, v)]

def assumeStruct (v : Val) (name : String) : Option Val :=
  bfsFind (fun (f, c) => match c with | .struct ty ns vs tp => if f.is name then some (.struct ty ns vs tp) else none | _ => none)
    bfsFuel [(Field.root, v)]

/-- `assume_field_as_rust_enum(name)` and the field name of the variant it shows: `none` = no enum under that name,
    `some none` = an enum that shows no variant -/
def assumeRustEnumVariant (v : Val) (name : String) : Option (Option (Option String)) :=
  bfsFind (fun (f, c) => match c with
    | .renum _ n _ => if f.is name then some (some n) else none
    | .renumNone _ => if f.is name then some none else none
    | _ => none) bfsFuel [(Field.root, v)]

/-! ## guards (constants mirrored from specialization/mod.rs; re-read from the source by tools/tables/valguards.py) -/

def LEN_GUARD : Int := Gen.ValGuards.LEN_GUARD
def CAP_GUARD : Int := Gen.ValGuards.CAP_GUARD
def guardLen (l : Int) : Int := if l > LEN_GUARD then LEN_GUARD else l
def guardCap (c : Int) : Int := if c > CAP_GUARD then CAP_GUARD else c

/-! ## pure collection algorithms (the theorems of Props/C06 are about these) -/

/-- `raw_data.chunks(el)` for exactly `n` elements -/
def chunks (el : Nat) : Nat → Bytes → List Bytes
  | 0, _ => []
  | n + 1, bs => bs.take el :: chunks el n (bs.drop el)

/-- `parse_vec_dequeue_inner`'s `slice_ranges` for a ring of capacity `cap`: (first slot of the head part, length of the
    head part, length of the part that wrapped to slot 0) -/
def ringRanges (cap head len : Nat) : Nat × Nat × Nat :=
  let ws := if cap = 0 then 0 else head % cap
  let headLen := cap - ws
  if headLen ≥ len then (ws, len, 0) else (ws, cap - ws, len - headLen)

/-- physical slot indexes shown for a ring buffer: the two ranges chained -/
def ringIdx (cap head len : Nat) : List Nat :=
  let ws := if cap = 0 then 0 else head % cap
  let headLen := cap - ws
  if headLen ≥ len then (List.range len).map (ws + ·)
  else (List.range (cap - ws)).map (ws + ·) ++ List.range (len - headLen)

/-- the slots the decoder shows for a `VecDeque` whose header says `capRaw`, `head`, `lenRaw` (element size ≠ 0): the ring
    positions are computed with the REAL capacity, `guard_len` limits only how many elements are shown -/
def dequeIdx (capRaw head lenRaw : Nat) : List Nat :=
  ringIdx capRaw head (guardLen lenRaw).toNat

/-- `match_empty_or_deleted().invert()` of one group: positions (< 16) whose control byte has the top bit clear,
    ascending — what `lowest_set_bit` / `remove_lowest_bit` enumerate -/
def groupFull (ctrl : Bytes) : List Nat :=
  (List.range 16).filter fun i => (ctrl.getD i 255) < 128

/-- `BucketIterator`: bucket indexes yielded; `ctrlAt g` = the 16 control bytes loaded at `ctrl + 16*g`.
    The first group is loaded unconditionally, the following ones while `next_ctrl < end = ctrl + buckets`. -/
def hbScanFrom (ctrlAt : Nat → Bytes) (buckets : Nat) : Nat → Nat → List Nat
  | 0, _ => []
  | fuel + 1, g =>
    (groupFull (ctrlAt g)).map (16 * g + ·) ++
      (if 16 * (g + 1) ≥ buckets then [] else hbScanFrom ctrlAt buckets fuel (g + 1))

def hbScan (ctrlAt : Nat → Bytes) (buckets : Nat) : List Nat := hbScanFrom ctrlAt buckets (buckets / 16 + 1) 0

/-! ## decoding -/

structure Data where
  bytes : Bytes
  addr : Option Nat
deriving Inhabited

structure Ctx where
  g : Graph
  /-- `read_memory_by_pid addr len` -/
  rd : Nat → Nat → Option Bytes
  /-- rustc minor version of the unit -/
  ver : Nat

def tyFuel : Nat := 32

def Ctx.ident (c : Ctx) (id : Nat) : Ident := identity c.g tyFuel id
def Ctx.size (c : Ctx) (id : Nat) : Option Nat := typeSize c.g tyFuel id

def sliceBytes (bs : Bytes) (off len : Nat) : Option Bytes :=
  if off + len ≤ bs.length then some ((bs.drop off).take len) else none

/-- `StructureMember::value` (constant offsets; a read outside the parent's bytes has no model: `none`) -/
def memberData (c : Ctx) (m : Member) (d : Data) : Option Data := do
  let ty ← m.ty
  let size ← c.size ty
  let loc ← m.loc
  let off ← loc
  if off < 0 then none else
  let bs ← sliceBytes d.bytes off.toNat size
  some ⟨bs, d.addr.map (· + off.toNat)⟩

def intKind (signed : Bool) (size : Nat) (name : Option String) : Option IK :=
  match signed, size with
  | true, 1 => some .i8 | true, 2 => some .i16 | true, 4 => some .i32
  | true, 8 => some (if name == some "isize" then .isize else .i64) | true, 16 => some .i128
  | false, 1 => some .u8 | false, 2 => some .u16 | false, 4 => some .u32
  | false, 8 => some (if name == some "usize" then .usize else .u64) | false, 16 => some .u128
  | _, _ => none

/-- Unicode scalar values (what a Rust `char` may hold) -/
def validChar (n : Nat) : Bool := n < 0xD800 || (0xE000 ≤ n && n ≤ 0x10FFFF)

/-- `parse_scalar`'s value view -/
def scalarValue (name : Option String) (size : Option Nat) (enc : Option Nat) (d : Option Data) : Option Scalar :=
  let word (k : Nat) : Option Nat := d.bind fun d => if k ≤ d.bytes.length then some (leNat (d.bytes.take k)) else none
  match enc with
  | none => none
  | some 1 => (word 8).map fun n => .num .usize n                        -- DW_ATE_address
  | some 6 => (word 1).map fun n => .num .i8 (toSigned 1 n)             -- DW_ATE_signed_char
  | some 8 => (word 1).map fun n => .num .u8 n                           -- DW_ATE_unsigned_char
  | some 5 =>                                                             -- DW_ATE_signed
    let sz := size.getD 0
    if sz = 0 then some .empty else
    match intKind true sz name with
    | some k => (word sz).map fun n => .num k (toSigned sz n)
    | none => none
  | some 7 =>                                                             -- DW_ATE_unsigned
    let sz := size.getD 0
    if sz = 0 then some .empty else
    match intKind false sz name with
    | some k => (word sz).map fun n => .num k n
    | none => none
  | some 4 =>                                                             -- DW_ATE_float
    match size.getD 0 with
    | 4 => (word 4).map .f32
    | 8 => (word 8).map .f64
    | _ => none
  | some 2 => (word 1).map fun n => .bool (n != 0)                        -- DW_ATE_boolean
  | some 16 => (word 4).map fun n => .chr (if validChar n then n else 63)   -- DW_ATE_UTF ('?' for a non-scalar value)
  | some 18 => (word 4).map .chr                                          -- DW_ATE_ASCII
  | some _ => none

/-- which re-interpretation `parse_inner` selects for a structure (in the order of the `if` chain) -/
inductive SpecKind where
  | str | string | vec | tls | hashmap | hashset | btreemap | btreeset | vecdeque | cell | refcell | rc | arc
  | uuid | instant | systime | plain
deriving Inhabited, BEq, Repr

def tlsNs (ver : Nat) : List String :=
  if ver < 77 then ["std", "sys", "common", "thread_local", "fast_local"]
  else if ver < 78 then ["std", "sys", "pal", "common", "thread_local", "fast_local"]
  else if ver < 89 then ["std", "sys", "thread_local", "fast_local"]
  else ["std", "sys", "thread_local", "native"]

def specKind (ver : Nat) (name : Option String) (ns : List String) : SpecKind :=
  let sw (p : String) : Bool := match name with | some n => n.startsWith p | none => false
  if name == some "&str" then .str
  else if name == some "String" then .string
  else if sw "Vec" && nsContains ns ["vec"] then .vec
  else if nsContains ns (tlsNs ver) then .tls
  else if sw "HashMap" && nsContains ns ["collections", "hash", "map"] then .hashmap
  else if sw "HashSet" && nsContains ns ["collections", "hash", "set"] then .hashset
  else if sw "BTreeMap" && nsContains ns ["collections", "btree", "map"] then .btreemap
  else if sw "BTreeSet" && nsContains ns ["collections", "btree", "set"] then .btreeset
  else if sw "VecDeque" && nsContains ns ["collections", "vec_deque"] then .vecdeque
  else if sw "Cell" && nsContains ns ["cell"] then .cell
  else if sw "RefCell" && nsContains ns ["cell"] then .refcell
  else if (sw "Rc<" || sw "Weak<") && nsContains ns ["rc"] then .rc
  else if (sw "Arc<" || sw "Weak<") && nsContains ns ["sync"] then .arc
  else if name == some "Uuid" && nsContains ns ["uuid"] then .uuid
  else if name == some "Instant" && nsContains ns ["std", "time"] then .instant
  else if name == some "SystemTime" && nsContains ns ["std", "time"] then .systime
  else .plain

def lookupTParam (tps : List (String × Option Nat)) (n : String) : Option Nat :=
  match tps.find? (·.1 == n) with
  | some (_, some t) => some t
  | _ => none

/-- `extract_capacity` -/
def extractCapacity (ver : Nat) (v : Val) : Option Nat :=
  if ver < 76 then (assumeScalarNumber v "cap").map Int.toNat
  else match assumeStruct v "cap" with
    | some (.struct _ _ (.scalar _ (some (.num .usize c)) :: _) _) => some c.toNat
    | _ => none

/-! ### B-tree reflection (`specialization/btree.rs`) -/

structure LeafMarkup where
  parent : Member
  parentIdx : Member
  len : Member
  keys : Member
  vals : Member
  size : Nat

structure InternalMarkup where
  data : Member
  edges : Member
  size : Nat

def memberStarts (m : Member) (p : String) : Bool := match m.name with | some n => n.startsWith p | none => false

/-- children a type pushes in `ComplexType::bfs_iterator` -/
def typeChildren (g : Graph) (id : Nat) : List Nat :=
  match g id with
  | some (.array _ elem _ _ _) => elem.toList
  | some (.cenum _ _ _ discr _) => discr.toList
  | some (.ptr _ _ t) => t.toList
  | some (.struct _ _ _ members tps) => members.filterMap (·.ty) ++ tps.filterMap (·.2)
  | some (.union _ _ _ members) => members.filterMap (·.ty)
  | some (.renum _ _ _ discr enums) => (discr.bind (·.ty)).toList ++ enums.filterMap (·.2.ty)
  | some (.modified _ _ _ inner) => inner.toList
  | _ => []

/-- first structure in breadth-first order from `start` whose name starts with `pfx` and whose type parameters
    mention both `k` and `v`: (members, byte_size) -/
def findNodeType (g : Graph) (pfx : String) (k v : Nat) : Nat → List Nat → Option (List Member × Option Nat)
  | 0, _ => none
  | fuel + 1, level =>
    let hit := level.findSome? fun id =>
      match g id with
      | some (.struct (some name) _ size members tps) =>
        if name.startsWith pfx && tps.any (·.2 == some v) && tps.any (·.2 == some k) then some (members, size) else none
      | _ => none
    match hit with
    | some h => some h
    | none =>
      let next := level.flatMap (typeChildren g)
      if next.isEmpty then none else findNodeType g pfx k v fuel next

def leafMarkup (g : Graph) (mapId k v : Nat) : Option LeafMarkup := do
  let (members, size) ← findNodeType g "LeafNode" k v 12 [mapId]
  let size ← size
  let parent ← members.find? (memberStarts · "parent")
  let parentIdx ← members.find? (memberStarts · "parent_idx")
  let len ← members.find? (memberStarts · "len")
  let keys ← members.find? (memberStarts · "keys")
  let vals ← members.find? (memberStarts · "vals")
  some ⟨parent, parentIdx, len, keys, vals, size⟩

def internalMarkup (g : Graph) (mapId k v : Nat) : Option InternalMarkup := do
  let (members, size) ← findNodeType g "InternalNode" k v 12 [mapId]
  let size ← size
  let data ← members.find? (memberStarts · "data")
  let edges ← members.find? (memberStarts · "edges")
  some ⟨data, edges, size⟩

structure Leaf where
  parent : Option Nat
  parentIdx : Nat
  len : Nat
  keysAddr : Option Nat
  keys : Bytes
  valsAddr : Option Nat
  vals : Bytes
deriving Inhabited

structure Node where
  leaf : Leaf
  edges : List Nat
  height : Nat
deriving Inhabited

def leafFromBytes (c : Ctx) (mk : LeafMarkup) (d : Data) : Option Leaf := do
  let p ← memberData c mk.parent d
  if p.bytes.length != 8 then none else
  let l ← memberData c mk.len d
  if l.bytes.length != 2 then none else
  let pi ← memberData c mk.parentIdx d
  if pi.bytes.length != 2 then none else
  let ks ← memberData c mk.keys d
  let vs ← memberData c mk.vals d
  let pp := leNat p.bytes
  some ⟨if pp = 0 then none else some pp, leNat pi.bytes, leNat l.bytes, ks.addr, ks.bytes, vs.addr, vs.bytes⟩

def wordsOf : Nat → Bytes → List Nat
  | 0, _ => []
  | n + 1, bs => if bs.length < 8 then [] else leNat (bs.take 8) :: wordsOf n (bs.drop 8)

def makeNode (c : Ctx) (lm : LeafMarkup) (im : InternalMarkup) (ptr height : Nat) : Option Node :=
  if height = 0 then do
    let bs ← c.rd ptr lm.size
    let leaf ← leafFromBytes c lm ⟨bs, some ptr⟩
    some ⟨leaf, [], 0⟩
  else do
    let bs ← c.rd ptr im.size
    let d : Data := ⟨bs, some ptr⟩
    let e ← memberData c im.edges d
    let edges := wordsOf (e.bytes.length / 8) e.bytes
    if edges.length != 12 then none else
    let ld ← memberData c im.data d
    let leaf ← leafFromBytes c lm ld
    some ⟨leaf, edges, height⟩

/-- descend along edge 0 to a leaf (`first_leaf_edge`, and the tail of `next_leaf_edge`) -/
def descend (c : Ctx) (lm : LeafMarkup) (im : InternalMarkup) : Nat → Node → Option Node
  | 0, _ => none
  | fuel + 1, n =>
    if n.height = 0 then some n else do
      let e ← n.edges[0]?
      let child ← makeNode c lm im e (n.height - 1)
      descend c lm im fuel child

/-- one `KVIterator::next` from handle (node, idx): climbs while `idx ≥ len`, yields the kv, returns the next handle -/
def btNext (c : Ctx) (lm : LeafMarkup) (im : InternalMarkup) (ks vs : Nat) :
    Nat → Node → Nat → Option (Option ((Data × Data) × (Node × Nat)))
  | 0, _, _ => none
  | fuel + 1, n, idx =>
    if idx < n.leaf.len then do
      let kb ← sliceBytes n.leaf.keys (ks * idx) ks
      let vb ← sliceBytes n.leaf.vals (vs * idx) vs
      let kd : Data := ⟨kb, n.leaf.keysAddr.map (· + ks * idx)⟩
      let vd : Data := ⟨vb, n.leaf.valsAddr.map (· + vs * idx)⟩
      if n.height = 0 then some (some ((kd, vd), (n, idx + 1)))
      else do
        let e ← n.edges[idx + 1]?
        let child ← makeNode c lm im e (n.height - 1)
        let leaf ← descend c lm im 64 child
        some (some ((kd, vd), (leaf, 0)))
    else
      match n.leaf.parent with
      | none => some none
      | some p => do
        let parent ← makeNode c lm im p (n.height + 1)
        btNext c lm im ks vs fuel parent n.leaf.parentIdx

def btCollect (c : Ctx) (lm : LeafMarkup) (im : InternalMarkup) (ks vs : Nat) :
    Nat → Node → Nat → Option (List (Data × Data))
  | 0, _, _ => none
  | fuel + 1, n, idx =>
    match btNext c lm im ks vs 64 n idx with
    | none => none
    | some none => some []
    | some (some (kv, (n', idx'))) => (btCollect c lm im ks vs fuel n' idx').map (kv :: ·)

def btFuel : Nat := 100000

/-! ### the parser -/

def utf8Valid (bs : Bytes) : Bool := ByteArray.validateUTF8 (ByteArray.mk (bs.map UInt8.ofNat).toArray)

def usizeScalar (n : Nat) : Val := .scalar "usize" (some (.num .usize n))

/-- the `VecValue` structure both `Vec` and `VecDeque` produce -/
def vecStructure (c : Ctx) (origTy : String) (inner : Nat) (items : List Val) (cap : Nat)
    (tps : List (String × Option Nat)) : Val :=
  .struct origTy [some "buf", some "cap"]
    [.array ("[" ++ (c.ident inner).nameFmt ++ "]") 0 items, usizeScalar cap] tps

abbrev Rec := Option Data → Nat → Option Val

/-- `parse_struct_member`: `none` = the member is dropped -/
def parseMember (c : Ctx) (rec : Rec) (m : Member) (parent : Option Data) : Option (Option String × Val) :=
  match m.ty with
  | none => none
  | some ty =>
    let md := parent.bind (memberData c m)
    (rec md ty).map fun v => (m.name, v)

def parseMembers (c : Ctx) (rec : Rec) (d : Option Data) : List Member → List (Option String × Val)
  | [] => []
  | m :: ms =>
    match parseMember c rec m d with
    | some r => r :: parseMembers c rec d ms
    | none => parseMembers c rec d ms

/-- `parse_struct_variable` -/
def parseStruct (c : Ctx) (rec : Rec) (d : Option Data) (id : Nat) (members : List Member)
    (tps : List (String × Option Nat)) : Val :=
  let ms := parseMembers c rec d members
  .struct (c.ident id).show (ms.map (·.1)) (ms.map (·.2)) tps

/-- element `i` of a chunked buffer starting at `base` (all chunks parse, as in the code) -/
def parseItems (rec : Rec) (el elSize : Nat) (base : Option Nat) (i : Nat) : List Bytes → List Val
  | [] => []
  | ch :: rest =>
    match rec (some ⟨ch, base.map (· + i * elSize)⟩) el with
    | some v => v :: parseItems rec el elSize base (i + 1) rest
    | none => parseItems rec el elSize base (i + 1) rest

/-- elements at explicit physical slots of a buffer (`VecDeque`) -/
def parseSlots (rec : Rec) (el elSize : Nat) (ptr : Nat) (buf : Bytes) : List Nat → Option (List Val)
  | [] => some []
  | s :: rest =>
    match sliceBytes buf (s * elSize) elSize with
    | none => none   -- the code panics on the slice
    | some ch =>
      match rec (some ⟨ch, some (ptr + s * elSize)⟩) el, parseSlots rec el elSize ptr buf rest with
      | some v, some vs => some (v :: vs)
      | none, some vs => some vs
      | _, none => none

/-- hashbrown buckets → (key, value) members of the `(K, V)` tuple -/
def parseBuckets (c : Ctx) (rec : Rec) (kv kvSize ctrl : Nat) : List Nat → Option (List (Val × Val))
  | [] => some []
  | i :: rest =>
    let loc := ctrl - (i + 1) * kvSize
    let d : Option Data := (c.rd loc kvSize).map fun bs => ⟨bs, some loc⟩
    match rec d kv with
    | some (.struct _ _ [k, v] _) => (parseBuckets c rec kv kvSize ctrl rest).map ((k, v) :: ·)
    | _ => none

def parsePairs (rec : Rec) (k v : Nat) : List (Data × Data) → List (Val × Val)
  | [] => []
  | (kd, vd) :: rest =>
    match rec (some kd) k, rec (some vd) v with
    | some a, some b => (a, b) :: parsePairs rec k v rest
    | _, _ => parsePairs rec k v rest

/-- the re-interpretations; `none` = the interpretation failed (`Specialized { value: None }`) -/
def specialize (c : Ctx) (rec : Rec) (k : SpecKind) (sv : Val) (id : Nat) (tps : List (String × Option Nat)) : Option Val :=
  match k with
  | .str => do
    let len := guardLen (← assumeScalarNumber sv "length")
    let p ← assumePointer sv "data_ptr"
    if len < 0 then none else
    let bs ← c.rd p len.toNat
    if utf8Valid bs then some (.specStr false sv bs) else none
  | .string => do
    let len := guardLen (← assumeScalarNumber sv "len")
    let p ← assumePointer sv "pointer"
    if len < 0 then none else
    let bs ← c.rd p len.toNat
    if utf8Valid bs then some (.specStr true sv bs) else none
  | .vec => do
    let inner ← lookupTParam tps "T"
    let len := guardLen (← assumeScalarNumber sv "len")
    let cap := guardCap (← extractCapacity c.ver sv)
    let p ← assumePointer sv "pointer"
    let el ← c.size inner
    if len < 0 then none else
    let raw ← c.rd p (len.toNat * el)
    let n := if el = 0 then len.toNat else (raw.length + el - 1) / el
    let items := parseItems rec inner el (some p) 0 (chunks el n raw)
    some (.specVec false sv (vecStructure c sv.tyName inner items cap.toNat tps))
  | .vecdeque => do
    let inner ← lookupTParam tps "T"
    let len0 ← assumeScalarNumber sv "len"
    if len0 < 0 then none else
    let len := (guardLen len0).toNat
    let el ← c.size inner
    -- the REAL capacity positions the ring; `guard_cap` only limits the capacity that is shown
    let cap ← if el = 0 then some (2 ^ 64 - 1) else extractCapacity c.ver sv
    let head0 ← assumeScalarNumber sv "head"
    -- `… as usize`: a head ≥ 2^63 (zero-sized elements: the ring index wraps freely) comes back from i64 unchanged
    let head := (head0 % (2 ^ 64 : Nat)).toNat
    let r := ringRanges cap head len
    let p ← assumePointer sv "pointer"
    -- only the shown slots are read: the head part at its slot, the wrapped part at slot 0 (checked address arithmetic)
    if p + (r.1 + r.2.1) * el ≥ 2 ^ 64 ∨ p + r.2.2 * el ≥ 2 ^ 64 then none else
    let d0 ← c.rd (p + r.1 * el) (r.2.1 * el)
    let d1 ← c.rd p (r.2.2 * el)
    let items0 ← parseSlots rec inner el (p + r.1 * el) d0 (List.range r.2.1)
    let items1 ← parseSlots rec inner el p d1 (List.range r.2.2)
    some (.specVec true sv (vecStructure c sv.tyName inner (items0 ++ items1) (if el = 0 then 0 else (guardCap cap).toNat) tps))
  | .hashmap | .hashset => do
    let ctrl ← assumePointer sv "pointer"
    let mask ← assumeScalarNumber sv "bucket_mask"
    let table ← assumeStruct sv "table"
    let kv ← match table with | .struct _ _ _ ttps => lookupTParam ttps "T" | _ => none
    let kvSize ← c.size kv
    if mask < 0 then none else
    let buckets := mask.toNat + 1
    -- every group the iterator loads must be readable
    let groups := List.range (if buckets ≤ 16 then 1 else (buckets + 15) / 16)
    let loaded ← groups.mapM fun g => c.rd (ctrl + 16 * g) 16
    let idx := hbScan (fun g => loaded.getD g []) buckets
    let kvs ← parseBuckets c rec kv kvSize ctrl idx
    if k == .hashmap then some (.specMap false sv (kvs.map (·.1)) (kvs.map (·.2)))
    else some (.specSet false sv (kvs.map (·.1)))
  | .btreemap =>
    -- a map that never held an element: `root` is the variant `None`
    if assumeRustEnumVariant sv "root" == some (some (some "None")) then some (.specMap true sv [] []) else do
    let height ← assumeScalarNumber sv "height"
    let ptr ← assumePointer sv "pointer"
    let kt ← lookupTParam tps "K"
    let vt ← lookupTParam tps "V"
    let im ← internalMarkup c.g id kt vt
    let lm ← leafMarkup c.g id kt vt
    let ks ← c.size kt
    let vs ← c.size vt
    if height < 0 then none else
    let root ← makeNode c lm im ptr height.toNat
    let first ← descend c lm im 64 root
    let pairs ← btCollect c lm im ks vs btFuel first 0
    let kvs := parsePairs rec kt vt pairs
    some (.specMap true sv (kvs.map (·.1)) (kvs.map (·.2)))
  | .btreeset =>
    (bfsFind (fun (f, ch) => match ch with
        | .specMap true _ ks _ => if f.is "map" then some ks else none
        | _ => none) bfsFuel [(Field.root, sv)]).map fun ks => .specSet true sv ks
  | .cell => do
    let u ← assumeStruct sv "value"
    match u with
    | .struct _ _ (v :: _) _ => some (.specCell false sv v)
    | _ => none
  | .refcell => do
    let borrow ← bfsFind (fun (_, ch) => match ch with | .specCell false _ v => some v | _ => none) bfsFuel [(Field.root, sv)]
    let borrow ← match borrow with | .scalar ty s => some (Val.scalar ty s) | _ => none
    let u ← assumeStruct sv "value"
    match u with
    | .struct _ (n :: _) (v :: _) _ => some (.specCell true sv (.struct sv.tyName [some "borrow", n] [borrow, v] []))
    | _ => none
  | .rc => (assumePointerVal sv "pointer").map (.specRc false sv ·)
  | .arc => (assumePointerVal sv "pointer").map (.specRc true sv ·)
  | .tls => some (.specOther "tls" sv)
  | .uuid | .instant | .systime => some (.specOther "other" sv)
  | .plain => some sv

/-- the variant `parse_rust_enum` shows for discriminant number `v`: the one keyed `v`, else the default one -/
def selectVariant (enums : List (Option Int × Member)) (v : Int) : Option Member :=
  match enums.find? (·.1 == some v) with
  | some e => some e.2
  | none => (enums.find? (·.1 == none)).map (·.2)

/-- `parse_rust_enum`: an enum WITHOUT discriminant member that has a single variant shows that variant; otherwise the
    variant is selected by the discriminant value read from memory (none read: nothing shown) -/
def chooseVariant (discr : Option Member) (enums : List (Option Int × Member)) (dv : Option Int) : Option Member :=
  if discr.isNone && enums.length == 1 then enums.head?.map (·.2) else dv.bind (selectVariant enums)

/-- `parse_inner` (fuel = nesting depth of the type) -/
def parseInner (c : Ctx) : Nat → Option Data → Nat → Option Val
  | 0, _, _ => none
  | fuel + 1, d, id =>
    let rec' : Rec := parseInner c fuel
    match c.g id with
    | none => none
    | some (.scalar name ns size enc) => some (.scalar (Ident.show ⟨ns, name⟩) (scalarValue name size enc d))
    | some (.struct name ns _ members tps) =>
      let sv := parseStruct c rec' d id members tps
      some (match specKind c.ver name ns with
        | .plain => sv
        | k => match specialize c rec' k sv id tps with
          | some v => v
          | none => .specNone sv)
    | some (.union _ _ _ members) => some (parseStruct c rec' d id members [])
    | some (.array _ elem lb len _) =>
      let ty := (c.ident id).show
      some (match len with
        | none => .arrayNone ty
        | some len =>
          let base := lb.getD 0
          if len = 0 then .array ty base []
          else if len < 0 then .arrayNone ty
          else match d, c.size id, elem with
            | some d, some total, some el =>
              let elSize := total / len.toNat
              let n := if elSize = 0 then len.toNat else (d.bytes.length + elSize - 1) / elSize
              .array ty base (parseItems rec' el elSize d.addr 0 (chunks elSize n d.bytes))
            | _, _, _ => .arrayNone ty)
    | some (.cenum _ _ _ discr enums) =>
      let ty := (c.ident id).show
      let num := match discr with
        | none => none
        | some dt => match rec' d dt with
          | some (.scalar _ (some s)) => s.asNumber
          | _ => none
      some (.cenum ty (num.bind fun n => (enums.find? (·.1 == n)).map (·.2)))
    | some (.renum _ _ _ discr enums) =>
      let ty := (c.ident id).show
      let dv : Option Int := match discr with
        | none => none
        | some m => match parseMember c rec' m d with
          | some (_, .scalar _ (some s)) => s.asNumber
          | _ => none
      let en : Option Member := chooseVariant discr enums dv
      some (match en.bind (parseMember c rec' · d) with
        | some (n, v) => .renum ty n v
        | none => .renumNone ty)
    | some (.ptr _ _ target) =>
      let i := c.ident id
      let i := if i.name.isNone then (match target with
        | some t => let ti := c.ident t; ⟨ti.ns, some ("*" ++ ti.nameFmt)⟩
        | none => i) else i
      let v := d.bind fun d => if 8 ≤ d.bytes.length then some (leNat (d.bytes.take 8)) else none
      some (.ptr i.show v target)
    | some (.sub ..) => some .sub
    | some (.modified _ _ _ inner) =>
      let ty := (c.ident id).show
      some (match inner.bind (rec' d) with
        | some v => .modified ty v
        | none => .modifiedNone ty)

def parseFuel : Nat := 48

/-- a variable / argument / static / dereferenced pointer: `size(type)` bytes at `addr` -/
def decodeAt (c : Ctx) (id addr : Nat) : Option Val :=
  let d : Option Data := (c.size id).bind fun sz => (c.rd addr sz).map fun bs => ⟨bs, some addr⟩
  parseInner c parseFuel d id

/-- `PointerValue::slice(None.., right)` as the harness calls it: `count` elements of the target type at `addr` -/
def decodeSlice (c : Ctx) (id addr from_ to : Nat) : Option Val := do
  let el ← c.size id
  let base := addr + el * from_
  let raw ← c.rd base (el * (to - from_))
  let n := if el = 0 then 0 else (raw.length + el - 1) / el
  some (.array ("[" ++ (c.ident id).nameFmt ++ "]") 0 (parseItems (parseInner c parseFuel) id el (some base) 0 (chunks el n raw)))

end BsVerif.Value
