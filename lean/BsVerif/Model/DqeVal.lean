import BsVerif.Model.Dqe
/-!
Model of the DQE operators on value trees: `Value::{field, index, slice, deref, address, canonic}` and
`match_literal` of `src/debugger/variable/value/mod.rs`, and of `DqeExecutor::apply_dqe` (`execute.rs`) for one root.

`Val` abstracts `Value`: type names and identifiers are dropped; absolute addresses are replaced by what they point to
(a pointer carries the run of values that memory holds from its target on: `*p` is the head of the run, `p[l..r]` a
segment of it), so memory is *consistent by construction* — that the real debugger re-reads the same value through a
pointer it just made is what the correspondence run checks.  A value remembers its full in-memory image where an
operator changes the value without changing its address (`slice` on arrays/vectors): `&` takes the address of the image.

A slice whose range does not fit (`left > len`, `right < left`, a pointer to a zero-sized type) has no result
(`Res.none`); before BugStalker ccf13b4 / d97590b these were panics (`items.drain(..left)` past the end,
`right - left` below zero, `chunks(0)`: C08's repaired defects).  `Res.panic` is still threaded through `eval`,
no operator produces it any more.
Core Lean only.
-/
namespace BsVerif.Dqe

inductive Val
  | int (v : Int)                      -- integer scalar, its true value (any width)
  | float (t : Str)                    -- float scalar (text; matching of float literals is not modelled)
  | bool (b : Bool)
  | chr (c : Str)                      -- `char` as the string `c.to_string()`
  | unit                               -- `()`
  | noval                              -- scalar without a value
  | synth (b : Bool)                   -- the `bool` made by indexing a set: no address, no type id
  | struct (opq : Bool) (ms : List (Option Str × Val))   -- opq: a standard-library structure (rendered `O`)
  | array (typed : Bool) (items full : List Val)            -- `full`: the array as it lies in memory
  | cenum (v : Str)
  | renum (variant : Str) (v : Val)
  | ptr (derefable loc : Bool) (run : List Val)             -- pointer with a value; `run`: memory from the target on;
                                                            -- `loc = false`: made by `&`, it has no address itself
  | subr
  | vec (dq : Bool) (buf : Val) (orig : Val)                -- Vec / VecDeque: `structure.members[0]` is `buf`
  | map (bt : Bool) (kvs : List (Val × Val)) (orig : Val)   -- BTreeMap / HashMap, in the decoder's order
  | set (bt : Bool) (items : List Val) (orig : Val)
  | string (s : Str) (orig : Val)                           -- String / &str
  | rc (run : List Val) (orig : Val)                        -- Rc / Arc
  | cell (v : Val) (orig : Val)                             -- Cell / RefCell
  | canon (orig : Val) (self : Val)                         -- `~x`: the underlying structure `orig` of the specialized value `self`
                                                            -- (same address and type id as `self`)
  | other                                                   -- anything else (specialized without value, Tls, ...)
  deriving Repr, Inhabited

inductive Res (α : Type)
  | ok (v : α)
  | none            -- the operator does not apply: no result
  | panic (cls : String)
  deriving Repr, Inhabited

/-- `x as i64` for an integer of any width -/
def toI64 (v : Int) : Int := (v + 2 ^ 63) % 2 ^ 64 - 2 ^ 63

/-- `*idx as usize` -/
def toUsize (i : Int) : Nat := (i % (2 ^ 64 : Int)).toNat

/-! ## match_literal -/

/-- the greedy set matching of `match_literal` (HashSet/BTreeSet): for every item, the first literal it matches is
removed (`swap_remove`: the last literal takes its place), else the first wildcard; `m item lit` is the recursive matcher. -/
def swapRemove {α} (l : List α) (i : Nat) : List α :=
  match l.reverse with
  | [] => []
  | last :: initRev =>
    let init := initRev.reverse
    if i = init.length then init else init.set i last

def findIdx? {α} (p : α → Bool) : List α → Nat → Option Nat
  | [], _ => none
  | x :: t, i => if p x then some i else findIdx? p t (i + 1)

def isWild : Lit → Bool
  | .wild => true
  | _ => false

def greedySet (m : Val → Lit → Bool) : List Val → List Lit → Bool
  | [], _ => true
  | it :: rest, lits =>
    match findIdx? (fun l => !isWild l && m it l) lits 0 with
    | some i => greedySet m rest (swapRemove lits i)
    | none =>
      match findIdx? isWild lits 0 with
      | some i => greedySet m rest (swapRemove lits i)
      | none => false

mutual
def matchLit : Val → Lit → Bool
  | .int v, .int i => toI64 v == i
  | .float t, .float neg ip fp => t == (if neg then ['-'] else []) ++ ip ++ '.' :: fp
  | .bool b, .bool b' => b == b'
  | .synth b, .bool b' => b == b'
  | .chr c, .str s => c == s
  | .string s _, .str s' => s == s'
  | .array _ items _, .arr ls => items.length == ls.length && matchAll items ls
  | .struct _ ms, .arr ls => ms.length == ls.length && matchAllM ms ls
  | .struct _ ms, .assoc kvs => assocLen kvs == ms.length && matchMembers ms kvs
  | .cenum v, .enumV name none => v == name
  | .renum variant v, .enumV name arg =>
    variant == name && (match arg with
      | none => true
      | some l => matchLit v l)
  | .vec _ buf _, l => matchLit buf l
  | .cell v _, l => matchLit v l
  | .canon o _, l => matchLit o l
  | .set _ items _, .arr ls => items.length == ls.length && matchSet items ls
  | _, _ => false
/-- positional matching; a wildcard matches anything -/
def matchAll : List Val → List Lit → Bool
  | [], _ => true
  | _ :: _, [] => true
  | v :: vs, l :: ls => (isWild l || matchLit v l) && matchAll vs ls
/-- the same for the members of a structure (a tuple) -/
def matchAllM : List (Option Str × Val) → List Lit → Bool
  | [], _ => true
  | _ :: _, [] => true
  | (_, v) :: vs, l :: ls => (isWild l || matchLit v l) && matchAllM vs ls
def matchMembers : List (Option Str × Val) → List (Str × Lit) → Bool
  | [], _ => true
  | (none, _) :: _, _ => false
  | (some n, v) :: ms, kvs =>
    (match assocGet kvs n with
      | none => false
      | some l => isWild l || matchLit v l) && matchMembers ms kvs
/-- `greedySet matchLit`, unfolded for the termination checker -/
def matchSet : List Val → List Lit → Bool
  | [], _ => true
  | it :: rest, lits =>
    match findIdx? (fun l => !isWild l && matchLit it l) lits 0 with
    | some i => matchSet rest (swapRemove lits i)
    | none =>
      match findIdx? isWild lits 0 with
      | some i => matchSet rest (swapRemove lits i)
      | none => false
end

/-! ## operators -/

/-- `ArrayValue::slice`: `None` when `left > len` or `right < left` -/
def sliceItems (items : List Val) (l r : Option Nat) : Res (List Val) :=
  let lo := l.getD 0
  if lo > items.length then .none
  else
    let rest := items.drop lo
    match r with
    | none => .ok rest
    | some r =>
      if r < lo then .none
      else if r - lo < rest.length then .ok (rest.take (r - lo)) else .ok rest

def isStrKey (name : Str) : Val → Bool
  | .string s _ => s == name
  | _ => false

def field (name : Str) : Val → Option Val
  | .struct _ ms => (ms.find? (fun m => m.1 == some name)).map (·.2)
  | .renum _ v => field name v
  | .map _ kvs _ => (kvs.find? (fun kv => isStrKey name kv.1)).map (·.2)
  | .vec _ buf _ => if name == ['b', 'u', 'f'] then some buf else none
  | .cell v _ => field name v
  | .canon o _ => field name o
  | _ => none

def index (l : Lit) : Val → Option Val
  | .array _ items _ =>
    match l with
    | .int i => items[toUsize i]?
    | _ => none
  | .renum _ v => index l v
  | .vec _ buf _ => index l buf
  | .cell v _ => index l v
  | .map _ kvs _ => (kvs.find? (fun kv => matchLit kv.1 l)).map (·.2)
  | .set _ items _ => some (.synth (items.any (fun it => matchLit it l)))
  | _ => none

def isUnit : List Val → Bool
  | .unit :: _ => true
  | _ => false

/-- `PointerValue::slice` within the known run; reads past it are outside the model (`other`) -/
def ptrSlice (run : List Val) (l : Option Nat) (r : Nat) : Res Val :=
  let lo := l.getD 0
  if isUnit run then .none                       -- `deref_size == 0`: a zero-sized pointee
  else if r < lo then .none                      -- `right.checked_sub(left)?`
  else if r ≤ run.length then .ok (.array false ((run.drop lo).take (r - lo)) ((run.drop lo).take (r - lo)))
  else .ok .other

def slice (l r : Option Nat) : Val → Res Val
  | .array t items full => match sliceItems items l r with
    | .ok xs => .ok (.array t xs full)
    | .none => .none
    | .panic c => .panic c
  | .ptr d _ run => match r with
    | none => .none
    | some r => if d then ptrSlice run l r else .none
  | .rc run _ => match r with
    | none => .none
    | some r => ptrSlice run l r
  | .vec dq (.array t items full) orig => match sliceItems items l r with
    | .ok xs => .ok (.vec dq (.array t xs full) orig)
    | .none => .none
    | .panic c => .panic c
  | .vec dq buf orig => .ok (.vec dq buf orig)
  | .cell v _ => slice l r v
  | _ => .none

def deref : Val → Option Val
  | .ptr true _ run => run.head?
  | .renum _ v => deref v
  | .rc run _ => run.head?
  | .cell v _ => deref v
  | _ => none

/-- the value as it lies in memory at the value's address -/
def memImage : Val → Val
  | .array t _ full => .array t full full
  | .vec dq (.array t _ full) orig => .vec dq (.array t full full) orig
  | .canon _ (.array t _ full) => .array t full full
  | .canon _ (.vec dq (.array t _ full) orig) => .vec dq (.array t full full) orig
  | .canon _ self => self
  | v => v

/-- does the value carry an address and a type id (needed to come back through the pointer)? -/
def derefableAddr : Val → Bool
  | .array typed _ _ => typed
  | _ => true

def address : Val → Option Val
  | .synth _ => none
  | .subr => none
  | .other => none
  | .ptr _ false _ => none
  | v => some (.ptr (derefableAddr v) false [memImage v])

def canonic : Val → Val
  | .vec dq buf orig => .canon orig (.vec dq buf orig)
  | .map bt kvs orig => .canon orig (.map bt kvs orig)
  | .set bt xs orig => .canon orig (.set bt xs orig)
  | .string s orig => .canon orig (.string s orig)
  | .rc run orig => .canon orig (.rc run orig)
  | .cell c orig => .canon orig (.cell c orig)
  | v => v

def ofOpt {α} : Option α → Res α
  | some v => .ok v
  | none => .none

/-- `apply_dqe` for one root value (`env`: the variables in scope) -/
def eval (env : Str → Option Val) : Dqe → Res Val
  | .var name => ofOpt (env name)
  | .ptrCast _ _ => .none
  | .field e f => match eval env e with
    | .ok v => ofOpt (field f v)
    | r => r
  | .index e l => match eval env e with
    | .ok v => ofOpt (index l v)
    | r => r
  | .slice e l r => match eval env e with
    | .ok v => slice l r v
    | x => x
  | .deref e => match eval env e with
    | .ok v => ofOpt (deref v)
    | r => r
  | .address e => match eval env e with
    | .ok v => ofOpt (address v)
    | r => r
  | .canonic e => match eval env e with
    | .ok v => .ok (canonic v)
    | r => r

end BsVerif.Dqe
