import BsVerif.Model.Lines
/-!
Model of BugStalker's load-address bookkeeping
(src/debugger/debugee/registry.rs, src/debugger/address.rs, src/debugger/debugee/mod.rs `update_debug_info_registry`,
src/debugger/breakpoint.rs `refresh_deferred`).

* Objects (the executable, shared libraries) are natural numbers (the harness numbers the canonical paths).
* `MapE` is one line of /proc/<pid>/maps that names an object; `updateMappings` mirrors `DwarfRegistry::update_mappings`:
  per registered file the mapping OFFSET is the lowest `start` of its lines (`min_by`), the RANGE runs from there to
  `start + size` of the line with the greatest `start` (`max_by`, the last of equal ones); ranges are then sorted by `from`.
  NOTE the quirk this file mirrors: the offset is an absolute address, not a load bias — nothing subtracts the `p_vaddr` of
  the first PT_LOAD, so `GlobalAddress + offset` is right only for objects linked at address 0 (PIE, shared libraries).
* `findRange` is `DwarfRegistry::find_range`: `binary_search_by` of core (the size-halving loop of `Lines.bsLoop`) with the
  comparator `Equal` if `from ≤ a ≤ to` (inclusive end!), `Greater` if `from > a`, else `Less`.
* `reloadPlan`/`applyPlan` mirror `reload_plan` and its execution in `update_debug_info_registry`.
* `refresh` mirrors `refresh_deferred` over an abstract `attempt` (what `set_breakpoint_at_*` achieves at this moment).

Core Lean only: this file is linked into `bsmodel`.
-/
namespace BsVerif.Reloc

structure MapE where
  obj : Nat
  lo : Nat
  hi : Nat
deriving Repr, DecidableEq, Inhabited

/-- `RegionRange` with the file it belongs to -/
structure Range where
  obj : Nat
  lo : Nat
  hi : Nat
deriving Repr, DecidableEq, Inhabited

def mapsOf (maps : List MapE) (o : Nat) : List MapE := maps.filter (fun m => m.obj == o)

/-- `min_by(start)`: the smallest start -/
def minLo : List MapE → Option Nat
  | [] => none
  | m :: ms => some (ms.foldl (fun a x => min a x.lo) m.lo)

/-- `max_by(start)`: the LAST element with the greatest start -/
def maxEntry : List MapE → Option MapE
  | [] => none
  | m :: ms => some (ms.foldl (fun a x => if a.lo ≤ x.lo then x else a) m)

/-- offset and range computed for one file by `update_mappings` (none: `MappingNotFound`) -/
def regionOf (maps : List MapE) (o : Nat) : Option Range :=
  match minLo (mapsOf maps o), maxEntry (mapsOf maps o) with
  | some lo, some h => some ⟨o, lo, h.hi⟩
  | _, _ => none

def insertByLo (x : Range) : List Range → List Range
  | [] => [x]
  | y :: ys => if x.lo ≤ y.lo then x :: y :: ys else y :: insertByLo x ys

/-- `sort_unstable_by(from)`; the lowest starts of different files are different addresses, so stability is immaterial -/
def sortByLo (l : List Range) : List Range := l.foldr insertByLo []

/-- `DwarfRegistry` (debug information itself is not modelled: `files` is the key set of the map) -/
structure Registry where
  program : Nat
  files : List Nat
  ranges : List Range := []
  mappings : List (Nat × Nat) := []
deriving Repr, Inhabited

def Registry.updateMappings (r : Registry) (onlyMain : Bool) (maps : List MapE) : Registry :=
  let fs := if onlyMain then r.files.filter (fun f => f == r.program) else r.files
  let rs := fs.filterMap (regionOf maps)
  { r with ranges := sortByLo rs, mappings := rs.map (fun x => (x.obj, x.lo)) }

/-- `find_mapping_offset_for_file` -/
def Registry.offsetOfObj (r : Registry) (o : Nat) : Option Nat := r.mappings.lookup o

def keyAt (rs : List Range) (i : Nat) : Nat :=
  match rs[i]? with
  | some r => r.lo
  | none => 0

/-- `find_range` -/
def findRange (rs : List Range) (a : Nat) : Option Range :=
  if rs.length = 0 then none
  else
    match rs[Lines.bsLoop (keyAt rs) a rs.length rs.length 0]? with
    | some r => if r.lo ≤ a ∧ a ≤ r.hi then some r else none
    | none => none

/-- `find_mapping_offset` -/
def Registry.offsetOfAddr (r : Registry) (a : Nat) : Option Nat :=
  (findRange r.ranges a).bind (fun x => r.offsetOfObj x.obj)

/-- `RelocatedAddress::into_global` (`self.0 - offset`: a `usize` subtraction) -/
def Registry.intoGlobal (r : Registry) (a : Nat) : Option Nat := (r.offsetOfAddr a).map (fun off => a - off)

/-- `GlobalAddress::relocate_to_segment` -/
def Registry.relocate (r : Registry) (g : Nat) (o : Nat) : Option Nat := (r.offsetOfObj o).map (fun off => g + off)

/-- `find_by_addr`: the object whose debug information answers for an address -/
def Registry.objOfAddr (r : Registry) (a : Nat) : Option Nat :=
  (findRange r.ranges a).bind (fun x => if r.files.contains x.obj then some x.obj else none)

/-! ## reload plan -/

/-- `reload_plan`: (to_del, to_add) -/
def reloadPlan (files : List Nat) (program : Nat) (target : List Nat) : List Nat × List Nat :=
  (files.filter (fun f => !target.contains f && f != program), target.filter (fun t => !files.contains t))

def addFile (fs : List Nat) (f : Nat) : List Nat := if fs.contains f then fs else fs ++ [f]

/-- execution of the plan in `update_debug_info_registry`: `remove` every `to_del`, parse every `to_add`
(`parse` = the file opens and is an ELF object other than "" and the vdso) and `add` it -/
def Registry.applyPlan (r : Registry) (target : List Nat) (parse : Nat → Bool) : Registry :=
  let plan := reloadPlan r.files r.program target
  let kept := r.files.filter (fun f => !plan.1.contains f)
  { r with files := (plan.2.filter parse).foldl addFile kept,
           ranges := r.ranges.filter (fun x => !plan.1.contains x.obj),
           mappings := r.mappings.filter (fun x => !plan.1.contains x.1) }

/-- `update_debug_info_registry`: what happens at the entry point and at every hit of the `r_brk` breakpoint -/
def Registry.onLoadEvent (r : Registry) (linkMap : List Nat) (parse : Nat → Bool) (maps : List MapE) : Registry :=
  (r.applyPlan linkMap parse).updateMappings false maps

/-- `DwarfRegistry::dump` = `sharedlib info`: every registered file with its range if it has one
(the order — program first, then by path — is canonicalised away by the harness) -/
def Registry.dump (r : Registry) : List (Nat × Option (Nat × Nat)) :=
  r.files.map (fun f => (f, (r.ranges.find? (fun x => x.obj == f)).map (fun x => (x.lo, x.hi))))

/-! ## deferred breakpoints -/

/-- the registry's view: enabled user breakpoints by address (a map: one entry per address), deferred requests in order -/
structure BpState where
  active : List Nat := []
  deferred : List Nat := []
deriving Repr, DecidableEq, Inhabited

/-- `HashMap::insert` on the key set -/
def addActive (l : List Nat) (a : Nat) : List Nat := if l.contains a then l else l ++ [a]

/-- `refresh_deferred`: every deferred request is attempted (`attempt q` = addresses at which a breakpoint got installed,
and whether the request succeeded); a request that succeeded leaves the list, the others stay, in order -/
def refresh (attempt : Nat → List Nat × Bool) (s : BpState) : BpState :=
  { active := s.deferred.foldl (fun acc q => (attempt q).1.foldl addActive acc) s.active,
    deferred := s.deferred.filter (fun q => !(attempt q).2) }

/-- a history of load events -/
def refreshAll : List (Nat → List Nat × Bool) → BpState → BpState
  | [], s => s
  | e :: es, s => refreshAll es (refresh e s)

end BsVerif.Reloc
