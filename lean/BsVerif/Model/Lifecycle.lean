/-!
Model of the debugger's life-cycle operations (C11): `start`, `continue`, `restart_debugee`, `detach`,
`Drop for Debugger`, the exit-status plumbing, and everything they touch —
the breakpoint registry (`add_and_enable`, `add_uninit`, `remove_by_addr`, `enable_all_breakpoints`,
`enable_entry_breakpoint`, `disable_all_breakpoints`, breakpoint numbers), the watchpoint registry
(`from_raw_addr`, `remove`, `clear_all`, `clear_local_disable_global`, `refresh`, `distribute_to_tracee`) —
together with a small model of the kernel objects they act on: processes (alive / reaped / child of the
debugger), their text, their threads (traced?, run state, DR7 enable bits).
(src/debugger/mod.rs, process.rs, breakpoint.rs, watchpoint.rs, debugee/mod.rs, debugee/tracer.rs)

The abstract program is the sequence of *sites* (addresses where breakpoints may be put) the main thread
visits, each with the number of threads alive at that moment, and the way the program ends (exit code or
death by a signal).  Addresses are global (ELF) addresses; relocation is the identity (C18).
`cont` runs until the byte at the next site is an INT3.

Core Lean only (linked into `bsmodel`).  Every recursion is structural (kernel-reducible).
-/
namespace BsVerif.Life

abbrev Addr := Nat
def INT3 : Nat := 0xCC

inductive Kind | user | entry | linker
deriving DecidableEq, Repr

/-- an enabled breakpoint of `BreakpointRegistry::breakpoints` (every registered one is enabled between commands) -/
structure Bp where
  addr : Addr
  kind : Kind
  num : Nat
  saved : Nat := 0
deriving Repr

/-- key of `disabled_breakpoints`: `Address::Global a` (true) or `Address::Relocated a` (false) -/
structure UKey where
  global : Bool
  addr : Addr
deriving DecidableEq, Repr

structure UBp where
  key : UKey
  kind : Kind
  num : Nat
deriving Repr

inductive Status | unload | inProgress | exited
deriving DecidableEq, Repr

/-- kernel run state of a thread: job-control stop before `exec` (the forked child raised SIGSTOP),
ptrace-stop, or running -/
inductive Run | groupStop | stopped | running
deriving DecidableEq, Repr

/-- local-enable bits of DR7 per slot -/
abbrev Dr7 := Nat → Bool
def Dr7.clear : Dr7 := fun _ => false

structure Thread where
  traced : Bool := true
  run : Run := .stopped
  dr7 : Dr7 := Dr7.clear

structure Site where
  addr : Addr
  nthreads : Nat
deriving Repr

/-- how the program ends after its last site -/
inductive Fin | exit (code : Nat) | abort (sig : Nat) (nthreads : Nat)
deriving DecidableEq, Repr

structure Prog where
  entry : Addr
  linker : Addr                 -- `r_brk` of the dynamic linker (outside the executable)
  orig : Addr → Nat             -- on-disk byte
  full : List Site              -- sites visited from `exec` on; the first one is the entry point
  fin : Fin

structure Proc where
  alive : Bool := true
  reaped : Bool := false
  child : Bool := true          -- child of the debugger process (launched), as opposed to attached
  code : Addr → Nat
  rest : List Site              -- sites still to be visited
  threads : List Thread
  sigStop : Bool := false       -- stopped in the signal-delivery-stop of the fatal signal
  entered : Bool := false       -- the entry-point stop has been handled (rendezvous, shared-library mappings known)

structure Wp where
  num : Nat
  addr : Addr
  slot : Option Nat             -- `HardwareBreakpoint::register`

/-- what the correspondence run compares at the ptrace boundary -/
inductive Ev
  | poke (a : Addr) (b : Nat)   -- POKETEXT inside the executable: address, low byte
  | pokeOut                     -- POKETEXT elsewhere (the linker breakpoint)
  | dr (mask : Nat)             -- POKEUSER of DR7 on one thread (enable bits)
  | detach                      -- PTRACE_DETACH
  | contStop                    -- PTRACE_CONT with SIGSTOP (Drop)
  | seize                       -- PTRACE_SEIZE (a new process was installed)
  | waitKilled                  -- waitpid: the process was killed by SIGKILL
  | waitExit (c : Nat)          -- waitpid: the process exited with a code
  | waitSig (g : Nat)           -- waitpid: the process was killed by another signal
deriving DecidableEq, Repr

structure St where
  prog : Prog
  old : List Proc := []         -- processes of earlier generations (before a restart)
  proc : Proc                   -- `Debugger::process`
  status : Status
  external : Bool               -- `process.is_external()`
  detached : Bool := false
  dropped : Bool := false
  panicked : Bool := false
  active : List Bp := []
  uninit : List UBp := []
  nextNum : Nat := 1            -- GLOBAL_BP_COUNTER
  wps : List Wp := []
  nextWp : Nat := 1             -- GLOBAL_WP_COUNTER
  lastSeen : Option Dr7 := none -- `WatchpointRegistry::last_seen_state`
  log : List Ev := []
  staleGen : Bool := false      -- the current process was created by a restart that found a registry left over by a
                                -- death by signal: the clean-up order then depends on hash-map iteration (not compared)

inductive Out
  | ok | none | err
  | stop (pc : Addr) (num : Nat)
  | exit (code : Nat)
  | signal (sig : Nat)
  | corrupt              -- SIGTRAP at an address without a registered breakpoint
  | outOfFuel
  | gone                 -- command after detach / drop
deriving DecidableEq, Repr

/-! ### text -/
def pokeByte (s : St) (a : Addr) (b : Nat) : St :=
  if s.proc.alive then
    { s with proc := { s.proc with code := fun x => if x = a then b else s.proc.code x },
             log := s.log ++ [if a = s.prog.linker then Ev.pokeOut else Ev.poke a b] }
  else s

/-! ### breakpoint registry -/
def find? (l : List Bp) (a : Addr) : Option Bp := l.find? (·.addr == a)
def erase (l : List Bp) (a : Addr) : List Bp := l.filter (·.addr != a)
def put (l : List Bp) (b : Bp) : List Bp := erase l b.addr ++ [b]

/-- `Breakpoint::disable` (fails without effect when the process is gone) -/
def bpDisable (s : St) (b : Bp) : St := pokeByte s b.addr b.saved

/-- `BreakpointRegistry::add_and_enable`; with a dead process the first PEEK fails and nothing changes -/
def addAndEnable (s : St) (b : Bp) : St :=
  if s.proc.alive then
    let s1 := match find? s.active b.addr with
      | some ex => bpDisable s ex
      | none => s
    let saved := s1.proc.code b.addr
    let s2 := pokeByte s1 b.addr INT3
    { s2 with active := put s2.active { b with saved := saved } }
  else s

def addUninit (s : St) (u : UBp) : St :=
  { s with uninit := s.uninit.filter (·.key != u.key) ++ [u] }

/-- `remove_by_addr` -/
def removeByAddr (s : St) (k : UKey) : St × Bool :=
  if s.uninit.any (·.key == k) then ({ s with uninit := s.uninit.filter (·.key != k) }, true)
  else if k.global then (s, false)
  else match find? s.active k.addr with
    | none => (s, false)
    | some b =>
      let s1 := bpDisable s b
      ({ s1 with active := erase s1.active k.addr }, true)

/-- `enable_all_breakpoints` -/
def enableAll (s : St) : St :=
  s.uninit.foldl (fun acc u => addAndEnable acc { addr := u.key.addr, kind := u.kind, num := u.num })
    { s with uninit := [] }

/-- `enable_entry_breakpoint` -/
def enableEntry (s : St) : St :=
  match s.uninit.find? (·.kind == Kind.entry) with
  | none => s
  | some u => addAndEnable { s with uninit := s.uninit.filter (·.key != u.key) }
                { addr := u.key.addr, kind := .entry, num := 0 }

/-- where a disabled breakpoint goes: user and entry breakpoints back to the uninit list under their global
address (same number), the others are dropped -/
def backToUninit (s : St) (b : Bp) : St :=
  match b.kind with
  | .user => addUninit s { key := { global := true, addr := b.addr }, kind := .user, num := b.num }
  | .entry => addUninit s { key := { global := true, addr := b.addr }, kind := .entry, num := 0 }
  | .linker => s

/-- `disable_all_breakpoints` -/
def disableAll (s : St) : St :=
  s.active.foldl (fun acc b => backToUninit (bpDisable acc b) b) { s with active := [] }

/-! ### hardware watchpoints -/
def maskOf (d : Dr7) : Nat :=
  (if d 0 then 1 else 0) + (if d 1 then 4 else 0) + (if d 2 then 16 else 0) + (if d 3 then 64 else 0)

/-- `HardwareDebugState::current(proc_pid)`: DR7 of the main thread, if it can still be read -/
def mainDr (s : St) : Option Dr7 :=
  if s.proc.alive then s.proc.threads.head?.map (·.dr7) else none

/-- `state.sync(t)` for every tracee (the log keeps the writes that change a thread's DR7) -/
def syncAll (s : St) (d : Dr7) : St :=
  { s with proc := { s.proc with threads := s.proc.threads.map fun t => { t with dr7 := d } },
           log := s.log ++ (s.proc.threads.filter fun t => maskOf t.dr7 != maskOf d).map fun _ => Ev.dr (maskOf d) }

def firstFree (d : Dr7) : Option Nat :=
  if !d 0 then some 0 else if !d 1 then some 1 else if !d 2 then some 2 else if !d 3 then some 3 else none

inductive HwRes | ok (d : Dr7) | err | panic

/-- `HardwareBreakpoint::disable` -/
def hwDisable (s : St) (w : Wp) : St × HwRes :=
  match mainDr s with
  | none => (s, .err)
  | some d =>
    match w.slot with
    | none => ({ s with panicked := true }, .panic)     -- `self.register.expect("should exist")`
    | some i =>
      let d' : Dr7 := fun j => d j && j != i
      (syncAll s d', .ok d')

/-- `HardwareBreakpoint::enable` -/
def hwEnable (s : St) : St × Option (Nat × Dr7) :=
  match mainDr s with
  | none => (s, none)
  | some d =>
    match firstFree d with
    | none => (s, none)
    | some i =>
      let d' : Dr7 := fun j => d j || j == i
      (syncAll s d', some (i, d'))

/-- `set_watchpoint_on_memory` -/
def watch (s : St) (a : Addr) : St × Out :=
  if s.status != .inProgress then (s, .err)
  else if s.wps.any (fun w => w.addr == a && w.slot.isSome) then (s, .err)
  else match hwEnable s with
    | (s1, some (i, d)) =>
      ({ s1 with wps := s1.wps ++ [{ num := s1.nextWp, addr := a, slot := some i }], nextWp := s1.nextWp + 1,
                 lastSeen := some d }, .ok)
    | (s1, none) => (s1, .err)

/-- `WatchpointRegistry::remove(idx)` for the watchpoint `w`, already taken out of the list -/
def removeWp (s : St) (w : Wp) : St × Bool :=
  match hwDisable s w with
  | (s1, .ok d) => ({ s1 with lastSeen := some d }, true)
  | (s1, _) => (s1, false)

/-- `remove_watchpoint_by_addr`: the first watchpoint on the address is taken out of the list, then disabled -/
def unwatch (s : St) (a : Addr) : St × Out :=
  match s.wps.span (fun w => w.addr != a) with
  | (_, []) => (s, .none)
  | (pre, w :: post) =>
    match removeWp { s with wps := pre ++ post } w with
    | (s1, true) => (s1, .ok)
    | (s1, false) => (s1, .err)

/-- `clear_all` -/
def clearAll (s : St) : St :=
  let s1 := s.wps.foldl (fun acc w => (removeWp acc w).1) { s with wps := [] }
  { s1 with lastSeen := none }

/-- `clear_local_disable_global` (all watchpoints of the model are unscoped): disable each, keep it registered -/
def disableWps (s : St) : St :=
  let s1 := s.wps.foldl (fun acc w =>
      match hwDisable acc w with
      | (a1, .ok _) => { a1 with wps := a1.wps ++ [{ w with slot := none }] }
      | (a1, _) => { a1 with wps := a1.wps ++ [w] })
    { s with wps := [] }
  { s1 with lastSeen := none }

/-- `WatchpointRegistry::refresh` -/
def refreshWps (s : St) : St :=
  s.wps.foldl (fun acc w =>
      match hwEnable acc with
      | (a1, some (i, d)) => { a1 with wps := a1.wps ++ [{ w with slot := some i }], lastSeen := some d }
      | (a1, none) => { a1 with wps := a1.wps ++ [w] })
    { s with wps := [] }

/-! ### running -/
/-- threads alive at a stop: the first `n` known ones, new ones get the last seen DR7 image from
`distribute_to_tracee` (the kernel starts them with cleared debug registers); all are in ptrace-stop -/
def threadsAt (ts : List Thread) (n : Nat) (d : Dr7) : List Thread :=
  ((ts.take n) ++ List.replicate (n - ts.length) ({ dr7 := d } : Thread)).map fun t => { t with run := Run.stopped }

def stopAt (s : St) (n : Nat) : St :=
  let d := s.lastSeen.getD Dr7.clear
  { s with proc := { s.proc with threads := threadsAt s.proc.threads n d },
           log := s.log ++ (if maskOf d != 0 then List.replicate (n - s.proc.threads.length) (Ev.dr (maskOf d)) else []) }

/-- `PTRACE_CONT` + `waitpid`: the main thread passes sites until one carries an INT3; at every site it reaches, the
threads alive there are known to the tracer (new ones received the last seen DR7 image) -/
def runFrom (s : St) : List Site → St
  | [] => { s with proc := { s.proc with rest := [] } }
  | x :: r =>
    let s1 := stopAt s x.nthreads
    if s1.proc.code x.addr == INT3 then { s1 with proc := { s1.proc with rest := x :: r } } else runFrom s1 r

/-- `step_over_breakpoint` -/
def stepOver (s : St) : St :=
  match s.proc.rest with
  | [] => s
  | x :: r =>
    match find? s.active x.addr with
    | none => s
    | some b =>
      let s1 := bpDisable s b
      let s2 := if s1.proc.code x.addr == INT3 then s1 else { s1 with proc := { s1.proc with rest := r } }
      let saved := s2.proc.code x.addr
      let s3 := pokeByte s2 x.addr INT3
      { s3 with active := put s3.active { b with saved := saved } }

/-- the process is gone: all its threads with it -/
def procDead (p : Proc) : Proc := { p with alive := false, reaped := p.child, threads := [] }

/-- `StopReason::DebugeeExit`: the watchpoint and breakpoint clean-up runs against a dead process -/
def onExit (s : St) (c : Nat) : St :=
  let s1 := { s with proc := procDead s.proc, status := .exited, log := s.log ++ [Ev.waitExit c] }
  disableAll (disableWps s1)

/-- death by a signal: `WaitStatus::Signaled` is ignored, the next `waitpid` fails with ECHILD:
`NoSuchProcess` — the status becomes Exited and NOTHING is cleaned up -/
def onKilled (s : St) (g : Nat) : St :=
  { s with proc := procDead s.proc, status := .exited, log := s.log ++ [Ev.waitSig g] }

def finish (s : St) : St × Out :=
  match s.prog.fin with
  | .exit c => (onExit s c, .exit c)
  | .abort g n =>
    if s.proc.sigStop then (onKilled s g, .err)
    else let s1 := stopAt s n
      -- the stop is reported through `ecx_switch_thread`, which needs the mappings of the shared libraries: they
      -- are known only once the entry-point stop has been handled; otherwise the command fails (state unchanged)
      ({ s1 with proc := { s1.proc with sigStop := true } }, if s.proc.entered then .signal g else .err)

/-- the loop of `continue_execution` -/
def traceLoop : Nat → St → St × Out
  | 0, s => (s, .outOfFuel)
  | fuel + 1, s =>
    let s1 := runFrom s s.proc.rest
    match s1.proc.rest with
    | [] => finish s1
    | x :: _ =>
      match find? s1.active x.addr with
      | none => (s1, .corrupt)
      | some b =>
        match b.kind with
        | .user => (s1, .stop x.addr b.num)
        | .linker => traceLoop fuel (stepOver s1)
        | .entry =>
          let s2 := { s1 with proc := { s1.proc with entered := true } }
          let s3 := refreshWps (enableAll s2)
          let s4 := addAndEnable s3 { addr := s3.prog.linker, kind := .linker, num := 0 }
          traceLoop fuel (stepOver s4)

def fuelFor (s : St) : Nat := s.prog.full.length + 3

/-- `continue_execution` of a not yet started process: `DebugeeStart` (exec), then the loop -/
def startFlow (s : St) : St × Out :=
  let s1 := enableEntry { s with status := .inProgress }
  traceLoop (fuelFor s1) s1

/-! ### the life-cycle operations -/
def freshProc (p : Prog) : Proc :=
  { code := p.orig, rest := p.full, threads := [({ run := .groupStop } : Thread)] }

/-- SIGKILL + the `resume` that collects the death -/
def killCur (s : St) : St :=
  { s with proc := procDead s.proc, log := s.log ++ [Ev.waitKilled] }

/-- `self.process.install()`, `debugee.extend`, `update_pid` -/
def install (s : St) : St :=
  { s with old := s.old ++ [s.proc], proc := freshProc s.prog, status := .unload, external := false,
           log := s.log ++ [Ev.seize] }

/-- `restart_debugee` -/
def restart (s : St) : St × Out :=
  let s1 := match s.status with
    | .inProgress => disableAll (disableWps s)
    | _ => s
  let s2 := if s1.status != .exited then killCur s1 else s1
  startFlow (install { s2 with staleGen := s.status == .exited && !s.active.isEmpty })

/-- PTRACE_DETACH of every tracee, then SIGCONT to the process -/
def releaseThreads (s : St) : St :=
  if s.proc.threads.isEmpty then s else
  { s with proc := { s.proc with threads := s.proc.threads.map fun t => { t with traced := false, run := .running } },
           log := s.log ++ List.replicate s.proc.threads.length Ev.detach }

/-- `Debugger::detach` -/
def detach (s : St) : St :=
  if s.detached then s else
  let s1 := clearAll (disableAll s)
  { releaseThreads s1 with detached := true }

/-- `Drop for Debugger` -/
def drop (s : St) : St :=
  let s' :=
    if s.detached then s
    else if s.external then releaseThreads (clearAll (disableAll s))
    else match s.status with
      | .unload =>
        -- SIGKILL, then `waitpid(pid)`: it returns the stop notification still pending from the PTRACE_SEIZE of the
        -- stopped child, not the death — the killed child is NOT collected
        { s with proc := { procDead s.proc with reaped := false } }
      | .inProgress =>
        let s1 := clearAll (disableAll s)
        let n := s1.proc.threads.length
        let s2 := { s1 with log := s1.log ++ List.replicate n Ev.contStop ++ List.replicate n Ev.detach }
        killCur s2
      | .exited => s
  { s' with dropped := true }

inductive Op
  | brk (a : Addr)
  | remove (a : Addr)
  | watch (a : Addr)
  | unwatch (a : Addr)
  | start
  | cont
  | restart
deriving DecidableEq, Repr

/-- a command of a history (each starts a fresh log) -/
def exec (s : St) (op : Op) : St × Out :=
  if s.detached || s.dropped then (s, .gone) else
  let s := { s with log := [] }
  match op with
  | .brk a =>
    match s.status with
    | .inProgress =>
      (addAndEnable { s with nextNum := s.nextNum + 1 } { addr := a, kind := .user, num := s.nextNum }, .ok)
    | _ => (addUninit { s with nextNum := s.nextNum + 1 }
              { key := { global := false, addr := a }, kind := .user, num := s.nextNum }, .ok)
  | .remove a =>
    let (s', found) := removeByAddr s { global := false, addr := a }
    (s', if found then .ok else .none)
  | .watch a => watch s a
  | .unwatch a => unwatch s a
  | .start =>
    match s.status with
    | .unload => startFlow s
    | _ => (s, .err)
  | .cont =>
    match s.status with
    | .inProgress => traceLoop (fuelFor s) (stepOver s)
    | _ => (s, .err)
  | .restart => restart s

def execAll (s : St) : List Op → St
  | [] => s
  | op :: ops => execAll (exec s op).1 ops

/-- final commands of a history -/
def execDetach (s : St) : St := if s.detached || s.dropped then s else detach { s with log := [] }
def execDrop (s : St) : St := if s.dropped then s else drop { s with log := [] }

/-- a fresh debugger on a launched program (`Child::install` + `DebuggerBuilder::build`) -/
def initLaunched (p : Prog) : St :=
  { prog := p, proc := freshProc p, status := .unload, external := false,
    uninit := [{ key := { global := true, addr := p.entry }, kind := .entry, num := 0 }] }

/-- a fresh debugger attached to a running process that has already passed `skip` sites and has `n` threads
(`Child::from_external` + `build_attached`): all threads seized and interrupted.  The process is stopped somewhere
between two sites: the head of `rest` is a pseudo-site for that place (its address is the dynamic linker's, which
carries no breakpoint as long as the debugger has not restarted the program). -/
def initAttached (p : Prog) (skip n : Nat) : St :=
  { prog := p,
    proc := { child := false, code := p.orig, rest := { addr := p.linker, nthreads := n } :: p.full.drop skip,
              threads := List.replicate n ({} : Thread), entered := true },
    status := .inProgress, external := true,
    uninit := [{ key := { global := true, addr := p.entry }, kind := .entry, num := 0 }] }

end BsVerif.Life
