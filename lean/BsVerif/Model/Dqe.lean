/-!
Model of data query expressions (DQE): the AST of `src/debugger/variable/dqe.rs`, a character-level
recursive-descent mirror of the chumsky grammar of `src/ui/command/parser/expression.rs`
(`literal()`, `ptr_cast()`, `parser()`; `hex()` and `rust_identifier()` of `parser/mod.rs`), and a canonical printer.

Reading of the combinators (a PEG; tied to chumsky 0.10 by the correspondence run on every check):
ordered choice commits to the first alternative that succeeds, `repeated()` is greedy, `or_not()` falls back to
"nothing consumed", `separated_by` rewinds to before a separator that is not followed by an item,
`padded()` skips white space on both sides.  A numeric token that does not fit its type is a failure of that
alternative (`number()` / `hex()` convert inside `try_map`; before BugStalker 49f358c, b81e8d8, 67375f8 these were
`unwrapped()` / `unwrap()` panics), a negative literal is `(val as i64).wrapping_neg()` (before 0af67fe `-(val as i64)`,
which panicked on 2^63 with overflow checks).  `PR.panic` ("a panic inside a sub-parser aborts everything") is still
threaded through the combinators but no leaf produces it any more.

`Literal::AssocArray` is a `HashMap`: the model keeps the key/value pairs in source order (`Lit.assoc`);
a lookup takes the LAST pair of a key (`assocGet`), the number of entries is the number of distinct keys.
`LiteralOrWildcard::Wildcard` is the constructor `Lit.wild` (it only occurs as an item of `arr` / value of `assoc`).
`Literal::Float` holds the token text (sign, integer digits, fraction digits), never an `f64`.

Core Lean only (linked into `bsmodel`).
-/
namespace BsVerif.Dqe

abbrev Str := List Char

inductive Lit
  | str (s : Str)
  | int (i : Int)
  | float (neg : Bool) (ip fp : Str)
  | addr (a : Nat)
  | bool (b : Bool)
  | enumV (name : Str) (arg : Option Lit)
  | arr (items : List Lit)
  | assoc (kvs : List (Str × Lit))
  | wild
  deriving Repr, Inhabited

inductive Dqe
  | var (name : Str)
  | ptrCast (ty : Str) (addr : Nat)
  | field (e : Dqe) (f : Str)
  | index (e : Dqe) (l : Lit)
  | slice (e : Dqe) (l r : Option Nat)
  | deref (e : Dqe)
  | address (e : Dqe)
  | canonic (e : Dqe)
  deriving Repr, Inhabited

/-! ## character classes -/

/-- `char::is_whitespace` (Unicode White_Space) -/
def isWs (c : Char) : Bool :=
  let n := c.toNat
  (9 ≤ n && n ≤ 13) || n == 32 || n == 0x85 || n == 0xA0 || n == 0x1680 || (0x2000 ≤ n && n ≤ 0x200A)
    || n == 0x2028 || n == 0x2029 || n == 0x202F || n == 0x205F || n == 0x3000
def isDigit (c : Char) : Bool := '0' ≤ c && c ≤ '9'
def isHexDigit (c : Char) : Bool := isDigit c || ('a' ≤ c && c ≤ 'f') || ('A' ≤ c && c ≤ 'F')
def isAlpha (c : Char) : Bool := ('a' ≤ c && c ≤ 'z') || ('A' ≤ c && c ≤ 'Z')
def isIdentStart (c : Char) : Bool := isAlpha c || c == '_'
def isIdentCont (c : Char) : Bool := isAlpha c || isDigit c || c == '_'
/-- the filter of `ptr_cast()` -/
def isTypeCh (c : Char) : Bool :=
  isAlpha c || isDigit c || c == ':' || c == '<' || c == '>' || c == ' ' || c == '*' || c == '&' || c == '_'
    || c == ',' || c == '{' || c == '}' || c == '#' || c == '\''

def decVal (c : Char) : Nat := c.toNat - 48
def hexVal (c : Char) : Nat :=
  if isDigit c then c.toNat - 48 else if 'a' ≤ c && c ≤ 'f' then c.toNat - 87 else c.toNat - 55

/-! ## results -/

inductive PR (α : Type)
  | ok (v : α) (rest : Str)
  | fail
  | panic
  deriving Repr, Inhabited

/-! ## scanners (no padding) -/

def skipWs (s : Str) : Str := s.dropWhile isWs

def stripPrefix : Str → Str → Option Str
  | [], s => some s
  | _ :: _, [] => none
  | k :: ks, c :: cs => if k == c then stripPrefix ks cs else none

/-- `just(c).padded()` -/
def sym (c : Char) (s : Str) : Option Str :=
  match skipWs s with
  | x :: r => if x == c then some (skipWs r) else none
  | [] => none

/-- `just(k).padded()` for a keyword -/
def symS (k : Str) (s : Str) : Option Str :=
  match stripPrefix k (skipWs s) with
  | some r => some (skipWs r)
  | none => none

/-- `text::int(10)`: a non-zero digit followed by digits, or the single digit `0`. Returns (token, rest). -/
def scanInt : Str → Option (Str × Str)
  | [] => none
  | c :: cs =>
    if c == '0' then some (['0'], cs)
    else if isDigit c then some (c :: cs.takeWhile isDigit, cs.dropWhile isDigit)
    else none

/-- `text::ascii::ident()` -/
def scanIdent : Str → Option (Str × Str)
  | [] => none
  | c :: cs => if isIdentStart c then some (c :: cs.takeWhile isIdentCont, cs.dropWhile isIdentCont) else none

/-- `("::" ident)*` of `rust_identifier()`; the fuel is the length of the input -/
def scanPathTail : Nat → Str → Str × Str
  | 0, s => ([], s)
  | n + 1, s =>
    match stripPrefix [':', ':'] s with
    | none => ([], s)
    | some r =>
      match scanIdent r with
      | none => ([], s)
      | some (id, r') => let (t, r'') := scanPathTail n r'; (':' :: ':' :: id ++ t, r'')

/-- `rust_identifier()`: `ident.separated_by("::").allow_leading().at_least(1).to_slice().padded()` -/
def rustIdent (s : Str) : Option (Str × Str) :=
  let s0 := skipWs s
  let (lead, s1) := match stripPrefix [':', ':'] s0 with
    | some r => ([':', ':'], r)
    | none => ([], s0)
  match scanIdent s1 with
  | none => none
  | some (id, r) => let (t, r') := scanPathTail r.length r; some (lead ++ id ++ t, skipWs r')

/-- checked multiply-add loop of `from_str` / `from_str_radix` (`none` = PosOverflow) -/
def parseDigits (radix bits : Nat) : List Nat → Nat → Option Nat
  | [], acc => some acc
  | d :: ds, acc =>
    if acc * radix + d < 2 ^ bits then parseDigits radix bits ds (acc * radix + d) else none

/-- `hex()`: `("0x"|"0X") digits(16).at_least(1)` + `usize::from_str_radix(..)` in `try_map`, padded -/
def hexTok (s : Str) : PR Nat :=
  let s0 := skipWs s
  let body := match stripPrefix ['0', 'x'] s0 with
    | some r => some r
    | none => stripPrefix ['0', 'X'] s0
  match body with
  | none => .fail
  | some r =>
    match r.takeWhile isHexDigit with
    | [] => .fail
    | tok => match parseDigits 16 64 (tok.map hexVal) 0 with
      | some v => .ok v (skipWs (r.dropWhile isHexDigit))
      | none => .fail

/-- `"-"? number::<u64>()` → `val as i64`, `wrapping_neg` when signed (`-9223372036854775808` is `i64::MIN`) -/
def intTok (s : Str) : PR Int :=
  let neg := s.head? == some '-'
  let s1 := if neg then s.tail else s
  match scanInt s1 with
  | none => .fail
  | some (tok, rest) =>
    match parseDigits 10 64 (tok.map decVal) 0 with
    | none => .fail
    | some v =>
      let i : Int := if v < 2 ^ 63 then (v : Int) else (v : Int) - 2 ^ 64
      if neg then (if v = 2 ^ 63 then .ok i rest else .ok (-i) rest) else .ok i rest

/-- `"-"? int(10) "." int(10)` -/
def floatTok (s : Str) : Option (Lit × Str) :=
  let neg := s.head? == some '-'
  let s1 := if neg then s.tail else s
  match scanInt s1 with
  | none => none
  | some (ip, r) =>
    match r with
    | '.' :: r2 => match scanInt r2 with
      | some (fp, r3) => some (.float neg ip fp, r3)
      | none => none
    | _ => none

/-- `one_of(q) none_of(q)* one_of(q)` -/
def strTok (q : Char) : Str → Option (Str × Str)
  | [] => none
  | c :: cs =>
    if c == q then
      match cs.dropWhile (· != q) with
      | _ :: r => some (cs.takeWhile (· != q), r)
      | [] => none
    else none

/-! ## `literal()` -/

mutual
/-- the fuel bounds the nesting depth plus the number of items -/
def parseLit : Nat → Str → PR Lit
  | 0, _ => .fail
  | f + 1, s =>
    match floatTok s with
    | some (l, r) => .ok l r
    | none =>
    match symS ['t', 'r', 'u', 'e'] s with
    | some r => .ok (.bool true) r
    | none =>
    match symS ['f', 'a', 'l', 's', 'e'] s with
    | some r => .ok (.bool false) r
    | none =>
    match hexTok s with
    | .ok a r => .ok (.addr a) r
    | .panic => .panic
    | .fail =>
    match intTok s with
    | .ok i r => .ok (.int i) r
    | .panic => .panic
    | .fail =>
    match rustIdent s with
    | some (name, r) =>
      -- `.then(literal.delimited_by(op("("), op(")")).or_not())`
      match sym '(' r with
      | none => .ok (.enumV name none) r
      | some r1 =>
        match parseLit f r1 with
        | .panic => .panic
        | .fail => .ok (.enumV name none) r
        | .ok l r2 =>
          match sym ')' r2 with
          | some r3 => .ok (.enumV name (some l)) r3
          | none => .ok (.enumV name none) r
    | none =>
    match strTok '"' s with
    | some (t, r) => .ok (.str t) r
    | none =>
    match strTok '\'' s with
    | some (t, r) => .ok (.str t) r
    | none =>
    match sym '{' s with
    | none => .fail
    | some r0 =>
      -- array
      let arrRes : PR Lit :=
        match parseItems f r0 with
        | .panic => .panic
        | .fail => .fail
        | .ok items r1 => match sym '}' r1 with
          | some r2 => .ok (.arr items) r2
          | none => .fail
      match arrRes with
      | .ok l r => .ok l r
      | .panic => .panic
      | .fail =>
        -- assoc array
        match parseKvs f r0 with
        | .panic => .panic
        | .fail => .fail
        | .ok kvs r1 => match sym '}' r1 with
          | some r2 => .ok (.assoc kvs) r2
          | none => .fail

/-- `literal | "*"` -/
def parseLow : Nat → Str → PR Lit
  | 0, _ => .fail
  | f + 1, s =>
    match parseLit f s with
    | .ok l r => .ok l r
    | .panic => .panic
    | .fail => match sym '*' s with
      | some r => .ok .wild r
      | none => .fail

/-- `literal_or_wildcard.separated_by(op(","))` (zero or more) -/
def parseItems : Nat → Str → PR (List Lit)
  | 0, _ => .fail
  | f + 1, s =>
    match parseLow f s with
    | .panic => .panic
    | .fail => .ok [] s
    | .ok l r => parseItemsTail f [l] r

/-- `(op(",") item)*`; `acc` in reverse order -/
def parseItemsTail : Nat → List Lit → Str → PR (List Lit)
  | 0, _, _ => .fail
  | f + 1, acc, s =>
    match sym ',' s with
    | none => .ok acc.reverse s
    | some r =>
      match parseLow f r with
      | .panic => .panic
      | .fail => .ok acc.reverse s
      | .ok l r' => parseItemsTail f (l :: acc) r'

/-- `rust_identifier op(":") literal_or_wildcard` -/
def parseKv : Nat → Str → PR (Str × Lit)
  | 0, _ => .fail
  | f + 1, s =>
    match rustIdent s with
    | none => .fail
    | some (k, r) =>
      match sym ':' r with
      | none => .fail
      | some r1 => match parseLow f r1 with
        | .ok v r2 => .ok (k, v) r2
        | .panic => .panic
        | .fail => .fail

def parseKvs : Nat → Str → PR (List (Str × Lit))
  | 0, _ => .fail
  | f + 1, s =>
    match parseKv f s with
    | .panic => .panic
    | .fail => .ok [] s
    | .ok kv r => parseKvsTail f [kv] r

def parseKvsTail : Nat → List (Str × Lit) → Str → PR (List (Str × Lit))
  | 0, _, _ => .fail
  | f + 1, acc, s =>
    match sym ',' s with
    | none => .ok acc.reverse s
    | some r =>
      match parseKv f r with
      | .panic => .panic
      | .fail => .ok acc.reverse s
      | .ok kv r' => parseKvsTail f (kv :: acc) r'
end

/-! ## `parser()` -/

/-- `str::trim` on a string of `isTypeCh` characters (only `' '` can be white space there) -/
def trimSp (s : Str) : Str := ((s.dropWhile (· == ' ')).reverse.dropWhile (· == ' ')).reverse

/-- `ptr_cast()` -/
def ptrCast (s : Str) : PR Dqe :=
  match sym '(' s with
  | none => .fail
  | some r =>
    match r.takeWhile isTypeCh with
    | [] => .fail
    | ty =>
      match sym ')' (r.dropWhile isTypeCh) with
      | none => .fail
      | some r2 => match hexTok r2 with
        | .ok a r3 => .ok (.ptrCast (trimSp ty) a) r3
        | .fail => .fail
        | .panic => .panic

/-- `number::<usize>().or_not().padded()`: a bound that does not fit is "no bound, nothing consumed" (`or_not`) -/
def mbUsize (s : Str) : PR (Option Nat) :=
  let s0 := skipWs s
  match scanInt s0 with
  | none => .ok none (skipWs s0)
  | some (tok, r) => match parseDigits 10 64 (tok.map decVal) 0 with
    | some v => .ok (some v) (skipWs r)
    | none => .ok none (skipWs s0)

inductive Post
  | field (f : Str)
  | index (l : Lit)
  | slice (l r : Option Nat)
  deriving Repr, Inhabited

inductive Pre
  | deref | address | canonic
  deriving Repr, Inhabited, DecidableEq

def Post.apply (e : Dqe) : Post → Dqe
  | .field f => .field e f
  | .index l => .index e l
  | .slice l r => .slice e l r
def Pre.apply (p : Pre) (e : Dqe) : Dqe :=
  match p with
  | .deref => .deref e
  | .address => .address e
  | .canonic => .canonic e

/-- fuel for a literal inside `[..]` -/
def litFuel (s : Str) : Nat := 8 + 4 * s.length

/-- `field_op.or(index_op).or(slice_op)` -/
def parsePost (s : Str) : PR Post :=
  -- field_op: `op('.')` then `ident | int(10)` (not padded)
  let fieldRes : Option (Post × Str) :=
    match sym '.' s with
    | none => none
    | some r => match scanIdent r with
      | some (id, r') => some (.field id, r')
      | none => match scanInt r with
        | some (t, r') => some (.field t, r')
        | none => none
  match fieldRes with
  | some (p, r) => .ok p r
  | none =>
  match sym '[' s with
  | none => .fail
  | some r0 =>
    -- index_op: `literal().padded()` between `op('[')` and `op(']')`
    let idxRes : PR Post :=
      match parseLit (litFuel r0) (skipWs r0) with
      | .panic => .panic
      | .fail => .fail
      | .ok l r1 => match sym ']' (skipWs r1) with
        | some r2 => .ok (.index l) r2
        | none => .fail
    match idxRes with
    | .ok p r => .ok p r
    | .panic => .panic
    | .fail =>
      -- slice_op
      match mbUsize r0 with
      | .panic => .panic
      | .fail => .fail
      | .ok l r1 =>
        match symS ['.', '.'] r1 with
        | none => .fail
        | some r2 =>
          match mbUsize r2 with
          | .panic => .panic
          | .fail => .fail
          | .ok rr r3 => match sym ']' r3 with
            | some r4 => .ok (.slice l rr) r4
            | none => .fail

/-- `(..).repeated()` of postfix operators, folded left over the atom; fuel = length of the input -/
def parsePosts : Nat → Dqe → Str → PR Dqe
  | 0, e, s => .ok e s
  | n + 1, e, s =>
    match parsePost s with
    | .panic => .panic
    | .fail => .ok e s
    | .ok p r => parsePosts n (p.apply e) r

/-- one prefix operator: `op('*') | op('&') | op('~')` -/
def parsePre (s : Str) : Option (Pre × Str) :=
  match sym '*' s with
  | some r => some (.deref, r)
  | none => match sym '&' s with
    | some r => some (.address, r)
    | none => match sym '~' s with
      | some r => some (.canonic, r)
      | none => none

/-- the prefix operators, greedily; fuel = length of the input -/
def parsePres : Nat → Str → List Pre × Str
  | 0, s => ([], s)
  | n + 1, s =>
    match parsePre s with
    | none => ([], s)
    | some (p, r) => let (ps, r') := parsePres n r; (p :: ps, r')

/-- `expr` of `parser()`: prefix operators folded right over `atom postfix*`; the fuel bounds the nesting of parentheses -/
def parseExpr : Nat → Str → PR Dqe
  | 0, _ => .fail
  | f + 1, s =>
    let (pres, s1) := parsePres s.length s
    -- atom = (rust_identifier.padded | ptr_cast | "(" expr ")").padded
    let s2 := skipWs s1
    let atomRes : PR Dqe :=
      match rustIdent s2 with
      | some (name, r) => .ok (.var name) (skipWs r)
      | none =>
        match ptrCast s2 with
        | .ok e r => .ok e r
        | .panic => .panic
        | .fail =>
          match sym '(' s2 with
          | none => .fail
          | some r => match parseExpr f r with
            | .panic => .panic
            | .fail => .fail
            | .ok e r1 => match sym ')' r1 with
              | some r2 => .ok e r2
              | none => .fail
    match atomRes with
    | .panic => .panic
    | .fail => .fail
    | .ok a r =>
      match parsePosts (skipWs r).length a (skipWs r) with
      | .ok e r' => .ok (pres.foldr Pre.apply e) r'
      | .panic => .panic
      | .fail => .fail

def exprFuel (s : Str) : Nat := 2 + s.length

/-- `expression::parser().parse(s)`: `expr.then_ignore(end())` -/
def parse (s : Str) : PR Dqe :=
  match parseExpr (exprFuel s) s with
  | .ok e [] => .ok e []
  | .ok _ _ => .fail
  | .fail => .fail
  | .panic => .panic

/-! ## canonical printer -/

def digitChar (d : Nat) : Char :=
  match d with
  | 0 => '0' | 1 => '1' | 2 => '2' | 3 => '3' | 4 => '4' | 5 => '5' | 6 => '6' | 7 => '7' | 8 => '8' | 9 => '9'
  | 10 => 'A' | 11 => 'B' | 12 => 'C' | 13 => 'D' | 14 => 'E' | _ => 'F'

/-- digits of `n` in base `b` (most significant first); the fuel `n` itself is always enough -/
def toDigs (b : Nat) : Nat → Nat → List Nat
  | 0, n => [n % b]
  | f + 1, n => if n < b then [n] else toDigs b f (n / b) ++ [n % b]

def natText (n : Nat) : Str := (toDigs 10 n n).map digitChar
def hexText (n : Nat) : Str := (toDigs 16 n n).map digitChar

def intercalate (sep : Str) : List Str → Str
  | [] => []
  | [x] => x
  | x :: xs => x ++ sep ++ intercalate sep xs

mutual
def printLit : Lit → Str
  | .str s => '"' :: s ++ ['"']
  | .int i => if i < 0 then '-' :: natText i.natAbs else natText i.toNat
  | .float neg ip fp => (if neg then ['-'] else []) ++ ip ++ '.' :: fp
  | .addr a => '0' :: 'x' :: hexText a
  | .bool true => ['t', 'r', 'u', 'e']
  | .bool false => ['f', 'a', 'l', 's', 'e']
  | .enumV name none => name
  | .enumV name (some l) => name ++ '(' :: printLit l ++ [')']
  | .arr items => '{' :: printItems items ++ ['}']
  | .assoc kvs => '{' :: printKvs kvs ++ ['}']
  | .wild => ['*']
def printItems : List Lit → Str
  | [] => []
  | [x] => printLit x
  | x :: y :: t => printLit x ++ ',' :: printItems (y :: t)
def printKvs : List (Str × Lit) → Str
  | [] => []
  | [(k, v)] => k ++ ':' :: ' ' :: printLit v
  | (k, v) :: y :: t => k ++ ':' :: ' ' :: printLit v ++ ',' :: printKvs (y :: t)
end

def printBound : Option Nat → Str
  | none => []
  | some n => natText n

mutual
/-- an expression in postfix position (prefix operators need parentheses there) -/
def printPost : Dqe → Str
  | .var name => name
  | .ptrCast ty a => '(' :: ty ++ ')' :: '0' :: 'x' :: hexText a
  | .field e f => printPost e ++ '.' :: f
  | .index e l => printPost e ++ '[' :: printLit l ++ [']']
  | .slice e l r => printPost e ++ '[' :: printBound l ++ '.' :: '.' :: printBound r ++ [']']
  | .deref e => '(' :: '*' :: printPre e ++ [')']
  | .address e => '(' :: '&' :: printPre e ++ [')']
  | .canonic e => '(' :: '~' :: printPre e ++ [')']
/-- the canonical text of an expression -/
def printPre : Dqe → Str
  | .deref e => '*' :: printPre e
  | .address e => '&' :: printPre e
  | .canonic e => '~' :: printPre e
  | .var name => name
  | .ptrCast ty a => '(' :: ty ++ ')' :: '0' :: 'x' :: hexText a
  | .field e f => printPost e ++ '.' :: f
  | .index e l => printPost e ++ '[' :: printLit l ++ [']']
  | .slice e l r => printPost e ++ '[' :: printBound l ++ '.' :: '.' :: printBound r ++ [']']
end

def print (e : Dqe) : Str := printPre e

/-! ## `Display for Literal` of dqe.rs, as found -/

mutual
def displayLit : Lit → Str
  | .str s => '"' :: s ++ ['"']
  | .int i => if i < 0 then '-' :: natText i.natAbs else natText i.toNat
  | .float neg ip fp => (if neg then ['-'] else []) ++ ip ++ '.' :: fp   -- only for tokens that `f64::to_string` keeps
  | .addr a =>
    let h := hexText a
    '0' :: 'x' :: (List.replicate (14 - h.length) '0' ++ h)                -- `{addr:#016X}`
  | .bool true => ['t', 'r', 'u', 'e']
  | .bool false => ['f', 'a', 'l', 's', 'e']
  | .enumV name none => name
  | .enumV name (some l) => name ++ '(' :: displayLit l ++ [')']
  | .arr items => '{' :: ' ' :: displayItems items ++ [' ', '}']
  | .assoc kvs => '{' :: ' ' :: displayKvs kvs ++ [' ', '}']
  | .wild => ['*']
def displayItems : List Lit → Str
  | [] => []
  | [x] => displayLit x
  | x :: y :: t => displayLit x ++ ',' :: ' ' :: displayItems (y :: t)
def displayKvs : List (Str × Lit) → Str
  | [] => []
  | [(k, v)] => '"' :: k ++ '"' :: ':' :: ' ' :: displayLit v
  | (k, v) :: y :: t => '"' :: k ++ '"' :: ':' :: ' ' :: displayLit v ++ ',' :: ' ' :: displayKvs (y :: t)
end

/-! ## `HashMap` view of an assoc literal -/

/-- `HashMap::get`: the last pair inserted under the key -/
def assocGet (kvs : List (Str × Lit)) (k : Str) : Option Lit :=
  match kvs.reverse.find? (·.1 == k) with
  | some (_, v) => some v
  | none => none

/-- the keys, first occurrences only -/
def distinctKeys : List (Str × Lit) → List Str
  | [] => []
  | (k, _) :: t => let r := distinctKeys t; if r.contains k then r else k :: r

/-- `HashMap::len` -/
def assocLen (kvs : List (Str × Lit)) : Nat := (distinctKeys kvs).length

end BsVerif.Dqe
