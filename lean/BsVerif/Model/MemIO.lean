import BsVerif.Gen.Regs
/-!
# Model of BugStalker's memory / register I/O (property C15)

Mirrors, line by line where it matters:

* `read_memory_by_pid`           src/debugger/mod.rs            → `readMemory`
* `Debugger::write_memory`       src/debugger/mod.rs            → `poke`
* DAP `write_bytes`              src/dap/yadap/session/data.rs  → `writeBytesDap`
* `RegisterMap::{value,update}`, `From<user_regs_struct>`, `persist`
                                 src/debugger/register.rs       → `RegisterMap.*`, tables from `Gen/Regs.lean`
* breakpoint masking in `Disassembler::disasm_function`
                                 src/debugger/debugee/disasm.rs → `maskPatches`
* `parse_set_value` (integer kinds, bool)
                                 src/dap/yadap/session/data.rs  → `parseSetValue`

Kernel side (DESIGN 2.3): memory is `Addr → Option Byte` (`none` = unmapped);
`PTRACE_PEEKDATA a` succeeds iff the eight bytes `[a, a+8)` are mapped and returns their
little-endian value; `PTRACE_POKEDATA` likewise (ptrace uses FOLL_FORCE, so page *protection* does not
matter, only whether the page is mapped).  Core Lean only: this file is linked into `bsmodel`.
-/
namespace BsVerif.MemIO

abbrev Addr := Nat
abbrev Byte := UInt8
/-- process memory: `none` = unmapped -/
abbrev Mem := Nat → Option Byte

def pageSize : Nat := 4096

/-- every byte of `[a, a+n)` is mapped -/
def MappedRange (m : Mem) (a n : Nat) : Prop := ∀ i, i < n → (m (a + i)).isSome = true

/-- mappings are page granular (DESIGN 2.3): a mapped byte has its whole 4 KiB page mapped -/
def PageGranular (m : Mem) : Prop :=
  ∀ a b, a / pageSize = b / pageSize → (m a).isSome = true → (m b).isSome = true

/-- the bytes of `[a, a+n)`, all or nothing -/
def bytesAt (m : Mem) (a : Nat) : Nat → Option (List Byte)
  | 0 => some []
  | n + 1 =>
    match m a, bytesAt m (a + 1) n with
    | some b, some bs => some (b :: bs)
    | _, _ => none

/-- little-endian value of a byte string -/
def leWord : List Byte → Nat
  | [] => 0
  | b :: bs => b.toNat + 256 * leWord bs

/-- the `k` low bytes of `w`, little endian (`to_ne_bytes` / `to_le_bytes` on x86-64) -/
def wordBytes : Nat → Nat → List Byte
  | 0, _ => []
  | k + 1, w => UInt8.ofNat (w % 256) :: wordBytes k (w / 256)

/-- memory with `[a, a + bs.length)` replaced by `bs` — the *specification* of a write -/
def store (m : Mem) (a : Nat) (bs : List Byte) : Mem :=
  fun x => if a ≤ x ∧ x < a + bs.length then bs[x - a]? else m x

/-- `PTRACE_PEEKDATA` -/
def peek (m : Mem) (a : Nat) : Option Nat := (bytesAt m a 8).map leWord

/-- outcome of a write: `ok m'`, `err m'` (a ptrace call failed; `m'` = memory as left behind), `panic`
(a slice bound or a `usize` subtraction of the Rust code would fail — proved unreachable) -/
inductive WOut where
  | ok (m : Mem)
  | err (m : Mem)
  | panic

/-- number of leading bytes of `[a, a+n)` that are mapped -/
def mappedPrefix (m : Mem) (a : Nat) : Nat → Nat
  | 0 => 0
  | n + 1 =>
    match m a with
    | some _ => 1 + mappedPrefix m (a + 1) n
    | none => 0

/-- `PTRACE_POKEDATA` = `Debugger::write_memory(addr, value)`: one 8-byte word at any alignment.
The kernel (`access_process_vm`) copies page by page in ascending order and reports EIO unless all 8 bytes
were copied: a word that straddles from a mapped into an unmapped page FAILS but its leading bytes have
been written (observed on the live debuggee by the correspondence run). -/
def pokeData (m : Mem) (a : Nat) (w : Nat) : WOut :=
  let k := mappedPrefix m a 8
  if k = 8 then .ok (store m a (wordBytes 8 w)) else .err (store m a ((wordBytes 8 w).take k))

/-! ## `read_memory_by_pid`

```
let mut read_reminder = read_n as isize;
let mut addr = addr as *mut c_long;
while read_reminder > 0 {
    let want = (read_reminder as usize).min(single_read_size);
    match sys::ptrace::read(pid, addr) {
        Ok(value) => result.extend(value.to_ne_bytes().into_iter().take(want)),
        Err(e) if want < single_read_size => {
            let word_addr = (addr as usize + want).checked_sub(single_read_size).ok_or(e)?;
            let value = sys::ptrace::read(pid, word_addr)?;
            result.extend(value.to_ne_bytes().into_iter().skip(single_read_size - want));
        }
        Err(e) => return Err(e),
    }
    read_reminder -= 8;
    addr = addr.offset(1);
}
```
Whole words are peeked at `addr`.  The final partial word (`want < 8`, necessarily the last round) is
peeked at `addr` too; when that fails (the word runs past the end of the mapping) the word that ENDS at
the end of the requested range is peeked instead and its last `want` bytes are taken.  `read_reminder` is
an `isize` that goes negative after a partial word; the model stops there. -/
def readLoop (m : Mem) (addr : Nat) (rem : Nat) (acc : List Byte) : Option (List Byte) :=
  if rem = 0 then some acc
  else if 8 ≤ rem then
    match peek m addr with
    | none => none
    | some w => readLoop m (addr + 8) (rem - 8) (acc ++ wordBytes 8 w)
  else
    match peek m addr with
    | some w => some (acc ++ (wordBytes 8 w).take rem)
    | none =>
      -- `checked_sub`: no word ends at `addr + rem` when that is below 8
      if addr + rem < 8 then none
      else
        match peek m (addr + rem - 8) with
        | none => none
        | some w => some (acc ++ (wordBytes 8 w).drop (8 - rem))
termination_by rem
decreasing_by all_goals (simp_wf; omega)

def readMemory (m : Mem) (addr : Nat) (n : Nat) : Option (List Byte) := readLoop m addr n []

/-! ## DAP `write_bytes` (writeMemory, setVariable, setExpression)

```
if bytes.is_empty() { return Ok(()) }
let start = addr; let end = addr + bytes.len(); let mut cur = start;
while cur < end {
    let word_start = (cur / word) * word;
    let word_end = word_start + word;
    let chunk_from = max(cur, word_start);
    let chunk_to = min(end, word_end);
    let mut existing = dbg.read_memory(word_start, word)?;
    let src_off = chunk_from - start;
    let dst_off = chunk_from - word_start;
    existing[dst_off..dst_off + (chunk_to - chunk_from)]
        .copy_from_slice(&bytes[src_off..src_off + (chunk_to - chunk_from)]);
    le.copy_from_slice(&existing[..word]);
    dbg.write_memory(word_start, usize::from_le_bytes(le))?;
    cur = word_end;
}
```
Outcomes: see `WOut` (`err m'`: `m'` = memory as left behind by the rounds already done). -/

/-- `existing[dst..dst+len].copy_from_slice(&bytes[src..src+len])` on an 8-byte buffer -/
def patchWord (existing bytes : List Byte) (dst src len : Nat) : List Byte :=
  (List.range 8).map fun i =>
    if dst ≤ i ∧ i < dst + len then bytes.getD (src + (i - dst)) 0 else existing.getD i 0

def writeLoop (m : Mem) (start : Nat) (bytes : List Byte) (cur : Nat) : WOut :=
  if _h : cur < start + bytes.length then
    let wordStart := cur / 8 * 8
    let wordEnd := wordStart + 8
    let chunkFrom := max cur wordStart
    let chunkTo := min (start + bytes.length) wordEnd
    match readMemory m wordStart 8 with
    | none => .err m
    | some existing =>
      -- `chunk_from - start`, `chunk_from - word_start`, `chunk_to - chunk_from`: usize subtractions
      if chunkFrom < start ∨ chunkFrom < wordStart ∨ chunkTo < chunkFrom then .panic
      else
        let srcOff := chunkFrom - start
        let dstOff := chunkFrom - wordStart
        let len := chunkTo - chunkFrom
        -- slice bounds of `existing[dst..dst+len]`, `bytes[src..src+len]`, `existing[..8]`
        if dstOff + len > existing.length ∨ srcOff + len > bytes.length ∨ 8 > existing.length then .panic
        else
          match pokeData m wordStart (leWord (patchWord existing bytes dstOff srcOff len)) with
          | .ok m' => writeLoop m' start bytes wordEnd
          | .err m' => .err m'
          | .panic => .panic
  else .ok m
termination_by start + bytes.length - cur
decreasing_by all_goals (simp_wf; omega)

def writeBytesDap (m : Mem) (addr : Nat) (bytes : List Byte) : WOut :=
  if bytes.isEmpty then .ok m else writeLoop m addr bytes addr

/-! ## Registers (`RegisterMap`), table driven

`Gen.Regs` is regenerated from `register.rs` on every run: the variants of `enum Register`, the fields
of `struct RegisterMap`, the arms of `value` and `update`, and the two `From` conversions with
`user_regs_struct`.  A register is its index in `regNames`, a struct field its index in
`structFields`, a kernel field its index in `kernelFields`. -/
open BsVerif.Gen.Regs

/-- values of a register file, by field index -/
abbrev RegFile := Nat → Nat

def lookup (t : List (Nat × Nat)) (k : Nat) : Option Nat := (t.find? (fun p => p.1 == k)).map (·.2)

/-- `RegisterMap::value` -/
def RegisterMap.value (m : RegFile) (r : Nat) : Nat :=
  match lookup valueTable r with
  | some f => m f
  | none => 0

/-- `RegisterMap::update` -/
def RegisterMap.update (m : RegFile) (r : Nat) (v : Nat) : RegFile :=
  match lookup updateTable r with
  | some f => fun g => if g = f then v else m g
  | none => m

/-- `impl From<user_regs_struct> for RegisterMap` (after `PTRACE_GETREGS`) -/
def RegisterMap.fromUser (k : RegFile) : RegFile :=
  fun f => match lookup fromUserTable f with
    | some kf => k kf
    | none => 0

/-- `impl From<RegisterMap> for user_regs_struct` (before `PTRACE_SETREGS`) -/
def RegisterMap.toUser (m : RegFile) : RegFile :=
  fun kf => match lookup toUserTable kf with
    | some f => m f
    | none => 0

/-- `Debugger::get_register_value`: GETREGS, convert, `value` -/
def getRegisterValue (kernel : RegFile) (r : Nat) : Nat :=
  RegisterMap.value (RegisterMap.fromUser kernel) r

/-- `Debugger::set_register_value`: GETREGS, convert, `update`, convert back, SETREGS -/
def setRegisterValue (kernel : RegFile) (r : Nat) (v : Nat) : RegFile :=
  RegisterMap.toUser (RegisterMap.update (RegisterMap.fromUser kernel) r v)

/-- the kernel field a register name denotes (what the *program* sees) -/
def kernelFieldOf (r : Nat) : Option Nat :=
  match regNames[r]? with
  | some n => kernelFields.idxOf? n
  | none => none

/-! ## Disassembly: masking the debugger's INT3 patches

```
breakpoints.iter()
    .filter(|brkpt| brkpt.addr >= fn_reloc_pc_start && brkpt.addr < fn_reloc_pc_end)
    .for_each(|brkpt| {
        let byte_idx = usize::from(brkpt.addr) - usize::from(fn_reloc_pc_start);
        text[byte_idx] = brkpt.saved_data.get();
    });
```
`text` has `end - start` bytes and the filter is exclusive at `end` (it was inclusive before the repair:
a breakpoint exactly at the end address indexed one past the text).  The slice index stays an explicit
outcome of the model; `C15_disasm_total` proves it unreachable. -/
structure Bp where
  addr : Nat
  saved : Byte

inductive Fault where
  | oob (idx len : Nat)
  deriving Repr, DecidableEq

def maskOne (start stop : Nat) (text : List Byte) (bp : Bp) : Except Fault (List Byte) :=
  if start ≤ bp.addr ∧ bp.addr < stop then
    let idx := bp.addr - start
    if idx < text.length then .ok (text.set idx bp.saved) else .error (.oob idx text.length)
  else .ok text

def maskPatches (start stop : Nat) (text : List Byte) : List Bp → Except Fault (List Byte)
  | [] => .ok text
  | bp :: rest =>
    match maskOne start stop text bp with
    | .ok t => maskPatches start stop t rest
    | .error e => .error e

/-! ## `parse_set_value` (integer kinds and bool)

`parse_int_i128` / `parse_int_u128`: optional `0x`/`0X` prefix, then `from_str_radix` (one optional
sign — `-` only for the signed parser —, at least one digit, overflow of the 128-bit type is an
error), then `<target>::try_from` (a value that does not fit the variable's type is refused; before the
repair it was truncated by an `as` cast) and `to_le_bytes`. -/
inductive IntKind where
  | i8 | i16 | i32 | i64 | i128 | isize | u8 | u16 | u32 | u64 | u128 | usize
  deriving Repr, DecidableEq

def IntKind.bytes : IntKind → Nat
  | .i8 | .u8 => 1
  | .i16 | .u16 => 2
  | .i32 | .u32 => 4
  | .i64 | .u64 | .isize | .usize => 8
  | .i128 | .u128 => 16

def IntKind.signed : IntKind → Bool
  | .i8 | .i16 | .i32 | .i64 | .i128 | .isize => true
  | _ => false

def digitVal (radix : Nat) (c : Char) : Option Nat :=
  let d :=
    if '0' ≤ c ∧ c ≤ '9' then some (c.toNat - '0'.toNat)
    else if 'a' ≤ c ∧ c ≤ 'z' then some (c.toNat - 'a'.toNat + 10)
    else if 'A' ≤ c ∧ c ≤ 'Z' then some (c.toNat - 'A'.toNat + 10)
    else none
  match d with
  | some v => if v < radix then some v else none
  | none => none

def digitsVal (radix : Nat) : List Char → Nat → Option Nat
  | [], acc => some acc
  | c :: cs, acc =>
    match digitVal radix c with
    | some d => digitsVal radix cs (acc * radix + d)
    | none => none

/-- `i128::from_str_radix` / `u128::from_str_radix` -/
def fromStrRadix (signed : Bool) (radix : Nat) (s : List Char) : Option Int :=
  let (neg, digits) :=
    match s with
    | '+' :: rest => (false, rest)
    | '-' :: rest => if signed then (true, rest) else (false, s)
    | _ => (false, s)
  if digits.isEmpty then none
  else
    match digitsVal radix digits 0 with
    | none => none
    | some v =>
      let i : Int := if neg then - (v : Int) else v
      if signed then (if - (2 ^ 127 : Int) ≤ i ∧ i < 2 ^ 127 then some i else none)
      else (if i < 2 ^ 128 then some i else none)

/-- `parse_int_i128` / `parse_int_u128` -/
def parseInt (signed : Bool) (s : List Char) : Option Int :=
  match s with
  | '0' :: 'x' :: hex => fromStrRadix signed 16 hex
  | '0' :: 'X' :: hex => fromStrRadix signed 16 hex
  | _ => fromStrRadix signed 10 s

def isAsciiSpace (c : Char) : Bool := c == ' ' || c == '\t' || c == '\n' || c == '\r'

/-- `str::trim` restricted to the ASCII blanks the harness generates -/
def trim (s : List Char) : List Char :=
  ((s.dropWhile isAsciiSpace).reverse.dropWhile isAsciiSpace).reverse

/-- the values of the integer type `k` -/
def IntKind.inRange (k : IntKind) (i : Int) : Prop :=
  if k.signed then - (2 ^ (8 * k.bytes - 1) : Int) ≤ i ∧ i < 2 ^ (8 * k.bytes - 1)
  else 0 ≤ i ∧ i < 2 ^ (8 * k.bytes)

instance (k : IntKind) (i : Int) : Decidable (k.inRange i) := by
  unfold IntKind.inRange
  infer_instance

/-- integer kinds of `parse_set_value`: the 128-bit value is converted with `try_from` (for the two 128-bit
kinds there is no conversion: the parser's own range is the type's range) -/
def parseSetInt (k : IntKind) (input : List Char) : Option (List Byte) :=
  match parseInt k.signed (trim input) with
  | none => none
  | some i =>
    if k.inRange i then some (wordBytes k.bytes (i % (2 ^ (8 * k.bytes) : Nat)).toNat) else none

/-- `ScalarKind::Bool` -/
def parseSetBool (input : List Char) : Option (List Byte) :=
  let s := String.ofList (trim input)
  if s == "true" || s == "True" || s == "TRUE" || s == "1" then some [1]
  else if s == "false" || s == "False" || s == "FALSE" || s == "0" then some [0]
  else none

/-- what a later read decodes from the bytes of an integer variable of kind `k` -/
def decodeInt (k : IntKind) (bs : List Byte) : Int :=
  let u := leWord bs
  if k.signed ∧ u ≥ 2 ^ (8 * k.bytes - 1) then (u : Int) - (2 ^ (8 * k.bytes) : Nat) else u


end BsVerif.MemIO
