import BsVerif.Gen.Signals
/-!
C10 — signals reach the debuggee exactly once.  Executable model (core Lean only).

Two layers, kept apart so that theorems speak about "the tracer's code against the kernel's rules":

* `K` — the kernel + the (single-threaded) handler-counting debuggee: pending sets (thread-private and shared, at most one
  instance per signal number), the ptrace stop the thread sits in, what a `PTRACE_CONT / SINGLESTEP / SYSCALL(data)`
  does (deliver `data`, or discard the signal of a signal-delivery-stop when `data = 0`; dequeue the next pending signal
  *before* any user instruction runs: private set first, lowest number first), the debuggee's script (breakpoint sites,
  self-raised signals), the handler invocation log `delivered`.
* `D` — the debugger: `Tracer::resume`, `apply_new_status` (non-SIGTRAP branch), `Tracer::single_step`,
  `inject_signal_queue`, `Debugger::continue_execution / stepi / step_over_breakpoint` restricted to one thread, one user
  breakpoint site, no watchpoints.  Mirrors the code as it is (src/debugger/debugee/tracer.rs), including:
    - `single_step` injects a quiet signal with `step(Some(sig))` and takes back the request that `apply_new_status`
      has just queued for it;
    - a wait status other than a SIGTRAP stop after `PTRACE_SYSCALL` in `single_step` goes through `apply_new_status`;
    - `single_step` resumes with `step(None)` a thread that still has a signal queued for injection: a second
      signal-delivery-stop of that thread puts a second request in the queue (ghost flag `piled`);
    - `resume` pops the head of the queue and *excludes every thread that still has a queued signal* from being continued:
      with one thread and two queued signals the head is dropped without being injected and the next one is reported (again).

Abstraction of the program: between two script events the debuggee executes a long padding loop; an instruction step
never reaches the next script event nor the end of a handler it was started in (assumption, see tools/props/C10.py).
Positions are abstract: every executed instruction yields a fresh position; a handler frame remembers the interrupted
position and `rt_sigreturn` gives it back (this is what `pc == initial_pc` in `single_step` observes).
-/
namespace BsVerif.Sig
open BsVerif.Gen.Signals

abbrev Sig := Nat

def SIGINT : Sig := 2

/-- script events of the debuggee -/
inductive PEv
  | point            -- call of the breakpoint site
  | raise (s : Sig)  -- thread-directed signal to itself
  | kill (s : Sig)   -- process-directed signal to itself
  deriving DecidableEq, Repr

/-- the ptrace stop the thread sits in -/
inductive KStop
  | trap             -- any SIGTRAP stop (exec, breakpoint, single-step, notify)
  | sysEntry         -- syscall-enter-stop of the handler's `rt_sigreturn`
  | sig (s : Sig)    -- signal-delivery-stop of `s`
  | exited
  deriving DecidableEq, Repr

/-- what `waitpid` reports -/
inductive WEv
  | sigStop (s : Sig)
  | trap             -- SIGTRAP, si_code TRAP_TRACE / TRAP_BRKPT after a single step
  | trap5            -- SIGTRAP, si_code 5 (ptrace_notify after delivering a signal under single-step; syscall stop)
  | trapBp           -- SIGTRAP of the INT3 at the breakpoint site
  | exitEv           -- PTRACE_EVENT_EXIT followed by the exit status
  | unmodelled
  deriving DecidableEq, Repr

inductive Mode | cont | step | sysc
  deriving DecidableEq, Repr

structure K where
  script : List PEv                 -- events still to come
  pp : List Sig := []               -- thread-private pending set
  sp : List Sig := []               -- shared pending set
  stop : KStop := .trap
  pos : Nat := 0
  clock : Nat := 1
  frames : List Nat := []           -- interrupted positions of the active handler frames, innermost first
  bpPos : Option Nat := none        -- position of the last breakpoint hit
  delivered : List Sig := []        -- handler invocations, in order
  arrived : List Sig := []          -- ghost: signal-delivery-stops, in order
  sent : List Sig := []             -- ghost: signals sent (effective: not merged with an already pending instance)
  deriving Repr

def minL : List Nat → Option Nat
  | [] => none
  | a :: l => match minL l with
    | none => some a
    | some b => some (if a ≤ b then a else b)

namespace K

def dequeue (k : K) : Option (Sig × K) :=
  match minL k.pp with
  | some s => some (s, { k with pp := k.pp.erase s })
  | none => match minL k.sp with
    | some s => some (s, { k with sp := k.sp.erase s })
    | none => none

def arrive (k : K) (s : Sig) : K := { k with arrived := k.arrived ++ [s], stop := .sig s }

def deliver (k : K) (d : Sig) : K :=
  { k with delivered := k.delivered ++ [d], frames := k.pos :: k.frames, pos := k.clock, clock := k.clock + 1 }

def popFrame (k : K) : K :=
  match k.frames with
  | p :: fs => { k with pos := p, frames := fs }
  | [] => k

def fresh (k : K) : K := { k with pos := k.clock, clock := k.clock + 1 }

/-- the main flow runs (nothing pending, all handlers returned) until the next event -/
def runMain (bpOn : Bool) (k : K) : List PEv → K × WEv
  | [] => ({ k with script := [], stop := .exited }, .exitEv)
  | .point :: r =>
    if bpOn then
      let k := k.fresh
      ({ k with script := r, bpPos := some k.pos, stop := .trap }, .trapBp)
    else runMain bpOn k r
  | .raise s :: r => ({ (k.fresh.arrive s) with script := r, sent := k.sent ++ [s] }, .sigStop s)
  | .kill s :: r => ({ (k.fresh.arrive s) with script := r, sent := k.sent ++ [s] }, .sigStop s)

/-- `PTRACE_CONT / SINGLESTEP / SYSCALL (data = d)` followed by the `waitpid` that reports the next stop -/
def resume (k : K) (m : Mode) (d : Sig) (bpOn : Bool) : K × WEv :=
  if k.stop = .exited then (k, .unmodelled) else
  -- leaving a syscall-enter-stop executes the system call (rt_sigreturn)
  let k1 := if k.stop = .sysEntry then k.popFrame else k
  -- the signal of the stop is replaced by `d`; `d = 0` discards it
  let k2 := if d = 0 then k1 else k1.deliver d
  if m = .step ∧ d ≠ 0 then ({ k2 with stop := .trap }, .trap5)
  else match k2.dequeue with
    | some (s, k3) => (k3.arrive s, .sigStop s)
    | none =>
      match m with
      | .step =>
        if k.stop = .sysEntry then ({ k2 with stop := .trap }, .trap)
        else ({ k2.fresh with stop := .trap }, .trap)
      | .sysc =>
        if k2.frames = [] then ({ k2 with stop := .trap }, .unmodelled)
        else ({ k2.fresh with stop := .sysEntry }, .trap5)
      | .cont =>
        -- all handlers return; if that leads back onto the INT3 of the breakpoint site whose instruction has not been
        -- executed yet (the step over it was interrupted by a signal stop), the breakpoint is hit again
        let base := (k2.frames.getLast?).getD k2.pos
        if bpOn ∧ k2.bpPos = some base then ({ k2 with frames := [], pos := base, stop := .trap }, .trapBp)
        else runMain bpOn { k2 with frames := [] } k2.script

/-- a signal sent from outside while the thread is stopped -/
def send (k : K) (priv : Bool) (s : Sig) : K :=
  if priv then (if s ∈ k.pp then k else { k with pp := s :: k.pp, sent := k.sent ++ [s] })
  else (if s ∈ k.sp then k else { k with sp := s :: k.sp, sent := k.sent ++ [s] })

end K

/-- projection of the ptrace boundary traffic that the correspondence run compares -/
inductive LogEv
  | arr (s : Sig)             -- waitpid reported the signal-delivery-stop of s
  | inj (m : Mode) (s : Sig)  -- resume request with data s ≠ 0
  | sup (s : Sig)             -- resume request with data 0 while in the signal-delivery-stop of s
  deriving DecidableEq, Repr

inductive Cmd
  | brk | unbrk | start | cont | stepi
  | send (priv : Bool) (s : Sig)
  | drain
  deriving DecidableEq, Repr

inductive Out
  | ok | none | err | bad | dead
  | bp | exit | sig (s : Sig) | done | unmodelled | outOfFuel
  deriving DecidableEq, Repr

structure D where
  k : K
  queue : List Sig := []      -- `inject_signal_queue` (the pid component is constant: one thread)
  bpOn : Bool := false
  started : Bool := false
  dead : Bool := false
  log : List LogEv := []      -- cumulative
  reported : List Sig := []   -- cumulative: `StopReason::SignalStop` handed to the user (= `EventHook::on_signal`)
  stops : List Out := []      -- outcomes of the `continue`s of the last `drain`
  piled : Bool := false       -- ghost: some signal was queued while another one was still waiting for injection
  deriving Repr

/-- result of `Tracer::single_step` -/
inductive SRes | none | sig (s : Sig) | err | unmodelled | outOfFuel
  deriving DecidableEq, Repr

/-- result of `Tracer::resume` -/
inductive RRes | bp | exit | sig (s : Sig) | unmodelled | outOfFuel
  deriving DecidableEq, Repr

namespace D

def kres (d : D) (m : Mode) (s : Sig) : D × WEv :=
  let r := d.k.resume m s d.bpOn
  let l1 := if s ≠ 0 then [LogEv.inj m s] else match d.k.stop with
    | .sig c => [LogEv.sup c]
    | _ => []
  let l2 := match r.2 with
    | .sigStop a => [LogEv.arr a]
    | _ => []
  ({ d with k := r.1, log := d.log ++ l1 ++ l2 }, r.2)

/-- `apply_new_status`, `_ =>` branch: queue unless transparent -/
def push (d : D) (s : Sig) : D :=
  if s ∈ transparent then d else { d with queue := d.queue ++ [s], piled := d.piled || !d.queue.isEmpty }

/-- a resume request, the `waitpid` after it, and — when that reports a signal-delivery-stop — the queueing of the
signal by `apply_new_status` (one atomic step of the tracer: nothing happens between the three) -/
def kp (d : D) (m : Mode) (s : Sig) : D × WEv :=
  let r := d.kres m s
  match r.2 with
  | .sigStop a => (r.1.push a, r.2)
  | _ => r

/-- `single_step`, quiet branch: the injection request that `apply_new_status` has just queued for the signal is taken
back (`rposition` of the entry + `remove`) -/
def unqueue (q : List Sig) (s : Sig) : List Sig := (q.reverse.erase s).reverse

/-- the loop of `Tracer::single_step` after the first `step(None)`; a reported `sigStop` has already been queued -/
def ssLoop : Nat → Nat → D → WEv → D × SRes
  | 0, _, d, _ => (d, .outOfFuel)
  | f + 1, ini, d, .trap =>
    if d.k.pos = ini then
      let r := d.kp .step 0
      ssLoop f ini r.1 r.2
    else (d, .none)
  | _ + 1, _, d, .trapBp => (d, .none)
  | f + 1, ini, d, .trap5 =>
    -- `PTRACE_SYSCALL`, `wait_one`: a SIGTRAP stop is the syscall stop, anything else goes through `apply_new_status`
    let r := d.kp .sysc 0
    match r.2 with
    | .trap | .trap5 | .trapBp =>
      let r2 := r.1.kp .step 0
      ssLoop f ini r2.1 r2.2
    | .sigStop s => ssLoop f ini r.1 (.sigStop s)
    | _ => (r.1, .unmodelled)
  | f + 1, ini, d, .sigStop s =>
    if s ∈ quiet then
      let r := { d with queue := unqueue d.queue s }.kp .step s
      ssLoop f ini r.1 r.2
    else (d, .sig s)
  | _ + 1, _, d, .exitEv => (d, .err)
  | _ + 1, _, d, .unmodelled => (d, .unmodelled)

def ssFuel (d : D) : Nat := 4 * (d.k.pp.length + d.k.sp.length + d.queue.length) + 12

/-- `Tracer::single_step` -/
def singleStep (d : D) : D × SRes :=
  let r := d.kp .step 0
  ssLoop (ssFuel d) d.k.pos r.1 r.2

/-- `Tracer::resume` -/
def resume : Nat → D → D × RRes
  | 0, d => (d, .outOfFuel)
  | f + 1, d =>
    match d.queue with
    | _ :: s' :: rest =>
      -- the only thread is in the `exclude` set: nothing is continued, the head is gone, the next one is reported
      ({ d with queue := s' :: rest }, .sig s')
    | q =>
      let r := { d with queue := [] }.kp .cont (q.headD 0)
      match r.2 with
      | .sigStop s => if s ∈ quiet then resume f r.1 else (r.1, .sig s)
      | .trapBp => (r.1, .bp)
      | .exitEv => (r.1, .exit)
      | _ => (r.1, .unmodelled)

def resFuel (d : D) : Nat := d.k.script.length + d.k.pp.length + d.k.sp.length + d.queue.length + 2

def atBp (d : D) : Bool := d.bpOn && (d.k.bpPos == some d.k.pos)

end D

namespace D

def report (d : D) (s : Sig) : D := { d with reported := d.reported ++ [s] }

def running (d : D) : Bool := d.started && !(d.k.stop == .exited)

/-- the loop of `Debugger::continue_execution` after the optional step over the breakpoint -/
def afterStep (d : D) : D × Out :=
  let r := d.resume (resFuel d)
  match r.2 with
  | .bp => (r.1, .bp)
  | .exit => (r.1, .exit)
  | .sig s => (r.1.report s, .sig s)
  | .unmodelled => (r.1, .unmodelled)
  | .outOfFuel => ({ r.1 with dead := true }, .outOfFuel)

/-- outcome of a `single_step` that did not complete -/
def stepOut (d : D) : SRes → D × Out
  | .sig s => (d.report s, .sig s)
  | .none => (d, .done)
  | .err => (d, .err)
  | .unmodelled => (d, .unmodelled)
  | .outOfFuel => ({ d with dead := true }, .outOfFuel)

/-- `Debugger::continue_execution` -/
def contExec (d : D) : D × Out :=
  if d.atBp then
    let r := d.singleStep
    match r.2 with
    | .none => r.1.afterStep
    | o => stepOut r.1 o
  else d.afterStep

/-- `Debugger::stepi` (the hook tells signal stops from completed steps) -/
def stepiExec (d : D) : D × Out :=
  let r := d.singleStep
  stepOut r.1 r.2

def drainLoop : Nat → D → List Out → D × List Out
  | 0, d, acc => (d, acc)
  | n + 1, d, acc =>
    if d.k.stop = .exited then (d, acc) else
    let r := d.contExec
    match r.2 with
    | .exit => (r.1, acc ++ [.exit])
    | .sig s => drainLoop n r.1 (acc ++ [.sig s])
    | .bp => drainLoop n r.1 (acc ++ [.bp])
    | o => (r.1, acc ++ [o])

def exec (d : D) : Cmd → D × Out
  | .brk => if d.dead then (d, .dead) else ({ d with bpOn := true }, .ok)
  | .unbrk => if d.dead then (d, .dead) else if d.bpOn then ({ d with bpOn := false }, .ok) else (d, .none)
  | .start =>
    if d.dead then (d, .dead) else if d.started then (d, .err) else contExec { d with started := true }
  | .cont => if d.dead then (d, .dead) else if d.running then d.contExec else (d, .err)
  | .stepi => if d.dead then (d, .dead) else if d.running then d.stepiExec else (d, .err)
  | .send priv s =>
    if d.dead then (d, .dead) else if d.running then ({ d with k := d.k.send priv s }, .ok) else (d, .bad)
  | .drain =>
    if d.dead then (d, .dead) else
    let d := { d with bpOn := false }
    if d.running then
      let r := drainLoop 40 d []
      ({ r.1 with dead := true, stops := r.2 }, .ok)
    else ({ d with dead := true, stops := [] }, .ok)

def init (script : List PEv) : D := { k := { script := script } }

def run (d : D) : List Cmd → D
  | [] => d
  | c :: cs => run (d.exec c).1 cs

end D

end BsVerif.Sig
