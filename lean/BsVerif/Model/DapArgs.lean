import BsVerif.Model.CmdNum
/-!
Model of the **argument decoding and the pure string / number handling of every DAP request handler**
(`src/dap/yadap/session/{mod,init,breakpoint,control,data,frame,other,source}.rs`), with Rust's fault outcomes
explicit (DESIGN 2.4): which messages are answered with success, which with an error response, which are handed
to the debugger, and which make the session thread **panic**, the process **abort**, or the session loop **end**.

* `J`: a small JSON value type (what `serde_json::Value` offers to the handlers: `get`, `as_i64`, `as_str`, ...).
* strings are `List Char`; where the code (or a plausible change of it) indexes the UTF-8 *bytes*, the byte view is
  explicit (`utf8Len`, `byteOff`, `isCharBoundary`, `strSlice` = Rust's `&s[a..b]`).
* `decode q s seq cmd args : R Out` mirrors each handler up to the first call into the debugger; what the debugger
  then answers is not decided here (`Out.pass`: the correspondence run supplies it as a hint).
* error responses carry the *literal* of the message as written in the source (up to its first `{`), so that the
  correspondence run compares the exact rejection site, not only the class.

Core Lean only (linked into `bsmodel`).
-/
namespace BsVerif.DapArgs

/-- `k!"text"` = `['t', 'e', 'x', 't']`: member names and keywords as explicit character lists, so that concrete
requests evaluate by `decide` / `rfl` -/
macro:max "k!" s:str : term => do
  let elems ← s.getString.toList.toArray.mapM fun c => `($(Lean.Syntax.mkCharLit c))
  `([$elems,*])

/-! ## JSON values -/

/-- `num n`: a number `serde_json` keeps as an integer (`i64` or `u64`); `flt`: a number it keeps as `f64`
(a literal with fraction/exponent, or an integer literal outside `[-2^63, 2^64)`). -/
inductive J where
  | null
  | bool (b : Bool)
  | num (n : Int)
  | flt
  | str (s : List Char)
  | arr (xs : List J)
  | obj (kvs : List (List Char × J))
  deriving Inhabited

/-- `serde_json::Map::get`: the map keeps one value per key, the last one written -/
def lookupLast (k : List Char) : List (List Char × J) → Option J
  | [] => none
  | (k', v) :: rest =>
    match lookupLast k rest with
    | some r => some r
    | none => if k' = k then some v else none

namespace J
/-- `Value::get(&str)`: `None` unless the value is an object having the key -/
def get (j : J) (k : List Char) : Option J :=
  match j with
  | .obj kvs => lookupLast k kvs
  | _ => none
/-- `Value::as_i64` -/
def i64? : J → Option Int
  | .num n => if -(2 ^ 63) ≤ n ∧ n < 2 ^ 63 then some n else none
  | _ => none
def str? : J → Option (List Char)
  | .str s => some s
  | _ => none
def bool? : J → Option Bool
  | .bool b => some b
  | _ => none
def arr? : J → Option (List J)
  | .arr xs => some xs
  | _ => none
def isObj : J → Bool
  | .obj _ => true
  | _ => false
def isNull : J → Bool
  | .null => true
  | _ => false
def kvs : J → List (List Char × J)
  | .obj kvs => kvs
  | _ => []
end J

def getStr (a : J) (k : List Char) : Option (List Char) := (a.get k).bind J.str?
def getI64 (a : J) (k : List Char) : Option Int := (a.get k).bind J.i64?
/-- `args.get(k).is_some() && args.get(k).and_then(|v| v.as_i64()).is_none()` -/
def presentNotI64 (a : J) (k : List Char) : Bool := (a.get k).isSome && (getI64 a k).isNone
def presentNotStr (a : J) (k : List Char) : Bool := (a.get k).isSome && (getStr a k).isNone

/-! ## outcomes -/

/-- why the session thread panics -/
inductive Panic where
  | expr (site : CmdNum.Site)   -- the console expression parser, numeric token out of range (`unwrapped()`)
  | addOverflow                 -- `attempt to add with overflow` (dev profile)
  | capacity                    -- `Vec::with_capacity`: "capacity overflow"
  | index                       -- index out of bounds
  | slice                       -- slice bounds
  | charBoundary                -- `&s[a..b]` off a char boundary
  deriving Repr, DecidableEq, Inhabited

def Panic.cls : Panic → String
  | .expr s => "expr-" ++ s.cls
  | .addOverflow => "add-overflow" | .capacity => "capacity" | .index => "index" | .slice => "slice"
  | .charBoundary => "char-boundary"

inductive Out where
  | ok                              -- one success response
  | okC (start len : Nat)           -- `completions`: success; items (if any) carry `start` / `length`
  | err (msg : String)              -- one error response; `msg` = the source literal of the message
  | pass                            -- arguments accepted and handed to the debugger (its answer is not modelled)
  | okThenErr (msg : String)        -- `continue`: the success response is sent first, then the call fails
  | okThenPass                      -- `continue`: success response, then the debugger decides
  | panic (p : Panic)               -- the session thread panics (no `catch_unwind` in the DAP loop)
  | abort                           -- the allocation fails: the process aborts
  | killed                          -- the adapter signals its own process group
  | dropped                         -- the session loop returns `Err`: the connection is dropped
  | ignored                         -- a message whose `type` is not `request`: no answer, the loop goes on
  | closed                          -- the session has ended before this message
  deriving Repr, DecidableEq, Inhabited

/-- the request was answered (or legitimately ignored) and the session is still there -/
def Out.Safe : Out → Prop
  | .panic _ => False
  | .abort => False
  | .killed => False
  | .dropped => False
  | _ => True

instance : DecidablePred Out.Safe := fun o => by cases o <;> simp only [Out.Safe] <;> infer_instance

/-- early-exit monad of a handler: `stop o` = the handler is done with outcome `o` -/
inductive R (α : Type) where
  | val (a : α)
  | stop (o : Out)
  deriving DecidableEq

instance : Monad R where
  pure := .val
  bind x f := match x with
    | .val a => f a
    | .stop o => .stop o

def R.run : R Out → Out
  | .val o => o
  | .stop o => o

/-- `opt.ok_or_else(|| anyhow!(msg))?` -/
def orErr {α} (o : Option α) (msg : String) : R α :=
  match o with
  | some a => .val a
  | none => .stop (.err msg)

/-- `if c { return self.send_err(req, msg) }` -/
def rejectIf (c : Bool) (msg : String) : R Unit := if c then .stop (.err msg) else .val ()

/-! ## quirks (as found / repaired) -/

structure Q where
  parser : CmdNum.Quirks := {}     -- the console expression parser; as it is: `try_map` conversions (no panic)
  overflowChecks : Bool := true    -- dev/test profile: `+` on `usize` panics on overflow
  checkedArith : Bool := false     -- repair: `checked_add` and an error response
  allocGuard : Bool := true        -- `try_reserve_exact` in `read_memory_by_pid`: a size that cannot be reserved is an error (939acb3)
  killGuard : Bool := false        -- repair: `terminateThreads` refuses thread id 0
  envelopeGuard : Bool := false    -- repair: a malformed envelope is skipped instead of ending the session
  deriving Repr

/-- the code as it is -/
def current : Q := {}
/-- the code as it was found (before the repairs of the numeric tokens 49f358c b81e8d8 67375f8 0af67fe and of the
read-buffer reservation 939acb3): kept to express the regressions -/
def asFound : Q := { parser := CmdNum.asFound, allocGuard := false }
/-- every repair in place, also those of the defects that are still open -/
def repaired : Q :=
  { parser := CmdNum.repaired, checkedArith := true, allocGuard := true, killGuard := true, envelopeGuard := true }

/-! ## session state the decoding depends on -/

inductive Dbg | none | loaded | live | exited
  deriving Repr, DecidableEq, Inhabited
inductive Mode | none | launch | attach
  deriving Repr, DecidableEq, Inhabited

structure Sess where
  dbg : Dbg := .none              -- `self.debugger`: absent / built, debuggee not started / stopped / exited
  mode : Mode := .none            -- `self.session_mode`
  cancelled : List Int := []      -- `self.canceled_request_ids`
  ended : Bool := false           -- the `run` loop has returned (or the thread / process is gone)
  deriving Repr, Inhabited

/-! ## strings: trimming, numbers, memory references, base64 -/

/-- Unicode `White_Space` (what `str::trim` removes) -/
def isWhite (c : Char) : Bool :=
  let n := c.toNat
  (9 ≤ n && n ≤ 13) || n == 32 || n == 0x85 || n == 0xA0 || n == 0x1680 || (0x2000 ≤ n && n ≤ 0x200A)
    || n == 0x2028 || n == 0x2029 || n == 0x202F || n == 0x205F || n == 0x3000

def trim (s : List Char) : List Char := ((s.dropWhile isWhite).reverse.dropWhile isWhite).reverse

/-- `char::to_digit(radix)` -/
def digitVal (radix : Nat) (c : Char) : Option Nat :=
  let n := c.toNat
  let v := if 48 ≤ n ∧ n ≤ 57 then some (n - 48)
    else if 97 ≤ n ∧ n ≤ 122 then some (n - 97 + 10)
    else if 65 ≤ n ∧ n ≤ 90 then some (n - 65 + 10)
    else none
  v.bind fun d => if d < radix then some d else none

def digitsVal (radix : Nat) : List Char → Nat → Option Nat
  | [], acc => some acc
  | c :: cs, acc => match digitVal radix c with
    | some d => digitsVal radix cs (acc * radix + d)
    | none => none

/-- the value of `[+]digits` (unbounded); `none` = `Err(Empty | InvalidDigit)` -/
def parseNat (radix : Nat) (s : List Char) : Option Nat :=
  let s := match s with
    | '+' :: r => r
    | s => s
  if s.isEmpty then none else digitsVal radix s 0

/-- `usize::from_str_radix` / `str::parse::<usize>`: the checked multiply-add loop fails exactly when the value does
not fit (`C08_num_conv_exact`) -/
def parseUsize (radix : Nat) (s : List Char) : Option Nat :=
  (parseNat radix s).bind fun v => if v < 2 ^ 64 then some v else none

/-- `str::parse::<i64>` -/
def parseI64 (s : List Char) : Option Int :=
  let (neg, r) := match s with
    | '-' :: r => (true, r)
    | '+' :: r => (false, r)
    | s => (false, s)
  if r.isEmpty then none else
  match digitsVal 10 r 0 with
  | none => none
  | some v =>
    let i : Int := if neg then -(v : Int) else v
    if -(2 ^ 63) ≤ i ∧ i < 2 ^ 63 then some i else none

/-- `parse_memory_reference` (mod.rs:696): `Err` carries the context literal -/
def parseMemRef (reference : List Char) : Except String Nat :=
  let t := trim reference
  match t with
  | '0' :: 'x' :: hex =>
    match parseUsize 16 hex with
    | some v => .ok v
    | none => .error "parse hex memory reference"
  | _ =>
    match parseUsize 10 t with
    | some v => .ok v
    | none => .error "parse memory reference"

/-- `parse_memory_reference_with_offset` (mod.rs:706) -/
def memRefWithOffset (reference : List Char) (offset : Int) : Except String Nat :=
  match parseMemRef reference with
  | .error e => .error e
  | .ok base =>
    if ¬ base < 2 ^ 63 then .error "memoryReference out of range" else
    let addr : Int := base + offset
    if ¬ addr < 2 ^ 63 then .error "memoryReference + offset overflow"   -- `checked_add` (offset ≥ -2^63: no underflow)
    else if addr < 0 then .error "memoryReference + offset is negative"
    else .ok addr.toNat

/-- `?` on a memory-reference error: with `.context(ctx)` the message starts with `ctx`, otherwise with the literal -/
def memRefR (r : Except String Nat) (ctx : Option String) : R Nat :=
  match r with
  | .ok v => .val v
  | .error e => .stop (.err (ctx.getD e))

def b64Val (c : Char) : Option Nat :=
  let n := c.toNat
  if 65 ≤ n ∧ n ≤ 90 then some (n - 65)
  else if 97 ≤ n ∧ n ≤ 122 then some (n - 97 + 26)
  else if 48 ≤ n ∧ n ≤ 57 then some (n - 48 + 52)
  else if c = '+' then some 62
  else if c = '/' then some 63
  else none

/-- `base64::engine::general_purpose::STANDARD.decode`: canonical padding required, no trailing bits;
`some n` = `Ok` with `n` decoded bytes, `none` = any `DecodeError` -/
def b64DecodedLen (s : List Char) : Option Nat :=
  let n := s.length
  if n % 4 ≠ 0 then none else
  let pad := (s.reverse.takeWhile (· = '=')).length
  if pad > 2 then none else
  let core := s.take (n - pad)
  if ¬ core.all (fun c => (b64Val c).isSome) then none else
  let lastBitsOk : Bool := match core.getLast?.bind b64Val with
    | none => pad = 0
    | some v => if pad = 2 then v % 16 = 0 else if pad = 1 then v % 4 = 0 else true
  if lastBitsOk then some (n / 4 * 3 - pad) else none

/-! ## UTF-8 view of a string -/

def utf8Len (c : Char) : Nat :=
  if c.toNat < 0x80 then 1 else if c.toNat < 0x800 then 2 else if c.toNat < 0x10000 then 3 else 4

/-- byte offset of the `k`-th character -/
def byteOff (cs : List Char) (k : Nat) : Nat := ((cs.take k).map utf8Len).sum

def byteLen (cs : List Char) : Nat := (cs.map utf8Len).sum

/-- `str::is_char_boundary` -/
def isCharBoundary : List Char → Nat → Bool
  | _, 0 => true
  | [], _ + 1 => false
  | c :: cs, b + 1 => if utf8Len c ≤ b + 1 then isCharBoundary cs (b + 1 - utf8Len c) else false

/-- the characters that start at byte offsets in `[a, b)` -/
def charsBetween : List Char → Nat → Nat → List Char
  | [], _, _ => []
  | c :: cs, a, b =>
    if b = 0 then [] else
    if a = 0 then c :: charsBetween cs 0 (b - utf8Len c) else charsBetween cs (a - utf8Len c) (b - utf8Len c)

/-- Rust `&s[a..b]` on a `str`: panics unless `a ≤ b ≤ len` and both are char boundaries -/
def strSlice (cs : List Char) (a b : Nat) : R (List Char) :=
  if a ≤ b ∧ b ≤ byteLen cs ∧ isCharBoundary cs a ∧ isCharBoundary cs b then .val (charsBetween cs a b)
  else .stop (.panic .charBoundary)

/-- the UTF-8 encoding (bytes as numbers) -/
def utf8Encode (c : Char) : List Nat :=
  let n := c.toNat
  if n < 0x80 then [n]
  else if n < 0x800 then [0xC0 + n / 64, 0x80 + n % 64]
  else if n < 0x10000 then [0xE0 + n / 4096, 0x80 + n / 64 % 64, 0x80 + n % 64]
  else [0xF0 + n / 262144, 0x80 + n / 4096 % 64, 0x80 + n / 64 % 64, 0x80 + n % 64]

def utf8Bytes (cs : List Char) : List Nat := cs.flatMap utf8Encode

/-! ## `completion_prefix` (other.rs:290) -/

/-- `c.is_ascii_alphanumeric() || c == '_' || c == ':'` -/
def isPrefixChar (c : Char) : Bool :=
  let n := c.toNat
  (48 ≤ n && n ≤ 57) || (65 ≤ n && n ≤ 90) || (97 ≤ n && n ≤ 122) || c == '_' || c == ':'

/-- the `while start_idx > 0` loop; `chars[start_idx - 1]` is a bounds-checked index -/
def scanBack (cs : List Char) : Nat → Nat → R Nat
  | 0, start => .val start
  | f + 1, start =>
    if start = 0 then .val 0 else
    match cs[start - 1]? with
    | none => .stop (.panic .index)
    | some c => if isPrefixChar c then scanBack cs f (start - 1) else .val start

/-- `completion_prefix(text, Some(column))`: `(prefix, start_column, length)` -/
def completionPrefix (text : List Char) (column : Int) : R (List Char × Nat × Nat) :=
  let maxCol : Int := text.length + 1
  let col : Int := max 1 (min column maxCol)        -- `clamp(1, max_col)`
  let endIdx := (col - 1).toNat
  match scanBack text endIdx endIdx with
  | .stop o => .stop o
  | .val start =>
    -- `chars[start_idx..end_idx]`
    if start ≤ endIdx ∧ endIdx ≤ text.length then .val ((text.drop start).take (endIdx - start), start + 1, endIdx - start)
    else .stop (.panic .slice)

/-- the same scan on the UTF-8 **bytes** with `column` as a byte offset and the prefix cut by `&text[start..end]`:
not what the code does — the class of change the byte view exists to expose (`C08_dap_completion_bytes_*`). -/
def scanBackBytes (bs : List Nat) : Nat → Nat → R Nat
  | 0, start => .val start
  | f + 1, start =>
    if start = 0 then .val 0 else
    match bs[start - 1]? with
    | none => .stop (.panic .index)
    | some b =>
      if (48 ≤ b && b ≤ 57) || (65 ≤ b && b ≤ 90) || (97 ≤ b && b ≤ 122) || b == 95 || b == 58 then scanBackBytes bs f (start - 1)
      else .val start

def completionPrefixBytes (text : List Char) (column : Int) : R (List Char × Nat × Nat) :=
  let bs := utf8Bytes text
  let maxCol : Int := bs.length + 1
  let col : Int := max 1 (min column maxCol)
  let endIdx := (col - 1).toNat
  match scanBackBytes bs endIdx endIdx with
  | .stop o => .stop o
  | .val start =>
    match strSlice text start endIdx with
    | .stop o => .stop o
    | .val p => .val (p, start + 1, endIdx - start)

/-! ## the console expression parser as the handlers call it -/

def resToR (r : CmdNum.Res) : R Bool :=
  match r with
  | .panic site => .stop (.panic (.expr site))
  | .ok _ => .val true
  | _ => .val false

/-- `bs_expr::parser().parse(s).into_result()`: `true` = `Ok`, `false` = `Err`, or the parser panics -/
def parseExpr (q : Q) (s : List Char) : R Bool := resToR (CmdNum.parseDqe q.parser s)

/-- `watchpoint_at_address().then_ignore(end()).parse(s)` -/
def parseWpAddr (q : Q) (s : List Char) : R Bool :=
  resToR (CmdNum.run q.parser CmdNum.G.env (CmdNum.fuelFor s) (.seq CmdNum.G.wpAddr .eoi) s)

/-- `parse_data_breakpoint_expression` (breakpoint.rs:152): `Ok`/`Err` (both answered), or a panic -/
def parseDataBpExpr (q : Q) (expr : List Char) : R Bool :=
  let t := trim expr
  if t.isEmpty then .val false else
  match parseWpAddr q t with
  | .stop o => .stop o
  | .val true => .val true
  | .val false => parseExpr q t

def stripPrefix? (p : List Char) (s : List Char) : Option (List Char) :=
  if p.isPrefixOf s then some (s.drop p.length) else none

/-- `parse_data_breakpoint_id` -/
def parseDataBpId (q : Q) (dataId : List Char) : R Bool :=
  let t := trim dataId
  match stripPrefix? k!"expr:" t with
  | some e => parseDataBpExpr q e
  | none =>
    match stripPrefix? k!"addr:" t with
    | some e => parseDataBpExpr q e
    | none => parseDataBpExpr q t

/-! ## allocation sized by a request -/

def isizeMax : Nat := 2 ^ 63 - 1
/-- requests of this size and above cannot be satisfied in a 47-bit user address space (assumption; sizes between
64 KiB and this bound are not generated) -/
def allocMax : Nat := 2 ^ 47

/-- the read buffer of `read_memory_by_pid` (debugger/mod.rs): `try_reserve_exact(n)` — a size that cannot be
reserved is an `ENOMEM` error of the debugger call (its answer is an error response, not modelled here);
as found `Vec::with_capacity(n)`: "capacity overflow" above `isize::MAX`, otherwise the process aborts -/
def alloc (q : Q) (n : Nat) : R Unit :=
  if n < allocMax then .val ()
  else if q.allocGuard then .val ()
  else if n > isizeMax then .stop (.panic .capacity)
  else .stop .abort

/-! ## commands -/

inductive Cmd
  | initialize | launch | attach | configurationDone | setBreakpoints | setFunctionBreakpoints
  | setInstructionBreakpoints | setExceptionBreakpoints | dataBreakpointInfo | setDataBreakpoints
  | breakpointLocations | exceptionInfo | threads | stackTrace | scopes | variables | setVariable
  | continue_ | restart | restartFrame | next | stepIn | stepInTargets | stepOut | stepBack | reverseContinue
  | pause | gotoTargets | goto | evaluate | setExpression | completions | loadedSources | modules
  | readMemory | writeMemory | disassemble | terminate | terminateThreads | cancel | runInTerminal
  | disconnect | source | other
  deriving Repr, DecidableEq, Inhabited

def Cmd.name : Cmd → String
  | .initialize => "initialize" | .launch => "launch" | .attach => "attach"
  | .configurationDone => "configurationDone" | .setBreakpoints => "setBreakpoints"
  | .setFunctionBreakpoints => "setFunctionBreakpoints" | .setInstructionBreakpoints => "setInstructionBreakpoints"
  | .setExceptionBreakpoints => "setExceptionBreakpoints" | .dataBreakpointInfo => "dataBreakpointInfo"
  | .setDataBreakpoints => "setDataBreakpoints" | .breakpointLocations => "breakpointLocations"
  | .exceptionInfo => "exceptionInfo" | .threads => "threads" | .stackTrace => "stackTrace" | .scopes => "scopes"
  | .variables => "variables" | .setVariable => "setVariable" | .continue_ => "continue" | .restart => "restart"
  | .restartFrame => "restartFrame" | .next => "next" | .stepIn => "stepIn" | .stepInTargets => "stepInTargets"
  | .stepOut => "stepOut" | .stepBack => "stepBack" | .reverseContinue => "reverseContinue" | .pause => "pause"
  | .gotoTargets => "gotoTargets" | .goto => "goto" | .evaluate => "evaluate" | .setExpression => "setExpression"
  | .completions => "completions" | .loadedSources => "loadedSources" | .modules => "modules"
  | .readMemory => "readMemory" | .writeMemory => "writeMemory" | .disassemble => "disassemble"
  | .terminate => "terminate" | .terminateThreads => "terminateThreads" | .cancel => "cancel"
  | .runInTerminal => "runInTerminal" | .disconnect => "disconnect" | .source => "source" | .other => "?"

/-- the arms of `DebugSession::dispatch` in source order -/
def Cmd.all : List Cmd := [
  .initialize, .launch, .attach, .configurationDone, .setBreakpoints, .setFunctionBreakpoints,
  .setInstructionBreakpoints, .setExceptionBreakpoints, .dataBreakpointInfo, .setDataBreakpoints,
  .breakpointLocations, .exceptionInfo, .threads, .stackTrace, .scopes, .variables, .setVariable,
  .continue_, .restart, .restartFrame, .next, .stepIn, .stepInTargets, .stepOut, .stepBack, .reverseContinue,
  .pause, .gotoTargets, .goto, .evaluate, .setExpression, .completions, .loadedSources, .modules,
  .readMemory, .writeMemory, .disassemble, .terminate, .terminateThreads, .cancel, .runInTerminal,
  .disconnect, .source]

def Cmd.ofName (s : String) : Cmd := (Cmd.all.find? (fun c => c.name == s)).getD .other

/-! ## the handlers, up to the first call into the debugger -/

/-- `self.debugger.as_ref().ok_or_else(|| anyhow!("<cmd>: debugger not initialized"))?` -/
def needDbg (s : Sess) (cmd : String) : R Unit :=
  if s.dbg = .none then .stop (.err (cmd ++ ": debugger not initialized")) else .val ()

/-- `consume_cancellation(req, None)` -/
def cancelCheck (s : Sess) (seq : Int) : R Unit :=
  if s.cancelled.contains seq then .stop (.err "cancelled") else .val ()

def i32Range (n : Int) : Bool := -(2 ^ 31) ≤ n && n < 2 ^ 31

def decAttach (a : J) : R Out := do
  let pv ← orErr ((a.get k!"pid").orElse fun _ => a.get k!"processId") "attach: missing arguments.pid/processId"
  let raw ← match pv.i64? with
    | some n => (pure n : R Int)
    | none => match pv.str? with
      | some s => orErr (parseI64 s) "attach: pid must be an integer"
      | none => .stop (.err "attach: pid must be an integer")
  rejectIf (!i32Range raw) "attach: pid out of range"
  pure .pass

def decBreakpointLocations (s : Sess) (a : J) : R Out := do
  rejectIf (!a.isObj) "breakpointLocations: arguments must be object"
  match a.get k!"source" with
  | some src =>
    needDbg s "breakpointLocations"
    let path ← orErr (getStr src k!"path") "breakpointLocations: missing source.path"
    rejectIf path.isEmpty "breakpointLocations: source.path must not be empty"
    let line ← orErr (getI64 a k!"line") "breakpointLocations: missing line"
    rejectIf (line < 1) "breakpointLocations: line must be >= 1"
    rejectIf (presentNotI64 a k!"endLine") "breakpointLocations: endLine must be an integer"
    let endLine := (getI64 a k!"endLine").getD line
    rejectIf (endLine < line) "breakpointLocations: endLine must be >= line"
    rejectIf (presentNotI64 a k!"column") "breakpointLocations: column must be an integer"
    let column := getI64 a k!"column"
    rejectIf (match column with | some c => c < 1 | none => false) "breakpointLocations: column must be >= 1"
    rejectIf (presentNotI64 a k!"endColumn") "breakpointLocations: endColumn must be an integer"
    let endColumn := (getI64 a k!"endColumn").orElse fun _ => column
    rejectIf (match column, endColumn with | some c, some e => e < c | _, _ => false)
      "breakpointLocations: endColumn must be >= column"
    pure .pass
  | none =>
    match getStr a k!"instructionReference" with
    | some reference =>
      rejectIf reference.isEmpty "breakpointLocations: instructionReference must not be empty"
      rejectIf (presentNotI64 a k!"offset") "breakpointLocations: offset must be an integer"
      rejectIf (presentNotI64 a k!"endOffset") "breakpointLocations: endOffset must be an integer"
      let offset := (getI64 a k!"offset").getD 0
      let _ ← memRefR (memRefWithOffset reference offset) none
      match getI64 a k!"endOffset" with
      | some endOffset =>
        rejectIf (endOffset < offset) "breakpointLocations: endOffset is before offset"
        let _ ← memRefR (memRefWithOffset reference endOffset) none
        needDbg s "breakpointLocations"
        pure .pass          -- `disassemble_from_range`: reads at most 0x10000 bytes
      | none =>
        needDbg s "breakpointLocations"
        pure .pass          -- `disassemble_from_address(.., 1, ..)`: reads 16 bytes
    | none => .stop (.err "breakpointLocations: missing source or instructionReference")

/-- the loop over `breakpoints` of `setDataBreakpoints`: an entry without `dataId` or with an unsupported
`accessType` is reported as unverified (no parse); otherwise the id is parsed (the watchpoint call is not modelled) -/
def dataBpLoop (q : Q) : List J → R Out
  | [] => .val .ok
  | bp :: rest =>
    match getStr bp k!"dataId" with
    | none => dataBpLoop q rest
    | some dataId =>
      let accessOk : Bool := match getStr bp k!"accessType" with
        | none => true
        | some t => t = k!"write" || t = k!"readWrite"
      if accessOk then
        match parseDataBpId q dataId with
        | .stop o => .stop o
        | .val _ => dataBpLoop q rest
      else dataBpLoop q rest

def decSetDataBreakpoints (q : Q) (s : Sess) (a : J) : R Out := do
  let bps := ((a.get k!"breakpoints").bind J.arr?).getD []
  needDbg s "setDataBreakpoints"
  dataBpLoop q bps

def decRestartFrame (s : Sess) (a : J) : R Out := do
  needDbg s "restartFrame"
  let frameId ← orErr (getI64 a k!"frameId") "restartFrame: missing arguments.frameId"
  rejectIf (frameId < 0) "restartFrame: frameId must be non-negative"
  rejectIf (frameId % 65536 ≠ 0) "restartFrame: only the top frame (0) can be restarted"
  pure .pass

def decStepInTargets (s : Sess) (a : J) : R Out := do
  needDbg s "stepInTargets"
  rejectIf (!a.isObj) "stepInTargets: arguments must be object"
  let frameId ← orErr (getI64 a k!"frameId") "stepInTargets: missing arguments.frameId"
  rejectIf (frameId < 0) "stepInTargets: frameId must be non-negative"
  pure .pass

/-- `stepBack` / `reverseContinue` -/
def decReverse (cmd : String) (a : J) : R Out := do
  rejectIf (!a.isObj) (cmd ++ ": arguments must be object")
  rejectIf (presentNotI64 a k!"threadId") (cmd ++ ": threadId must be an integer")
  let tid ← orErr (getI64 a k!"threadId") (cmd ++ ": missing arguments.threadId")
  rejectIf (tid < 0) (cmd ++ ": threadId must be non-negative")
  rejectIf (!i32Range tid) (cmd ++ ": threadId out of range")
  .stop (.err (cmd ++ ": reverse execution is not supported by the current engine"))

def decGotoTargets (s : Sess) (a : J) : R Out := do
  rejectIf (!a.isObj) "gotoTargets: arguments must be object"
  let path ← orErr (((a.get k!"source").bind (·.get k!"path")).bind J.str?) "gotoTargets: missing arguments.source.path"
  rejectIf path.isEmpty "gotoTargets: source.path must not be empty"
  let line ← orErr (getI64 a k!"line") "gotoTargets: missing arguments.line"
  rejectIf (line < 1) "gotoTargets: line must be >= 1"
  rejectIf (presentNotI64 a k!"column") "gotoTargets: column must be an integer"
  let column := (getI64 a k!"column").getD 1
  rejectIf (column < 1) "gotoTargets: column must be >= 1"
  needDbg s "gotoTargets"
  pure .ok                -- a failing line lookup gives an empty target list, not an error

def decGoto (s : Sess) (a : J) : R Out := do
  needDbg s "goto"
  rejectIf (!a.isObj) "goto: arguments must be object"
  rejectIf (presentNotI64 a k!"targetId") "goto: targetId must be an integer"
  rejectIf (presentNotStr a k!"instructionReference") "goto: instructionReference must be a string"
  rejectIf (presentNotI64 a k!"threadId") "goto: threadId must be an integer"
  match getI64 a k!"targetId" with
  | some t => rejectIf (t < 0) "goto: targetId must be non-negative"
  | none =>
    match getStr a k!"instructionReference" with
    | some reference =>
      rejectIf reference.isEmpty "goto: instructionReference must not be empty"
      let _ ← memRefR (memRefWithOffset reference 0) none
      pure ()
    | none => .stop (.err "goto: missing arguments.targetId")
  match getI64 a k!"threadId" with
  | some t =>
    rejectIf (t < 0) "goto: threadId must be non-negative"
    rejectIf (!i32Range t) "goto: threadId out of range"
  | none => pure ()
  pure .pass

def decEvaluate (q : Q) (s : Sess) (seq : Int) (a : J) : R Out := do
  cancelCheck s seq
  let expr ← orErr (getStr a k!"expression") "evaluate: missing arguments.expression"
  needDbg s "evaluate"
  let _ ← parseExpr q expr
  pure .pass

def decSetExpression (q : Q) (s : Sess) (a : J) : R Out := do
  needDbg s "setExpression"
  let expr ← orErr (getStr a k!"expression") "setExpression: missing arguments.expression"
  let _ ← orErr (getStr a k!"value") "setExpression: missing arguments.value"
  match a.get k!"frameId" with
  | some fv =>
    let f ← orErr fv.i64? "setExpression: frameId must be an integer"
    rejectIf (f < 0) "setExpression: frameId must be non-negative"
  | none => pure ()
  let _ ← parseExpr q expr
  pure .pass

def decCompletions (a : J) : R Out := do
  rejectIf (!a.isObj) "completions: arguments must be object (possibly empty)"
  let tv ← orErr (a.get k!"text") "completions: missing arguments.text"
  let text ← orErr tv.str? "completions: text must be a string"
  let column ← orErr (getI64 a k!"column") "completions: missing arguments.column"
  rejectIf (column < 1) "completions: column must be >= 1"
  match a.get k!"frameId" with
  | some fv =>
    let f ← orErr fv.i64? "completions: frameId must be an integer"
    rejectIf (f < 0) "completions: frameId must be non-negative"
  | none => pure ()
  let (_, start, len) ← completionPrefix text column
  pure (if len > 0 then .okC start len else .ok)

def decReadMemory (q : Q) (s : Sess) (seq : Int) (a : J) : R Out := do
  cancelCheck s seq
  needDbg s "readMemory"
  rejectIf (!a.isObj) "readMemory: arguments must be object"
  let mr ← orErr (getStr a k!"memoryReference") "readMemory: missing arguments.memoryReference"
  let count ← orErr (getI64 a k!"count") "readMemory: missing arguments.count"
  rejectIf (count < 0) "readMemory: count must be non-negative"
  let offset := (getI64 a k!"offset").getD 0
  let _ ← memRefR (memRefWithOffset mr offset) (some "readMemory: invalid memoryReference")
  if s.dbg = .live then alloc q count.toNat
  pure .pass

def decWriteMemory (s : Sess) (a : J) : R Out := do
  needDbg s "writeMemory"
  rejectIf (!a.isObj) "writeMemory: arguments must be object"
  let mr ← orErr (getStr a k!"memoryReference") "writeMemory: missing arguments.memoryReference"
  let data ← orErr (getStr a k!"data") "writeMemory: missing arguments.data"
  let offset := (getI64 a k!"offset").getD 0
  let _ ← memRefR (memRefWithOffset mr offset) (some "writeMemory: invalid memoryReference")
  let n ← orErr (b64DecodedLen data) "writeMemory: base64 decode failed"
  pure (if n = 0 then .ok else .pass)       -- `write_bytes` returns at once for an empty buffer

/-- a `usize` sum that does not fit: error response (repaired) / panic (overflow checks on) / wrap-around -/
def addGuard (q : Q) (sum : Nat) : R Unit :=
  if sum < 2 ^ 64 then .val ()
  else if q.checkedArith then .stop (.err "disassemble: instruction count overflow")
  else if q.overflowChecks then .stop (.panic .addOverflow)
  else .val ()

def decDisassemble (q : Q) (s : Sess) (seq : Int) (a : J) : R Out := do
  cancelCheck s seq
  rejectIf (!a.isObj) "disassemble: arguments must be object"
  let mr ← orErr (getStr a k!"memoryReference") "disassemble: missing arguments.memoryReference"
  let cnt ← orErr (getI64 a k!"instructionCount") "disassemble: missing arguments.instructionCount"
  rejectIf (cnt ≤ 0) "disassemble: instructionCount must be positive"
  let offset := (getI64 a k!"offset").getD 0
  let ioff := (getI64 a k!"instructionOffset").getD 0
  let base ← memRefR (parseMemRef mr) (some "disassemble: invalid memoryReference")
  let baseI : Int := if base < 2 ^ 63 then base else (base : Int) - 2 ^ 64      -- `base_addr as i64`
  let start : Int := offset + baseI
  rejectIf (start < -(2 ^ 63) || 2 ^ 63 ≤ start) "disassemble: address overflow"
  rejectIf (start < 0) "disassemble: start address is negative"
  let back := ioff.natAbs                                                       -- `unsigned_abs() as usize`
  -- `instruction_count as usize + back_instructions + 16`
  let sum := cnt.toNat + back + 16
  addGuard q sum
  let count := sum % 2 ^ 64
  needDbg s "disassemble"
  -- `disassemble_from_address`: `instruction_count.saturating_mul(16).max(16)` bytes are read
  let readLen := max (min (count * 16) (2 ^ 64 - 1)) 16
  if s.dbg = .live then alloc q readLen
  pure .pass

/-- the first round of the loop over `threadIds` (control.rs:1006); the loop goes on only after a signal was
delivered to an existing process, which is outside the model (`pass`) -/
def killFirst (q : Q) (t : J) : R Out :=
  match t.i64? with
  | none => .stop (.err "terminateThreads: threadIds must be integers")
  | some tid =>
    if tid < 0 then .stop (.err "terminateThreads: threadIds must be non-negative")
    else if !i32Range tid then .stop (.err "terminateThreads: threadId out of range")
    else if tid = 0 then
      -- `signal::kill(Pid::from_raw(0), SIGTERM)`: the whole process group of the adapter
      (if q.killGuard then .stop (.err "terminateThreads: threadIds must be positive") else .stop .killed)
    else .stop .pass    -- the signal goes to whatever process has that id; no such process = error response

def decTerminateThreads (q : Q) (a : J) : R Out := do
  rejectIf (!a.isObj) "terminateThreads: arguments must be object"
  let ids ← match a.get k!"threadIds" with
    | some v => orErr v.arr? "terminateThreads: threadIds must be array"
    | none => (pure [] : R (List J))
  match ids with
  | [] => pure .ok
  | t :: _ => killFirst q t

def decCancel (a : J) : R Out := do
  if a.isNull then .stop .ok
  rejectIf (!a.isObj) "cancel: arguments must be object"
  match a.get k!"requestId" with
  | some v => let _ ← orErr v.i64? "cancel: requestId must be an integer"
  | none => pure ()
  match a.get k!"progressId" with
  | some v => let _ ← orErr v.str? "cancel: progressId must be a string"
  | none => pure ()
  pure .ok

def decRunInTerminal (a : J) : R Out := do
  rejectIf (!a.isObj) "runInTerminal: arguments must be object"
  let argv ← orErr ((a.get k!"args").bind J.arr?) "runInTerminal: missing arguments.args"
  rejectIf argv.isEmpty "runInTerminal: args must not be empty"
  rejectIf (presentNotStr a k!"kind") "runInTerminal: kind must be a string"
  rejectIf (presentNotStr a k!"title") "runInTerminal: title must be a string"
  let _ ← orErr (argv.head?.bind J.str?) "runInTerminal: args[0] must be a string"
  rejectIf (!(argv.drop 1).all (fun v => v.str?.isSome)) "runInTerminal: args must be strings"
  rejectIf (presentNotStr a k!"cwd") "runInTerminal: cwd must be a string"
  match a.get k!"env" with
  | some e =>
    rejectIf (!e.isObj) "runInTerminal: env must be an object"
    -- one value per key (the last one written) is visited
    rejectIf (!(e.kvs.all fun kv => ((lookupLast kv.1 e.kvs).bind J.str?).isSome)) "runInTerminal: env values must be strings"
  | none => pure ()
  pure .pass                -- `Command::spawn`

def decSource (a : J) : R Out := do
  rejectIf (!a.isObj) "source: arguments must be object"
  let srcObj := (a.get k!"source").bind fun v => if v.isObj then some v else none
  let sr := ((getI64 a k!"sourceReference").orElse fun _ => srcObj.bind (getI64 · k!"sourceReference")).bind
    fun v => if v > 0 then some v else none
  if sr.isSome then .stop .ok        -- cached disassembly or a "not found" text: both success
  let so ← orErr srcObj "source: missing source object"
  let _ ← orErr (getStr so k!"path") "source: missing source.path"
  pure .pass                          -- `read_to_string`

/-- one request, decoded as `dispatch` and the handler do it (mod.rs:608) -/
def decode (q : Q) (s : Sess) (seq : Int) (c : Cmd) (a : J) : R Out :=
  match c with
  | .initialize => pure .ok
  | .launch => do
    let _ ← orErr (getStr a k!"program") "launch: missing arguments.program"
    pure .pass
  | .attach => decAttach a
  | .configurationDone => do
    needDbg s "configurationDone"
    pure (if s.mode = .attach then .ok else .pass)
  | .setBreakpoints => do
    let _ ← orErr (((a.get k!"source").bind (·.get k!"path")).bind J.str?) "setBreakpoints: missing arguments.source.path"
    needDbg s "setBreakpoints"
    pure .ok
  | .setFunctionBreakpoints => do needDbg s "setFunctionBreakpoints"; pure .ok
  | .setInstructionBreakpoints => do needDbg s "setInstructionBreakpoints"; pure .ok
  | .setExceptionBreakpoints => pure .ok
  | .dataBreakpointInfo => do
    let name ← orErr (getStr a k!"name") "dataBreakpointInfo: missing arguments.name"
    let _ ← parseDataBpExpr q name
    pure .ok
  | .setDataBreakpoints => decSetDataBreakpoints q s a
  | .breakpointLocations => decBreakpointLocations s a
  | .exceptionInfo => pure .pass
  | .threads => do
    if s.dbg = .none then .stop (.err "threads: debugger not initialized")
    pure .ok
  | .stackTrace => do
    cancelCheck s seq
    let _ ← orErr (getI64 a k!"threadId") "stackTrace: missing arguments.threadId"
    needDbg s "stackTrace"
    pure .pass
  | .scopes => do
    needDbg s "scopes"
    let _ ← orErr (getI64 a k!"frameId") "scopes: missing arguments.frameId"
    pure .ok
  | .variables => do
    let _ ← orErr (getI64 a k!"variablesReference") "variables: missing arguments.variablesReference"
    pure .ok
  | .setVariable => do
    let _ ← orErr (getI64 a k!"variablesReference") "setVariable: missing arguments.variablesReference"
    let _ ← orErr (getStr a k!"name") "setVariable: missing arguments.name"
    let _ ← orErr (getStr a k!"value") "setVariable: missing arguments.value"
    needDbg s "setVariable"
    pure .pass
  | .continue_ => if s.dbg = .none then pure (.okThenErr "continue: debugger not initialized") else pure .okThenPass
  | .restart => do
    rejectIf (s.mode ≠ .launch) "restart is only supported for launch sessions"
    needDbg s "restart"
    pure .pass
  | .restartFrame => decRestartFrame s a
  | .next => do needDbg s "next"; pure .pass
  | .stepIn => do needDbg s "stepIn"; pure .pass
  | .stepInTargets => decStepInTargets s a
  | .stepOut => do needDbg s "stepOut"; pure .pass
  | .stepBack => decReverse "stepBack" a
  | .reverseContinue => decReverse "reverseContinue" a
  | .pause => if s.dbg = .none then pure (.err "no active debug session") else pure .pass
  | .gotoTargets => decGotoTargets s a
  | .goto => decGoto s a
  | .evaluate => decEvaluate q s seq a
  | .setExpression => decSetExpression q s a
  | .completions => decCompletions a
  | .loadedSources => pure .ok
  | .modules => pure .ok
  | .readMemory => decReadMemory q s seq a
  | .writeMemory => decWriteMemory s a
  | .disassemble => decDisassemble q s seq a
  | .terminate => pure .ok
  | .terminateThreads => decTerminateThreads q a
  | .cancel => decCancel a
  | .runInTerminal => decRunInTerminal a
  | .disconnect =>
    -- `terminateDebuggee: true` drops the debugger, otherwise it is detached (which can fail after the response)
    pure (if ((a.get k!"terminateDebuggee").bind J.bool?).getD false then .ok else if s.dbg = .none then .ok else .pass)
  | .source => decSource a
  | .other => pure (.err "Unsupported DAP command: ")

/-! ## the envelope (`DapRequest`, protocol.rs) and one step of the `run` loop -/

structure Envelope where
  seq : Int
  type : List Char
  command : List Char
  arguments : J

/-- `serde_json::from_value::<DapRequest>` on an object (array-shaped messages are not generated) -/
def decodeEnvelope (m : J) : Option Envelope :=
  if !m.isObj then none else
  match getI64 m k!"seq", getStr m k!"type", getStr m k!"command" with
  | some seq, some type, some command => some { seq, type, command, arguments := (m.get k!"arguments").getD .null }
  | _, _, _ => none

/-- what the debuggee / debugger did, observed on the wire (never what the adapter owes) -/
structure Hint where
  cls : String := "ok"       -- class of the answer when the model says `pass` / `okThenPass`
  trans : String := "-"      -- `stop` / `exit`: a `stopped` / `exited` event followed the request
  deriving Repr

/-- session effects that do not depend on the debugger -/
def effect (s : Sess) (seq : Int) (c : Cmd) (a : J) : Sess :=
  let s := if c = .readMemory ∨ c = .evaluate ∨ c = .stackTrace ∨ c = .disassemble
    then { s with cancelled := s.cancelled.filter (· ≠ seq) } else s
  match c with
  | .cancel =>
    if a.isObj then
      match (a.get k!"requestId").bind J.i64? with
      | some r => { s with cancelled := r :: s.cancelled }
      | none => s
    else s
  | .launch => if (getStr a k!"program").isSome then { s with mode := .launch } else s
  | .attach => match (decAttach a) with
    | .val _ => { s with mode := .attach }
    | .stop _ => s
  | .terminateThreads =>
    if a.isObj && (match a.get k!"threadIds" with | some v => (v.arr?.map List.isEmpty) == some true | none => true)
    then { s with dbg := .none } else s
  | _ => s

/-- effects that depend on what the debuggee did (hints) -/
def afterHint (s : Sess) (c : Cmd) (o : Out) (h : Hint) : Sess :=
  let cls : String := match o with
    | .pass => h.cls
    | .okThenPass => h.cls
    | .ok => "ok"
    | _ => "-"
  let s := if c = .launch ∧ cls = "ok" then { s with dbg := .loaded } else s
  let s := if (c = .terminate ∨ c = .disconnect) ∧ cls = "ok" then { s with ended := true } else s
  let runs := c = .configurationDone ∨ c = .continue_ ∨ c = .next ∨ c = .stepIn ∨ c = .stepOut ∨ c = .restart
  let s := if runs ∧ s.dbg ≠ .none then
      (if h.trans = "stop" then { s with dbg := .live } else if h.trans = "exit" then { s with dbg := .exited } else s)
    else s
  -- a thread that panicked / a process that is gone answers nothing any more
  let dead : Bool := match o with
    | .panic _ => true | .abort => true | .killed => true | .dropped => true
    | .pass => h.cls.startsWith "panic" || h.cls = "abort" || h.cls.startsWith "killed" || h.cls = "hang" || h.cls = "dropped"
    | .okThenPass => h.cls.startsWith "panic" || h.cls = "abort" || h.cls = "hang"
    | _ => false
  { s with ended := s.ended || dead }

/-- one message of the `run` loop -/
def stepMsg (q : Q) (s : Sess) (m : J) (h : Hint) : Sess × Out :=
  if s.ended then (s, .closed) else
  match decodeEnvelope m with
  | none => if q.envelopeGuard then (s, .ignored) else ({ s with ended := true }, .dropped)
  | some e =>
    if e.type ≠ k!"request" then (s, .ignored) else
    let c := Cmd.ofName (String.ofList e.command)
    let o := (decode q s e.seq c e.arguments).run
    (afterHint (effect s e.seq c e.arguments) c o h, o)

/-- a whole history -/
def runAll (q : Q) : Sess → List (J × Hint) → List Out
  | _, [] => []
  | s, (m, h) :: rest => let (s', o) := stepMsg q s m h; o :: runAll q s' rest

/-! ## rendering (shared with the harness) -/

/-- lower-case ASCII letters and digits are kept, every other run of characters becomes one `_` -/
def slug (s : String) : String :=
  let cs := s.toList.map fun c =>
    let n := c.toNat
    if 65 ≤ n ∧ n ≤ 90 then Char.ofNat (n + 32) else if (97 ≤ n ∧ n ≤ 122) ∨ (48 ≤ n ∧ n ≤ 57) then c else '_'
  let rec squeeze : List Char → List Char
    | '_' :: '_' :: r => squeeze ('_' :: r)
    | c :: r => c :: squeeze r
    | [] => []
  let t := (squeeze cs).dropWhile (· = '_')
  String.ofList (t.reverse.dropWhile (· = '_')).reverse

def render (o : Out) (h : Hint) (targets : Bool) : String :=
  match o with
  | .ok => "ok"
  | .okC st len => if targets then s!"ok:s{st}:l{len}" else "ok"
  | .err m => "err:" ++ slug m
  | .pass => h.cls
  | .okThenErr m => "ok+err:" ++ slug m
  | .okThenPass => h.cls
  | .panic p => "panic:" ++ p.cls
  | .abort => "abort"
  | .killed => "killed"
  | .dropped => "dropped"
  | .ignored => "ignored"
  | .closed => "closed"

end BsVerif.DapArgs
