import BsVerif.Core.Mem
/-!
Model of the software-breakpoint machinery for one stopped thread (DESIGN 2.1, C01/C02):

* `Breakpoint::{enable,disable}` as word read-modify-writes on the text (src/debugger/breakpoint.rs),
* `BreakpointRegistry::{add_and_enable, add_uninit, remove_by_addr, enable_all_breakpoints,
  enable_entry_breakpoint, disable_all_breakpoints}`,
* `Debugger::step_over_breakpoint` (disable → single step → enable) and the `continue_execution` loop
  (src/debugger/mod.rs, src/debugger/step.rs) on top of
* the abstract machine: the debuggee's native instruction trace `τ` (program counters in execution order,
  restricted to the executable's text) and a text memory.  *cont* runs until the byte at the next pc is `0xCC`
  (SIGTRAP, the instruction is not executed, the tracer rewinds pc by one); *step* executes exactly one
  instruction when its byte is not `0xCC`.

Addresses are "global" (ELF) addresses; relocation is the identity here (C18 treats load addresses).
-/
namespace BsVerif.Bp
open BsVerif.Mem

inductive Kind | user | entry | temp
deriving DecidableEq, Repr

structure Bp where
  addr : Addr
  kind : Kind
  saved : Nat := 0          -- `saved_data`
  enabled : Bool := false
deriving Repr

inductive Status | unload | inProgress | exited
deriving DecidableEq, Repr

/-- key of `disabled_breakpoints`: `Address::Global a` (true) or `Address::Relocated a` (false) -/
structure UKey where
  global : Bool
  addr : Addr
deriving DecidableEq, Repr

structure St where
  τ : List Addr
  exitCode : Nat := 0
  code : Code
  active : List Bp := []                 -- `breakpoints : HashMap<RelocatedAddress, Breakpoint>`
  uninit : List (UKey × Kind) := []      -- `disabled_breakpoints : HashMap<Address, UninitBreakpoint>`
  idx : Nat := 0                         -- next instruction of τ to execute; `τ.length` = ran to the end
  status : Status := .unload
  pokes : List (Addr × Nat) := []        -- (address, low byte written) of every POKETEXT of the current command
  execd : List (Nat × Nat) := []         -- ghost (never read by the model): (trace position, byte at its pc at the
                                         -- moment it was executed) of every instruction executed so far, in order

inductive Out
  | ok | none | err
  | stop (pc : Addr)
  | exit (code : Nat)
  | corrupt            -- SIGTRAP at an address without a registered breakpoint (the code debug_asserts)
  | outOfFuel
deriving DecidableEq, Repr

def INT3 : Nat := 0xCC

/-! ### registry as an association list keyed by address -/
def find? (l : List Bp) (a : Addr) : Option Bp := l.find? (·.addr == a)
def erase (l : List Bp) (a : Addr) : List Bp := l.filter (·.addr != a)
/-- `HashMap::insert`: replace the entry with the same key or add one -/
def put (l : List Bp) (b : Bp) : List Bp := erase l b.addr ++ [b]

def pc (s : St) : Option Addr := s.τ[s.idx]?

/-- `Breakpoint::enable` -/
def bpEnable (s : St) (b : Bp) : St × Bp :=
  let w := peek s.code b.addr
  ({ s with code := poke s.code b.addr (replaceLow w INT3), pokes := s.pokes ++ [(b.addr, INT3)] },
   { b with saved := w % 256, enabled := true })

/-- `Breakpoint::disable` -/
def bpDisable (s : St) (b : Bp) : St × Bp :=
  let w := peek s.code b.addr
  ({ s with code := poke s.code b.addr (replaceLow w b.saved), pokes := s.pokes ++ [(b.addr, b.saved)] },
   { b with enabled := false })

/-- `BreakpointRegistry::add_and_enable` -/
def addAndEnable (s : St) (b : Bp) : St :=
  let s1 := match find? s.active b.addr with
    | some ex => (bpDisable s ex).1
    | none => s
  let (s2, b') := bpEnable s1 b
  { s2 with active := put s2.active b' }

/-- `add_uninit` -/
def addUninit (s : St) (k : UKey) (kind : Kind) : St :=
  { s with uninit := s.uninit.filter (·.1 != k) ++ [(k, kind)] }

/-- `remove_by_addr` -/
def removeByAddr (s : St) (k : UKey) : St × Bool :=
  if s.uninit.any (·.1 == k) then ({ s with uninit := s.uninit.filter (·.1 != k) }, true)
  else if k.global then (s, false)
  else match find? s.active k.addr with
    | none => (s, false)
    | some b =>
      let s1 := if b.enabled then (bpDisable s b).1 else s
      ({ s1 with active := erase s1.active k.addr }, true)

/-- `enable_all_breakpoints`: every uninit breakpoint becomes an enabled one -/
def enableAll (s : St) : St :=
  s.uninit.foldl (fun acc u => addAndEnable acc { addr := u.1.addr, kind := u.2 }) { s with uninit := [] }

/-- `enable_entry_breakpoint` -/
def enableEntry (s : St) : St :=
  match s.uninit.find? (·.2 == Kind.entry) with
  | none => s
  | some u => addAndEnable { s with uninit := s.uninit.filter (·.1 != u.1) } { addr := u.1.addr, kind := .entry }

/-- one `PTRACE_SINGLESTEP`: executes `τ[idx]` unless its first byte is an INT3 -/
def singleStep (s : St) : St :=
  match pc s with
  | none => s
  | some p => if s.code p == INT3 then s else { s with idx := s.idx + 1, execd := s.execd ++ [(s.idx, s.code p)] }

/-- `step_over_breakpoint` -/
def stepOverBreakpoint (s : St) : St :=
  match pc s with
  | none => s
  | some p =>
    match find? s.active p with
    | none => s
    | some b =>
      if b.enabled then
        let (s1, b1) := bpDisable s b
        let s2 := singleStep { s1 with active := put s1.active b1 }
        let (s3, b3) := bpEnable s2 b1
        { s3 with active := put s3.active b3 }
      else s

/-- first index `j ≥ i` with `p τ[j]`, or `τ.length` if there is none -/
def firstFrom (p : Addr → Bool) (τ : List Addr) (i : Nat) : Nat :=
  if h : i < τ.length then
    if p τ[i] then i else firstFrom p τ (i+1)
  else τ.length
termination_by τ.length - i

/-- first index `j ≥ i` whose instruction byte is an INT3, or `τ.length` -/
def firstTrap (code : Code) (τ : List Addr) (i : Nat) : Nat :=
  firstFrom (fun a => code a == INT3) τ i

/-- `PTRACE_CONT` + `waitpid`: run until a trap or the end of the program -/
def run (s : St) : St :=
  let j := firstTrap s.code s.τ s.idx
  { s with idx := j,
           execd := s.execd ++ (List.range' s.idx (j - s.idx)).map fun k => (k, s.code (s.τ.getD k 0)) }

/-- what `StopReason::DebugeeExit` does to the registry: `disable_all_breakpoints` (the pokes fail, the process is
gone); user and entry breakpoints go back to the uninit list under their global address, the rest is dropped -/
def onExit (s : St) : St :=
  let back := s.active.filterMap fun b =>
    match b.kind with
    | .user => some (({ global := true, addr := b.addr } : UKey), Kind.user)
    | .entry => some (({ global := true, addr := b.addr } : UKey), Kind.entry)
    | .temp => none
  { s with active := [], status := .exited,
           uninit := back.foldl (fun u x => u.filter (·.1 != x.1) ++ [x]) s.uninit }

/-- the loop of `continue_execution` after the initial `step_over_breakpoint` -/
def traceLoop : Nat → St → St × Out
  | 0, s => (s, .outOfFuel)
  | fuel + 1, s =>
    let s1 := run s
    match pc s1 with
    | none => (onExit s1, .exit s1.exitCode)
    | some p =>
      match find? s1.active p with
      | none => (s1, .corrupt)
      | some b =>
        match b.kind with
        | .user => (s1, .stop p)
        | .temp => (s1, .stop p)
        | .entry => traceLoop fuel (stepOverBreakpoint (enableAll s1))

def fuelFor (s : St) : Nat := s.τ.length + 2

/-! ### commands (each starts a fresh poke log) -/
inductive Op
  | brk (a : Addr)
  | remove (a : Addr)
  | start
  | cont
deriving DecidableEq, Repr

def exec (s : St) (op : Op) : St × Out :=
  let s := { s with pokes := [] }
  match op with
  | .brk a =>
    match s.status with
    | .inProgress => (addAndEnable s { addr := a, kind := .user }, .ok)
    | _ => (addUninit s { global := false, addr := a } .user, .ok)
  | .remove a =>
    let (s', found) := removeByAddr s { global := false, addr := a }
    (s', if found then .ok else .none)
  | .start =>
    match s.status with
    | .unload => traceLoop (fuelFor s) (enableEntry { s with status := .inProgress })
    | _ => (s, .err)
  | .cont =>
    match s.status with
    | .inProgress => traceLoop (fuelFor s) (stepOverBreakpoint s)
    | _ => (s, .err)

/-- a fresh debugger on a program: the entry-point breakpoint is registered as uninit under its global address -/
def init (τ : List Addr) (entry : Addr) (orig : Code) (exitCode : Nat) : St :=
  { τ := τ, code := orig, exitCode := exitCode, uninit := [({ global := true, addr := entry }, .entry)] }

def execAll (s : St) : List Op → St × List Out
  | [] => (s, [])
  | op :: ops =>
    let (s1, o) := exec s op
    let (s2, os) := execAll s1 ops
    (s2, o :: os)

end BsVerif.Bp
