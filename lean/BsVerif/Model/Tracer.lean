import BsVerif.Gen.Sigs
/-!
# Model of the ptrace tracer for many threads (C09)

Mirrors `src/debugger/debugee/tracer.rs` (`resume`, `group_stop_interrupt`, `apply_new_status`, `single_step`),
`tracee.rs` (`TraceeCtl`: `add` / `remove` / `set_stop` / `cont_stopped(_ex)`) and the part of
`Debugger::continue_execution` / `step_over_breakpoint` that a `continue`-only history with user breakpoints runs.

The model is an ACCEPTOR of the stream of kernel calls *with their answers* (`Ev`): `step s e = some s'` iff `e` is a
call the code issues at control point `s` given all earlier answers.  Hash-map iteration orders (`cont_stopped`,
the snapshot of the group stop) are free: any order is accepted, omissions and extra calls are not.
Control is an await state `Aw` plus the two nested activations the code can be in: the outer loop
(`resume` or `single_step`) and — optionally — one group stop (`gs`; `group_stop_guard` is `gs.isSome`: the latch makes
a nested `group_stop_interrupt` return at once, so there is never a second one).
Rust panics (`unwrap`, `todo!`, `unreachable!`, `debug_assert!`) and early `Err` returns are explicit terminal
states (DESIGN 2.4).  Core Lean only (linked into `bsmodel`).
-/
namespace BsVerif.Tracer

abbrev Tid := Nat

/-- `TraceeStatus` -/
inductive Status
  | running
  | stop                -- Stopped(Interrupt)
  | sigstop (s : Nat)   -- Stopped(SignalStop(s))
  deriving DecidableEq, Repr

def Status.isRunning : Status → Bool
  | .running => true
  | _ => false

structure Tracee where
  tid : Tid
  num : Nat
  st  : Status
  deriving DecidableEq, Repr

/-- `TraceeCtl.threads_state` together with the process-global `NEXT_TRACEE_NUM` -/
structure Table where
  rows : List Tracee
  next : Nat
  deriving Repr

namespace Table
def find (T : Table) (t : Tid) : Option Tracee := T.rows.find? (·.tid == t)
def has (T : Table) (t : Tid) : Bool := T.rows.any (·.tid == t)
def keys (T : Table) : List Tid := T.rows.map (·.tid)
/-- `TraceeCtl::add`: `HashMap::insert` of a fresh `Tracee::new_stopped` (replaces an existing entry) -/
def add (T : Table) (t : Tid) : Table :=
  { rows := T.rows.filter (fun r => !(r.tid == t)) ++ [⟨t, T.next, .stop⟩], next := T.next + 1 }
/-- `TraceeCtl::remove` -/
def remove (T : Table) (t : Tid) : Table :=
  { T with rows := T.rows.filter (fun r => !(r.tid == t)) }
/-- `tracee_mut(t).map(|t| t.update_status(st))` -/
def setSt (T : Table) (t : Tid) (st : Status) : Table :=
  { T with rows := T.rows.map (fun r => if r.tid == t then { r with st := st } else r) }
def isRunning (T : Table) (t : Tid) : Bool := T.rows.any (fun r => r.tid == t && r.st.isRunning)
def isStopped (T : Table) (t : Tid) : Bool :=
  match T.find t with
  | some r => !r.st.isRunning
  | none => false
def allStopped (T : Table) : Bool := T.rows.all (fun r => !r.st.isRunning)
/-- `if !t.is_stopped() { t.set_stop(Interrupt) }` -/
def finish (T : Table) (t : Tid) : Table := if T.isRunning t then T.setSt t .stop else T
end Table

/-- answer of a ptrace request -/
inductive Ans
  | ok | esrch | err
  deriving DecidableEq, Repr

/-- decoded `WaitStatus` (pid renamed) -/
inductive WSt
  | exited (t : Tid) (code : Nat)
  | signaled (t : Tid) (s : Nat)
  | sig (t : Tid) (s : Nat)          -- signal-delivery-stop
  | clone (t : Tid)                  -- PTRACE_EVENT_CLONE
  | exec (t : Tid)
  | evexit (t : Tid)                 -- PTRACE_EVENT_EXIT
  | evstop (t : Tid) (s : Nat)       -- PTRACE_EVENT_STOP
  | other (t : Tid)
  | echild                           -- waitpid failed with ECHILD
  deriving DecidableEq, Repr

def WSt.tid : WSt → Option Tid
  | .exited t _ | .signaled t _ | .sig t _ | .clone t | .exec t | .evexit t | .evstop t _ | .other t => some t
  | .echild => none

/-- one call at the kernel boundary together with its answer -/
inductive Ev
  | poke (a b : Nat)                         -- POKE of one text byte (successful)
  | sstep (t : Tid) (sg : Nat) (r : Ans)     -- PTRACE_SINGLESTEP
  | cont (t : Tid) (sg : Nat) (r : Ans)      -- PTRACE_CONT
  | intr (t : Tid) (r : Ans)                 -- PTRACE_INTERRUPT
  | wait (arg : Option Tid) (w : WSt)        -- waitpid(arg)  (none = -1)
  | siginfo (t : Tid) (code pcn : Nat) (r : Ans)  -- PTRACE_GETSIGINFO; `pcn` = pc read right afterwards (0 if none)
  | setpc (t : Tid) (new old : Nat) (r : Ans)     -- PTRACE_SETREGS writing rip = new; `old` = pc read before
  | evmsg (t : Tid) (c : Tid) (r : Ans)      -- PTRACE_GETEVENTMSG
  deriving DecidableEq, Repr

inductive Reason
  | bp (t : Tid) (pc : Nat)
  | exit (code : Nat)
  | sig (t : Tid) (s : Nat)
  | nosuch (t : Tid)
  | start
  deriving DecidableEq, Repr

/-- the loop `apply_new_status` returns into when no group stop is in progress -/
inductive Outer
  | resume
  | step (t : Tid) (ipc a : Nat)   -- `single_step(t)` called by `step_over_breakpoint` for the breakpoint at `a`
  deriving DecidableEq, Repr

/-- who called `group_stop_interrupt` (what is returned once it is over) -/
inductive GRet
  | brk (t : Tid) (pc : Nat)     -- `apply_new_status`, breakpoint branch
  | sig (t : Tid) (s : Nat)      -- `apply_new_status`, signal branch
  | inject (t : Tid) (s : Nat)   -- `resume`: more signals queued
  deriving DecidableEq, Repr

def GRet.reason : GRet → Reason
  | .brk t pc => .bp t pc
  | .sig t s => .sig t s
  | .inject t s => .sig t s

/-- a group stop in progress -/
structure Gs where
  init  : Option Tid
  round : Nat
  todo  : List Tid          -- tracees of the snapshot not yet visited
  cur   : Option Tid        -- tracee whose `while` loop is running
  ret   : GRet
  deriving DecidableEq, Repr

/-- what the next call must be -/
inductive Aw
  | idle                                          -- at the prompt
  | pokeOrig (a : Nat)                            -- `brkpt.disable()`
  | stepReq (t : Tid) (sg : Nat)                  -- `tracee.step(sig)`
  | pokeInt3 (a : Nat) (r : Option Reason)        -- `brkpt.enable()` after the step
  | contAll (inj : Option (Tid × Nat)) (excl visited : List Tid) (thenGs : Option (Tid × Nat))
  | waitOne (t : Tid)                             -- `wait_one` of the group stop / of `single_step`
  | childWait (c : Tid)                           -- `new_tracee.wait_one()` in the clone branch
  | stepInfo (w : WSt)                            -- `getsiginfo` of `single_step`
  | siginfo (t : Tid) (s : Nat)                   -- `getsiginfo` of `apply_new_status`
  | setpc (t : Tid) (old : Nat)
  | evmsg (t : Tid)
  | contExit (t : Tid)                            -- `_ = tracee.continue(None)` of the exit event
  | intr                                          -- the group stop interrupts the next running tracee of its snapshot
  | dead (why : String)                           -- panic / error return / unsupported branch / rejected stream
  deriving DecidableEq, Repr

structure St where
  tbl    : Table
  queue  : List (Tid × Nat) := []      -- inject_signal_queue
  gs     : Option Gs := none           -- group stop in progress (`group_stop_guard` = `gs.isSome`)
  outer  : Outer := .resume
  proc   : Tid := 0
  bps    : List (Nat × Nat) := []      -- enabled user breakpoints: (address, original byte)
  lifted : Option Nat := none          -- breakpoint whose INT3 is currently replaced by the original byte
  focus  : Tid := 0
  fpc    : Option Nat := none          -- pc of the thread in focus when it sits on a breakpoint
  aw     : Aw := .idle
  last   : Option Reason := none       -- what the last command returned
  deriving Repr

/-- `QUIET_SIGNALS`, re-read from tracer.rs on every run (tools/tables/sigs.py) -/
def quietSignals : List Nat := Gen.Sigs.quiet
def isQuiet (s : Nat) : Bool := quietSignals.contains s
def sigTrap : Nat := 5
def sigStop : Nat := 19

def hasBp (s : St) (a : Nat) : Bool := s.bps.any (·.1 == a)
def origOf (s : St) (a : Nat) : Option Nat := (s.bps.find? (·.1 == a)).map (·.2)

def die (s : St) (why : String) : St := { s with aw := .dead why }

/-- `continue_execution` got `r` from `resume` (or from `step_over_breakpoint`): back at the prompt -/
def toPrompt (s : St) (r : Reason) : St :=
  match r with
  | .bp t pc => { s with aw := .idle, gs := none, outer := .resume, focus := t, fpc := some pc, last := some r }
  | .sig t _ => { s with aw := .idle, gs := none, outer := .resume, focus := t, fpc := none, last := some r }
  | .exit _ => { s with aw := .idle, gs := none, outer := .resume, fpc := none, last := some r }
  | .nosuch _ => die s "err:process-not-started"
  | .start => die s "unsupported:debugee-start"

/-- head of the `resume` loop: pop one queued signal, continue every stopped tracee -/
def resumeHead (s : St) : St :=
  match s.queue with
  | (t, sg) :: rest =>
    { s with queue := rest, outer := .resume,
             aw := .contAll (some (t, sg)) (rest.map (·.1)) [] (rest.head?) }
  | [] => { s with outer := .resume, aw := .contAll none [] [] none }

/-- `single_step`, quiet branch: the request that `apply_new_status` has just queued is taken back
(`rposition` of the entry + `remove`) -/
def unqueue (q : List (Tid × Nat)) (e : Tid × Nat) : List (Tid × Nat) := (q.reverse.erase e).reverse

/-- tracees `cont_stopped(_ex)` still has to continue -/
def contPending (s : St) (excl visited : List Tid) : List Tid :=
  (s.tbl.rows.filter (fun r => !r.st.isRunning && !excl.contains r.tid && !visited.contains r.tid)).map (·.tid)

def gsCands (s : St) (todo : List Tid) : List Tid := todo.filter (fun t => s.tbl.isRunning t)

/-- `apply_new_status` returned `r` into `resume` or `single_step` (no group stop in progress) -/
def deliverOuter (s : St) (r : Option Reason) : St :=
  match s.outer with
  | .resume =>
    match r with
    | some (.sig t sg) => if isQuiet sg then resumeHead s else toPrompt s (.sig t sg)
    | some x => toPrompt s x
    | none => resumeHead s
  | .step t _ a =>
    match r with
    | none => { s with aw := .waitOne t }
    | some (.bp _ _) => die s "panic:unreachable-breakpoint-in-step"
    | some (.exit _) => die s "err:process-exit"
    | some .start => die s "panic:start-twice"
    | some (.sig p sg) =>
      if isQuiet sg then { s with queue := unqueue s.queue (t, sg), aw := .stepReq t sg }
      else { s with aw := .pokeInt3 a (some (.sig p sg)) }
    | some (.nosuch _) => { s with aw := .pokeInt3 a none }

/-- the group stop is over: open the latch, return to the caller -/
def gsEnd (s : St) (g : Gs) : St :=
  match g.ret with
  | .inject t sg => toPrompt { s with gs := none } (.sig t sg)
  | .brk t pc => deliverOuter { s with gs := none } (some (.bp t pc))
  | .sig t sg => deliverOuter { s with gs := none } (some (.sig t sg))

/-- second (last) round: next running tracee of the snapshot, or done -/
def pick1 (s : St) (g : Gs) : St :=
  if (gsCands s g.todo).isEmpty then gsEnd s g
  else { s with gs := some { g with cur := none }, aw := .intr }

/-- next running tracee of the snapshot; after the first round a second one over a fresh snapshot -/
def pick (s : St) (g : Gs) : St :=
  if (gsCands s g.todo).isEmpty then
    if g.round = 0 then pick1 s { g with round := 1, todo := s.tbl.keys, cur := none } else gsEnd s g
  else { s with gs := some { g with cur := none }, aw := .intr }

/-- `apply_new_status` returned `r` inside the `while` loop of the group stop for `cur` -/
def deliverGs (s : St) (g : Gs) (cur : Tid) (r : Option Reason) : St :=
  match r with
  | some (.exit _) => die s "err:process-exit"
  | some .start => die s "panic:start-twice"
  | _ =>
    -- the `match stop` of the while loop, then the reload of the tracee
    let brk : Bool := match r with
      | some (.bp p _) => p == cur
      | some (.sig _ _) => true
      | some (.nosuch _) => true
      | _ => false
    let lv := brk || (match s.tbl.find cur with
      | none => true
      | some row => row.st == .stop)
    if lv then pick { s with tbl := s.tbl.finish cur } { g with cur := none }
    else { s with aw := .waitOne cur }

/-- return of `apply_new_status` -/
def ret (s : St) (r : Option Reason) : St :=
  match s.gs with
  | some g =>
    match g.cur with
    | some c => deliverGs s g c r
    | none => die s "model:no-current-tracee"
  | none => deliverOuter s r

/-- `group_stop_interrupt(initiator)` called by `gr` -/
def groupStop (s : St) (init : Option Tid) (gr : GRet) : St :=
  match s.gs with
  | some _ => ret s (some gr.reason)     -- latch closed: returns at once, `apply_new_status` returns `Some(reason)`
  | none =>
    let others := s.tbl.rows.any (fun r => some r.tid != init)
    if !others then gsEnd s ⟨init, 0, [], none, gr⟩
    else pick s ⟨init, 0, s.tbl.keys, none, gr⟩

/-- `apply_new_status(status)` up to its first call -/
def applyNew (s : St) (w : WSt) : St :=
  match w with
  | .exited t code =>
    let s := { s with tbl := s.tbl.remove t }
    ret s (if t = s.proc then some (.exit code) else none)
  | .signaled _ _ => ret s none
  | .other _ => ret s none
  | .echild => ret s none
  | .exec t => ret { s with tbl := s.tbl.add t } (some .start)
  | .clone t =>
    if !s.tbl.has t then die s "panic:unwrap-unknown-tracee"
    else { s with tbl := s.tbl.setSt t .stop, aw := .evmsg t }
  | .evstop t _ =>
    if s.tbl.has t then ret { s with tbl := s.tbl.setSt t .stop } none
    else ret { s with tbl := s.tbl.add t } none
  | .evexit t =>
    if s.tbl.has t then { s with tbl := s.tbl.remove t, aw := .contExit t }
    else ret s none
  | .sig t sg => { s with aw := .siginfo t sg }

/-- `continue_execution` from the prompt -/
def cmdContinue (s : St) : St :=
  match s.aw with
  | .idle =>
    match s.last with
    | some (.exit _) => die s "err:process-not-started"
    | _ =>
      match s.fpc with
      | some a => if hasBp s a then { s with aw := .pokeOrig a } else resumeHead s
      | none => resumeHead s
  | _ => die s "model:continue-while-running"

/-- the group stop interrupts `t`, one of the running tracees of its snapshot -/
def onIntr (s : St) (g : Gs) (t : Tid) (r : Ans) : St :=
  if (gsCands s g.todo).contains t then
    let todo' := g.todo.erase t
    if r = .ok then { s with aw := .waitOne t, gs := some { g with todo := todo', cur := some t } }
    else if r = .esrch then pick { s with tbl := s.tbl.setSt t .stop } { g with todo := todo', cur := none }
    else die s "err:ptrace-interrupt"
  else die s "reject:interrupt"

def inTrap (w : WSt) (t : Tid) (code : Nat) : Bool :=
  w == .sig t sigTrap && (code == 2 || code == 1 || code == 128 || code == 4)

/-- one observed call -/
def step (s : St) (e : Ev) : St :=
  match s.aw, e with
  | .dead _, _ => s
  | .idle, _ => die s "reject:call-at-the-prompt"
  -- step_over_breakpoint
  | .pokeOrig a, .poke a' b =>
    if a' = a ∧ some b = origOf s a then { s with lifted := some a, aw := .stepReq s.focus 0, outer := .step s.focus a a }
    else die s "reject:poke-orig"
  | .stepReq t sg, .sstep t' sg' r =>
    if t' = t ∧ sg' = sg then (if r = .ok then { s with aw := .waitOne t } else die s "err:ptrace-step")
    else die s "reject:step"
  | .pokeInt3 a r, .poke a' b =>
    if a' = a ∧ b = 204 then
      let s := { s with lifted := none }
      match r with
      | some x => toPrompt s x
      | none => resumeHead s
    else die s "reject:poke-int3"
  -- cont_stopped / cont_stopped_ex
  | .contAll inj excl vis thenGs, .cont t sg r =>
    let want := match inj with
      | some (ti, si) => if ti = t then si else 0
      | none => 0
    if (contPending s excl vis).contains t ∧ sg = want then
      if r = .ok then { s with tbl := s.tbl.setSt t .running, aw := .contAll inj excl (t :: vis) thenGs }
      else if r = .esrch then { s with aw := .contAll inj excl (t :: vis) thenGs }
      else die s "err:ptrace-cont"
    else die s "reject:cont"
  | .contAll _ excl vis thenGs, .wait none w =>
    if !(contPending s excl vis).isEmpty then die s "reject:wait-before-all-continued"
    else match thenGs with
      | some _ => die s "reject:wait-instead-of-group-stop"
      | none =>
        match w with
        | .echild => toPrompt s (.nosuch s.proc)
        | _ => applyNew s w
  | .contAll _ excl vis (some (t, sg)), .intr t' r =>
    -- more signals queued: `group_stop_interrupt(-1)` and return the next one
    if !(contPending s excl vis).isEmpty then die s "reject:interrupt-before-all-continued"
    else
      let s1 := groupStop s none (.inject t sg)
      match s1.aw, s1.gs with
      | .intr, some g => onIntr s1 g t' r
      | _, _ => die s1 "reject:interrupt"
  -- group stop: next tracee of the snapshot
  | .intr, .intr t r =>
    match s.gs with
    | some g => onIntr s g t r
    | none => die s "model:no-group-stop"
  | .waitOne t, .wait (some t') w =>
    if t' ≠ t ∨ w.tid ≠ some t then die s "reject:wait-one"
    else match s.gs with
      | some g =>
        (match g.cur, w with
         | some cur, .evstop _ _ => pick { s with tbl := s.tbl.finish cur } { g with cur := none }
         | some _, _ => applyNew s w
         | none, _ => die s "model:no-current-tracee")
      | none =>
        match s.outer with
        | .step _ _ _ => { s with aw := .stepInfo w }
        | .resume => die s "model:wait-one-in-resume"
  -- single_step: getsiginfo after every wait
  | .stepInfo w, .siginfo t code pcn r =>
    match s.outer with
    | .step t0 ipc a =>
      if t ≠ t0 then die s "reject:siginfo"
      else if r ≠ .ok then die s "err:ptrace-getsiginfo"
      else if inTrap w t code then
        if pcn = ipc then { s with aw := .stepReq t 0 } else { s with aw := .pokeInt3 a none }
      else if w == .sig t sigTrap && code == 5 then die s "unsupported:syscall-step"
      else if w == .evstop t sigStop then { s with aw := .pokeInt3 a none }
      else applyNew s w
    | .resume => die s "model:step-info-in-resume"
  -- apply_new_status
  | .siginfo t sg, .siginfo t' code pcn r =>
    if t' ≠ t then die s "reject:siginfo"
    else if r = .esrch then ret s (some (.nosuch t))
    else if r = .err then die s "err:ptrace-getsiginfo"
    else if sg = sigTrap then
      if code = 2 then die s "panic:todo-trap-trace"
      else if code = 1 ∨ code = 128 then
        if !s.tbl.has t then die s "panic:unwrap-unknown-tracee" else { s with aw := .setpc t pcn }
      else if code = 4 then die s "unsupported:hardware-breakpoint"
      else ret s none
    else
      let s := if !Gen.Sigs.transparent.contains sg then { s with queue := s.queue ++ [(t, sg)] } else s
      if !s.tbl.has t then die s "panic:unwrap-unknown-tracee"
      else
        let s := { s with tbl := s.tbl.setSt t (.sigstop sg) }
        if isQuiet sg then ret s (some (.sig t sg))
        else groupStop s (some t) (.sig t sg)
  | .setpc t old, .setpc t' new old' r =>
    if t' ≠ t ∨ old' ≠ old ∨ new + 1 ≠ old then die s "reject:setpc"
    else if r ≠ .ok then die s "err:ptrace-setregs"
    else if !hasBp s new then die s "panic:breakpoint-not-found"
    else if s.lifted = some new then die s "model:trap-at-lifted-breakpoint"
    else groupStop { s with tbl := s.tbl.setSt t .stop } (some t) (.brk t new)
  | .evmsg t, .evmsg t' c r =>
    if t' ≠ t then die s "reject:evmsg"
    else if r ≠ .ok then die s "err:ptrace-geteventmsg"
    else if s.tbl.has c then ret s none
    else { s with tbl := s.tbl.add c, aw := .childWait c }
  | .childWait c, .wait (some c') w =>
    if c' ≠ c ∨ w.tid ≠ some c then die s "reject:child-wait"
    else match w with
      | .exited _ _ => ret { s with tbl := s.tbl.remove c } none
      | .evstop _ _ => ret s none
      | _ => die s "panic:new-thread-must-start-with-event-stop"
  | .contExit t, .cont t' sg _ =>
    if t' = t ∧ sg = 0 then ret s none else die s "reject:cont-exit"
  | _, _ => die s "reject:unexpected-call"

def run (s : St) (es : List Ev) : St := es.foldl step s

/-! ## The absorption decision of `apply_new_status` when temporary breakpoints exist (tracer.rs:428-450)

During `step` / `next` / `finish` the debugger plants temporary breakpoints and resumes EVERY thread.  A thread that
then hits a breakpoint which is not "its own temporary one" is stepped over it silently: the hit is not returned. -/

inductive BpKind
  | user | entryPoint | linkerMap | temporary | temporaryAsync | wpCompanion | transparent
  deriving DecidableEq, Repr

/-- `true` = the hit is stepped over and `Ok(None)` is returned (never reported).
`kinds` = kinds of all active breakpoints, `hit` = kind of the breakpoint that was hit, `owner` = `pid == brkpt.pid`. -/
def absorbsSilently (kinds : List BpKind) (hit : BpKind) (owner : Bool) : Bool :=
  let hasTmp := kinds.any (fun k => k == .temporary || k == .temporaryAsync)
  let temporaryHit := hit == .temporary && owner
  let temporaryAsyncHit := hit == .temporaryAsync
  let watchpointHit := hit == .wpCompanion
  hasTmp && !temporaryHit && !watchpointHit && !temporaryAsyncHit

end BsVerif.Tracer
