import BsVerif.Gen.Cmds
/-!
Model of the console command-line parser (`src/ui/command/parser/mod.rs`, `expression.rs`) with the
Rust fault outcomes explicit (DESIGN 2.4): **which strings parse, which are rejected, which make the parser panic**.

Two layers.

1. *Numeric conversions* exactly as the code does them: every decimal token goes through
   `number::<T>()` = `text::int(10).from_str::<u32|u64|usize>().try_map(..)`, the hex digits of `hex()` through
   `usize::from_str_radix(s, 16)` inside `try_map`; a negative integer literal is `(val as i64).wrapping_neg()`.
   `FromStr` for unsigned integers is a checked multiply-add loop (`parseDigits`); `Err(PosOverflow)` is an ordinary
   parse error of that alternative (`Quirks.checked`, the default).  Before the repair (BugStalker 49f358c, b81e8d8,
   67375f8, 0af67fe) the conversions were `unwrapped()` / `unwrap()` / `-(val as i64)` and an out-of-range token was a
   **panic**: that is the setting `asFound`, kept only so that the regression stays expressible in the model.

2. *The grammar*, transcribed combinator by combinator into a small PEG datatype `G` (chumsky is a PEG: ordered
   choice, greedy repetition, no backtracking into a choice that succeeded) and interpreted by `run`.
   The only leaves that can panic are the numeric tokens (`NumTok`).  Keywords and the dispatch order come
   from `BsVerif/Gen/Cmds.lean`, regenerated from the Rust source on every run.

Everything here is core Lean (linked into `bsmodel`).  Scope of exactness: ASCII input (chumsky's
`text::ident()` uses Unicode XID classes, modelled by their ASCII restriction).
-/
namespace BsVerif.CmdNum
open BsVerif.Gen.Cmds

/-! ## 1. numeric conversions -/

/-- `checked` (the code as it is): a failed conversion is a parse error (`try_map`) and the negation wraps.
`checked = false`: the code as it was found (`unwrapped()` / `unwrap()` / `-(val as i64)`); then
`overflowChecks` says whether the build profile has overflow checks (`-(i64::MIN)` panics; dev/test profile: `true`). -/
structure Quirks where
  checked : Bool := true
  overflowChecks : Bool := true
  deriving Repr, DecidableEq

/-- the code as it is -/
def current : Quirks := {}
def repaired : Quirks := { checked := true }
/-- the code before the repair -/
def asFound : Quirks := { checked := false }

/-- call sites of numeric conversions -/
inductive Site
  | brkLine | brkNumber | sourceRange | watchNumber | threadSwitch | frameSwitch | triggerB | triggerW  -- `number()`, mod.rs
  | hex            -- `usize::from_str_radix(s, 16)` of `hex()`, mod.rs
  | litInt         -- `number::<u64>()`, expression.rs (`literal()`)
  | litNeg         -- the negation of a signed literal, expression.rs
  | sliceBound     -- `number::<usize>()`, expression.rs (`mb_usize`)
  deriving Repr, DecidableEq

/-- coarse class of a panic (what the harness can recognise from the panic message/location) -/
def Site.cls : Site → String
  | .hex => "hex" | .litNeg => "neg" | .sliceBound => "usize" | _ => "tok"

/-- `<uN as FromStr>::from_str` / `from_str_radix` on a non-empty digit string (digits as numbers below the
radix): `checked_mul` then `checked_add` per digit; `none` = `Err(PosOverflow)`. -/
def parseDigits (radix bits : Nat) : List Nat → Nat → Option Nat
  | [], acc => some acc
  | d :: ds, acc =>
    if acc * radix < 2 ^ bits then
      if acc * radix + d < 2 ^ bits then parseDigits radix bits ds (acc * radix + d) else none
    else none

/-- the mathematical value of a digit string (most significant first), continuing from `acc` -/
def digitsValue (radix : Nat) : List Nat → Nat → Nat
  | [], acc => acc
  | d :: ds, acc => digitsValue radix ds (acc * radix + d)

def isDigit (c : Char) : Bool := '0' ≤ c && c ≤ '9'                       -- `char::is_digit(10)`
def isHexDigit (c : Char) : Bool := isDigit c || ('a' ≤ c && c ≤ 'f') || ('A' ≤ c && c ≤ 'F')
def decVal (c : Char) : Nat := c.toNat - 48
def hexVal (c : Char) : Nat :=
  if isDigit c then c.toNat - 48 else if 'a' ≤ c && c ≤ 'f' then c.toNat - 87 else c.toNat - 55

/-- `text::int(10)`: a non-zero digit followed by digits, or the single digit `0`.  Returns (token, rest). -/
def scanInt : List Char → Option (List Char × List Char)
  | [] => none
  | c :: cs =>
    if c == '0' then some (['0'], cs)
    else if isDigit c then some (c :: cs.takeWhile isDigit, cs.dropWhile isDigit)
    else none

/-- `text::digits(16).at_least(1)` -/
def scanHex (s : List Char) : Option (List Char × List Char) :=
  match s.takeWhile isHexDigit with
  | [] => none
  | tok => some (tok, s.dropWhile isHexDigit)

def parseDec (bits : Nat) (tok : List Char) : Option Nat := parseDigits 10 bits (tok.map decVal) 0
def parseHex (tok : List Char) : Option Nat := parseDigits 16 64 (tok.map hexVal) 0

/-- `-(val as i64)` for `val : u64` (the code before the repair): `val as i64` wraps; the negation overflows exactly
for `val = 2^63`.  `none` = "attempt to negate with overflow". -/
def negAsI64 (val : Nat) : Option Int :=
  let i : Int := if val < 2 ^ 63 then val else (val : Int) - 2 ^ 64
  if val = 2 ^ 63 then none else some (-i)

/-- `(val as i64).wrapping_neg()` for `val : u64` (the code as it is): total. -/
def wrappingNegAsI64 (val : Nat) : Int :=
  if val ≤ 2 ^ 63 then -(val : Int) else (2 ^ 64 : Int) - val

/-- numeric leaves of the grammar -/
inductive NumTok
  | dec (bits : Nat) (site : Site)   -- `number::<T>()`: `text::int(10)` + conversion to an unsigned type of `bits` bits
  | hexDigits                        -- hex digits (after the `0x` prefix) + `from_str_radix(.., 16)`
  | litInt                           -- `"-"? number::<u64>()` + negation
  | intTok                           -- `text::int(10)` kept as a slice, no conversion (float literal, tuple field)
  deriving Repr, DecidableEq

inductive Res
  | ok (rest : List Char)
  | fail
  | panic (site : Site)
  | fuel
  deriving Repr, DecidableEq

def Res.isPanic : Res → Bool
  | .panic _ => true
  | _ => false

/-- what an overflowing conversion does: parse error (`try_map`) / panic (as found) -/
def overflow (q : Quirks) (site : Site) : Res := if q.checked then .fail else .panic site

def runNum (q : Quirks) : NumTok → List Char → Res
  | .dec bits site, s =>
    match scanInt s with
    | none => .fail
    | some (tok, rest) => match parseDec bits tok with
      | some _ => .ok rest
      | none => overflow q site
  | .hexDigits, s =>
    match scanHex s with
    | none => .fail
    | some (tok, rest) => match parseHex tok with
      | some _ => .ok rest
      | none => overflow q .hex
  | .litInt, s =>
    let neg := s.head? == some '-'
    let s1 := if neg then s.tail else s
    match scanInt s1 with
    | none => .fail
    | some (tok, rest) => match parseDec 64 tok with
      | none => overflow q .litInt
      | some v =>
        -- `wrapping_neg` is total; `-(val as i64)` (as found) overflowed on 2^63
        if neg && !q.checked && (negAsI64 v).isNone && q.overflowChecks then .panic .litNeg else .ok rest
  | .intTok, s =>
    match scanInt s with
    | none => .fail
    | some (_, rest) => .ok rest

/-! ## 2. the grammar -/

inductive Cls
  | ws | any | notColon | typeCh | identStart | identCont | dq | notDq | sq | notSq | wpSize
  deriving Repr, DecidableEq

/-- `char::is_whitespace` (Unicode White_Space) -/
def isWs (c : Char) : Bool :=
  let n := c.toNat
  (9 ≤ n && n ≤ 13) || n == 32 || n == 0x85 || n == 0xA0 || n == 0x1680 || (0x2000 ≤ n && n ≤ 0x200A)
    || n == 0x2028 || n == 0x2029 || n == 0x202F || n == 0x205F || n == 0x3000

def isAsciiAlpha (c : Char) : Bool := ('a' ≤ c && c ≤ 'z') || ('A' ≤ c && c ≤ 'Z')

def Cls.test : Cls → Char → Bool
  | .ws, c => isWs c
  | .any, _ => true
  | .notColon, c => c != ':'
  | .typeCh, c => isAsciiAlpha c || isDigit c || c == ':' || c == '<' || c == '>' || c == ' ' || c == '*'
      || c == '&' || c == '_' || c == ',' || c == '{' || c == '}' || c == '#' || c == '\''
  | .identStart, c => isAsciiAlpha c || c == '_'
  | .identCont, c => isAsciiAlpha c || isDigit c || c == '_'
  | .dq, c => c == '"'
  | .notDq, c => c != '"'
  | .sq, c => c == '\''
  | .notSq, c => c != '\''
  | .wpSize, c => c == '1' || c == '2' || c == '4' || c == '8'

inductive G
  | eps
  | eoi                              -- `end()`
  | just (k : List Char)
  | cls (c : Cls)                    -- `any().filter(..)`, `one_of`, `none_of`
  | seq (a b : G)                    -- `then`, `ignore_then`, `then_ignore`, `delimited_by`
  | alt (a b : G)                    -- `or`, `choice`
  | star (a : G)                     -- `repeated()`
  | opt (a : G)                      -- `or_not()`
  | num (n : NumTok)
  | ref (i : Nat)                    -- `recursive(..)`: 0 = literal, 1 = expr
  deriving Repr

def stripPrefix : List Char → List Char → Option (List Char)
  | [], s => some s
  | _ :: _, [] => none
  | k :: ks, c :: cs => if k == c then stripPrefix ks cs else none

/-- PEG interpretation.  The fuel bounds the recursion depth; theorems hold for every fuel. -/
def run (q : Quirks) (env : Nat → G) : Nat → G → List Char → Res
  | 0, _, _ => .fuel
  | f + 1, g, s =>
    match g with
    | .eps => .ok s
    | .eoi => if s.isEmpty then .ok s else .fail
    | .just k => match stripPrefix k s with
      | some r => .ok r
      | none => .fail
    | .cls c => match s with
      | x :: r => if c.test x then .ok r else .fail
      | [] => .fail
    | .seq a b => match run q env f a s with
      | .ok r => run q env f b r
      | o => o
    | .alt a b => match run q env f a s with
      | .fail => run q env f b s
      | o => o
    | .opt a => match run q env f a s with
      | .fail => .ok s
      | o => o
    | .star a => match run q env f a s with
      | .ok r => if r.length < s.length then run q env f (.star a) r else .ok r
      | .fail => .ok s
      | o => o
    | .num n => runNum q n s
    | .ref i => run q env f (env i) s

namespace G
def seqs : List G → G
  | [] => .eps
  | [g] => g
  | g :: gs => .seq g (seqs gs)
def alts : List G → G
  | [] => .seq .eoi (.cls .any)      -- never succeeds
  | [g] => g
  | g :: gs => .alt g (alts gs)
def plus (g : G) : G := .seq g (.star g)
def ws : G := .star (.cls .ws)                       -- `whitespace()`
def ws1 : G := plus (.cls .ws)                       -- `whitespace().at_least(1)`
def wsReqOrEnd : G := .alt ws1 .eoi
def padded (g : G) : G := seqs [ws, g, ws]
def op (k : List Char) : G := seqs [ws, .just k, wsReqOrEnd]
def opWArg (k : List Char) : G := seqs [ws, .just k, ws1]
def subOp (k : List Char) : G := .seq (.just k) wsReqOrEnd
def subOpWArg (k : List Char) : G := .seq (.just k) ws1
def op2 (a b : List Char) : G := .alt (op a) (op b)
def op2WArg (a b : List Char) : G := .alt (opWArg a) (opWArg b)
def subOp2 (a b : List Char) : G := .alt (subOp a) (subOp b)
def subOp2WArg (a b : List Char) : G := .alt (subOpWArg a) (subOpWArg b)
/-- `a.separated_by(sep)` (no leading/trailing separator, zero or more items) -/
def sepBy (a sep : G) : G := .opt (.seq a (.star (.seq sep a)))
def anyStar : G := .star (.cls .any)
def sym (k : List Char) : G := padded (.just k)  -- `just(c).padded()` (expression.rs `op`)

/-- `text::ascii::ident()` and (ASCII restriction of) `text::ident()` -/
def ident : G := .seq (.cls .identStart) (.star (.cls .identCont))
/-- `hex()`: `(0x|0X) hexdigits`, padded -/
def hex : G := padded (.seq (.alt (.just ['0', 'x']) (.just ['0', 'X'])) (.num .hexDigits))
/-- `rust_identifier()` -/
def rustIdent : G :=
  padded (seqs [.opt (.just [':', ':']), ident, .star (.seq (.just [':', ':']) ident)])

/-! expression.rs -/
def literalOrWildcard : G := .alt (.ref 0) (sym ['*'])
def strLit (qc nq : Cls) : G := seqs [.cls qc, .star (.cls nq), .cls qc]
def literal : G := alts [
  seqs [.opt (.just ['-']), .num .intTok, .just ['.'], .num .intTok],          -- float
  .alt (sym ['t', 'r', 'u', 'e']) (sym ['f', 'a', 'l', 's', 'e']),                                             -- bool
  hex,                                                                          -- address
  .num .litInt,                                                                 -- int
  .seq rustIdent (.opt (seqs [sym ['('], .ref 0, sym [')']])),                     -- enum variant
  strLit .dq .notDq, strLit .sq .notSq,
  seqs [sym ['{'], sepBy literalOrWildcard (sym [',']), sym ['}']],                  -- array
  seqs [sym ['{'], sepBy (seqs [rustIdent, sym [':'], literalOrWildcard]) (sym [',']), sym ['}']] ]  -- assoc array

def ptrCast : G := seqs [sym ['('], plus (.cls .typeCh), sym [')'], hex]
def baseSelector : G := .alt (padded rustIdent) ptrCast
def atom : G := padded (.alt baseSelector (seqs [sym ['('], .ref 1, sym [')']]))
def mbUsize : G := padded (.opt (.num (.dec 64 .sliceBound)))
def fieldOp : G := .seq (sym ['.']) (.alt ident (.num .intTok))
def indexOp : G := seqs [sym ['['], padded (.ref 0), sym [']']]
def sliceOp : G := seqs [sym ['['], mbUsize, padded (.just ['.', '.']), mbUsize, sym [']']]
def expr : G := .seq (.star (alts [sym ['*'], sym ['&'], sym ['~']])) (.seq atom (.star (alts [fieldOp, indexOp, sliceOp])))
/-- `expression::parser()` -/
def dqe : G := .seq (.ref 1) .eoi

def env : Nat → G
  | 0 => literal
  | _ => expr

/-! mod.rs -/
def brkAddr : G := hex
def brkLine : G := padded (seqs [.star (.cls .notColon), .just [':'], .num (.dec 64 .brkLine)])
def brkNumber : G := padded (.num (.dec 32 .brkNumber))
def brkFn : G := anyStar
def wpCond : G := alts [op ['+', 'r', 'w'], op ['+', 'w'], ws]
def wpAddr : G := padded (seqs [hex, .just [':'], .cls .wpSize])
def wpDqe : G := padded dqe

def printVariables : G := .alt
  (.seq (.alt (opWArg VAR_COMMAND) (opWArg VAR_DEBUG_COMMAND)) (subOp VAR_LOCAL_KEY))
  (.seq (.alt (opWArg VAR_COMMAND) (opWArg VAR_DEBUG_COMMAND)) dqe)
def printArguments : G := .alt
  (.seq (.alt (opWArg ARG_COMMAND) (opWArg ARG_DEBUG_COMMAND)) (subOp ARG_ALL_KEY))
  (.seq (.alt (opWArg ARG_COMMAND) (opWArg ARG_DEBUG_COMMAND)) dqe)
def continue_ : G := op2 CONTINUE_COMMAND CONTINUE_COMMAND_SHORT
def run_ : G := op2 RUN_COMMAND RUN_COMMAND_SHORT
def stepi : G := op STEP_INSTRUCTION_COMMAND
def stepInto : G := op2 STEP_INTO_COMMAND STEP_INTO_COMMAND_SHORT
def stepOut : G := op2 STEP_OUT_COMMAND STEP_OUT_COMMAND_SHORT
def stepOver : G := op2 STEP_OVER_COMMAND STEP_OVER_COMMAND_SHORT
def call : G := seqs [opWArg CALL_COMMAND, padded ident, .star (padded (.ref 0))]
def sourceCode : G := .seq (opWArg SOURCE_COMMAND) (alts [
  subOp SOURCE_COMMAND_DISASM_SUBCOMMAND, subOp SOURCE_COMMAND_FUNCTION_SUBCOMMAND,
  padded (.num (.dec 64 .sourceRange))])
def help : G := padded (.seq (op2 HELP_COMMAND HELP_COMMAND_SHORT) (.opt (padded (plus (.cls .any)))))
def backtrace : G := .seq (op2 BACKTRACE_COMMAND BACKTRACE_COMMAND_SHORT) (.opt (subOp BACKTRACE_ALL_SUBCOMMAND))
def symbol : G := .seq (opWArg SYMBOL_COMMAND) (padded anyStar)
def break_ : G := .seq (op2WArg BREAK_COMMAND BREAK_COMMAND_SHORT) (alts [
  .seq (subOp2WArg BREAK_REMOVE_SUBCOMMAND BREAK_REMOVE_SUBCOMMAND_SHORT) (alts [brkAddr, brkLine, brkNumber, brkFn]),
  subOp BREAK_INFO_SUBCOMMAND,
  alts [brkAddr, brkLine, brkFn]])
def watchpoint : G := .seq (op2WArg WATCH_COMMAND WATCH_COMMAND_SHORT) (alts [
  .seq (subOp2WArg WATCH_REMOVE_SUBCOMMAND WATCH_REMOVE_SUBCOMMAND_SHORT)
    (alts [padded (.num (.dec 32 .watchNumber)), wpAddr, wpDqe]),
  subOp BREAK_INFO_SUBCOMMAND,
  .seq wpCond wpAddr,
  .seq wpCond wpDqe])
def memory : G := .seq (op2WArg MEMORY_COMMAND MEMORY_COMMAND_SHORT) (alts [
  .seq (subOpWArg MEMORY_COMMAND_READ_SUBCOMMAND) hex,
  .seq (subOpWArg MEMORY_COMMAND_WRITE_SUBCOMMAND) (.seq hex hex)])
def register : G := .seq (op2WArg REGISTER_COMMAND REGISTER_COMMAND_SHORT) (alts [
  subOp REGISTER_COMMAND_INFO_SUBCOMMAND,
  padded (.seq (subOpWArg REGISTER_COMMAND_READ_SUBCOMMAND) ident),
  padded (seqs [subOpWArg REGISTER_COMMAND_WRITE_SUBCOMMAND, ident, hex])])
def thread : G := .seq (opWArg THREAD_COMMAND) (alts [
  subOp THREAD_COMMAND_INFO_SUBCOMMAND, subOp THREAD_COMMAND_CURRENT_SUBCOMMAND,
  padded (.seq (subOpWArg THREAD_COMMAND_SWITCH_SUBCOMMAND) (.num (.dec 32 .threadSwitch)))])
def frame : G := .seq (op2WArg FRAME_COMMAND FRAME_COMMAND_SHORT) (alts [
  subOp FRAME_COMMAND_INFO_SUBCOMMAND,
  padded (.seq (subOp FRAME_COMMAND_SWITCH_SUBCOMMAND) (.num (.dec 32 .frameSwitch)))])
def sharedLib : G := .seq (opWArg SHARED_LIB_COMMAND) (subOp SHARED_LIB_COMMAND_INFO_SUBCOMMAND)
def oracle : G := padded (seqs [opWArg ORACLE_COMMAND, padded ident, .opt ident])
def async : G := .seq (opWArg ASYNC_COMMAND) (alts [
  .seq (subOp2 ASYNC_COMMAND_BACKTRACE_SUBCOMMAND ASYNC_COMMAND_BACKTRACE_SUBCOMMAND_SHORT) (.opt (subOp BACKTRACE_ALL_SUBCOMMAND)),
  .seq (subOp ASYNC_COMMAND_TASK_SUBCOMMAND) (padded anyStar),
  subOp2 ASYNC_COMMAND_STEP_OVER_SUBCOMMAND ASYNC_COMMAND_STEP_OVER_SUBCOMMAND_SHORT,
  subOp2 ASYNC_COMMAND_STEP_OUT_SUBCOMMAND ASYNC_COMMAND_STEP_OUT_SUBCOMMAND_SHORT])
def trigger : G := .seq (op TRIGGER_COMMAND) (.alt
  (padded (alts [
    subOp TRIGGER_COMMAND_INFO_SUBCOMMAND, subOp TRIGGER_COMMAND_ANY_TRIGGER_SUBCOMMAND,
    .seq (subOp TRIGGER_COMMAND_BRKPT_TRIGGER_SUBCOMMAND) (.num (.dec 32 .triggerB)),
    .seq (subOp TRIGGER_COMMAND_WP_TRIGGER_SUBCOMMAND) (.num (.dec 32 .triggerW))]))
  (padded .eoi))

/-- the commands in dispatch order, each tagged with the keyword constant passed to `command(..)` -/
def commands : List (List Char × G) := [
  (VAR_COMMAND, printVariables), (ARG_COMMAND, printArguments), (CONTINUE_COMMAND, continue_), (RUN_COMMAND, run_),
  (STEP_INSTRUCTION_COMMAND, stepi), (STEP_INTO_COMMAND, stepInto), (STEP_OUT_COMMAND, stepOut),
  (STEP_OVER_COMMAND, stepOver), (SOURCE_COMMAND, sourceCode), (HELP_COMMAND, help), (BACKTRACE_COMMAND, backtrace),
  (SYMBOL_COMMAND, symbol), (BREAK_COMMAND, break_), (MEMORY_COMMAND, memory), (REGISTER_COMMAND, register),
  (THREAD_COMMAND, thread), (FRAME_COMMAND, frame), (SHARED_LIB_COMMAND, sharedLib), (ORACLE_COMMAND, oracle),
  (WATCH_COMMAND, watchpoint), (ASYNC_COMMAND, async), (TRIGGER_COMMAND, trigger), (CALL_COMMAND, call)]

/-- `Command::parser()`: `choice((command(KW, p), ...))` with `command(_, p) = p.then_ignore(end())` -/
def commandLine : G := alts (commands.map fun c => .seq c.2 .eoi)
end G

/-- recursion-depth budget for a line (every combinator level costs one unit; repetition one per item) -/
def fuelFor (s : List Char) : Nat := 400 + 60 * s.length

/-- `Command::parse(line)`: `ok []` = `Ok(_)`, `fail` = `Err(Parsing)`, `panic site` = the process panics. -/
def parseLine (q : Quirks) (s : List Char) : Res := run q G.env (fuelFor s) G.commandLine s

/-- `expression::parser().parse(s)` -/
def parseDqe (q : Quirks) (s : List Char) : Res := run q G.env (fuelFor s) G.dqe s

def Res.toString : Res → String
  | .ok _ => "ok"
  | .fail => "err"
  | .panic s => "panic:" ++ s.cls
  | .fuel => "fuel"

end BsVerif.CmdNum
