import BsVerif.Gen.Dr
/-!
Model of the x86-64 debug-register handling of BugStalker (property C14).

* `src/debugger/register.rs`, module `debug`: `DebugControlRegister` (DR7) bit packing through the `bit_field`
  crate (`get_bit`, `set_bit`, `set_bits`), `DebugStatusRegister::detect_and_flush` (DR6), `HardwareDebugState`.
* `src/debugger/watchpoint.rs`: `HardwareBreakpoint::{enable, disable, address_already_observed}`,
  `Watchpoint::{from_raw_addr, from_dqe, disable, refresh}`, `WatchpointRegistry::{add, remove_by_*, clear_local_disable_global,
  refresh, distribute_to_tracee}`, the end-of-scope hook of `execute_on_watchpoint_hook`.
* `src/debugger/breakpoint.rs`: `new_watchpoint_companion`, `decrease_companion_rc` (reference-counted companion
  breakpoints), as far as the watchpoint registry needs them.

Words are `Nat` with `/`, `%`.  All layout constants come from `BsVerif.Gen.Dr`, which is regenerated from the
Rust sources on every run.  No Mathlib: this file is linked into `bsmodel`.
-/
namespace BsVerif.Dr
open BsVerif.Gen.Dr

/-! ## `bit_field` on `usize` -/

/-- `x.get_bit(i)` -/
def getBit (x i : Nat) : Bool := x / 2 ^ i % 2 == 1
/-- `x.set_bit(i, b)` -/
def setBit (x i : Nat) (b : Bool) : Nat := x - (x / 2 ^ i % 2) * 2 ^ i + (if b then 2 ^ i else 0)
/-- `x.get_bits(lo .. lo+w)` -/
def getBits (x lo w : Nat) : Nat := x / 2 ^ lo % 2 ^ w
/-- `x.set_bits(lo ..= lo+w-1, v)`; the crate asserts `v < 2^w` ("value does not fit into bit range"): the
callers below only pass enum discriminants, which `C14_codes_fit` shows to be in range. -/
def setBits (x lo w v : Nat) : Nat := x - (x / 2 ^ lo % 2 ^ w) * 2 ^ lo + v * 2 ^ lo

/-! ## DR7: `DebugControlRegister` -/

/-- `dr_enabled(dr, global)` -/
def drEnabled (d dr : Nat) (global : Bool) : Bool := getBit d (enabledIdx dr global)

/-- `configure_bp(dr, cond, size)` -/
def configureBp (d dr : Nat) (c : BreakCondition) (s : BreakSize) : Nat :=
  setBits (setBits d (condBase + dr * condStride) condWidth c.code) (sizeBase + dr * sizeStride) sizeWidth s.code

/-- `set_dr(dr, global, enable)` including the LE/GE ("exact breakpoint") handling -/
def setDr (d dr : Nat) (global enable : Bool) : Nat :=
  let d1 := setBit d (setDrIdx dr global) enable
  if enable then setBit d1 (detectionBit global) true
  else if allDisabledScan.all (fun n => !drEnabled d1 n global) then setBit d1 (detectionBit global) false
  else d1

/-- the free-slot search of `HardwareBreakpoint::enable` -/
def findFree (d : Nat) : Option Nat := freeSearchOrder.find? (fun dr => !drEnabled d dr freeSearchGlobal)

/-! ## DR6: `DebugStatusRegister` -/

def detectGo : List (Nat × Nat) → Nat → Option Nat × Nat
  | [], d => (none, d)
  | (t, k) :: rest, d =>
    let bit := trapBit.getD t 0
    if getBit d bit then (some k, setBit d bit false) else detectGo rest d

/-- `detect_and_flush`: the first trap flag that is set, in the order of the if-chain, is cleared and its
debug register number returned (the `trapN()` calls before it found their flag clear, so their flush is a no-op). -/
def detectAndFlush (d6 : Nat) : Option Nat × Nat := detectGo detectOrder d6

/-! ## `HardwareDebugState` and the watchpoint registry -/

/-- `HardwareDebugState`: image of DR0-3, DR6, DR7 of one thread -/
structure Img where
  a0 : Nat := 0
  a1 : Nat := 0
  a2 : Nat := 0
  a3 : Nat := 0
  dr6 : Nat := 0
  dr7 : Nat := 0
  deriving Repr, DecidableEq, Inhabited

def Img.addr (m : Img) : Nat → Nat
  | 0 => m.a0 | 1 => m.a1 | 2 => m.a2 | _ => m.a3

/-- `state.address_regs[i] = v` (callers pass `i < 4`) -/
def Img.setAddr (m : Img) (i v : Nat) : Img :=
  match i with
  | 0 => { m with a0 := v } | 1 => { m with a1 := v } | 2 => { m with a2 := v } | _ => { m with a3 := v }

/-- `HardwareBreakpoint` -/
structure Hw where
  addr : Nat
  size : BreakSize
  cond : BreakCondition
  reg : Option Nat := none
  deriving Repr, DecidableEq

/-- `Watchpoint`: `expr = some e` for `Subject::Expression` (e identifies the DQE), `companion` = number of the
end-of-scope breakpoint of a scoped expression -/
structure Wp where
  num : Nat
  hw : Hw
  expr : Option Nat := none
  companion : Option Nat := none
  deriving Repr, DecidableEq

def Wp.scoped (w : Wp) : Bool := w.companion.isSome

/-- a `BrkptType::WatchpointCompanion(wps)` breakpoint in the breakpoint registry -/
structure Comp where
  num : Nat
  addr : Nat
  wps : List Nat
  deriving Repr, DecidableEq

/-- the debugger-side registry plus the kernel-side register files of the debuggee's threads
(`main` is the thread `tracee_ctl.proc_pid()`, whose registers `HardwareDebugState::current` reads) -/
structure Sys where
  main : Img := {}
  others : List Img := []
  wps : List Wp := []
  last : Option Img := none          -- `last_seen_state`
  comps : List Comp := []
  nextWp : Nat := 1                  -- GLOBAL_WP_COUNTER
  nextBp : Nat := 1                  -- GLOBAL_BP_COUNTER (only companions are counted here)
  /-- thread ids the kernel has created but the tracer has not registered yet (`tracee_ctl` does not know them):
  such a thread sits in its initial PTRACE_EVENT_STOP, has executed nothing, and its debug registers are the
  cleared ones Linux gives every new thread; `state.sync` of an enable/disable does not reach it -/
  newborn : List Nat := []
  deriving Repr, DecidableEq

inductive Err where
  | alreadyObserved | limitReached | wrongSize
  deriving Repr, DecidableEq

/-- `state.sync(t.pid)` for every tracee -/
def Sys.syncAll (s : Sys) (st : Img) : Sys := { s with main := st, others := s.others.map (fun _ => st) }

/-- `HardwareBreakpoint::address_already_observed` -/
def observed (m : Img) (addr : Nat) : Bool :=
  [0, 1, 2, 3].any (fun dr => drEnabled m.dr7 dr observedGlobal && m.addr dr == addr)

/-- register image written by `HardwareBreakpoint::enable` when slot `r` is free -/
def enableImg (m : Img) (r : Nat) (hw : Hw) : Img :=
  let m1 := m.setAddr r hw.addr
  { m1 with dr7 := setDr (configureBp m1.dr7 r hw.cond hw.size) r enableGlobal true }

/-- register image written by `HardwareBreakpoint::disable` -/
def disableImg (m : Img) (r : Nat) : Img := { m with dr7 := setDr m.dr7 r disableGlobal false }

/-- `HardwareBreakpoint::enable`: image read from the main thread, written to every thread -/
def hwEnable (s : Sys) (hw : Hw) : Except Err (Img × Hw × Sys) :=
  match findFree s.main.dr7 with
  | none => .error .limitReached
  | some r =>
    let st := enableImg s.main r hw
    .ok (st, { hw with reg := some r }, s.syncAll st)

/-- `BreakpointRegistry::decrease_companion_rc` -/
def decCompanion (comps : List Comp) (bp wp : Nat) : List Comp :=
  match comps.find? (fun c => c.num == bp) with
  | none => comps
  | some c =>
    if c.wps == [wp] then comps.filter (fun c => c.num != bp)
    else comps.map (fun c => if c.num == bp then { c with wps := c.wps.filter (· != wp) } else c)

/-- `position(p)` + `Vec::remove(idx)` -/
def extract (p : Wp → Bool) : List Wp → Option (Wp × List Wp)
  | [] => none
  | w :: ws => if p w then some (w, ws) else (extract p ws).map (fun xr => (xr.1, w :: xr.2))

/-- `Watchpoint::disable` of a watchpoint already taken out of the list (callers guarantee `reg = some r`;
`expect("should exist")` otherwise, outcome `none`) -/
def wpDisable (s : Sys) (w : Wp) : Option (Img × Sys) :=
  match w.hw.reg with
  | none => none
  | some r =>
    let st := disableImg s.main r
    let s1 := s.syncAll st
    let comps := match w.companion with
      | some bp => decCompanion s1.comps bp w.num
      | none => s1.comps
    some (st, { s1 with comps := comps })

/-- `WatchpointRegistry::remove` behind `remove_by_num / remove_by_addr / remove_by_dqe` -/
def removeWhere (s : Sys) (p : Wp → Bool) : Option (Option Nat × Sys) :=
  match extract p s.wps with
  | none => some (none, s)
  | some (w, rest) =>
    match wpDisable { s with wps := rest } w with
    | none => none
    | some (st, s1) => some (some w.num, { s1 with last := some st })

/-- `new_watchpoint_companion` + `add_and_enable`: an enabled companion at the same address is reused and gets
the next watchpoint number appended (the map entry at that address is replaced) -/
def addCompanion (s : Sys) (addr : Nat) : Nat × Sys :=
  match s.comps.find? (fun c => c.addr == addr) with
  | some c =>
    (c.num, { s with comps := s.comps.map (fun c' => if c'.addr == addr then { c' with wps := c'.wps ++ [s.nextWp] } else c') })
  | none =>
    (s.nextBp, { s with comps := s.comps ++ [{ num := s.nextBp, addr := addr, wps := [s.nextWp] }], nextBp := s.nextBp + 1 })

/-- commands / events of a history -/
inductive Op where
  /-- `set_watchpoint_on_memory(addr, size, cond)` -/
  | addMem (addr : Nat) (size : BreakSize) (cond : BreakCondition)
  /-- `set_watchpoint_on_expr`: the DQE `expr` evaluates to a pointer `addr` to `bytes` bytes; `scopeEnd` is the
  address chosen for the companion breakpoint when the expression has a lexical scope -/
  | addExpr (expr addr bytes : Nat) (cond : BreakCondition) (scopeEnd : Option Nat)
  | rmNum (n : Nat)
  | rmAddr (a : Nat)
  | rmExpr (e : Nat)
  /-- the debuggee creates a thread and the tracer learns of it in the common order (= `spawn t; evClone t` with
  an anonymous thread id): PTRACE_EVENT_CLONE -> `distribute_to_tracee` -/
  | clone
  /-- kernel side of a thread creation: thread `tid` now exists, stopped, debug registers cleared, unknown to
  the tracer; two notifications are outstanding (the parent's PTRACE_EVENT_CLONE and the child's initial
  PTRACE_EVENT_STOP) and `waitpid(-1)` may hand them over in either order -/
  | spawn (tid : Nat)
  /-- the tracer handles PTRACE_EVENT_CLONE of some parent whose event message is `tid`
  (`tracer.rs`, `libc::PTRACE_EVENT_CLONE` arm): a tid already registered is skipped, otherwise it is registered,
  its initial stop is awaited (`wait_one`) and `distribute_to_tracee` runs -/
  | evClone (tid : Nat)
  /-- the tracer handles a PTRACE_EVENT_STOP of `tid` returned by `waitpid(-1)` (`libc::PTRACE_EVENT_STOP` arm):
  a registered tid is only marked stopped, an unknown one is registered and `distribute_to_tracee` runs -/
  | evStop (tid : Nat)
  /-- a thread other than the main one exits -/
  | threadExit (i : Nat)
  /-- the CPU reports data breakpoints `bits` (DR6 low bits) on thread `t` (0 = main); the tracer runs
  `detect_and_flush` and writes the image back to that thread -/
  | hit (t bits : Nat)
  /-- the companion breakpoint at `addr` is hit: `WatchpointHitType::EndOfScope` hook -/
  | scopeEnd (addr : Nat)
  /-- `restart_debugee` of a running debuggee (`alive = true`: `clear_local_disable_global` talks to the live
  process) or exit of the debuggee followed by a new run (`alive = false`: the same function runs in the
  `DebugeeExit` handler when every ptrace request already fails); then `disable_all_breakpoints`, a new process,
  and `refresh` at its entry point -/
  | restart (alive : Bool)
  deriving Repr, DecidableEq

inductive Res where
  | added (num slot : Nat)
  | refused (e : Err)
  | removed (num : Option Nat)
  | hitSlot (slot : Option Nat)
  | ended (removed : List Nat)
  | done
  | panic
  deriving Repr, DecidableEq

/-- `Watchpoint::from_raw_addr` + `WatchpointRegistry::add` -/
def addMem (s : Sys) (addr : Nat) (size : BreakSize) (cond : BreakCondition) : Res × Sys :=
  if observed s.main addr then (.refused .alreadyObserved, s)
  else match hwEnable s { addr, size, cond } with
    | .error e => (.refused e, s)
    | .ok (st, hw, s1) =>
      (.added s1.nextWp (hw.reg.getD 0),
       { s1 with wps := s1.wps ++ [{ num := s1.nextWp, hw := hw }], last := some st, nextWp := s1.nextWp + 1 })

/-- `Watchpoint::from_dqe` + `WatchpointRegistry::add`, in the order of the code: duplicate-address check, size
check, `hw.enable` (a debug register is taken first: when none is free the request is refused with nothing done),
then the companion breakpoint is created and enabled (the counter `GLOBAL_WP_COUNTER` is only advanced on success).
Before the repair the companion was created first and a refusal by `hw.enable` left it behind. -/
def addExpr (s : Sys) (expr addr bytes : Nat) (cond : BreakCondition) (scopeEnd : Option Nat) : Res × Sys :=
  if observed s.main addr then (.refused .alreadyObserved, s)
  else if bytes > 255 then (.refused .wrongSize, s)
  else match BreakSize.ofBytes? bytes with
    | none => (.refused .wrongSize, s)
    | some size =>
      match hwEnable s { addr, size, cond } with
      | .error e => (.refused e, s)
      | .ok (st, hw, s1) =>
        let (comp, s2) := match scopeEnd with
          | some a => let (n, s') := addCompanion s1 a; (some n, s')
          | none => (none, s1)
        (.added s2.nextWp (hw.reg.getD 0),
         { s2 with wps := s2.wps ++ [{ num := s2.nextWp, hw := hw, expr := some expr, companion := comp }],
                   last := some st, nextWp := s2.nextWp + 1 })

def rmRes : Option (Option Nat × Sys) → Sys → Res × Sys
  | some (n, s'), _ => (.removed n, s')
  | none, s => (.panic, s)

/-- the `for number in wps { remove_watchpoint_by_number(number) }` loop of the end-of-scope hook -/
def removeNums (s : Sys) : List Nat → Option Sys
  | [] => some s
  | n :: ns => match removeWhere s (fun w => w.num == n) with
    | none => none
    | some (_, s') => removeNums s' ns

/-- `refresh`: every watchpoint of the list is re-enabled, in list order, on the register file of the current
process, each through the ordinary free-slot search; a failing `hw.enable` leaves the watchpoint as it is (the
error is only printed).  The list is rebuilt by appending, which is what the in-place `iter_mut` amounts to. -/
def refreshGo (s : Sys) : List Wp → Sys
  | [] => s
  | w :: ws =>
    match hwEnable s { w.hw with reg := none } with
    | .error _ => refreshGo { s with wps := s.wps ++ [w] } ws
    | .ok (st, hw, s1) => refreshGo { s1 with wps := s1.wps ++ [{ w with hw := hw }], last := some st } ws

/-- the loop of `WatchpointRegistry::clear_local_disable_global`, as written:
```
let wp_count = self.watchpoints.len();  let mut j = 0;
for _ in 0..wp_count {
    if self.watchpoints[j].scoped() { self.remove(.., j) /* Vec::remove(j) + disable; error collected */ }
    else { self.watchpoints[j].disable(..) /* error collected */;  j += 1; }
}
```
`n` = iterations left, `j` = the index variable.  `alive = false`: the process is gone, `HardwareDebugState::current`
fails first thing in `hw.disable`, so a scoped watchpoint is dropped from the vector with nothing else done, and an
unscoped one is left exactly as it is (its `register` keeps the stale slot).  `alive = true`: `wpDisable` (registers of
every thread rewritten, companion reference released); `none` = a Rust panic (`watchpoints[j]` out of bounds,
`register.expect("should exist")`). -/
def cldgLoop (alive : Bool) : Nat → Nat → Sys → Option Sys
  | 0, _, s => some s
  | n + 1, j, s =>
    match s.wps[j]? with
    | none => none
    | some w =>
      if w.scoped then
        let s1 := { s with wps := s.wps.eraseIdx j }
        if alive then
          match wpDisable s1 w with
          | none => none
          | some (st, s2) => cldgLoop alive n j { s2 with last := some st }
        else cldgLoop alive n j s1
      else
        if alive then
          match wpDisable s w with
          | none => none
          | some (_, s2) =>
            cldgLoop alive n (j + 1) { s2 with wps := s2.wps.set j { w with hw := { w.hw with reg := none } } }
        else cldgLoop alive n (j + 1) s

/-- `clear_local_disable_global` -/
def clearLocalDisableGlobal (alive : Bool) (s : Sys) : Option Sys :=
  (cldgLoop alive s.wps.length 0 s).map (fun s' => { s' with last := none })

/-- `disable_all_breakpoints` (drops every `WatchpointCompanion` breakpoint, referenced or not) and the start of the
new process: one thread, debug registers cleared -/
def newProcess (s : Sys) : Sys := { s with main := {}, others := [], newborn := [], comps := [] }

/-- `WatchpointRegistry::refresh` at the entry point of the new process; `debug_assert!(!wp.scoped())` is a panic
of the (debug-assertion) build the harness links -/
def refresh (s : Sys) : Option Sys :=
  if s.wps.any (fun w => w.scoped) then none else some (refreshGo { s with wps := [] } s.wps)

def restart (alive : Bool) (s : Sys) : Option Sys :=
  match clearLocalDisableGlobal alive s with
  | none => none
  | some s1 => refresh (newProcess s1)

/-- the register file Linux gives a new thread, as PTRACE_PEEKUSER shows it: `copy_thread` drops the breakpoints
(DR0-3 read 0 and nothing is armed) but copies `thread.ptrace_dr7`, the value reported as DR7, from the parent -/
def kernelNewThread (parent : Img) : Img := { dr7 := parent.dr7 }

/-- first handling of a thread the tracer did not know: `tracee_ctl.add` + `distribute_to_tracee`
(`last_seen_state`, when there is one, is written to the new thread; otherwise what the kernel gave it stays — the
main thread stands for the parent; while `last_seen_state` is `None` no register of the process has been written
since it started, so it does not matter when the parent's DR7 is looked at) -/
def register (s : Sys) (tid : Nat) : Sys :=
  { s with newborn := s.newborn.filter (· != tid), others := s.others ++ [s.last.getD (kernelNewThread s.main)] }

def step (s : Sys) : Op → Res × Sys
  | .addMem a sz c => addMem s a sz c
  | .addExpr e a b c se => addExpr s e a b c se
  | .rmNum n => rmRes (removeWhere s (fun w => w.num == n)) s
  | .rmAddr a => rmRes (removeWhere s (fun w => w.hw.addr == a)) s
  | .rmExpr e => rmRes (removeWhere s (fun w => w.expr == some e)) s
  | .clone =>
    -- the kernel starts the new thread with `kernelNewThread`; the tracer copies `last_seen_state`
    (.done, { s with others := s.others ++ [s.last.getD (kernelNewThread s.main)] })
  | .spawn t => (.done, if s.newborn.contains t then s else { s with newborn := s.newborn ++ [t] })
  | .evClone t =>
    -- `if self.tracee_ctl.tracee_mut(new_thread_id).is_none() { add; wait_one; distribute_to_tracee }`
    (.done, if s.newborn.contains t then register s t else s)
  | .evStop t =>
    -- `match self.tracee_ctl.tracee_mut(pid) { Some(t) => t.set_stop(..), None => { add; distribute_to_tracee } }`
    (.done, if s.newborn.contains t then register s t else s)
  | .threadExit i => (.done, { s with others := s.others.eraseIdx i })
  | .hit t bits =>
    let bits := bits % 16
    if t = 0 then
      let (r, d6) := detectAndFlush (s.main.dr6 + bits - s.main.dr6 % 16)
      (.hitSlot r, { s with main := { s.main with dr6 := d6 } })
    else match s.others[t - 1]? with
      | none => (.done, s)
      | some m =>
        let (r, d6) := detectAndFlush (m.dr6 + bits - m.dr6 % 16)
        (.hitSlot r, { s with others := s.others.set (t - 1) { m with dr6 := d6 } })
  | .scopeEnd a =>
    match s.comps.find? (fun c => c.addr == a) with
    | none => (.done, s)
    | some c =>
      -- debug_assert_eq!(watchpoints.len(), wps.len())
      if c.wps.all (fun n => s.wps.any (fun w => w.num == n)) then
        match removeNums s c.wps with
        | some s' => (.ended c.wps, s')
        | none => (.panic, s)
      else (.panic, s)
  | .restart alive =>
    match restart alive s with
    | some s' => (.done, s')
    | none => (.panic, s)

def run (s : Sys) : List Op → Sys
  | [] => s
  | op :: ops => run (step s op).2 ops

end BsVerif.Dr
