/-!
Model of `symbol <regex>` over all objects known to the debugger
(`Debugger::get_symbols`, src/debugger/mod.rs; `DwarfRegistry`, src/debugger/debugee/registry.rs;
`DebugInformation::find_symbols`, src/debugger/debugee/dwarf/mod.rs; `SymbolTab`, src/debugger/debugee/dwarf/symbol.rs).

    get_symbols(regex) = debug_info_all().iter().flat_map(|dwarf| dwarf.find_symbols(&regex)).collect()
    find_symbols(regex) = symbol_table.as_ref().map(|t| t.find(regex)).unwrap_or_default()
    SymbolTab::new(object) = object.symbol_table()              -- `.symtab` only; `None` when absent or empty
          .map(|t| t.symbols().map(|s| (demangle(s.name), {kind, addr})).collect::<HashMap<_, _>>())
    SymbolTab::find(regex) = keys().filter(|k| regex.find(k).is_some()).map(|k| Symbol {k, self[k]})

A `HashMap` built by `collect` keeps, per key, the LAST value of the iterator; it is modelled by an association
list with replace-or-append insertion.  Iteration order of a hash map (and the order of `debug_info_all`, a sort
of hash-map values) is not part of the model's observable: the driver answers with a sorted listing, and
`C17_symbols_perm` shows that the listing as a multiset does not depend on the order of the objects.
Demangling and the regex engine are parameters: names arrive demangled, the regex is a predicate on names.
Core Lean only (linked into `bsmodel`).
-/
namespace BsVerif.Symbols

/-- one entry of an ELF symbol table: demangled name, `SymbolKind` (as a number), `st_value` -/
structure Sym where
  name : String
  kind : Nat
  addr : Nat
deriving BEq, DecidableEq, Repr, Inhabited

/-- `HashMap::insert` on the association list: replace the entry of the same name, else append -/
def tabInsert (s : Sym) : List Sym → List Sym
  | [] => [s]
  | t :: rest => if t.name = s.name then s :: rest else t :: tabInsert s rest

/-- `SymbolTab::new`: collect the entries (in symbol-table order) into the map -/
def tabNew (entries : List Sym) : List Sym :=
  entries.foldl (fun t s => tabInsert s t) []

/-- `DebugInformation` of one object file, as far as names are concerned -/
structure Obj where
  file : String
  /-- `units.is_some()`: the object has at least one DWARF unit -/
  hasDwarf : Bool
  /-- entries of `.symtab` in table order; `none` = the section is absent or empty (`symbol_table()` = `None`) -/
  symtab : Option (List Sym)
  /-- entries of `.dynsym`; the implementation never reads them (they belong to the specification only) -/
  dynsym : List Sym := []
deriving Repr, Inhabited

/-- field `symbol_table: Option<SymbolTab>` -/
def Obj.table (o : Obj) : Option (List Sym) := o.symtab.map tabNew

/-- `SymbolTab::find` -/
def tabFind (p : String → Bool) (t : List Sym) : List Sym := t.filter fun s => p s.name

/-- `DebugInformation::find_symbols` -/
def Obj.findSymbols (p : String → Bool) (o : Obj) : List Sym :=
  match o.table with
  | some t => tabFind p t
  | none => []

/-- `Debugger::get_symbols` over the objects of the registry (`debug_info_all()`), in registry order -/
def getSymbols (objs : List Obj) (p : String → Bool) : List Sym :=
  objs.flatMap (Obj.findSymbols p)

/-! ### the registry: `files: HashMap<PathBuf, DebugInformation>`

`DebugInformationBuilder::build` computes `symbol_table` once, when the object is loaded; `Entry` is the object
together with that field, and `getSymbolsE` is `get_symbols` reading the stored field. -/

structure Entry where
  obj : Obj
  table : Option (List Sym)
deriving Repr, Inhabited

/-- `DebugInformationBuilder::build` -/
def load (o : Obj) : Entry := ⟨o, o.table⟩

def Entry.findSymbols (p : String → Bool) (e : Entry) : List Sym :=
  match e.table with
  | some t => tabFind p t
  | none => []

def getSymbolsE (es : List Entry) (p : String → Bool) : List Sym :=
  es.flatMap (Entry.findSymbols p)

def regAddE (e : Entry) : List Entry → List Entry
  | [] => [e]
  | x :: rest => if x.obj.file = e.obj.file then e :: rest else x :: regAddE e rest

def regRemoveE (file : String) (es : List Entry) : List Entry := es.filter fun x => x.obj.file ≠ file

/-- `DwarfRegistry::add` (`HashMap::insert`: an object of the same path is replaced) -/
def regAdd (o : Obj) : List Obj → List Obj
  | [] => [o]
  | x :: rest => if x.file = o.file then o :: rest else x :: regAdd o rest

/-- `DwarfRegistry::remove` -/
def regRemove (file : String) (objs : List Obj) : List Obj := objs.filter fun x => x.file ≠ file

/-! ### specification side -/

/-- names of the object's `.symtab` -/
def Obj.symtabNames (o : Obj) : List String := (o.symtab.getD []).map (·.name)

/-- names of all ELF symbols of the object (`.symtab` and `.dynsym`) -/
def Obj.elfNames (o : Obj) : List String := o.symtabNames ++ o.dynsym.map (·.name)

/-- the entry of name `n` a reader of the table sees: the last one -/
def lastNamed (n : String) (entries : List Sym) : Option Sym :=
  entries.reverse.find? fun s => s.name = n

/-! ### a small regex class evaluated by the model: alternation of anchored / unanchored literals
`^lit$`, `^lit`, `lit$`, `lit`, joined by `|`.  The implementation receives the rendered regex (literals escaped). -/

structure Alt where
  anchorStart : Bool
  anchorEnd : Bool
  lit : List Char
deriving Repr

def isInfixChars (l : List Char) : List Char → Bool
  | [] => l.isEmpty
  | c :: cs => l.isPrefixOf (c :: cs) || isInfixChars l cs

def Alt.matches (a : Alt) (s : List Char) : Bool :=
  match a.anchorStart, a.anchorEnd with
  | true, true => s == a.lit
  | true, false => a.lit.isPrefixOf s
  | false, true => a.lit.isSuffixOf s
  | false, false => isInfixChars a.lit s

def patMatches (alts : List Alt) (name : String) : Bool :=
  alts.any fun a => a.matches name.toList

end BsVerif.Symbols
