import BsVerif.Core.Mem
import BsVerif.Gen.CallAbi
/-!
Model of `Debugger::call` (src/debugger/call/mod.rs) for one stopped thread (DESIGN 2.1 extended with
`mmap`/`munmap` and an arbitrary callee):

* `liter_to_arg_bin_repr`, `CallArgs::new`, `CallArgs::prepare_registers` (System V register order from
  `get_reg_for_no`, table re-read from the source: `Gen/CallAbi.lean`),
* `CallContext::{new, retrieve_original_state, with_ccx}`, `CallHelper::{mmap, jump, call_fn, munmap}`,
  `Debugger::{call_fn_raw, with_disabled_brkpts}` as a sequence of ptrace requests, EVERY ONE of which can fail
  (`World.fails`), with the code's error propagation (`?`) and its `expect`s (outcome `panic`),
* the kernel/CPU side of the trampoline: a single step over `syscall` (only the two system calls the debugger
  injects), over `jmp *%rax`, a `cont` over `call *%rax; int3` with an ARBITRARY callee effect `World.callee`.
  Anything else the CPU would be asked to execute sets `wild` (theorems exclude it).

Words are naturals (`/`, `%`), memory is byte granular (`Core/Mem.lean`); unmapped memory reads as 0, a fresh
anonymous page is zero-filled, `munmap` makes it read as 0 again.
-/
namespace BsVerif.Call
open BsVerif.Mem BsVerif.Gen.CallAbi

abbrev RegFile := Nat → Nat          -- index = position in `enum Register`
def RegFile.set (r : RegFile) (i v : Nat) : RegFile := fun j => if j = i then v else r j
/-- a run of `regs.update(reg, value)` -/
def setMany (r : RegFile) : List (Nat × Nat) → RegFile
  | [] => r
  | (i, v) :: rest => setMany (r.set i v) rest

def W64 : Nat := 18446744073709551616

/-! ### literals → argument registers -/
inductive Enc | signed | unsigned | signedChar | unsignedChar | boolean | other
deriving DecidableEq, Repr
/-- what `liter_to_arg_bin_repr` looks at in a `TypeDeclaration` -/
inductive Ty
  | scalar (enc : Option Enc) (size : Option Nat)
  | pointer
  | other
deriving DecidableEq, Repr
inductive Lit
  | int (v : Int)          -- `Literal::Int(i64)`
  | bool (b : Bool)
  | addr (a : Nat)
  | str | float | enumv | array | assoc
deriving DecidableEq, Repr
inductive CErr
  | argCount | tooMany | unsupLit | unkType | litCast | unsupArg | notFound | mmap | munmap | jmp | ptrace | notStarted
deriving DecidableEq, Repr

/-- `*val as iN as uN` (or `as uN`) written little-endian into a zeroed 8-byte buffer -/
def truncTo (v : Int) (bytes : Nat) : Nat := (v % ((2 ^ (8 * bytes) : Nat) : Int)).toNat

def literToArg (l : Lit) (t : Ty) : Except CErr Nat :=
  match l with
  | .str => .error .unsupLit
  | .int v =>
    match t with
    | .scalar enc size =>
      match enc with
      | none => .error .unkType
      | some .signedChar => .ok (truncTo v 1)
      | some .unsignedChar => .ok (truncTo v 1)
      | some .signed | some .unsigned =>
        match size.getD 0 with
        | 1 => .ok (truncTo v 1)
        | 2 => .ok (truncTo v 2)
        | 4 => .ok (truncTo v 4)
        | 8 => .ok (truncTo v 8)
        | _ => .error .unsupArg
      | some _ => .error .litCast
    | _ => .error .litCast
  | .float => .error .unsupLit
  | .addr a => match t with
    | .pointer => .ok a
    | _ => .error .litCast
  | .bool b => match t with
    | .scalar (some .boolean) _ => .ok (if b then 1 else 0)
    | _ => .error .litCast
  | .enumv => .error .unsupLit
  | .array => .error .unsupLit
  | .assoc => .error .unsupLit

def convAll : List (Lit × Ty) → Except CErr (List Nat)
  | [] => .ok []
  | (l, t) :: rest =>
    match literToArg l t with
    | .error e => .error e
    | .ok v => match convAll rest with
      | .error e => .error e
      | .ok vs => .ok (v :: vs)

/-- `CallArgs::new` -/
def callArgs (lits : List Lit) (params : List Ty) : Except CErr (List Nat) :=
  if lits.length ≠ params.length then .error .argCount
  else if lits.length > 6 then .error .tooMany
  else convAll (lits.zip params)

/-- `CallArgs::prepare_registers` -/
def prepare (r : RegFile) (args : List Nat) : RegFile := setMany r (argRegs.zip args)

/-! ### the stopped thread, its address space, the environment -/
inductive Op | peek | poke | getregs | setregs | step | cont
deriving DecidableEq, Repr

structure Tracee where
  regs : RegFile
  mem : Code
  pages : List Addr := []                    -- pages mapped through the injected `mmap`
  entered : List (Addr × List Nat) := []     -- ghost: every function entered through the trampoline: (address, argument registers)
  wild : Bool := false                       -- the CPU was asked to execute something that is not the trampoline

structure World where
  fails : Op → Nat → Bool      -- does the i-th (0-based) ptrace request of this kind fail?
  mmapRes : Nat                -- what the kernel answers to the injected mmap (an address, or -errno)
  callee : Tracee → Tracee     -- the called function, from its first instruction to its `ret` (arbitrary)
  reach : List Addr := []      -- addresses of the code bytes the called function executes
  orig : Code := fun _ => 0    -- the original code at those addresses

def inPage (p a : Addr) : Bool := p ≤ a && a < p + PAGE_SIZE
def isErrno (v : Nat) : Bool := W64 - 4095 ≤ v

/-- `syscall` exit: result in rax, rcx := return address, r11 := rflags -/
def syscallRet (t : Tracee) (res : Nat) : RegFile :=
  (((t.regs.set Rax res).set Rcx (t.regs Rip + 2)).set R11 (t.regs Eflags)).set Rip (t.regs Rip + 2)

/-- PTRACE_SINGLESTEP + waitpid -/
def cpuStep (W : World) (t : Tracee) : Tracee :=
  let w := peek t.mem (t.regs Rip)
  if w % 65536 = SYSCALL then
    if t.regs Rax = MMAP then
      if t.regs Rdi = 0 ∧ t.regs Rsi = PAGE_SIZE ∧ t.regs Rdx = PROT ∧ t.regs R10 = FLAGS
          ∧ t.regs R8 = W64 - 1 ∧ t.regs R9 = 0 then
        if isErrno W.mmapRes then { t with regs := syscallRet t W.mmapRes }
        else { t with regs := syscallRet t W.mmapRes, pages := W.mmapRes :: t.pages,
                      mem := fun a => if inPage W.mmapRes a then 0 else t.mem a }
      else { t with wild := true }
    else if t.regs Rax = MUNMAP then
      if t.regs Rsi = PAGE_SIZE ∧ t.regs Rdi ∈ t.pages then
        { t with regs := syscallRet t 0, pages := t.pages.erase (t.regs Rdi),
                 mem := fun a => if inPage (t.regs Rdi) a then 0 else t.mem a }
      else { t with regs := syscallRet t (W64 - 22) }
    else { t with wild := true }
  else if w % 65536 = JMP_RAX then { t with regs := t.regs.set Rip (t.regs Rax) }
  else { t with wild := true }

/-- PTRACE_CONT + waitpid: `call *%rax` pushes the return address and enters the callee; the callee returns
(assumption: no signal, no exit, breakpoints are disabled) onto the `int3` that follows.
`atEntry` = the thread at the callee's first instruction. -/
def atEntry (t : Tracee) : Tracee :=
  { t with
    regs := (t.regs.set Rsp (t.regs Rsp - 8)).set Rip (t.regs Rax),
    mem := poke t.mem (t.regs Rsp - 8) (t.regs Rip + 2),
    entered := t.entered ++ [(t.regs Rax, argRegs.map t.regs)] }

def cpuCont (W : World) (t : Tracee) : Tracee :=
  if peek t.mem (t.regs Rip) % 16777216 = CALL_FN then
    let t2 := W.callee (atEntry t)
    { t2 with regs := t2.regs.set Rip (t.regs Rip + 3) }
  else { t with wild := true }

/-- the callee would execute a byte that is not its original code (the debugger's own patch at the stop pc is still in
place while the callee runs): it does not return onto the `int3`; the thread stops somewhere else with some signal -/
def runsPatched (W : World) (t : Tracee) : Bool := W.reach.any fun a => (atEntry t).mem a != W.orig a

/-! ### the debugger side -/
structure Bp where
  addr : Addr
  saved : Nat := 0
  enabled : Bool := true

inductive Ev
  | peek (a : Addr) (ok : Bool)
  | poke (a : Addr) (w : Nat) (ok : Bool)
  | getregs (ok : Bool)
  | setregs (r : RegFile) (ok : Bool)
  | step (ok : Bool)
  | cont (ok : Bool)

structure Dbg where
  t : Tracee
  bps : List Bp := []
  cnt : Op → Nat := fun _ => 0
  log : List Ev := []

inductive Res (α : Type) | ok (a : α) | err (e : CErr) | panic
deriving DecidableEq

def M (α : Type) := Dbg → Res α × Dbg

def M.pure {α} (a : α) : M α := fun d => (.ok a, d)
def M.bind {α β} (m : M α) (f : α → M β) : M β := fun d =>
  match m d with
  | (.ok a, d') => f a d'
  | (.err e, d') => (.err e, d')
  | (.panic, d') => (.panic, d')
instance : Monad M where
  pure := M.pure
  bind := M.bind

def fail {α} (e : CErr) : M α := fun d => (.err e, d)

def bump (d : Dbg) (k : Op) : Dbg := { d with cnt := fun k' => if k' = k then d.cnt k + 1 else d.cnt k' }
def emit (d : Dbg) (e : Ev) : Dbg := { d with log := d.log ++ [e] }

def peekOp (W : World) (a : Addr) : M Nat := fun d =>
  if W.fails .peek (d.cnt .peek) then (.err .ptrace, emit (bump d .peek) (.peek a false))
  else (.ok (peek d.t.mem a), emit (bump d .peek) (.peek a true))

def pokeOp (W : World) (a : Addr) (w : Nat) : M Unit := fun d =>
  if W.fails .poke (d.cnt .poke) then (.err .ptrace, emit (bump d .poke) (.poke a w false))
  else (.ok (), emit { bump d .poke with t := { d.t with mem := poke d.t.mem a w } } (.poke a w true))

def getregsOp (W : World) : M RegFile := fun d =>
  if W.fails .getregs (d.cnt .getregs) then (.err .ptrace, emit (bump d .getregs) (.getregs false))
  else (.ok d.t.regs, emit (bump d .getregs) (.getregs true))

def setregsOp (W : World) (r : RegFile) : M Unit := fun d =>
  if W.fails .setregs (d.cnt .setregs) then (.err .ptrace, emit (bump d .setregs) (.setregs r false))
  else (.ok (), emit { bump d .setregs with t := { d.t with regs := r } } (.setregs r true))

def stepOp (W : World) : M Unit := fun d =>
  if W.fails .step (d.cnt .step) then (.err .ptrace, emit (bump d .step) (.step false))
  else (.ok (), emit { bump d .step with t := cpuStep W d.t } (.step true))

/-- `sys::ptrace::cont` + `waitpid` + `debug_assert!(res == Stopped(SIGTRAP))` (the harness builds with debug assertions) -/
def contOp (W : World) : M Unit := fun d =>
  if W.fails .cont (d.cnt .cont) then (.err .ptrace, emit (bump d .cont) (.cont false))
  else if runsPatched W d.t then (.panic, emit { bump d .cont with t := { atEntry d.t with wild := true } } (.cont true))
  else (.ok (), emit { bump d .cont with t := cpuCont W d.t } (.cont true))

/-- `CallContext` -/
structure Ccx where
  pc : Addr
  regs : RegFile
  text : Nat

/-- `(text & 0xFFFFFFFFFFFF0000) | p` for `p < 65536` -/
def patch2 (text p : Nat) : Nat := text - text % 65536 + p

/-- `CallContext::new` -/
def ccxNew (W : World) (pc : Addr) : M Ccx := do
  let text ← peekOp W pc
  let regs ← getregsOp W
  pure ⟨pc, regs, text⟩

/-- `CallHelper::mmap` -/
def mmapH (W : World) (c : Ccx) : M Nat := do
  setregsOp W (setMany c.regs mmapRegs)
  pokeOp W c.pc (patch2 c.text SYSCALL)
  stepOp W
  let r ← getregsOp W
  if r Rax = W64 - 1 then fail .mmap else pure (r Rax)

/-- `CallHelper::jump` -/
def jumpH (W : World) (c : Ccx) (dest : Nat) : M Unit := do
  setregsOp W (c.regs.set Rax dest)
  pokeOp W c.pc (patch2 c.text JMP_RAX)
  stepOp W
  let r ← getregsOp W
  if r Rip ≠ dest then fail .jmp else pure ()

/-- `CallHelper::call_fn` -/
def callTramp (W : World) (c : Ccx) (rip fnAddr : Nat) (args : List Nat) : M Unit := do
  pokeOp W rip CALL_FN
  setregsOp W (((prepare c.regs args).set Rax fnAddr).set Rip rip)
  contOp W

/-- `CallHelper::munmap` -/
def munmapH (W : World) (c : Ccx) (addr : Nat) : M Unit := do
  pokeOp W c.pc (patch2 c.text SYSCALL)
  setregsOp W (setMany c.regs (munmapRegs addr))
  stepOp W
  let r ← getregsOp W
  if r Rax ≠ 0 then fail .munmap else pokeOp W c.pc c.text

/-- `CallContext::with_ccx`: run the body, then `retrieve_original_state().expect(..)` whatever the body answered -/
def withCcx {α} (W : World) (c : Ccx) (m : M α) : M α := fun d =>
  match m d with
  | (.panic, d1) => (.panic, d1)
  | (r, d1) =>
    match setregsOp W c.regs d1 with
    | (.ok _, d2) =>
      match pokeOp W c.pc c.text d2 with
      | (.ok _, d3) => (r, d3)
      | (_, d3) => (.panic, d3)
    | (_, d2) => (.panic, d2)

/-- the closure of `call_fn_raw` -/
def callBody (W : World) (c : Ccx) (fnAddr : Nat) (args : List Nat) : M Unit := do
  let p ← mmapH W c
  jumpH W c p
  callTramp W c p fnAddr args
  setregsOp W c.regs
  munmapH W c p

/-- `Debugger::call_fn_raw` -/
def callFnRaw (W : World) (pc : Addr) (fnAddr : Nat) (args : List Nat) : M Unit := do
  let c ← ccxNew W pc
  withCcx W c (callBody W c fnAddr args)

/-! ### breakpoints around the call -/
def findBp (l : List Bp) (a : Addr) : Option Bp := l.find? (·.addr == a)
def setBp (l : List Bp) (b : Bp) : List Bp := l.map fun x => if x.addr == b.addr then b else x
def updBp (b : Bp) : M Unit := fun d => (.ok (), { d with bps := setBp d.bps b })

/-- `Breakpoint::disable` -/
def bpDisable (W : World) (a : Addr) : M Unit := fun d =>
  match findBp d.bps a with
  | none => (.ok (), d)
  | some b => (do
      let w ← peekOp W a
      pokeOp W a (replaceLow w b.saved)
      updBp { b with enabled := false }) d

/-- `Breakpoint::enable` -/
def bpEnable (W : World) (a : Addr) : M Unit := fun d =>
  match findBp d.bps a with
  | none => (.ok (), d)
  | some b => (do
      let w ← peekOp W a
      updBp { b with saved := w % 256 }
      pokeOp W a (replaceLow w 0xCC)
      updBp { b with saved := w % 256, enabled := true }) d

def forEach (f : Addr → M Unit) : List Addr → M Unit
  | [] => pure ()
  | a :: rest => do f a; forEach f rest

/-- `Debugger::with_disabled_brkpts`; `dorder` / `eorder` = the two walks over `active_breakpoints()` (HashMap order) -/
def withDisabled (W : World) (dorder eorder : List Addr) (f : M Unit) : M Unit := fun d =>
  match forEach (bpDisable W) dorder d with
  | (.ok _, d1) =>
    (match f d1 with
     | (.panic, d2) => (.panic, d2)
     | (r, d2) =>
       match forEach (bpEnable W) eorder d2 with
       | (.ok _, d3) => (r, d3)
       | (_, d3) => (.panic, d3))
  | (.err e, d1) => (.err e, d1)
  | (.panic, d1) => (.panic, d1)

/-- `Debugger::call` on a started debuggee; `fn` = what the call cache answers for the name -/
def callCmd (W : World) (fn : Option (Addr × List Ty)) (lits : List Lit) (pc : Addr) (dorder eorder : List Addr) : M Unit :=
  withDisabled W dorder eorder
    (match fn with
     | none => fail .notFound
     | some (fnAddr, params) =>
       match callArgs lits params with
       | .error e => fail e
       | .ok args => callFnRaw W pc fnAddr args)

/-- the world in which no ptrace request fails -/
def noFaults (page : Nat) (callee : Tracee → Tracee) : World := { fails := fun _ _ => false, mmapRes := page, callee := callee }

end BsVerif.Call
