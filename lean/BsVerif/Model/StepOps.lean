import BsVerif.Model.Breakpoint
/-!
Model of the bookkeeping of the step commands (C02): temporary breakpoints, the tracer's rule for
non-temporary hits while temporaries exist, `single_step_instruction`, and the common shape of `step_over_any`
and `step_out_frame` (src/debugger/step.rs):

    add temporaries (statement rows of the function and/or the return address) that are not yet breakpoints
    → continue_execution → remove every temporary that was added → possibly finish with `step_in` single steps.

*Where* the temporaries go is the line-table question of C03/C04; here the set is a parameter (`temps`), so the
theorems of C02 hold for every choice.
-/
namespace BsVerif.Bp
open BsVerif.Mem

def hasTemp (l : List Bp) : Bool := l.any (·.kind == Kind.temp)

/-- tracer.rs `apply_new_status`, TRAP_BRKPT with temporaries present and a non-temporary hit: the tracer clones the
breakpoint, disables the clone, single-steps, enables the clone and reports nothing.  The registry entry itself is
untouched (its `Cell`s are cloned), the text is patched consistently. -/
def silentStepOver (s : St) (b : Bp) : St :=
  if b.enabled then
    let (s1, b1) := bpDisable s b
    let s2 := singleStep s1
    (bpEnable s2 b1).1
  else s

/-- `continue_execution`'s loop with the temporary-breakpoint rule of the tracer -/
def traceLoopT : Nat → St → St × Out
  | 0, s => (s, .outOfFuel)
  | fuel + 1, s =>
    let s1 := run s
    match pc s1 with
    | none => (onExit s1, .exit s1.exitCode)
    | some p =>
      match find? s1.active p with
      | none => (s1, .corrupt)
      | some b =>
        if hasTemp s1.active && b.kind != Kind.temp then
          traceLoopT fuel (silentStepOver s1 b)
        else
          match b.kind with
          | .user => (s1, .stop p)
          | .temp => (s1, .stop p)
          | .entry => traceLoopT fuel (stepOverBreakpoint (enableAll s1))

/-- `continue_execution` -/
def continueExec (s : St) : St × Out := traceLoopT (fuelFor s) (stepOverBreakpoint s)

/-- `single_step_instruction` -/
def singleStepInstruction (s : St) : St :=
  match pc s with
  | none => s
  | some p => if (find? s.active p).isSome then stepOverBreakpoint s else singleStep s

def stepN : Nat → St → St
  | 0, s => s
  | k + 1, s => stepN k (singleStepInstruction s)

/-- add the temporaries, continue, remove them, then `k` single steps (the `step_in` tail of `step_over_any`) -/
def tempRun (s : St) (temps : List Addr) (k : Nat) : St × Out :=
  let s1 := temps.foldl (fun acc a => addAndEnable acc { addr := a, kind := .temp }) s
  let (s2, o) := continueExec s1
  let s3 := temps.foldl (fun acc a => (removeByAddr acc { global := false, addr := a }).1) s2
  match o with
  | .stop _ => (stepN k s3, o)
  | _ => (s3, o)

inductive SOp
  | base (op : Op)
  | stepn (k : Nat)                       -- `stepi` (k = 1) and `step` (k single steps)
  | tempRun (temps : List Addr) (k : Nat) -- `next`, `finish`
deriving Repr

inductive SOut
  | base (o : Out)
  | done (pc : Option Addr)
deriving Repr

def execS (s : St) (op : SOp) : St × SOut :=
  match op with
  | .base op =>
    -- `continue` goes through the temporary-aware loop as well (no temporaries ⇒ same as `exec`)
    match op with
    | .cont =>
      let s := { s with pokes := [] }
      match s.status with
      | .inProgress => let (s', o) := continueExec s; (s', .base o)
      | _ => (s, .base .err)
    | _ => let (s', o) := exec s op; (s', .base o)
  | .stepn k =>
    let s := { s with pokes := [] }
    match s.status with
    | .inProgress => let s' := stepN k s; (s', .done (pc s'))
    | _ => (s, .base .err)
  | .tempRun temps k =>
    let s := { s with pokes := [] }
    match s.status with
    | .inProgress =>
      let (s', o) := tempRun s temps k
      match o with
      | .stop _ => (s', .done (pc s'))
      | o => (s', .base o)
    | _ => (s, .base .err)

end BsVerif.Bp
