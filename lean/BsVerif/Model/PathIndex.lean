/-!
Model of `PathSearchIndex<T>` (src/debugger/debugee/dwarf/utils.rs).

The Rust structure keeps
* `heads : HashMap<Symbol, (Vec<usize>, u64)>` — per last component: the indices of its tails, and a nonce,
* `tails : Vec<Vec<Symbol>>`                    — one entry per inserted path (everything but the last component),
* `data  : HashMap<(u64, usize), T>`            — value per (nonce of the head, index of the tail).

Interned symbols are modelled by the strings themselves (equal symbols ⇔ equal strings; this is the
string-interner's contract and is part of what the correspondence run samples).  Hash maps are modelled
by association lists with replace-or-append insertion; `get` never iterates a map, so iteration order is
not observable.
-/
namespace BsVerif.PathIndex

/-! association lists -/
def alookup {κ ν} [BEq κ] (k : κ) : List (κ × ν) → Option ν
  | [] => none
  | (k', v) :: rest => if k' == k then some v else alookup k rest

def ainsert {κ ν} [BEq κ] (k : κ) (v : ν) : List (κ × ν) → List (κ × ν)
  | [] => [(k, v)]
  | (k', v') :: rest => if k' == k then (k, v) :: rest else (k', v') :: ainsert k v rest

structure Index (α : Type) where
  nextNonce : Nat := 0
  heads : List (String × (List Nat × Nat)) := []
  tails : List (List String) := []
  data  : List ((Nat × Nat) × α) := []

def Index.empty {α} : Index α := {}

/-- `insert_w_head(path, head, value)` -/
def Index.insertWHead {α} (ix : Index α) (tail : List String) (head : String) (v : α) : Index α :=
  let tails := ix.tails ++ [tail]
  let tailIdx := ix.tails.length            -- `index.tails.len() - 1` after the push
  match alookup head ix.heads with
  | some (idxs, nonce) =>
    { ix with tails := tails,
              heads := ainsert head (idxs ++ [tailIdx], nonce) ix.heads,
              data := ainsert (nonce, tailIdx) v ix.data }
  | none =>
    { nextNonce := ix.nextNonce + 1,
      tails := tails,
      heads := ainsert head ([tailIdx], ix.nextNonce) ix.heads,
      data := ainsert (ix.nextNonce, tailIdx) v ix.data }

/-- `insert(path, value)`: an empty path is ignored. -/
def Index.insert {α} (ix : Index α) (path : List String) (v : α) : Index α :=
  match path.getLast? with
  | none => ix
  | some head => ix.insertWHead path.dropLast head v

/-- `slice::ends_with` -/
def endsWith (l suffix : List String) : Bool :=
  suffix.length ≤ l.length && l.drop (l.length - suffix.length) == suffix

/-- the part of `get` after the needle has been split into components
    (`expected_tail`, `expected_head`). -/
def Index.getComps {α} (ix : Index α) (etail : List String) (ehead : String) : List α :=
  match alookup ehead ix.heads with
  | none => []
  | some (idxs, nonce) =>
    (idxs.filter fun i => endsWith (ix.tails.getD i []) etail).filterMap fun i =>
      alookup (nonce, i) ix.data

/-! `str::split(delimiter)` for a non-empty delimiter: leftmost, non-overlapping matches. -/
def isPrefixChars : List Char → List Char → Bool
  | [], _ => true
  | _ :: _, [] => false
  | a :: as, b :: bs => a == b && isPrefixChars as bs

def splitAux (delim : List Char) (fuel : Nat) (s : List Char) (cur : List Char) : List (List Char) :=
  match fuel with
  | 0 => [cur.reverse]
  | fuel + 1 =>
    match s with
    | [] => [cur.reverse]
    | c :: cs =>
      if isPrefixChars delim s then cur.reverse :: splitAux delim fuel (s.drop delim.length) []
      else splitAux delim fuel cs (c :: cur)

def splitStr (s delim : String) : List String :=
  if delim.isEmpty then [s] else
  (splitAux delim.toList (s.length + 1) s.toList []).map String.ofList

/-- the needle → components step of `get`, including the leading-delimiter rule. -/
def needleComps (delim needle : String) : List String :=
  if needle.startsWith delim then delim :: (splitStr needle delim).drop 1
  else splitStr needle delim

/-- `get(needle)` -/
def Index.get {α} (ix : Index α) (delim needle : String) : List α :=
  let comps := needleComps delim needle
  match comps.getLast? with
  | none => []
  | some ehead => ix.getComps comps.dropLast ehead

/-! ### specification: the index is a log of (path, value) pairs queried by component suffix -/

abbrev Log (α : Type) := List (List String × String × α)     -- (tail, head, value), in insertion order

def Log.build {α} (log : Log α) : Index α :=
  log.foldl (fun ix e => ix.insertWHead e.1 e.2.1 e.2.2) Index.empty

/-- the needle's components are a suffix of `tail ++ [head]` -/
def suffixMatch (etail : List String) (ehead : String) (tail : List String) (head : String) : Bool :=
  head == ehead && endsWith tail etail

def Log.query {α} (log : Log α) (etail : List String) (ehead : String) : List α :=
  (log.filter fun e => suffixMatch etail ehead e.1 e.2.1).map fun e => e.2.2

end BsVerif.PathIndex
