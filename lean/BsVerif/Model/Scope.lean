/-!
C19 — executable model of how BugStalker decides which variables are in scope, which binding a name
denotes, which location-list entry describes a variable at a pc, and which machine register a DWARF
register number denotes.  Mirrors (core Lean only, linked into `bsmodel`):

* `src/debugger/debugee/dwarf/unit/die.rs`      `for_each_children_recursive_t` (queue-based BFS: pop the front DIE,
                                                 visit ALL its children in order, push each of them);
* `src/debugger/debugee/dwarf/unit/die_ref.rs`  `FatDieRef<Variable>::ranges` (walk up the parent index to the nearest
                                                 `DW_TAG_lexical_block`/`DW_TAG_subprogram`), `valid_at` (`unwrap_or(true)`),
                                                 `local_variables` (every valid `DW_TAG_variable` of the subtree, BFS order),
                                                 `local_variable` (LAST valid one with the name in BFS order), `parameters`
                                                 (direct children that are `DW_TAG_formal_parameter`);
* `src/debugger/address.rs`                      `in_range` (`begin <= pc < end`), `in_ranges`;
* `src/debugger/debugee/dwarf/location.rs`       `try_as_expression` (exprloc, else FIRST list entry with
                                                 `begin <= pc && pc < end` — half open);
* `src/debugger/register.rs`                     `dwarf_register`, `From<gimli::Register>`, `DwarfRegisterMap::from`
                                                 (a sequence of `SmallVec::insert`, i.e. shifting inserts) — the tables
                                                 themselves are re-extracted from the source on every run (`Gen/Dwregs.lean`);
* `src/debugger/mod.rs`                          `ExplorationContext::lookup_pc` (the pc the scope filter and the location-list
                                                 selection use: the pc in frame 0, return address − 1 in outer frames);
* `src/debugger/debugee/dwarf/unwind.rs`         `UnwindContext::next` (`rsp` of the caller := CFA of the callee) as far as the
                                                 stack pointer of the selected frame is concerned.
-/
namespace BsVerif.Scope

/-! ## DIE trees -/

inductive Tag | subprogram | block | inlined | variable | param | other
  deriving DecidableEq, Repr, Inhabited

structure Range where
  lo : Nat
  hi : Nat
  deriving DecidableEq, Repr, Inhabited

/-- `GlobalAddress::in_range`: half open -/
def Range.contains (r : Range) (pc : Nat) : Bool := decide (r.lo ≤ pc) && decide (pc < r.hi)

/-- `GlobalAddress::in_ranges` -/
def inRanges (rs : List Range) (pc : Nat) : Bool := rs.any (·.contains pc)

structure Info where
  id : Nat                    -- offset of the DIE in its unit
  tag : Tag
  name : Option Nat := none   -- `DW_AT_name` (the bytes of the name read as a big-endian number), if present
  ranges : List Range := []   -- `Die::ranges()`: low/high pc or DW_AT_ranges; empty when the DIE has none
  deriving DecidableEq, Repr, Inhabited

inductive Die
  | node (info : Info) (children : List Die)
  deriving Repr, Inhabited

def Die.info : Die → Info | .node i _ => i
def Die.children : Die → List Die | .node _ cs => cs

mutual
def Die.size : Die → Nat
  | .node _ cs => 1 + sizeList cs
def sizeList : List Die → Nat
  | [] => 0
  | d :: ds => d.size + sizeList ds
end

/-- ancestors of a DIE inside the function's subtree, innermost first (what walking up `parent_index` yields) -/
abbrev Path := List Info

def Info.isScope (i : Info) : Bool := i.tag == Tag.block || i.tag == Tag.subprogram

/-- `FatDieRef<Variable>::ranges`: ranges of the nearest enclosing lexical block / subprogram -/
def walkUp (p : Path) : Option (List Range) :=
  match p.find? Info.isScope with
  | some i => some i.ranges
  | none => none

/-- `valid_at` -/
def validAt (p : Path) (pc : Nat) : Bool :=
  match walkUp p with
  | some rs => inRanges rs pc
  | none => true

abbrev Entry := Path × Die

def qsize : List Entry → Nat
  | [] => 0
  | e :: es => e.2.size + qsize es

/-- `for_each_children_recursive_t`: the visiting order.  Queue of DIEs; pop the front one, visit all its children
    (in order), push them to the back.  Fuel = total size of the queue (one unit is consumed per popped DIE). -/
def bfsAux : Nat → List Entry → List Entry
  | 0, _ => []
  | _ + 1, [] => []
  | n + 1, (p, .node i cs) :: rest =>
    let kids : List Entry := cs.map fun d => (i :: p, d)
    kids ++ bfsAux n (rest ++ kids)

/-- every proper descendant of `f` with its ancestor path, in the order the implementation visits them -/
def bfs (f : Die) : List Entry := bfsAux f.size [([], f)]

def isValidVar (pc : Nat) (e : Entry) : Bool := e.2.info.tag == Tag.variable && validAt e.1 pc

/-- `FatDieRef<Function>::local_variables(pc)` -/
def localVariables (f : Die) (pc : Nat) : List Entry := (bfs f).filter (isValidVar pc)

def isCandidate (pc : Nat) (needle : Nat) (e : Entry) : Bool :=
  e.2.info.tag == Tag.variable && (e.2.info.name == some needle && validAt e.1 pc)

/-- live bindings of the name at this pc, in traversal order -/
def candidates (f : Die) (pc : Nat) (needle : Nat) : List Entry := (bfs f).filter (isCandidate pc needle)

/-- `FatDieRef<Function>::local_variable(pc, needle)`: the whole subtree is walked, every match overwrites the
    result: the LAST match in BFS order -/
def localVariable (f : Die) (pc : Nat) (needle : Nat) : Option Entry := (candidates f pc needle).getLast?

/-- `ExplorationContext::lookup_pc`: the address at which lexical blocks and location lists are looked up for the
    selected frame `k` whose location is `pc`: the pc itself in frame 0; in an outer frame the location is a return
    address and `pc - 1` (saturating), an address inside the call instruction, is used -/
def lookupPc (k pc : Nat) : Nat := if k = 0 then pc else pc - 1

/-- `FatDieRef<Function>::parameters` (direct children only, no pc filter) -/
def parameters (f : Die) : List Info := (f.children.map Die.info).filter (·.tag == Tag.param)

/-- `param_die_by_selector(Selector::Name)` -/
def parametersNamed (f : Die) (needle : Nat) : List Info := (parameters f).filter (·.name == some needle)

/-! ### declarative counterpart: all proper descendants, by structural (depth-first) recursion -/

mutual
def descP : Path → Die → List Entry
  | p, .node i cs => descPL (i :: p) cs
def descPL : Path → List Die → List Entry
  | _, [] => []
  | p, d :: ds => (p, d) :: (descP p d ++ descPL p ds)
end

/-! ## Location lists -/

/-- the few location expressions rustc emits for scalars at opt-level 0/1; everything else is `unsupported` -/
inductive Loc
  | reg (n : Nat)                 -- DW_OP_reg<n>: the value IS the register
  | breg (n : Nat) (off : Int)    -- DW_OP_breg<n> off: the value is in memory at reg + off
  | bregVal (n : Nat) (off : Int) -- DW_OP_breg<n> off, DW_OP_stack_value
  | fbreg (off : Int)             -- DW_OP_fbreg off: memory at frame base + off
  | const (v : Nat)               -- DW_OP_lit/const.., DW_OP_stack_value
  | unsupported
  deriving DecidableEq, Repr, Inhabited

structure LocEntry where
  lo : Nat
  hi : Nat
  loc : Loc
  deriving DecidableEq, Repr, Inhabited

inductive LocAttr
  | expr (l : Loc)
  | list (es : List LocEntry)
  deriving Repr, Inhabited

/-- the test of `try_as_expression` as written: `begin <= pc && pc < end` -/
def LocEntry.hit (pc : Nat) (e : LocEntry) : Bool := decide (e.lo ≤ pc) && decide (pc < e.hi)

/-- what DWARF says (section 2.6.2): the entry covers `[lo, hi)` -/
def LocEntry.covers (pc : Nat) (e : LocEntry) : Bool := decide (e.lo ≤ pc) && decide (pc < e.hi)

def selectEntry (es : List LocEntry) (pc : Nat) : Option LocEntry := es.find? (LocEntry.hit pc)

def selectSpec (es : List LocEntry) (pc : Nat) : Option LocEntry := es.find? (LocEntry.covers pc)

/-- `Location::try_as_expression` -/
def select (a : LocAttr) (pc : Nat) : Option Loc :=
  match a with
  | .expr l => some l
  | .list es => (selectEntry es pc).map (·.loc)

/-! ## Registers -/

/-- `SmallVec::insert(idx, v)` on a vector that is long enough: everything from `idx` on moves up by one -/
def insertAt (xs : List (Option Nat)) (idx : Nat) (v : Option Nat) : List (Option Nat) :=
  xs.take idx ++ v :: xs.drop idx

/-- `DwarfRegisterMap::from(RegisterMap)`: `init` (0x80) `None`s, then the inserts in source order.
    `inserts` = (DWARF number, index of the `RegisterMap` field) pairs, `fields` = the field values. -/
def dwarfMapFrom (init : Nat) (inserts : List (Nat × Nat)) (fields : List Nat) : List (Option Nat) :=
  inserts.foldl (fun acc (p : Nat × Nat) => insertAt acc p.1 (fields[p.2]?)) (List.replicate init none)

/-- `DwarfRegisterMap::value` -/
def dwarfMapValue (m : List (Option Nat)) (n : Nat) : Option Nat := (m[n]?).join

/-- `Register::dwarf_register` over the extracted table (register index → DWARF number) -/
def toDwarf (table : List (Nat × Nat)) (r : Nat) : Option Nat := (table.find? (·.1 == r)).map (·.2)

/-- `From<gimli::Register> for Register` over the extracted arms (pattern as `i32` → register index);
    `none` = the `panic!("unknown dwarf register number")` arm.  The scrutinee is `value.0 as i32` of a `u16`,
    so it is never negative. -/
def fromDwarf (arms : List (Int × Nat)) (n : Nat) : Option Nat := (arms.find? (·.1 == (n : Int))).map (·.2)

/-! ## Reading a variable in the selected frame -/

/-- what the evaluator needs of the selected frame -/
structure FrameRegs where
  /-- DWARF-numbered register file of the frame, as far as it is known -/
  regs : List (Option Nat)
  deriving Repr, Inhabited

inductive ReadResult
  | addr (a : Nat)      -- the value lives in memory at this address
  | val (v : Nat)       -- the value itself (register / stack value)
  | noEntry             -- no location-list entry selected: nothing to show
  | unknownReg (n : Nat)
  | unsupported
  deriving DecidableEq, Repr, Inhabited

def addOff (base : Nat) (off : Int) : Nat := ((base : Int) + off).toNat % 2 ^ 64

/-- frame base is `DW_OP_reg<fb>` for every function rustc emits here (checked by the driver) -/
def evalLoc (fr : FrameRegs) (fb : Nat) : Loc → ReadResult
  | .reg n => match dwarfMapValue fr.regs n with | some v => .val v | none => .unknownReg n
  | .breg n off => match dwarfMapValue fr.regs n with | some v => .addr (addOff v off) | none => .unknownReg n
  | .bregVal n off => match dwarfMapValue fr.regs n with | some v => .val (addOff v off) | none => .unknownReg n
  | .fbreg off => match dwarfMapValue fr.regs fb with | some v => .addr (addOff v off) | none => .unknownReg fb
  | .const v => .val v
  | .unsupported => .unsupported

def readVar (fr : FrameRegs) (fb : Nat) (a : LocAttr) (pc : Nat) : ReadResult :=
  match select a pc with
  | some l => evalLoc fr fb l
  | none => .noEntry

/-- The register file this model decides for frame `k`: frame 0 = the thread's registers; for outer frames only the
    stack pointer (DWARF register 7), which `UnwindContext::next` sets to the CFA of the frame below (`cfas[k-1]`);
    the callee-saved registers of outer frames come from the CFI rules (C05's domain) and are left undecided here. -/
def frameRegs (regs0 : List (Option Nat)) (cfas : List Nat) : Nat → FrameRegs
  | 0 => { regs := regs0 }
  | k + 1 => { regs := (List.range 0x80).map fun n => if n == 7 then cfas[k]? else none }

/-- The register file the evaluator uses in frame `k` as far as the stack pointer goes: frame 0 = the thread's
    registers; `UnwindContext::next` sets `rsp` of every outer frame to the CFA of the frame below it.
    `cfas` = CFA of frame 0, 1, 2, … -/
def spOfFrame (sp0 : Nat) (cfas : List Nat) : Nat → Option Nat
  | 0 => some sp0
  | k + 1 => cfas[k]?

end BsVerif.Scope
