import BsVerif.Lemmas.Dap
/-! Thread announcements of the DAP session model: the thread-cache diff (`refresh_threads_with_events`),
the queue, `drain_events` and `emit_process_end` against the wire monitor `threadRun` (no Mathlib). -/
namespace BsVerif.Dap

def IEv.isThread : IEv → Bool
  | .ev (.threadStarted _) | .ev (.threadExited _) => true
  | _ => false

def IEv.isLife (e : IEv) : Bool := e.isExited || e.isTerminated

/-- effect of the thread events still queued on the set of announced threads (`none`: an exit of a thread
that is not announced, or a second start) -/
def applyQ : List Nat → List IEv → Option (List Nat)
  | live, [] => some live
  | live, .ev (.threadStarted t) :: r => if live.contains t then none else applyQ (t :: live) r
  | live, .ev (.threadExited t) :: r => if live.contains t then applyQ (live.filter (· != t)) r else none
  | live, _ :: r => applyQ live r

theorem applyQ_skip (e : IEv) (he : e.isThread = false) (live : List Nat) (r : List IEv) :
    applyQ live (e :: r) = applyQ live r := by
  cases e with
  | ev q => cases q <;> first | rfl | simp [IEv.isThread] at he
  | exited => rfl
  | terminated => rfl

theorem applyQ_noThread (q : List IEv) : ∀ live, (∀ e ∈ q, e.isThread = false) → applyQ live q = some live := by
  induction q with
  | nil => intro live _; rfl
  | cons e r ih =>
    intro live h
    rw [applyQ_skip e (h e (List.mem_cons_self ..))]
    exact ih live (fun x hx => h x (List.mem_cons_of_mem _ hx))

theorem applyQ_append (a b : List IEv) : ∀ live, applyQ live (a ++ b) = (applyQ live a).bind (fun l => applyQ l b) := by
  induction a with
  | nil => intro live; rfl
  | cons e r ih =>
    intro live
    cases e with
    | exited => simpa [applyQ] using ih live
    | terminated => simpa [applyQ] using ih live
    | ev q =>
      cases q <;> try (simpa [applyQ] using ih live)
      case threadStarted t =>
        simp only [List.cons_append, applyQ]
        split
        · rfl
        · exact ih _
      case threadExited t =>
        simp only [List.cons_append, applyQ]
        split
        · exact ih _
        · rfl

theorem threadRun_append (a c : List Item) : ∀ live,
    threadRun live (a ++ c) = (threadRun live a).bind (fun l => threadRun l c) := by
  induction a with
  | nil => intro live; rfl
  | cons i r ih =>
    intro live
    simp only [List.cons_append, threadRun]
    cases threadStep live i with
    | none => rfl
    | some l => exact ih l

/-- what `send_events` writes for a batch moves the monitor exactly as `applyQ` says -/
theorem threadRun_sendAll (q : List IEv) : ∀ live, threadRun live ((sendAll q).map Item.msg) = applyQ live q := by
  induction q with
  | nil => intro live; rfl
  | cons e r ih =>
    intro live
    cases e with
    | exited => simpa [sendAll, applyQ] using ih live
    | terminated => simpa [sendAll, applyQ] using ih live
    | ev q =>
      cases q <;> try (simpa [sendAll, applyQ, threadRun, threadStep] using ih live)
      case threadStarted t =>
        by_cases hc : t ∈ live <;> simp [sendAll, threadRun, threadStep, applyQ, hc, ih]
      case threadExited t =>
        by_cases hc : t ∈ live <;> simp [sendAll, threadRun, threadStep, applyQ, hc, ih]

/-- messages the thread monitor ignores -/
def Msg.noThread : Msg → Bool
  | .event (.q (.threadStarted _)) | .event (.q (.threadExited _)) | .event (.threadExitedAtEnd _) => false
  | _ => true

theorem threadRun_noThread (l : List Msg) : ∀ live, (∀ m ∈ l, m.noThread = true) → threadRun live (l.map Item.msg) = some live := by
  induction l with
  | nil => intro live _; rfl
  | cons m r ih =>
    intro live h
    have hm := h m (List.mem_cons_self ..)
    have : threadStep live (Item.msg m) = some live := by
      cases m with
      | resp c ok q => rfl
      | sessionEnd => rfl
      | event e =>
        cases e with
        | q qe => cases qe <;> first | rfl | simp [Msg.noThread] at hm
        | threadExitedAtEnd t => simp [Msg.noThread] at hm
        | _ => rfl
    simp only [List.map_cons, threadRun, this]
    exact ih live (fun x hx => h x (List.mem_cons_of_mem _ hx))

/-! ### the diff -/

theorem mem_dedup (l : List Nat) : ∀ t, t ∈ dedup l ↔ t ∈ l := by
  induction l with
  | nil => intro t; simp [dedup]
  | cons a r ih =>
    intro t
    unfold dedup
    split
    · rename_i hc
      have ha : a ∈ r := (ih a).mp (by simpa using hc)
      constructor
      · intro h; exact List.mem_cons_of_mem _ ((ih t).mp h)
      · intro h
        rcases List.mem_cons.mp h with rfl | h
        · exact (ih _).mpr ha
        · exact (ih t).mpr h
    · simp [ih]

theorem dedup_nodup (l : List Nat) : (dedup l).Nodup := by
  induction l with
  | nil => simp [dedup]
  | cons a r ih =>
    unfold dedup
    split
    · exact ih
    · rename_i hc
      exact List.nodup_cons.mpr ⟨by simpa using hc, ih⟩

theorem applyQ_started (add : List Nat) (rest : List IEv) : ∀ l : List Nat, add.Nodup → (∀ t ∈ add, t ∉ l) →
    applyQ l (add.map (fun t => IEv.ev (.threadStarted t)) ++ rest) = applyQ (add.reverse ++ l) rest := by
  induction add with
  | nil => intro l _ _; rfl
  | cons a r ih =>
    intro l hn hl
    have ha : a ∉ l := hl a (List.mem_cons_self ..)
    obtain ⟨har, hnr⟩ := List.nodup_cons.mp hn
    simp only [List.map_cons, List.cons_append, applyQ]
    rw [if_neg (by simpa using ha)]
    rw [ih (a :: l) hnr (by
      intro t ht hm
      rcases List.mem_cons.mp hm with rfl | hm
      · exact har ht
      · exact hl t (List.mem_cons_of_mem _ ht) hm)]
    simp [List.reverse_cons, List.append_assoc]

theorem filter_all (l : List Nat) : l.filter (fun _ => true) = l := by
  induction l with
  | nil => rfl
  | cons a r ih => simp [ih]

theorem filter_step (l rem : List Nat) (a : Nat) :
    (l.filter (· != a)).filter (fun t => !rem.contains t) = l.filter (fun t => !(a :: rem).contains t) := by
  rw [List.filter_filter]
  congr 1
  funext t
  by_cases h : t = a <;> simp [h, List.contains_cons]

theorem applyQ_exited (rem : List Nat) (rest : List IEv) : ∀ l : List Nat, rem.Nodup → (∀ t ∈ rem, t ∈ l) →
    applyQ l (rem.map (fun t => IEv.ev (.threadExited t)) ++ rest) = applyQ (l.filter (fun t => !rem.contains t)) rest := by
  induction rem with
  | nil => intro l _ _; simp [filter_all]
  | cons a r ih =>
    intro l hn hl
    have ha : a ∈ l := hl a (List.mem_cons_self ..)
    obtain ⟨har, hnr⟩ := List.nodup_cons.mp hn
    simp only [List.map_cons, List.cons_append, applyQ]
    rw [if_pos (by simpa using ha)]
    rw [ih (l.filter (· != a)) hnr (by
      intro t ht
      have hta : t ≠ a := fun e => har (e ▸ ht)
      simpa [List.mem_filter, hta] using hl t (List.mem_cons_of_mem _ ht))]
    rw [filter_step]

/-- the same for the `thread exited` events `emit_process_end` writes directly -/
theorem threadRun_exitedAtEnd (rem : List Nat) (rest : List Item) : ∀ l : List Nat, rem.Nodup → (∀ t ∈ rem, t ∈ l) →
    threadRun l ((rem.map (fun t => Msg.event (.threadExitedAtEnd t))).map Item.msg ++ rest)
      = threadRun (l.filter (fun t => !rem.contains t)) rest := by
  induction rem with
  | nil => intro l _ _; simp [filter_all]
  | cons a r ih =>
    intro l hn hl
    have ha : a ∈ l := hl a (List.mem_cons_self ..)
    obtain ⟨har, hnr⟩ := List.nodup_cons.mp hn
    simp only [List.map_cons, List.cons_append, threadRun, threadStep]
    rw [if_pos (by simpa using ha)]
    simp only []
    rw [ih (l.filter (· != a)) hnr (by
      intro t ht
      have hta : t ≠ a := fun e => har (e ▸ ht)
      simpa [List.mem_filter, hta] using hl t (List.mem_cons_of_mem _ ht))]
    rw [filter_step]

/-- `refresh_threads_with_events` on a cache that agrees with what has been announced: the queued events
are accepted, and afterwards the announced set is the list the debugger reported -/
theorem applyQ_refresh (cache tl l : List Nat) (hc : cache.Nodup) (hl : ∀ t, t ∈ l ↔ t ∈ cache) :
    ∃ l', applyQ l (refreshEvents cache tl) = some l' ∧ ∀ t, t ∈ l' ↔ t ∈ dedup tl := by
  unfold refreshEvents
  have hadd : ((dedup tl).filter (fun t => !cache.contains t)).Nodup := (dedup_nodup tl).filter _
  have hrem : (cache.filter (fun t => !(dedup tl).contains t)).Nodup := hc.filter _
  rw [applyQ_started _ _ l hadd (by
    intro t ht hm
    have := (List.mem_filter.mp ht).2
    have hm' := (hl t).mp hm
    simp [hm'] at this)]
  have e := applyQ_exited (cache.filter (fun t => !(dedup tl).contains t)) [] (((dedup tl).filter (fun t => !cache.contains t)).reverse ++ l) hrem (by
    intro t ht
    exact List.mem_append_right _ ((hl t).mpr (List.mem_filter.mp ht).1))
  simp only [List.append_nil] at e
  rw [e]
  refine ⟨_, rfl, ?_⟩
  intro t
  simp only [applyQ, List.mem_filter, List.mem_append, List.mem_reverse, hl t]
  by_cases h1 : t ∈ cache <;> by_cases h2 : t ∈ dedup tl <;> simp [h1, h2]

theorem refreshEvents_isThread (cache tl : List Nat) : ∀ e ∈ refreshEvents cache tl, e.isThread = true ∧ e.isLife = false := by
  intro e he
  unfold refreshEvents at he
  rcases List.mem_append.mp he with h | h
  · obtain ⟨t, _, rfl⟩ := List.mem_map.mp h; exact ⟨rfl, rfl⟩
  · obtain ⟨t, _, rfl⟩ := List.mem_map.mp h; exact ⟨rfl, rfl⟩

/-! ### invariant of the session against the thread monitor -/

/-- `live`: the monitor's state (announced as started, not yet as exited) -/
structure TInv (s : Sess) (live : List Nat) : Prop where
  cacheNodup : s.threadCache.Nodup
  /-- once the queued events are out, the announced set is the thread cache -/
  sync : s.terminated = false → ∃ l, applyQ live s.queue = some l ∧ ∀ t, t ∈ l ↔ t ∈ s.threadCache
  /-- `emit_process_end` announced the exit of every thread -/
  quiet : s.terminated = true → live = []
  /-- a lifecycle entry never shares the queue with thread events (they would be dropped) -/
  lifeAlone : s.queue.any IEv.isLife = true → ∀ e ∈ s.queue, e.isThread = false

/-- what is known about the queue while a skeleton runs: `pt` thread events may be queued, `pl` lifecycle
entries may be queued -/
abbrev Flags (pt pl : Bool) (s : Sess) : Prop :=
  (pt = false → ∀ e ∈ s.queue, e.isThread = false) ∧ (pl = false → s.queue.any IEv.isLife = false)

/-- syntactic check of a skeleton: a lifecycle entry is only queued when no thread event can be pending, the
thread cache is only refreshed when no lifecycle entry can be pending, the latch is not reset -/
def safeActs : Bool → Bool → List Act → Bool
  | _, _, [] => true
  | _, _, .drain :: r => safeActs false false r
  | _, pl, .refresh _ :: r => !pl && safeActs true pl r
  | pt, pl, .enq es :: r =>
    es.all (fun e => !e.isThread) && (if es.any IEv.isLife then !pt && safeActs pt true r else safeActs pt pl r)
  | _, _, .resetLatch :: _ => false
  | pt, pl, _ :: r => safeActs pt pl r

theorem tinv_congr {s s1 : Sess} {live : List Nat} (hq : s1.queue = s.queue) (ht : s1.terminated = s.terminated)
    (hc : s1.threadCache = s.threadCache) (h : TInv s live) : TInv s1 live :=
  ⟨hc ▸ h.cacheNodup, by rw [ht, hq, hc]; exact h.sync, by rw [ht]; exact h.quiet, by rw [hq]; exact h.lifeAlone⟩

theorem flags_congr {s s1 : Sess} {pt pl : Bool} (hq : s1.queue = s.queue) (h : Flags pt pl s) : Flags pt pl s1 := by
  unfold Flags at *; rw [hq]; exact h

/-- queueing events that are neither thread events nor (when thread events may be pending) lifecycle entries -/
theorem tinv_enq {s s1 : Sess} {live : List Nat} {pt pl : Bool} (es : List IEv)
    (hq : s1.queue = s.queue ++ es) (ht : s1.terminated = s.terminated) (hc : s1.threadCache = s.threadCache)
    (hes : ∀ e ∈ es, e.isThread = false) (hlife : es.any IEv.isLife = true → pt = false)
    (h : TInv s live) (hf : Flags pt pl s) :
    TInv s1 live ∧ Flags pt (pl || es.any IEv.isLife) s1 := by
  refine ⟨⟨hc ▸ h.cacheNodup, ?_, by rw [ht]; exact h.quiet, ?_⟩, ?_, ?_⟩
  · intro hterm
    rw [ht] at hterm
    obtain ⟨l, hl, hm⟩ := h.sync hterm
    refine ⟨l, ?_, by rw [hc]; exact hm⟩
    rw [hq, applyQ_append, hl]
    exact applyQ_noThread es l hes
  · intro hany e he
    rw [hq] at hany he
    rcases List.mem_append.mp he with he | he
    · rw [List.any_append, Bool.or_eq_true] at hany
      rcases hany with hany | hany
      · exact h.lifeAlone hany e he
      · exact hf.1 (hlife hany) e he
    · exact hes e he
  · intro hpt e he
    rw [hq] at he
    rcases List.mem_append.mp he with he | he
    · exact hf.1 hpt e he
    · exact hes e he
  · intro hpl
    rw [Bool.or_eq_false_iff] at hpl
    rw [hq, List.any_append, hf.2 hpl.1, hpl.2]; rfl

theorem drain_thread (s : Sess) (live : List Nat) (h : TInv s live) :
    ∃ live', threadRun live ((drain s).2.map Item.msg) = some live' ∧ TInv (drain s).1 live' ∧ Flags false false (drain s).1 := by
  have endCase : ∀ (tailMsgs : List Msg), (∀ m ∈ tailMsgs, m.noThread = true) → s.terminated = false →
      s.queue.any IEv.isLife = true →
      ∃ live', threadRun live ((processEndMsgs s.moduleInfo s.threadCache ++ tailMsgs).map Item.msg) = some live' ∧ live' = [] := by
    intro tailMsgs htail hterm hlife
    obtain ⟨l, hl, hm⟩ := h.sync hterm
    rw [applyQ_noThread _ _ (h.lifeAlone hlife)] at hl
    cases hl
    unfold processEndMsgs
    have hmod : ∀ m ∈ (if s.moduleInfo = true then [Msg.event .moduleRemoved, Msg.event .sourceRemoved] else []), m.noThread = true := by
      intro m hm'
      split at hm' <;> simp at hm'
      rcases hm' with rfl | rfl <;> rfl
    rw [List.map_append, List.map_append, List.append_assoc, threadRun_append, threadRun_noThread _ _ hmod]
    simp only [Option.bind]
    rw [threadRun_exitedAtEnd _ _ live h.cacheNodup (fun t ht => (hm t).mpr ht), threadRun_noThread _ _ htail]
    refine ⟨_, rfl, ?_⟩
    apply List.filter_eq_nil_iff.mpr
    intro t ht
    simp [(hm t).mp ht]
  unfold drain
  simp only
  split
  · rename_i ht
    refine ⟨live, rfl, ⟨h.cacheNodup, fun hh => by simp [ht] at hh, fun _ => h.quiet (by simpa using ht), by simp⟩, by simp [Flags]⟩
  · rename_i ht
    have hterm : s.terminated = false := by simpa using ht
    split
    · rename_i hex
      have hlife : s.queue.any IEv.isLife = true := by
        obtain ⟨e, he, hx⟩ := List.any_eq_true.mp hex
        exact List.any_eq_true.mpr ⟨e, he, by simp [IEv.isLife, hx]⟩
      obtain ⟨live', e1, e2⟩ := endCase [Msg.event .exited, Msg.event .terminated] (by intro m hm; simp at hm; rcases hm with rfl | rfl <;> rfl) hterm hlife
      exact ⟨live', e1, ⟨h.cacheNodup, fun hh => by simp at hh, fun _ => e2, by simp⟩, by simp [Flags]⟩
    · split
      · rename_i hex
        have hlife : s.queue.any IEv.isLife = true := by
          obtain ⟨e, he, hx⟩ := List.any_eq_true.mp hex
          exact List.any_eq_true.mpr ⟨e, he, by simp [IEv.isLife, hx]⟩
        obtain ⟨live', e1, e2⟩ := endCase [Msg.event .terminated] (by intro m hm; simp at hm; rcases hm with rfl; rfl) hterm hlife
        exact ⟨live', e1, ⟨h.cacheNodup, fun hh => by simp at hh, fun _ => e2, by simp⟩, by simp [Flags]⟩
      · obtain ⟨l, hl, hm⟩ := h.sync hterm
        refine ⟨l, by rw [threadRun_sendAll]; exact hl, ⟨h.cacheNodup, fun _ => ⟨l, rfl, hm⟩, fun hh => by simp [hterm] at hh, by simp⟩, by simp [Flags]⟩

theorem execAct_thread (r : Req) (s : Sess) (a : Act) (rest : List Act) (live : List Nat) (pt pl : Bool)
    (h : TInv s live) (hf : Flags pt pl s) (hs : safeActs pt pl (a :: rest) = true) :
    ∃ live' pt' pl', threadRun live ((execAct r s a).2.map Item.msg) = some live' ∧ TInv (execAct r s a).1 live' ∧
      Flags pt' pl' (execAct r s a).1 ∧ safeActs pt' pl' rest = true := by
  cases a with
  | drain =>
    obtain ⟨live', e, t, f⟩ := drain_thread s live h
    exact ⟨live', false, false, e, t, f, by simpa [safeActs] using hs⟩
  | resetLatch => simp [safeActs] at hs
  | refresh tl =>
    simp only [safeActs, Bool.and_eq_true, Bool.not_eq_true'] at hs
    obtain ⟨hpl, hrest⟩ := hs
    refine ⟨live, true, pl, rfl, ⟨dedup_nodup tl, ?_, h.quiet, ?_⟩, ⟨fun hh => Bool.noConfusion hh, ?_⟩, hrest⟩
    · intro hterm
      obtain ⟨l, hl, hm⟩ := h.sync hterm
      obtain ⟨l', hl', hm'⟩ := applyQ_refresh s.threadCache tl l h.cacheNodup hm
      exact ⟨l', by simp only [execAct]; rw [applyQ_append, hl]; exact hl', hm'⟩
    · intro hany
      simp only [execAct, List.any_append, Bool.or_eq_true] at hany
      rcases hany with hany | hany
      · rw [hf.2 hpl] at hany; cases hany
      · obtain ⟨e, he, hx⟩ := List.any_eq_true.mp hany
        rw [(refreshEvents_isThread _ _ e he).2] at hx; cases hx
    · intro _
      simp only [execAct, List.any_append, hf.2 hpl, Bool.false_or]
      apply List.any_eq_false.mpr
      intro e he
      simp [(refreshEvents_isThread _ _ e he).2]
  | enq es =>
    simp only [safeActs, Bool.and_eq_true, List.all_eq_true, Bool.not_eq_true'] at hs
    obtain ⟨hes, hrest⟩ := hs
    by_cases hl : es.any IEv.isLife = true
    · rw [if_pos hl] at hrest
      simp only [Bool.and_eq_true, Bool.not_eq_true'] at hrest
      obtain ⟨t, f⟩ := tinv_enq (s1 := (execAct r s (.enq es)).1) es rfl rfl rfl hes (fun _ => hrest.1) h hf
      exact ⟨live, pt, true, rfl, t, by simpa [hl] using f, hrest.2⟩
    · rw [if_neg hl] at hrest
      obtain ⟨t, f⟩ := tinv_enq (s1 := (execAct r s (.enq es)).1) es rfl rfl rfl hes (fun h' => absurd h' hl) h hf
      exact ⟨live, pt, pl, rfl, t, by simpa [hl] using f, hrest⟩
  | progStart =>
    obtain ⟨t, f⟩ := tinv_enq (s1 := (execAct r s .progStart).1) [.ev (.progressStart s.nextProgress)] rfl rfl rfl
      (by intro e he; simp at he; subst he; rfl) (by intro hl; simp [IEv.isLife, IEv.isExited, IEv.isTerminated] at hl) h hf
    exact ⟨live, pt, pl, rfl, t, by simpa [IEv.isLife, IEv.isExited, IEv.isTerminated] using f, by simpa [safeActs] using hs⟩
  | progUpdate =>
    obtain ⟨t, f⟩ := tinv_enq (s1 := (execAct r s .progUpdate).1) [.ev (.progressUpdate s.curProgress)] rfl rfl rfl
      (by intro e he; simp at he; subst he; rfl) (by intro hl; simp [IEv.isLife, IEv.isExited, IEv.isTerminated] at hl) h hf
    exact ⟨live, pt, pl, rfl, t, by simpa [IEv.isLife, IEv.isExited, IEv.isTerminated] using f, by simpa [safeActs] using hs⟩
  | progEnd =>
    obtain ⟨t, f⟩ := tinv_enq (s1 := (execAct r s .progEnd).1) [.ev (.progressEnd s.curProgress)] rfl rfl rfl
      (by intro e he; simp at he; subst he; rfl) (by intro hl; simp [IEv.isLife, IEv.isExited, IEv.isTerminated] at hl) h hf
    exact ⟨live, pt, pl, rfl, t, by simpa [IEv.isLife, IEv.isExited, IEv.isTerminated] using f, by simpa [safeActs] using hs⟩
  | respond ok => exact ⟨live, pt, pl, rfl, h, hf, by simpa [safeActs] using hs⟩
  | endSession => exact ⟨live, pt, pl, rfl, ⟨h.1, h.2, h.3, h.4⟩, hf, by simpa [safeActs] using hs⟩
  | cancelReq n => exact ⟨live, pt, pl, rfl, ⟨h.1, h.2, h.3, h.4⟩, hf, by simpa [safeActs] using hs⟩
  | cancelProg n => exact ⟨live, pt, pl, rfl, ⟨h.1, h.2, h.3, h.4⟩, hf, by simpa [safeActs] using hs⟩
  | consumeReq => exact ⟨live, pt, pl, rfl, ⟨h.1, h.2, h.3, h.4⟩, hf, by simpa [safeActs] using hs⟩
  | consumeProg => exact ⟨live, pt, pl, rfl, ⟨h.1, h.2, h.3, h.4⟩, hf, by simpa [safeActs] using hs⟩
  | setDbg d => exact ⟨live, pt, pl, rfl, ⟨h.1, h.2, h.3, h.4⟩, hf, by simpa [safeActs] using hs⟩
  | setMode m => exact ⟨live, pt, pl, rfl, ⟨h.1, h.2, h.3, h.4⟩, hf, by simpa [safeActs] using hs⟩
  | setLastStop b => exact ⟨live, pt, pl, rfl, ⟨h.1, h.2, h.3, h.4⟩, hf, by simpa [safeActs] using hs⟩
  | setModuleInfo => exact ⟨live, pt, pl, rfl, ⟨h.1, h.2, h.3, h.4⟩, hf, by simpa [safeActs] using hs⟩
  | setBp k => exact ⟨live, pt, pl, rfl, ⟨h.1, h.2, h.3, h.4⟩, hf, by simpa [safeActs] using hs⟩
  | setFnBp k => exact ⟨live, pt, pl, rfl, ⟨h.1, h.2, h.3, h.4⟩, hf, by simpa [safeActs] using hs⟩
  | setInsBp k => exact ⟨live, pt, pl, rfl, ⟨h.1, h.2, h.3, h.4⟩, hf, by simpa [safeActs] using hs⟩
  | setDataBp k => exact ⟨live, pt, pl, rfl, ⟨h.1, h.2, h.3, h.4⟩, hf, by simpa [safeActs] using hs⟩

theorem exec_thread (r : Req) (acts : List Act) : ∀ (s : Sess) (live : List Nat) (pt pl : Bool),
    TInv s live → Flags pt pl s → safeActs pt pl acts = true →
    ∃ live', threadRun live ((exec r s acts).2.map Item.msg) = some live' ∧ TInv (exec r s acts).1 live' := by
  induction acts with
  | nil => intro s live _ _ h _ _; exact ⟨live, rfl, h⟩
  | cons a rest ih =>
    intro s live pt pl h hf hs
    obtain ⟨l1, pt', pl', e1, t1, f1, s1⟩ := execAct_thread r s a rest live pt pl h hf hs
    obtain ⟨l2, e2, t2⟩ := ih _ l1 pt' pl' t1 f1 s1
    refine ⟨l2, ?_, t2⟩
    simp only [exec, List.map_append, threadRun_append, e1, Option.bind]
    exact e2

/-! ### the skeletons are safe, and leave the queue empty -/

theorem safeActs_append_safe (a b : List Act) : ∀ pt pl, safeActs pt pl a = true → (∀ pt' pl', safeActs pt' pl' b = true) →
    safeActs pt pl (a ++ b) = true := by
  induction a with
  | nil => intro pt pl _ hb; exact hb pt pl
  | cons x r ih =>
    intro pt pl ha hb
    cases x <;> simp only [List.cons_append, safeActs, Bool.and_eq_true] at ha ⊢ <;> try (exact ih _ _ ha hb)
    case enq es =>
      refine ⟨ha.1, ?_⟩
      by_cases hl : es.any IEv.isLife = true
      · rw [if_pos hl] at ha ⊢
        rw [Bool.and_eq_true] at ha ⊢
        exact ⟨ha.2.1, ih _ _ ha.2.2 hb⟩
      · rw [if_neg hl] at ha ⊢
        exact ih _ _ ha.2 hb
    case refresh tl => exact ⟨ha.1, ih _ _ ha.2 hb⟩
    case resetLatch => cases ha

theorem safeActs_runRule (x : HRes) : ∀ pt pl, safeActs pt pl (runRule x) = true := by
  intro pt pl; cases x <;> rfl

@[simp] theorem all_replicate_notThread (k : Nat) (e : IEv) (he : e.isThread = false) :
    (List.replicate k e).all (fun e => !e.isThread) = true := by
  simp [List.all_eq_true, he]

theorem safeActs_stLoop (cp : List Nat) (n : Nat) : ∀ next pt pl, safeActs pt pl (stLoop cp next n) = true := by
  induction n with
  | zero => intro next pt pl; rfl
  | succ n ih =>
    intro next pt pl
    unfold stLoop
    by_cases hc : next ∈ cp <;> simp [hc, safeActs, ih]

/-- every skeleton passes the syntactic check — after the `resetLatch` that `launch` / `attach` start with -/
theorem plan_safe (s : Sess) (r : Req) (h : Hint) :
    safeActs false false (plan s r h).1 = true ∨
      (∃ rest, (plan s r h).1 = .resetLatch :: rest ∧ safeActs false false rest = true) := by
  unfold plan
  cases hcmd : r.cmd <;> simp only []
  all_goals
    (try (repeat' split)) <;>
    (try simp_all [stepPlan, emitStop, manualStop, terminateDebuggee, progBracket, badArgs, safeActs, query, safeActs_stLoop,
      IEv.isThread, IEv.isLife, IEv.isExited, IEv.isTerminated, List.all_append, List.any_append]) <;>
    (try (repeat' split)) <;>
    (try simp_all [safeActs, IEv.isThread, IEv.isLife, IEv.isExited, IEv.isTerminated, List.all_append, List.any_append])

theorem exec_append (r : Req) (a b : List Act) : ∀ s : Sess,
    exec r s (a ++ b) = ((exec r (exec r s a).1 b).1, (exec r s a).2 ++ (exec r (exec r s a).1 b).2) := by
  induction a with
  | nil => intro s; simp [exec]
  | cons x rest ih => intro s; simp [exec, ih, List.append_assoc]

theorem drain_queue (s : Sess) : (drain s).1.queue = [] := by
  unfold drain; simp only; split
  · rfl
  · split
    · rfl
    · split <;> rfl

/-- when the session goes on after a request, the queue is empty (`run` drains before it reads) -/
theorem fullPlan_leaves_queue_empty (s : Sess) (r : Req) (h : Hint) :
    (exec r s (fullPlan s r h)).1.alive = true → (exec r s (fullPlan s r h)).1.queue = [] := by
  unfold fullPlan
  cases (plan s r h).2 with
  | ok => intro _; rw [exec_append]; simp [runRule, exec, execAct, drain_queue]
  | err =>
    intro _
    have : (plan s r h).1 ++ runRule .err = ((plan s r h).1 ++ [.respond false]) ++ [.drain] := by simp [runRule]
    rw [this, exec_append]; simp [exec, execAct, drain_queue]
  | stop => intro ha; rw [exec_append] at ha; simp [runRule, exec, execAct] at ha


/-! ### whole histories -/

theorem hasReset_of_safe (acts : List Act) : ∀ pt pl, safeActs pt pl acts = true → hasReset acts = false := by
  induction acts with
  | nil => intro _ _ _; rfl
  | cons a r ih =>
    intro pt pl h
    cases a <;> simp only [safeActs, hasReset, Bool.and_eq_true] at h ⊢ <;> try (exact ih _ _ h)
    case enq es =>
      by_cases hl : es.any IEv.isLife = true
      · rw [if_pos hl, Bool.and_eq_true] at h; exact ih _ _ h.2.2
      · rw [if_neg hl] at h; exact ih _ _ h.2
    case refresh tl => exact ih _ _ h.2
    case resetLatch => cases h

theorem fullPlan_safe (s : Sess) (r : Req) (h : Hint) :
    safeActs false false (fullPlan s r h) = true ∨
      (∃ rest, fullPlan s r h = .resetLatch :: rest ∧ safeActs false false rest = true) := by
  unfold fullPlan
  rcases plan_safe s r h with hp | ⟨rest, hp, hs⟩
  · exact Or.inl (safeActs_append_safe _ _ _ _ hp (safeActs_runRule _))
  · exact Or.inr ⟨rest ++ runRule (plan s r h).2, by rw [hp]; rfl, safeActs_append_safe _ _ _ _ hs (safeActs_runRule _)⟩

/-- the invariant at request boundaries: `run` has drained the queue before it reads -/
def TB (s : Sess) (live : List Nat) : Prop := TInv s live ∧ (s.alive = true → s.queue = [])

theorem step_thread (s s' : Sess) (r : Req) (h : Hint) (out : List Msg) (live : List Nat) (hb : TB s live)
    (hs : runStep s r h = some (s', out))
    (hclean : hasReset (fullPlan s r h) = true → s.terminated = false ∨ s.threadCache = []) :
    ∃ live', threadRun live (Item.req r.cmd :: out.map Item.msg) = some live' ∧ TB s' live' := by
  unfold runStep at hs
  split at hs
  · rename_i halive
    injection hs with hs
    have hs1 : (exec r s (fullPlan s r h)).1 = s' := congrArg Prod.fst hs
    have hs2 : (exec r s (fullPlan s r h)).2 = out := congrArg Prod.snd hs
    have hq : s.queue = [] := hb.2 halive
    have hreq : ∀ l rest, threadRun l (Item.req r.cmd :: rest) = threadRun l rest := fun _ _ => rfl
    rw [hreq]
    have hempty : (exec r s (fullPlan s r h)).1.alive = true → (exec r s (fullPlan s r h)).1.queue = [] :=
      fullPlan_leaves_queue_empty s r h
    rcases fullPlan_safe s r h with hsafe | ⟨rest, hp, hsafe⟩
    · obtain ⟨live', e, t⟩ := exec_thread r (fullPlan s r h) s live false false hb.1
        ⟨fun _ e he => (by rw [hq] at he; exact absurd he (List.not_mem_nil)), fun _ => (by rw [hq]; rfl)⟩ hsafe
      exact ⟨live', by rw [← hs2]; exact e, by rw [← hs1]; exact ⟨t, hempty⟩⟩
    · have hres : hasReset (fullPlan s r h) = true := by rw [hp]; rfl
      have hex : exec r s (fullPlan s r h) = exec r { s with terminated := false } rest := by
        rw [hp]; simp [exec, execAct]
      have t0 : TInv { s with terminated := false } live := by
        refine ⟨hb.1.cacheNodup, fun _ => ⟨live, by simp [hq, applyQ], ?_⟩, fun hh => Bool.noConfusion hh, fun hh => (by simp [hq] at hh)⟩
        cases hterm : s.terminated with
        | false =>
          obtain ⟨l, hl, hm⟩ := hb.1.sync hterm
          rw [hq] at hl
          cases hl
          exact hm
        | true =>
          rcases hclean hres with hc | hc
          · rw [hterm] at hc; cases hc
          · intro t; simp [hb.1.quiet hterm, hc]
      obtain ⟨live', e, t⟩ := exec_thread r rest { s with terminated := false } live false false t0
        ⟨fun _ e he => by simp [hq] at he, fun _ => by simp [hq]⟩ hsafe
      refine ⟨live', by rw [← hs2, hex]; exact e, ?_⟩
      rw [← hs1]
      exact ⟨by rw [hex]; exact t, hempty⟩
  · cases hs

theorem trace_thread (hist : List (Req × Hint)) : ∀ (s : Sess) (live : List Nat), TB s live → cleanRelaunch s hist = true →
    ∃ live', threadRun live (trace s hist) = some live' ∧ TB (finalSess s hist) live' := by
  induction hist with
  | nil => intro s live hb _; exact ⟨live, rfl, hb⟩
  | cons rh rest ih =>
    intro s live hb hc
    obtain ⟨r, h⟩ := rh
    unfold trace finalSess
    unfold cleanRelaunch at hc
    cases hs : runStep s r h with
    | none =>
      simp only [hs] at hc ⊢
      exact ih s live hb hc
    | some p =>
      obtain ⟨s', out⟩ := p
      simp only [hs, Bool.and_eq_true] at hc ⊢
      obtain ⟨hc1, hc2⟩ := hc
      have hclean : hasReset (fullPlan s r h) = true → s.terminated = false ∨ s.threadCache = [] := by
        intro hr
        cases hterm : s.terminated with
        | false => exact Or.inl rfl
        | true =>
          right
          simp [hr, hterm] at hc1
          exact hc1
      obtain ⟨l1, e1, b1⟩ := step_thread s s' r h out live hb hs hclean
      obtain ⟨l2, e2, b2⟩ := ih s' l1 b1 hc2
      refine ⟨l2, ?_, b2⟩
      have : Item.req r.cmd :: (out.map Item.msg ++ trace s' rest) = (Item.req r.cmd :: out.map Item.msg) ++ trace s' rest := rfl
      rw [this, threadRun_append, e1]
      exact e2

theorem tb_init : TB {} [] :=
  ⟨⟨by simp, fun _ => ⟨[], rfl, by simp⟩, fun hh => Bool.noConfusion hh, fun hh => (by simp at hh)⟩, fun _ => rfl⟩

end BsVerif.Dap
