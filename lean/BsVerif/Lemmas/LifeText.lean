import BsVerif.Lemmas.LifeCore
/-! Text part of the C11 invariants: every deviation of the live text from the on-disk bytes is an INT3 of a
registered breakpoint whose saved byte is the on-disk byte. -/
namespace BsVerif.Life

/-- the part of the state the text clause talks about -/
structure Tcore where
  prog : Prog
  alive : Bool
  code : Addr → Nat
  active : List Bp

def tcore (s : St) : Tcore := ⟨s.prog, s.proc.alive, s.proc.code, s.active⟩

theorem foldl_tcore {α} (f : St → α → St) (h : ∀ s x, tcore (f s x) = tcore s) (l : List α) (s : St) :
    tcore (l.foldl f s) = tcore s := by
  induction l generalizing s with
  | nil => rfl
  | cons x xs ih => simp only [List.foldl]; rw [ih, h]

@[simp] theorem tcore_addUninit (s : St) (u) : tcore (addUninit s u) = tcore s := rfl

@[simp] theorem tcore_backToUninit (s : St) (b) : tcore (backToUninit s b) = tcore s := by
  unfold backToUninit; split <;> rfl

@[simp] theorem tcore_syncAll (s : St) (d) : tcore (syncAll s d) = tcore s := rfl

@[simp] theorem tcore_hwDisable (s : St) (w) : tcore (hwDisable s w).1 = tcore s := by
  unfold hwDisable; split
  · rfl
  · split <;> rfl

@[simp] theorem tcore_hwEnable (s : St) : tcore (hwEnable s).1 = tcore s := by
  unfold hwEnable; split
  · rfl
  · split <;> rfl

@[simp] theorem tcore_watch (s : St) (a) : tcore (watch s a).1 = tcore s := by
  unfold watch; split
  · rfl
  · split
    · rfl
    · split
      · rename_i h; have := tcore_hwEnable s; rw [h] at this; exact this
      · rename_i h; have := tcore_hwEnable s; rw [h] at this; exact this

@[simp] theorem tcore_removeWp (s : St) (w) : tcore (removeWp s w).1 = tcore s := by
  unfold removeWp; split
  · rename_i h; have := tcore_hwDisable s w; rw [h] at this; exact this
  · rename_i h; have := tcore_hwDisable s w; rw [h] at this; exact this

@[simp] theorem tcore_unwatch (s : St) (a) : tcore (unwatch s a).1 = tcore s := by
  unfold unwatch; split
  · rfl
  · rename_i pre w post _
    split
    · rename_i h; have := tcore_removeWp { s with wps := pre ++ post } w; rw [h] at this; exact this
    · rename_i h; have := tcore_removeWp { s with wps := pre ++ post } w; rw [h] at this; exact this

@[simp] theorem tcore_clearAll (s : St) : tcore (clearAll s) = tcore s := by
  unfold clearAll
  show tcore (List.foldl _ _ _) = _
  rw [foldl_tcore _ (fun s x => tcore_removeWp s x)]; rfl

@[simp] theorem tcore_disableWps (s : St) : tcore (disableWps s) = tcore s := by
  unfold disableWps
  show tcore (List.foldl _ _ _) = _
  rw [foldl_tcore]; · rfl
  intro s w
  split
  · rename_i h; have := tcore_hwDisable s w; rw [h] at this; exact this
  · rename_i h; have := tcore_hwDisable s w; rw [h] at this; exact this

@[simp] theorem tcore_refreshWps (s : St) : tcore (refreshWps s) = tcore s := by
  unfold refreshWps
  rw [foldl_tcore]; · rfl
  intro s w
  split
  · rename_i h; have := tcore_hwEnable s; rw [h] at this; exact this
  · rename_i h; have := tcore_hwEnable s; rw [h] at this; exact this

@[simp] theorem tcore_stopAt (s : St) (n) : tcore (stopAt s n) = tcore s := rfl


@[simp] theorem tcore_runFrom (l : List Site) (s : St) : tcore (runFrom s l) = tcore s := by
  induction l generalizing s with
  | nil => rfl
  | cons x r ih =>
    unfold runFrom; simp only []
    split
    · rfl
    · rw [ih]; rfl

@[simp] theorem tcore_releaseThreads (s : St) : tcore (releaseThreads s) = tcore s := by
  unfold releaseThreads; split <;> rfl

/-! ### the text invariant -/
def TextInv (s : St) : Prop :=
  (∀ b ∈ s.active, b.saved = s.prog.orig b.addr) ∧
  (s.proc.alive = true → ∀ a, s.proc.code a = s.prog.orig a ∨ (s.proc.code a = INT3 ∧ ∃ b ∈ s.active, b.addr = a))

theorem textInv_of_tcore {s t : St} (h : tcore t = tcore s) (hs : TextInv s) : TextInv t := by
  have e1 : t.prog = s.prog := congrArg Tcore.prog h
  have e2 : t.proc.alive = s.proc.alive := congrArg Tcore.alive h
  have e3 : t.proc.code = s.proc.code := congrArg Tcore.code h
  have e4 : t.active = s.active := congrArg Tcore.active h
  unfold TextInv; rw [e1, e2, e3, e4]; exact hs

theorem find?_some {l : List Bp} {a : Addr} {b : Bp} (h : find? l a = some b) : b ∈ l ∧ b.addr = a := by
  unfold find? at h
  exact ⟨List.mem_of_find?_eq_some h, by have := List.find?_some h; simpa using this⟩

theorem find?_none {l : List Bp} {a : Addr} (h : find? l a = none) : ∀ b ∈ l, b.addr ≠ a := by
  unfold find? at h
  intro b hb
  have := List.find?_eq_none.mp h b hb
  simpa using this

theorem mem_put {l : List Bp} {b x : Bp} : x ∈ put l b ↔ (x ∈ l ∧ x.addr ≠ b.addr) ∨ x = b := by
  unfold put erase; simp [List.mem_filter]

theorem mem_erase {l : List Bp} {a : Addr} {x : Bp} : x ∈ erase l a ↔ x ∈ l ∧ x.addr ≠ a := by
  unfold erase; simp [List.mem_filter]

/-- the effect of one text poke -/
theorem pokeByte_eq (s : St) (a v) :
    (pokeByte s a v).prog = s.prog ∧ (pokeByte s a v).proc.alive = s.proc.alive ∧ (pokeByte s a v).active = s.active ∧
    (pokeByte s a v).proc.code = (if s.proc.alive then fun x => if x = a then v else s.proc.code x else s.proc.code) := by
  unfold pokeByte; split
  · rename_i h; simp [h]
  · rename_i h; simp [h]

theorem textInv_addAndEnable (s : St) (b : Bp) (h : TextInv s) : TextInv (addAndEnable s b) := by
  unfold addAndEnable
  split
  · rename_i hal
    obtain ⟨h1, h2⟩ := h
    have h2 := h2 hal
    split
    · rename_i ex hex
      obtain ⟨hexm, hexa⟩ := find?_some hex
      have hsv := h1 ex hexm
      simp only [bpDisable, pokeByte, hal, if_true, TextInv]
      refine ⟨?_, ?_⟩
      · intro x hx
        rw [mem_put] at hx
        rcases hx with ⟨hx, _⟩ | hx
        · exact h1 x hx
        · subst hx; simp [hexa, hsv]
      · intro _ a
        by_cases ha : a = b.addr
        · right; exact ⟨by simp [ha], _, mem_put.mpr (Or.inr rfl), ha.symm⟩
        · have ha' : a ≠ ex.addr := by rw [hexa]; exact ha
          simp only [ha, ha', if_false]
          rcases h2 a with h | ⟨h, y, hy, hya⟩
          · exact Or.inl h
          · right; exact ⟨h, y, mem_put.mpr (Or.inl ⟨hy, by rw [hya]; exact ha⟩), hya⟩
    · rename_i hnone
      have hno := find?_none hnone
      simp only [pokeByte, hal, if_true, TextInv]
      refine ⟨?_, ?_⟩
      · intro x hx
        rw [mem_put] at hx
        rcases hx with ⟨hx, _⟩ | hx
        · exact h1 x hx
        · subst hx
          rcases h2 b.addr with h | ⟨_, y, hy, hya⟩
          · exact h
          · exact absurd hya (hno y hy)
      · intro _ a
        by_cases ha : a = b.addr
        · right; exact ⟨by simp [ha], _, mem_put.mpr (Or.inr rfl), ha.symm⟩
        · simp only [ha, if_false]
          rcases h2 a with h | ⟨h, y, hy, hya⟩
          · exact Or.inl h
          · right; exact ⟨h, y, mem_put.mpr (Or.inl ⟨hy, by rw [hya]; exact ha⟩), hya⟩
  · exact h

theorem foldl_inv {α} (P : St → Prop) (f : St → α → St) (h : ∀ s x, P s → P (f s x)) (l : List α) (s : St)
    (hs : P s) : P (l.foldl f s) := by
  induction l generalizing s with
  | nil => exact hs
  | cons x xs ih => exact ih _ (h _ _ hs)

theorem textInv_enableAll (s : St) (h : TextInv s) : TextInv (enableAll s) := by
  unfold enableAll
  exact foldl_inv TextInv _ (fun acc u ha => textInv_addAndEnable acc _ ha) _ _ (textInv_of_tcore rfl h)

theorem textInv_enableEntry (s : St) (h : TextInv s) : TextInv (enableEntry s) := by
  unfold enableEntry; split
  · exact h
  · exact textInv_addAndEnable _ _ (textInv_of_tcore rfl h)

theorem textInv_removeByAddr (s : St) (k : UKey) (h : TextInv s) : TextInv (removeByAddr s k).1 := by
  unfold removeByAddr; split
  · exact textInv_of_tcore rfl h
  · split
    · exact h
    · split
      · exact h
      · rename_i b hb
        obtain ⟨hbm, hba⟩ := find?_some hb
        obtain ⟨h1, h2⟩ := h
        have hsv := h1 b hbm
        by_cases hal : s.proc.alive = true
        · simp only [bpDisable, pokeByte, hal, if_true, TextInv]
          refine ⟨fun x hx => h1 x (mem_erase.mp hx).1, fun _ a => ?_⟩
          by_cases ha : a = b.addr
          · left; simp [ha, hsv]
          · simp only [ha, if_false]
            rcases h2 hal a with h | ⟨h, y, hy, hya⟩
            · exact Or.inl h
            · right; exact ⟨h, y, mem_erase.mpr ⟨hy, by rw [hya, ← hba]; exact ha⟩, hya⟩
        · have hal : s.proc.alive = false := by simpa using hal
          simp only [bpDisable, pokeByte, hal, Bool.false_eq_true, if_false, TextInv]
          exact ⟨fun x hx => h1 x (mem_erase.mp hx).1, fun hc => False.elim hc⟩

theorem textInv_stepOver (s : St) (h : TextInv s) (hal : s.proc.alive = true) : TextInv (stepOver s) := by
  unfold stepOver; split
  · exact h
  · rename_i x r _
    split
    · exact h
    · rename_i b hb
      obtain ⟨hbm, hba⟩ := find?_some hb
      obtain ⟨h1, h2⟩ := h
      have hsv := h1 b hbm
      have h2 := h2 hal
      have key : ∀ t : St, t.prog = s.prog → t.proc.alive = true → t.active = s.active →
          t.proc.code = (fun z => if z = b.addr then b.saved else s.proc.code z) →
          TextInv { (pokeByte t x.addr INT3) with
                    active := put (pokeByte t x.addr INT3).active { b with saved := t.proc.code x.addr } } := by
        intro t tp ta tk tc
        simp only [pokeByte, ta, if_true, TextInv, tp, tk, tc]
        refine ⟨?_, ?_⟩
        · intro y hy
          rw [mem_put] at hy
          rcases hy with ⟨hy, _⟩ | hy
          · exact h1 y hy
          · subst hy; simp [hba, hsv]
        · intro _ a
          by_cases ha : a = x.addr
          · right; exact ⟨by simp [ha], _, mem_put.mpr (Or.inr rfl), by simp [ha, hba]⟩
          · have ha' : a ≠ b.addr := by rw [hba]; exact ha
            simp only [ha, ha', if_false]
            rcases h2 a with h | ⟨h, y, hy, hya⟩
            · exact Or.inl h
            · right; exact ⟨h, y, mem_put.mpr (Or.inl ⟨hy, by simp only []; rw [hya]; exact ha'⟩), hya⟩
      simp only []
      split
      · exact key _ (by simp [bpDisable, pokeByte, hal]) (by simp [bpDisable, pokeByte, hal])
          (by simp [bpDisable, pokeByte, hal]) (by simp [bpDisable, pokeByte, hal])
      · exact key _ (by simp [bpDisable, pokeByte, hal]) (by simp [bpDisable, pokeByte, hal])
          (by simp [bpDisable, pokeByte, hal]) (by simp [bpDisable, pokeByte, hal])

theorem disableAll_fold (l : List Bp) (acc : St) (h0 : acc.active = [])
    (h1 : ∀ b ∈ l, b.saved = acc.prog.orig b.addr)
    (h2 : acc.proc.alive = true → ∀ a, acc.proc.code a = acc.prog.orig a ∨ a ∈ l.map (·.addr)) :
    (l.foldl (fun acc b => backToUninit (bpDisable acc b) b) acc).active = [] ∧
    (l.foldl (fun acc b => backToUninit (bpDisable acc b) b) acc).prog = acc.prog ∧
    (l.foldl (fun acc b => backToUninit (bpDisable acc b) b) acc).proc.alive = acc.proc.alive ∧
    (acc.proc.alive = true → ∀ a, (l.foldl (fun acc b => backToUninit (bpDisable acc b) b) acc).proc.code a = acc.prog.orig a) := by
  induction l generalizing acc with
  | nil =>
    refine ⟨h0, rfl, rfl, fun hal a => ?_⟩
    rcases h2 hal a with h | h
    · exact h
    · simp at h
  | cons b l ih =>
    simp only [List.foldl]
    have e : tcore (backToUninit (bpDisable acc b) b) = tcore (bpDisable acc b) := tcore_backToUninit _ _
    have ep : (backToUninit (bpDisable acc b) b).prog = acc.prog := by
      have := congrArg Tcore.prog e; simp only [tcore] at this; rw [this]; simp [bpDisable, pokeByte]; split <;> rfl
    have ea : (backToUninit (bpDisable acc b) b).proc.alive = acc.proc.alive := by
      have := congrArg Tcore.alive e; simp only [tcore] at this; rw [this]; simp [bpDisable, pokeByte]; split <;> rfl
    have ek : (backToUninit (bpDisable acc b) b).active = [] := by
      have := congrArg Tcore.active e; simp only [tcore] at this; rw [this, ← h0]; simp [bpDisable, pokeByte]; split <;> rfl
    have ec : acc.proc.alive = true → (backToUninit (bpDisable acc b) b).proc.code = fun x => if x = b.addr then b.saved else acc.proc.code x := by
      intro hal
      have := congrArg Tcore.code e; simp only [tcore] at this; rw [this]; simp [bpDisable, pokeByte, hal]
    obtain ⟨r1, r2, r3, r4⟩ := ih (backToUninit (bpDisable acc b) b) ek
      (fun y hy => by rw [ep]; exact h1 y (List.mem_cons_of_mem _ hy))
      (fun hal a => by
        rw [ea] at hal
        rw [ec hal, ep]
        by_cases ha : a = b.addr
        · left; simp only [ha, if_true]; exact h1 b (List.mem_cons_self)
        · simp only [ha, if_false]
          rcases h2 hal a with h | h
          · exact Or.inl h
          · right; simp only [List.map_cons, List.mem_cons] at h
            rcases h with h | h
            · exact absurd h ha
            · exact h)
    refine ⟨r1, r2.trans ep, r3.trans ea, fun hal a => ?_⟩
    rw [← ep]; exact r4 (ea.trans hal) a

/-- `disable_all_breakpoints` on a live process puts every on-disk byte back -/
theorem disableAll_restores (s : St) (h : TextInv s) :
    (disableAll s).active = [] ∧ (disableAll s).prog = s.prog ∧ (disableAll s).proc.alive = s.proc.alive ∧
    (s.proc.alive = true → ∀ a, (disableAll s).proc.code a = s.prog.orig a) := by
  unfold disableAll
  exact disableAll_fold s.active { s with active := [] } rfl h.1 (fun hal a => by
    rcases h.2 hal a with h | ⟨_, y, hy, hya⟩
    · exact Or.inl h
    · right; exact List.mem_map.mpr ⟨y, hy, hya⟩)

theorem textInv_disableAll (s : St) (h : TextInv s) : TextInv (disableAll s) := by
  obtain ⟨r1, r2, r3, r4⟩ := disableAll_restores s h
  refine ⟨fun b hb => (by rw [r1] at hb; cases hb), fun hal a => ?_⟩
  rw [r2]; exact Or.inl (r4 (r3 ▸ hal) a)

theorem textInv_dead {s : St} (hd : s.proc.alive = false) (h1 : ∀ b ∈ s.active, b.saved = s.prog.orig b.addr) :
    TextInv s := ⟨h1, fun hal => by rw [hd] at hal; cases hal⟩

theorem textInv_finish (s : St) (h : TextInv s) : TextInv (finish s).1 := by
  unfold finish
  split
  · unfold onExit
    exact textInv_disableAll _ (textInv_of_tcore (tcore_disableWps _) (textInv_dead rfl h.1))
  · split
    · exact textInv_dead rfl h.1
    · exact textInv_of_tcore rfl h

theorem alive_of_core {s t : St} (h : core t = core s) : t.proc.alive = s.proc.alive := congrArg Core.alive h

theorem textInv_traceLoop (fuel : Nat) (s : St) (h : TextInv s) (hal : s.proc.alive = true) :
    TextInv (traceLoop fuel s).1 := by
  induction fuel generalizing s with
  | zero => exact h
  | succ f ih =>
    unfold traceLoop
    simp only []
    have h1 : TextInv (runFrom s s.proc.rest) := textInv_of_tcore (tcore_runFrom _ _) h
    have a1 : (runFrom s s.proc.rest).proc.alive = true := by rw [alive_of_core (core_runFrom _ _)]; exact hal
    split
    · exact textInv_finish _ h1
    · rename_i x _ _
      split
      · exact h1
      · split
        · exact h1
        · apply ih
          · exact textInv_stepOver _ h1 a1
          · rw [alive_of_core (core_stepOver _)]; exact a1
        · apply ih
          · apply textInv_stepOver
            · apply textInv_addAndEnable
              apply textInv_of_tcore (tcore_refreshWps _)
              apply textInv_enableAll
              exact textInv_of_tcore rfl h1
            · rw [alive_of_core (core_addAndEnable _ _), alive_of_core (core_refreshWps _), alive_of_core (core_enableAll _)]
              exact a1
          · rw [alive_of_core (core_stepOver _), alive_of_core (core_addAndEnable _ _),
                alive_of_core (core_refreshWps _), alive_of_core (core_enableAll _)]
            exact a1

/-- a process that has not ended is alive -/
def AliveInv (s : St) : Prop := s.status ≠ .exited → s.proc.alive = true

theorem runEnd_aliveInv {t : St} {r : St × Out} (hr : RunEnd t r) (ha : t.proc.alive = true) : AliveInv r.1 := by
  rcases runEnd_core hr with e | e
  · intro _; rw [alive_of_core e]; exact ha
  · intro hs; have := congrArg Core.status e; simp only [core, Core.died] at this; exact absurd this hs

theorem textInv_startFlow_install (s t : St) (tp : t.prog = s.prog) (ta : ∀ b ∈ t.active, b.saved = s.prog.orig b.addr) :
    TextInv (startFlow (install t)).1 ∧ AliveInv (startFlow (install t)).1 := by
  unfold startFlow
  have hti : TextInv { install t with status := Status.inProgress } :=
    ⟨fun b hb => by show b.saved = t.prog.orig b.addr; rw [tp]; exact ta b hb, fun _ a => Or.inl rfl⟩
  have hal : (enableEntry { install t with status := Status.inProgress }).proc.alive = true := by
    rw [alive_of_core (core_enableEntry _)]; rfl
  exact ⟨textInv_traceLoop _ _ (textInv_enableEntry _ hti) hal, runEnd_aliveInv (runEnd_traceLoop _ _) hal⟩

theorem textInv_restart (s : St) (h : TextInv s) : TextInv (restart s).1 ∧ AliveInv (restart s).1 := by
  unfold restart
  have hd := disableAll_restores (disableWps s) (textInv_of_tcore (tcore_disableWps _) h)
  have hp : (disableWps s).prog = s.prog := congrArg Tcore.prog (tcore_disableWps s)
  have hnil : ∀ b ∈ (disableAll (disableWps s)).active, b.saved = s.prog.orig b.addr := by
    intro b hb; rw [hd.1] at hb; cases hb
  split
  · simp only []
    split
    · exact textInv_startFlow_install s _ (by show (disableAll (disableWps s)).prog = _; rw [hd.2.1, hp]) hnil
    · exact textInv_startFlow_install s _ (by rw [hd.2.1, hp]) hnil
  · simp only []
    split
    · exact textInv_startFlow_install s _ rfl h.1
    · exact textInv_startFlow_install s _ rfl h.1

theorem inv2_exec (s : St) (op : Op) (h : TextInv s) (ha : AliveInv s) :
    TextInv (exec s op).1 ∧ AliveInv (exec s op).1 := by
  unfold exec
  split
  · exact ⟨h, ha⟩
  · cases op with
    | brk a =>
      simp only []
      split
      · refine ⟨textInv_addAndEnable _ _ (textInv_of_tcore rfl h), ?_⟩
        intro hs
        rw [alive_of_core (core_addAndEnable _ _)]
        have : (core (addAndEnable { s with log := [], nextNum := s.nextNum + 1 } { addr := a, kind := .user, num := s.nextNum })).status = s.status :=
          congrArg Core.status (core_addAndEnable _ _)
        exact ha (by simp only [core] at this; rw [← this]; exact hs)
      · exact ⟨textInv_of_tcore rfl h, ha⟩
    | remove a =>
      refine ⟨textInv_removeByAddr _ _ (textInv_of_tcore rfl h), ?_⟩
      intro hs
      have e := core_removeByAddr { s with log := [] } { global := false, addr := a }
      rw [alive_of_core e]
      have := congrArg Core.status e; simp only [core] at this
      exact ha (by rw [← this]; exact hs)
    | watch a =>
      have e := core_watch { s with log := [] } a
      refine ⟨textInv_of_tcore (tcore_watch _ _) (textInv_of_tcore rfl h), ?_⟩
      intro hs
      rw [alive_of_core e]
      have := congrArg Core.status e; simp only [core] at this
      exact ha (by rw [← this]; exact hs)
    | unwatch a =>
      have e := core_unwatch { s with log := [] } a
      refine ⟨textInv_of_tcore (tcore_unwatch _ _) (textInv_of_tcore rfl h), ?_⟩
      intro hs
      rw [alive_of_core e]
      have := congrArg Core.status e; simp only [core] at this
      exact ha (by rw [← this]; exact hs)
    | start =>
      simp only []
      split
      · rename_i hst
        unfold startFlow
        have hal : (enableEntry { ({ s with log := [] } : St) with status := Status.inProgress }).proc.alive = true := by
          rw [alive_of_core (core_enableEntry _)]; exact ha (by rw [hst]; simp)
        exact ⟨textInv_traceLoop _ _ (textInv_enableEntry _ (textInv_of_tcore rfl h)) hal,
               runEnd_aliveInv (runEnd_traceLoop _ _) hal⟩
      · exact ⟨h, ha⟩
    | cont =>
      simp only []
      split
      · rename_i hst
        have hal0 : s.proc.alive = true := ha (by rw [hst]; simp)
        have hal : (stepOver ({ s with log := [] } : St)).proc.alive = true := by
          rw [alive_of_core (core_stepOver _)]; exact hal0
        exact ⟨textInv_traceLoop _ _ (textInv_stepOver _ (textInv_of_tcore rfl h) hal0) hal,
               runEnd_aliveInv (runEnd_traceLoop _ _) hal⟩
      · exact ⟨h, ha⟩
    | restart => exact textInv_restart _ (textInv_of_tcore rfl h)

theorem inv2_execAll (ops : List Op) (s : St) (h : TextInv s) (ha : AliveInv s) :
    TextInv (execAll s ops) ∧ AliveInv (execAll s ops) := by
  induction ops generalizing s with
  | nil => exact ⟨h, ha⟩
  | cons op ops ih => have := inv2_exec s op h ha; exact ih _ this.1 this.2

theorem textInv_initLaunched (p : Prog) : TextInv (initLaunched p) ∧ AliveInv (initLaunched p) :=
  ⟨⟨fun b hb => (by cases hb), fun _ a => Or.inl rfl⟩, fun _ => rfl⟩
theorem textInv_initAttached (p : Prog) (k n : Nat) : TextInv (initAttached p k n) ∧ AliveInv (initAttached p k n) :=
  ⟨⟨fun b hb => (by cases hb), fun _ a => Or.inl rfl⟩, fun _ => rfl⟩

/-- after `detach` the live text is the on-disk text, whatever state `s` satisfying the invariant was in -/
theorem detach_restores_text (s : St) (h : TextInv s) (hal : s.proc.alive = true) (hd : s.detached = false) :
    (detach s).proc.alive = true ∧ ∀ a, (detach s).proc.code a = s.prog.orig a := by
  unfold detach
  rw [if_neg (by simp [hd])]
  obtain ⟨_, _, r3, r4⟩ := disableAll_restores s h
  have e : tcore (releaseThreads (clearAll (disableAll s))) = tcore (disableAll s) := by
    rw [tcore_releaseThreads, tcore_clearAll]
  have ea := congrArg Tcore.alive e; have ec := congrArg Tcore.code e
  simp only [tcore] at ea ec
  refine ⟨?_, fun a => ?_⟩
  · show (releaseThreads (clearAll (disableAll s))).proc.alive = true
    rw [ea, r3]; exact hal
  · show (releaseThreads (clearAll (disableAll s))).proc.code a = _
    rw [ec]; exact r4 hal a

end BsVerif.Life
