import BsVerif.Model.DqeVal
/-! Helper lemmas for `Props/C07.lean`. -/
namespace BsVerif.Dqe

/-- the postfix loop folds the operators it reads, left to right, over its start value -/
theorem parsePosts_shape (n : Nat) (a : Dqe) (s : Str) (e : Dqe) (r : Str) (h : parsePosts n a s = .ok e r) :
    ∃ posts : List Post, e = posts.foldl Post.apply a := by
  induction n generalizing a s with
  | zero =>
    simp only [parsePosts] at h
    injection h with h1 _
    exact ⟨[], by simp [h1]⟩
  | succ n ih =>
    rw [parsePosts] at h
    split at h
    · cases h
    · injection h with h1 _
      exact ⟨[], by simp [h1]⟩
    · next p r' _ =>
      obtain ⟨posts, hp⟩ := ih _ _ h
      exact ⟨p :: posts, by simp [hp]⟩

theorem precedence_shape (f : Nat) (s : Str) (e : Dqe) (r : Str) (h : parseExpr f s = .ok e r) :
    ∃ (pres : List Pre) (atom : Dqe) (posts : List Post),
      e = pres.foldr Pre.apply (posts.foldl Post.apply atom) ∧
      ((∃ n, atom = .var n) ∨ (∃ ty a, atom = .ptrCast ty a) ∨ (∃ f' s' r', parseExpr f' s' = .ok atom r')) := by
  cases f with
  | zero => simp [parseExpr] at h
  | succ f =>
    rw [parseExpr] at h
    simp only at h
    split at h
    · cases h
    · cases h
    · next a ra hatom =>
      split at h
      · next e' r' hposts =>
        injection h with h1 _
        obtain ⟨posts, hp⟩ := parsePosts_shape _ _ _ _ _ hposts
        refine ⟨_, a, posts, by rw [← h1, hp], ?_⟩
        -- which atom
        split at hatom
        · injection hatom with h2 _; exact Or.inl ⟨_, h2.symm⟩
        · split at hatom
          · next e2 r2 hpc =>
            injection hatom with h2 _
            subst h2
            -- ptrCast yields a ptrCast node
            unfold ptrCast at hpc
            repeat (split at hpc <;> try cases hpc)
            exact Or.inr (Or.inl ⟨_, _, rfl⟩)
          · cases hatom
          · split at hatom
            · cases hatom
            · split at hatom
              · cases hatom
              · cases hatom
              · split at hatom
                · injection hatom with h2 _
                  subst h2
                  exact Or.inr (Or.inr ⟨_, _, _, by assumption⟩)
                · cases hatom
      · cases h
      · cases h

end BsVerif.Dqe
