import BsVerif.Model.Context
/-!
Erasure lemmas for `Model/Context.lean`: the machine component of the debugger-with-exploration-context is the
ecx-free breakpoint machine of `Model/Breakpoint.lean` / `Model/StepOps.lean`, for every state, every exploration
context and every command; context-only commands only reset the per-command poke log.
-/
namespace BsVerif.Bp
open BsVerif.Mem

/-! ### 1. `step_over_breakpoint` -/

theorem stepOverBreakpoint_eq (s : St) :
    stepOverBreakpoint s =
      match pc s with
      | none => s
      | some p =>
        match find? s.active p with
        | none => s
        | some b => if b.enabled then stepOverWith s b else s := by
  unfold stepOverBreakpoint stepOverWith
  rfl

theorem stepOverBreakpointC_m (c : CSt) : (stepOverBreakpointC c).m = stepOverBreakpoint c.m := by
  rw [stepOverBreakpoint_eq]
  unfold stepOverBreakpointC
  cases hp : pc c.m with
  | none => rfl
  | some p =>
    simp only []
    cases hf : find? c.m.active p with
    | none => rfl
    | some b =>
      simp only []
      by_cases hb : b.enabled = true
      · simp only [hb, if_true]; rfl
      · simp only [hb]; rfl

/-- the exploration context plays no part in `step_over_breakpoint`'s effect on the machine -/
theorem stepOverBreakpointC_ecx_irrel (m : St) (e e' : Ecx) :
    (stepOverBreakpointC { m := m, ecx := e }).m = (stepOverBreakpointC { m := m, ecx := e' }).m := by
  rw [stepOverBreakpointC_m, stepOverBreakpointC_m]

/-! ### 2. the loop of `continue_execution` -/

theorem traceLoopC_erase : ∀ (f : Nat) (c : CSt),
    (traceLoopC f c).1.m = (traceLoop f c.m).1 ∧ (traceLoopC f c).2 = (traceLoop f c.m).2 := by
  intro f
  induction f with
  | zero => intro c; exact ⟨rfl, rfl⟩
  | succ f ih =>
    intro c
    cases hp : pc (run c.m) with
    | none => simp only [traceLoopC, traceLoop, hp]; exact ⟨trivial, trivial⟩
    | some p =>
      cases hf : find? (run c.m).active p with
      | none => simp only [traceLoopC, traceLoop, hp, hf]; exact ⟨trivial, trivial⟩
      | some b =>
        cases hk : b.kind with
        | user => simp only [traceLoopC, traceLoop, hp, hf, hk]; exact ⟨trivial, trivial⟩
        | temp => simp only [traceLoopC, traceLoop, hp, hf, hk]; exact ⟨trivial, trivial⟩
        | entry =>
          simp only [traceLoopC, traceLoop, hp, hf, hk]
          have := ih (stepOverBreakpointC { m := enableAll (run c.m), ecx := { pc := p, frame := 0 } })
          rw [stepOverBreakpointC_m] at this
          exact this

theorem traceLoopTC_erase : ∀ (f : Nat) (c : CSt),
    (traceLoopTC f c).1.m = (traceLoopT f c.m).1 ∧ (traceLoopTC f c).2 = (traceLoopT f c.m).2 := by
  intro f
  induction f with
  | zero => intro c; exact ⟨rfl, rfl⟩
  | succ f ih =>
    intro c
    cases hp : pc (run c.m) with
    | none => simp only [traceLoopTC, traceLoopT, hp]; exact ⟨trivial, trivial⟩
    | some p =>
      cases hf : find? (run c.m).active p with
      | none => simp only [traceLoopTC, traceLoopT, hp, hf]; exact ⟨trivial, trivial⟩
      | some b =>
        by_cases ht : (hasTemp (run c.m).active && b.kind != Kind.temp) = true
        · simp only [traceLoopTC, traceLoopT, hp, hf, ht, if_true]
          exact ih { c with m := silentStepOver (run c.m) b }
        · have ht' := Bool.eq_false_iff.mpr ht
          cases hk : b.kind with
          | user => simp only [traceLoopTC, traceLoopT, hp, hf, hk] at ht' ⊢; simp only [ht', Bool.false_eq_true, if_false]; exact ⟨trivial, trivial⟩
          | temp => simp only [traceLoopTC, traceLoopT, hp, hf, hk] at ht' ⊢; simp only [ht', Bool.false_eq_true, if_false]; exact ⟨trivial, trivial⟩
          | entry =>
            simp only [traceLoopTC, traceLoopT, hp, hf, hk] at ht' ⊢; simp only [ht', Bool.false_eq_true, if_false]
            have := ih (stepOverBreakpointC { m := enableAll (run c.m), ecx := { pc := p, frame := 0 } })
            rw [stepOverBreakpointC_m] at this
            exact this

theorem continueExecC_erase (c : CSt) :
    (continueExecC c).1.m = (continueExec c.m).1 ∧ (continueExecC c).2 = (continueExec c.m).2 := by
  unfold continueExecC continueExec
  have := traceLoopTC_erase (fuelFor c.m) (stepOverBreakpointC c)
  rw [stepOverBreakpointC_m] at this
  exact this

/-! ### 3. the exploration context after a stop -/

/-- the exploration context shows the thread's real position, frame 0 -/
def Synced (c : CSt) : Prop := c.ecx = { pc := (pc c.m).getD 0, frame := 0 }

theorem synced_ecxUpdate (c : CSt) : Synced (ecxUpdate c) := rfl

theorem ecxUpdate_m (c : CSt) : (ecxUpdate c).m = c.m := rfl

theorem stepOverBreakpointC_synced (c : CSt) (h : Synced c) : Synced (stepOverBreakpointC c) := by
  unfold stepOverBreakpointC
  cases hp : pc c.m with
  | none => exact h
  | some p =>
    simp only []
    cases hf : find? c.m.active p with
    | none => exact h
    | some b =>
      simp only []
      by_cases hb : b.enabled = true
      · simp only [hb, if_true]; exact synced_ecxUpdate _
      · simp only [hb]; exact h

/-- **whenever the loop reports a stop, the exploration context is (the reported pc, frame 0) and the reported pc is
the thread's position** — whatever the context was before -/
theorem traceLoopC_stop : ∀ (f : Nat) (c : CSt) (p : Addr), (traceLoopC f c).2 = .stop p →
    (traceLoopC f c).1.ecx = { pc := p, frame := 0 } ∧ pc (traceLoopC f c).1.m = some p := by
  intro f
  induction f with
  | zero => intro c p h; cases h
  | succ f ih =>
    intro c p
    cases hp : pc (run c.m) with
    | none => simp only [traceLoopC, hp]; intro h; cases h
    | some q =>
      cases hf : find? (run c.m).active q with
      | none => simp only [traceLoopC, hp, hf]; intro h; cases h
      | some b =>
        cases hk : b.kind with
        | user =>
          simp only [traceLoopC, hp, hf, hk]; intro h
          have : q = p := by simpa using h
          subst this; exact ⟨rfl, by first | rfl | exact hp⟩
        | temp =>
          simp only [traceLoopC, hp, hf, hk]; intro h
          have : q = p := by simpa using h
          subst this; exact ⟨rfl, by first | rfl | exact hp⟩
        | entry => simp only [traceLoopC, hp, hf, hk]; exact ih _ p

theorem traceLoopTC_stop : ∀ (f : Nat) (c : CSt) (p : Addr), (traceLoopTC f c).2 = .stop p →
    (traceLoopTC f c).1.ecx = { pc := p, frame := 0 } ∧ pc (traceLoopTC f c).1.m = some p := by
  intro f
  induction f with
  | zero => intro c p h; cases h
  | succ f ih =>
    intro c p
    cases hp : pc (run c.m) with
    | none => simp only [traceLoopTC, hp]; intro h; cases h
    | some q =>
      cases hf : find? (run c.m).active q with
      | none => simp only [traceLoopTC, hp, hf]; intro h; cases h
      | some b =>
        by_cases ht : (hasTemp (run c.m).active && b.kind != Kind.temp) = true
        · simp only [traceLoopTC, hp, hf, ht, if_true]; exact ih _ p
        · have ht' := Bool.eq_false_iff.mpr ht
          cases hk : b.kind with
          | user =>
            simp only [traceLoopTC, hp, hf, hk] at ht' ⊢; simp only [ht', Bool.false_eq_true, if_false]; intro h
            have : q = p := by simpa using h
            subst this; exact ⟨rfl, by first | rfl | exact hp⟩
          | temp =>
            simp only [traceLoopTC, hp, hf, hk] at ht' ⊢; simp only [ht', Bool.false_eq_true, if_false]; intro h
            have : q = p := by simpa using h
            subst this; exact ⟨rfl, by first | rfl | exact hp⟩
          | entry => simp only [traceLoopTC, hp, hf, hk] at ht' ⊢; simp only [ht', Bool.false_eq_true, if_false]; exact ih _ p

theorem synced_of_stop {c : CSt} {p : Addr} (h1 : c.ecx = { pc := p, frame := 0 }) (h2 : pc c.m = some p) :
    Synced c := by
  unfold Synced; rw [h1, h2]; rfl

/-! ### 4. single steps (they READ the exploration context) -/

theorem singleStep_none (s : St) (h : pc s = none) : singleStep s = s := by
  unfold singleStep; rw [h]

theorem stepOverBreakpoint_none (s : St) (h : pc s = none) : stepOverBreakpoint s = s := by
  unfold stepOverBreakpoint; rw [h]

theorem singleStepInstructionC_erase (c : CSt) (h : Synced c) :
    (singleStepInstructionC c).m = singleStepInstruction c.m ∧ Synced (singleStepInstructionC c) := by
  unfold singleStepInstructionC singleStepInstruction
  have he : c.ecx.pc = (pc c.m).getD 0 := by rw [h]
  cases hp : pc c.m with
  | none =>
    simp only []
    cases hf : (find? c.m.active c.ecx.pc).isSome with
    | true =>
      simp only [if_true]
      exact ⟨by rw [stepOverBreakpointC_m, stepOverBreakpoint_none _ hp], stepOverBreakpointC_synced c h⟩
    | false =>
      simp only [Bool.false_eq_true, if_false]
      exact ⟨by rw [ecxUpdate_m]; exact singleStep_none _ hp, synced_ecxUpdate _⟩
  | some p =>
    have hpc : c.ecx.pc = p := by rw [he, hp]; rfl
    rw [hpc]
    simp only []
    cases hf : (find? c.m.active p).isSome with
    | true =>
      simp only [if_true]
      exact ⟨stepOverBreakpointC_m c, stepOverBreakpointC_synced c h⟩
    | false =>
      simp only [Bool.false_eq_true, if_false]
      exact ⟨rfl, synced_ecxUpdate _⟩

theorem stepNC_erase : ∀ (k : Nat) (c : CSt), Synced c →
    (stepNC k c).m = stepN k c.m ∧ Synced (stepNC k c) := by
  intro k
  induction k with
  | zero => intro c h; exact ⟨rfl, h⟩
  | succ k ih =>
    intro c h
    obtain ⟨h1, h2⟩ := singleStepInstructionC_erase c h
    obtain ⟨i1, i2⟩ := ih _ h2
    unfold stepNC stepN
    exact ⟨by rw [i1, h1], i2⟩

/-! ### 5. `next` / `finish` -/

theorem removeByAddr_pc (s : St) (k : UKey) : pc (removeByAddr s k).1 = pc s := by
  unfold removeByAddr
  split
  · rfl
  · split
    · rfl
    · split
      · rfl
      · split <;> rfl

theorem foldl_removeByAddr_pc (temps : List Addr) : ∀ s : St,
    pc (temps.foldl (fun acc a => (removeByAddr acc { global := false, addr := a }).1) s) = pc s := by
  induction temps with
  | nil => intro s; rfl
  | cons a t ih => intro s; rw [List.foldl_cons, ih, removeByAddr_pc]

theorem tempRunC_erase (c : CSt) (temps : List Addr) (k : Nat) :
    (tempRunC c temps k).1.m = (tempRun c.m temps k).1 ∧ (tempRunC c temps k).2 = (tempRun c.m temps k).2 := by
  unfold tempRunC tempRun
  generalize temps.foldl (fun acc a => addAndEnable acc { addr := a, kind := .temp }) c.m = m1
  obtain ⟨e1, e2⟩ := continueExecC_erase { c with m := m1 }
  have hstop : ∀ p, (continueExecC { c with m := m1 }).2 = .stop p →
      (continueExecC { c with m := m1 }).1.ecx = { pc := p, frame := 0 } ∧
      pc (continueExecC { c with m := m1 }).1.m = some p := fun p => traceLoopTC_stop _ _ p
  simp only []
  rw [← e1, ← e2]
  generalize continueExecC { c with m := m1 } = r at hstop ⊢
  obtain ⟨c2, o⟩ := r
  cases o with
  | stop p =>
    simp only []
    obtain ⟨x1, x2⟩ := hstop p rfl
    have hsync : Synced { c2 with m := temps.foldl (fun acc a => (removeByAddr acc { global := false, addr := a }).1) c2.m } :=
      synced_of_stop x1 (by rw [foldl_removeByAddr_pc]; exact x2)
    obtain ⟨y1, _⟩ := stepNC_erase k _ hsync
    exact ⟨by rw [ecxUpdate_m]; exact y1, trivial⟩
  | ok => simp only []; exact ⟨trivial, trivial⟩
  | none => simp only []; exact ⟨trivial, trivial⟩
  | err => simp only []; exact ⟨trivial, trivial⟩
  | exit _ => simp only []; exact ⟨trivial, trivial⟩
  | corrupt => simp only []; exact ⟨trivial, trivial⟩
  | outOfFuel => simp only []; exact ⟨trivial, trivial⟩

/-! ### 6. commands -/

/-- equal up to the per-command poke log -/
def PokeEq (s s' : St) : Prop := ({ s with pokes := [] } : St) = { s' with pokes := [] }

theorem PokeEq.refl (s : St) : PokeEq s s := rfl
theorem PokeEq.reset (s : St) : PokeEq { s with pokes := [] } s := rfl
theorem PokeEq.trans {a b c : St} (h1 : PokeEq a b) (h2 : PokeEq b c) : PokeEq a c := Eq.trans h1 h2
theorem PokeEq.code {s s'} (h : PokeEq s s') : s.code = s'.code := by
  unfold PokeEq at h; have h' := congrArg St.code h; exact h'
theorem PokeEq.active {s s'} (h : PokeEq s s') : s.active = s'.active := by
  unfold PokeEq at h; have h' := congrArg St.active h; exact h'
theorem PokeEq.uninit {s s'} (h : PokeEq s s') : s.uninit = s'.uninit := by
  unfold PokeEq at h; have h' := congrArg St.uninit h; exact h'
theorem PokeEq.idx {s s'} (h : PokeEq s s') : s.idx = s'.idx := by
  unfold PokeEq at h; have h' := congrArg St.idx h; exact h'
theorem PokeEq.τ {s s'} (h : PokeEq s s') : s.τ = s'.τ := by
  unfold PokeEq at h; have h' := congrArg St.τ h; exact h'
theorem PokeEq.status {s s'} (h : PokeEq s s') : s.status = s'.status := by
  unfold PokeEq at h; have h' := congrArg St.status h; exact h'
theorem PokeEq.execd {s s'} (h : PokeEq s s') : s.execd = s'.execd := by
  unfold PokeEq at h; have h' := congrArg St.execd h; exact h'
theorem PokeEq.exitCode {s s'} (h : PokeEq s s') : s.exitCode = s'.exitCode := by
  unfold PokeEq at h; have h' := congrArg St.exitCode h; exact h'

/-- every command starts a fresh poke log: the log left by the previous command is irrelevant -/
theorem exec_reset (s : St) (op : Op) : exec { s with pokes := [] } op = exec s op := rfl

theorem exec_pokeEq {s s' : St} (h : PokeEq s s') (op : Op) : exec s op = exec s' op := by
  rw [← exec_reset s, ← exec_reset s']
  unfold PokeEq at h
  rw [h]

theorem execS_reset (s : St) (op : SOp) : execS { s with pokes := [] } op = execS s op := by
  cases op with
  | base op => cases op <;> rfl
  | stepn k => rfl
  | tempRun t k => rfl

theorem execS_pokeEq {s s' : St} (h : PokeEq s s') (op : SOp) : execS s op = execS s' op := by
  rw [← execS_reset s, ← execS_reset s']
  unfold PokeEq at h
  rw [h]

/-- a context-only command does nothing to the machine except starting a fresh poke log -/
theorem execCtx_m (c : CSt) (x : CtxOp) : (execCtx c x).1.m = { c.m with pokes := [] } := by
  unfold execCtx
  cases hs : c.m.status <;> simp only [hs]
  cases x with
  | frame k ip => cases ip <;> rfl
  | backtrace ok => cases ok <;> rfl
  | locals ok => cases ok <;> rfl

theorem execC_ctx_m (c : CSt) (x : CtxOp) : (execC c (.ctx x)).1.m = { c.m with pokes := [] } := execCtx_m c x

theorem execC_ctx_out (c : CSt) (x : CtxOp) : (execC c (.ctx x)).2 = .ctx (execCtx c x).2 := rfl

theorem execBaseC_erase (c : CSt) (op : Op) :
    (execBaseC c op).1.m = (exec c.m op).1 ∧ (execBaseC c op).2 = (exec c.m op).2 := by
  cases op with
  | brk a => exact ⟨rfl, rfl⟩
  | remove a => exact ⟨rfl, rfl⟩
  | start =>
    cases hs : c.m.status with
    | unload =>
      simp only [execBaseC, exec, hs]
      exact traceLoopC_erase _ _
    | inProgress => simp only [execBaseC, exec, hs]; exact ⟨trivial, trivial⟩
    | exited => simp only [execBaseC, exec, hs]; exact ⟨trivial, trivial⟩
  | cont =>
    cases hs : c.m.status with
    | inProgress =>
      simp only [execBaseC, exec, hs]
      have := traceLoopC_erase (fuelFor { c.m with pokes := [] }) (stepOverBreakpointC { c with m := { c.m with pokes := [] } })
      simp only [stepOverBreakpointC_m, hs] at this
      exact this
    | unload => simp only [execBaseC, exec, hs]; exact ⟨trivial, trivial⟩
    | exited => simp only [execBaseC, exec, hs]; exact ⟨trivial, trivial⟩

theorem execC_base_erase (c : CSt) (op : Op) :
    (execC c (.base op)).1.m = (exec c.m op).1 ∧ (execC c (.base op)).2 = .base (exec c.m op).2 := by
  obtain ⟨h1, h2⟩ := execBaseC_erase c op
  unfold execC
  exact ⟨h1, by rw [← h2]⟩

theorem execAllC_cons (c : CSt) (op : COp) (ops : List COp) :
    execAllC c (op :: ops) = ((execAllC (execC c op).1 ops).1, (execC c op).2 :: (execAllC (execC c op).1 ops).2) := rfl

theorem execAll_cons' (s : St) (op : Op) (ops : List Op) :
    execAll s (op :: ops) = ((execAll (exec s op).1 ops).1, (exec s op).2 :: (execAll (exec s op).1 ops).2) := rfl

/-- **erasure of whole histories**: from machine states that agree up to the poke log, a history with context-only
commands interleaved leaves the machine where the history without them does (up to the poke log of the last command)
and the answers to the remaining commands are the same, one by one -/
theorem execAllC_erase : ∀ (cops : List COp) (c : CSt) (s : St), PokeEq c.m s →
    PokeEq (execAllC c cops).1.m (execAll s (eraseCtx cops)).1 ∧
    baseOuts (execAllC c cops).2 = (execAll s (eraseCtx cops)).2 := by
  intro cops
  induction cops with
  | nil => intro c s h; exact ⟨h, rfl⟩
  | cons op cops ih =>
    intro c s h
    rw [execAllC_cons]
    cases op with
    | ctx x =>
      have hm := execC_ctx_m c x
      have h' : PokeEq (execC c (.ctx x)).1.m s := by rw [hm]; exact (PokeEq.reset c.m).trans h
      obtain ⟨i1, i2⟩ := ih _ s h'
      exact ⟨i1, by rw [execC_ctx_out]; exact i2⟩
    | base bop =>
      obtain ⟨e1, e2⟩ := execC_base_erase c bop
      have hx : exec c.m bop = exec s bop := exec_pokeEq h bop
      have h' : PokeEq (execC c (.base bop)).1.m (exec s bop).1 := by rw [e1, hx]; exact PokeEq.refl _
      obtain ⟨i1, i2⟩ := ih _ _ h'
      show PokeEq _ (execAll s (bop :: eraseCtx cops)).1 ∧ _ = (execAll s (bop :: eraseCtx cops)).2
      rw [execAll_cons']
      refine ⟨i1, ?_⟩
      rw [e2, hx]
      show _ :: baseOuts _ = _
      rw [i2]

/-! ### 7. the step alphabet of C02 -/

theorem execSBaseC_erase (c : CSt) (op : SOp) :
    (execSBaseC c op).1.m = (execS c.m op).1 ∧ (execSBaseC c op).2 = (execS c.m op).2 := by
  cases op with
  | base op =>
    cases op with
    | brk a => exact ⟨rfl, rfl⟩
    | remove a => exact ⟨rfl, rfl⟩
    | start =>
      obtain ⟨h1, h2⟩ := execBaseC_erase c .start
      simp only [execSBaseC, execS]
      exact ⟨h1, by rw [h2]⟩
    | cont =>
      cases hs : c.m.status with
      | inProgress =>
        obtain ⟨h1, h2⟩ := continueExecC_erase { c with m := { c.m with pokes := [] } }
        simp only [execSBaseC, execS, hs]
        simp only [hs] at h1 h2
        exact ⟨h1, by rw [h2]⟩
      | unload => simp only [execSBaseC, execS, hs]; exact ⟨trivial, trivial⟩
      | exited => simp only [execSBaseC, execS, hs]; exact ⟨trivial, trivial⟩
  | stepn k =>
    cases hs : c.m.status with
    | inProgress =>
      obtain ⟨h1, _⟩ := stepNC_erase k (ecxUpdate { c with m := { c.m with pokes := [] } }) (synced_ecxUpdate _)
      simp only [execSBaseC, execS, hs]
      rw [ecxUpdate_m] at h1
      simp only [hs] at h1
      exact ⟨h1, by rw [h1]⟩
    | unload => simp only [execSBaseC, execS, hs]; exact ⟨trivial, trivial⟩
    | exited => simp only [execSBaseC, execS, hs]; exact ⟨trivial, trivial⟩
  | tempRun temps k =>
    cases hs : c.m.status with
    | inProgress =>
      obtain ⟨h1, h2⟩ := tempRunC_erase (ecxUpdate { c with m := { c.m with pokes := [] } }) temps k
      rw [ecxUpdate_m] at h1 h2
      simp only [execSBaseC, execS, hs]
      simp only [hs] at h1 h2
      rw [← h1, ← h2]
      generalize tempRunC _ temps k = r
      obtain ⟨c', o⟩ := r
      cases o <;> exact ⟨rfl, rfl⟩
    | unload => simp only [execSBaseC, execS, hs]; exact ⟨trivial, trivial⟩
    | exited => simp only [execSBaseC, execS, hs]; exact ⟨trivial, trivial⟩

theorem execSC_ctx_m (c : CSt) (x : CtxOp) : (execSC c (.ctx x)).1.m = { c.m with pokes := [] } := execCtx_m c x

theorem execAllSC_cons (c : CSt) (op : CSOp) (ops : List CSOp) :
    execAllSC c (op :: ops) = ((execAllSC (execSC c op).1 ops).1, (execSC c op).2 :: (execAllSC (execSC c op).1 ops).2) := rfl

theorem execAllS_cons (s : St) (op : SOp) (ops : List SOp) :
    execAllS s (op :: ops) = ((execAllS (execS s op).1 ops).1, (execS s op).2 :: (execAllS (execS s op).1 ops).2) := rfl

theorem execAllSC_erase : ∀ (cops : List CSOp) (c : CSt) (s : St), PokeEq c.m s →
    PokeEq (execAllSC c cops).1.m (execAllS s (eraseCtxS cops)).1 ∧
    baseOutsS (execAllSC c cops).2 = (execAllS s (eraseCtxS cops)).2 := by
  intro cops
  induction cops with
  | nil => intro c s h; exact ⟨h, rfl⟩
  | cons op cops ih =>
    intro c s h
    rw [execAllSC_cons]
    cases op with
    | ctx x =>
      have hm := execSC_ctx_m c x
      have h' : PokeEq (execSC c (.ctx x)).1.m s := by rw [hm]; exact (PokeEq.reset c.m).trans h
      obtain ⟨i1, i2⟩ := ih _ s h'
      exact ⟨i1, i2⟩
    | base bop =>
      obtain ⟨e1, e2⟩ := execSBaseC_erase c bop
      have hx : execS c.m bop = execS s bop := execS_pokeEq h bop
      have e1' : (execSC c (.base bop)).1.m = (execS s bop).1 := by rw [← hx]; exact e1
      have e2' : (execSC c (.base bop)).2 = .base (execS s bop).2 := by
        rw [← hx, ← e2]; rfl
      have h' : PokeEq (execSC c (.base bop)).1.m (execS s bop).1 := by rw [e1']; exact PokeEq.refl _
      obtain ⟨i1, i2⟩ := ih _ _ h'
      show PokeEq _ (execAllS s (bop :: eraseCtxS cops)).1 ∧ _ = (execAllS s (bop :: eraseCtxS cops)).2
      rw [execAllS_cons]
      refine ⟨i1, ?_⟩
      rw [e2']
      show _ :: baseOutsS _ = _
      rw [i2]

end BsVerif.Bp
