import BsVerif.Model.MemIO
namespace BsVerif.MemIO
open BsVerif.Gen.Regs

/-! ## Registers: table facts (re-checked by `decide` whenever `Gen/Regs.lean` is regenerated) -/

/-- `value` and `update` have an arm for every register and use the same field -/
theorem regs_value_update_agree :
    (List.range numRegs).all (fun r =>
      lookup valueTable r == lookup updateTable r && (lookup valueTable r).isSome) = true := by
  decide

/-- distinct registers use distinct fields -/
theorem regs_value_injective :
    (List.range numRegs).all (fun r => (List.range numRegs).all (fun r' =>
      r == r' || lookup valueTable r != lookup valueTable r')) = true := by
  decide

theorem regs_kernel_fact :
    (List.range numRegs).all (fun r =>
      match kernelFieldOf r, lookup updateTable r with
      | some kf, some fr =>
        lookup valueTable r == some fr && lookup fromUserTable fr == some kf &&
          lookup toUserTable kf == some fr && decide (kf < kernelFields.length)
      | _, _ => false) = true := by
  decide

theorem regs_user_inverse :
    (List.range kernelFields.length).all (fun g =>
      match lookup toUserTable g with
      | some f => lookup fromUserTable f == some g
      | none => false) = true := by
  decide


theorem reg_roundtrip (m : RegFile) (r : Nat) (hr : r < numRegs) (v : Nat) :
    RegisterMap.value (RegisterMap.update m r v) r = v ∧
    ∀ r', r' < numRegs → r' ≠ r →
      RegisterMap.value (RegisterMap.update m r v) r' = RegisterMap.value m r' := by
  have hA := regs_value_update_agree
  have hI := regs_value_injective
  rw [List.all_eq_true] at hA hI
  have hAr := hA r (List.mem_range.2 hr)
  simp only [Bool.and_eq_true, beq_iff_eq] at hAr
  obtain ⟨hvu, hsome⟩ := hAr
  obtain ⟨f, hf⟩ := Option.isSome_iff_exists.1 hsome
  have hu : lookup updateTable r = some f := by rw [← hvu, hf]
  refine ⟨?_, ?_⟩
  · simp [RegisterMap.value, RegisterMap.update, hf, hu]
  · intro r' hr' hne
    have hAr' := hA r' (List.mem_range.2 hr')
    simp only [Bool.and_eq_true, beq_iff_eq] at hAr'
    obtain ⟨f', hf'⟩ := Option.isSome_iff_exists.1 hAr'.2
    have hInj := hI r' (List.mem_range.2 hr')
    rw [List.all_eq_true] at hInj
    have h2 := hInj r (List.mem_range.2 hr)
    simp only [Bool.or_eq_true, beq_iff_eq, bne_iff_ne, ne_eq] at h2
    have hff : f' ≠ f := by
      rcases h2 with h2 | h2
      · exact absurd h2 hne
      · intro h; apply h2; rw [hf', hf, h]
    simp [RegisterMap.value, RegisterMap.update, hf', hu, hff]

theorem reg_write_visible (k : RegFile) (r : Nat) (hr : r < numRegs) (v : Nat) :
    ∃ kf, kernelFieldOf r = some kf ∧
      (∀ g, g < kernelFields.length → setRegisterValue k r v g = if g = kf then v else k g) ∧
      getRegisterValue (setRegisterValue k r v) r = v := by
  have hK := regs_kernel_fact
  have hU := regs_user_inverse
  rw [List.all_eq_true] at hK hU
  have hKr := hK r (List.mem_range.2 hr)
  split at hKr
  next kf fr hkf hfr =>
    simp only [Bool.and_eq_true, beq_iff_eq, decide_eq_true_eq] at hKr
    obtain ⟨⟨⟨hval, hfrom⟩, hto⟩, hlt⟩ := hKr
    have hset : ∀ g, g < kernelFields.length →
        setRegisterValue k r v g = if g = kf then v else k g := by
      intro g hg
      have hUg := hU g (List.mem_range.2 hg)
      split at hUg
      next f hf =>
        simp only [beq_iff_eq] at hUg
        by_cases hgk : g = kf
        · subst hgk
          have : f = fr := by rw [hto] at hf; exact (Option.some.inj hf).symm
          subst this
          simp [setRegisterValue, RegisterMap.toUser, RegisterMap.update, hfr, hf]
        · have hne : f ≠ fr := by
            intro h; subst h; rw [hfrom] at hUg; exact hgk (Option.some.inj hUg).symm
          simp [setRegisterValue, RegisterMap.toUser, RegisterMap.update, RegisterMap.fromUser,
            hfr, hf, hne, hUg, hgk]
      next => exact absurd hUg (by simp)
    refine ⟨kf, hkf, hset, ?_⟩
    simp only [getRegisterValue, RegisterMap.value, hval, RegisterMap.fromUser, hfrom]
    rw [hset kf hlt]; simp
  next => exact absurd hKr (by simp)


/-! ## Disassembly -/

theorem disasm_masks_patches (start stop : Nat) (orig text : List Byte) (bps : List Bp)
    (hlen : orig.length = stop - start) (htl : text.length = orig.length)
    (hsaved : ∀ bp ∈ bps, start ≤ bp.addr → bp.addr < stop → orig[bp.addr - start]? = some bp.saved)
    (hagree : ∀ i, i < orig.length → (∀ bp ∈ bps, bp.addr ≠ start + i) → text[i]? = orig[i]?) :
    maskPatches start stop text bps = .ok orig := by
  induction bps generalizing text with
  | nil =>
    have : text = orig := by
      apply List.ext_getElem?
      intro i
      by_cases hi : i < orig.length
      · exact hagree i hi (by simp)
      · rw [List.getElem?_eq_none (by omega), List.getElem?_eq_none (by omega)]
    simp [maskPatches, this]
  | cons bp rest ih =>
    have hsaved' : ∀ b ∈ rest, start ≤ b.addr → b.addr < stop →
        orig[b.addr - start]? = some b.saved := fun b hb => hsaved b (by simp [hb])
    unfold maskPatches maskOne
    by_cases hc : start ≤ bp.addr ∧ bp.addr < stop
    · have hidx : bp.addr - start < text.length := by omega
      simp only [hc, and_self, if_true, hidx]
      apply ih
      · simp [htl]
      · exact hsaved'
      · intro i hi hrest
        by_cases hii : i = bp.addr - start
        · subst hii
          rw [List.getElem?_set_self hidx]
          exact (hsaved bp (by simp) hc.1 hc.2).symm
        · rw [List.getElem?_set_ne (by omega)]
          apply hagree i hi
          intro b hb
          rcases List.mem_cons.1 hb with h | h
          · subst h; omega
          · exact hrest b h
    · simp only [hc, if_false]
      apply ih text htl hsaved'
      intro i hi hrest
      apply hagree i hi
      intro b hb
      rcases List.mem_cons.1 hb with h | h
      · subst h; omega
      · exact hrest b h

theorem disasm_total (start stop : Nat) (text : List Byte) (bps : List Bp)
    (htl : text.length = stop - start) :
    ∃ t, maskPatches start stop text bps = .ok t ∧ t.length = text.length := by
  induction bps generalizing text with
  | nil => exact ⟨text, rfl, rfl⟩
  | cons bp rest ih =>
    unfold maskPatches maskOne
    by_cases hc : start ≤ bp.addr ∧ bp.addr < stop
    · have hidx : bp.addr - start < text.length := by omega
      simp only [hc, and_self, if_true, hidx]
      obtain ⟨t, ht, hl⟩ := ih (text.set (bp.addr - start) bp.saved) (by simp [htl])
      exact ⟨t, ht, by simpa using hl⟩
    · simp only [hc, if_false]
      exact ih text htl

/-- the witness of the repaired defect: a breakpoint exactly at the end address is ignored -/
theorem disasm_end_bp_ignored : maskPatches 0 1 [0x90] [⟨1, 0⟩] = .ok [0x90] := by
  simp [maskPatches, maskOne]


/-! ## setVariable scalars -/

theorem length_wordBytes (n w : Nat) : (wordBytes n w).length = n := by
  induction n generalizing w with
  | zero => rfl
  | succ n ih => simp [wordBytes, ih]

theorem leWord_wordBytes (n w : Nat) : leWord (wordBytes n w) = w % 256 ^ n := by
  induction n generalizing w with
  | zero => simp [wordBytes, leWord, Nat.mod_one]
  | succ n ih =>
    have hb : (UInt8.ofNat (w % 256)).toNat = w % 256 := by
      rw [UInt8.toNat_ofNat']; omega
    simp only [wordBytes, leWord, ih, hb]
    rw [Nat.pow_succ 256 n, Nat.mul_comm (256 ^ n) 256, Nat.mod_mul]

/-- the witness of the repaired defect: "300" does not fit a u8 and is refused (44 was stored before) -/
theorem setvar_u8_300 : parseInt IntKind.u8.signed (trim "300".toList) = some 300 ∧ ¬ IntKind.u8.inRange 300 ∧ parseSetInt .u8 "300".toList = none := by
  refine ⟨by decide, ?_, by decide⟩
  simp [IntKind.inRange, IntKind.signed, IntKind.bytes]

theorem setvar_int_roundtrip (k : IntKind) (s : List Char) (i : Int)
    (hp : parseInt k.signed (trim s) = some i) (hr : k.inRange i) :
    ∃ bs, parseSetInt k s = some bs ∧ bs.length = k.bytes ∧ decodeInt k bs = i := by
  refine ⟨wordBytes k.bytes (i % (2 ^ (8 * k.bytes) : Nat)).toNat, ?_, length_wordBytes _ _, ?_⟩
  · simp only [parseSetInt, hp, if_pos hr]
  · simp only [decodeInt, leWord_wordBytes]
    cases k <;> simp [IntKind.inRange, IntKind.bytes, IntKind.signed] at hr ⊢ <;> omega

theorem setvar_range (k : IntKind) (s : List Char) (i : Int)
    (hp : parseInt k.signed (trim s) = some i) (hr : ¬ k.inRange i) : parseSetInt k s = none := by
  simp only [parseSetInt, hp, if_neg hr]

/-- whatever is accepted decodes to the parsed value, which lies in the range of the type -/
theorem setvar_accepted (k : IntKind) (s : List Char) (bs : List Byte) (h : parseSetInt k s = some bs) :
    ∃ i, parseInt k.signed (trim s) = some i ∧ k.inRange i ∧ bs.length = k.bytes ∧ decodeInt k bs = i := by
  cases hp : parseInt k.signed (trim s) with
  | none => simp [parseSetInt, hp] at h
  | some i =>
    by_cases hr : k.inRange i
    · obtain ⟨bs', hbs', hl, hd⟩ := setvar_int_roundtrip k s i hp hr
      rw [h] at hbs'
      injection hbs' with hbs'
      subst hbs'
      exact ⟨i, rfl, hr, hl, hd⟩
    · rw [setvar_range k s i hp hr] at h
      cases h

end BsVerif.MemIO
