import BsVerif.Model.MemIO
/-! Helper lemmas for `Props/C15.lean` (model: `Model/MemIO.lean`). -/
namespace BsVerif.MemIO

/-! ## `MappedRange` / `bytesAt` -/

theorem mappedRange_succ (m : Mem) (a n : Nat) :
    MappedRange m a (n + 1) ↔ (m a).isSome = true ∧ MappedRange m (a + 1) n := by
  constructor
  · intro h
    refine ⟨by simpa using h 0 (by omega), ?_⟩
    intro i hi
    have := h (i + 1) (by omega)
    rwa [show a + (i + 1) = a + 1 + i by omega] at this
  · rintro ⟨h0, h⟩ i hi
    cases i with
    | zero => simpa using h0
    | succ j =>
      have := h j (by omega)
      rwa [show a + 1 + j = a + (j + 1) by omega] at this

theorem bytesAt_succ (m : Mem) (a n : Nat) :
    bytesAt m a (n + 1) = (m a).bind fun b => (bytesAt m (a + 1) n).map (b :: ·) := by
  rw [bytesAt]
  cases m a <;> cases bytesAt m (a + 1) n <;> rfl

theorem bytesAt_isSome_iff (m : Mem) (a n : Nat) :
    (bytesAt m a n).isSome = true ↔ MappedRange m a n := by
  induction n generalizing a with
  | zero => simp [bytesAt, MappedRange]
  | succ n ih =>
    rw [mappedRange_succ, ← ih, bytesAt_succ]
    cases hm : m a <;> cases hb : bytesAt m (a + 1) n <;> simp

theorem bytesAt_spec (m : Mem) (a n : Nat) (bs : List Byte) (h : bytesAt m a n = some bs) :
    bs.length = n ∧ ∀ i, i < n → m (a + i) = bs[i]? := by
  induction n generalizing a bs with
  | zero =>
    simp [bytesAt] at h
    subst h
    simp
  | succ n ih =>
    rw [bytesAt_succ] at h
    cases hm : m a with
    | none => simp [hm] at h
    | some b =>
      cases hb : bytesAt m (a + 1) n with
      | none => simp [hm, hb] at h
      | some tl =>
        simp [hm, hb] at h
        subst h
        obtain ⟨hl, hi⟩ := ih (a + 1) tl hb
        refine ⟨by simp [hl], ?_⟩
        intro i hlt
        cases i with
        | zero => simpa using hm
        | succ j =>
          have := hi j (by omega)
          rw [show a + (j + 1) = a + 1 + j by omega, this]
          simp

theorem bytesAt_eq_some_iff (m : Mem) (a n : Nat) (bs : List Byte) :
    bytesAt m a n = some bs ↔ (bs.length = n ∧ ∀ i, i < n → m (a + i) = bs[i]?) := by
  constructor
  · exact bytesAt_spec m a n bs
  · rintro ⟨hl, hi⟩
    have hmap : MappedRange m a n := by
      intro i hlt
      rw [hi i hlt]
      simp [List.getElem?_eq_getElem (show i < bs.length by omega)]
    have hs := (bytesAt_isSome_iff m a n).2 hmap
    obtain ⟨bs', hbs'⟩ := Option.isSome_iff_exists.1 hs
    obtain ⟨hl', hi'⟩ := bytesAt_spec m a n bs' hbs'
    rw [hbs']
    congr 1
    apply List.ext_getElem?
    intro i
    by_cases hlt : i < n
    · rw [← hi i hlt, ← hi' i hlt]
    · rw [List.getElem?_eq_none (by omega), List.getElem?_eq_none (by omega)]

theorem bytesAt_eq_none_iff (m : Mem) (a n : Nat) :
    bytesAt m a n = none ↔ ¬ MappedRange m a n := by
  rw [← bytesAt_isSome_iff]
  cases bytesAt m a n <;> simp

theorem bytesAt_take (m : Mem) (a n k : Nat) (w : List Byte) (h : bytesAt m a n = some w)
    (hk : k ≤ n) : bytesAt m a k = some (w.take k) := by
  obtain ⟨hl, hi⟩ := bytesAt_spec m a n w h
  rw [bytesAt_eq_some_iff]
  refine ⟨by simp [hl]; omega, ?_⟩
  intro i hlt
  rw [hi i (by omega), List.getElem?_take]
  simp [hlt]

theorem bytesAt_append (m : Mem) (a k l : Nat) (x y : List Byte) (hx : bytesAt m a k = some x)
    (hy : bytesAt m (a + k) l = some y) : bytesAt m a (k + l) = some (x ++ y) := by
  obtain ⟨hlx, hix⟩ := bytesAt_spec m a k x hx
  obtain ⟨hly, hiy⟩ := bytesAt_spec m (a + k) l y hy
  rw [bytesAt_eq_some_iff]
  refine ⟨by simp [hlx, hly], ?_⟩
  intro i hlt
  by_cases hik : i < k
  · rw [hix i hik, List.getElem?_append_left (by omega)]
  · rw [List.getElem?_append_right (by omega), hlx]
    have := hiy (i - k) (by omega)
    rw [← this]
    congr 1
    omega

theorem mappedRange_add (m : Mem) (a k l : Nat) :
    MappedRange m a (k + l) ↔ MappedRange m a k ∧ MappedRange m (a + k) l := by
  constructor
  · intro h
    refine ⟨fun i hi => h i (by omega), fun i hi => ?_⟩
    have := h (k + i) (by omega)
    rwa [show a + (k + i) = a + k + i by omega] at this
  · rintro ⟨h1, h2⟩ i hi
    by_cases hik : i < k
    · exact h1 i hik
    · have := h2 (i - k) (by omega)
      rwa [show a + k + (i - k) = a + i by omega] at this

theorem mappedRange_mono (m : Mem) (a n b k : Nat) (h : MappedRange m a n) (h1 : a ≤ b)
    (h2 : b + k ≤ a + n) : MappedRange m b k := by
  intro i hi
  have := h (b - a + i) (by omega)
  rwa [show a + (b - a + i) = b + i by omega] at this

/-! ## `leWord` / `wordBytes` -/

theorem wordBytes_leWord (bs : List Byte) : wordBytes bs.length (leWord bs) = bs := by
  induction bs with
  | nil => simp [wordBytes]
  | cons b tl ih =>
    have hb : b.toNat < 256 := UInt8.toNat_lt b
    simp only [List.length_cons, leWord, wordBytes]
    rw [show (b.toNat + 256 * leWord tl) % 256 = b.toNat by omega,
      show (b.toNat + 256 * leWord tl) / 256 = leWord tl by omega, ih]
    simp

theorem wordBytes_length (k w : Nat) : (wordBytes k w).length = k := by
  induction k generalizing w with
  | zero => simp [wordBytes]
  | succ k ih => simp [wordBytes, ih]

/-! ## Reads -/

/-- what the final partial word of a read needs besides the requested bytes: nothing when the length is a
multiple of the word size or at least one word long (the word ending at `a+n` lies inside `[a, a+n)`);
for a read shorter than a word, one of the two words `[a, a+8)` / `[a+n-8, a+n)` -/
def TailOk (m : Mem) (a n : Nat) : Prop :=
  n = 0 ∨ 8 ≤ n ∨ MappedRange m a 8 ∨ (8 ≤ a + n ∧ MappedRange m (a + n - 8) 8)

theorem wordBytes_leWord8 (w : List Byte) (h : w.length = 8) : wordBytes 8 (leWord w) = w := by
  have := wordBytes_leWord w
  rwa [h] at this

theorem bytesAt_drop (m : Mem) (a n k : Nat) (w : List Byte) (h : bytesAt m a n = some w)
    (hk : k ≤ n) : bytesAt m (a + k) (n - k) = some (w.drop k) := by
  obtain ⟨hl, hi⟩ := bytesAt_spec m a n w h
  rw [bytesAt_eq_some_iff]
  refine ⟨by simp [hl], ?_⟩
  intro i hlt
  rw [show a + k + i = a + (k + i) by omega, hi (k + i) (by omega), List.getElem?_drop]

theorem peek_eq_some (m : Mem) (a : Nat) (w : List Byte) (h : bytesAt m a 8 = some w) :
    peek m a = some (leWord w) ∧ wordBytes 8 (leWord w) = w := by
  refine ⟨by simp [peek, h], wordBytes_leWord8 w (bytesAt_spec _ _ _ _ h).1⟩

theorem peek_eq_none_iff (m : Mem) (a : Nat) : peek m a = none ↔ ¬ MappedRange m a 8 := by
  rw [← bytesAt_eq_none_iff, peek]
  cases bytesAt m a 8 <;> simp

/-- whatever the read returns is `acc` followed by exactly the requested bytes -/
theorem readLoop_sound (m : Mem) (addr rem : Nat) (acc r : List Byte)
    (h : readLoop m addr rem acc = some r) : ∃ bs, bytesAt m addr rem = some bs ∧ r = acc ++ bs := by
  induction rem using Nat.strongRecOn generalizing addr acc with
  | _ rem ih =>
    rw [readLoop] at h
    by_cases h0 : rem = 0
    · subst h0
      simp at h
      exact ⟨[], by simp [bytesAt], by simp [h]⟩
    · rw [if_neg h0] at h
      by_cases h8 : 8 ≤ rem
      · rw [if_pos h8] at h
        cases hw : bytesAt m addr 8 with
        | none =>
          rw [(peek_eq_none_iff m addr).2 ((bytesAt_eq_none_iff _ _ _).1 hw)] at h
          simp at h
        | some w =>
          obtain ⟨hp, hrt⟩ := peek_eq_some m addr w hw
          rw [hp] at h
          simp only [hrt] at h
          obtain ⟨bs, hbs, hr⟩ := ih (rem - 8) (by omega) (addr + 8) (acc ++ w) h
          refine ⟨w ++ bs, ?_, by rw [hr, List.append_assoc]⟩
          have := bytesAt_append m addr 8 (rem - 8) w bs hw hbs
          rwa [show 8 + (rem - 8) = rem by omega] at this
      · rw [if_neg h8] at h
        cases hw : bytesAt m addr 8 with
        | some w =>
          obtain ⟨hp, hrt⟩ := peek_eq_some m addr w hw
          rw [hp] at h
          simp only [hrt, Option.some.injEq] at h
          exact ⟨w.take rem, bytesAt_take m addr 8 rem w hw (by omega), h.symm⟩
        | none =>
          rw [(peek_eq_none_iff m addr).2 ((bytesAt_eq_none_iff _ _ _).1 hw)] at h
          simp only [] at h
          by_cases hlow : addr + rem < 8
          · rw [if_pos hlow] at h
            simp at h
          · rw [if_neg hlow] at h
            cases hb : bytesAt m (addr + rem - 8) 8 with
            | none =>
              rw [(peek_eq_none_iff m _).2 ((bytesAt_eq_none_iff _ _ _).1 hb)] at h
              simp at h
            | some w =>
              obtain ⟨hp, hrt⟩ := peek_eq_some m _ w hb
              rw [hp] at h
              simp only [hrt, Option.some.injEq] at h
              refine ⟨w.drop (8 - rem), ?_, h.symm⟩
              have := bytesAt_drop m (addr + rem - 8) 8 (8 - rem) w hb (by omega)
              rwa [show addr + rem - 8 + (8 - rem) = addr by omega,
                show 8 - (8 - rem) = rem by omega] at this

/-- the read succeeds when the requested bytes are mapped and the tail word can be fetched -/
theorem readLoop_complete (m : Mem) (addr rem : Nat) (acc : List Byte)
    (hm : MappedRange m addr rem) (ht : TailOk m addr rem) :
    (readLoop m addr rem acc).isSome = true := by
  induction rem using Nat.strongRecOn generalizing addr acc with
  | _ rem ih =>
    rw [readLoop]
    by_cases h0 : rem = 0
    · rw [if_pos h0]; rfl
    · rw [if_neg h0]
      by_cases h8 : 8 ≤ rem
      · rw [if_pos h8]
        have hw8 : MappedRange m addr 8 := mappedRange_mono m addr rem addr 8 hm (Nat.le_refl _) (by omega)
        obtain ⟨w, hw⟩ := Option.isSome_iff_exists.1 ((bytesAt_isSome_iff _ _ _).2 hw8)
        rw [(peek_eq_some m addr w hw).1]
        simp only []
        apply ih (rem - 8) (by omega)
        · exact mappedRange_mono m addr rem (addr + 8) (rem - 8) hm (by omega) (by omega)
        · by_cases hz : rem - 8 = 0
          · exact Or.inl hz
          · by_cases h16 : 8 ≤ rem - 8
            · exact Or.inr (Or.inl h16)
            · refine Or.inr (Or.inr (Or.inr ⟨by omega, ?_⟩))
              exact mappedRange_mono m addr rem _ 8 hm (by omega) (by omega)
      · rw [if_neg h8]
        rcases ht with h | h | h | ⟨hge, h⟩
        · exact absurd h h0
        · exact absurd h h8
        · obtain ⟨w, hw⟩ := Option.isSome_iff_exists.1 ((bytesAt_isSome_iff _ _ _).2 h)
          rw [(peek_eq_some m addr w hw).1]
          rfl
        · cases hf : peek m addr with
          | some w => rfl
          | none =>
            simp only []
            rw [if_neg (by omega)]
            obtain ⟨w, hw⟩ := Option.isSome_iff_exists.1 ((bytesAt_isSome_iff _ _ _).2 h)
            rw [(peek_eq_some m _ w hw).1]
            rfl

/-- a read shorter than a word succeeds only if one of the two candidate words is mapped -/
theorem readLoop_short_needs (m : Mem) (addr rem : Nat) (acc : List Byte) (h0 : rem ≠ 0) (h8 : ¬ 8 ≤ rem)
    (h : (readLoop m addr rem acc).isSome = true) :
    MappedRange m addr 8 ∨ (8 ≤ addr + rem ∧ MappedRange m (addr + rem - 8) 8) := by
  rw [readLoop, if_neg h0, if_neg h8] at h
  by_cases hf : MappedRange m addr 8
  · exact Or.inl hf
  · rw [(peek_eq_none_iff m addr).2 hf] at h
    simp only [] at h
    by_cases hlow : addr + rem < 8
    · rw [if_pos hlow] at h
      simp at h
    · rw [if_neg hlow] at h
      by_cases hb : MappedRange m (addr + rem - 8) 8
      · exact Or.inr ⟨by omega, hb⟩
      · rw [(peek_eq_none_iff m _).2 hb] at h
        simp at h

theorem read_exact (m : Mem) (a n : Nat) (bs : List Byte) (h : readMemory m a n = some bs) :
    bs.length = n ∧ ∀ i, i < n → m (a + i) = bs[i]? := by
  obtain ⟨bs', hbs', hr⟩ := readLoop_sound m a n [] bs h
  rw [List.nil_append] at hr
  subst hr
  exact bytesAt_spec m a n _ hbs'

/-- exact characterisation, no assumption on the mappings -/
theorem read_spec (m : Mem) (a n : Nat) :
    (readMemory m a n = bytesAt m a n ∨ readMemory m a n = none) ∧
    ((readMemory m a n).isSome = true ↔ MappedRange m a n ∧ TailOk m a n) := by
  have hiff : (readMemory m a n).isSome = true ↔ MappedRange m a n ∧ TailOk m a n := by
    constructor
    · intro h
      obtain ⟨r, hr⟩ := Option.isSome_iff_exists.1 h
      obtain ⟨bs, hbs, _⟩ := readLoop_sound m a n [] r hr
      have hm : MappedRange m a n := (bytesAt_isSome_iff m a n).1 (by rw [hbs]; rfl)
      refine ⟨hm, ?_⟩
      by_cases h0 : n = 0
      · exact Or.inl h0
      · by_cases h8 : 8 ≤ n
        · exact Or.inr (Or.inl h8)
        · exact Or.inr (Or.inr (readLoop_short_needs m a n [] h0 h8 h))
    · rintro ⟨hm, ht⟩
      exact readLoop_complete m a n [] hm ht
  refine ⟨?_, hiff⟩
  cases hr : readMemory m a n with
  | none => exact Or.inr rfl
  | some r =>
    left
    obtain ⟨bs, hbs, hrr⟩ := readLoop_sound m a n [] r hr
    rw [hbs, hrr, List.nil_append]

/-- with page-granular mappings a mapped range shorter than a word has one of its two candidate words
mapped: two page boundaries are never less than 15 bytes apart -/
theorem tailOk_of_granular (m : Mem) (a n : Nat) (hp : PageGranular m) (hm : MappedRange m a n) :
    TailOk m a n := by
  by_cases h0 : n = 0
  · exact Or.inl h0
  by_cases h8 : 8 ≤ n
  · exact Or.inr (Or.inl h8)
  have hlast := hm (n - 1) (by omega)
  have hfirst := hm 0 (by omega)
  by_cases hsame : (a + 7) / 4096 = (a + (n - 1)) / 4096
  · refine Or.inr (Or.inr (Or.inl ?_))
    intro i hi
    by_cases hin : i < n
    · exact hm i hin
    · exact hp (a + (n - 1)) (a + i) (by unfold pageSize; omega) hlast
  · refine Or.inr (Or.inr (Or.inr ⟨by omega, ?_⟩))
    intro i hi
    by_cases hin : a ≤ a + n - 8 + i
    · have := hm (a + n - 8 + i - a) (by omega)
      rwa [show a + (a + n - 8 + i - a) = a + n - 8 + i by omega] at this
    · exact hp (a + 0) (a + n - 8 + i) (by unfold pageSize; omega) hfirst

theorem read_success_iff (m : Mem) (a n : Nat) (hp : PageGranular m) :
    (readMemory m a n).isSome = true ↔ MappedRange m a n := by
  rw [(read_spec m a n).2]
  exact ⟨fun h => h.1, fun h => ⟨h, tailOk_of_granular m a n hp h⟩⟩

theorem read_total (m : Mem) (a n : Nat) (hp : PageGranular m) (h : MappedRange m a n) :
    ∃ bs, readMemory m a n = some bs ∧ bs.length = n ∧ ∀ i, i < n → m (a + i) = bs[i]? := by
  have hs := (read_success_iff m a n hp).2 h
  obtain ⟨bs, hbs⟩ := Option.isSome_iff_exists.1 hs
  exact ⟨bs, hbs, read_exact m a n bs hbs⟩

/-- no assumption on the mappings is needed from one word on, nor for whole words -/
theorem read_total_long (m : Mem) (a n : Nat) (h8 : 8 ≤ n ∨ n % 8 = 0) (h : MappedRange m a n) :
    (readMemory m a n).isSome = true := by
  rw [(read_spec m a n).2]
  refine ⟨h, ?_⟩
  by_cases h0 : n = 0
  · exact Or.inl h0
  · exact Or.inr (Or.inl (by omega))

/-- the witness of the repaired defect: exactly one page `[4096, 8192)` mapped, every byte 0 -/
def onePageL : Mem := fun x => if 4096 ≤ x ∧ x < 8192 then some 0 else none

theorem onePageL_granular : PageGranular onePageL := by
  intro a b hab ha
  unfold onePageL at ha ⊢
  unfold pageSize at hab
  split at ha
  · rw [if_pos (by omega)]; rfl
  · simp at ha

theorem onePageL_mapped_tail : MappedRange onePageL 8189 3 := by
  intro i hi
  unfold onePageL
  rw [if_pos (by omega)]; rfl

/-! ## Writes -/

theorem store_spec (m : Mem) (a : Nat) (bs : List Byte) (x : Nat) :
    (a ≤ x ∧ x < a + bs.length → store m a bs x = bs[x - a]?) ∧
    (¬ (a ≤ x ∧ x < a + bs.length) → store m a bs x = m x) := by
  unfold store
  exact ⟨fun h => if_pos h, fun h => if_neg h⟩

theorem store_nil (m : Mem) (a : Nat) : store m a [] = m := by
  funext x
  exact (store_spec m a [] x).2 (by simp)

theorem store_append (m : Mem) (a : Nat) (xs ys : List Byte) :
    store (store m a xs) (a + xs.length) ys = store m a (xs ++ ys) := by
  funext x
  by_cases h1 : a ≤ x ∧ x < a + xs.length
  · rw [(store_spec _ _ ys x).2 (by omega), (store_spec _ _ xs x).1 h1,
      (store_spec _ _ (xs ++ ys) x).1 (by simp; omega), List.getElem?_append_left (by omega)]
  · by_cases h2 : a + xs.length ≤ x ∧ x < a + xs.length + ys.length
    · rw [(store_spec _ _ ys x).1 h2, (store_spec _ _ (xs ++ ys) x).1 (by simp; omega),
        List.getElem?_append_right (by omega)]
      congr 1
      omega
    · rw [(store_spec _ _ ys x).2 h2, (store_spec _ _ xs x).2 h1,
        (store_spec _ _ (xs ++ ys) x).2 (by simp; omega)]

theorem store_isSome (m : Mem) (a : Nat) (bs : List Byte) (h : MappedRange m a bs.length)
    (x : Nat) : (store m a bs x).isSome = (m x).isSome := by
  by_cases h1 : a ≤ x ∧ x < a + bs.length
  · rw [(store_spec m a bs x).1 h1]
    have := h (x - a) (by omega)
    rw [show a + (x - a) = x by omega] at this
    rw [this, List.getElem?_eq_getElem (by omega)]
    rfl
  · rw [(store_spec m a bs x).2 h1]

theorem store_mappedRange (m : Mem) (a : Nat) (bs : List Byte) (h : MappedRange m a bs.length)
    (b k : Nat) : MappedRange (store m a bs) b k ↔ MappedRange m b k := by
  unfold MappedRange
  simp only [store_isSome m a bs h]

theorem readMemory_eight (m : Mem) (a : Nat) : readMemory m a 8 = bytesAt m a 8 := by
  rcases (read_spec m a 8).1 with h | h
  · exact h
  · rw [h]
    cases hb : bytesAt m a 8 with
    | none => rfl
    | some w =>
      have hs := (read_total_long m a 8 (Or.inl (Nat.le_refl _))
        ((bytesAt_isSome_iff m a 8).1 (by rw [hb]; rfl)))
      rw [h] at hs
      simp at hs

theorem patchWord_length (ex bytes : List Byte) (dst src len : Nat) :
    (patchWord ex bytes dst src len).length = 8 := by
  simp [patchWord]

theorem patchWord_getElem? (ex bytes : List Byte) (dst src len i : Nat) (hi : i < 8) :
    (patchWord ex bytes dst src len)[i]? =
      some (if dst ≤ i ∧ i < dst + len then bytes.getD (src + (i - dst)) 0 else ex.getD i 0) := by
  simp [patchWord, hi]

theorem store_patchWord (m : Mem) (ws cur start len : Nat) (ex bytes : List Byte)
    (hex : bytesAt m ws 8 = some ex) (h1 : ws ≤ cur) (h2 : cur + len ≤ ws + 8) (_h3 : start ≤ cur)
    (h4 : cur - start + len ≤ bytes.length) :
    store m ws (patchWord ex bytes (cur - ws) (cur - start) len) =
      store m cur ((bytes.drop (cur - start)).take len) := by
  obtain ⟨hel, hei⟩ := bytesAt_spec _ _ _ _ hex
  have hlen : ((bytes.drop (cur - start)).take len).length = len := by
    simp; omega
  funext x
  have hL := store_spec m ws (patchWord ex bytes (cur - ws) (cur - start) len) x
  have hR := store_spec m cur ((bytes.drop (cur - start)).take len) x
  rw [patchWord_length] at hL
  rw [hlen] at hR
  by_cases hx : cur ≤ x ∧ x < cur + len
  · rw [hL.1 (by omega), hR.1 hx,
      patchWord_getElem? _ _ _ _ _ _ (by omega), if_pos (by omega),
      List.getElem?_take, if_pos (by omega), List.getElem?_drop, List.getD_eq_getElem?_getD,
      show cur - start + (x - ws - (cur - ws)) = cur - start + (x - cur) by omega,
      List.getElem?_eq_getElem (show cur - start + (x - cur) < bytes.length by omega)]
    rfl
  · rw [hR.2 hx]
    by_cases hw : ws ≤ x ∧ x < ws + 8
    · rw [hL.1 hw, patchWord_getElem? _ _ _ _ _ _ (by omega), if_neg (by omega)]
      have := hei (x - ws) (by omega)
      rw [show ws + (x - ws) = x by omega] at this
      rw [this, List.getD_eq_getElem?_getD,
        List.getElem?_eq_getElem (show x - ws < ex.length by omega)]
      rfl
    · rw [hL.2 hw]

/-! ### `mappedPrefix` / `pokeData` -/

theorem mappedPrefix_succ (m : Mem) (a n : Nat) :
    mappedPrefix m a (n + 1) = if (m a).isSome = true then 1 + mappedPrefix m (a + 1) n else 0 := by
  rw [mappedPrefix]
  cases m a <;> rfl

theorem mappedPrefix_le (m : Mem) (a n : Nat) : mappedPrefix m a n ≤ n := by
  induction n generalizing a with
  | zero => simp [mappedPrefix]
  | succ n ih =>
    rw [mappedPrefix_succ]
    have := ih (a + 1)
    split <;> omega

theorem mappedPrefix_mapped (m : Mem) (a n i : Nat) (h : i < mappedPrefix m a n) :
    (m (a + i)).isSome = true := by
  induction n generalizing a i with
  | zero => simp [mappedPrefix] at h
  | succ n ih =>
    rw [mappedPrefix_succ] at h
    split at h
    · cases i with
      | zero => simpa
      | succ j =>
        have := ih (a + 1) j (by omega)
        rwa [show a + 1 + j = a + (j + 1) by omega] at this
    · omega

theorem mappedPrefix_unmapped (m : Mem) (a n : Nat) (h : mappedPrefix m a n < n) :
    (m (a + mappedPrefix m a n)).isSome = false := by
  induction n generalizing a with
  | zero => omega
  | succ n ih =>
    rw [mappedPrefix_succ] at h ⊢
    split
    · rename_i hm
      rw [if_pos hm] at h
      have := ih (a + 1) (by omega)
      rwa [show a + 1 + mappedPrefix m (a + 1) n = a + (1 + mappedPrefix m (a + 1) n) by omega]
        at this
    · rename_i hm
      simpa using hm

theorem mappedPrefix_eq_iff (m : Mem) (a n : Nat) :
    mappedPrefix m a n = n ↔ MappedRange m a n := by
  constructor
  · intro h i hi
    exact mappedPrefix_mapped m a n i (by omega)
  · intro h
    have hle := mappedPrefix_le m a n
    by_cases hlt : mappedPrefix m a n < n
    · have h1 := mappedPrefix_unmapped m a n hlt
      have h2 := h _ hlt
      rw [h1] at h2
      exact absurd h2 (by simp)
    · omega

theorem poke_exact (m : Mem) (a w : Nat) :
    (MappedRange m a 8 → pokeData m a w = .ok (store m a (wordBytes 8 w))) ∧
    (¬ MappedRange m a 8 → ∃ k, k < 8 ∧ (∀ i, i < k → (m (a + i)).isSome = true) ∧
        (m (a + k)).isSome = false ∧
        pokeData m a w = .err (store m a ((wordBytes 8 w).take k))) := by
  constructor
  · intro h
    unfold pokeData
    simp only []
    rw [if_pos ((mappedPrefix_eq_iff m a 8).2 h)]
  · intro h
    have hne : mappedPrefix m a 8 ≠ 8 := fun he => h ((mappedPrefix_eq_iff m a 8).1 he)
    have hle := mappedPrefix_le m a 8
    refine ⟨mappedPrefix m a 8, by omega, fun i hi => mappedPrefix_mapped m a 8 i hi,
      mappedPrefix_unmapped m a 8 (by omega), ?_⟩
    unfold pokeData
    simp only []
    rw [if_neg hne]

theorem writeLoop_done (m : Mem) (start : Nat) (bytes : List Byte) (cur : Nat)
    (h : ¬ cur < start + bytes.length) : writeLoop m start bytes cur = .ok m := by
  rw [writeLoop, dif_neg h]

theorem writeLoop_err (m : Mem) (start : Nat) (bytes : List Byte) (cur : Nat)
    (h2 : cur < start + bytes.length) (hn : ¬ MappedRange m (cur / 8 * 8) 8) :
    writeLoop m start bytes cur = .err m := by
  rw [writeLoop, dif_pos h2]
  simp only [readMemory_eight]
  rw [(bytesAt_eq_none_iff _ _ _).2 hn]

theorem writeLoop_step (m : Mem) (start : Nat) (bytes : List Byte) (cur : Nat) (h1 : start ≤ cur)
    (h2 : cur < start + bytes.length) (hm : MappedRange m (cur / 8 * 8) 8) :
    writeLoop m start bytes cur =
      writeLoop (store m cur ((bytes.drop (cur - start)).take
        (min (start + bytes.length) (cur / 8 * 8 + 8) - cur))) start bytes (cur / 8 * 8 + 8) := by
  obtain ⟨ex, hex⟩ := Option.isSome_iff_exists.1 ((bytesAt_isSome_iff _ _ _).2 hm)
  have hel : ex.length = 8 := (bytesAt_spec _ _ _ _ hex).1
  rw [writeLoop, dif_pos h2]
  simp only [readMemory_eight]
  rw [hex]
  simp only []
  have hmax : max cur (cur / 8 * 8) = cur := by omega
  rw [hmax]
  rw [if_neg (by omega), if_neg (by omega)]
  have hp := (poke_exact m (cur / 8 * 8)
    (leWord (patchWord ex bytes (cur - cur / 8 * 8) (cur - start)
      (min (start + bytes.length) (cur / 8 * 8 + 8) - cur)))).1 hm
  rw [hp]
  simp only []
  have hrt := wordBytes_leWord (patchWord ex bytes (cur - cur / 8 * 8) (cur - start)
      (min (start + bytes.length) (cur / 8 * 8 + 8) - cur))
  rw [patchWord_length] at hrt
  rw [hrt, store_patchWord m _ cur start _ ex bytes hex (by omega) (by omega) h1 (by omega)]

theorem store_take_take (m : Mem) (cur cur' L k : Nat) (d : List Byte)
    (h : L < d.length → cur' = cur + L) :
    store (store m cur (d.take L)) cur' ((d.drop L).take k) = store m cur (d.take (L + k)) := by
  by_cases hL : L < d.length
  · have hl : (d.take L).length = L := by simp; omega
    rw [h hL, List.take_add]
    have := store_append m cur (d.take L) ((d.drop L).take k)
    rw [hl] at this
    exact this
  · rw [List.drop_eq_nil_of_le (by omega), List.take_nil, store_nil,
      List.take_of_length_le (by omega), List.take_of_length_le (by omega)]

theorem store_take_drop (m : Mem) (cur cur' L : Nat) (d : List Byte)
    (h : L < d.length → cur' = cur + L) :
    store (store m cur (d.take L)) cur' (d.drop L) = store m cur d := by
  have := store_take_take m cur cur' L (d.length) d h
  rwa [List.take_of_length_le (l := d.drop L) (by rw [List.length_drop]; omega),
    List.take_of_length_le (l := d) (i := L + d.length) (by omega)] at this

theorem drop_chunk (start : Nat) (bytes : List Byte) (cur : Nat) (h1 : start ≤ cur)
    (h2 : cur < start + bytes.length) :
    bytes.drop (cur / 8 * 8 + 8 - start) = (bytes.drop (cur - start)).drop
        (min (start + bytes.length) (cur / 8 * 8 + 8) - cur) := by
  rw [List.drop_drop]
  by_cases h : cur / 8 * 8 + 8 ≤ start + bytes.length
  · congr 1
    omega
  · rw [List.drop_eq_nil_of_le (by omega), List.drop_eq_nil_of_le (by omega)]

theorem mappedRange_chunk (m : Mem) (start : Nat) (bytes : List Byte) (cur : Nat)
    (hm : MappedRange m (cur / 8 * 8) 8) :
    MappedRange m cur ((bytes.drop (cur - start)).take
        (min (start + bytes.length) (cur / 8 * 8 + 8) - cur)).length := by
  apply mappedRange_mono m _ _ _ _ hm (by omega)
  simp
  omega

theorem writeLoop_no_panic (start : Nat) (bytes : List Byte) :
    ∀ (fuel : Nat) (m : Mem) (cur : Nat), start ≤ cur → start + bytes.length - cur ≤ fuel →
      writeLoop m start bytes cur ≠ .panic := by
  intro fuel
  induction fuel with
  | zero =>
    intro m cur _ hf
    rw [writeLoop_done m start bytes cur (by omega)]
    exact fun h => WOut.noConfusion h
  | succ f ih =>
    intro m cur h1 hf
    by_cases h2 : cur < start + bytes.length
    · by_cases hm : MappedRange m (cur / 8 * 8) 8
      · rw [writeLoop_step m start bytes cur h1 h2 hm]
        exact ih _ _ (by omega) (by omega)
      · rw [writeLoop_err m start bytes cur h2 hm]
        exact fun h => WOut.noConfusion h
    · rw [writeLoop_done m start bytes cur h2]
      exact fun h => WOut.noConfusion h

theorem writeLoop_ok (start : Nat) (bytes : List Byte) :
    ∀ (fuel : Nat) (m : Mem) (cur : Nat) (m' : Mem), start ≤ cur →
      start + bytes.length - cur ≤ fuel → writeLoop m start bytes cur = .ok m' →
      m' = store m cur (bytes.drop (cur - start)) := by
  have hdone : ∀ (m : Mem) (cur : Nat) (m' : Mem), ¬ cur < start + bytes.length →
      writeLoop m start bytes cur = .ok m' → m' = store m cur (bytes.drop (cur - start)) := by
    intro m cur m' h2 h
    rw [writeLoop_done m start bytes cur h2] at h
    injection h with h
    rw [List.drop_eq_nil_of_le (by omega), store_nil, h]
  intro fuel
  induction fuel with
  | zero =>
    intro m cur m' _ hf h
    exact hdone m cur m' (by omega) h
  | succ f ih =>
    intro m cur m' h1 hf h
    by_cases h2 : cur < start + bytes.length
    · by_cases hm : MappedRange m (cur / 8 * 8) 8
      · rw [writeLoop_step m start bytes cur h1 h2 hm] at h
        have := ih _ _ m' (by omega) (by omega) h
        rw [this, drop_chunk start bytes cur h1 h2]
        apply store_take_drop
        rw [List.length_drop]
        omega
      · rw [writeLoop_err m start bytes cur h2 hm] at h
        exact WOut.noConfusion h
    · exact hdone m cur m' h2 h

theorem writeLoop_err_confined (start : Nat) (bytes : List Byte) :
    ∀ (fuel : Nat) (m : Mem) (cur : Nat) (m' : Mem), start ≤ cur →
      start + bytes.length - cur ≤ fuel → writeLoop m start bytes cur = .err m' →
      ∃ k, cur - start + k < bytes.length ∧
        m' = store m cur ((bytes.drop (cur - start)).take k) := by
  intro fuel
  induction fuel with
  | zero =>
    intro m cur m' _ hf h
    rw [writeLoop_done m start bytes cur (by omega)] at h
    exact WOut.noConfusion h
  | succ f ih =>
    intro m cur m' h1 hf h
    by_cases h2 : cur < start + bytes.length
    · by_cases hm : MappedRange m (cur / 8 * 8) 8
      · rw [writeLoop_step m start bytes cur h1 h2 hm] at h
        obtain ⟨k, hk, hm'⟩ := ih _ _ m' (by omega) (by omega) h
        refine ⟨(min (start + bytes.length) (cur / 8 * 8 + 8) - cur) + k, by omega, ?_⟩
        rw [hm', drop_chunk start bytes cur h1 h2]
        apply store_take_take
        rw [List.length_drop]
        omega
      · rw [writeLoop_err m start bytes cur h2 hm] at h
        injection h with h
        exact ⟨0, by omega, by rw [List.take_zero, store_nil, h]⟩
    · rw [writeLoop_done m start bytes cur h2] at h
      exact WOut.noConfusion h

theorem writeLoop_ok_iff (start : Nat) (bytes : List Byte) :
    ∀ (fuel : Nat) (m : Mem) (cur : Nat), start ≤ cur →
      (cur < start + bytes.length ∨ cur % 8 = 0) → start + bytes.length - cur ≤ fuel →
      ((∃ m', writeLoop m start bytes cur = .ok m') ↔
        ∀ x, cur / 8 * 8 ≤ x → x < (start + bytes.length + 7) / 8 * 8 → (m x).isSome = true) := by
  have hdone : ∀ (m : Mem) (cur : Nat), ¬ cur < start + bytes.length → cur % 8 = 0 →
      ((∃ m', writeLoop m start bytes cur = .ok m') ↔
        ∀ x, cur / 8 * 8 ≤ x → x < (start + bytes.length + 7) / 8 * 8 → (m x).isSome = true) := by
    intro m cur h2 h8
    rw [writeLoop_done m start bytes cur h2]
    constructor
    · intro _ x hx1 hx2
      omega
    · intro _
      exact ⟨m, rfl⟩
  intro fuel
  induction fuel with
  | zero =>
    intro m cur _ ha hf
    exact hdone m cur (by omega) (by omega)
  | succ f ih =>
    intro m cur h1 ha hf
    by_cases h2 : cur < start + bytes.length
    · by_cases hm : MappedRange m (cur / 8 * 8) 8
      · rw [writeLoop_step m start bytes cur h1 h2 hm,
          ih _ (cur / 8 * 8 + 8) (by omega) (by omega) (by omega)]
        simp only [store_isSome m cur _ (mappedRange_chunk m start bytes cur hm)]
        constructor
        · intro h x hx1 hx2
          by_cases hx : x < cur / 8 * 8 + 8
          · have := hm (x - cur / 8 * 8) (by omega)
            rwa [show cur / 8 * 8 + (x - cur / 8 * 8) = x by omega] at this
          · exact h x (by omega) hx2
        · intro h x hx1 hx2
          exact h x (by omega) hx2
      · rw [writeLoop_err m start bytes cur h2 hm]
        constructor
        · rintro ⟨m', h⟩
          exact WOut.noConfusion h
        · intro h
          exfalso
          apply hm
          intro i hi
          exact h _ (by omega) (by omega)
    · exact hdone m cur h2 (by omega)

theorem write_exact (m : Mem) (a : Nat) (bs : List Byte) (m' : Mem)
    (h : writeBytesDap m a bs = .ok m') : m' = store m a bs := by
  unfold writeBytesDap at h
  cases bs with
  | nil =>
    simp at h
    rw [store_nil, h]
  | cons b tl =>
    simp only [List.isEmpty_cons] at h
    have := writeLoop_ok a (b :: tl) _ m a m' (Nat.le_refl _) (Nat.le_refl _) h
    simpa using this

theorem write_no_panic (m : Mem) (a : Nat) (bs : List Byte) : writeBytesDap m a bs ≠ .panic := by
  unfold writeBytesDap
  split
  · exact fun h => WOut.noConfusion h
  · exact writeLoop_no_panic a bs _ m a (Nat.le_refl _) (Nat.le_refl _)

theorem write_fail_confined (m : Mem) (a : Nat) (bs : List Byte) (m' : Mem)
    (h : writeBytesDap m a bs = .err m') : ∃ k, k < bs.length ∧ m' = store m a (bs.take k) := by
  unfold writeBytesDap at h
  split at h
  · exact WOut.noConfusion h
  · obtain ⟨k, hk, hm'⟩ :=
      writeLoop_err_confined a bs _ m a m' (Nat.le_refl _) (Nat.le_refl _) h
    refine ⟨k, by omega, ?_⟩
    simpa using hm'

theorem write_success_iff_words (m : Mem) (a : Nat) (bs : List Byte) :
    (∃ m', writeBytesDap m a bs = .ok m') ↔
      (bs = [] ∨ MappedRange m (a / 8 * 8) ((a + bs.length + 7) / 8 * 8 - a / 8 * 8)) := by
  unfold writeBytesDap
  cases bs with
  | nil => simp
  | cons b tl =>
    simp only [List.isEmpty_cons, reduceCtorEq, false_or]
    rw [if_neg (by simp),
      writeLoop_ok_iff a (b :: tl) _ m a (Nat.le_refl _) (Or.inl (by simp)) (Nat.le_refl _)]
    constructor
    · intro h i hi
      exact h _ (by omega) (by omega)
    · intro h x hx1 hx2
      have := h (x - a / 8 * 8) (by omega)
      rwa [show a / 8 * 8 + (x - a / 8 * 8) = x by omega] at this

theorem write_success_iff (m : Mem) (a : Nat) (bs : List Byte) (hp : PageGranular m) :
    (∃ m', writeBytesDap m a bs = .ok m') ↔ MappedRange m a bs.length := by
  rw [write_success_iff_words]
  constructor
  · rintro (h | h)
    · subst h
      intro i hi
      simp at hi
    · exact mappedRange_mono m _ _ _ _ h (by omega) (by omega)
  · intro h
    by_cases hbs : bs = []
    · exact Or.inl hbs
    · right
      have hpos : 0 < bs.length := List.length_pos_iff.2 hbs
      intro i hi
      have hy := h (max a ((a / 8 * 8 + i) / 8 * 8) - a) (by omega)
      refine hp _ _ ?_ hy
      unfold pageSize
      omega

theorem store_granular (m : Mem) (a : Nat) (bs : List Byte) (h : MappedRange m a bs.length)
    (hp : PageGranular m) : PageGranular (store m a bs) := by
  intro x y hxy hx
  rw [store_isSome m a bs h] at hx ⊢
  exact hp x y hxy hx

theorem write_then_read (m : Mem) (a : Nat) (bs : List Byte) (m' : Mem) (hp : PageGranular m)
    (h : writeBytesDap m a bs = .ok m') : readMemory m' a bs.length = some bs := by
  have hmr : MappedRange m a bs.length := (write_success_iff m a bs hp).1 ⟨m', h⟩
  have hm' := write_exact m a bs m' h
  subst hm'
  have hmr' : MappedRange (store m a bs) a bs.length := (store_mappedRange m a bs hmr _ _).2 hmr
  obtain ⟨r, hr, hl, hi⟩ := read_total _ a bs.length (store_granular m a bs hmr hp) hmr'
  rw [hr]
  congr 1
  apply List.ext_getElem?
  intro i
  by_cases hlt : i < bs.length
  · rw [← hi i hlt, (store_spec m a bs (a + i)).1 (by omega), show a + i - a = i by omega]
  · rw [List.getElem?_eq_none (by omega), List.getElem?_eq_none (by omega)]

end BsVerif.MemIO
