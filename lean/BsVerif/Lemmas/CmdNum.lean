import BsVerif.Model.CmdNum
/-! Helper lemmas for `Props/C08.lean` (command-line parser model). -/
namespace BsVerif.CmdNum

theorem digitsValue_ge (r : Nat) (hr : 1 ≤ r) (ds : List Nat) (acc : Nat) : acc ≤ digitsValue r ds acc := by
  induction ds generalizing acc with
  | nil => simp [digitsValue]
  | cons d ds ih =>
    have h1 := ih (acc * r + d)
    have h2 : acc ≤ acc * r := Nat.le_mul_of_pos_right acc hr
    simp only [digitsValue]; omega

/-! ### suffixes -/

theorem stripPrefix_suffix : ∀ (k s r : List Char), stripPrefix k s = some r → r <:+ s
  | [], s, r, h => by simp [stripPrefix] at h; subst h; exact List.suffix_refl _
  | _ :: _, [], r, h => by simp [stripPrefix] at h
  | k :: ks, c :: cs, r, h => by
    simp only [stripPrefix] at h
    split at h
    · exact List.IsSuffix.trans (stripPrefix_suffix ks cs r h) (List.suffix_cons c cs)
    · simp at h

theorem span_snd_suffix (p : Char → Bool) (l : List Char) : l.dropWhile p <:+ l := List.dropWhile_suffix p

theorem scanInt_suffix (s tok rest : List Char) (h : scanInt s = some (tok, rest)) : rest <:+ s := by
  cases s with
  | nil => simp [scanInt] at h
  | cons c cs =>
    simp only [scanInt] at h
    split at h
    · simp at h; rw [← h.2]; exact List.suffix_cons c cs
    · split at h
      · simp at h; rw [← h.2]
        exact List.IsSuffix.trans (span_snd_suffix _ cs) (List.suffix_cons c cs)
      · simp at h

theorem scanHex_suffix (s tok rest : List Char) (h : scanHex s = some (tok, rest)) : rest <:+ s := by
  unfold scanHex at h
  have hs := span_snd_suffix isHexDigit s
  split at h
  · simp at h
  · simp at h; rw [← h.2]; exact hs

theorem runNum_ok_suffix (q : Quirks) (n : NumTok) (s r : List Char) (h : runNum q n s = .ok r) : r <:+ s := by
  cases n with
  | dec bits site =>
    simp only [runNum] at h
    split at h
    · simp at h
    · next tok rest hs =>
      split at h
      · simp at h; rw [← h]; exact scanInt_suffix _ _ _ hs
      · simp [overflow] at h; split at h <;> simp at h
  | hexDigits =>
    simp only [runNum] at h
    split at h
    · simp at h
    · next tok rest hs =>
      split at h
      · simp at h; rw [← h]; exact scanHex_suffix _ _ _ hs
      · simp [overflow] at h; split at h <;> simp at h
  | litInt =>
    simp only [runNum] at h
    split at h
    · simp at h
    · next tok rest hs =>
      have hsuf := scanInt_suffix _ _ _ hs
      have hs1 : (if (s.head? == some '-') = true then s.tail else s) <:+ s := by
        split
        · exact List.tail_suffix s
        · exact List.suffix_refl s
      split at h
      · simp [overflow] at h; split at h <;> simp at h
      · split at h
        · simp at h
        · simp at h; rw [← h]; exact List.IsSuffix.trans hsuf hs1
  | intTok =>
    simp only [runNum] at h
    split at h
    · simp at h
    · next tok rest hs => simp at h; rw [← h]; exact scanInt_suffix _ _ _ hs

/-- every successful parse leaves a suffix of its input -/
theorem run_ok_suffix (q : Quirks) (env : Nat → G) :
    ∀ (f : Nat) (g : G) (s r : List Char), run q env f g s = .ok r → r <:+ s := by
  intro f
  induction f with
  | zero => intro g s r h; simp [run] at h
  | succ f ih =>
    intro g s r h
    cases g with
    | eps => simp [run] at h; rw [← h]; exact List.suffix_refl _
    | eoi => simp only [run] at h; split at h <;> simp at h; rw [← h]; exact List.suffix_refl _
    | just k =>
      simp only [run] at h
      split at h
      · next r' hk => simp at h; rw [← h]; exact stripPrefix_suffix _ _ _ hk
      · simp at h
    | cls c =>
      simp only [run] at h
      split at h
      · next x rest => split at h <;> simp at h; rw [← h]; exact List.suffix_cons x rest
      · simp at h
    | seq a b =>
      simp only [run] at h
      split at h
      · next r1 h1 => exact List.IsSuffix.trans (ih b r1 r h) (ih a s r1 h1)
      · next o hne => rw [h] at hne; exact absurd rfl (hne r)
    | alt a b =>
      simp only [run] at h
      split at h
      · exact ih b s r h
      · exact ih a s r h
    | opt a =>
      simp only [run] at h
      split at h
      · simp at h; rw [← h]; exact List.suffix_refl _
      · exact ih a s r h
    | star a =>
      simp only [run] at h
      split at h
      · next r1 h1 =>
        split at h
        · exact List.IsSuffix.trans (ih (.star a) r1 r h) (ih a s r1 h1)
        · simp at h; rw [← h]; exact ih a s r1 h1
      · simp at h; rw [← h]; exact List.suffix_refl _
      · next o hne1 hne2 => rw [h] at hne1; exact absurd rfl (hne1 r)
    | num n => simp only [run] at h; exact runNum_ok_suffix q n s r h
    | ref i => simp only [run] at h; exact ih (env i) s r h

end BsVerif.CmdNum
