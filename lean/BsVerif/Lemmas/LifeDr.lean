import BsVerif.Lemmas.LifeText
/-! Debug-register part of the C11 invariants, for a debugger attached to an external process (and not yet
restarted): every enable bit of every thread's DR7 belongs to a registered watchpoint that holds the slot. -/
namespace BsVerif.Life

/-- the part of the state the debug-register clause talks about -/
structure Dcore where
  alive : Bool
  threads : List Thread
  wps : List Wp
  lastSeen : Option Dr7
  panicked : Bool
  status : Status
  external : Bool

def dcore (s : St) : Dcore := ⟨s.proc.alive, s.proc.threads, s.wps, s.lastSeen, s.panicked, s.status, s.external⟩

theorem foldl_dcore {α} (f : St → α → St) (h : ∀ s x, dcore (f s x) = dcore s) (l : List α) (s : St) :
    dcore (l.foldl f s) = dcore s := by
  induction l generalizing s with
  | nil => rfl
  | cons x xs ih => simp only [List.foldl]; rw [ih, h]

@[simp] theorem dcore_pokeByte (s : St) (a b) : dcore (pokeByte s a b) = dcore s := by
  unfold pokeByte; split <;> rfl
@[simp] theorem dcore_bpDisable (s : St) (b) : dcore (bpDisable s b) = dcore s := dcore_pokeByte ..

@[simp] theorem dcore_addAndEnable (s : St) (b) : dcore (addAndEnable s b) = dcore s := by
  unfold addAndEnable; split
  · split
    · exact (dcore_pokeByte _ _ _).trans (dcore_bpDisable _ _)
    · exact dcore_pokeByte _ _ _
  · rfl

@[simp] theorem dcore_addUninit (s : St) (u) : dcore (addUninit s u) = dcore s := rfl

@[simp] theorem dcore_removeByAddr (s : St) (k) : dcore (removeByAddr s k).1 = dcore s := by
  unfold removeByAddr; split
  · rfl
  · split
    · rfl
    · split
      · rfl
      · exact dcore_bpDisable _ _

@[simp] theorem dcore_enableAll (s : St) : dcore (enableAll s) = dcore s := by
  unfold enableAll; rw [foldl_dcore _ (fun s x => dcore_addAndEnable s _)]; rfl

@[simp] theorem dcore_enableEntry (s : St) : dcore (enableEntry s) = dcore s := by
  unfold enableEntry; split
  · rfl
  · exact dcore_addAndEnable _ _

@[simp] theorem dcore_backToUninit (s : St) (b) : dcore (backToUninit s b) = dcore s := by
  unfold backToUninit; split <;> rfl

@[simp] theorem dcore_disableAll (s : St) : dcore (disableAll s) = dcore s := by
  unfold disableAll
  rw [foldl_dcore _ (fun s x => (dcore_backToUninit _ _).trans (dcore_bpDisable _ _))]; rfl

@[simp] theorem dcore_stepOver (s : St) : dcore (stepOver s) = dcore s := by
  unfold stepOver; split
  · rfl
  · split
    · rfl
    · simp only []
      split
      · exact (dcore_pokeByte _ _ _).trans (dcore_bpDisable _ _)
      · exact (dcore_pokeByte _ _ _).trans (dcore_bpDisable _ _)




/-- the debug-register part of what C14 proves as an invariant (`C14_dr7_encodes_set`), as a predicate on a state:
the process is alive with at least one thread, every registered watchpoint holds a slot, and every enable bit of
every thread belongs to a registered watchpoint -/
def DrOk (s : St) : Prop :=
  s.proc.alive = true ∧ s.proc.threads ≠ [] ∧ (∀ w ∈ s.wps, w.slot ≠ none) ∧
  (∀ t ∈ s.proc.threads, ∀ j, t.dr7 j = true → ∃ w ∈ s.wps, w.slot = some j) ∧ s.panicked = false

theorem clearAll_fold (l : List Wp) (acc : St) (hal : acc.proc.alive = true) (hne : acc.proc.threads ≠ [])
    (harm : ∀ w ∈ l, w.slot ≠ none)
    (hj : ∀ t ∈ acc.proc.threads, ∀ j, t.dr7 j = true → ∃ w ∈ l, w.slot = some j) (hp : acc.panicked = false) :
    (∀ t ∈ (l.foldl (fun a w => (removeWp a w).1) acc).proc.threads, ∀ j, t.dr7 j = false) ∧
    (l.foldl (fun a w => (removeWp a w).1) acc).panicked = false ∧
    (l.foldl (fun a w => (removeWp a w).1) acc).proc.threads.length = acc.proc.threads.length ∧
    (l.foldl (fun a w => (removeWp a w).1) acc).proc.alive = true := by
  induction l generalizing acc with
  | nil =>
    refine ⟨fun t ht j => ?_, hp, rfl, hal⟩
    cases hv : t.dr7 j with
    | false => rfl
    | true => obtain ⟨w, hw, _⟩ := hj t ht j hv; cases hw
  | cons w l ih =>
    simp only [List.foldl]
    obtain ⟨t0, ts, hts⟩ : ∃ t0 ts, acc.proc.threads = t0 :: ts := by
      cases h : acc.proc.threads with
      | nil => exact absurd h hne
      | cons a b => exact ⟨a, b, rfl⟩
    obtain ⟨i, hi⟩ : ∃ i, w.slot = some i := by
      cases h : w.slot with
      | none => exact absurd h (harm w List.mem_cons_self)
      | some i => exact ⟨i, rfl⟩
    have hstep : (removeWp acc w).1 =
        { syncAll acc (fun j => t0.dr7 j && j != i) with lastSeen := some (fun j => t0.dr7 j && j != i) } := by
      simp [removeWp, hwDisable, mainDr, hal, hts, hi]
    rw [hstep]
    have := ih { syncAll acc (fun j => t0.dr7 j && j != i) with lastSeen := some (fun j => t0.dr7 j && j != i) }
      hal (by simp [syncAll, hts]) (fun w' hw' => harm w' (List.mem_cons_of_mem _ hw'))
      (by
        intro t ht j hjv
        simp only [syncAll, List.mem_map] at ht
        obtain ⟨t', _, rfl⟩ := ht
        simp only [Bool.and_eq_true, bne_iff_ne, ne_eq] at hjv
        obtain ⟨w', hw', hs⟩ := hj t0 (by rw [hts]; exact List.mem_cons_self) j hjv.1
        rcases List.mem_cons.mp hw' with rfl | hw'
        · rw [hi] at hs; exact absurd (Option.some.inj hs).symm hjv.2
        · exact ⟨w', hw', hs⟩)
      hp
    refine ⟨this.1, this.2.1, ?_, this.2.2.2⟩
    rw [this.2.2.1]; simp [syncAll]

/-- `detach` of a state satisfying `DrOk`: no panic, every thread released (untraced, running) with all DR7 enable
bits clear, no thread lost -/
theorem detach_clears_dr (s : St) (h : DrOk s) (hd : s.detached = false) :
    (∀ t ∈ (detach s).proc.threads, (∀ j, t.dr7 j = false) ∧ t.traced = false ∧ t.run = .running) ∧
    (detach s).panicked = false ∧ (detach s).proc.threads.length = s.proc.threads.length := by
  obtain ⟨hal, hne, harm, hj, hp⟩ := h
  have e := dcore_disableAll s
  have ea : (disableAll s).proc.alive = s.proc.alive := congrArg Dcore.alive e
  have et : (disableAll s).proc.threads = s.proc.threads := congrArg Dcore.threads e
  have ew : (disableAll s).wps = s.wps := congrArg Dcore.wps e
  have ep : (disableAll s).panicked = s.panicked := congrArg Dcore.panicked e
  have f := clearAll_fold (disableAll s).wps { disableAll s with wps := [] } (by show (disableAll s).proc.alive = true; rw [ea]; exact hal)
    (by show (disableAll s).proc.threads ≠ []; rw [et]; exact hne) (by rw [ew]; exact harm)
    (by show ∀ t ∈ (disableAll s).proc.threads, _; rw [et, ew]; exact hj) (by show (disableAll s).panicked = false; rw [ep]; exact hp)
  unfold detach
  rw [if_neg (by simp [hd])]
  show (∀ t ∈ (releaseThreads (clearAll (disableAll s))).proc.threads, _) ∧
       (releaseThreads (clearAll (disableAll s))).panicked = false ∧
       (releaseThreads (clearAll (disableAll s))).proc.threads.length = _
  have hc : (clearAll (disableAll s)).proc.threads =
      ((disableAll s).wps.foldl (fun a w => (removeWp a w).1) { disableAll s with wps := [] }).proc.threads := rfl
  have hcp : (clearAll (disableAll s)).panicked =
      ((disableAll s).wps.foldl (fun a w => (removeWp a w).1) { disableAll s with wps := [] }).panicked := rfl
  have hlen : (clearAll (disableAll s)).proc.threads.length = s.proc.threads.length := by
    rw [hc, f.2.2.1]; show (disableAll s).proc.threads.length = _; rw [et]
  have hne' : (clearAll (disableAll s)).proc.threads.isEmpty = false := by
    cases hh : (clearAll (disableAll s)).proc.threads with
    | nil => rw [hh] at hlen; simp at hlen; exact absurd (List.length_eq_zero_iff.mp hlen.symm) hne
    | cons a b => rfl
  unfold releaseThreads
  simp only [hne', Bool.false_eq_true, if_false]
  refine ⟨?_, ?_, ?_⟩
  · intro t ht
    simp only [List.mem_map] at ht
    obtain ⟨t', ht', rfl⟩ := ht
    exact ⟨fun j => f.1 t' (hc ▸ ht') j, rfl, rfl⟩
  · exact hcp.trans f.2.1
  · simp only [List.length_map]; exact hlen

end BsVerif.Life
