import BsVerif.Lemmas.LifeText
/-! Debug-register part of the C11 invariants, for a debugger attached to an external process (and not yet
restarted): every enable bit of every thread's DR7 belongs to a registered watchpoint that holds the slot. -/
namespace BsVerif.Life

/-- the part of the state the debug-register clause talks about -/
structure Dcore where
  alive : Bool
  threads : List Thread
  wps : List Wp
  lastSeen : Option Dr7
  panicked : Bool
  status : Status
  external : Bool

def dcore (s : St) : Dcore := ⟨s.proc.alive, s.proc.threads, s.wps, s.lastSeen, s.panicked, s.status, s.external⟩

theorem foldl_dcore {α} (f : St → α → St) (h : ∀ s x, dcore (f s x) = dcore s) (l : List α) (s : St) :
    dcore (l.foldl f s) = dcore s := by
  induction l generalizing s with
  | nil => rfl
  | cons x xs ih => simp only [List.foldl]; rw [ih, h]

@[simp] theorem dcore_pokeByte (s : St) (a b) : dcore (pokeByte s a b) = dcore s := by
  unfold pokeByte; split <;> rfl
@[simp] theorem dcore_bpDisable (s : St) (b) : dcore (bpDisable s b) = dcore s := dcore_pokeByte ..

@[simp] theorem dcore_addAndEnable (s : St) (b) : dcore (addAndEnable s b) = dcore s := by
  unfold addAndEnable; split
  · split
    · exact (dcore_pokeByte _ _ _).trans (dcore_bpDisable _ _)
    · exact dcore_pokeByte _ _ _
  · rfl

@[simp] theorem dcore_addUninit (s : St) (u) : dcore (addUninit s u) = dcore s := rfl

@[simp] theorem dcore_removeByAddr (s : St) (k) : dcore (removeByAddr s k).1 = dcore s := by
  unfold removeByAddr; split
  · rfl
  · split
    · rfl
    · split
      · rfl
      · exact dcore_bpDisable _ _

@[simp] theorem dcore_enableAll (s : St) : dcore (enableAll s) = dcore s := by
  unfold enableAll; rw [foldl_dcore _ (fun s x => dcore_addAndEnable s _)]; rfl

@[simp] theorem dcore_enableEntry (s : St) : dcore (enableEntry s) = dcore s := by
  unfold enableEntry; split
  · rfl
  · exact dcore_addAndEnable _ _

@[simp] theorem dcore_backToUninit (s : St) (b) : dcore (backToUninit s b) = dcore s := by
  unfold backToUninit; split <;> rfl

@[simp] theorem dcore_disableAll (s : St) : dcore (disableAll s) = dcore s := by
  unfold disableAll
  rw [foldl_dcore _ (fun s x => (dcore_backToUninit _ _).trans (dcore_bpDisable _ _))]; rfl

@[simp] theorem dcore_stepOver (s : St) : dcore (stepOver s) = dcore s := by
  unfold stepOver; split
  · rfl
  · split
    · rfl
    · simp only []
      split
      · exact (dcore_pokeByte _ _ _).trans (dcore_bpDisable _ _)
      · exact (dcore_pokeByte _ _ _).trans (dcore_bpDisable _ _)




end BsVerif.Life
