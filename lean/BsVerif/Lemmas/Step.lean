import BsVerif.Model.Step
/-!
Helper lemmas for C03 about `Model/Step.lean`: `firstIdx` is the first index, `advance`/`stepInLoop` never pass a
clean stop, `contLand` is the first later position whose address is in the effective breakpoint set.
-/
namespace BsVerif.Step

theorem firstIdx_unfold (p : Nat → Bool) (n i : Nat) :
    firstIdx p n i = if i < n then (if p i then i else firstIdx p n (i + 1)) else n := by
  unfold firstIdx
  by_cases h : i < n
  · have : n - i = (n - (i + 1)) + 1 := by omega
    rw [this, firstIdxF]
  · have : n - i = 0 := by omega
    rw [this, firstIdxF]; simp [h]

/-- induction principle along `firstIdx`: upwards from `i` to `n` -/
theorem firstIdx_induct (p : Nat → Bool) (n : Nat) (motive : Nat → Prop)
    (hit : ∀ i, i < n → p i = true → motive i)
    (skip : ∀ i, i < n → p i = false → motive (i + 1) → motive i)
    (stop : ∀ i, ¬ i < n → motive i) : ∀ i, motive i := by
  intro i
  induction h : n - i generalizing i with
  | zero => exact stop i (by omega)
  | succ m ih =>
    have hi : i < n := by omega
    cases hp : p i with
    | true => exact hit i hi hp
    | false => exact skip i hi hp (ih (i + 1) (by omega))

theorem firstIdx_le (p : Nat → Bool) (n i : Nat) (h : i ≤ n) : firstIdx p n i ≤ n := by
  revert h
  refine firstIdx_induct p n (fun i => i ≤ n → firstIdx p n i ≤ n) ?_ ?_ ?_ i
  · intro i hi hp _; rw [firstIdx_unfold]; simp [hi, hp]; omega
  · intro i hi hp ih _; rw [firstIdx_unfold]; simp [hi, hp]; exact ih (by omega)
  · intro i hi _; rw [firstIdx_unfold]; simp [hi]

theorem firstIdx_ge (p : Nat → Bool) (n i : Nat) (h : i ≤ n) : i ≤ firstIdx p n i := by
  revert h
  refine firstIdx_induct p n (fun i => i ≤ n → i ≤ firstIdx p n i) ?_ ?_ ?_ i
  · intro i hi hp _; rw [firstIdx_unfold]; simp [hi, hp]
  · intro i hi hp ih _; rw [firstIdx_unfold]; simp [hi, hp]; have := ih (by omega); omega
  · intro i hi h; rw [firstIdx_unfold]; simp [hi]; omega

theorem firstIdx_hit (p : Nat → Bool) (n i : Nat) (h : firstIdx p n i < n) : p (firstIdx p n i) = true := by
  revert h
  refine firstIdx_induct p n (fun i => firstIdx p n i < n → p (firstIdx p n i) = true) ?_ ?_ ?_ i
  · intro i hi hp _; rw [firstIdx_unfold]; simp [hi, hp]
  · intro i hi hp ih h; rw [firstIdx_unfold] at h ⊢; simp [hi, hp] at h ⊢; exact ih h
  · intro i hi h; rw [firstIdx_unfold] at h; simp [hi] at h

theorem firstIdx_min (p : Nat → Bool) (n i j : Nat) (hij : i ≤ j) (hj : j < firstIdx p n i) : p j = false := by
  revert hij hj
  refine firstIdx_induct p n (fun i => i ≤ j → j < firstIdx p n i → p j = false) ?_ ?_ ?_ i
  · intro i hi hp hij hj; rw [firstIdx_unfold] at hj; simp [hi, hp] at hj; omega
  · intro i hi hp ih hij hj
    rw [firstIdx_unfold] at hj; simp [hi, hp] at hj
    by_cases hji : j = i
    · subst hji; exact hp
    · exact ih (by omega) hj
  · intro i hi hij hj; rw [firstIdx_unfold] at hj; simp [hi] at hj; omega

/-- characterisation: `firstIdx` is THE first index satisfying `p` -/
theorem firstIdx_eq (p : Nat → Bool) (n i j : Nat) (hij : i ≤ j) (hjn : j < n) (hp : p j = true)
    (hmin : ∀ k, i ≤ k → k < j → p k = false) : firstIdx p n i = j := by
  have h1 : firstIdx p n i ≤ j := by
    apply Nat.le_of_not_lt; intro h
    have := firstIdx_min p n i j hij h
    rw [hp] at this; cases this
  have h2 : ¬ firstIdx p n i < j := by
    intro h
    have hit := firstIdx_hit p n i (by omega)
    have := hmin _ (firstIdx_ge p n i (by omega)) h
    rw [hit] at this; cases this
  omega

/-! ### `advance` -/

theorem advance_le (I : Info) (τ : Trace) (i : Nat) (h : i < τ.size) : advance I τ i ≤ τ.size := by
  unfold advance
  have h2 := firstIdx_le (fun k => (I.fn (pcAt τ k)).isSome) τ.size (i + 1) (by omega)
  simp only
  split
  · omega
  · exact firstIdx_le _ _ _ h2

theorem advance_gt (I : Info) (τ : Trace) (i : Nat) (h : i < τ.size) : i < advance I τ i := by
  unfold advance
  have h1 := firstIdx_ge (fun k => (I.fn (pcAt τ k)).isSome) τ.size (i + 1) (by omega)
  have h2 := firstIdx_le (fun k => (I.fn (pcAt τ k)).isSome) τ.size (i + 1) (by omega)
  simp only
  split
  · omega
  · rename_i g _
    have := firstIdx_ge (fun k => !I.prolog g (pcAt τ k)) τ.size _ h2
    omega

/-- a prologue range belongs to its function: inside it `find_function_by_pc` answers that function -/
def PrologInFn (I : Info) : Prop := ∀ f pc, I.prolog f pc = true → I.fn pc = some f

/-- position `k` is a *clean stop* for a `step` that started at place `sp` in frame `cfa0`: the pc has a function,
is outside that function's prologue range, is exactly the address of a statement row, and the frame or the
(file, line) differs from the start -/
def Clean (I : Info) (τ : Trace) (sp : Place) (cfa0 : Nat) (k : Nat) : Prop :=
  ∃ f, I.fn (pcAt τ k) = some f ∧ I.prolog f (pcAt τ k) = false ∧ good I τ sp cfa0 k = true

theorem advance_skips (I : Info) (τ : Trace) (sp : Place) (cfa0 : Nat) (hwf : PrologInFn I) (i k : Nat)
    (hi : i < τ.size) (hik : i < k) (hk : k < advance I τ i) : ¬ Clean I τ sp cfa0 k := by
  intro ⟨f, hf, hpro, _⟩
  unfold advance at hk
  simp only at hk
  have h2le := firstIdx_le (fun k => (I.fn (pcAt τ k)).isSome) τ.size (i + 1) (by omega)
  by_cases hk2 : k < firstIdx (fun k => (I.fn (pcAt τ k)).isSome) τ.size (i + 1)
  · have := firstIdx_min (fun k => (I.fn (pcAt τ k)).isSome) τ.size (i + 1) k (by omega) hk2
    simp [hf] at this
  · split at hk
    · -- no function at the position found: that position is the end of the trace
      rename_i hnone
      by_cases hlt : firstIdx (fun k => (I.fn (pcAt τ k)).isSome) τ.size (i + 1) < τ.size
      · have := firstIdx_hit (fun k => (I.fn (pcAt τ k)).isSome) τ.size (i + 1) hlt
        simp [hnone] at this
      · omega
    · rename_i g hg
      have := firstIdx_min (fun k => !I.prolog g (pcAt τ k)) τ.size _ k (by omega) hk
      have hpg : I.prolog g (pcAt τ k) = true := by simpa using this
      have := hwf g _ hpg
      rw [hf] at this
      cases this
      rw [hpro] at hpg; cases hpg

/-! ### `stepInLoop` -/

theorem stepInLoop_spec (I : Info) (τ : Trace) (sp : Place) (cfa0 : Nat) (hwf : PrologInFn I) :
    ∀ fuel i, i < τ.size → τ.size - i ≤ fuel →
      stepInLoop I τ sp cfa0 fuel i ≤ τ.size ∧
      (stepInLoop I τ sp cfa0 fuel i < τ.size →
        good I τ sp cfa0 (stepInLoop I τ sp cfa0 fuel i) = true ∧ i < stepInLoop I τ sp cfa0 fuel i) ∧
      (∀ k, i < k → k < stepInLoop I τ sp cfa0 fuel i → ¬ Clean I τ sp cfa0 k) := by
  intro fuel
  induction fuel with
  | zero => intro i hi hf; omega
  | succ fuel ih =>
    intro i hi hf
    have hgt := advance_gt I τ i hi
    have hle := advance_le I τ i hi
    unfold stepInLoop
    simp only
    split
    · -- the process exits
      rename_i hex
      refine ⟨Nat.le_refl _, fun h => absurd h (Nat.lt_irrefl _), ?_⟩
      intro k hik hk
      exact advance_skips I τ sp cfa0 hwf i k hi hik (by omega)
    · rename_i hlt
      split
      · rename_i hgood
        refine ⟨by omega, fun _ => ⟨hgood, hgt⟩, ?_⟩
        intro k hik hk
        exact advance_skips I τ sp cfa0 hwf i k hi hik hk
      · rename_i hbad
        obtain ⟨h1, h2, h3⟩ := ih (advance I τ i) (by omega) (by omega)
        refine ⟨h1, fun h => ⟨(h2 h).1, by have := (h2 h).2; omega⟩, ?_⟩
        intro k hik hk
        by_cases hkj : k < advance I τ i
        · exact advance_skips I τ sp cfa0 hwf i k hi hik hkj
        · by_cases hkeq : k = advance I τ i
          · subst hkeq
            intro ⟨_, _, _, hg⟩
            exact hbad hg
          · exact h3 k (by omega) hk

/-! ### `contLand`, `retPos` -/

theorem contLand_le (τ : Trace) (U T : List Nat) (i : Nat) (h : i < τ.size) : contLand τ U T i ≤ τ.size :=
  firstIdx_le _ _ _ (by omega)

theorem contLand_gt (τ : Trace) (U T : List Nat) (i : Nat) (h : i < τ.size) : i < contLand τ U T i := by
  have := firstIdx_ge (fun k => (if T.isEmpty then U else T).contains (pcAt τ k)) τ.size (i + 1) (by omega)
  unfold contLand; simp only; omega

theorem contLand_hit (τ : Trace) (U T : List Nat) (i : Nat) (h : contLand τ U T i < τ.size) :
    (if T.isEmpty then U else T).contains (pcAt τ (contLand τ U T i)) = true :=
  firstIdx_hit (fun k => (if T.isEmpty then U else T).contains (pcAt τ k)) τ.size (i + 1) h

theorem contLand_min (τ : Trace) (U T : List Nat) (i k : Nat) (hik : i < k) (hk : k < contLand τ U T i) :
    (if T.isEmpty then U else T).contains (pcAt τ k) = false :=
  firstIdx_min (fun k => (if T.isEmpty then U else T).contains (pcAt τ k)) τ.size (i + 1) k (by omega) hk

theorem retPos_le (τ : Trace) (i : Nat) (h : i < τ.size) : retPos τ i ≤ τ.size := firstIdx_le _ _ _ (by omega)

theorem retPos_gt (τ : Trace) (i : Nat) (h : i < τ.size) : i < retPos τ i := by
  have := firstIdx_ge (fun k => decide ((at' τ k).depth < (at' τ i).depth)) τ.size (i + 1) (by omega)
  unfold retPos; omega

theorem retPos_hit (τ : Trace) (i : Nat) (h : retPos τ i < τ.size) : (at' τ (retPos τ i)).depth < (at' τ i).depth := by
  have := firstIdx_hit (fun k => decide ((at' τ k).depth < (at' τ i).depth)) τ.size (i + 1) h
  simp only [decide_eq_true_eq] at this
  exact this

theorem retPos_min (τ : Trace) (i k : Nat) (hik : i < k) (hk : k < retPos τ i) : (at' τ i).depth ≤ (at' τ k).depth := by
  have := firstIdx_min (fun k => decide ((at' τ k).depth < (at' τ i).depth)) τ.size (i + 1) k (by omega) hk
  simp at this; omega

end BsVerif.Step
