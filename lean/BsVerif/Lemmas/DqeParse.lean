import BsVerif.Lemmas.DqeSlice
/-! Round trip of the canonical printer through the grammar mirror, on the operator skeleton. -/
namespace BsVerif.Dqe

/-- `a[i]` with an integer literal: the literal grammar reads the number, then `]` -/
theorem parseLit_nat_close (f n : Nat) (hn : n < 2 ^ 63) (more : Str) :
    parseLit (f + 1) (natText n ++ ']' :: more) = .ok (.int n) (']' :: more) := by
  obtain ⟨c, cs, hc, hd, hz⟩ := natText_head n
  have hws : isWs c = false := identCont_notWs c (by simp [isIdentCont, hd])
  have hstop : stopsDigits (']' :: more) = true := by simp [stopsDigits]; decide
  have hscan := scanInt_natText n (']' :: more) hstop
  have hdec := parseDec_natText n (by omega)
  have hsk : skipWs (natText n ++ ']' :: more) = natText n ++ ']' :: more := by
    rw [hc]; exact skipWs_cons c _ hws
  have hminus : c ≠ '-' := ne_of_class isDigit c '-' hd (by decide)
  have ht : c ≠ 't' := ne_of_class isDigit c 't' hd (by decide)
  have hf : c ≠ 'f' := ne_of_class isDigit c 'f' hd (by decide)
  have hneg : ((natText n ++ ']' :: more).head? == some '-') = false := by rw [hc]; simp [hminus]
  have hfloat : floatTok (natText n ++ ']' :: more) = none := by
    simp only [floatTok, hneg, Bool.false_eq_true, ↓reduceIte, hscan]
    rfl
  have htrue : symS ['t', 'r', 'u', 'e'] (natText n ++ ']' :: more) = none := by
    rw [symS, hsk, hc]; simp [stripPrefix, Ne.symm ht]
  have hfalse : symS ['f', 'a', 'l', 's', 'e'] (natText n ++ ']' :: more) = none := by
    rw [symS, hsk, hc]; simp [stripPrefix, Ne.symm hf]
  have hhex : hexTok (natText n ++ ']' :: more) = .fail := by
    rw [hexTok, hsk, hc]
    by_cases h0 : c = '0'
    · subst h0; rw [hz rfl]; simp [stripPrefix]
    · simp [stripPrefix, Ne.symm h0]
  have hint : intTok (natText n ++ ']' :: more) = .ok (n : Int) (']' :: more) := by
    have h63 : n < 2 ^ 63 := hn
    simp only [intTok, hneg, Bool.false_eq_true, ↓reduceIte, hscan, hdec, h63]
  simp [parseLit, hfloat, htrue, hfalse, hhex, hint]

theorem parsePost_index_nat (n : Nat) (hn : n < 2 ^ 63) (rest : Str) (hrest : followPost rest = true) :
    parsePost ('[' :: natText n ++ ']' :: rest) = .ok (.index (.int n)) rest := by
  obtain ⟨c, cs, hc, hd, _⟩ := natText_head n
  have hws : isWs c = false := identCont_notWs c (by simp [isIdentCont, hd])
  have hsk : skipWs (natText n ++ ']' :: rest) = natText n ++ ']' :: rest := by rw [hc]; exact skipWs_cons c _ hws
  have hfu : ∀ s : Str, litFuel s = (7 + 4 * s.length) + 1 := by intro s; simp [litFuel]; omega
  have hlit := parseLit_nat_close (7 + 4 * (natText n ++ ']' :: rest).length) n hn rest
  have hrestnw := (followPost_facts rest hrest).1
  simp only [List.cons_append] at *
  rw [parsePost]
  simp only [sym_miss '.' '[' _ (by decide) (by decide), sym_hit '[' _ (by decide : isWs '[' = false), hsk, hfu, hlit,
    skipWs_cons ']' _ (by decide : isWs ']' = false), sym_hit ']' _ (by decide : isWs ']' = false), skipWs_id _ hrestnw]


/-! ### postfix chain of fields over a variable -/

/-- postfix operators of the fragment: fields named by identifiers, slices with bounds below 2^64, indexes by a
non-negative integer literal -/
def okPost : Post → Bool
  | .field f => isIdentB f
  | .slice l r => decide (l.getD 0 < 2 ^ 64) && decide (r.getD 0 < 2 ^ 64)
  | .index (.int i) => decide (0 ≤ i) && decide (i < 2 ^ 63)
  | .index _ => false

def postText : Post → Str
  | .field f => '.' :: f
  | .slice l r => '[' :: printBound l ++ '.' :: '.' :: printBound r ++ [']']
  | .index l => '[' :: printLit l ++ [']']

def fieldsText : List Post → Str
  | [] => []
  | p :: ps => postText p ++ fieldsText ps

def chain (a : Dqe) (ps : List Post) : Dqe := ps.foldl (fun a p => p.apply a) a

theorem followPost_fieldsText (fs : List Post) (rest : Str) (hr : followPost rest = true) :
    followPost (fieldsText fs ++ rest) = true := by
  cases fs with
  | nil => simpa [fieldsText] using hr
  | cons f fs => cases f <;> simp [fieldsText, postText, followPost]

theorem parsePost_field (f rest : Str) (hf : isIdentB f = true) (hr : followPost rest = true) :
    parsePost ('.' :: f ++ rest) = .ok (.field f) rest := by
  obtain ⟨c, cs, rfl, hc⟩ := ident_head f hf
  have hws : isWs c = false := identCont_notWs c (identStart_cont c hc)
  have h2 := (followPost_facts rest hr).2.1
  have hscan := scanIdent_append (c :: cs) rest hf h2
  have hsym : sym '.' ('.' :: (c :: cs ++ rest)) = some (c :: cs ++ rest) := by
    rw [sym_hit '.' _ (by decide)]; exact congrArg some (skipWs_cons c _ hws)
  simp only [parsePost, List.cons_append] at *
  simp only [hsym, hscan]

/-- what may follow a whole expression: nothing or `)` -/
def followExpr : Str → Bool
  | [] => true
  | c :: _ => c == ')'

theorem followExpr_post (s : Str) (h : followExpr s = true) : followPost s = true := by
  cases s with
  | nil => rfl
  | cons c r => simp only [followExpr, beq_iff_eq] at h; subst h; rfl

theorem parsePost_stop (rest : Str) (hr : followExpr rest = true) : parsePost rest = .fail := by
  cases rest with
  | nil => simp [parsePost, sym_nil]
  | cons c r =>
    simp only [followExpr, beq_iff_eq] at hr; subst hr
    simp [parsePost, sym_miss '.' ')' r (by decide) (by decide), sym_miss '[' ')' r (by decide) (by decide)]

theorem parsePost_ok (p : Post) (hp : okPost p = true) (rest : Str) (hr : followPost rest = true) :
    parsePost (postText p ++ rest) = .ok p rest := by
  cases p with
  | field f => exact parsePost_field f rest (by simpa [okPost] using hp) hr
  | slice l r =>
    simp only [okPost, Bool.and_eq_true, decide_eq_true_eq] at hp
    have := parsePost_slice l r hp.1 hp.2 rest hr
    simpa [postText] using this
  | index l =>
    cases l with
    | int i =>
      simp only [okPost, Bool.and_eq_true, decide_eq_true_eq] at hp
      have hnat : (i.toNat : Int) = i := Int.toNat_of_nonneg hp.1
      have := parsePost_index_nat i.toNat (by omega) rest hr
      have hneg : ¬ (i < 0) := by omega
      simp only [postText, printLit, if_neg hneg, List.cons_append, List.append_assoc, List.singleton_append, List.nil_append] at this ⊢
      rw [this, hnat]
    | _ => simp [okPost] at hp

theorem parsePosts_fields (fs : List Post) (a : Dqe) (rest : Str) (k : Nat)
    (hfs : fs.all okPost = true) (hr : followExpr rest = true) (hk : fs.length ≤ k) :
    parsePosts k a (fieldsText fs ++ rest) = .ok (chain a fs) rest := by
  induction fs generalizing a k with
  | nil =>
    cases k with
    | zero => simp [parsePosts, fieldsText, chain]
    | succ k => simp [parsePosts, fieldsText, chain, parsePost_stop rest hr]
  | cons f fs ih =>
    simp only [List.all_cons, Bool.and_eq_true] at hfs
    cases k with
    | zero => simp at hk
    | succ k =>
      have hfol := followPost_fieldsText fs rest (followExpr_post rest hr)
      have := parsePost_ok f hfs.1 (fieldsText fs ++ rest) hfol
      simp only [fieldsText, List.append_assoc] at this ⊢
      rw [parsePosts, this]
      simp only
      exact ih (f.apply a) k hfs.2 (by simpa using hk)

theorem fieldsText_length (fs : List Post) : fs.length ≤ (fieldsText fs).length := by
  induction fs with
  | nil => simp
  | cons f fs ih => cases f <;> simp [fieldsText, postText] <;> omega


/-! ### prefix operators -/

theorem parsePre_none (c : Char) (s : Str) (hws : isWs c = false) (h1 : c ≠ '*') (h2 : c ≠ '&') (h3 : c ≠ '~') :
    parsePre (c :: s) = none := by
  simp [parsePre, sym_miss '*' c s hws h1, sym_miss '&' c s hws h2, sym_miss '~' c s hws h3]

theorem parsePres_none (k : Nat) (c : Char) (s : Str) (hws : isWs c = false) (h1 : c ≠ '*') (h2 : c ≠ '&') (h3 : c ≠ '~') :
    parsePres k (c :: s) = ([], c :: s) := by
  cases k with
  | zero => rfl
  | succ k => simp [parsePres, parsePre_none c s hws h1 h2 h3]

def Pre.char : Pre → Char
  | .deref => '*'
  | .address => '&'
  | .canonic => '~'

theorem parsePre_hit (p : Pre) (s : Str) : parsePre (p.char :: s) = some (p, skipWs s) := by
  cases p
  · simp [Pre.char, parsePre, sym_hit '*' s (by decide)]
  · simp [Pre.char, parsePre, sym_miss '*' '&' s (by decide) (by decide), sym_hit '&' s (by decide)]
  · simp [Pre.char, parsePre, sym_miss '*' '~' s (by decide) (by decide), sym_miss '&' '~' s (by decide) (by decide),
      sym_hit '~' s (by decide)]

/-- the variable-and-fields chain, followed by the end or `)` -/
theorem parseExpr_chain (f : Nat) (n : Str) (fs : List Post) (rest : Str)
    (hn : isIdentB n = true) (hfs : fs.all okPost = true) (hr : followExpr rest = true) :
    parseExpr (f + 1) (n ++ fieldsText fs ++ rest) = .ok (chain (.var n) fs) rest := by
  obtain ⟨c, cs, rfl, hc⟩ := ident_head n hn
  have hws : isWs c = false := identCont_notWs c (identStart_cont c hc)
  have n1 : c ≠ '*' := ne_of_class isIdentStart c '*' hc (by decide)
  have n2 : c ≠ '&' := ne_of_class isIdentStart c '&' hc (by decide)
  have n3 : c ≠ '~' := ne_of_class isIdentStart c '~' hc (by decide)
  have hfol := followPost_fieldsText fs rest (followExpr_post rest hr)
  have hrid := rustIdent_ident (c :: cs) (fieldsText fs ++ rest) hn hfol
  have hnw := (followPost_facts _ hfol).1
  have hposts := parsePosts_fields fs (.var (c :: cs)) rest (fieldsText fs ++ rest).length hfs hr
    (by have := fieldsText_length fs; simp; omega)
  rw [parseExpr]
  simp only [List.cons_append, List.append_assoc] at hrid ⊢
  rw [parsePres_none _ c _ hws n1 n2 n3]
  simp only [skipWs_cons c _ hws, hrid, skipWs_id _ hnw, hposts, List.foldr_nil]

/-- a prefix operator in front: parse the rest, apply the operator outermost -/
theorem parseExpr_pre (f : Nat) (p : Pre) (s : Str) (hs : startsNonWs s = true) :
    parseExpr (f + 1) (p.char :: s) =
      match parseExpr (f + 1) s with
      | .ok e r => .ok (p.apply e) r
      | .fail => .fail
      | .panic => .panic := by
  rw [parseExpr, parseExpr]
  simp only [List.length_cons, parsePres, parsePre_hit p s, skipWs_id s hs]
  cases hp : parsePres s.length s with
  | mk ps r =>
    simp only
    split <;> simp_all
    split <;> simp_all


/-! ### the fragment: prefix operators over a chain of fields over a variable -/

def chainOk : Dqe → Bool
  | .var n => isIdentB n
  | .field e f => chainOk e && isIdentB f
  | _ => false

theorem fieldsText_append (fs : List Post) (f : Str) : fieldsText (fs ++ [.field f]) = fieldsText fs ++ '.' :: f := by
  induction fs with
  | nil => simp [fieldsText, postText]
  | cons g gs ih => simp [fieldsText, ih]

theorem chainOk_decomp (e : Dqe) (h : chainOk e = true) :
    ∃ n fs, e = chain (.var n) fs ∧ isIdentB n = true ∧ fs.all okPost = true ∧
      printPost e = n ++ fieldsText fs ∧ printPre e = n ++ fieldsText fs := by
  induction e with
  | var n => exact ⟨n, [], rfl, by simpa [chainOk] using h, rfl, by simp [printPost, fieldsText], by simp [printPre, fieldsText]⟩
  | field e f ih =>
    simp only [chainOk, Bool.and_eq_true] at h
    obtain ⟨n, fs, he, hn, hfs, hp, _⟩ := ih h.1
    refine ⟨n, fs ++ [.field f], ?_, hn, ?_, ?_, ?_⟩
    · simp [chain, List.foldl_append, he, Post.apply]
    · simp [List.all_append, hfs, h.2, okPost]
    · simp [printPost, hp, fieldsText_append]
    · simp [printPre, hp, fieldsText_append]
  | _ => simp [chainOk] at h


/-! ### canonical text is "tidy": no white space, and every `)` is followed by nothing, `.`, `[` or `)` -/

def tidy : Str → Bool
  | [] => true
  | c :: s => !isWs c && (c != ')' || followPost s) && tidy s

theorem tidy_startsNonWs (s : Str) (h : tidy s = true) : startsNonWs s = true := by
  cases s with
  | nil => rfl
  | cons c r => simp only [tidy, Bool.and_eq_true] at h; simpa [startsNonWs] using h.1.1

theorem tidy_ident_append (n t : Str) (hn : n.all isIdentCont = true) (ht : tidy t = true) : tidy (n ++ t) = true := by
  induction n with
  | nil => simpa using ht
  | cons c cs ih =>
    simp only [List.all_cons, Bool.and_eq_true] at hn
    have h1 := identCont_notWs c hn.1
    have h2 : c ≠ ')' := ne_of_class isIdentCont c ')' hn.1 (by decide)
    simp [tidy, h1, h2, ih hn.2]

theorem isIdentB_all (n : Str) (h : isIdentB n = true) : n.all isIdentCont = true := by
  cases n with
  | nil => simp [isIdentB] at h
  | cons c cs =>
    simp only [isIdentB, Bool.and_eq_true] at h
    simp [identStart_cont c h.1, h.2]

theorem tidy_digits_append (n : Nat) (t : Str) (ht : tidy t = true) : tidy (natText n ++ t) = true := by
  have h : ∀ ds : List Nat, (∀ d ∈ ds, d < 10) → tidy (ds.map digitChar ++ t) = true := by
    intro ds
    induction ds with
    | nil => intro _; simpa using ht
    | cons d ds ih =>
      intro hd
      have hf := digitChar_facts d (hd d (by simp))
      have := ih (fun x hx => hd x (by simp [hx]))
      simp [tidy, hf.2.2.2.1, hf.2.2.2.2, this]
  exact h _ (toDigs_lt 10 (by omega) n n)

theorem tidy_bound_append (b : Option Nat) (t : Str) (ht : tidy t = true) : tidy (printBound b ++ t) = true := by
  cases b with
  | none => simpa [printBound] using ht
  | some n => exact tidy_digits_append n t ht

theorem tidy_postText (p : Post) (hp : okPost p = true) (t : Str) (ht : tidy t = true) (hf : followPost t = true) :
    tidy (postText p ++ t) = true := by
  cases p with
  | field f =>
    have := tidy_ident_append f t (isIdentB_all f (by simpa [okPost] using hp)) ht
    simp only [postText, List.cons_append, tidy, Bool.and_eq_true]
    exact ⟨⟨by decide, by simp⟩, this⟩
  | slice l r =>
    have h1 : tidy (']' :: t) = true := by
      simp only [tidy, Bool.and_eq_true]; exact ⟨⟨by decide, by simp⟩, ht⟩
    have h2 := tidy_bound_append r _ h1
    have h3 : tidy ('.' :: '.' :: (printBound r ++ ']' :: t)) = true := by
      simp only [tidy, Bool.and_eq_true]; exact ⟨⟨by decide, by simp⟩, ⟨⟨by decide, by simp⟩, h2⟩⟩
    have h4 := tidy_bound_append l _ h3
    simp only [postText, List.cons_append, List.append_assoc, List.singleton_append, tidy, Bool.and_eq_true]
    exact ⟨⟨by decide, by simp⟩, h4⟩
  | index l =>
    cases l with
    | int i =>
      simp only [okPost, Bool.and_eq_true, decide_eq_true_eq] at hp
      have hneg : ¬ (i < 0) := by omega
      have h1 : tidy (']' :: t) = true := by
        simp only [tidy, Bool.and_eq_true]; exact ⟨⟨by decide, by simp⟩, ht⟩
      have h2 := tidy_digits_append i.toNat _ h1
      simp only [postText, printLit, if_neg hneg, List.cons_append, List.append_assoc, List.singleton_append, tidy, Bool.and_eq_true]
      exact ⟨⟨by decide, by simp⟩, h2⟩
    | _ => simp [okPost] at hp

/-- expressions of the fragment: identifiers as variables and fields, prefix operators anywhere -/
def frag : Dqe → Bool
  | .var n => isIdentB n
  | .field e f => frag e && isIdentB f
  | .slice e l r => frag e && okPost (.slice l r)
  | .index e l => frag e && okPost (.index l)
  | .deref e | .address e | .canonic e => frag e
  | _ => false

theorem tidy_print (e : Dqe) (he : frag e = true) (t : Str) (ht : tidy t = true) (hf : followPost t = true) :
    tidy (printPost e ++ t) = true ∧ tidy (printPre e ++ t) = true := by
  induction e generalizing t with
  | var n =>
    have := tidy_ident_append n t (isIdentB_all n (by simpa [frag] using he)) ht
    simp [printPost, printPre, this]
  | field e f ih =>
    simp only [frag, Bool.and_eq_true] at he
    have h1 : tidy ('.' :: f ++ t) = true := by
      have := tidy_ident_append f t (isIdentB_all f he.2) ht
      simp only [tidy, List.cons_append, Bool.and_eq_true]
      exact ⟨⟨by decide, by simp⟩, this⟩
    have := (ih he.1 ('.' :: f ++ t) h1 (by simp [followPost])).1
    simp only [printPost, printPre, List.append_assoc]
    exact ⟨this, this⟩
  | index e l ih =>
    simp only [frag, Bool.and_eq_true] at he
    have h1 := tidy_postText (.index l) he.2 t ht hf
    have hfo : followPost (postText (.index l) ++ t) = true := by simp [postText, followPost]
    have := (ih he.1 _ h1 hfo).1
    simp only [postText, List.cons_append, List.append_assoc, List.singleton_append] at this
    simp only [printPost, printPre, List.cons_append, List.append_assoc, List.singleton_append]
    exact ⟨this, this⟩
  | slice e l r ih =>
    simp only [frag, Bool.and_eq_true] at he
    have h1 := tidy_postText (.slice l r) he.2 t ht hf
    have hfo : followPost (postText (.slice l r) ++ t) = true := by simp [postText, followPost]
    have := (ih he.1 _ h1 hfo).1
    simp only [postText, List.cons_append, List.append_assoc, List.singleton_append] at this
    simp only [printPost, printPre, List.cons_append, List.append_assoc, List.singleton_append]
    exact ⟨this, this⟩
  | deref e ih | address e ih | canonic e ih =>
    simp only [frag] at he
    have hc : tidy (')' :: t) = true := by simp [tidy, hf, ht]; decide
    have h1 := (ih he (')' :: t) hc (by simp [followPost])).2
    have h2 := (ih he t ht hf).2
    simp only [printPost, printPre, List.cons_append, List.append_assoc, tidy, Bool.and_eq_true]
    simp only [List.nil_append]
    refine ⟨⟨⟨by decide, by simp⟩, ⟨⟨by decide, by simp⟩, h1⟩⟩, ⟨⟨by decide, by simp⟩, h2⟩⟩
  | _ => simp [frag] at he


theorem tidy_dropWhile (p : Char → Bool) (s : Str) (h : tidy s = true) : tidy (s.dropWhile p) = true := by
  induction s with
  | nil => simp [tidy]
  | cons c r ih =>
    simp only [tidy, Bool.and_eq_true] at h
    simp only [List.dropWhile]
    split
    · exact ih h.2
    · simp [tidy, h.1.1, h.1.2, h.2]

theorem tidy_fieldsText (fs : List Post) (rest : Str) (hfs : fs.all okPost = true) (hr : tidy rest = true)
    (hf : followPost rest = true) : tidy (fieldsText fs ++ rest) = true := by
  induction fs with
  | nil => simpa [fieldsText] using hr
  | cons f fs ih =>
    simp only [List.all_cons, Bool.and_eq_true] at hfs
    have := tidy_postText f hfs.1 (fieldsText fs ++ rest) (ih hfs.2) (followPost_fieldsText fs rest hf)
    simpa [fieldsText] using this

theorem hexTok_fail (r : Str) (h : followPost r = true) : hexTok r = .fail := by
  cases r with
  | nil => simp [hexTok, skipWs, stripPrefix]
  | cons c t =>
    simp only [followPost, Bool.or_eq_true, beq_iff_eq] at h
    rcases h with (rfl | rfl) | rfl
    · have : skipWs ('.' :: t) = '.' :: t := skipWs_cons _ _ (by decide)
      simp [hexTok, this, stripPrefix]
    · have : skipWs (')' :: t) = ')' :: t := skipWs_cons _ _ (by decide)
      simp [hexTok, this, stripPrefix]
    · have : skipWs ('[' :: t) = '[' :: t := skipWs_cons _ _ (by decide)
      simp [hexTok, this, stripPrefix]

/-- a parenthesised canonical expression is never taken for a pointer cast -/
theorem ptrCast_paren_fail (u : Str) (hu : tidy u = true) : ptrCast ('(' :: u) = .fail := by
  have hsym : sym '(' ('(' :: u) = some u := by
    rw [sym_hit '(' u (by decide), skipWs_id u (tidy_startsNonWs u hu)]
  unfold ptrCast
  simp only [hsym]
  split
  · rfl
  · have hd := tidy_dropWhile isTypeCh u hu
    cases hdd : u.dropWhile isTypeCh with
    | nil => simp [sym_nil]
    | cons x r =>
      rw [hdd] at hd
      simp only [tidy, Bool.and_eq_true, Bool.or_eq_true, bne_iff_ne, ne_eq, Bool.not_eq_true'] at hd
      by_cases hx : x = ')'
      · subst hx
        have hfp : followPost r = true := by
          rcases hd.1.2 with h | h
          · exact absurd rfl h
          · exact h
        rw [sym_hit ')' r (by decide), skipWs_id r (tidy_startsNonWs r hd.2)]
        simp [hexTok_fail r hfp]
      · simp [sym_miss ')' x r hd.1.1 hx]

theorem rustIdent_paren (u : Str) : rustIdent ('(' :: u) = none := by
  have : skipWs ('(' :: u) = '(' :: u := skipWs_cons '(' u (by decide)
  have h2 : isIdentStart '(' = false := by decide
  simp [rustIdent, this, stripPrefix, scanIdent, h2]


/-! ### round trip on the fragment -/

def size : Dqe → Nat
  | .field e _ => size e + 1
  | .slice e _ _ => size e + 1
  | .index e _ => size e + 1
  | .deref e | .address e | .canonic e => size e + 1
  | _ => 1

theorem printPost_pre (p : Pre) (e : Dqe) : printPost (p.apply e) = '(' :: p.char :: printPre e ++ [')'] := by
  cases p <;> simp [Pre.apply, Pre.char, printPost]
theorem printPre_pre (p : Pre) (e : Dqe) : printPre (p.apply e) = p.char :: printPre e := by
  cases p <;> simp [Pre.apply, Pre.char, printPre]
theorem pre_notWs (p : Pre) : isWs p.char = false := by cases p <;> decide

/-- both positions at once: `e` in postfix position followed by further fields, and `e` in prefix position -/
def RT (e : Dqe) : Prop :=
  (∀ (fs : List Post) (rest : Str) (f : Nat), fs.all okPost = true → followExpr rest = true → tidy rest = true → size e ≤ f →
      parseExpr (f + 1) (printPost e ++ fieldsText fs ++ rest) = .ok (chain e fs) rest) ∧
  (∀ (rest : Str) (f : Nat), followExpr rest = true → tidy rest = true → size e ≤ f →
      parseExpr (f + 1) (printPre e ++ rest) = .ok e rest)

theorem rt_pre (p : Pre) (e : Dqe) (he : frag e = true) (ih : RT e) : RT (p.apply e) := by
  have hsize : size (p.apply e) = size e + 1 := by cases p <;> simp [Pre.apply, size]
  have hB : ∀ (rest : Str) (f : Nat), followExpr rest = true → tidy rest = true → size e ≤ f →
      parseExpr (f + 1) (printPre (p.apply e) ++ rest) = .ok (p.apply e) rest := by
    intro rest f hr ht hf
    have hnw := tidy_startsNonWs _ (tidy_print e he rest ht (followExpr_post rest hr)).2
    rw [printPre_pre, List.cons_append, parseExpr_pre f p _ hnw, ih.2 rest f hr ht hf]
  refine ⟨?_, fun rest f hr ht hf => hB rest f hr ht (by omega)⟩
  intro fs rest f hfs hr ht hf
  rw [hsize] at hf
  obtain ⟨f', rfl⟩ : ∃ f', f = f' + 1 := ⟨f - 1, by omega⟩
  -- the text: "(" p printPre e ")" fields rest
  have htail_t : tidy (fieldsText fs ++ rest) = true := tidy_fieldsText fs rest hfs ht (followExpr_post rest hr)
  have htail_f : followPost (fieldsText fs ++ rest) = true := followPost_fieldsText fs rest (followExpr_post rest hr)
  have hclose_t : tidy (')' :: (fieldsText fs ++ rest)) = true := by
    simp only [tidy, Bool.and_eq_true]; exact ⟨⟨by decide, by simp [htail_f]⟩, htail_t⟩
  have hclose_e : followExpr (')' :: (fieldsText fs ++ rest)) = true := rfl
  have hinner_t : tidy (p.char :: printPre e ++ ')' :: (fieldsText fs ++ rest)) = true := by
    have := (tidy_print e he _ hclose_t (followExpr_post _ hclose_e)).2
    simp only [tidy, List.cons_append, Bool.and_eq_true]
    exact ⟨⟨by simp [pre_notWs p], by cases p <;> simp [Pre.char]⟩, this⟩
  have hinner := hB (')' :: (fieldsText fs ++ rest)) f' hclose_e hclose_t (by omega)
  rw [printPre_pre, List.cons_append] at hinner
  have hposts := parsePosts_fields fs (p.apply e) rest (fieldsText fs ++ rest).length hfs hr
    (by have := fieldsText_length fs; simp; omega)
  have htext : printPost (p.apply e) ++ fieldsText fs ++ rest
      = '(' :: (p.char :: printPre e ++ ')' :: (fieldsText fs ++ rest)) := by
    rw [printPost_pre]; simp
  rw [htext, parseExpr]
  rw [parsePres_none _ '(' _ (by decide) (by decide) (by decide) (by decide)]
  simp only [skipWs_cons '(' _ (by decide : isWs '(' = false), rustIdent_paren, ptrCast_paren_fail _ hinner_t,
    sym_hit '(' _ (by decide : isWs '(' = false), skipWs_id _ (tidy_startsNonWs _ hinner_t)]
  simp only [List.cons_append] at hinner ⊢
  rw [hinner]
  simp only [sym_hit ')' _ (by decide : isWs ')' = false), skipWs_id _ (tidy_startsNonWs _ htail_t), hposts, List.foldr_nil]

theorem roundtrip (e : Dqe) (he : frag e = true) : RT e := by
  induction e with
  | var n =>
    have hn : isIdentB n = true := by simpa [frag] using he
    have hA : ∀ (fs : List Post) (rest : Str) (f : Nat), fs.all okPost = true → followExpr rest = true → tidy rest = true →
        size (Dqe.var n) ≤ f → parseExpr (f + 1) (printPost (.var n) ++ fieldsText fs ++ rest) = .ok (chain (.var n) fs) rest := by
      intro fs rest f hfs hr _ _
      simpa [printPost] using parseExpr_chain f n fs rest hn hfs hr
    refine ⟨hA, fun rest f hr ht hf => ?_⟩
    have := hA [] rest f rfl hr ht hf
    simpa [printPost, printPre, fieldsText, chain] using this
  | field e g ih =>
    simp only [frag, Bool.and_eq_true] at he
    have hA : ∀ (fs : List Post) (rest : Str) (f : Nat), fs.all okPost = true → followExpr rest = true → tidy rest = true →
        size (Dqe.field e g) ≤ f → parseExpr (f + 1) (printPost (.field e g) ++ fieldsText fs ++ rest) = .ok (chain (.field e g) fs) rest := by
      intro fs rest f hfs hr ht hf
      have := (ih he.1).1 (.field g :: fs) rest f (by simp [he.2, hfs, okPost]) hr ht (by simp [size] at hf; omega)
      simpa [printPost, fieldsText, postText, chain, Post.apply] using this
    refine ⟨hA, fun rest f hr ht hf => ?_⟩
    have := hA [] rest f rfl hr ht hf
    simpa [printPost, printPre, fieldsText, chain] using this
  | index e l ih =>
    simp only [frag, Bool.and_eq_true] at he
    have hA : ∀ (fs : List Post) (rest : Str) (f : Nat), fs.all okPost = true → followExpr rest = true → tidy rest = true →
        size (Dqe.index e l) ≤ f → parseExpr (f + 1) (printPost (.index e l) ++ fieldsText fs ++ rest) = .ok (chain (.index e l) fs) rest := by
      intro fs rest f hfs hr ht hf
      have := (ih he.1).1 (.index l :: fs) rest f (by simp [he.2, hfs]) hr ht (by simp [size] at hf; omega)
      simpa [printPost, fieldsText, postText, chain, Post.apply] using this
    refine ⟨hA, fun rest f hr ht hf => ?_⟩
    have := hA [] rest f rfl hr ht hf
    simpa [printPost, printPre, fieldsText, chain] using this
  | slice e l r ih =>
    simp only [frag, Bool.and_eq_true] at he
    have hA : ∀ (fs : List Post) (rest : Str) (f : Nat), fs.all okPost = true → followExpr rest = true → tidy rest = true →
        size (Dqe.slice e l r) ≤ f → parseExpr (f + 1) (printPost (.slice e l r) ++ fieldsText fs ++ rest) = .ok (chain (.slice e l r) fs) rest := by
      intro fs rest f hfs hr ht hf
      have := (ih he.1).1 (.slice l r :: fs) rest f (by simp [he.2, hfs]) hr ht (by simp [size] at hf; omega)
      simpa [printPost, fieldsText, postText, chain, Post.apply] using this
    refine ⟨hA, fun rest f hr ht hf => ?_⟩
    have := hA [] rest f rfl hr ht hf
    simpa [printPost, printPre, fieldsText, chain] using this
  | deref e ih => exact rt_pre .deref e (by simpa [frag] using he) (ih (by simpa [frag] using he))
  | address e ih => exact rt_pre .address e (by simpa [frag] using he) (ih (by simpa [frag] using he))
  | canonic e ih => exact rt_pre .canonic e (by simpa [frag] using he) (ih (by simpa [frag] using he))
  | _ => simp [frag] at he

theorem size_le_print (e : Dqe) (he : frag e = true) : size e ≤ (printPre e).length ∧ size e ≤ (printPost e).length := by
  induction e with
  | var n =>
    obtain ⟨c, cs, rfl, _⟩ := ident_head n (by simpa [frag] using he)
    simp [size, printPre, printPost]
  | field e g ih =>
    simp only [frag, Bool.and_eq_true] at he
    have := ih he.1
    simp [size, printPre, printPost]; omega
  | slice e l r ih =>
    simp only [frag, Bool.and_eq_true] at he
    have := ih he.1
    simp [size, printPre, printPost]; omega
  | index e l ih =>
    simp only [frag, Bool.and_eq_true] at he
    have := ih he.1
    simp [size, printPre, printPost]; omega
  | deref e ih | address e ih | canonic e ih =>
    have := ih (by simpa [frag] using he)
    simp [size, printPre, printPost]; omega
  | _ => simp [frag] at he

/-- the round trip through `parse` -/
theorem print_parse_frag (e : Dqe) (he : frag e = true) : parse (print e) = .ok e [] := by
  have h := (roundtrip e he).2 [] ((print e).length + 1) rfl rfl (by have := (size_le_print e he).1; simp only [print]; omega)
  simp only [List.append_nil] at h
  have hf : exprFuel (print e) = (print e).length + 1 + 1 := by simp only [exprFuel]; omega
  unfold parse
  rw [hf]
  simp only [print] at h ⊢
  rw [h]

end BsVerif.Dqe
