import BsVerif.Model.DqeVal
/-! Lexical and round-trip lemmas for the DQE grammar mirror (`Model/Dqe.lean`). -/
namespace BsVerif.Dqe

/-! ### characters -/

theorem ne_of_class (p : Char → Bool) (c d : Char) (h : p c = true) (hd : p d = false) : c ≠ d := by
  rintro rfl; simp [h] at hd

theorem identCont_notWs (c : Char) (h : isIdentCont c = true) : isWs c = false := by
  have hn : c.toNat = c.val.toNat := rfl
  have ha : 'a'.val.toNat = 97 := rfl
  have hz : 'z'.val.toNat = 122 := rfl
  have hA : 'A'.val.toNat = 65 := rfl
  have hZ : 'Z'.val.toNat = 90 := rfl
  have h0 : '0'.val.toNat = 48 := rfl
  have h9 : '9'.val.toNat = 57 := rfl
  simp only [isIdentCont, isAlpha, isDigit, isWs, Bool.or_eq_true, Bool.and_eq_true, decide_eq_true_eq, beq_iff_eq,
    Char.le_def, UInt32.le_iff_toNat_le, ne_eq, Bool.or_eq_false_iff, Bool.and_eq_false_iff, beq_eq_false_iff_ne,
    decide_eq_false_iff_not, hn, ha, hz, hA, hZ, h0, h9] at h ⊢
  rcases h with h | rfl
  · omega
  · decide

theorem identStart_cont (c : Char) (h : isIdentStart c = true) : isIdentCont c = true := by
  simp only [isIdentStart, isIdentCont, Bool.or_eq_true] at h ⊢
  rcases h with h | h
  · exact Or.inl (Or.inl h)
  · exact Or.inr h

/-! ### white space, symbols -/

theorem skipWs_cons (c : Char) (s : Str) (h : isWs c = false) : skipWs (c :: s) = c :: s := by
  simp [skipWs, List.dropWhile, h]

theorem skipWs_nil : skipWs [] = [] := rfl

/-- the next character (if any) is not white space -/
def startsNonWs : Str → Bool
  | [] => true
  | c :: _ => !isWs c

theorem skipWs_id (s : Str) (h : startsNonWs s = true) : skipWs s = s := by
  cases s with
  | nil => rfl
  | cons c r => exact skipWs_cons c r (by simpa [startsNonWs] using h)

theorem sym_hit (c : Char) (s : Str) (hc : isWs c = false) : sym c (c :: s) = some (skipWs s) := by
  simp [sym, skipWs_cons c s hc]

theorem sym_miss (c x : Char) (s : Str) (hx : isWs x = false) (hne : x ≠ c) : sym c (x :: s) = none := by
  simp [sym, skipWs_cons x s hx, hne]

theorem sym_nil (c : Char) : sym c [] = none := rfl

/-! ### identifiers -/

def isIdentB : Str → Bool
  | [] => false
  | c :: cs => isIdentStart c && cs.all isIdentCont

/-- the next character (if any) cannot continue an identifier -/
def stopsIdent : Str → Bool
  | [] => true
  | c :: _ => !isIdentCont c

theorem takeWhile_append_stop (p : Char → Bool) (a b : Str) (ha : a.all p = true)
    (hb : ∀ c r, b = c :: r → p c = false) : (a ++ b).takeWhile p = a ∧ (a ++ b).dropWhile p = b := by
  induction a with
  | nil =>
    cases b with
    | nil => simp
    | cons c r => simp [hb c r rfl]
  | cons x xs ih =>
    simp only [List.all_cons, Bool.and_eq_true] at ha
    simp [ha.1, ih ha.2]

theorem scanIdent_append (n rest : Str) (hn : isIdentB n = true) (hr : stopsIdent rest = true) :
    scanIdent (n ++ rest) = some (n, rest) := by
  cases n with
  | nil => simp [isIdentB] at hn
  | cons c cs =>
    simp only [isIdentB, Bool.and_eq_true] at hn
    have := takeWhile_append_stop isIdentCont cs rest hn.2 (by
      intro x r hx; subst hx; simpa [stopsIdent] using hr)
    simp [scanIdent, hn.1, this.1, this.2]

/-- what may follow an atom or a postfix operator in canonical text: nothing, `.`, `[` or `)` -/
def followPost : Str → Bool
  | [] => true
  | c :: _ => c == '.' || c == ')' || c == '['

theorem followPost_facts (s : Str) (h : followPost s = true) :
    startsNonWs s = true ∧ stopsIdent s = true ∧ stripPrefix [':', ':'] s = none := by
  cases s with
  | nil => simp [startsNonWs, stopsIdent, stripPrefix]
  | cons c r =>
    simp only [followPost, Bool.or_eq_true, beq_iff_eq] at h
    rcases h with (rfl | rfl) | rfl <;> simp [startsNonWs, stopsIdent, stripPrefix] <;> decide

theorem ident_head (n : Str) (hn : isIdentB n = true) : ∃ c cs, n = c :: cs ∧ isIdentStart c = true := by
  cases n with
  | nil => simp [isIdentB] at hn
  | cons c cs => simp only [isIdentB, Bool.and_eq_true] at hn; exact ⟨c, cs, rfl, hn.1⟩

theorem rustIdent_ident (n rest : Str) (hn : isIdentB n = true) (hr : followPost rest = true) :
    rustIdent (n ++ rest) = some (n, rest) := by
  obtain ⟨c, cs, rfl, hc⟩ := ident_head n hn
  obtain ⟨h1, h2, h3⟩ := followPost_facts rest hr
  have hws : isWs c = false := identCont_notWs c (identStart_cont c hc)
  have hcolon : c ≠ ':' := ne_of_class isIdentStart c ':' hc (by decide)
  have hsk : skipWs (c :: cs ++ rest) = c :: cs ++ rest := skipWs_cons c _ hws
  have hsp : stripPrefix [':', ':'] (c :: cs ++ rest) = none := by
    simp [stripPrefix, Ne.symm hcolon]
  have hscan := scanIdent_append (c :: cs) rest hn h2
  have htail : scanPathTail rest.length rest = ([], rest) := by
    cases hl : rest.length with
    | zero => simp [scanPathTail]
    | succ k => simp [scanPathTail, h3]
  unfold rustIdent
  simp only [hsk, hsp, hscan, htail, List.append_nil, skipWs_id rest h1, List.nil_append]


/-! ### postfix chain of fields over a variable -/

def fieldsText : List Str → Str
  | [] => []
  | f :: fs => '.' :: f ++ fieldsText fs

def chain (a : Dqe) (fs : List Str) : Dqe := fs.foldl (fun a f => Dqe.field a f) a

theorem followPost_fieldsText (fs : List Str) (rest : Str) (hr : followPost rest = true) :
    followPost (fieldsText fs ++ rest) = true := by
  cases fs with
  | nil => simpa [fieldsText] using hr
  | cons f fs => simp [fieldsText, followPost]

theorem parsePost_field (f rest : Str) (hf : isIdentB f = true) (hr : followPost rest = true) :
    parsePost ('.' :: f ++ rest) = .ok (.field f) rest := by
  obtain ⟨c, cs, rfl, hc⟩ := ident_head f hf
  have hws : isWs c = false := identCont_notWs c (identStart_cont c hc)
  have h2 := (followPost_facts rest hr).2.1
  have hscan := scanIdent_append (c :: cs) rest hf h2
  have hsym : sym '.' ('.' :: (c :: cs ++ rest)) = some (c :: cs ++ rest) := by
    rw [sym_hit '.' _ (by decide)]; exact congrArg some (skipWs_cons c _ hws)
  simp only [parsePost, List.cons_append] at *
  simp only [hsym, hscan]

/-- what may follow a whole expression: nothing or `)` -/
def followExpr : Str → Bool
  | [] => true
  | c :: _ => c == ')'

theorem followExpr_post (s : Str) (h : followExpr s = true) : followPost s = true := by
  cases s with
  | nil => rfl
  | cons c r => simp only [followExpr, beq_iff_eq] at h; subst h; rfl

theorem parsePost_stop (rest : Str) (hr : followExpr rest = true) : parsePost rest = .fail := by
  cases rest with
  | nil => simp [parsePost, sym_nil]
  | cons c r =>
    simp only [followExpr, beq_iff_eq] at hr; subst hr
    simp [parsePost, sym_miss '.' ')' r (by decide) (by decide), sym_miss '[' ')' r (by decide) (by decide)]

theorem parsePosts_fields (fs : List Str) (a : Dqe) (rest : Str) (k : Nat)
    (hfs : fs.all isIdentB = true) (hr : followExpr rest = true) (hk : fs.length ≤ k) :
    parsePosts k a (fieldsText fs ++ rest) = .ok (chain a fs) rest := by
  induction fs generalizing a k with
  | nil =>
    cases k with
    | zero => simp [parsePosts, fieldsText, chain]
    | succ k => simp [parsePosts, fieldsText, chain, parsePost_stop rest hr]
  | cons f fs ih =>
    simp only [List.all_cons, Bool.and_eq_true] at hfs
    cases k with
    | zero => simp at hk
    | succ k =>
      have hfol := followPost_fieldsText fs rest (followExpr_post rest hr)
      have := parsePost_field f (fieldsText fs ++ rest) hfs.1 hfol
      simp only [fieldsText, List.cons_append, List.append_assoc] at this ⊢
      rw [parsePosts, this]
      simp only
      exact ih (Dqe.field a f) k hfs.2 (by simpa using hk)

theorem fieldsText_length (fs : List Str) : fs.length ≤ (fieldsText fs).length := by
  induction fs with
  | nil => simp
  | cons f fs ih => simp [fieldsText]; omega


/-! ### prefix operators -/

theorem parsePre_none (c : Char) (s : Str) (hws : isWs c = false) (h1 : c ≠ '*') (h2 : c ≠ '&') (h3 : c ≠ '~') :
    parsePre (c :: s) = none := by
  simp [parsePre, sym_miss '*' c s hws h1, sym_miss '&' c s hws h2, sym_miss '~' c s hws h3]

theorem parsePres_none (k : Nat) (c : Char) (s : Str) (hws : isWs c = false) (h1 : c ≠ '*') (h2 : c ≠ '&') (h3 : c ≠ '~') :
    parsePres k (c :: s) = ([], c :: s) := by
  cases k with
  | zero => rfl
  | succ k => simp [parsePres, parsePre_none c s hws h1 h2 h3]

def Pre.char : Pre → Char
  | .deref => '*'
  | .address => '&'
  | .canonic => '~'

theorem parsePre_hit (p : Pre) (s : Str) : parsePre (p.char :: s) = some (p, skipWs s) := by
  cases p
  · simp [Pre.char, parsePre, sym_hit '*' s (by decide)]
  · simp [Pre.char, parsePre, sym_miss '*' '&' s (by decide) (by decide), sym_hit '&' s (by decide)]
  · simp [Pre.char, parsePre, sym_miss '*' '~' s (by decide) (by decide), sym_miss '&' '~' s (by decide) (by decide),
      sym_hit '~' s (by decide)]

/-- the variable-and-fields chain, followed by the end or `)` -/
theorem parseExpr_chain (f : Nat) (n : Str) (fs : List Str) (rest : Str)
    (hn : isIdentB n = true) (hfs : fs.all isIdentB = true) (hr : followExpr rest = true) :
    parseExpr (f + 1) (n ++ fieldsText fs ++ rest) = .ok (chain (.var n) fs) rest := by
  obtain ⟨c, cs, rfl, hc⟩ := ident_head n hn
  have hws : isWs c = false := identCont_notWs c (identStart_cont c hc)
  have n1 : c ≠ '*' := ne_of_class isIdentStart c '*' hc (by decide)
  have n2 : c ≠ '&' := ne_of_class isIdentStart c '&' hc (by decide)
  have n3 : c ≠ '~' := ne_of_class isIdentStart c '~' hc (by decide)
  have hfol := followPost_fieldsText fs rest (followExpr_post rest hr)
  have hrid := rustIdent_ident (c :: cs) (fieldsText fs ++ rest) hn hfol
  have hnw := (followPost_facts _ hfol).1
  have hposts := parsePosts_fields fs (.var (c :: cs)) rest (fieldsText fs ++ rest).length hfs hr
    (by have := fieldsText_length fs; simp; omega)
  rw [parseExpr]
  simp only [List.cons_append, List.append_assoc] at hrid ⊢
  rw [parsePres_none _ c _ hws n1 n2 n3]
  simp only [skipWs_cons c _ hws, hrid, skipWs_id _ hnw, hposts, List.foldr_nil]

/-- a prefix operator in front: parse the rest, apply the operator outermost -/
theorem parseExpr_pre (f : Nat) (p : Pre) (s : Str) (hs : startsNonWs s = true) :
    parseExpr (f + 1) (p.char :: s) =
      match parseExpr (f + 1) s with
      | .ok e r => .ok (p.apply e) r
      | .fail => .fail
      | .panic => .panic := by
  rw [parseExpr, parseExpr]
  simp only [List.length_cons, parsePres, parsePre_hit p s, skipWs_id s hs]
  cases hp : parsePres s.length s with
  | mk ps r =>
    simp only
    split <;> simp_all
    split <;> simp_all


/-! ### the fragment: prefix operators over a chain of fields over a variable -/

def chainOk : Dqe → Bool
  | .var n => isIdentB n
  | .field e f => chainOk e && isIdentB f
  | _ => false

theorem fieldsText_append (fs : List Str) (f : Str) : fieldsText (fs ++ [f]) = fieldsText fs ++ '.' :: f := by
  induction fs with
  | nil => simp [fieldsText]
  | cons g gs ih => simp [fieldsText, ih]

theorem chainOk_decomp (e : Dqe) (h : chainOk e = true) :
    ∃ n fs, e = chain (.var n) fs ∧ isIdentB n = true ∧ fs.all isIdentB = true ∧
      printPost e = n ++ fieldsText fs ∧ printPre e = n ++ fieldsText fs := by
  induction e with
  | var n => exact ⟨n, [], rfl, by simpa [chainOk] using h, rfl, by simp [printPost, fieldsText], by simp [printPre, fieldsText]⟩
  | field e f ih =>
    simp only [chainOk, Bool.and_eq_true] at h
    obtain ⟨n, fs, he, hn, hfs, hp, _⟩ := ih h.1
    refine ⟨n, fs ++ [f], ?_, hn, ?_, ?_, ?_⟩
    · simp [chain, List.foldl_append, he]
    · simp [List.all_append, hfs, h.2]
    · simp [printPost, hp, fieldsText_append]
    · simp [printPre, hp, fieldsText_append]
  | _ => simp [chainOk] at h


/-! ### canonical text is "tidy": no white space, and every `)` is followed by nothing, `.`, `[` or `)` -/

def tidy : Str → Bool
  | [] => true
  | c :: s => !isWs c && (c != ')' || followPost s) && tidy s

theorem tidy_startsNonWs (s : Str) (h : tidy s = true) : startsNonWs s = true := by
  cases s with
  | nil => rfl
  | cons c r => simp only [tidy, Bool.and_eq_true] at h; simpa [startsNonWs] using h.1.1

theorem tidy_ident_append (n t : Str) (hn : n.all isIdentCont = true) (ht : tidy t = true) : tidy (n ++ t) = true := by
  induction n with
  | nil => simpa using ht
  | cons c cs ih =>
    simp only [List.all_cons, Bool.and_eq_true] at hn
    have h1 := identCont_notWs c hn.1
    have h2 : c ≠ ')' := ne_of_class isIdentCont c ')' hn.1 (by decide)
    simp [tidy, h1, h2, ih hn.2]

theorem isIdentB_all (n : Str) (h : isIdentB n = true) : n.all isIdentCont = true := by
  cases n with
  | nil => simp [isIdentB] at h
  | cons c cs =>
    simp only [isIdentB, Bool.and_eq_true] at h
    simp [identStart_cont c h.1, h.2]

/-- expressions of the fragment: identifiers as variables and fields, prefix operators anywhere -/
def frag : Dqe → Bool
  | .var n => isIdentB n
  | .field e f => frag e && isIdentB f
  | .deref e | .address e | .canonic e => frag e
  | _ => false

theorem tidy_print (e : Dqe) (he : frag e = true) (t : Str) (ht : tidy t = true) (hf : followPost t = true) :
    tidy (printPost e ++ t) = true ∧ tidy (printPre e ++ t) = true := by
  induction e generalizing t with
  | var n =>
    have := tidy_ident_append n t (isIdentB_all n (by simpa [frag] using he)) ht
    simp [printPost, printPre, this]
  | field e f ih =>
    simp only [frag, Bool.and_eq_true] at he
    have h1 : tidy ('.' :: f ++ t) = true := by
      have := tidy_ident_append f t (isIdentB_all f he.2) ht
      simp only [tidy, List.cons_append, Bool.and_eq_true]
      exact ⟨⟨by decide, by simp⟩, this⟩
    have := (ih he.1 ('.' :: f ++ t) h1 (by simp [followPost])).1
    simp only [printPost, printPre, List.append_assoc]
    exact ⟨this, this⟩
  | deref e ih | address e ih | canonic e ih =>
    simp only [frag] at he
    have hc : tidy (')' :: t) = true := by simp [tidy, hf, ht]; decide
    have h1 := (ih he (')' :: t) hc (by simp [followPost])).2
    have h2 := (ih he t ht hf).2
    simp only [printPost, printPre, List.cons_append, List.append_assoc, tidy, Bool.and_eq_true]
    simp only [List.nil_append]
    refine ⟨⟨⟨by decide, by simp⟩, ⟨⟨by decide, by simp⟩, h1⟩⟩, ⟨⟨by decide, by simp⟩, h2⟩⟩
  | _ => simp [frag] at he


theorem tidy_dropWhile (p : Char → Bool) (s : Str) (h : tidy s = true) : tidy (s.dropWhile p) = true := by
  induction s with
  | nil => simp [tidy]
  | cons c r ih =>
    simp only [tidy, Bool.and_eq_true] at h
    simp only [List.dropWhile]
    split
    · exact ih h.2
    · simp [tidy, h.1.1, h.1.2, h.2]

theorem tidy_fieldsText (fs : List Str) (rest : Str) (hfs : fs.all isIdentB = true) (hr : tidy rest = true) :
    tidy (fieldsText fs ++ rest) = true := by
  induction fs with
  | nil => simpa [fieldsText] using hr
  | cons f fs ih =>
    simp only [List.all_cons, Bool.and_eq_true] at hfs
    have := tidy_ident_append f (fieldsText fs ++ rest) (isIdentB_all f hfs.1) (ih hfs.2)
    simp only [fieldsText, List.cons_append, List.append_assoc, tidy, Bool.and_eq_true]
    exact ⟨⟨by decide, by simp⟩, this⟩

theorem hexTok_fail (r : Str) (h : followPost r = true) : hexTok r = .fail := by
  cases r with
  | nil => simp [hexTok, skipWs, stripPrefix]
  | cons c t =>
    simp only [followPost, Bool.or_eq_true, beq_iff_eq] at h
    rcases h with (rfl | rfl) | rfl
    · have : skipWs ('.' :: t) = '.' :: t := skipWs_cons _ _ (by decide)
      simp [hexTok, this, stripPrefix]
    · have : skipWs (')' :: t) = ')' :: t := skipWs_cons _ _ (by decide)
      simp [hexTok, this, stripPrefix]
    · have : skipWs ('[' :: t) = '[' :: t := skipWs_cons _ _ (by decide)
      simp [hexTok, this, stripPrefix]

/-- a parenthesised canonical expression is never taken for a pointer cast -/
theorem ptrCast_paren_fail (u : Str) (hu : tidy u = true) : ptrCast ('(' :: u) = .fail := by
  have hsym : sym '(' ('(' :: u) = some u := by
    rw [sym_hit '(' u (by decide), skipWs_id u (tidy_startsNonWs u hu)]
  unfold ptrCast
  simp only [hsym]
  split
  · rfl
  · have hd := tidy_dropWhile isTypeCh u hu
    cases hdd : u.dropWhile isTypeCh with
    | nil => simp [sym_nil]
    | cons x r =>
      rw [hdd] at hd
      simp only [tidy, Bool.and_eq_true, Bool.or_eq_true, bne_iff_ne, ne_eq, Bool.not_eq_true'] at hd
      by_cases hx : x = ')'
      · subst hx
        have hfp : followPost r = true := by
          rcases hd.1.2 with h | h
          · exact absurd rfl h
          · exact h
        rw [sym_hit ')' r (by decide), skipWs_id r (tidy_startsNonWs r hd.2)]
        simp [hexTok_fail r hfp]
      · simp [sym_miss ')' x r hd.1.1 hx]

theorem rustIdent_paren (u : Str) : rustIdent ('(' :: u) = none := by
  have : skipWs ('(' :: u) = '(' :: u := skipWs_cons '(' u (by decide)
  have h2 : isIdentStart '(' = false := by decide
  simp [rustIdent, this, stripPrefix, scanIdent, h2]


/-! ### round trip on the fragment -/

def size : Dqe → Nat
  | .field e _ => size e + 1
  | .deref e | .address e | .canonic e => size e + 1
  | _ => 1

theorem printPost_pre (p : Pre) (e : Dqe) : printPost (p.apply e) = '(' :: p.char :: printPre e ++ [')'] := by
  cases p <;> simp [Pre.apply, Pre.char, printPost]
theorem printPre_pre (p : Pre) (e : Dqe) : printPre (p.apply e) = p.char :: printPre e := by
  cases p <;> simp [Pre.apply, Pre.char, printPre]
theorem pre_notWs (p : Pre) : isWs p.char = false := by cases p <;> decide

/-- both positions at once: `e` in postfix position followed by further fields, and `e` in prefix position -/
def RT (e : Dqe) : Prop :=
  (∀ (fs : List Str) (rest : Str) (f : Nat), fs.all isIdentB = true → followExpr rest = true → tidy rest = true → size e ≤ f →
      parseExpr (f + 1) (printPost e ++ fieldsText fs ++ rest) = .ok (chain e fs) rest) ∧
  (∀ (rest : Str) (f : Nat), followExpr rest = true → tidy rest = true → size e ≤ f →
      parseExpr (f + 1) (printPre e ++ rest) = .ok e rest)

theorem rt_pre (p : Pre) (e : Dqe) (he : frag e = true) (ih : RT e) : RT (p.apply e) := by
  have hsize : size (p.apply e) = size e + 1 := by cases p <;> simp [Pre.apply, size]
  have hB : ∀ (rest : Str) (f : Nat), followExpr rest = true → tidy rest = true → size e ≤ f →
      parseExpr (f + 1) (printPre (p.apply e) ++ rest) = .ok (p.apply e) rest := by
    intro rest f hr ht hf
    have hnw := tidy_startsNonWs _ (tidy_print e he rest ht (followExpr_post rest hr)).2
    rw [printPre_pre, List.cons_append, parseExpr_pre f p _ hnw, ih.2 rest f hr ht hf]
  refine ⟨?_, fun rest f hr ht hf => hB rest f hr ht (by omega)⟩
  intro fs rest f hfs hr ht hf
  rw [hsize] at hf
  obtain ⟨f', rfl⟩ : ∃ f', f = f' + 1 := ⟨f - 1, by omega⟩
  -- the text: "(" p printPre e ")" fields rest
  have htail_t : tidy (fieldsText fs ++ rest) = true := tidy_fieldsText fs rest hfs ht
  have htail_f : followPost (fieldsText fs ++ rest) = true := followPost_fieldsText fs rest (followExpr_post rest hr)
  have hclose_t : tidy (')' :: (fieldsText fs ++ rest)) = true := by
    simp only [tidy, Bool.and_eq_true]; exact ⟨⟨by decide, by simp [htail_f]⟩, htail_t⟩
  have hclose_e : followExpr (')' :: (fieldsText fs ++ rest)) = true := rfl
  have hinner_t : tidy (p.char :: printPre e ++ ')' :: (fieldsText fs ++ rest)) = true := by
    have := (tidy_print e he _ hclose_t (followExpr_post _ hclose_e)).2
    simp only [tidy, List.cons_append, Bool.and_eq_true]
    exact ⟨⟨by simp [pre_notWs p], by cases p <;> simp [Pre.char]⟩, this⟩
  have hinner := hB (')' :: (fieldsText fs ++ rest)) f' hclose_e hclose_t (by omega)
  rw [printPre_pre, List.cons_append] at hinner
  have hposts := parsePosts_fields fs (p.apply e) rest (fieldsText fs ++ rest).length hfs hr
    (by have := fieldsText_length fs; simp; omega)
  have htext : printPost (p.apply e) ++ fieldsText fs ++ rest
      = '(' :: (p.char :: printPre e ++ ')' :: (fieldsText fs ++ rest)) := by
    rw [printPost_pre]; simp
  rw [htext, parseExpr]
  rw [parsePres_none _ '(' _ (by decide) (by decide) (by decide) (by decide)]
  simp only [skipWs_cons '(' _ (by decide : isWs '(' = false), rustIdent_paren, ptrCast_paren_fail _ hinner_t,
    sym_hit '(' _ (by decide : isWs '(' = false), skipWs_id _ (tidy_startsNonWs _ hinner_t)]
  simp only [List.cons_append] at hinner ⊢
  rw [hinner]
  simp only [sym_hit ')' _ (by decide : isWs ')' = false), skipWs_id _ (tidy_startsNonWs _ htail_t), hposts, List.foldr_nil]

theorem roundtrip (e : Dqe) (he : frag e = true) : RT e := by
  induction e with
  | var n =>
    have hn : isIdentB n = true := by simpa [frag] using he
    have hA : ∀ (fs : List Str) (rest : Str) (f : Nat), fs.all isIdentB = true → followExpr rest = true → tidy rest = true →
        size (Dqe.var n) ≤ f → parseExpr (f + 1) (printPost (.var n) ++ fieldsText fs ++ rest) = .ok (chain (.var n) fs) rest := by
      intro fs rest f hfs hr _ _
      simpa [printPost] using parseExpr_chain f n fs rest hn hfs hr
    refine ⟨hA, fun rest f hr ht hf => ?_⟩
    have := hA [] rest f rfl hr ht hf
    simpa [printPost, printPre, fieldsText, chain] using this
  | field e g ih =>
    simp only [frag, Bool.and_eq_true] at he
    have hA : ∀ (fs : List Str) (rest : Str) (f : Nat), fs.all isIdentB = true → followExpr rest = true → tidy rest = true →
        size (Dqe.field e g) ≤ f → parseExpr (f + 1) (printPost (.field e g) ++ fieldsText fs ++ rest) = .ok (chain (.field e g) fs) rest := by
      intro fs rest f hfs hr ht hf
      have := (ih he.1).1 (g :: fs) rest f (by simp [he.2, hfs]) hr ht (by simp [size] at hf; omega)
      simpa [printPost, fieldsText, chain] using this
    refine ⟨hA, fun rest f hr ht hf => ?_⟩
    have := hA [] rest f rfl hr ht hf
    simpa [printPost, printPre, fieldsText, chain] using this
  | deref e ih => exact rt_pre .deref e (by simpa [frag] using he) (ih (by simpa [frag] using he))
  | address e ih => exact rt_pre .address e (by simpa [frag] using he) (ih (by simpa [frag] using he))
  | canonic e ih => exact rt_pre .canonic e (by simpa [frag] using he) (ih (by simpa [frag] using he))
  | _ => simp [frag] at he

theorem size_le_print (e : Dqe) (he : frag e = true) : size e ≤ (printPre e).length ∧ size e ≤ (printPost e).length := by
  induction e with
  | var n =>
    obtain ⟨c, cs, rfl, _⟩ := ident_head n (by simpa [frag] using he)
    simp [size, printPre, printPost]
  | field e g ih =>
    simp only [frag, Bool.and_eq_true] at he
    have := ih he.1
    simp [size, printPre, printPost]; omega
  | deref e ih | address e ih | canonic e ih =>
    have := ih (by simpa [frag] using he)
    simp [size, printPre, printPost]; omega
  | _ => simp [frag] at he

/-- the round trip through `parse` -/
theorem print_parse_frag (e : Dqe) (he : frag e = true) : parse (print e) = .ok e [] := by
  have h := (roundtrip e he).2 [] ((print e).length + 1) rfl rfl (by have := (size_le_print e he).1; simp only [print]; omega)
  simp only [List.append_nil] at h
  have hf : exprFuel (print e) = (print e).length + 1 + 1 := by simp only [exprFuel]; omega
  unfold parse
  rw [hf]
  simp only [print] at h ⊢
  rw [h]

end BsVerif.Dqe
