import BsVerif.Model.Call
/-! Helper lemmas for `Props/C16.lean`: the word view of byte-granular memory. -/
namespace BsVerif.Call
open BsVerif.Mem BsVerif.Gen.CallAbi

/-- reading back a poked word -/
theorem peek_poke_same (c : Code) (a w : Nat) (hw : w < W64) : peek (poke c a w) a = w := by
  unfold peek poke W64 at *
  simp
  omega

/-- a poke changes nothing outside its 8 bytes -/
theorem poke_other (c : Code) (a w x : Nat) (h : ¬ (a ≤ x ∧ x < a + 8)) : poke c a w x = c x := by
  unfold poke
  have e0 : x ≠ a := by omega
  have e1 : x ≠ a + 1 := by omega
  have e2 : x ≠ a + 2 := by omega
  have e3 : x ≠ a + 3 := by omega
  have e4 : x ≠ a + 4 := by omega
  have e5 : x ≠ a + 5 := by omega
  have e6 : x ≠ a + 6 := by omega
  have e7 : x ≠ a + 7 := by omega
  simp [e0, e1, e2, e3, e4, e5, e6, e7]

theorem poke_other' (c : Code) (a w x : Nat) (h : a ≤ x → a + 8 ≤ x) : poke c a w x = c x :=
  poke_other _ _ _ _ (by intro ⟨h1, h2⟩; have := h h1; omega)

theorem peek_lt (c : Code) (a : Nat) (h : Bytes c) : peek c a < W64 := by
  have h0 := h a; have h1 := h (a+1); have h2 := h (a+2); have h3 := h (a+3)
  have h4 := h (a+4); have h5 := h (a+5); have h6 := h (a+6); have h7 := h (a+7)
  unfold peek W64; omega

/-- a poked word is made of bytes -/
theorem poke_bytes (c : Code) (a w : Nat) (h : Bytes c) : Bytes (poke c a w) := by
  intro x; unfold poke
  repeat' split
  all_goals first | exact h x | omega

/-- writing back the word that was read restores every byte -/
theorem poke_peek_id (c : Code) (a : Nat) (h : Bytes c) : poke c a (peek c a) = c := by
  funext x
  have h0 := h a; have h1 := h (a+1); have h2 := h (a+2); have h3 := h (a+3)
  have h4 := h (a+4); have h5 := h (a+5); have h6 := h (a+6); have h7 := h (a+7)
  unfold poke peek
  repeat' split
  all_goals first | rfl | (subst_vars; omega)

theorem patch2_low (text p : Nat) (hp : p < 65536) : patch2 text p % 65536 = p := by
  unfold patch2; omega

theorem patch2_lt (text p : Nat) (ht : text < W64) (hp : p < 65536) : patch2 text p < W64 := by
  unfold patch2 W64 at *; omega

end BsVerif.Call

namespace BsVerif.Call
open BsVerif.Mem BsVerif.Gen.CallAbi

/-! ### the run in which no ptrace request fails -/
def NoFail (W : World) : Prop := ∀ k i, W.fails k i = false

/-- the tracee after an operation, forgetting the debugger's bookkeeping (log, counters) -/
theorem bind_eq {α β} (m : M α) (f : α → M β) (d : Dbg) :
    (m >>= f) d = match m d with
      | (.ok a, d') => f a d'
      | (.err e, d') => (.err e, d')
      | (.panic, d') => (.panic, d') := rfl

theorem pure_eq {α} (a : α) (d : Dbg) : (pure a : M α) d = (.ok a, d) := rfl

theorem peekOp_nf {W : World} (h : NoFail W) (a : Addr) (d : Dbg) :
    peekOp W a d = (.ok (peek d.t.mem a), emit (bump d .peek) (.peek a true)) := by
  simp [peekOp, h .peek]

theorem pokeOp_nf {W : World} (h : NoFail W) (a : Addr) (w : Nat) (d : Dbg) :
    pokeOp W a w d = (.ok (), emit { bump d .poke with t := { d.t with mem := poke d.t.mem a w } } (.poke a w true)) := by
  simp [pokeOp, h .poke]

theorem getregsOp_nf {W : World} (h : NoFail W) (d : Dbg) :
    getregsOp W d = (.ok d.t.regs, emit (bump d .getregs) (.getregs true)) := by
  simp [getregsOp, h .getregs]

theorem setregsOp_nf {W : World} (h : NoFail W) (r : RegFile) (d : Dbg) :
    setregsOp W r d = (.ok (), emit { bump d .setregs with t := { d.t with regs := r } } (.setregs r true)) := by
  simp [setregsOp, h .setregs]

theorem stepOp_nf {W : World} (h : NoFail W) (d : Dbg) :
    stepOp W d = (.ok (), emit { bump d .step with t := cpuStep W d.t } (.step true)) := by
  simp [stepOp, h .step]

theorem contOp_nf {W : World} (h : NoFail W) (d : Dbg) (hclean : runsPatched W d.t = false) :
    contOp W d = (.ok (), emit { bump d .cont with t := cpuCont W d.t } (.cont true)) := by
  simp [contOp, h .cont, hclean]

@[simp] theorem emit_t (d : Dbg) (e : Ev) : (emit d e).t = d.t := rfl
@[simp] theorem emit_bps (d : Dbg) (e : Ev) : (emit d e).bps = d.bps := rfl
@[simp] theorem bump_t (d : Dbg) (k : Op) : (bump d k).t = d.t := rfl
@[simp] theorem bump_bps (d : Dbg) (k : Op) : (bump d k).bps = d.bps := rfl

theorem setregsOp_cases (W : World) (r : RegFile) (d : Dbg) :
    (∃ d', setregsOp W r d = (.err .ptrace, d')) ∨
    (∃ d', setregsOp W r d = (.ok (), d') ∧ d'.t = { d.t with regs := r }) := by
  unfold setregsOp
  by_cases f : W.fails .setregs (d.cnt .setregs) = true
  · exact Or.inl ⟨_, by simp only [f, if_true]; rfl⟩
  · exact Or.inr ⟨_, by simp only [f]; rfl, rfl⟩

theorem pokeOp_cases (W : World) (a w : Nat) (d : Dbg) :
    (∃ d', pokeOp W a w d = (.err .ptrace, d')) ∨
    (∃ d', pokeOp W a w d = (.ok (), d') ∧ d'.t = { d.t with mem := poke d.t.mem a w }) := by
  unfold pokeOp
  by_cases f : W.fails .poke (d.cnt .poke) = true
  · exact Or.inl ⟨_, by simp only [f, if_true]; rfl⟩
  · exact Or.inr ⟨_, by simp only [f]; rfl, rfl⟩

theorem isErrno_false (v : Nat) (h : v < W64 - 4095) : isErrno v = false := by
  unfold isErrno W64 at *; simp; omega

/-- single step over the patched-in `syscall` with the registers of `CallHelper::mmap` -/
theorem cpuStep_mmap (W : World) (t : Tracee) (hcode : peek t.mem (t.regs Rip) % 65536 = SYSCALL)
    (h0 : t.regs Rax = MMAP) (h1 : t.regs Rdi = 0) (h2 : t.regs Rsi = PAGE_SIZE) (h3 : t.regs Rdx = PROT)
    (h4 : t.regs R10 = FLAGS) (h5 : t.regs R8 = W64 - 1) (h6 : t.regs R9 = 0) (hp : isErrno W.mmapRes = false) :
    cpuStep W t = { t with regs := syscallRet t W.mmapRes, pages := W.mmapRes :: t.pages,
                           mem := fun a => if inPage W.mmapRes a then 0 else t.mem a } := by
  simp only [cpuStep, hcode, h0, h1, h2, h3, h4, h5, h6, hp, and_self, if_true]
  simp

theorem cpuStep_munmap (W : World) (t : Tracee) (hcode : peek t.mem (t.regs Rip) % 65536 = SYSCALL)
    (h0 : t.regs Rax = MUNMAP) (h2 : t.regs Rsi = PAGE_SIZE) (h1 : t.regs Rdi ∈ t.pages) :
    cpuStep W t = { t with regs := syscallRet t 0, pages := t.pages.erase (t.regs Rdi),
                           mem := fun a => if inPage (t.regs Rdi) a then 0 else t.mem a } := by
  have : MUNMAP ≠ MMAP := by decide
  simp only [cpuStep, hcode, h0, h2, h1, this, and_self, if_true, if_false]

theorem cpuStep_jmp (W : World) (t : Tracee) (hcode : peek t.mem (t.regs Rip) % 65536 = JMP_RAX) :
    cpuStep W t = { t with regs := t.regs.set Rip (t.regs Rax) } := by
  have : JMP_RAX ≠ SYSCALL := by decide
  simp only [cpuStep, hcode, this, if_true, if_false]

theorem cpuCont_call (W : World) (t : Tracee) (hcode : peek t.mem (t.regs Rip) % 16777216 = CALL_FN) :
    cpuCont W t = { (W.callee (atEntry t)) with regs := (W.callee (atEntry t)).regs.set Rip (t.regs Rip + 3) } := by
  simp only [cpuCont, hcode, if_true]

/-! ### register facts -/
theorem syscallRet_rax (t : Tracee) (v : Nat) : syscallRet t v Rax = v := by
  simp [syscallRet, RegFile.set, Rax, Rcx, R11, Rip]

theorem mmapRegs_vals (r : RegFile) :
    setMany r mmapRegs Rax = MMAP ∧ setMany r mmapRegs Rdi = 0 ∧ setMany r mmapRegs Rsi = PAGE_SIZE
    ∧ setMany r mmapRegs Rdx = PROT ∧ setMany r mmapRegs R10 = FLAGS ∧ setMany r mmapRegs R8 = W64 - 1
    ∧ setMany r mmapRegs R9 = 0 ∧ setMany r mmapRegs Rip = r Rip := by
  simp [setMany, mmapRegs, RegFile.set, Rax, Rdi, Rsi, Rdx, R10, R8, R9, Rip, MMAP, PAGE_SIZE, PROT, FLAGS, W64]

theorem munmapRegs_vals (r : RegFile) (p : Nat) :
    setMany r (munmapRegs p) Rax = MUNMAP ∧ setMany r (munmapRegs p) Rdi = p ∧ setMany r (munmapRegs p) Rsi = PAGE_SIZE
    ∧ setMany r (munmapRegs p) Rip = r Rip := by
  simp [setMany, munmapRegs, RegFile.set, Rax, Rdi, Rsi, Rip, MUNMAP, PAGE_SIZE]

/-! ### the helpers when nothing fails -/

/-- the thread right before / after the single step of `CallHelper::mmap` -/
def preMmap (c : Ccx) (t : Tracee) : Tracee :=
  { t with regs := setMany c.regs mmapRegs, mem := poke t.mem c.pc (patch2 c.text SYSCALL) }
def postMmap (page : Nat) (c : Ccx) (t : Tracee) : Tracee :=
  { preMmap c t with regs := syscallRet (preMmap c t) page, pages := page :: t.pages,
                     mem := fun a => if inPage page a then 0 else (preMmap c t).mem a }

theorem mmapH_ok {W : World} (h : NoFail W) (c : Ccx) (d : Dbg) (hc : c.text < W64) (hp : W.mmapRes < W64 - 4095)
    (hrip : c.regs Rip = c.pc) :
    (mmapH W c d).1 = .ok W.mmapRes ∧ (mmapH W c d).2.bps = d.bps ∧ (mmapH W c d).2.t = postMmap W.mmapRes c d.t := by
  have hpl := patch2_lt c.text SYSCALL hc (by decide)
  have hlow := patch2_low c.text SYSCALL (by decide)
  obtain ⟨v0, v1, v2, v3, v4, v5, v6, v7⟩ := mmapRegs_vals c.regs
  have hstep : cpuStep W (preMmap c d.t) = postMmap W.mmapRes c d.t := by
    rw [cpuStep_mmap W (preMmap c d.t) (by simp [preMmap, v7, hrip, peek_poke_same _ _ _ hpl, hlow])
      (by simp [preMmap, v0]) (by simp [preMmap, v1]) (by simp [preMmap, v2]) (by simp [preMmap, v3])
      (by simp [preMmap, v4]) (by simp [preMmap, v5]) (by simp [preMmap, v6]) (isErrno_false _ hp)]
    rfl
  have hne : W.mmapRes ≠ W64 - 1 := by unfold W64 at *; omega
  simp only [mmapH, bind_eq, setregsOp_nf h, pokeOp_nf h, stepOp_nf h, getregsOp_nf h, emit_t]
  have e : ({ regs := setMany c.regs mmapRegs, mem := poke d.t.mem c.pc (patch2 c.text SYSCALL), pages := d.t.pages,
              entered := d.t.entered, wild := d.t.wild } : Tracee) = preMmap c d.t := rfl
  simp only [e, hstep]
  have hr : (postMmap W.mmapRes c d.t).regs Rax = W.mmapRes := by simp [postMmap, syscallRet_rax]
  simp only [hr, hne, if_false, pure_eq]
  refine ⟨?_, ?_, ?_⟩ <;> first | exact True.intro | rfl

/-- `CallHelper::jump` -/
def preJump (c : Ccx) (dest : Nat) (t : Tracee) : Tracee :=
  { t with regs := c.regs.set Rax dest, mem := poke t.mem c.pc (patch2 c.text JMP_RAX) }
def postJump (c : Ccx) (dest : Nat) (t : Tracee) : Tracee :=
  { preJump c dest t with regs := (c.regs.set Rax dest).set Rip dest }

theorem jumpH_ok {W : World} (h : NoFail W) (c : Ccx) (dest : Nat) (d : Dbg) (hc : c.text < W64) (hrip : c.regs Rip = c.pc) :
    (jumpH W c dest d).1 = .ok () ∧ (jumpH W c dest d).2.bps = d.bps ∧ (jumpH W c dest d).2.t = postJump c dest d.t := by
  have hpl := patch2_lt c.text JMP_RAX hc (by decide)
  have hlow := patch2_low c.text JMP_RAX (by decide)
  have hr0 : (c.regs.set Rax dest) Rip = c.pc := by
    unfold RegFile.set; rw [if_neg (by decide)]; exact hrip
  have hr1 : (c.regs.set Rax dest) Rax = dest := by simp [RegFile.set]
  have hstep : cpuStep W (preJump c dest d.t) = postJump c dest d.t := by
    rw [cpuStep_jmp W (preJump c dest d.t) (by simp [preJump, hr0, peek_poke_same _ _ _ hpl, hlow])]
    simp [postJump, preJump, hr1]
  simp only [jumpH, bind_eq, setregsOp_nf h, pokeOp_nf h, stepOp_nf h, getregsOp_nf h, emit_t]
  have e : ({ regs := c.regs.set Rax dest, mem := poke d.t.mem c.pc (patch2 c.text JMP_RAX), pages := d.t.pages,
              entered := d.t.entered, wild := d.t.wild } : Tracee) = preJump c dest d.t := rfl
  simp only [e, hstep]
  have hr : (postJump c dest d.t).regs Rip = dest := by simp [postJump, RegFile.set]
  simp only [hr, ne_eq, not_true_eq_false, if_false, pure_eq]
  refine ⟨?_, ?_, ?_⟩ <;> first | exact True.intro | rfl

/-- `CallHelper::call_fn` -/
def preCall (c : Ccx) (rip fnAddr : Nat) (args : List Nat) (t : Tracee) : Tracee :=
  { t with regs := ((prepare c.regs args).set Rax fnAddr).set Rip rip, mem := poke t.mem rip CALL_FN }
def postCall (W : World) (c : Ccx) (rip fnAddr : Nat) (args : List Nat) (t : Tracee) : Tracee :=
  { (W.callee (atEntry (preCall c rip fnAddr args t))) with
    regs := (W.callee (atEntry (preCall c rip fnAddr args t))).regs.set Rip (rip + 3) }

theorem callTramp_ok {W : World} (h : NoFail W) (c : Ccx) (rip fnAddr : Nat) (args : List Nat) (d : Dbg)
    (hclean : runsPatched W (preCall c rip fnAddr args d.t) = false) :
    (callTramp W c rip fnAddr args d).1 = .ok () ∧ (callTramp W c rip fnAddr args d).2.bps = d.bps
    ∧ (callTramp W c rip fnAddr args d).2.t = postCall W c rip fnAddr args d.t := by
  have hr0 : (((prepare c.regs args).set Rax fnAddr).set Rip rip) Rip = rip := by simp [RegFile.set]
  have hcall : CALL_FN % 16777216 = CALL_FN := by decide
  have hlt : CALL_FN < W64 := by decide
  have hstep : cpuCont W (preCall c rip fnAddr args d.t) = postCall W c rip fnAddr args d.t := by
    rw [cpuCont_call W (preCall c rip fnAddr args d.t) (by simp [preCall, hr0, peek_poke_same _ _ _ hlt, hcall])]
    simp [postCall, preCall, hr0]
  simp only [callTramp, bind_eq, setregsOp_nf h, pokeOp_nf h, emit_t]
  have e : ({ regs := ((prepare c.regs args).set Rax fnAddr).set Rip rip, mem := poke d.t.mem rip CALL_FN, pages := d.t.pages,
              entered := d.t.entered, wild := d.t.wild } : Tracee) = preCall c rip fnAddr args d.t := rfl
  simp only [e]
  rw [contOp_nf h _ (by simpa using hclean)]
  simp only [emit_t, hstep]
  refine ⟨?_, ?_, ?_⟩ <;> first | exact True.intro | rfl

/-- `CallHelper::munmap` -/
def preMunmap (c : Ccx) (addr : Nat) (t : Tracee) : Tracee :=
  { t with regs := setMany c.regs (munmapRegs addr), mem := poke t.mem c.pc (patch2 c.text SYSCALL) }
def postMunmap (c : Ccx) (addr : Nat) (t : Tracee) : Tracee :=
  { preMunmap c addr t with
    regs := syscallRet (preMunmap c addr t) 0, pages := t.pages.erase addr,
    mem := poke (fun a => if inPage addr a then 0 else (preMunmap c addr t).mem a) c.pc c.text }

theorem munmapH_ok {W : World} (h : NoFail W) (c : Ccx) (addr : Nat) (d : Dbg) (hc : c.text < W64) (hrip : c.regs Rip = c.pc)
    (hin : addr ∈ d.t.pages) :
    (munmapH W c addr d).1 = .ok () ∧ (munmapH W c addr d).2.bps = d.bps ∧ (munmapH W c addr d).2.t = postMunmap c addr d.t := by
  have hpl := patch2_lt c.text SYSCALL hc (by decide)
  have hlow := patch2_low c.text SYSCALL (by decide)
  obtain ⟨v0, v1, v2, v3⟩ := munmapRegs_vals c.regs addr
  have hstep : cpuStep W (preMunmap c addr d.t) =
      { preMunmap c addr d.t with regs := syscallRet (preMunmap c addr d.t) 0, pages := d.t.pages.erase addr,
                                  mem := fun a => if inPage addr a then 0 else (preMunmap c addr d.t).mem a } := by
    rw [cpuStep_munmap W (preMunmap c addr d.t) (by simp [preMunmap, v3, hrip, peek_poke_same _ _ _ hpl, hlow])
      (by simp [preMunmap, v0]) (by simp [preMunmap, v2]) (by simp [preMunmap, v1, hin])]
    simp [preMunmap, v1]
  simp only [munmapH, bind_eq, setregsOp_nf h, pokeOp_nf h, stepOp_nf h, getregsOp_nf h, emit_t]
  have e : ({ regs := setMany c.regs (munmapRegs addr), mem := poke d.t.mem c.pc (patch2 c.text SYSCALL), pages := d.t.pages,
              entered := d.t.entered, wild := d.t.wild } : Tracee) = preMunmap c addr d.t := rfl
  simp only [e, hstep, syscallRet_rax, ne_eq, not_true_eq_false, if_false, pokeOp_nf h, emit_t]
  refine ⟨?_, ?_, ?_⟩ <;> first | exact True.intro | rfl

/-! ### the complete successful `call_fn_raw` -/

/-- the saved context of a call made in thread state `t0` at `pc` -/
def ccxOf (pc : Addr) (t0 : Tracee) : Ccx := ⟨pc, t0.regs, peek t0.mem pc⟩

/-- the thread right before the `cont` / at the callee's first instruction -/
def preEntryT (W : World) (pc fnAddr : Nat) (args : List Nat) (t0 : Tracee) : Tracee :=
  preCall (ccxOf pc t0) W.mmapRes fnAddr args (postJump (ccxOf pc t0) W.mmapRes (postMmap W.mmapRes (ccxOf pc t0) t0))
def entryT (W : World) (pc fnAddr : Nat) (args : List Nat) (t0 : Tracee) : Tracee :=
  atEntry (preEntryT W pc fnAddr args t0)

/-- the thread after the complete successful `call_fn_raw` -/
def finalT (W : World) (pc fnAddr : Nat) (args : List Nat) (t0 : Tracee) : Tracee :=
  let c := ccxOf pc t0
  let t3 := postCall W c W.mmapRes fnAddr args (postJump c W.mmapRes (postMmap W.mmapRes c t0))
  let t5 := postMunmap c W.mmapRes { t3 with regs := c.regs }
  { t5 with regs := c.regs, mem := poke t5.mem c.pc c.text }

theorem res_of_fst {α} {x : Res α × Dbg} {r : Res α} (h : x.1 = r) : x = (r, x.2) := by
  cases x; simp at h; simp [h]

theorem callFnRaw_ok {W : World} (h : NoFail W) (pc fnAddr : Nat) (args : List Nat) (d : Dbg)
    (hb : Bytes d.t.mem) (hrip : d.t.regs Rip = pc) (hp : W.mmapRes < W64 - 4095)
    (hcallee : ∀ t, (W.callee t).pages = t.pages)
    (hclean : runsPatched W (preEntryT W pc fnAddr args d.t) = false) :
    (callFnRaw W pc fnAddr args d).1 = .ok () ∧ (callFnRaw W pc fnAddr args d).2.bps = d.bps
    ∧ (callFnRaw W pc fnAddr args d).2.t = finalT W pc fnAddr args d.t := by
  have hc : (ccxOf pc d.t).text < W64 := peek_lt _ _ hb
  have hr : (ccxOf pc d.t).regs Rip = (ccxOf pc d.t).pc := hrip
  -- CallContext::new
  simp only [callFnRaw, ccxNew, bind_eq, peekOp_nf h, getregsOp_nf h, pure_eq, emit_t, bump_t]
  have ec : (⟨pc, d.t.regs, peek d.t.mem pc⟩ : Ccx) = ccxOf pc d.t := rfl
  simp only [ec]
  generalize hd1 : emit (bump (emit (bump d Op.peek) (Ev.peek pc true)) Op.getregs) (Ev.getregs true) = d1
  have ht1 : d1.t = d.t := by rw [← hd1]; rfl
  have hb1 : d1.bps = d.bps := by rw [← hd1]; rfl
  -- the body
  obtain ⟨m1, m2, m3⟩ := mmapH_ok h (ccxOf pc d.t) d1 hc hp hr
  obtain ⟨j1, j2, j3⟩ := jumpH_ok h (ccxOf pc d.t) W.mmapRes (mmapH W (ccxOf pc d.t) d1).2 hc hr
  obtain ⟨c1, c2, c3⟩ := callTramp_ok h (ccxOf pc d.t) W.mmapRes fnAddr args (jumpH W (ccxOf pc d.t) W.mmapRes (mmapH W (ccxOf pc d.t) d1).2).2
    (by rw [j3, m3, ht1]; exact hclean)
  generalize hdA : (mmapH W (ccxOf pc d.t) d1).2 = dA at *
  generalize hdB : (jumpH W (ccxOf pc d.t) W.mmapRes dA).2 = dB at *
  generalize hdC : (callTramp W (ccxOf pc d.t) W.mmapRes fnAddr args dB).2 = dC at *
  have hin : W.mmapRes ∈ (emit { bump dC .setregs with t := { dC.t with regs := (ccxOf pc d.t).regs } } (.setregs (ccxOf pc d.t).regs true)).t.pages := by
    simp only [emit_t, c3, postCall, hcallee, atEntry, preCall, j3, postJump, preJump, m3, postMmap]
    simp
  obtain ⟨u1, u2, u3⟩ := munmapH_ok h (ccxOf pc d.t) W.mmapRes
    (emit { bump dC .setregs with t := { dC.t with regs := (ccxOf pc d.t).regs } } (.setregs (ccxOf pc d.t).regs true)) hc hr hin
  have body : callBody W (ccxOf pc d.t) fnAddr args d1 =
      (.ok (), (munmapH W (ccxOf pc d.t) W.mmapRes
        (emit { bump dC .setregs with t := { dC.t with regs := (ccxOf pc d.t).regs } } (.setregs (ccxOf pc d.t).regs true))).2) := by
    simp only [callBody, bind_eq]
    rw [res_of_fst m1, hdA]; simp only []
    rw [res_of_fst j1, hdB]; simp only []
    rw [res_of_fst c1, hdC]; simp only [setregsOp_nf h]
    rw [res_of_fst u1]
  generalize hdD : (munmapH W (ccxOf pc d.t) W.mmapRes
        (emit { bump dC .setregs with t := { dC.t with regs := (ccxOf pc d.t).regs } } (.setregs (ccxOf pc d.t).regs true))).2 = dD at *
  simp only [withCcx, body, setregsOp_nf h, pokeOp_nf h, emit_t, emit_bps, bump_bps]
  refine ⟨True.intro, ?_, ?_⟩
  · simp [u2, c2, j2, m2, hb1]
  · simp only [finalT, u3, emit_t, c3, j3, m3, ht1]

/-- writing the word read from `c` restores `c`'s bytes inside the word, whatever was there -/
theorem poke_peek_byte (X c : Code) (hB : Bytes c) (pc a : Nat) (h1 : pc ≤ a) (h2 : a < pc + 8) :
    poke X pc (peek c pc) a = c a := by
  have hw : a = pc ∨ a = pc + 1 ∨ a = pc + 2 ∨ a = pc + 3 ∨ a = pc + 4 ∨ a = pc + 5 ∨ a = pc + 6 ∨ a = pc + 7 := by omega
  have e : poke X pc (peek c pc) a = poke c pc (peek c pc) a := by
    unfold poke
    rcases hw with rfl | rfl | rfl | rfl | rfl | rfl | rfl | rfl <;> simp
  rw [e, poke_peek_id c pc hB]

theorem finalT_regs (W : World) (pc fnAddr : Nat) (args : List Nat) (t0 : Tracee) :
    (finalT W pc fnAddr args t0).regs = t0.regs := rfl

theorem finalT_pages (W : World) (pc fnAddr : Nat) (args : List Nat) (t0 : Tracee)
    (hcallee : ∀ t, (W.callee t).pages = t.pages) :
    (finalT W pc fnAddr args t0).pages = t0.pages := by
  simp [finalT, postMunmap, preMunmap, postCall, hcallee, atEntry, preCall, postJump, preJump, postMmap]

/-- the registers with which the callee is entered -/
def callRegs (W : World) (fnAddr : Nat) (args : List Nat) (t0 : Tracee) : RegFile :=
  ((prepare t0.regs args).set Rax fnAddr).set Rip W.mmapRes

theorem finalT_entered (W : World) (pc fnAddr : Nat) (args : List Nat) (t0 : Tracee)
    (hcallee : ∀ t, (W.callee t).entered = t.entered) :
    (finalT W pc fnAddr args t0).entered = t0.entered ++ [(fnAddr, argRegs.map (callRegs W fnAddr args t0))] := by
  have : (((prepare t0.regs args).set Rax fnAddr).set Rip W.mmapRes) Rax = fnAddr := by
    unfold RegFile.set; rw [if_neg (by decide)]; simp
  simp [finalT, postMunmap, preMunmap, postCall, hcallee, atEntry, preCall, postJump, preJump, postMmap, preMmap, ccxOf, callRegs, this]

theorem finalT_wild (W : World) (pc fnAddr : Nat) (args : List Nat) (t0 : Tracee)
    (hcallee : ∀ t, (W.callee t).wild = t.wild) :
    (finalT W pc fnAddr args t0).wild = t0.wild := by
  simp [finalT, postMunmap, preMunmap, postCall, hcallee, atEntry, preCall, postJump, preJump, postMmap, preMmap]

theorem finalT_mem (W : World) (pc fnAddr : Nat) (args : List Nat) (t0 : Tracee) (hb : Bytes t0.mem) (a : Nat) :
    (finalT W pc fnAddr args t0).mem a =
      if pc ≤ a ∧ a < pc + 8 then t0.mem a
      else if inPage W.mmapRes a then 0
      else (W.callee (entryT W pc fnAddr args t0)).mem a := by
  by_cases hw : pc ≤ a ∧ a < pc + 8
  · simp only [hw, and_self, if_true]
    simp only [finalT, ccxOf]
    exact poke_peek_byte _ _ hb pc a hw.1 hw.2
  · simp only [hw, if_false]
    simp only [finalT, ccxOf, postMunmap, preMunmap]
    rw [poke_other _ _ _ _ hw, poke_other _ _ _ _ hw]
    by_cases hpg : inPage W.mmapRes a = true
    · simp [hpg]
    · simp only [hpg]
      rw [poke_other _ _ _ _ hw]
      rfl

end BsVerif.Call
