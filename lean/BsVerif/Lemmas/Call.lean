import BsVerif.Model.Call
/-! Helper lemmas for `Props/C16.lean`: the word view of byte-granular memory. -/
namespace BsVerif.Call
open BsVerif.Mem BsVerif.Gen.CallAbi

/-- reading back a poked word -/
theorem peek_poke_same (c : Code) (a w : Nat) (hw : w < W64) : peek (poke c a w) a = w := by
  unfold peek poke W64 at *
  simp
  omega

/-- a poke changes nothing outside its 8 bytes -/
theorem poke_other (c : Code) (a w x : Nat) (h : ¬ (a ≤ x ∧ x < a + 8)) : poke c a w x = c x := by
  unfold poke
  have e0 : x ≠ a := by omega
  have e1 : x ≠ a + 1 := by omega
  have e2 : x ≠ a + 2 := by omega
  have e3 : x ≠ a + 3 := by omega
  have e4 : x ≠ a + 4 := by omega
  have e5 : x ≠ a + 5 := by omega
  have e6 : x ≠ a + 6 := by omega
  have e7 : x ≠ a + 7 := by omega
  simp [e0, e1, e2, e3, e4, e5, e6, e7]

theorem poke_other' (c : Code) (a w x : Nat) (h : a ≤ x → a + 8 ≤ x) : poke c a w x = c x :=
  poke_other _ _ _ _ (by intro ⟨h1, h2⟩; have := h h1; omega)

theorem peek_lt (c : Code) (a : Nat) (h : Bytes c) : peek c a < W64 := by
  have h0 := h a; have h1 := h (a+1); have h2 := h (a+2); have h3 := h (a+3)
  have h4 := h (a+4); have h5 := h (a+5); have h6 := h (a+6); have h7 := h (a+7)
  unfold peek W64; omega

/-- a poked word is made of bytes -/
theorem poke_bytes (c : Code) (a w : Nat) (h : Bytes c) : Bytes (poke c a w) := by
  intro x; unfold poke
  repeat' split
  all_goals first | exact h x | omega

/-- writing back the word that was read restores every byte -/
theorem poke_peek_id (c : Code) (a : Nat) (h : Bytes c) : poke c a (peek c a) = c := by
  funext x
  have h0 := h a; have h1 := h (a+1); have h2 := h (a+2); have h3 := h (a+3)
  have h4 := h (a+4); have h5 := h (a+5); have h6 := h (a+6); have h7 := h (a+7)
  unfold poke peek
  repeat' split
  all_goals first | rfl | (subst_vars; omega)

theorem patch2_low (text p : Nat) (hp : p < 65536) : patch2 text p % 65536 = p := by
  unfold patch2; omega

theorem patch2_lt (text p : Nat) (ht : text < W64) (hp : p < 65536) : patch2 text p < W64 := by
  unfold patch2 W64 at *; omega

end BsVerif.Call
