import BsVerif.Lemmas.ValueTree
/-! End-to-end statements for `Vec` and `VecDeque`: the header fields (found by the breadth-first lookup — hypotheses here),
the buffer read and the element decoder composed as in `specialize`. -/
namespace BsVerif.Value

theorem flatten_length_uniform (el : Nat) (blocks : List Bytes) (h : ∀ b ∈ blocks, b.length = el) :
    blocks.flatten.length = blocks.length * el := by
  induction blocks with
  | nil => simp
  | cons b rest ih =>
    have hb : b.length = el := h b (by simp)
    have hr : ∀ x ∈ rest, x.length = el := fun x hx => h x (by simp [hx])
    simp [ih hr, hb, Nat.succ_mul]; omega

theorem chunk_count (n el : Nat) (hel : 0 < el) : (n * el + el - 1) / el = n := by
  have : n * el + el - 1 = el * n + (el - 1) := by rw [Nat.mul_comm]; omega
  rw [this, Nat.mul_add_div hel, Nat.div_eq_of_lt (by omega)]
  rfl

/-- **Vec end to end**: header says `len = n ≤ LEN_GUARD`, pointer `p`, the buffer at `p` is the concatenation of the `n`
    element images, the element decoder shows `items[j]` on image `j` ⇒ the `Vec` is shown as exactly `items`, in order. -/
theorem vec_end_to_end (c : Ctx) (rec : Rec) (sv : Val) (id : Nat) (tps : List (String × Option Nat))
    (inner el n cap p : Nat) (blocks : List Bytes) (items : List Val)
    (hT : lookupTParam tps "T" = some inner)
    (hlen : assumeScalarNumber sv "len" = some (n : Int)) (hn : (n : Int) ≤ LEN_GUARD)
    (hcap : extractCapacity c.ver sv = some cap)
    (hp : assumePointer sv "pointer" = some p)
    (hel : c.size inner = some el) (hel0 : 0 < el)
    (hb : blocks.length = n) (hbl : ∀ b ∈ blocks, b.length = el)
    (hrd : c.rd p (n * el) = some blocks.flatten)
    (hil : items.length = blocks.length)
    (hitems : ∀ j (h : j < blocks.length) (h' : j < items.length) (a : Option Nat), rec (some ⟨blocks[j], a⟩) inner = some items[j]) :
    specialize c rec .vec sv id tps =
      some (.specVec false sv (vecStructure c sv.tyName inner items (guardCap cap).toNat tps)) := by
  have hg : guardLen (n : Int) = (n : Int) := by
    unfold guardLen; have : ¬ ((n : Int) > LEN_GUARD) := by omega
    simp [this]
  have hz : ¬ (el = 0) := by omega
  have hnn : ¬ ((n : Int) < 0) := by omega
  have hfl := flatten_length_uniform el blocks hbl
  have hcnt : (blocks.flatten.length + el - 1) / el = blocks.length := by rw [hfl]; exact chunk_count _ _ hel0
  have hpi := parseItems_all rec inner el (some p) blocks items hil hitems 0
  simp only [specialize, hT, hlen, hcap, hp, hel, hg, hnn, Int.toNat_natCast, hrd, hz, hcnt, if_false,
    Option.bind_eq_bind, Option.bind_some, Option.pure_def, bind, pure]
  rw [C06_vec el blocks hbl, hpi]

theorem parseSlots_all (rec : Rec) (el elSize ptr : Nat) (buf : Bytes) (slots : List Nat) (items : List Val)
    (hl : items.length = slots.length)
    (h : ∀ i (h : i < slots.length) (h' : i < items.length),
      slots[i] * elSize + elSize ≤ buf.length ∧
      rec (some ⟨(buf.drop (slots[i] * elSize)).take elSize, some (ptr + slots[i] * elSize)⟩) el = some items[i]) :
    parseSlots rec el elSize ptr buf slots = some items := by
  induction slots generalizing items with
  | nil => cases items with | nil => simp [parseSlots] | cons _ _ => simp at hl
  | cons s rest ih =>
    cases items with
    | nil => simp at hl
    | cons v vs =>
      obtain ⟨hle, hrec⟩ := h 0 (by simp) (by simp)
      simp only [List.getElem_cons_zero] at hle hrec
      have hrest : parseSlots rec el elSize ptr buf rest = some vs := by
        apply ih vs (by simpa using hl)
        intro i hi hi'
        have := h (i + 1) (by simp; omega) (by simp; omega)
        simpa using this
      simp [parseSlots, sliceBytes, hle, hrec, hrest]

/-- a window of `cnt` slots starting at slot `start` of a buffer, read on its own (as `specialize` reads the head part and
    the wrapped part of a ring), decodes to what the element decoder shows on the buffer's slots `start + i` -/
theorem parseSlots_window (rec : Rec) (el elSize p : Nat) (buf : Bytes) (start cnt : Nat) (items : List Val)
    (hfit : (start + cnt) * elSize ≤ buf.length) (hl : items.length = cnt)
    (h : ∀ i (_ : i < cnt) (h' : i < items.length),
      rec (some ⟨(buf.drop ((start + i) * elSize)).take elSize, some (p + (start + i) * elSize)⟩) el = some items[i]) :
    parseSlots rec el elSize (p + start * elSize) ((buf.drop (start * elSize)).take (cnt * elSize)) (List.range cnt) =
      some items := by
  have hsc : start * elSize + cnt * elSize ≤ buf.length := by rw [← Nat.add_mul]; exact hfit
  apply parseSlots_all rec el elSize (p + start * elSize) _ (List.range cnt) items (by simp [hl])
  intro i hi hi'
  have hic : i < cnt := by simpa using hi
  simp only [List.getElem_range]
  have hmul : (i + 1) * elSize ≤ cnt * elSize := Nat.mul_le_mul_right elSize hic
  rw [Nat.add_mul, Nat.one_mul] at hmul
  have hlen : ((buf.drop (start * elSize)).take (cnt * elSize)).length = cnt * elSize := by
    simp only [List.length_take, List.length_drop]; omega
  refine ⟨by rw [hlen]; exact hmul, ?_⟩
  have hwin : (((buf.drop (start * elSize)).take (cnt * elSize)).drop (i * elSize)).take elSize =
      (buf.drop ((start + i) * elSize)).take elSize := by
    rw [List.drop_take, List.drop_drop, List.take_take, Nat.add_mul]
    congr 1
    omega
  have haddr : p + start * elSize + i * elSize = p + (start + i) * elSize := by rw [Nat.add_mul]; omega
  rw [hwin, haddr]
  exact h i hic hi'

/-- **VecDeque end to end** (EVERY capacity, also above CAP_GUARD; repaired by 26a941a): header says `len = n ≤ LEN_GUARD`,
    `head`, capacity `cap`, pointer `p`; the memory at `p` holds the ring buffer `buf` (`cap` slots); the element decoder
    shows `items[i]` on the image in slot `(head + i) % cap` of the buffer ⇒ the deque is shown as exactly `items`, in
    logical order — for every ring position, wrapped or not.  Only the shown capacity goes through `guard_cap`. -/
theorem deque_end_to_end (c : Ctx) (rec : Rec) (sv : Val) (id : Nat) (tps : List (String × Option Nat))
    (inner el n cap head p : Nat) (buf : Bytes) (items : List Val)
    (hT : lookupTParam tps "T" = some inner)
    (hlen : assumeScalarNumber sv "len" = some (n : Int)) (hn : (n : Int) ≤ LEN_GUARD)
    (hel : c.size inner = some el) (hel0 : 0 < el)
    (hcap : extractCapacity c.ver sv = some cap) (hc0 : 0 < cap) (hnc : n ≤ cap)
    (hhead : assumeScalarNumber sv "head" = some (head : Int)) (hh64 : head < 2 ^ 64)
    (hp : assumePointer sv "pointer" = some p) (haddr : p + cap * el < 2 ^ 64)
    (hbuf : buf.length = cap * el)
    (hrd : ∀ off len, off + len ≤ cap * el → c.rd (p + off) len = some ((buf.drop off).take len))
    (hil : items.length = n)
    (hitems : ∀ i (h : i < n) (h' : i < items.length),
      rec (some ⟨(buf.drop (((head + i) % cap) * el)).take el, some (p + ((head + i) % cap) * el)⟩) inner = some items[i]) :
    specialize c rec .vecdeque sv id tps =
      some (.specVec true sv (vecStructure c sv.tyName inner items (guardCap cap).toNat tps)) := by
  have hg : guardLen (n : Int) = (n : Int) := by
    unfold guardLen; have : ¬ ((n : Int) > LEN_GUARD) := by omega
    simp [this]
  have hz : ¬ (el = 0) := by omega
  have hnn : ¬ ((n : Int) < 0) := by omega
  have hhn : (((head : Int) % ((2 ^ 64 : Nat) : Int)).toNat) = head := by
    have : (head : Int) % ((2 ^ 64 : Nat) : Int) = (head : Int) := Int.emod_eq_of_lt (by omega) (by exact_mod_cast hh64)
    rw [this, Int.toNat_natCast]
  -- the header
  simp only [specialize, hT, hlen, hcap, hp, hel, hg, hnn, hhn, hhead, Int.toNat_natCast, hz, if_false,
    Option.bind_eq_bind, Option.bind_some, Option.pure_def, bind, pure]
  -- the two ranges
  obtain ⟨hb0, hb1, hsum⟩ := ringRanges_bounds cap head n hc0 hnc
  have hL := ringIdx_ranges cap head n
  rw [ringIdx_spec cap head n hc0 hnc] at hL
  generalize ringRanges cap head n = r at hb0 hb1 hsum hL ⊢
  obtain ⟨ws, n0, n1⟩ := r
  simp only at hb0 hb1 hsum hL ⊢
  have hm0 : (ws + n0) * el ≤ cap * el := Nat.mul_le_mul_right el hb0
  have hm1 : n1 * el ≤ cap * el := Nat.mul_le_mul_right el hb1
  have hs0 : ∀ i, i < n0 → (head + i) % cap = ws + i := by
    intro i hi
    have h := congrArg (fun l => l[i]?) hL
    have hin : i < n := by omega
    simp [List.getElem?_append, hi, hin] at h
    omega
  have hs1 : ∀ j, j < n1 → (head + (n0 + j)) % cap = j := by
    intro j hj
    have h := congrArg (fun l => l[n0 + j]?) hL
    have hin : n0 + j < n := by omega
    simp [hj, hin] at h
    omega
  have hovf : ¬ (p + (ws + n0) * el ≥ 2 ^ 64 ∨ p + n1 * el ≥ 2 ^ 64) := by omega
  have hr0 : c.rd (p + ws * el) (n0 * el) = some ((buf.drop (ws * el)).take (n0 * el)) :=
    hrd (ws * el) (n0 * el) (by rw [← Nat.add_mul]; exact hm0)
  have hr1 : c.rd p (n1 * el) = some ((buf.drop (0 * el)).take (n1 * el)) := by
    have := hrd 0 (n1 * el) (by omega)
    simpa using this
  have hp0 : parseSlots rec inner el (p + ws * el) ((buf.drop (ws * el)).take (n0 * el)) (List.range n0) =
      some (items.take n0) := by
    apply parseSlots_window rec inner el p buf ws n0 (items.take n0) (by rw [hbuf]; exact hm0) (by simp; omega)
    intro i hi hi'
    rw [List.getElem_take, ← hs0 i hi]
    exact hitems i (by omega) (by omega)
  have hp1 : parseSlots rec inner el (p + 0 * el) ((buf.drop (0 * el)).take (n1 * el)) (List.range n1) =
      some (items.drop n0) := by
    apply parseSlots_window rec inner el p buf 0 n1 (items.drop n0) (by rw [hbuf]; simpa using hm1) (by simp; omega)
    intro j hj hj'
    rw [List.getElem_drop]
    have := hitems (n0 + j) (by omega) (by omega)
    rw [hs1 j hj] at this
    simpa using this
  have e0 : p + 0 * el = p := by omega
  rw [e0] at hp1
  simp only [hovf, hr0, hr1, hp0, hp1, if_false, Option.bind_some, List.take_append_drop]

/-- the scan only looks at the groups it loads: group 0 and the groups `g` with `16 * g < buckets` -/
theorem hbScanFrom_congr (f f' : Nat → Bytes) (buckets : Nat) (fuel g : Nat)
    (h : ∀ k, g ≤ k → (k = g ∨ 16 * k < buckets) → f k = f' k) :
    hbScanFrom f buckets fuel g = hbScanFrom f' buckets fuel g := by
  induction fuel generalizing g with
  | zero => rfl
  | succ fuel ih =>
    unfold hbScanFrom
    rw [h g (Nat.le_refl _) (Or.inl rfl)]
    split
    · rfl
    · next hlt =>
      rw [ih (g + 1) (fun k hk hk' => h k (by omega) (by
        cases hk' with
        | inl e => right; omega
        | inr e => right; exact e))]

/-- the form `specialize` uses: the loaded groups as a list -/
theorem hbScan_loaded (ctrl : Nat → Nat) (buckets : Nat) (hb : 0 < buckets)
    (tail : ∀ j, buckets ≤ j → j < 16 * ((buckets + 15) / 16) → ctrl j ≥ 128) (loaded : List Bytes)
    (hl : ∀ g, (g = 0 ∨ 16 * g < buckets) → loaded.getD g [] = groupAt ctrl g) :
    hbScan (fun g => loaded.getD g []) buckets = (List.range buckets).filter (isFull ctrl) := by
  rw [← C06_hashbrown_iter ctrl buckets hb tail]
  unfold hbScan
  apply hbScanFrom_congr
  intro k _ hk
  exact hl k (by omega)

theorem parseBuckets_all (c : Ctx) (rec : Rec) (kv kvSize ctrlp : Nat) (k v : Nat → Val) (idx : List Nat)
    (h : ∀ j ∈ idx, ∃ ty names tp,
      rec ((c.rd (ctrlp - (j + 1) * kvSize) kvSize).map fun bs => ⟨bs, some (ctrlp - (j + 1) * kvSize)⟩) kv =
        some (.struct ty names [k j, v j] tp)) :
    parseBuckets c rec kv kvSize ctrlp idx = some (idx.map fun j => (k j, v j)) := by
  induction idx with
  | nil => simp [parseBuckets]
  | cons j rest ih =>
    obtain ⟨ty, names, tp, hj⟩ := h j (by simp)
    have hrest := ih (fun x hx => h x (by simp [hx]))
    simp [parseBuckets, hj, hrest]

/-- **HashMap end to end**: control pointer, `bucket_mask`, the `(K, V)` type and its size found in the header; the loaded
    16-byte groups are the table's control bytes (tail invariant); the element decoder shows the pair `(k j, v j)` on the
    image of bucket `j`, which lies `(j + 1) * size` below the control bytes ⇒ the map is shown as exactly the pairs of the
    full buckets `j < buckets`, each once (in index order) — tombstones and empty buckets are not shown. -/
theorem hashmap_end_to_end (c : Ctx) (rec : Rec) (sv : Val) (id : Nat) (tps : List (String × Option Nat))
    (ctrlp mask kv kvSize : Nat) (ctrl : Nat → Nat) (tty : String) (tnames : List (Option String)) (tvals : List Val)
    (ttps : List (String × Option Nat)) (loaded : List Bytes) (k v : Nat → Val)
    (hctrl : assumePointer sv "pointer" = some ctrlp)
    (hmask : assumeScalarNumber sv "bucket_mask" = some (mask : Int))
    (htable : assumeStruct sv "table" = some (.struct tty tnames tvals ttps))
    (hkv : lookupTParam ttps "T" = some kv) (hsz : c.size kv = some kvSize)
    (hload : (List.range (if mask + 1 ≤ 16 then 1 else (mask + 1 + 15) / 16)).mapM (fun g => c.rd (ctrlp + 16 * g) 16) = some loaded)
    (hl : ∀ g, (g = 0 ∨ 16 * g < mask + 1) → loaded.getD g [] = groupAt ctrl g)
    (tail : ∀ j, mask + 1 ≤ j → j < 16 * ((mask + 1 + 15) / 16) → ctrl j ≥ 128)
    (hpairs : ∀ j, j < mask + 1 → ctrl j < 128 → ∃ ty names tp,
      rec ((c.rd (ctrlp - (j + 1) * kvSize) kvSize).map fun bs => ⟨bs, some (ctrlp - (j + 1) * kvSize)⟩) kv =
        some (.struct ty names [k j, v j] tp)) :
    specialize c rec .hashmap sv id tps =
      some (.specMap false sv (((List.range (mask + 1)).filter (isFull ctrl)).map k)
                               (((List.range (mask + 1)).filter (isFull ctrl)).map v)) := by
  have hscan := hbScan_loaded ctrl (mask + 1) (by omega) tail loaded hl
  have hpb := parseBuckets_all c rec kv kvSize ctrlp k v ((List.range (mask + 1)).filter (isFull ctrl)) (by
    intro j hj
    rw [List.mem_filter, List.mem_range] at hj
    exact hpairs j hj.1 (by simpa [isFull] using hj.2))
  have hnn : ¬ ((mask : Int) < 0) := by omega
  simp only [specialize, hctrl, hmask, htable, hkv, hsz, hnn, Int.toNat_natCast, hload, hscan, hpb, if_false,
    Option.bind_eq_bind, Option.bind_some, Option.pure_def, bind, pure]
  have hbeq : (SpecKind.hashmap == SpecKind.hashmap) = true := by decide
  simp only [hbeq, if_true, List.map_map]
  rfl

end BsVerif.Value
