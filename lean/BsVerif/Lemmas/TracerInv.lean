import BsVerif.Lemmas.Tracer
/-! The invariant behind the tracer side of all-stop (C09): while a group stop is in progress every thread marked
running is still on its list; outside a group stop nothing is claimed; at the prompt nobody is marked running. -/
namespace BsVerif.Tracer

/-- nobody is marked running -/
def AS (s : St) : Prop := runningIds s.tbl = []

def accG (g : Gs) : List Tid :=
  match g.cur with
  | some c => c :: g.todo
  | none => g.todo

def CovOK (s : St) : Prop := ∀ g, s.gs = some g → Cov s.tbl (accG g)

/-- control points that occur while a group stop is in progress -/
def GsAw : Aw → Prop
  | .intr | .waitOne _ | .siginfo _ _ | .setpc _ _ | .evmsg _ | .childWait _ | .contExit _ | .dead _ => True
  | _ => False

/-- return values that end a command with the debuggee stopped -/
def needsAS : Option Reason → Prop
  | some (.bp _ _) => True
  | some (.sig _ sg) => isQuiet sg = false
  | _ => False

structure Inv (s : St) : Prop where
  cov : CovOK s
  shape : ∀ g, s.gs = some g → GsAw s.aw
  intrCur : ∀ g, s.gs = some g → s.aw = .intr → g.cur = none
  prompt : s.aw = .idle → (∀ c, s.last ≠ some (.exit c)) → AS s
  poke : ∀ a r, s.aw = .pokeInt3 a (some r) → AS s

theorem inv_die {s : St} (w : String) (h : CovOK s) : Inv (die s w) :=
  ⟨h, by intro g _; simp [die, GsAw], by intro g _ h; simp [die] at h, by intro h; simp [die] at h,
   by intro a r h; simp [die] at h⟩

/-- reasons that put the user in front of a stopped debuggee -/
def Reason.isStop : Reason → Prop
  | .bp _ _ => True
  | .sig _ _ => True
  | _ => False

theorem inv_toPrompt {s : St} (r : Reason) (hg : s.gs = none) (has : r.isStop → AS s) :
    Inv (toPrompt s r) := by
  have hc : CovOK s := by intro g h; simp [hg] at h
  cases r with
  | bp t pc => exact ⟨by intro g h; simp [toPrompt] at h, by intro g h; simp [toPrompt] at h,
      by intro g h; simp [toPrompt] at h, by intro _ _; exact has trivial, by intro a r h; simp [toPrompt] at h⟩
  | sig t sg => exact ⟨by intro g h; simp [toPrompt] at h, by intro g h; simp [toPrompt] at h,
      by intro g h; simp [toPrompt] at h, by intro _ _; exact has trivial, by intro a r h; simp [toPrompt] at h⟩
  | exit c => exact ⟨by intro g h; simp [toPrompt] at h, by intro g h; simp [toPrompt] at h,
      by intro g h; simp [toPrompt] at h, by intro _ h; exact absurd rfl (h c), by intro a r h; simp [toPrompt] at h⟩
  | nosuch t => exact inv_die _ hc
  | start => exact inv_die _ hc

theorem covOK_of_none {s : St} (hg : s.gs = none) : CovOK s := by intro g h; simp [hg] at h

theorem inv_resumeHead {s : St} (hg : s.gs = none) : Inv (resumeHead s) := by
  unfold resumeHead
  split
  all_goals exact ⟨by intro g h; simp [hg] at h, by intro g h; simp [hg] at h, by intro g h; simp [hg] at h,
      by intro h; simp at h, by intro a r h; simp at h⟩

theorem inv_deliverOuter {s : St} (r : Option Reason) (hg : s.gs = none) (has : needsAS r → AS s) :
    Inv (deliverOuter s r) := by
  have hc := covOK_of_none hg
  unfold deliverOuter
  split
  · -- resume
    split
    · split
      · exact inv_resumeHead hg
      · rename_i hq; exact inv_toPrompt _ hg (fun _ => has (by simpa [needsAS] using hq))
    · rename_i x hx
      cases x with
      | bp t pc => exact inv_toPrompt _ hg (fun _ => has (by simp [needsAS]))
      | sig t sg => exact absurd rfl (hx t sg)
      | exit c => exact inv_toPrompt _ hg (fun h => by simp [Reason.isStop] at h)
      | nosuch t => exact inv_toPrompt _ hg (fun h => by simp [Reason.isStop] at h)
      | start => exact inv_toPrompt _ hg (fun h => by simp [Reason.isStop] at h)
    · exact inv_resumeHead hg
  · -- single_step
    split
    · exact ⟨by intro g h; simp [hg] at h, by intro g h; simp [hg] at h, by intro g h; simp [hg] at h,
        by intro h; simp at h, by intro a r h; simp at h⟩
    · exact inv_die _ hc
    · exact inv_die _ hc
    · exact inv_die _ hc
    · split
      · exact ⟨by intro g h; simp [hg] at h, by intro g h; simp [hg] at h, by intro g h; simp [hg] at h,
          by intro h; simp at h, by intro a r h; simp at h⟩
      · rename_i hq
        exact ⟨by intro g h; simp [hg] at h, by intro g h; simp [hg] at h, by intro g h; simp [hg] at h,
          by intro h; simp at h, by intro a r _; exact has (by simpa [needsAS] using hq)⟩
    · exact ⟨by intro g h; simp [hg] at h, by intro g h; simp [hg] at h, by intro g h; simp [hg] at h,
        by intro h; simp at h, by intro a r h; simp at h⟩

theorem inv_gsEnd {s : St} (g : Gs) (has : AS s) : Inv (gsEnd s g) := by
  unfold gsEnd
  split
  · exact inv_toPrompt _ rfl (fun _ => has)
  · exact inv_deliverOuter _ rfl (fun _ => has)
  · exact inv_deliverOuter _ rfl (fun _ => has)

theorem inv_gsState {s : St} (g : Gs) (hc : Cov s.tbl g.todo) :
    Inv { s with gs := some { g with cur := none }, aw := .intr } :=
  ⟨by intro g' h; simp at h; subst h; simpa [accG] using hc, by intro g' _; simp [GsAw],
   by intro g' h _; simp at h; subst h; rfl, by intro h; simp at h, by intro a r h; simp at h⟩

theorem inv_pick1 {s : St} (g : Gs) (hc : Cov s.tbl g.todo) : Inv (pick1 s g) := by
  unfold pick1
  split
  · rename_i h
    exact inv_gsEnd g (cov_cands_empty s g.todo hc (by simpa using h))
  · exact inv_gsState g hc

theorem inv_pick {s : St} (g : Gs) (hc : Cov s.tbl g.todo) : Inv (pick s g) := by
  unfold pick
  split
  · rename_i h
    split
    · exact inv_pick1 _ (cov_keys s.tbl)
    · exact inv_gsEnd g (cov_cands_empty s g.todo hc (by simpa using h))
  · exact inv_gsState g hc

/-- a state that differs from a covered one by non-resuming table operations, inside the same group stop -/
theorem inv_gsKeep {s s' : St} (hc : CovOK s) (hg : s'.gs = s.gs) (hm : MReach s.tbl s'.tbl)
    (haw : GsAw s'.aw) (hni : s'.aw ≠ .intr) (hnidle : s'.aw ≠ .idle) (hnp : ∀ a r, s'.aw ≠ .pokeInt3 a r) : Inv s' :=
  ⟨by intro g h; rw [hg] at h; exact cov_mreach hm (hc g h), fun _ _ => haw, fun _ _ h => absurd h hni,
   fun h => absurd h hnidle, fun a r h => absurd h (hnp a (some r))⟩

theorem inv_deliverGs {s : St} (g : Gs) (cur : Tid) (r : Option Reason) (hc : CovOK s)
    (hcur : Cov s.tbl (cur :: g.todo)) : Inv (deliverGs s g cur r) := by
  simp only [deliverGs]
  repeat' split
  all_goals first
    | exact inv_die _ hc
    | (apply inv_pick; exact cov_finish cur hcur)
    | exact inv_gsKeep hc rfl (.refl _) (by simp [GsAw]) (by simp) (by simp) (by simp)

theorem inv_ret {s : St} (r : Option Reason) (hc : CovOK s) (has : s.gs = none → needsAS r → AS s) :
    Inv (ret s r) := by
  unfold ret
  split
  · rename_i g hg
    split
    · rename_i c hcur
      refine inv_deliverGs g c r hc ?_
      have := hc g hg
      simpa [accG, hcur] using this
    · exact inv_die _ hc
  · rename_i hg
    exact inv_deliverOuter r hg (has hg)

theorem as_of_only {s : St} (t : Tid) (hall : ∀ r ∈ s.tbl.rows, r.tid = t) (hstop : t ∉ runningIds s.tbl) : AS s := by
  apply List.eq_nil_iff_forall_not_mem.mpr
  intro x hx
  obtain ⟨r, hr, _, rfl⟩ := mem_runningIds.mp hx
  exact hstop (hall r hr ▸ hx)

theorem inv_groupStop {s : St} (init : Option Tid) (gr : GRet) (hc : CovOK s)
    (hstop : ∀ t, init = some t → t ∉ runningIds s.tbl) : Inv (groupStop s init gr) := by
  unfold groupStop
  split
  · rename_i g hg
    exact inv_ret _ hc (fun h => by simp [hg] at h)
  · simp only []
    split
    · rename_i hno
      refine inv_gsEnd _ ?_
      have hall : ∀ r ∈ s.tbl.rows, some r.tid = init := by
        simpa [List.any_eq_true] using hno
      cases init with
      | none =>
        apply List.eq_nil_iff_forall_not_mem.mpr
        intro x hx
        obtain ⟨r, hr, _, _⟩ := mem_runningIds.mp hx
        exact absurd (hall r hr) (by simp)
      | some t =>
        exact as_of_only t (fun r hr => by simpa using hall r hr) (hstop t rfl)
    · exact inv_pick _ (cov_keys s.tbl)

theorem covOK_tbl {s : St} (T : Table) (hc : CovOK s) (hm : MReach s.tbl T) : CovOK { s with tbl := T } := by
  intro g h; exact cov_mreach hm (hc g h)

theorem needsAS_none : ¬ needsAS none := by simp [needsAS]

theorem inv_applyNew {s : St} (w : WSt) (hc : CovOK s) : Inv (applyNew s w) := by
  unfold applyNew
  split
  · simp only []
    refine inv_ret _ (covOK_tbl _ hc (.remove _ (.refl _))) ?_
    intro _ h; split at h <;> simp [needsAS] at h
  · exact inv_ret _ hc (fun _ h => absurd h needsAS_none)
  · exact inv_ret _ hc (fun _ h => absurd h needsAS_none)
  · exact inv_ret _ hc (fun _ h => absurd h needsAS_none)
  · exact inv_ret _ (covOK_tbl _ hc (.add _ (.refl _))) (fun _ h => by simp [needsAS] at h)
  · split
    · exact inv_die _ hc
    · exact inv_gsKeep hc rfl (.setStop _ (.refl _)) (by simp [GsAw]) (by simp) (by simp) (by simp)
  · split
    · exact inv_ret _ (covOK_tbl _ hc (.setStop _ (.refl _))) (fun _ h => absurd h needsAS_none)
    · exact inv_ret _ (covOK_tbl _ hc (.add _ (.refl _))) (fun _ h => absurd h needsAS_none)
  · split
    · exact inv_gsKeep hc rfl (.remove _ (.refl _)) (by simp [GsAw]) (by simp) (by simp) (by simp)
    · exact inv_ret _ hc (fun _ h => absurd h needsAS_none)
  · exact inv_gsKeep hc rfl (.refl _) (by simp [GsAw]) (by simp) (by simp) (by simp)

theorem inv_onIntr {s : St} (g : Gs) (t : Tid) (r : Ans) (hc : CovOK s) (hg : s.gs = some g) (hcur : g.cur = none) :
    Inv (onIntr s g t r) := by
  have hcov : Cov s.tbl g.todo := by simpa [accG, hcur] using hc g hg
  unfold onIntr
  split
  · simp only []
    split
    · exact ⟨by intro g' h; simp at h; subst h; simpa [accG] using cov_intr_ok t hcov,
        by intro g' _; simp [GsAw], by intro g' _ h; simp at h, by intro h; simp at h, by intro a r h; simp at h⟩
    · split
      · apply inv_pick; exact cov_setStop_erase t hcov
      · exact inv_die _ hc
  · exact inv_die _ hc

theorem inv_gsNone {s : St} (hg : s.gs = none) (hidle : s.aw ≠ .idle) (hp : ∀ a r, s.aw ≠ .pokeInt3 a (some r)) :
    Inv s :=
  ⟨covOK_of_none hg, by intro g h; simp [hg] at h, by intro g h; simp [hg] at h, fun h => absurd h hidle,
   fun a r h => absurd h (hp a r)⟩

theorem gs_none_of_shape {s : St} (hI : Inv s) (h : ¬ GsAw s.aw) : s.gs = none := by
  cases hg : s.gs with
  | none => rfl
  | some g => exact absurd (hI.shape g hg) h

theorem not_running_after_setSig (T : Table) (t : Tid) (sg : Nat) : t ∉ runningIds (T.setSt t (.sigstop sg)) := by
  intro h
  obtain ⟨r, hr, hrun, htid⟩ := mem_runningIds.mp h
  obtain ⟨r0, _, rfl⟩ := List.mem_map.mp hr
  by_cases c : (r0.tid == t) <;> simp [c, Status.isRunning] at hrun htid
  simp [htid] at c

theorem inv_cmdContinue {s : St} (hI : Inv s) : Inv (cmdContinue s) := by
  have hc := hI.cov
  unfold cmdContinue
  split
  · rename_i haw
    have hgn : s.gs = none := gs_none_of_shape hI (by simp [haw, GsAw])
    repeat' split
    all_goals first
      | exact inv_die _ hc
      | exact inv_resumeHead hgn
      | exact inv_gsNone hgn (by simp) (by simp)
  · exact inv_die _ hc

/-- closes the goals of `inv_step` whose control point cannot occur inside a group stop (`hgn : s.gs = none`) -/
macro "inv_outer" hgn:ident hI:ident hc:ident : tactic => `(tactic| first
  | exact inv_die _ $hc
  | exact inv_resumeHead $hgn
  | exact inv_gsNone $hgn (by simp) (by simp)
  | exact inv_applyNew _ $hc
  | (refine inv_toPrompt _ $hgn (fun _ => ?_); exact ($hI).poke _ _ (by assumption))
  | exact inv_toPrompt _ $hgn (fun h => by simp [Reason.isStop] at h))

/-- … and of those that can: everything goes through `ret` / `groupStop` / `pick` / `applyNew` -/
macro "inv_inner" hc:ident : tactic => `(tactic| first
  | exact inv_die _ $hc
  | exact inv_applyNew _ $hc
  | exact inv_ret _ $hc (fun _ h => by simp_all [needsAS])
  | exact inv_ret _ (covOK_tbl _ $hc (by mreach_one)) (fun _ h => by simp_all [needsAS])
  | exact inv_gsKeep $hc rfl (by mreach_one) (by simp [GsAw]) (by simp) (by simp) (by simp)
  | (refine inv_groupStop _ _ (covOK_tbl _ $hc (by mreach_one)) ?_; intro t ht; cases ht; first
      | exact not_running_after_setStop _ _
      | exact not_running_after_setSig _ _ _))

macro "gs_none_here" hI:ident : tactic => `(tactic| first
  | (rename_i h; exact gs_none_of_shape $hI (by simp [h, GsAw]))
  | (rename_i h _; exact gs_none_of_shape $hI (by simp [h, GsAw]))
  | (rename_i h _ _; exact gs_none_of_shape $hI (by simp [h, GsAw]))
  | (rename_i h _ _ _; exact gs_none_of_shape $hI (by simp [h, GsAw])))

theorem inv_step {s : St} (e : Ev) (hI : Inv s) : Inv (step s e) := by
  have hc := hI.cov
  unfold step
  split
  · exact hI
  · exact inv_die _ hc
  · -- pokeOrig
    have hgn : s.gs = none := by gs_none_here hI
    repeat' split
    all_goals inv_outer hgn hI hc
  · -- stepReq
    have hgn : s.gs = none := by gs_none_here hI
    repeat' split
    all_goals inv_outer hgn hI hc
  · -- pokeInt3
    have hgn : s.gs = none := by gs_none_here hI
    repeat' split
    all_goals inv_outer hgn hI hc
  · -- contAll, cont
    have hgn : s.gs = none := by gs_none_here hI
    simp only []
    repeat' split
    all_goals inv_outer hgn hI hc
  · -- contAll, wait
    have hgn : s.gs = none := by gs_none_here hI
    repeat' split
    all_goals inv_outer hgn hI hc
  · -- contAll, interrupt (more signals queued)
    have hgn : s.gs = none := by gs_none_here hI
    split
    · exact inv_die _ hc
    · simp only []
      have h1 : ∀ t sg, Inv (groupStop s none (.inject t sg)) :=
        fun t sg => inv_groupStop none _ hc (by intro t ht; cases ht)
      split
      · rename_i g haw hg
        exact inv_onIntr g _ _ (h1 _ _).cov hg ((h1 _ _).intrCur g hg haw)
      · exact inv_die _ (h1 _ _).cov
  · -- group stop: interrupt
    split
    · rename_i g hg
      refine inv_onIntr g _ _ hc hg (hI.intrCur g hg ?_)
      assumption
    · exact inv_die _ hc
  · -- waitOne
    split
    · exact inv_die _ hc
    · split
      · rename_i g hg
        split
        · rename_i cur _ _ hcur _
          apply inv_pick
          exact cov_finish cur (by simpa [accG, hcur] using hc g hg)
        · exact inv_applyNew _ hc
        · exact inv_die _ hc
      · rename_i hgn
        split
        · exact inv_gsNone hgn (by simp) (by simp)
        · exact inv_die _ hc
  · -- stepInfo
    have hgn : s.gs = none := by gs_none_here hI
    repeat' split
    all_goals inv_outer hgn hI hc
  · -- siginfo
    simp only []
    repeat' split
    all_goals inv_inner hc
  · -- setpc
    repeat' split
    all_goals inv_inner hc
  · -- evmsg
    repeat' split
    all_goals inv_inner hc
  · -- childWait
    repeat' split
    all_goals inv_inner hc
  · -- contExit
    repeat' split
    all_goals inv_inner hc
  · exact inv_die _ hc

end BsVerif.Tracer
