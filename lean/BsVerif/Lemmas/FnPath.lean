import BsVerif.Model.FnPath
/-! Lemmas about the model of `NamespaceHierarchy::split_path` (Model/FnPath.lean). -/
namespace BsVerif.FnPath

/-- characters of a plain path component (an identifier, `{closure#0}`, …) -/
def Plain (c : List Char) : Prop := ∀ ch ∈ c, ch ≠ '<' ∧ ch ≠ '>' ∧ ch ≠ '-' ∧ ch ≠ ':' ∧ ch ≠ ' '

/-- text inside angle brackets: brackets nest, `-` occurs only in `->` -/
inductive Bal : List Char → Prop
  | nil : Bal []
  | chr (c : Char) (s : List Char) : c ≠ '<' → c ≠ '>' → c ≠ '-' → Bal s → Bal (c :: s)
  | grp (a b : List Char) : Bal a → Bal b → Bal ('<' :: a ++ '>' :: b)
  | arrow (s : List Char) : Bal s → Bal ('-' :: '>' :: s)

theorem plain_run (c : List Char) (hc : Plain c) (rest cur : List Char) (d : Nat) :
    splitTopAux sepColons (c ++ rest) false d 0 cur = splitTopAux sepColons rest false d 0 (c.reverse ++ cur) := by
  unfold sepColons
  induction c generalizing cur with
  | nil => simp
  | cons ch c ih =>
    have hc' : Plain c := fun x hx => hc x (by simp [hx])
    obtain ⟨h1, h2, h3, h4, _⟩ := hc ch (by simp)
    have b1 : (ch == '<') = false := by simpa using h1
    have b2 : (ch == '>') = false := by simpa using h2
    have b3 : (ch == '-') = false := by simpa using h3
    have b4 : (':' == ch) = false := by simpa using fun h => h4 h.symm
    simp only [List.cons_append, splitTopAux, b1, b2, b3, b4, isPrefixChars, Bool.false_and, Bool.and_false,
      Bool.false_eq_true, if_false]
    rw [ih hc']; simp

theorem colons (rest cur : List Char) :
    splitTopAux sepColons (':' :: ':' :: rest) false 0 0 cur = cur.reverse :: splitTopAux sepColons rest false 0 0 [] := by
  simp [splitTopAux, sepColons, isPrefixChars]

theorem bal_run (delim s : List Char) (hs : Bal s) : ∀ (d : Nat) (rest cur : List Char),
    splitTopAux delim (s ++ rest) false (d + 1) 0 cur = splitTopAux delim rest false (d + 1) 0 (s.reverse ++ cur) := by
  induction hs with
  | nil => intros; simp
  | chr c s h1 h2 h3 _ ih =>
    intro d rest cur
    have b1 : (c == '<') = false := by simpa using h1
    have b2 : (c == '>') = false := by simpa using h2
    have b3 : (c == '-') = false := by simpa using h3
    have b0 : (d + 1 == 0) = false := by simp
    simp only [List.cons_append, splitTopAux, b1, b2, b3, b0, Bool.false_and, Bool.false_eq_true, if_false]
    rw [ih]; simp
  | grp a b _ _ iha ihb =>
    intro d rest cur
    have e : ('<' :: a ++ '>' :: b) ++ rest = '<' :: (a ++ ('>' :: (b ++ rest))) := by simp
    rw [e]
    simp only [splitTopAux, beq_self_eq_true, if_true]
    rw [iha]
    simp only [splitTopAux]
    simp only [show ('>' == '<') = false by decide, Bool.false_eq_true, if_false, beq_self_eq_true, Bool.and_false,
      if_true, Nat.add_sub_cancel]
    rw [ihb]; simp
  | arrow s _ ih =>
    intro d rest cur
    simp only [List.cons_append, splitTopAux]
    simp only [show ('-' == '<') = false by decide, show ('-' == '>') = false by decide, Bool.false_eq_true, if_false,
      beq_self_eq_true,
      show ('>' == '<') = false by decide, Bool.and_self, if_true]
    rw [ih]; simp

/-- a bracket group at any depth is passed without a cut -/
theorem group_run (delim a : List Char) (ha : Bal a) (d : Nat) (rest cur : List Char) :
    splitTopAux delim ('<' :: (a ++ '>' :: rest)) false d 0 cur
      = splitTopAux delim rest false d 0 ('>' :: (a.reverse ++ '<' :: cur)) := by
  simp only [splitTopAux, beq_self_eq_true, if_true]
  rw [bal_run delim a ha]
  simp [splitTopAux]

/-! ### demangled names as data -/

/-- a path segment as v0 demangling prints it in a value path: a name, possibly followed by `::<generic arguments>` -/
structure Seg where
  name : List Char
  args : Option (List Char)

def Seg.argsText (s : Seg) : List Char :=
  match s.args with
  | none => []
  | some a => ':' :: ':' :: '<' :: (a ++ ['>'])

/-- `::seg::seg…` -/
def renderTail : List Seg → List Char
  | [] => []
  | s :: ss => ':' :: ':' :: (s.name ++ (s.argsText ++ renderTail ss))

def Seg.parts (s : Seg) : List (List Char) :=
  match s.args with
  | none => [s.name]
  | some a => [s.name, '<' :: (a ++ ['>'])]

def Seg.WF (s : Seg) : Prop :=
  Plain s.name ∧ ∀ a, s.args = some a → Bal a ∧ isPrefixChars implPrefix ('<' :: (a ++ ['>'])) = false

theorem tail_parts (ss : List Seg) (hs : ∀ s ∈ ss, s.WF) (cur : List Char) :
    splitTopAux sepColons (renderTail ss) false 0 0 cur = cur.reverse :: ss.flatMap Seg.parts := by
  induction ss generalizing cur with
  | nil => simp [renderTail, splitTopAux]
  | cons s ss ih =>
    have hss : ∀ x ∈ ss, x.WF := fun x hx => hs x (by simp [hx])
    obtain ⟨hn, ha⟩ := hs s (by simp)
    simp only [renderTail, colons, List.flatMap_cons]
    rw [plain_run _ hn]
    cases hsa : s.args with
    | none =>
      simp only [Seg.argsText, Seg.parts, hsa, List.nil_append]
      rw [ih hss]; simp
    | some a =>
      obtain ⟨hb, _⟩ := ha a hsa
      simp only [Seg.argsText, Seg.parts, hsa, List.cons_append, List.append_assoc, List.nil_append, colons]
      unfold sepColons
      rw [group_run _ a hb, show ([':', ':'] : List Char) = sepColons from rfl, ih hss]
      simp

theorem stripBrackets_plain (n : List Char) (hn : Plain n) : stripBrackets n = none := by
  cases n with
  | nil => rfl
  | cons c r =>
    have h := (hn c (by simp)).1
    unfold stripBrackets
    split
    · rename_i heq; cases heq; exact absurd rfl h
    · rfl

theorem stripBrackets_group (a : List Char) : stripBrackets ('<' :: (a ++ ['>'])) = some a := by
  simp [stripBrackets]

theorem norm_parts (ss : List Seg) (hs : ∀ s ∈ ss, s.WF) :
    normParts false (ss.flatMap Seg.parts) = ss.map Seg.name := by
  induction ss with
  | nil => simp [normParts]
  | cons s ss ih =>
    have hss : ∀ x ∈ ss, x.WF := fun x hx => hs x (by simp [hx])
    obtain ⟨hn, ha⟩ := hs s (by simp)
    cases hsa : s.args with
    | none => simp [Seg.parts, hsa, normParts, stripBrackets_plain _ hn, ih hss]
    | some a =>
      obtain ⟨_, hi⟩ := ha a hsa
      simp [Seg.parts, hsa, normParts, stripBrackets_plain _ hn, stripBrackets_group, hi, ih hss]

/-- the text of a v0 (or legacy) value path: `name[::<args>]::name[::<args>]…` -/
def render : List Seg → List Char
  | [] => []
  | s :: ss => s.name ++ (s.argsText ++ renderTail ss)

theorem split_render (s : Seg) (ss : List Seg) (hs : ∀ x ∈ s :: ss, x.WF) :
    splitTop sepColons (render (s :: ss)) = (s :: ss).flatMap Seg.parts := by
  have h := tail_parts (s :: ss) hs []
  simp only [renderTail, colons, List.reverse_nil] at h
  simpa [splitTop, render] using (List.cons.inj h).2

/-- **C17_fn_path_components.**  Whatever generic arguments the v0 scheme prints after the segments of a function's
path, the components are the segments' names — what the legacy scheme (which prints no arguments) yields. -/
theorem fn_path_components (s : Seg) (ss : List Seg) (hs : ∀ x ∈ s :: ss, x.WF) :
    splitPathChars (render (s :: ss)) = (s :: ss).map Seg.name := by
  have hss : ∀ x ∈ ss, x.WF := fun x hx => hs x (by simp [hx])
  obtain ⟨hn, ha⟩ := hs s (by simp)
  unfold splitPathChars
  rw [split_render s ss hs, List.flatMap_cons]
  cases hsa : s.args with
  | none => simp [Seg.parts, hsa, normParts, stripBrackets_plain _ hn, norm_parts ss hss]
  | some a =>
    obtain ⟨_, hi⟩ := ha a hsa
    simp [Seg.parts, hsa, normParts, stripBrackets_plain _ hn, stripBrackets_group, hi, norm_parts ss hss]

/-- text without brackets and blanks is one part for the ` as ` delimiter -/
theorem no_as (t : List Char) (ht : ∀ ch ∈ t, ch ≠ '<' ∧ ch ≠ '>' ∧ ch ≠ ' ') (pd : Bool) (cur : List Char) :
    splitTopAux sepAs t pd 0 0 cur = [cur.reverse ++ t] := by
  unfold sepAs
  induction t generalizing pd cur with
  | nil => simp [splitTopAux]
  | cons ch t ih =>
    obtain ⟨h1, h2, h3⟩ := ht ch (by simp)
    have b1 : (ch == '<') = false := by simpa using h1
    have b2 : (ch == '>') = false := by simpa using h2
    have b3 : (' ' == ch) = false := by simpa using fun h => h3 h.symm
    simp only [splitTopAux, b1, b2, b3, isPrefixChars, Bool.false_and, Bool.and_false, Bool.false_eq_true, if_false]
    rw [ih (fun x hx => ht x (by simp [hx]))]; simp

theorem plain_chars_tail (ts : List (List Char)) (ht : ∀ t ∈ ts, Plain t) :
    ∀ ch ∈ renderTail (ts.map fun t => ⟨t, none⟩), ch ≠ '<' ∧ ch ≠ '>' ∧ ch ≠ '-' ∧ ch ≠ ' ' := by
  induction ts with
  | nil => simp [renderTail]
  | cons t ts ih =>
    intro ch hch
    simp only [List.map_cons, renderTail, Seg.argsText, List.nil_append, List.mem_cons, List.mem_append] at hch
    rcases hch with rfl | rfl | h | h
    · decide
    · decide
    · have := ht t (by simp) ch h; exact ⟨this.1, this.2.1, this.2.2.1, this.2.2.2.2⟩
    · exact ih (fun x hx => ht x (by simp [hx])) ch h

theorem bal_of_chars (t : List Char) (ht : ∀ ch ∈ t, ch ≠ '<' ∧ ch ≠ '>' ∧ ch ≠ '-' ∧ ch ≠ ' ') : Bal t := by
  induction t with
  | nil => exact Bal.nil
  | cons c t ih =>
    obtain ⟨h1, h2, h3, _⟩ := ht c (by simp)
    exact Bal.chr c t h1 h2 h3 (ih fun x hx => ht x (by simp [hx]))

/-- **C17_fn_path_inherent_impl.**  v0 prints a method of an inherent impl as `<krate::Type>::method…`; the components are
those of `krate::Type::method…`, which is what the legacy scheme prints. -/
theorem fn_path_inherent_impl (t : List Char) (ts : List (List Char)) (ss : List Seg)
    (ht : ∀ x ∈ t :: ts, Plain x) (hs : ∀ x ∈ ss, x.WF) :
    splitPathChars ('<' :: (render ((t :: ts).map fun t => ⟨t, none⟩) ++ '>' :: renderTail ss))
      = (t :: ts) ++ ss.map Seg.name := by
  have hty : ∀ x ∈ (t :: ts).map (fun t => (⟨t, none⟩ : Seg)), x.WF := by
    intro x hx
    obtain ⟨y, hy, rfl⟩ := List.mem_map.mp hx
    exact ⟨ht y hy, by simp⟩
  have hchars : ∀ ch ∈ render ((t :: ts).map fun t => (⟨t, none⟩ : Seg)), ch ≠ '<' ∧ ch ≠ '>' ∧ ch ≠ '-' ∧ ch ≠ ' ' := by
    intro ch hch
    simp only [List.map_cons, render, Seg.argsText, List.nil_append, List.mem_append] at hch
    rcases hch with h | h
    · have := ht t (by simp) ch h; exact ⟨this.1, this.2.1, this.2.2.1, this.2.2.2.2⟩
    · exact plain_chars_tail ts (fun x hx => ht x (by simp [hx])) ch h
  have hsplit : splitTop sepColons (render ((t :: ts).map fun t => (⟨t, none⟩ : Seg))) = t :: ts := by
    have := split_render _ _ hty
    simp only [List.map_cons] at this ⊢
    rw [this]
    have aux : ∀ l : List (List Char), List.flatMap Seg.parts (l.map fun t => (⟨t, none⟩ : Seg)) = l := by
      intro l; induction l with
      | nil => rfl
      | cons x l ih => simp [List.flatMap_cons, Seg.parts, ih]
    simpa [List.flatMap_cons, Seg.parts] using aux ts
  generalize render ((t :: ts).map fun t => (⟨t, none⟩ : Seg)) = ty at *
  have hcut : splitTop sepColons ('<' :: (ty ++ '>' :: renderTail ss)) = ('<' :: (ty ++ ['>'])) :: ss.flatMap Seg.parts := by
    unfold splitTop sepColons
    rw [group_run _ ty (bal_of_chars ty hchars), show ([':', ':'] : List Char) = sepColons from rfl, tail_parts ss hs]
    simp
  have hnoas : (splitTop sepAs ty).length = 1 := by
    unfold splitTop
    rw [no_as ty (fun ch h => ⟨(hchars ch h).1, (hchars ch h).2.1, (hchars ch h).2.2.2⟩)]; simp
  unfold splitPathChars
  rw [hcut]
  simp only [normParts, stripBrackets_group, hnoas, Bool.true_and, beq_self_eq_true, if_true, norm_parts ss hs, hsplit]

end BsVerif.FnPath
