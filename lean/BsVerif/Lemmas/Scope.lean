import BsVerif.Model.Scope
/-! Helper lemmas for C19: the queue-based traversal of `for_each_children_recursive_t` visits exactly the proper
descendants (each with its true ancestor path), in non-decreasing depth. -/
namespace BsVerif.Scope

theorem Die.size_pos (d : Die) : 0 < d.size := by
  cases d with | node i cs => simp [Die.size]; omega

theorem qsize_append (a b : List Entry) : qsize (a ++ b) = qsize a + qsize b := by
  induction a with
  | nil => simp [qsize]
  | cons e es ih => simp [qsize, ih]; omega

theorem qsize_kids (p : Path) (cs : List Die) : qsize (cs.map fun d => (p, d)) = sizeList cs := by
  induction cs with
  | nil => simp [qsize, sizeList]
  | cons d ds ih => simp [qsize, sizeList, ih]

theorem qsize_zero {q : List Entry} (h : qsize q = 0) : q = [] := by
  cases q with
  | nil => rfl
  | cons e es => have := Die.size_pos e.2; simp [qsize] at h; omega

/-- membership in the depth-first list of a forest -/
theorem mem_descPL (x : Entry) (p : Path) (ds : List Die) :
    x ∈ descPL p ds ↔ (∃ d ∈ ds, x = (p, d)) ∨ (∃ d ∈ ds, x ∈ descP p d) := by
  induction ds with
  | nil => simp [descPL]
  | cons d ds ih =>
    simp only [descPL, List.mem_cons, List.mem_append, ih]
    constructor
    · rintro (h | h | h | h)
      · exact Or.inl ⟨d, Or.inl rfl, h⟩
      · exact Or.inr ⟨d, Or.inl rfl, h⟩
      · obtain ⟨d', hd', e⟩ := h; exact Or.inl ⟨d', Or.inr hd', e⟩
      · obtain ⟨d', hd', e⟩ := h; exact Or.inr ⟨d', Or.inr hd', e⟩
    · rintro (⟨d', hd' | hd', e⟩ | ⟨d', hd' | hd', e⟩)
      · subst hd'; exact Or.inl e
      · exact Or.inr (Or.inr (Or.inl ⟨d', hd', e⟩))
      · subst hd'; exact Or.inr (Or.inl e)
      · exact Or.inr (Or.inr (Or.inr ⟨d', hd', e⟩))

theorem descP_node (p : Path) (i : Info) (cs : List Die) : descP p (.node i cs) = descPL (i :: p) cs := by
  simp [descP]

/-- the traversal visits exactly the proper descendants of the queued DIEs (given enough fuel) -/
theorem mem_bfsAux (x : Entry) : ∀ (n : Nat) (q : List Entry), qsize q ≤ n →
    (x ∈ bfsAux n q ↔ ∃ e ∈ q, x ∈ descP e.1 e.2) := by
  intro n
  induction n with
  | zero =>
    intro q h
    have : q = [] := qsize_zero (by omega)
    subst this; simp [bfsAux]
  | succ n ih =>
    intro q h
    match q with
    | [] => simp [bfsAux]
    | (p, .node i cs) :: rest =>
      have hs : qsize (rest ++ cs.map fun d => (i :: p, d)) ≤ n := by
        rw [qsize_append, qsize_kids]
        simp [qsize, Die.size] at h; omega
      simp only [bfsAux, List.mem_append, ih _ hs, List.mem_cons, List.mem_map]
      constructor
      · rintro (⟨d, hd, rfl⟩ | ⟨e, (he | ⟨d, hd, rfl⟩), hx⟩)
        · refine ⟨(p, .node i cs), Or.inl rfl, ?_⟩
          rw [descP_node, mem_descPL]; exact Or.inl ⟨d, hd, rfl⟩
        · exact ⟨e, Or.inr he, hx⟩
        · refine ⟨(p, .node i cs), Or.inl rfl, ?_⟩
          rw [descP_node, mem_descPL]; exact Or.inr ⟨d, hd, hx⟩
      · rintro ⟨e, (rfl | he), hx⟩
        · rw [descP_node, mem_descPL] at hx
          rcases hx with ⟨d, hd, rfl⟩ | ⟨d, hd, hx⟩
          · exact Or.inl ⟨d, hd, rfl⟩
          · exact Or.inr ⟨(i :: p, d), Or.inr ⟨d, hd, rfl⟩, hx⟩
        · exact Or.inr ⟨e, Or.inl he, hx⟩

theorem mem_bfs (x : Entry) (f : Die) : x ∈ bfs f ↔ x ∈ descP [] f := by
  unfold bfs
  rw [mem_bfsAux x f.size [([], f)] (by simp [qsize])]
  simp

/-! ### depth order of the traversal -/

/-- all paths in `l` have length between `lo` and `lo+1`, and never decrease -/
def DepthSorted : List Entry → Prop
  | [] => True
  | [_] => True
  | a :: b :: rest => a.1.length ≤ b.1.length ∧ DepthSorted (b :: rest)

theorem depthSorted_cons {a : Entry} {l : List Entry} (h : DepthSorted (a :: l)) : DepthSorted l := by
  cases l with
  | nil => trivial
  | cons b rest => exact h.2

theorem depthSorted_head_le {a : Entry} {l : List Entry} (h : DepthSorted (a :: l)) : ∀ x ∈ l, a.1.length ≤ x.1.length := by
  induction l generalizing a with
  | nil => simp
  | cons b rest ih =>
    intro x hx
    rcases List.mem_cons.mp hx with rfl | hx
    · exact h.1
    · exact Nat.le_trans h.1 (ih h.2 x hx)

theorem depthSorted_append {l₁ l₂ : List Entry} (h₁ : DepthSorted l₁) (h₂ : DepthSorted l₂)
    (h : ∀ a ∈ l₁, ∀ b ∈ l₂, a.1.length ≤ b.1.length) : DepthSorted (l₁ ++ l₂) := by
  induction l₁ with
  | nil => simpa using h₂
  | cons a rest ih =>
    have hrest := ih (depthSorted_cons h₁) (fun x hx y hy => h x (List.mem_cons_of_mem _ hx) y hy)
    cases rest with
    | nil =>
      cases l₂ with
      | nil => trivial
      | cons b r2 => exact ⟨h a (by simp) b (by simp), h₂⟩
    | cons b r1 => exact ⟨h₁.1, hrest⟩

theorem depthSorted_const {l : List Entry} {k : Nat} (h : ∀ x ∈ l, x.1.length = k) : DepthSorted l := by
  induction l with
  | nil => trivial
  | cons a rest ih =>
    cases rest with
    | nil => trivial
    | cons b r =>
      refine ⟨?_, ih (fun x hx => h x (List.mem_cons_of_mem _ hx))⟩
      rw [h a (by simp), h b (by simp)]; exact Nat.le_refl _

/-- invariant of the queue: depths never decrease and the last is at most one more than the first -/
def QueueOk (q : List Entry) : Prop :=
  DepthSorted q ∧ ∀ a ∈ q, ∀ b ∈ q, b.1.length ≤ a.1.length + 1

theorem bfsAux_nil (n : Nat) : bfsAux n [] = [] := by cases n <;> simp [bfsAux]

theorem bfsAux_depth : ∀ (n : Nat) (q : List Entry), QueueOk q →
    DepthSorted (bfsAux n q) ∧ ∀ e, q.head? = some e → ∀ x ∈ bfsAux n q, e.1.length + 1 ≤ x.1.length := by
  intro n
  induction n with
  | zero => intro q _; simp [bfsAux, DepthSorted]
  | succ n ih =>
    intro q hq
    match q with
    | [] => simp [bfsAux, DepthSorted]
    | (p, .node i cs) :: rest =>
      simp only [bfsAux]
      have hk : ∀ x ∈ (cs.map fun d => ((i :: p, d) : Entry)), x.1.length = p.length + 1 := by
        intro x hx; obtain ⟨d, _, rfl⟩ := List.mem_map.mp hx; simp
      have hhead : ∀ x ∈ rest, p.length ≤ x.1.length := fun x hx => by
        have := depthSorted_head_le hq.1 x hx; simpa using this
      have hmax : ∀ x ∈ rest, x.1.length ≤ p.length + 1 := fun x hx => by
        have := hq.2 (p, .node i cs) (by simp) x (List.mem_cons_of_mem _ hx); simpa using this
      have hq' : QueueOk (rest ++ cs.map fun d => ((i :: p, d) : Entry)) := by
        refine ⟨depthSorted_append (depthSorted_cons hq.1) (depthSorted_const hk) ?_, ?_⟩
        · intro a ha b hb; rw [hk b hb]; exact hmax a ha
        · intro a ha b hb
          rcases List.mem_append.mp ha with ha | ha <;> rcases List.mem_append.mp hb with hb | hb
          · have := hhead a ha; have := hmax b hb; omega
          · rw [hk b hb]; have := hhead a ha; omega
          · rw [hk a ha]; have := hmax b hb; omega
          · rw [hk a ha, hk b hb]; omega
      obtain ⟨hs, hd⟩ := ih _ hq'
      -- everything the recursive call yields is deeper than p
      have htail : ∀ x ∈ bfsAux n (rest ++ cs.map fun d => ((i :: p, d) : Entry)), p.length + 1 ≤ x.1.length := by
        intro x hx
        cases hr : rest with
        | nil =>
          cases hc : cs with
          | nil => rw [hr, hc] at hx; simp [bfsAux_nil] at hx
          | cons c cs' =>
            have := hd (i :: p, c) (by simp [hr, hc]) x hx
            simp at this; omega
        | cons r rs =>
          have h1 := hd r (by simp [hr]) x hx
          have h2 := hhead r (by simp [hr])
          omega
      refine ⟨depthSorted_append (depthSorted_const hk) hs ?_, ?_⟩
      · intro a ha b hb; rw [hk a ha]; exact htail b hb
      · intro e he x hx
        simp at he; subst he
        rcases List.mem_append.mp hx with hx | hx
        · rw [hk x hx]; exact Nat.le_refl _
        · exact htail x hx

theorem bfs_depthSorted (f : Die) : DepthSorted (bfs f) :=
  (bfsAux_depth f.size [([], f)] ⟨trivial, by simp⟩).1

/-- in a depth-sorted list, the first element satisfying a predicate is at least as shallow as any other that does -/
theorem find_shallowest {l : List Entry} (hs : DepthSorted l) {pr : Entry → Bool} {v : Entry}
    (hv : l.find? pr = some v) : ∀ w ∈ l, pr w = true → v.1.length ≤ w.1.length := by
  induction l with
  | nil => simp at hv
  | cons a rest ih =>
    intro w hw hp
    rw [List.find?_cons] at hv
    cases ha : pr a with
    | true =>
      rw [ha] at hv; simp at hv; subst hv
      rcases List.mem_cons.mp hw with rfl | hw
      · exact Nat.le_refl _
      · exact depthSorted_head_le hs w hw
    | false =>
      rw [ha] at hv
      rcases List.mem_cons.mp hw with rfl | hw
      · rw [ha] at hp; cases hp
      · exact ih (depthSorted_cons hs) hv w hw hp

theorem depthSorted_of_forall {a : Entry} {l : List Entry} (h1 : ∀ x ∈ l, a.1.length ≤ x.1.length) (h2 : DepthSorted l) :
    DepthSorted (a :: l) := by
  cases l with
  | nil => trivial
  | cons b r => exact ⟨h1 b (by simp), h2⟩

theorem depthSorted_filter (p : Entry → Bool) {l : List Entry} (h : DepthSorted l) : DepthSorted (l.filter p) := by
  induction l with
  | nil => trivial
  | cons a rest ih =>
    have ih := ih (depthSorted_cons h)
    rw [List.filter_cons]
    split
    · exact depthSorted_of_forall (fun x hx => depthSorted_head_le h x (List.mem_filter.mp hx).1) ih
    · exact ih

/-- in a depth-sorted list the last element is a deepest one -/
theorem getLast_deepest {l : List Entry} (h : DepthSorted l) {v : Entry} (hv : l.getLast? = some v) :
    ∀ w ∈ l, w.1.length ≤ v.1.length := by
  induction l with
  | nil => simp at hv
  | cons a rest ih =>
    cases rest with
    | nil =>
      intro w hw
      simp at hv hw
      subst hv; subst hw; exact Nat.le_refl _
    | cons b r =>
      have hv' : (b :: r).getLast? = some v := by simpa [List.getLast?_cons_cons] using hv
      have ih := ih (depthSorted_cons h) hv'
      intro w hw
      rcases List.mem_cons.mp hw with rfl | hw
      · exact Nat.le_trans h.1 (ih b (by simp))
      · exact ih w hw

/-! ### small generic facts used by Props/C19 -/

theorem inRanges_iff (rs : List Range) (pc : Nat) : inRanges rs pc = true ↔ ∃ r ∈ rs, r.lo ≤ pc ∧ pc < r.hi := by
  simp [inRanges, Range.contains]

theorem isScope_iff (i : Info) : i.isScope = true ↔ (i.tag = Tag.block ∨ i.tag = Tag.subprogram) := by
  simp [Info.isScope]


theorem length_le_one_eq {α} {l : List α} (h : l.length ≤ 1) {a b : α} (ha : a ∈ l) (hb : b ∈ l) : a = b := by
  match l, h with
  | [x], _ => simp at ha hb; rw [ha, hb]
  | [], _ => simp at ha


theorem find_congr_on {α} {l : List α} {p q : α → Bool} (h : ∀ a ∈ l, p a = q a) : l.find? p = l.find? q := by
  induction l with
  | nil => rfl
  | cons a rest ih =>
    simp only [List.find?_cons, h a (by simp)]
    rw [ih (fun b hb => h b (List.mem_cons_of_mem _ hb))]


theorem insertAt_map {g : Option Nat → Option Nat} (xs : List (Option Nat)) (i : Nat) (v : Option Nat) :
    (insertAt xs i v).map g = insertAt (xs.map g) i (g v) := by
  simp [insertAt, List.map_take, List.map_drop]

/-- the positions `DwarfRegisterMap::from` writes to do not depend on the register VALUES: the map for arbitrary
    field values is the map for the labels 0,1,2,… with every label replaced by the field value -/
theorem dwarfMapFrom_natural (init : Nat) (ins : List (Nat × Nat)) (fields : List Nat) (k : Nat)
    (hk : ∀ p ∈ ins, p.2 < k) :
    dwarfMapFrom init ins fields = (dwarfMapFrom init ins (List.range k)).map (fun o => o.bind fun i => fields[i]?) := by
  unfold dwarfMapFrom
  suffices H : ∀ (acc : List (Option Nat)),
      ins.foldl (fun acc (p : Nat × Nat) => insertAt acc p.1 (fields[p.2]?)) (acc.map fun o => o.bind fun i => fields[i]?) =
      (ins.foldl (fun acc (p : Nat × Nat) => insertAt acc p.1 ((List.range k)[p.2]?)) acc).map (fun o => o.bind fun i => fields[i]?) by
    have := H (List.replicate init none)
    simpa using this
  induction ins with
  | nil => intro acc; rfl
  | cons p rest ih =>
    intro acc
    simp only [List.foldl_cons]
    have hp : p.2 < k := hk p (by simp)
    rw [← ih (fun q hq => hk q (List.mem_cons_of_mem _ hq))]
    congr 1
    rw [insertAt_map]
    congr 1
    simp [hp]


theorem join_map_bind (fields : List Nat) (o : Option (Option Nat)) :
    (o.map fun o => o.bind fun i => fields[i]?).join = o.join.bind fun i => fields[i]? := by
  cases o with
  | none => rfl
  | some o => cases o <;> rfl


end BsVerif.Scope
