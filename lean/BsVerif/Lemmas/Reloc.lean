import BsVerif.Model.Reloc
import BsVerif.Lemmas.Lines
/-!
Helper lemmas for C18 (core Lean only): what `update_mappings` stores per file, membership through the sort,
the binary search of `find_range`, the fold of `reload_plan`'s execution, the folds of `refresh_deferred`.
-/
namespace BsVerif.Reloc

/-! ## `update_mappings` -/

theorem regionOf_some {maps : List MapE} {o : Nat} {x : Range} (h : regionOf maps o = some x) :
    x.obj = o ∧ minLo (mapsOf maps o) = some x.lo := by
  unfold regionOf at h
  cases h1 : minLo (mapsOf maps o) with
  | none => simp [h1] at h
  | some lo =>
    cases h2 : maxEntry (mapsOf maps o) with
    | none => simp [h1, h2] at h
    | some e => simp [h1, h2] at h; subst h; simp

theorem regionOf_none {maps : List MapE} {o : Nat} (h : regionOf maps o = none) : minLo (mapsOf maps o) = none := by
  unfold regionOf at h
  cases hl : mapsOf maps o with
  | nil => simp [minLo]
  | cons m ms => simp [hl, minLo, maxEntry] at h

theorem regionOf_isSome_iff {maps : List MapE} {o : Nat} : (regionOf maps o).isSome ↔ mapsOf maps o ≠ [] := by
  unfold regionOf
  cases hl : mapsOf maps o with
  | nil => simp [minLo, maxEntry]
  | cons m ms => simp [minLo, maxEntry]

/-- the offset table built by `update_mappings`: a file that was considered gets the lowest start of its map lines -/
theorem lookup_regions (maps : List MapE) (o : Nat) : ∀ fs : List Nat,
    ((fs.filterMap (regionOf maps)).map (fun x => (x.obj, x.lo))).lookup o
      = if o ∈ fs then minLo (mapsOf maps o) else none
  | [] => by simp
  | f :: fs => by
    have ih := lookup_regions maps o fs
    cases hr : regionOf maps f with
    | none =>
      rw [List.filterMap_cons_none hr, ih]
      by_cases hof : o = f
      · subst hof; simp [regionOf_none hr]
      · simp [hof]
    | some x =>
      have hx := regionOf_some hr
      rw [List.filterMap_cons_some hr]
      simp only [List.map_cons, List.lookup_cons]
      by_cases hof : o = f
      · subst hof; simp [hx.1, hx.2]
      · have hne : (o == x.obj) = false := by simp [hx.1, hof]
        simp [hne, ih, hof]

theorem mem_insertByLo {x y : Range} : ∀ {l : List Range}, y ∈ insertByLo x l ↔ y = x ∨ y ∈ l
  | [] => by simp [insertByLo]
  | z :: zs => by
    unfold insertByLo
    by_cases h : x.lo ≤ z.lo
    · simp [h]
    · simp only [h, if_false, List.mem_cons]
      rw [mem_insertByLo (l := zs)]
      constructor
      · rintro (h1 | h1 | h1) <;> simp [h1]
      · rintro (h1 | h1 | h1) <;> simp [h1]

theorem mem_sortByLo {y : Range} : ∀ {l : List Range}, y ∈ sortByLo l ↔ y ∈ l
  | [] => by simp [sortByLo]
  | x :: xs => by
    have ih := mem_sortByLo (y := y) (l := xs)
    unfold sortByLo at ih ⊢
    simp only [List.foldr_cons, mem_insertByLo, ih, List.mem_cons]

/-- the files `update_mappings` looks at -/
def selected (r : Registry) (onlyMain : Bool) : List Nat :=
  if onlyMain then r.files.filter (fun f => f == r.program) else r.files

theorem offsetOfObj_updateMappings (r : Registry) (b : Bool) (maps : List MapE) (o : Nat) :
    (r.updateMappings b maps).offsetOfObj o = if o ∈ selected r b then minLo (mapsOf maps o) else none := by
  unfold Registry.offsetOfObj Registry.updateMappings selected
  exact lookup_regions maps o _

theorem mem_ranges_updateMappings {r : Registry} {b : Bool} {maps : List MapE} {x : Range}
    (h : x ∈ (r.updateMappings b maps).ranges) :
    x.obj ∈ selected r b ∧ regionOf maps x.obj = some x := by
  unfold Registry.updateMappings at h
  simp only [mem_sortByLo, List.mem_filterMap] at h
  obtain ⟨f, hf, hr⟩ := h
  have := (regionOf_some hr).1
  subst this
  exact ⟨by unfold selected; exact hf, hr⟩

/-- every stored range agrees with the stored offset of its file -/
theorem ranges_consistent {r : Registry} {b : Bool} {maps : List MapE} {x : Range}
    (h : x ∈ (r.updateMappings b maps).ranges) : (r.updateMappings b maps).offsetOfObj x.obj = some x.lo := by
  have ⟨hs, hr⟩ := mem_ranges_updateMappings h
  rw [offsetOfObj_updateMappings, if_pos hs]
  exact (regionOf_some hr).2

/-! ## `find_range` -/

/-- the ranges do not overlap and are listed in address order (the end of one may touch the start of the next) -/
def Sep (rs : List Range) : Prop := rs.Pairwise (fun a b => a.hi ≤ b.lo) ∧ ∀ x ∈ rs, x.lo < x.hi

theorem keyAt_lt {rs : List Range} {i : Nat} (h : i < rs.length) : keyAt rs i = rs[i].lo := by
  unfold keyAt
  simp [List.getElem?_eq_getElem h]

theorem Sep.sorted {rs : List Range} (hs : Sep rs) : Lines.SortedKey (keyAt rs) rs.length := by
  intro i j hij hj
  have hi : i < rs.length := by omega
  rw [keyAt_lt hi, keyAt_lt hj]
  by_cases he : i = j
  · subst he; exact Nat.le_refl _
  · have := (List.pairwise_iff_getElem.mp hs.1) i j hi hj (by omega)
    have := hs.2 rs[i] (List.getElem_mem hi)
    omega

theorem findRange_sound {rs : List Range} {a : Nat} {r : Range} (h : findRange rs a = some r) :
    r ∈ rs ∧ r.lo ≤ a ∧ a ≤ r.hi := by
  unfold findRange at h
  by_cases h0 : rs.length = 0
  · simp [h0] at h
  · simp only [h0, if_false] at h
    cases hb : rs[Lines.bsLoop (keyAt rs) a rs.length rs.length 0]? with
    | none => simp [hb] at h
    | some x =>
      simp only [hb] at h
      by_cases hc : x.lo ≤ a ∧ a ≤ x.hi
      · simp only [hc, and_self, if_true] at h
        injection h with h; subst h
        exact ⟨List.mem_of_getElem? hb, hc.1, hc.2⟩
      · simp [hc] at h

theorem findRange_complete {rs : List Range} {a : Nat} {r : Range} (hs : Sep rs) (hr : r ∈ rs)
    (h1 : r.lo ≤ a) (h2 : a < r.hi) : findRange rs a = some r := by
  obtain ⟨i, hi, hri⟩ := List.mem_iff_getElem.mp hr
  have hlen : 0 < rs.length := by omega
  have sp := Lines.bsLoop_spec (keyAt rs) a rs.length hs.sorted rs.length rs.length 0 (Nat.le_refl _) hlen (by omega)
    (by intro j hj hjl; omega)
  have hb : Lines.bsLoop (keyAt rs) a rs.length rs.length 0 < rs.length := by omega
  have hki : keyAt rs i = r.lo := by rw [keyAt_lt hi, hri]
  have hbi : Lines.bsLoop (keyAt rs) a rs.length rs.length 0 = i := by
    by_cases hlt : Lines.bsLoop (keyAt rs) a rs.length rs.length 0 < i
    · have := sp.2.2.1 i hlt hi
      omega
    · by_cases hgt : i < Lines.bsLoop (keyAt rs) a rs.length rs.length 0
      · have h0i : keyAt rs 0 ≤ keyAt rs i := hs.sorted 0 i (by omega) hi
        have hkb := sp.2.2.2.1 (by omega)
        rw [keyAt_lt hb] at hkb
        have := (List.pairwise_iff_getElem.mp hs.1) i _ hi hb hgt
        rw [hri] at this
        omega
      · omega
  unfold findRange
  have hne : ¬ rs.length = 0 := by omega
  simp only [hne, if_false, hbi, List.getElem?_eq_getElem hi, hri]
  have : r.lo ≤ a ∧ a ≤ r.hi := ⟨h1, by omega⟩
  simp [this]

/-! ## sorting non-overlapping extents -/

/-- extents that do not overlap, in any order -/
def Disj (rs : List Range) : Prop :=
  rs.Pairwise (fun a b => a.hi ≤ b.lo ∨ b.hi ≤ a.lo) ∧ ∀ x ∈ rs, x.lo < x.hi

theorem sep_insertByLo (x : Range) (hx : x.lo < x.hi) : ∀ (l : List Range), Sep l →
    (∀ y ∈ l, x.hi ≤ y.lo ∨ y.hi ≤ x.lo) → Sep (insertByLo x l)
  | [], _, _ => by
    unfold insertByLo
    exact ⟨by simp, by intro y hy; simp at hy; subst hy; exact hx⟩
  | y :: ys, hs, hd => by
    have hy : y.lo < y.hi := hs.2 y (by simp)
    have hpw := List.pairwise_cons.mp hs.1
    unfold insertByLo
    by_cases hle : x.lo ≤ y.lo
    · simp only [hle, if_true]
      refine ⟨List.pairwise_cons.mpr ⟨?_, hs.1⟩, ?_⟩
      · intro z hz
        rcases List.mem_cons.mp hz with hz | hz
        · subst hz
          rcases hd z (by simp) with h | h
          · exact h
          · omega
        · have h1 := hpw.1 z hz
          have hz' : z.lo < z.hi := hs.2 z (by simp [hz])
          rcases hd z (by simp [hz]) with h | h
          · exact h
          · omega
      · intro z hz
        rcases List.mem_cons.mp hz with hz | hz
        · subst hz; exact hx
        · exact hs.2 z hz
    · simp only [hle, if_false]
      have hs' : Sep ys := ⟨hpw.2, fun z hz => hs.2 z (by simp [hz])⟩
      have ih := sep_insertByLo x hx ys hs' (fun z hz => hd z (by simp [hz]))
      refine ⟨List.pairwise_cons.mpr ⟨?_, ih.1⟩, ?_⟩
      · intro w hw
        rcases mem_insertByLo.mp hw with hw | hw
        · subst hw
          rcases hd y (by simp) with h | h
          · omega
          · exact h
        · exact hpw.1 w hw
      · intro w hw
        rcases List.mem_cons.mp hw with hw | hw
        · subst hw; exact hy
        · exact ih.2 w hw

/-- sorting non-overlapping extents by their start puts them in address order -/
theorem sep_sortByLo : ∀ (l : List Range), Disj l → Sep (sortByLo l)
  | [], _ => ⟨by simp [sortByLo], by simp [sortByLo]⟩
  | x :: xs, hd => by
    have hpw := List.pairwise_cons.mp hd.1
    have ih := sep_sortByLo xs ⟨hpw.2, fun z hz => hd.2 z (by simp [hz])⟩
    have : sortByLo (x :: xs) = insertByLo x (sortByLo xs) := by simp [sortByLo]
    rw [this]
    exact sep_insertByLo x (hd.2 x (by simp)) _ ih (fun y hy => hpw.1 y (mem_sortByLo.mp hy))

/-! ## reload plan -/

theorem addFile_eq (k : List Nat) (a : Nat) : addFile k a = if a ∈ k then k else k ++ [a] := by
  unfold addFile; simp

theorem mem_foldl_addFile {x : Nat} : ∀ (l k : List Nat), x ∈ l.foldl addFile k ↔ x ∈ k ∨ x ∈ l
  | [], k => by simp
  | a :: l, k => by
    rw [List.foldl_cons, mem_foldl_addFile l, addFile_eq]
    by_cases h : a ∈ k
    · simp only [h, if_true, List.mem_cons]
      constructor
      · rintro (h1 | h1) <;> simp [h1]
      · rintro (h1 | h1 | h1)
        · exact Or.inl h1
        · subst h1; exact Or.inl h
        · exact Or.inr h1
    · simp only [h, if_false, List.mem_append, List.mem_cons, List.not_mem_nil, or_false]
      constructor
      · rintro ((h1 | h1) | h1)
        · exact Or.inl h1
        · exact Or.inr (Or.inl h1)
        · exact Or.inr (Or.inr h1)
      · rintro (h1 | h1 | h1)
        · exact Or.inl (Or.inl h1)
        · exact Or.inl (Or.inr h1)
        · exact Or.inr h1

theorem nodup_foldl_addFile : ∀ (l k : List Nat), k.Nodup → (l.foldl addFile k).Nodup
  | [], _, h => by simpa using h
  | a :: l, k, h => by
    rw [List.foldl_cons]
    apply nodup_foldl_addFile l
    rw [addFile_eq]
    by_cases hc : a ∈ k
    · simp only [hc, if_true]; exact h
    · simp only [hc, if_false]
      exact List.nodup_append.mpr ⟨h, by simp, by intro x hx y hy; simp at hy; subst hy; intro he; subst he; exact hc hx⟩

/-! ## deferred breakpoints -/

theorem mem_foldl_addActive {x : Nat} : ∀ (l k : List Nat), x ∈ l.foldl addActive k ↔ x ∈ k ∨ x ∈ l :=
  mem_foldl_addFile

theorem nodup_foldl_addActive : ∀ (l k : List Nat), k.Nodup → (l.foldl addActive k).Nodup :=
  nodup_foldl_addFile

theorem mem_refresh_active_aux (attempt : Nat → List Nat × Bool) (x : Nat) : ∀ (ds acc : List Nat),
    x ∈ ds.foldl (fun acc q => (attempt q).1.foldl addActive acc) acc ↔ x ∈ acc ∨ ∃ q ∈ ds, x ∈ (attempt q).1
  | [], acc => by simp
  | d :: ds, acc => by
    rw [List.foldl_cons, mem_refresh_active_aux attempt x ds, mem_foldl_addActive]
    constructor
    · rintro ((h | h) | ⟨q, hq, h⟩)
      · exact Or.inl h
      · exact Or.inr ⟨d, by simp, h⟩
      · exact Or.inr ⟨q, by simp [hq], h⟩
    · rintro (h | ⟨q, hq, h⟩)
      · exact Or.inl (Or.inl h)
      · rcases List.mem_cons.mp hq with he | hq
        · subst he; exact Or.inl (Or.inr h)
        · exact Or.inr ⟨q, hq, h⟩

theorem nodup_refresh_active_aux (attempt : Nat → List Nat × Bool) : ∀ (ds acc : List Nat), acc.Nodup →
    (ds.foldl (fun acc q => (attempt q).1.foldl addActive acc) acc).Nodup
  | [], _, h => by simpa using h
  | d :: ds, acc, h => by
    rw [List.foldl_cons]
    exact nodup_refresh_active_aux attempt ds _ (nodup_foldl_addActive _ _ h)

end BsVerif.Reloc
