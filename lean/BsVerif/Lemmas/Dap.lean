import BsVerif.Model.Dap
/-! Helper lemmas about the DAP models (no Mathlib). -/
namespace BsVerif.Dap

/-! ### responses of an answer = `respond` actions of the skeleton -/

@[simp] theorem resps_nil : resps [] = [] := rfl

@[simp] theorem resps_append (a b : List Msg) : resps (a ++ b) = resps a ++ resps b := by
  induction a with
  | nil => rfl
  | cons m r ih => cases m <;> simp [resps, ih]

@[simp] theorem resps_map_event {α : Type} (f : α → Ev) (l : List α) : resps (l.map (fun t => Msg.event (f t))) = [] := by
  induction l with
  | nil => rfl
  | cons a r ih => simp [resps, ih]

@[simp] theorem resps_sendAll (q : List IEv) : resps (sendAll q) = [] := by
  induction q with
  | nil => rfl
  | cons e r ih => cases e <;> simp [sendAll, resps, ih]

@[simp] theorem resps_processEnd (m : Bool) (c : List Nat) : resps (processEndMsgs m c) = [] := by
  cases m <;> simp [processEndMsgs, resps]

@[simp] theorem resps_drain (s : Sess) : resps (drain s).2 = [] := by
  unfold drain
  simp only
  split
  · rfl
  · split
    · simp [resps]
    · split <;> simp [resps]

@[simp] theorem respondActs_append (a b : List Act) : respondActs (a ++ b) = respondActs a ++ respondActs b := by
  induction a with
  | nil => rfl
  | cons x r ih => cases x <;> simp [respondActs, ih]

theorem resps_exec (r : Req) (acts : List Act) : ∀ s : Sess,
    resps (exec r s acts).2 = (respondActs acts).map (fun ok => Msg.resp r.cmd ok r.seq) := by
  induction acts with
  | nil => intro s; rfl
  | cons a rest ih =>
    intro s
    simp only [exec, resps_append, ih]
    cases a <;> simp [execAct, respondActs, resps]

@[simp] theorem respondActs_emitStop (h : Hint) : respondActs (emitStop h) = [] := by
  unfold emitStop; split <;> rfl

@[simp] theorem respondActs_manualStop (x : String) (h : Hint) : respondActs (manualStop x h) = [] := rfl

@[simp] theorem respondActs_terminateDebuggee : respondActs terminateDebuggee = [] := rfl

@[simp] theorem respondActs_progBracket : respondActs progBracket = [] := rfl

/-- the one response of `handle_stack_trace` past its first cancellation check: an error response iff one of
the progress ids it takes was cancelled ahead of time -/
def stOk (cp : List Nat) : Nat → Nat → Bool
  | _, 0 => true
  | next, n + 1 => if cp.contains next then false else stOk cp (next + 1) n

@[simp] theorem respondActs_stLoop (cp : List Nat) (n : Nat) : ∀ next, respondActs (stLoop cp next n) = [stOk cp next n] := by
  induction n with
  | zero => intro next; rfl
  | succ n ih =>
    intro next
    unfold stLoop stOk
    by_cases hc : next ∈ cp <;> simp [hc, respondActs, ih]

/-- skeleton-level: every command has exactly one `respond` in its skeleton (including the one added
by the rule of `run`) — cancelled requests included -/
theorem respondActs_fullPlan (s : Sess) (r : Req) (h : Hint) :
    ∃ ok, respondActs (fullPlan s r h) = [ok] := by
  unfold fullPlan plan
  cases hcmd : r.cmd <;> simp only []
  all_goals
    (repeat' split) <;> simp_all [respondActs, runRule, stepPlan, emitStop, terminateDebuggee, badArgs, query] <;>
      (repeat' split) <;> simp_all [respondActs, runRule]

/-! ### cancellation bookkeeping -/

theorem drain_cancelledReqs (x : Sess) : (drain x).1.cancelledReqs = x.cancelledReqs := by
  unfold drain; simp only; split
  · rfl
  · split
    · rfl
    · split <;> rfl

theorem insertSet_contains (n : Nat) (l : List Nat) : (insertSet n l).contains n = true := by
  unfold insertSet
  by_cases h : n ∈ l <;> simp [h]

/-! ### error, not silence -/

theorem mem_of_mem_resps (m : Msg) : ∀ out : List Msg, m ∈ resps out → m ∈ out := by
  intro out
  induction out with
  | nil => intro h; cases h
  | cons x r ih =>
    intro h
    cases x <;> simp [resps] at h ⊢
    · rcases h with h | h
      · exact Or.inl h
      · exact Or.inr (ih h)
    · exact Or.inr (ih h)
    · exact Or.inr (ih h)

theorem drain_alive (s : Sess) : (drain s).1.alive = s.alive := by
  unfold drain; simp only; split
  · rfl
  · split
    · rfl
    · split <;> rfl

theorem exec_alive (r : Req) (acts : List Act) : ∀ s : Sess, hasEnd acts = false →
    (exec r s acts).1.alive = s.alive := by
  induction acts with
  | nil => intro s _; rfl
  | cons a rest ih =>
    intro s h
    cases a <;> simp [hasEnd] at h <;> simp [exec, execAct, ih _ h, drain_alive]

@[simp] theorem hasEnd_append (a b : List Act) : hasEnd (a ++ b) = (hasEnd a || hasEnd b) := by
  induction a with
  | nil => rfl
  | cons x r ih => cases x <;> simp [hasEnd, ih]

@[simp] theorem hasEnd_emitStop (h : Hint) : hasEnd (emitStop h) = false := by
  unfold emitStop; split <;> rfl

@[simp] theorem hasEnd_manualStop (x : String) (h : Hint) : hasEnd (manualStop x h) = false := rfl
@[simp] theorem hasEnd_terminateDebuggee : hasEnd terminateDebuggee = false := rfl
@[simp] theorem hasEnd_progBracket : hasEnd progBracket = false := rfl

@[simp] theorem hasEnd_stLoop (cp : List Nat) (n : Nat) : ∀ next, hasEnd (stLoop cp next n) = false := by
  induction n with
  | zero => intro next; rfl
  | succ n ih =>
    intro next
    unfold stLoop
    by_cases hc : next ∈ cp <;> simp [hc, hasEnd, ih]

/-- commands that act on a debuggee -/
def needsDebuggee : Cmd → Bool
  | .setBreakpoints | .setFunctionBreakpoints | .setInstructionBreakpoints | .setDataBreakpoints
  | .configurationDone | .threads | .stackTrace | .scopes | .continue_ | .next
  | .stepIn | .stepOut | .pause | .evaluate | .setVariable | .restart | .restartFrame | .stepInTargets
  | .gotoTargets | .goto | .setExpression | .readMemory | .writeMemory | .disassemble
  | .breakpointLocations => true
  | _ => false

/-- commands the adapter never carries out: unknown to `dispatch`, or reverse execution -/
def alwaysFails : Cmd → Bool
  | .frobnicate | .stepBack | .reverseContinue => true
  | _ => false

/-- a request that cannot succeed (read from the protocol, not from the handlers): unknown / unsupported
command, required argument absent or ill-typed, target program / process missing, or no debuggee to act on -/
def mustFail (s : Sess) (r : Req) : Bool :=
  alwaysFails r.cmd || badArgs r.cmd r.mutn || ((r.cmd == .launch || r.cmd == .attach) && r.mutn == .nofile)
    || (needsDebuggee r.cmd && s.dbg == .none)

theorem fullPlan_mustFail (s : Sess) (r : Req) (h : Hint) (hf : mustFail s r = true) :
    false ∈ respondActs (fullPlan s r h) ∧ hasEnd (fullPlan s r h) = false := by
  unfold fullPlan plan
  unfold mustFail at hf
  cases hcmd : r.cmd <;> simp only [hcmd] at hf ⊢
  all_goals
    (try (repeat' split)) <;>
    (try simp_all [needsDebuggee, alwaysFails, requiresArg, argAbsent, respondActs, runRule, stepPlan, badArgs, hasEnd, query]) <;>
    (try (repeat' split)) <;> (try simp_all [respondActs, runRule, hasEnd])

theorem fullPlan_responds (s : Sess) (r : Req) (h : Hint) :
    respondActs (fullPlan s r h) ≠ [] ∧
      (hasEnd (fullPlan s r h) = true → r.cmd = .disconnect ∨ r.cmd = .terminate) := by
  unfold fullPlan plan
  cases hcmd : r.cmd <;> simp only [] <;>
    (repeat' split) <;> simp_all [respondActs, runRule, stepPlan, emitStop, terminateDebuggee, badArgs, hasEnd, query] <;>
      (repeat' split) <;> simp_all [respondActs, runRule, hasEnd]

/-! ### lifecycle monitor -/

theorem lifeRun_append (b : Bool) (a c : List Item) : ∀ st : Life,
    lifeRun b st (a ++ c) = (lifeRun b st a).bind (fun st' => lifeRun b st' c) := by
  induction a with
  | nil => intro st; rfl
  | cons i r ih =>
    intro st
    simp only [List.cons_append, lifeRun]
    cases lifeStep b st i with
    | none => rfl
    | some st' => exact ih st'

/-- messages that leave the monitor in `fresh` -/
def Msg.plain : Msg → Bool
  | .event .exited | .event .terminated => false
  | _ => true

theorem lifeRun_plain (b : Bool) (l : List Msg) (hl : ∀ m ∈ l, m.plain = true) :
    lifeRun b .fresh (l.map Item.msg) = some .fresh := by
  induction l with
  | nil => rfl
  | cons m r ih =>
    have hm := hl m (List.mem_cons_self ..)
    have hr : ∀ x ∈ r, x.plain = true := fun x hx => hl x (List.mem_cons_of_mem _ hx)
    simp only [List.map_cons, lifeRun]
    have : lifeStep b .fresh (Item.msg m) = some .fresh := by
      cases m with
      | resp c ok q => rfl
      | sessionEnd => rfl
      | event e => cases e <;> first | rfl | simp [Msg.plain] at hm
    rw [this]; exact ih hr

theorem sendAll_plain (q : List IEv) : ∀ m ∈ sendAll q, m.plain = true := by
  induction q with
  | nil => intro m hm; cases hm
  | cons e r ih =>
    intro m hm
    cases e with
    | ev e => simp [sendAll] at hm; rcases hm with rfl | hm; rfl; exact ih m hm
    | exited => exact ih m hm
    | terminated => exact ih m hm

theorem processEnd_plain (mi : Bool) (c : List Nat) : ∀ m ∈ processEndMsgs mi c, m.plain = true := by
  intro m hm
  unfold processEndMsgs at hm
  cases mi <;> simp at hm
  · obtain ⟨_, _, rfl⟩ := hm; rfl
  · rcases hm with rfl | rfl | ⟨_, _, rfl⟩ <;> rfl

/-- the invariant linking the monitor state to the `terminated` latch -/
def Inv (st : Life) (s : Sess) : Prop := st ≠ .exited ∧ (st = .terminated → s.terminated = true)

theorem drain_life (b : Bool) (s : Sess) (st : Life) (hi : Inv st s) :
    ∃ st', lifeRun b st ((drain s).2.map Item.msg) = some st' ∧ Inv st' (drain s).1 := by
  obtain ⟨h1, h2⟩ := hi
  unfold drain
  simp only
  split
  · exact ⟨st, rfl, h1, fun _ => by assumption⟩
  · rename_i ht
    have hst : st = .fresh := by
      cases st with
      | fresh => rfl
      | exited => exact absurd rfl h1
      | terminated => exact absurd (h2 rfl) (by simpa using ht)
    subst hst
    split
    · refine ⟨.terminated, ?_, by simp [Inv]⟩
      rw [List.map_append, lifeRun_append, lifeRun_plain b _ (processEnd_plain _ _)]
      rfl
    · split
      · refine ⟨.terminated, ?_, by simp [Inv]⟩
        rw [List.map_append, lifeRun_append, lifeRun_plain b _ (processEnd_plain _ _)]
        rfl
      · exact ⟨.fresh, lifeRun_plain b _ (sendAll_plain _), by simp [Inv]⟩

theorem execAct_life (b : Bool) (r : Req) (s : Sess) (a : Act) (st : Life) (hi : Inv st s)
    (ha : hasReset [a] = false) :
    ∃ st', lifeRun b st ((execAct r s a).2.map Item.msg) = some st' ∧ Inv st' (execAct r s a).1 := by
  cases a with
  | drain => exact drain_life b s st hi
  | resetLatch => simp [hasReset] at ha
  | respond ok =>
    refine ⟨st, ?_, hi⟩
    obtain ⟨h1, _⟩ := hi
    cases st <;> first | rfl | exact absurd rfl h1
  | endSession =>
    refine ⟨st, ?_, hi⟩
    obtain ⟨h1, _⟩ := hi
    cases st <;> first | rfl | exact absurd rfl h1
  | _ => exact ⟨st, rfl, hi⟩

theorem exec_life (b : Bool) (r : Req) (acts : List Act) : ∀ (s : Sess) (st : Life), Inv st s → hasReset acts = false →
    ∃ st', lifeRun b st ((exec r s acts).2.map Item.msg) = some st' ∧ Inv st' (exec r s acts).1 := by
  induction acts with
  | nil => intro s st hi _; exact ⟨st, rfl, hi⟩
  | cons a rest ih =>
    intro s st hi hr
    have ha : hasReset [a] = false := by cases a <;> simp_all [hasReset]
    have hrest : hasReset rest = false := by cases a <;> simp_all [hasReset]
    obtain ⟨st1, e1, i1⟩ := execAct_life b r s a st hi ha
    obtain ⟨st2, e2, i2⟩ := ih (execAct r s a).1 st1 i1 hrest
    refine ⟨st2, ?_, i2⟩
    simp only [exec, List.map_append, lifeRun_append, e1, Option.bind]
    exact e2

@[simp] theorem hasReset_append (a b : List Act) : hasReset (a ++ b) = (hasReset a || hasReset b) := by
  induction a with
  | nil => rfl
  | cons x r ih => cases x <;> simp [hasReset, ih]

@[simp] theorem hasReset_emitStop (h : Hint) : hasReset (emitStop h) = false := by
  unfold emitStop; split <;> rfl

@[simp] theorem hasReset_manualStop (x : String) (h : Hint) : hasReset (manualStop x h) = false := rfl
@[simp] theorem hasReset_terminateDebuggee : hasReset terminateDebuggee = false := rfl
@[simp] theorem hasReset_progBracket : hasReset progBracket = false := rfl

@[simp] theorem hasReset_stLoop (cp : List Nat) (n : Nat) : ∀ next, hasReset (stLoop cp next n) = false := by
  induction n with
  | zero => intro next; rfl
  | succ n ih =>
    intro next
    unfold stLoop
    by_cases hc : next ∈ cp <;> simp [hc, hasReset, ih]

/-- only `launch` / `attach` reset the latch, and they do so as their first action (or not at all) -/
theorem fullPlan_reset (s : Sess) (r : Req) (h : Hint) :
    hasReset (fullPlan s r h) = false ∨
      ((r.cmd = .launch ∨ r.cmd = .attach) ∧ ∃ rest, fullPlan s r h = .resetLatch :: rest ∧ hasReset rest = false) := by
  unfold fullPlan plan
  cases hcmd : r.cmd <;> simp only []
  all_goals
    (try (repeat' split)) <;>
    (try simp_all [runRule, stepPlan, badArgs, hasReset, terminateDebuggee, query]) <;>
    (try (repeat' split)) <;> (try simp_all [runRule, hasReset])

theorem step_life (b : Bool) (s s' : Sess) (r : Req) (h : Hint) (out : List Msg) (st : Life) (hi : Inv st s)
    (hs : runStep s r h = some (s', out)) :
    ∃ st', lifeRun b st (Item.req r.cmd :: out.map Item.msg) = some st' ∧ Inv st' s' := by
  unfold runStep at hs
  split at hs
  · injection hs with hs
    have hs1 : (exec r s (fullPlan s r h)).1 = s' := congrArg Prod.fst hs
    have hs2 : (exec r s (fullPlan s r h)).2 = out := congrArg Prod.snd hs
    rcases fullPlan_reset s r h with hr | ⟨hc, rest, hp, hr⟩
    · -- no reset: the request item leaves the state, or makes it `fresh`
      have hreq : ∃ st0, lifeStep b st (Item.req r.cmd) = some st0 ∧ Inv st0 s := by
        obtain ⟨h1, h2⟩ := hi
        cases hcmd : r.cmd <;> cases st <;>
          first
          | exact absurd rfl h1
          | exact ⟨_, rfl, ⟨by decide, fun hh => h2 hh⟩⟩
          | exact ⟨_, rfl, ⟨by decide, fun hh => nomatch hh⟩⟩
      obtain ⟨st0, e0, i0⟩ := hreq
      obtain ⟨st1, e1, i1⟩ := exec_life b r (fullPlan s r h) s st0 i0 hr
      refine ⟨st1, ?_, hs1 ▸ i1⟩
      simp only [lifeRun, e0]
      rw [← hs2]; exact e1
    · have hreq : lifeStep b st (Item.req r.cmd) = some .fresh := by
        obtain ⟨h1, _⟩ := hi
        rcases hc with hc | hc <;> rw [hc] <;> cases st <;> first | rfl | exact absurd rfl h1
      have i0 : Inv .fresh { s with terminated := false } := by simp [Inv]
      obtain ⟨st1, e1, i1⟩ := exec_life b r rest { s with terminated := false } .fresh i0 hr
      have hex : exec r s (fullPlan s r h) = exec r { s with terminated := false } rest := by
        rw [hp]; simp [exec, execAct]
      refine ⟨st1, ?_, ?_⟩
      · simp only [lifeRun, hreq]
        rw [← hs2, hex]; exact e1
      · rw [← hs1, hex]; exact i1
  · cases hs

theorem trace_life (b : Bool) (hist : List (Req × Hint)) : ∀ (s : Sess) (st : Life), Inv st s →
    ∃ st', lifeRun b st (trace s hist) = some st' := by
  induction hist with
  | nil => intro s st _; exact ⟨st, rfl⟩
  | cons rh rest ih =>
    intro s st hi
    obtain ⟨r, h⟩ := rh
    unfold trace
    cases hs : runStep s r h with
    | none => exact ih s st hi
    | some p =>
      obtain ⟨s', out⟩ := p
      obtain ⟨st1, e1, i1⟩ := step_life b s s' r h out st hi hs
      obtain ⟨st2, e2⟩ := ih s' st1 i1
      refine ⟨st2, ?_⟩
      have : Item.req r.cmd :: (out.map Item.msg ++ trace s' rest) = (Item.req r.cmd :: out.map Item.msg) ++ trace s' rest := rfl
      simp only [this, lifeRun_append, e1, Option.bind]
      exact e2

/-- the combined monitor refines the two simpler ones -/
theorem once_of_life (b : Bool) (l : List Item) : ∀ st st', lifeRun b st l = some st' → onceRun st l = some st' := by
  induction l with
  | nil => intro st st' h; exact h
  | cons i r ih =>
    intro st st' h
    simp only [lifeRun] at h
    cases hs : lifeStep b st i with
    | none => simp [hs] at h
    | some st1 =>
      simp only [hs] at h
      have : onceStep st i = some st1 := by
        cases i with
        | req c => cases c <;> cases st <;> simp_all [lifeStep, onceStep] <;> (try subst_vars) <;> (try decide)
        | msg m =>
          cases m with
          | resp c ok q => cases st <;> simp_all [lifeStep, onceStep] <;> (try subst_vars) <;> (try decide)
          | sessionEnd => cases st <;> simp_all [lifeStep, onceStep] <;> (try subst_vars) <;> (try decide)
          | event e => cases e <;> cases st <;> cases b <;> simp_all [lifeStep, onceStep] <;> (try subst_vars) <;> (try decide)
      simp only [onceRun, this]
      exact ih st1 st' h

theorem silent_of_life (b : Bool) (l : List Item) : ∀ st st', lifeRun b st l = some st' →
    silentRun b (decide (st = .terminated)) l = some (decide (st' = .terminated)) := by
  induction l with
  | nil => intro st st' h; simp only [lifeRun] at h; cases h; rfl
  | cons i r ih =>
    intro st st' h
    simp only [lifeRun] at h
    cases hs : lifeStep b st i with
    | none => simp [hs] at h
    | some st1 =>
      simp only [hs] at h
      have : silentStep b (decide (st = .terminated)) i = some (decide (st1 = .terminated)) := by
        cases i with
        | req c => cases c <;> cases st <;> simp_all [lifeStep, silentStep] <;> (try subst_vars) <;> (try decide)
        | msg m =>
          cases m with
          | resp c ok q => cases st <;> simp_all [lifeStep, silentStep] <;> (try subst_vars) <;> (try decide)
          | sessionEnd => cases st <;> simp_all [lifeStep, silentStep] <;> (try subst_vars) <;> (try decide)
          | event e => cases e <;> cases st <;> cases b <;> simp_all [lifeStep, silentStep] <;> (try subst_vars) <;> (try decide)
      simp only [silentRun, this]
      exact ih st1 st' h

end BsVerif.Dap

/-! ### writer model -/
namespace BsVerif.Dap.Writer

theorem iota_append (n : Nat) : ∀ a : Nat, iota a n ++ [a + n] = iota a (n + 1) := by
  induction n with
  | zero => intro a; rfl
  | succ n ih =>
    intro a
    have h := ih (a + 1)
    have e : a + 1 + n = a + (n + 1) := by omega
    rw [e] at h
    simp only [iota, List.cons_append, h]

theorem iota_lt (n : Nat) : ∀ a x : Nat, x ∈ iota a n → a ≤ x := by
  induction n with
  | zero => intro a x h; cases h
  | succ n ih =>
    intro a x h
    simp only [iota, List.mem_cons] at h
    rcases h with rfl | h
    · exact Nat.le_refl _
    · have := ih (a + 1) x h; omega

theorem iota_nodup (n : Nat) : ∀ a : Nat, (iota a n).Nodup := by
  induction n with
  | zero => intro a; exact List.nodup_nil
  | succ n ih =>
    intro a
    simp only [iota, List.nodup_cons]
    refine ⟨?_, ih (a + 1)⟩
    intro h
    have := iota_lt n (a + 1) a h
    omega

theorem iota_length (n : Nat) : ∀ a : Nat, (iota a n).length = n := by
  induction n with
  | zero => intro a; rfl
  | succ n ih => intro a; simp [iota, ih]

/-- invariant of the writers, for EVERY interleaving: the wire reads `1..k`; the counter is `k+1`
when the transport is free, and when a writer holds the lock it holds the number `k+1` (counter `k+2`) -/
def LInv (s : St) (k : Nat) : Prop :=
  s.wire.map (·.seq) = iota 1 k ∧
    match s.holder with
    | none => s.next = k + 1
    | some (_, n) => n = k + 1 ∧ s.next = k + 2

theorem linv_init : LInv {} 0 := ⟨rfl, rfl⟩

theorem linv_step (s : St) (w k : Nat) (h : LInv s k) : ∃ k', LInv (step s w) k' := by
  obtain ⟨hw, hh⟩ := h
  unfold step
  cases hold : s.holder with
  | none =>
    rw [hold] at hh
    exact ⟨k, hw, by simp only; omega⟩
  | some p =>
    obtain ⟨v, n⟩ := p
    rw [hold] at hh
    simp only at hh
    by_cases hv : v = w
    · refine ⟨k + 1, ?_, ?_⟩
      · simp only [hv, if_true, List.map_append, List.map_cons, List.map_nil, hw, hh.1]
        have := iota_append k 1; rw [Nat.add_comm 1 k] at this; exact this
      · simp only [hv, if_true]; omega
    · refine ⟨k, ?_, ?_⟩
      · simp only [hv, if_false]; exact hw
      · simp only [hv, if_false, hold]; exact hh

theorem linv_run (sched : List Nat) : ∀ (s : St) (k : Nat), LInv s k → ∃ k', LInv (sched.foldl step s) k' := by
  induction sched with
  | nil => intro s k h; exact ⟨k, h⟩
  | cons w r ih =>
    intro s k h
    obtain ⟨k1, h1⟩ := linv_step s w k h
    exact ih _ k1 h1

/-! #### the latch shared with the forwarders -/

/-- a session message written while the latch was set -/
def isLatched (m : Nat × Bool) : Bool := m.1 = 0 && m.2

theorem quiet_append_session (x : Nat × Bool) (hx : x.1 = 0) : ∀ l : List (Nat × Bool),
    quietAfterLatched l = true → quietAfterLatched (l ++ [x]) = true := by
  intro l
  induction l with
  | nil => intro _; simp [quietAfterLatched]
  | cons m r ih =>
    intro h
    obtain ⟨w, b⟩ := m
    simp only [List.cons_append, quietAfterLatched] at h ⊢
    split
    · rename_i hc
      rw [if_pos hc] at h
      simp only [List.all_append, h, List.all_cons, List.all_nil, Bool.and_true, Bool.true_and]
      simpa using hx
    · rename_i hc
      rw [if_neg hc] at h
      exact ih h

theorem quiet_append_unlatched (x : Nat × Bool) : ∀ l : List (Nat × Bool),
    (∀ m ∈ l, isLatched m = false) → quietAfterLatched (l ++ [x]) = true := by
  intro l
  induction l with
  | nil => intro _; simp [quietAfterLatched]
  | cons m r ih =>
    intro h
    obtain ⟨w, b⟩ := m
    have hm : isLatched (w, b) = false := h (w, b) (List.mem_cons_self ..)
    have hr : ∀ m ∈ r, isLatched m = false := fun m hm => h m (List.mem_cons_of_mem _ hm)
    simp only [List.cons_append, quietAfterLatched]
    have hc : ¬ ((decide (w = 0) && b) = true) := by simpa [isLatched] using hm
    rw [if_neg hc]
    exact ih hr

/-- invariant, for EVERY interleaving: the wire is quiet after a latched session message, and once there
is one the latch is set and no forwarder is about to write -/
def QInv (s : LSt) : Prop :=
  quietAfterLatched s.wire = true ∧
    ((∃ m ∈ s.wire, isLatched m = true) →
      s.latch = true ∧ ∀ v go, s.holder = some (v, go) → go = true → v = 0)

theorem qinv_init : QInv {} := by
  refine ⟨rfl, ?_⟩
  rintro ⟨m, hm, _⟩
  cases hm

theorem qinv_step (s : LSt) (a : LAct) (h : QInv s) : QInv (lstep s a) := by
  obtain ⟨hq, hj⟩ := h
  cases a with
  | setLatch =>
    refine ⟨hq, fun hex => ⟨rfl, (hj hex).2⟩⟩
  | lock w =>
    unfold lstep
    cases hh : s.holder with
    | some p => simp only; exact ⟨hq, fun hex => hj hex⟩
    | none =>
      simp only
      refine ⟨hq, fun hex => ⟨(hj hex).1, ?_⟩⟩
      intro v go hv hgo
      have hl := (hj hex).1
      simp only [Option.some.injEq, Prod.mk.injEq] at hv
      obtain ⟨rfl, rfl⟩ := hv
      simpa [hl] using hgo
  | write w =>
    unfold lstep
    cases hh : s.holder with
    | none => simp only; exact ⟨hq, fun hex => hj hex⟩
    | some p =>
      obtain ⟨v, go⟩ := p
      simp only
      by_cases hv : v = w
      · rw [if_pos hv]
        cases go with
        | false =>
          refine ⟨hq, fun hex => ⟨(hj hex).1, ?_⟩⟩
          intro v' go' hv'
          cases hv'
        | true =>
          simp only [if_true]
          by_cases hex : ∃ m ∈ s.wire, isLatched m = true
          · have hw0 : w = 0 := by rw [← hv]; exact (hj hex).2 v true hh rfl
            refine ⟨quiet_append_session _ (by simpa using hw0) _ hq, fun _ => ⟨(hj hex).1, ?_⟩⟩
            intro v' go' hv'
            cases hv'
          · have hun : ∀ m ∈ s.wire, isLatched m = false := by
              intro m hm
              cases hl : isLatched m with
              | false => rfl
              | true => exact absurd ⟨m, hm, hl⟩ hex
            refine ⟨quiet_append_unlatched _ _ hun, ?_⟩
            rintro ⟨m, hm, hml⟩
            refine ⟨?_, ?_⟩
            · rcases List.mem_append.mp hm with hm | hm
              · rw [hun m hm] at hml; cases hml
              · simp only [List.mem_singleton] at hm
                subst hm
                simp only [isLatched, Bool.and_eq_true, decide_eq_true_eq] at hml
                exact hml.2.2
            · intro v' go' hv'
              cases hv'
      · rw [if_neg hv]
        exact ⟨hq, fun hex => hj hex⟩

theorem qinv_run (acts : List LAct) : ∀ s, QInv s → QInv (acts.foldl lstep s) := by
  induction acts with
  | nil => intro s h; exact h
  | cons a r ih => intro s h; exact ih _ (qinv_step s a h)

end BsVerif.Dap.Writer
