import BsVerif.Model.Dr
/-!
Bit-level lemmas about the DR7 / DR6 model, stated against the Intel SDM layout written down independently of the
extracted tables:  L_i = bit 2i, G_i = bit 2i+1, LE = bit 8, GE = bit 9, RW_i = bits 16+4i..17+4i,
LEN_i = bits 18+4i..19+4i;  DR6: B_i = bit i.
-/
namespace BsVerif.Dr
open BsVerif.Gen.Dr

/-- bit `i` of `d` as a number -/
def bitN (d i : Nat) : Nat := d / 2 ^ i % 2

/-- Intel layout of DR7 -/
def L (d i : Nat) : Nat := bitN d (2 * i)
def G (d i : Nat) : Nat := bitN d (2 * i + 1)
def LE (d : Nat) : Nat := bitN d 8
def GE (d : Nat) : Nat := bitN d 9
def RW (d i : Nat) : Nat := d / 2 ^ (16 + 4 * i) % 4
def LEN (d i : Nat) : Nat := d / 2 ^ (18 + 4 * i) % 4

theorem slot_cases {i : Nat} (h : i < 4) : i = 0 ∨ i = 1 ∨ i = 2 ∨ i = 3 := by omega

theorem cond_code_lt (c : BreakCondition) : c.code < 4 := by cases c <;> decide
theorem size_code_lt (s : BreakSize) : s.code < 4 := by cases s <;> decide

theorem getBit_eq (d i : Nat) : getBit d i = (bitN d i == 1) := rfl

/-- `dr_enabled(i, false)` reads L_i, `dr_enabled(i, true)` reads G_i -/
theorem drEnabled_local {d i : Nat} (h : i < 4) : drEnabled d i false = (L d i == 1) := by
  rcases slot_cases h with h | h | h | h <;> subst h <;> rfl
theorem drEnabled_global {d i : Nat} (h : i < 4) : drEnabled d i true = (G d i == 1) := by
  rcases slot_cases h with h | h | h | h <;> subst h <;> rfl

theorem bitN_lt (d i : Nat) : bitN d i < 2 := by unfold bitN; omega
theorem L_lt (d i : Nat) : L d i < 2 := bitN_lt _ _
theorem L_cases (d i : Nat) : L d i = 0 ∨ L d i = 1 := by have := L_lt d i; omega

/-! ### configure_bp -/

theorem configureBp_eq (d k : Nat) (c : BreakCondition) (s : BreakSize) :
    configureBp d k c s =
      (let d1 := d - (d / 2 ^ (16 + k * 4) % 4) * 2 ^ (16 + k * 4) + c.code * 2 ^ (16 + k * 4)
       d1 - (d1 / 2 ^ (18 + k * 4) % 4) * 2 ^ (18 + k * 4) + s.code * 2 ^ (18 + k * 4)) := rfl

theorem configureBp_RW_same {d k : Nat} (hk : k < 4) (c : BreakCondition) (s : BreakSize) :
    RW (configureBp d k c s) k = c.code := by
  have hc := cond_code_lt c; have hs := size_code_lt s
  rw [configureBp_eq]; generalize c.code = cv at *; generalize s.code = sv at *
  rcases slot_cases hk with h | h | h | h <;> subst h <;> simp only [RW, Nat.reducePow, Nat.reduceMul, Nat.reduceAdd] <;> omega

theorem configureBp_LEN_same {d k : Nat} (hk : k < 4) (c : BreakCondition) (s : BreakSize) :
    LEN (configureBp d k c s) k = s.code := by
  have hc := cond_code_lt c; have hs := size_code_lt s
  rw [configureBp_eq]; generalize c.code = cv at *; generalize s.code = sv at *
  rcases slot_cases hk with h | h | h | h <;> subst h <;> simp only [LEN, Nat.reducePow, Nat.reduceMul, Nat.reduceAdd] <;> omega

theorem configureBp_RW_other {d k i : Nat} (hk : k < 4) (hi : i < 4) (hne : i ≠ k) (c : BreakCondition) (s : BreakSize) :
    RW (configureBp d k c s) i = RW d i := by
  have hc := cond_code_lt c; have hs := size_code_lt s
  rw [configureBp_eq]; generalize c.code = cv at *; generalize s.code = sv at *
  rcases slot_cases hk with h | h | h | h <;> subst h <;> rcases slot_cases hi with h | h | h | h <;> subst h <;>
    first | (exact absurd rfl hne) | (simp only [RW, Nat.reducePow, Nat.reduceMul, Nat.reduceAdd]; omega)

theorem configureBp_LEN_other {d k i : Nat} (hk : k < 4) (hi : i < 4) (hne : i ≠ k) (c : BreakCondition) (s : BreakSize) :
    LEN (configureBp d k c s) i = LEN d i := by
  have hc := cond_code_lt c; have hs := size_code_lt s
  rw [configureBp_eq]; generalize c.code = cv at *; generalize s.code = sv at *
  rcases slot_cases hk with h | h | h | h <;> subst h <;> rcases slot_cases hi with h | h | h | h <;> subst h <;>
    first | (exact absurd rfl hne) | (simp only [LEN, Nat.reducePow, Nat.reduceMul, Nat.reduceAdd]; omega)

/-- configure_bp leaves the low 16 bits (enable bits, LE, GE, ...) alone -/
theorem configureBp_low {d k : Nat} (hk : k < 4) (c : BreakCondition) (s : BreakSize) :
    configureBp d k c s % 65536 = d % 65536 := by
  have hc := cond_code_lt c; have hs := size_code_lt s
  rw [configureBp_eq]; generalize c.code = cv at *; generalize s.code = sv at *
  rcases slot_cases hk with h | h | h | h <;> subst h <;> simp only [Nat.reducePow, Nat.reduceMul, Nat.reduceAdd] <;> omega

theorem bitN_of_low {d d' j : Nat} (h : d' % 65536 = d % 65536) (hj : j < 10) : bitN d' j = bitN d j := by
  have : j = 0 ∨ j = 1 ∨ j = 2 ∨ j = 3 ∨ j = 4 ∨ j = 5 ∨ j = 6 ∨ j = 7 ∨ j = 8 ∨ j = 9 := by omega
  rcases this with h | h | h | h | h | h | h | h | h | h <;> subst h <;> simp only [bitN, Nat.reducePow] <;> omega

theorem configureBp_L {d k i : Nat} (hk : k < 4) (hi : i < 4) (c : BreakCondition) (s : BreakSize) :
    L (configureBp d k c s) i = L d i := bitN_of_low (configureBp_low hk c s) (by omega)
theorem configureBp_G {d k i : Nat} (hk : k < 4) (hi : i < 4) (c : BreakCondition) (s : BreakSize) :
    G (configureBp d k c s) i = G d i := bitN_of_low (configureBp_low hk c s) (by omega)
theorem configureBp_LE {d k : Nat} (hk : k < 4) (c : BreakCondition) (s : BreakSize) :
    LE (configureBp d k c s) = LE d := bitN_of_low (configureBp_low hk c s) (by omega)
theorem configureBp_GE {d k : Nat} (hk : k < 4) (c : BreakCondition) (s : BreakSize) :
    GE (configureBp d k c s) = GE d := bitN_of_low (configureBp_low hk c s) (by omega)


def allDis (d : Nat) : Bool := allDisabledScan.all (fun n => !drEnabled d n false)

theorem allDis_iff (d : Nat) : allDis d = true ↔ (L d 0 = 0 ∧ L d 1 = 0 ∧ L d 2 = 0 ∧ L d 3 = 0) := by
  have h0 := L_cases d 0; have h1 := L_cases d 1; have h2 := L_cases d 2; have h3 := L_cases d 3
  simp only [allDis, allDisabledScan, List.all_cons, List.all_nil, Bool.and_true, Bool.and_eq_true,
    Bool.not_eq_true', drEnabled_local (show 0 < 4 by omega), drEnabled_local (show 1 < 4 by omega),
    drEnabled_local (show 2 < 4 by omega), drEnabled_local (show 3 < 4 by omega), beq_eq_false_iff_ne, ne_eq]
  omega

theorem setDr_enable_eq (d k : Nat) : setDr d k false true = setBit (setBit d (k * 2 + 0) true) 8 true := rfl
theorem setDr_disable_eq (d k : Nat) : setDr d k false false =
    (if allDis (setBit d (k * 2 + 0) false) then setBit (setBit d (k * 2 + 0) false) 8 false else setBit d (k * 2 + 0) false) := rfl

theorem setBit_true_eq (x i : Nat) : setBit x i true = x - (x / 2 ^ i % 2) * 2 ^ i + 2 ^ i := rfl
theorem setBit_false_eq (x i : Nat) : setBit x i false = x - (x / 2 ^ i % 2) * 2 ^ i := rfl

theorem RW_of_high {d d' i : Nat} (h : d' / 65536 = d / 65536) (hi : i < 4) : RW d' i = RW d i := by
  rcases slot_cases hi with h | h | h | h <;> subst h <;> simp only [RW, Nat.reducePow, Nat.reduceMul, Nat.reduceAdd] <;> omega
theorem LEN_of_high {d d' i : Nat} (h : d' / 65536 = d / 65536) (hi : i < 4) : LEN d' i = LEN d i := by
  rcases slot_cases hi with h | h | h | h <;> subst h <;> simp only [LEN, Nat.reducePow, Nat.reduceMul, Nat.reduceAdd] <;> omega

/-! ### set_dr(k, local, enable) -/
theorem setDr_enable_L_same {d k : Nat} (hk : k < 4) : L (setDr d k false true) k = 1 := by
  rw [setDr_enable_eq, setBit_true_eq, setBit_true_eq]
  rcases slot_cases hk with h | h | h | h <;> subst h <;> simp only [L, bitN, Nat.reducePow, Nat.reduceMul, Nat.reduceAdd] <;> omega

theorem setDr_enable_L_other {d k i : Nat} (hk : k < 4) (hi : i < 4) (hne : i ≠ k) : L (setDr d k false true) i = L d i := by
  rw [setDr_enable_eq, setBit_true_eq, setBit_true_eq]
  rcases slot_cases hk with h | h | h | h <;> subst h <;> rcases slot_cases hi with h | h | h | h <;> subst h <;>
    first | (exact absurd rfl hne) | (simp only [L, bitN, Nat.reducePow, Nat.reduceMul, Nat.reduceAdd]; omega)

theorem setDr_enable_G {d k i : Nat} (hk : k < 4) (hi : i < 4) : G (setDr d k false true) i = G d i := by
  rw [setDr_enable_eq, setBit_true_eq, setBit_true_eq]
  rcases slot_cases hk with h | h | h | h <;> subst h <;> rcases slot_cases hi with h | h | h | h <;> subst h <;>
    (simp only [G, bitN, Nat.reducePow, Nat.reduceMul, Nat.reduceAdd]; omega)

theorem setDr_enable_LE {d k : Nat} (hk : k < 4) : LE (setDr d k false true) = 1 := by
  rw [setDr_enable_eq, setBit_true_eq, setBit_true_eq]
  rcases slot_cases hk with h | h | h | h <;> subst h <;> simp only [LE, bitN, Nat.reducePow, Nat.reduceMul, Nat.reduceAdd] <;> omega

theorem setDr_enable_GE {d k : Nat} (hk : k < 4) : GE (setDr d k false true) = GE d := by
  rw [setDr_enable_eq, setBit_true_eq, setBit_true_eq]
  rcases slot_cases hk with h | h | h | h <;> subst h <;> simp only [GE, bitN, Nat.reducePow, Nat.reduceMul, Nat.reduceAdd] <;> omega

theorem setDr_enable_high {d k : Nat} (hk : k < 4) : setDr d k false true / 65536 = d / 65536 := by
  rw [setDr_enable_eq, setBit_true_eq, setBit_true_eq]
  rcases slot_cases hk with h | h | h | h <;> subst h <;> simp only [Nat.reducePow, Nat.reduceMul, Nat.reduceAdd] <;> omega

/-! ### set_dr(k, local, disable) -/
theorem setDr_disable_L_same {d k : Nat} (hk : k < 4) : L (setDr d k false false) k = 0 := by
  rw [setDr_disable_eq]; split <;> simp only [setBit_false_eq] <;>
  (rcases slot_cases hk with h | h | h | h <;> subst h <;> simp only [L, bitN, Nat.reducePow, Nat.reduceMul, Nat.reduceAdd] <;> omega)

theorem setDr_disable_L_other {d k i : Nat} (hk : k < 4) (hi : i < 4) (hne : i ≠ k) : L (setDr d k false false) i = L d i := by
  rw [setDr_disable_eq]; split <;> simp only [setBit_false_eq] <;>
  (rcases slot_cases hk with h | h | h | h <;> subst h <;> rcases slot_cases hi with h | h | h | h <;> subst h <;>
    first | (exact absurd rfl hne) | (simp only [L, bitN, Nat.reducePow, Nat.reduceMul, Nat.reduceAdd]; omega))

theorem setDr_disable_G {d k i : Nat} (hk : k < 4) (hi : i < 4) : G (setDr d k false false) i = G d i := by
  rw [setDr_disable_eq]; split <;> simp only [setBit_false_eq] <;>
  (rcases slot_cases hk with h | h | h | h <;> subst h <;> rcases slot_cases hi with h | h | h | h <;> subst h <;>
    (simp only [G, bitN, Nat.reducePow, Nat.reduceMul, Nat.reduceAdd]; omega))

theorem setDr_disable_GE {d k : Nat} (hk : k < 4) : GE (setDr d k false false) = GE d := by
  rw [setDr_disable_eq]; split <;> simp only [setBit_false_eq] <;>
  (rcases slot_cases hk with h | h | h | h <;> subst h <;> simp only [GE, bitN, Nat.reducePow, Nat.reduceMul, Nat.reduceAdd] <;> omega)

theorem setDr_disable_high {d k : Nat} (hk : k < 4) : setDr d k false false / 65536 = d / 65536 := by
  rw [setDr_disable_eq]; split <;> simp only [setBit_false_eq] <;>
  (rcases slot_cases hk with h | h | h | h <;> subst h <;> simp only [Nat.reducePow, Nat.reduceMul, Nat.reduceAdd] <;> omega)

/-- after a disable the LE bit is cleared exactly when no local enable bit is left -/
theorem setDr_disable_LE {d k : Nat} (hk : k < 4) :
    LE (setDr d k false false) =
      (if L (setDr d k false false) 0 = 0 ∧ L (setDr d k false false) 1 = 0 ∧ L (setDr d k false false) 2 = 0 ∧
          L (setDr d k false false) 3 = 0 then 0 else LE d) := by
  have e8 : ∀ x i, i < 4 → L (setBit x 8 false) i = L x i := by
    intro x i hi; rw [setBit_false_eq]
    rcases slot_cases hi with h | h | h | h <;> subst h <;> simp only [L, bitN, Nat.reducePow, Nat.reduceMul] <;> omega
  have l8 : ∀ x, LE (setBit x 8 false) = 0 := by
    intro x; rw [setBit_false_eq]; simp only [LE, bitN, Nat.reducePow]; omega
  have lk : LE (setBit d (k * 2 + 0) false) = LE d := by
    rw [setBit_false_eq]
    rcases slot_cases hk with h | h | h | h <;> subst h <;> simp only [LE, bitN, Nat.reducePow, Nat.reduceMul, Nat.reduceAdd] <;> omega
  rw [setDr_disable_eq]
  by_cases hb : allDis (setBit d (k * 2 + 0) false) = true
  · have := (allDis_iff _).1 hb
    simp only [hb, if_true, l8, e8 _ 0 (by omega), e8 _ 1 (by omega), e8 _ 2 (by omega), e8 _ 3 (by omega), this, and_self]
  · have hn := mt (allDis_iff _).2 hb
    have hb' : allDis (setBit d (k * 2 + 0) false) = false := by simpa using hb
    rw [hb']; simp only [Bool.false_eq_true, ↓reduceIte]; rw [if_neg hn]; exact lk

end BsVerif.Dr
