import BsVerif.Model.Signals
/-! Helper lemmas for Props/C10: effect of the kernel primitives and of the tracer's atomic steps on the counters. -/
namespace BsVerif.Sig
open BsVerif.Gen.Signals

/-! ### kernel -/

theorem K.dequeue_fields {k k' : K} {s : Sig} (h : k.dequeue = some (s, k')) :
    k'.delivered = k.delivered ∧ k'.arrived = k.arrived ∧ k'.sent = k.sent ∧ k'.script = k.script
    ∧ k'.stop = k.stop ∧ k'.frames = k.frames ∧ k'.pos = k.pos ∧ k'.clock = k.clock := by
  unfold K.dequeue at h
  split at h
  · cases h; simp
  · split at h
    · cases h; simp
    · cases h

theorem K.runMain_spec (b : Bool) (k : K) (l : List PEv) :
    (K.runMain b k l).1.delivered = k.delivered ∧
    (∀ a, (K.runMain b k l).2 = .sigStop a → (K.runMain b k l).1.arrived = k.arrived ++ [a]) ∧
    ((∀ a, (K.runMain b k l).2 ≠ .sigStop a) → (K.runMain b k l).1.arrived = k.arrived) := by
  induction l with
  | nil => simp [K.runMain]
  | cons e r ih =>
    cases e with
    | point =>
      by_cases hb : b = true
      · simp [K.runMain, hb, K.fresh]
      · simp [K.runMain, hb]; simpa [hb] using ih
    | raise s => simp [K.runMain, K.fresh, K.arrive]
    | kill s => simp [K.runMain, K.fresh, K.arrive]

/-- what one resume request does to the handler log and to the arrival log -/
theorem K.resume_spec (k : K) (m : Mode) (s : Sig) (b : Bool) :
    (k.resume m s b).1.delivered = (if k.stop = .exited ∨ s = 0 then k.delivered else k.delivered ++ [s]) ∧
    (∀ a, (k.resume m s b).2 = .sigStop a → (k.resume m s b).1.arrived = k.arrived ++ [a]) ∧
    ((∀ a, (k.resume m s b).2 ≠ .sigStop a) → (k.resume m s b).1.arrived = k.arrived) := by
  unfold K.resume
  by_cases hx : k.stop = .exited
  · simp [hx]
  · simp only [hx, if_false, false_or]
    -- the state after signal disposition
    generalize hk1 : (if k.stop = KStop.sysEntry then k.popFrame else k) = k1
    have h1 : k1.delivered = k.delivered ∧ k1.arrived = k.arrived := by
      subst hk1; split <;> simp [K.popFrame] <;> split <;> simp
    generalize hk2 : (if s = 0 then k1 else k1.deliver s) = k2
    have h2 : k2.delivered = (if s = 0 then k.delivered else k.delivered ++ [s]) ∧ k2.arrived = k.arrived := by
      subst hk2; split <;> simp [K.deliver, h1]
    by_cases hst : m = .step ∧ s ≠ 0
    · simp [hst, h2]
    · simp only [hst, if_false]
      cases hd : k2.dequeue with
      | some p =>
        obtain ⟨a, k3⟩ := p
        have h3 := K.dequeue_fields hd
        simp [K.arrive, h3, h2]
      | none =>
        cases m with
        | step => simp; split <;> simp [K.fresh, h2]
        | sysc => simp; split <;> simp [K.fresh, h2]
        | cont =>
          simp only []
          split
          · simp [h2]
          · have := K.runMain_spec b { k2 with frames := [] } k2.script
            simpa [h2] using this

theorem K.runMain_stop (b : Bool) (k : K) (l : List PEv) :
    (∀ a, (K.runMain b k l).2 = .sigStop a → (K.runMain b k l).1.stop = .sig a) ∧
    ((K.runMain b k l).1.stop = .exited → (K.runMain b k l).2 = .exitEv ∨ k.stop = .exited) := by
  induction l with
  | nil => simp [K.runMain]
  | cons e r ih =>
    cases e with
    | point =>
      by_cases hb : b = true
      · simp [K.runMain, hb, K.fresh]
      · simp [K.runMain, hb]; simpa [hb] using ih
    | raise s => simp [K.runMain, K.fresh, K.arrive]
    | kill s => simp [K.runMain, K.fresh, K.arrive]

/-- a reported signal-delivery-stop leaves the thread in that stop; the debuggee only exits under `PTRACE_CONT` -/
theorem K.resume_stop (k : K) (m : Mode) (s : Sig) (b : Bool) :
    (∀ a, (k.resume m s b).2 = .sigStop a → (k.resume m s b).1.stop = .sig a) ∧
    ((k.resume m s b).1.stop = .exited → k.stop = .exited ∨ m = .cont) := by
  unfold K.resume
  by_cases hx : k.stop = .exited
  · simp [hx]
  · simp only [hx, if_false]
    generalize (if s = 0 then (if k.stop = KStop.sysEntry then k.popFrame else k)
      else (if k.stop = KStop.sysEntry then k.popFrame else k).deliver s) = k2
    by_cases hst : m = .step ∧ s ≠ 0
    · simp [hst]
    · simp only [hst, if_false]
      cases hd : k2.dequeue with
      | some p => obtain ⟨a, k3⟩ := p; simp [K.arrive]
      | none =>
        cases m with
        | step => simp; split <;> simp
        | sysc => simp; split <;> simp
        | cont =>
          simp only []
          split
          · simp
          · have := K.runMain_stop b { k2 with frames := [] } k2.script
            exact ⟨this.1, fun _ => Or.inr (by trivial)⟩

theorem K.send_fields (k : K) (p : Bool) (s : Sig) :
    (k.send p s).delivered = k.delivered ∧ (k.send p s).arrived = k.arrived ∧ (k.send p s).stop = k.stop
    ∧ (k.send p s).script = k.script ∧ (k.send p s).pos = k.pos ∧ (k.send p s).clock = k.clock := by
  unfold K.send; split <;> split <;> simp

/-! ### the tracer's atomic steps -/

@[simp] theorem D.kres_queue (d : D) (m : Mode) (s : Sig) : (d.kres m s).1.queue = d.queue := rfl
@[simp] theorem D.kres_k (d : D) (m : Mode) (s : Sig) : (d.kres m s).1.k = (d.k.resume m s d.bpOn).1 := rfl
@[simp] theorem D.kres_ev (d : D) (m : Mode) (s : Sig) : (d.kres m s).2 = (d.k.resume m s d.bpOn).2 := rfl
@[simp] theorem D.kres_bpOn (d : D) (m : Mode) (s : Sig) : (d.kres m s).1.bpOn = d.bpOn := rfl
@[simp] theorem D.kres_reported (d : D) (m : Mode) (s : Sig) : (d.kres m s).1.reported = d.reported := rfl
@[simp] theorem D.push_k (d : D) (s : Sig) : (d.push s).k = d.k := by unfold D.push; split <;> rfl
@[simp] theorem D.push_bpOn (d : D) (s : Sig) : (d.push s).bpOn = d.bpOn := by unfold D.push; split <;> rfl
@[simp] theorem D.push_reported (d : D) (s : Sig) : (d.push s).reported = d.reported := by unfold D.push; split <;> rfl
theorem D.push_queue (d : D) (s : Sig) :
    (d.push s).queue = if s ∈ transparent then d.queue else d.queue ++ [s] := by unfold D.push; split <;> rfl

theorem D.kp_sig {d : D} {m : Mode} {s a : Sig} (h : (d.k.resume m s d.bpOn).2 = .sigStop a) :
    d.kp m s = ((d.kres m s).1.push a, .sigStop a) := by
  have : (d.kres m s).2 = .sigStop a := h
  simp only [D.kp, this]

theorem D.kp_other {d : D} {m : Mode} {s : Sig} (h : ∀ a, (d.k.resume m s d.bpOn).2 ≠ .sigStop a) :
    d.kp m s = d.kres m s := by
  have h' : ∀ a, (d.kres m s).2 ≠ .sigStop a := h
  simp only [D.kp]

theorem D.kp_ev (d : D) (m : Mode) (s : Sig) : (d.kp m s).2 = (d.k.resume m s d.bpOn).2 := by
  cases hw : (d.k.resume m s d.bpOn).2 with
  | sigStop a => rw [D.kp_sig hw]
  | _ => rw [D.kp_other (by simp [hw])]; simpa using hw

theorem D.kp_k (d : D) (m : Mode) (s : Sig) : (d.kp m s).1.k = (d.k.resume m s d.bpOn).1 := by
  cases hw : (d.k.resume m s d.bpOn).2 with
  | sigStop a => rw [D.kp_sig hw]; simp
  | _ => rw [D.kp_other (by simp [hw])]; simp

/-- effect of one atomic step on the counters of a signal `x`: `δ` = "a signal-delivery-stop of `x` was reported" -/
theorem D.kp_counts (d : D) (m : Mode) (s x : Sig) :
    (d.kp m s).1.k.delivered.count x
      = d.k.delivered.count x + (if d.k.stop = .exited ∨ s = 0 then 0 else if s = x then 1 else 0) ∧
    ∃ δ : Nat, δ ≤ 1 ∧ (δ = 1 ↔ (d.kp m s).2 = .sigStop x) ∧
      (d.kp m s).1.k.arrived.count x = d.k.arrived.count x + δ ∧
      (d.kp m s).1.queue.count x = d.queue.count x + (if x ∈ transparent then 0 else δ) := by
  have hs := K.resume_spec d.k m s d.bpOn
  have hev := D.kp_ev d m s
  constructor
  · rw [D.kp_k, hs.1]; split <;> simp [List.count_append, List.count_singleton] <;> split <;> simp_all
  · cases hw : (d.k.resume m s d.bpOn).2 with
    | sigStop a =>
      have harr := hs.2.1 a hw
      have e : d.kp m s = ((d.kres m s).1.push a, .sigStop a) := D.kp_sig hw
      by_cases hax : a = x
      · subst hax
        refine ⟨1, by omega, by simp [e], ?_, ?_⟩
        · simp [e, harr, List.count_append]
        · simp [e, D.push_queue]; split <;> simp_all [List.count_append]
      · refine ⟨0, by omega, by simp [e, hax], ?_, ?_⟩
        · simp [e, harr, List.count_append, hax]
        · simp [e, D.push_queue]; split <;> simp [List.count_append, hax]
    | trap | trap5 | trapBp | exitEv | unmodelled =>
      have harr := hs.2.2 (by simp [hw])
      have e : d.kp m s = d.kres m s := D.kp_other (by simp [hw])
      exact ⟨0, by omega, by simp [e, hw], by simp [e, harr], by simp [e]⟩

@[simp] theorem D.kres_piled (d : D) (m : Mode) (s : Sig) : (d.kres m s).1.piled = d.piled := rfl
@[simp] theorem D.kres_dead (d : D) (m : Mode) (s : Sig) : (d.kres m s).1.dead = d.dead := rfl
@[simp] theorem D.push_dead (d : D) (s : Sig) : (d.push s).dead = d.dead := by unfold D.push; split <;> rfl
theorem D.push_piled (d : D) (s : Sig) :
    (d.push s).piled = if s ∈ transparent then d.piled else (d.piled || !d.queue.isEmpty) := by
  unfold D.push; split <;> rfl

@[simp] theorem D.kp_reported (d : D) (m : Mode) (s : Sig) : (d.kp m s).1.reported = d.reported := by
  cases hw : (d.k.resume m s d.bpOn).2 with
  | sigStop a => rw [D.kp_sig hw]; simp
  | _ => rw [D.kp_other (by simp [hw])]; simp

@[simp] theorem D.kp_bpOn (d : D) (m : Mode) (s : Sig) : (d.kp m s).1.bpOn = d.bpOn := by
  cases hw : (d.k.resume m s d.bpOn).2 with
  | sigStop a => rw [D.kp_sig hw]; simp
  | _ => rw [D.kp_other (by simp [hw])]; simp

@[simp] theorem D.kp_dead (d : D) (m : Mode) (s : Sig) : (d.kp m s).1.dead = d.dead := by
  cases hw : (d.k.resume m s d.bpOn).2 with
  | sigStop a => rw [D.kp_sig hw]; simp
  | _ => rw [D.kp_other (by simp [hw])]; simp

theorem D.kp_queue_sig {d : D} {m : Mode} {s a : Sig} (h : (d.kp m s).2 = .sigStop a) :
    (d.kp m s).1.queue = if a ∈ transparent then d.queue else d.queue ++ [a] := by
  have hw : (d.k.resume m s d.bpOn).2 = .sigStop a := by rw [← D.kp_ev]; exact h
  rw [D.kp_sig hw]; simp [D.push_queue]

theorem D.kp_queue_other {d : D} {m : Mode} {s : Sig} (h : ∀ a, (d.kp m s).2 ≠ .sigStop a) :
    (d.kp m s).1.queue = d.queue := by
  have hw : ∀ a, (d.k.resume m s d.bpOn).2 ≠ .sigStop a := by intro a; rw [← D.kp_ev]; exact h a
  rw [D.kp_other hw]; simp

/-- nothing piles up when the step starts with an empty queue -/
theorem D.kp_piled_nil {d : D} (m : Mode) (s : Sig) (hq : d.queue = []) : (d.kp m s).1.piled = d.piled := by
  cases hw : (d.k.resume m s d.bpOn).2 with
  | sigStop a => rw [D.kp_sig hw]; simp [D.push_piled, hq]
  | _ => rw [D.kp_other (by simp [hw])]; simp

/-- no pile-up after the step: none before, and the queue was empty or the reported signal is not queued -/
theorem D.kp_piled_false {d : D} {m : Mode} {s : Sig} (h : (d.kp m s).1.piled = false) :
    d.piled = false ∧ (d.queue = [] ∨ ∀ a, (d.kp m s).2 = .sigStop a → a ∈ transparent) := by
  cases hw : (d.k.resume m s d.bpOn).2 with
  | sigStop a =>
    rw [D.kp_sig hw] at h ⊢
    simp only [D.push_piled, D.kres_piled, D.kres_queue] at h
    by_cases ht : a ∈ transparent
    · simp only [ht, if_true] at h
      exact ⟨h, Or.inr (fun a' e => by cases e; exact ht)⟩
    · simp only [ht, if_false, Bool.or_eq_false_iff] at h
      refine ⟨h.1, Or.inl ?_⟩
      have := h.2
      cases hq : d.queue with
      | nil => rfl
      | cons x l => simp [hq] at this
  | _ =>
    have hno : ∀ a, (d.k.resume m s d.bpOn).2 ≠ .sigStop a := by simp [hw]
    rw [D.kp_other hno] at h ⊢
    exact ⟨by simpa using h, Or.inr (fun a e => absurd e (by simp [hw]))⟩

/-- the tables are disjoint: a quiet signal is always queued by `apply_new_status` -/
theorem quiet_not_transparent : ∀ a, a ∈ quiet → a ∉ transparent := by decide

/-- no quiet signal waits in the queue -/
def NQ (q : List Sig) : Prop := ∀ x ∈ q, x ∉ quiet

/-- the queue right after an atomic step that was started with no quiet signal in the queue: the signal whose
signal-delivery-stop the step has reported is its last entry (unless it is transparent) -/
def W (d : D) : WEv → Prop
  | .sigStop a => ∃ q0, NQ q0 ∧ (d.queue = q0 ++ [a] ∨ (a ∈ transparent ∧ d.queue = q0))
  | _ => NQ d.queue

theorem D.kp_W {d : D} (m : Mode) (s : Sig) (hq : NQ d.queue) : W (d.kp m s).1 (d.kp m s).2 := by
  cases hw : (d.kp m s).2 with
  | sigStop a =>
    refine ⟨d.queue, hq, ?_⟩
    rw [D.kp_queue_sig hw]
    by_cases ht : a ∈ transparent
    · right; exact ⟨ht, by simp [ht]⟩
    · left; simp [ht]
  | _ =>
    have := D.kp_queue_other (d := d) (m := m) (s := s) (by simp [hw])
    simp only [W]; rw [this]; exact hq

theorem D.unqueue_append (q : List Sig) (a : Sig) : D.unqueue (q ++ [a]) a = q := by simp [D.unqueue]

/-! ### the conservation law -/

/-- nothing queued twice, nothing owed after exit, and for every non-transparent signal
handler runs + queued instances = signal-delivery-stops -/
def Clean (d : D) : Prop :=
  d.queue.length ≤ 1 ∧ (d.k.stop = .exited → d.queue = []) ∧
  ∀ x, x ≠ 0 → x ∉ transparent → d.k.delivered.count x + d.queue.count x = d.k.arrived.count x

theorem Clean.ext {d d' : D} (hk : d'.k = d.k) (hq : d'.queue = d.queue) (h : Clean d) : Clean d' := by
  unfold Clean at *; rw [hk, hq]; exact h

/-- one resume request issued with an empty queue, carrying the signal `s` that was taken off it (`s = 0`: none) -/
theorem Clean.kpStep (d : D) (m : Mode) (s : Sig) (hq : d.queue = []) (hne : d.k.stop ≠ .exited ∨ s = 0)
    (hc : ∀ x, x ≠ 0 → x ∉ transparent →
      d.k.delivered.count x + (if s = 0 then 0 else if s = x then 1 else 0) = d.k.arrived.count x) :
    Clean (d.kp m s).1 := by
  have hst := K.resume_stop d.k m s d.bpOn
  refine ⟨?_, ?_, ?_⟩
  · cases hw : (d.k.resume m s d.bpOn).2 with
    | sigStop a => rw [D.kp_sig hw]; simp [D.push_queue, hq]; split <;> simp
    | _ => rw [D.kp_other (by simp [hw])]; simp [hq]
  · intro hex
    cases hw : (d.k.resume m s d.bpOn).2 with
    | sigStop a =>
      have := hst.1 a hw
      rw [D.kp_k] at hex; rw [this] at hex; cases hex
    | _ => rw [D.kp_other (by simp [hw])]; simp [hq]
  · intro x hx0 hx
    obtain ⟨hd, δ, _, _, ha, hqc⟩ := D.kp_counts d m s x
    rw [hd, ha, hqc]
    have := hc x hx0 hx
    rcases hne with hne | hs0
    · simp only [hne, false_or, hx, if_false, hq, List.count_nil] at *
      split <;> simp_all <;> omega
    · subst hs0
      simp only [or_true, if_true, hx, if_false, hq, List.count_nil] at *
      omega

theorem Clean.kp0 {d : D} (m : Mode) (hc : Clean d) (hq : d.queue = []) : Clean (d.kp m 0).1 :=
  Clean.kpStep d m 0 hq (Or.inr rfl) (fun x hx0 hx => by simpa [hq] using hc.2.2 x hx0 hx)

/-- `PTRACE_SINGLESTEP(0)` / `PTRACE_SYSCALL(0)` of a thread that has a signal queued, when the step reports no signal
that gets queued as well: the law is untouched (the kernel forgets the signal of the stop, the tracer still owes it) -/
theorem Clean.kp0_keep {d : D} (m : Mode) (hc : Clean d) (hm : m ≠ .cont)
    (hno : ∀ a, (d.kp m 0).2 = .sigStop a → a ∈ transparent) : Clean (d.kp m 0).1 := by
  have hst := K.resume_stop d.k m 0 d.bpOn
  have hqe : (d.kp m 0).1.queue = d.queue := by
    cases hw : (d.kp m 0).2 with
    | sigStop a => rw [D.kp_queue_sig hw]; simp [hno a hw]
    | _ => exact D.kp_queue_other (by simp [hw])
  refine ⟨by rw [hqe]; exact hc.1, ?_, ?_⟩
  · intro hex
    rw [D.kp_k] at hex
    rcases hst.2 hex with e | e
    · rw [hqe]; exact hc.2.1 e
    · exact absurd e hm
  · intro x hx0 hx
    obtain ⟨hd, δ, hδ, hδi, ha, _⟩ := D.kp_counts d m 0 x
    have h0 : δ = 0 := by
      have : δ ≠ 1 := fun e => hx (hno x (hδi.mp e))
      omega
    rw [hd, ha, hqe, h0]
    simpa using hc.2.2 x hx0 hx

theorem Clean.inj {d : D} (m : Mode) (s : Sig) (hc : Clean d) (hq : d.queue = [s]) :
    Clean ({ d with queue := [] }.kp m s).1 := by
  have hex : d.k.stop ≠ .exited := by intro e; have := hc.2.1 e; rw [hq] at this; cases this
  refine Clean.kpStep { d with queue := [] } m s rfl (Or.inl hex) (fun x hx0 hx => ?_)
  have := hc.2.2 x hx0 hx
  rw [hq, List.count_singleton] at this
  by_cases hs0 : s = 0
  · subst hs0
    -- signal number 0 is never queued by the model's callers, but the law still holds: nothing is injected
    simp only [if_true]
    have h0 : ¬ (0 : Sig) = x := fun e => hx0 e.symm
    simp_all
  · simp only [hs0, if_false]
    by_cases hsx : s = x <;> simp_all

theorem Clean.send {d : D} (p : Bool) (s : Sig) (hc : Clean d) : Clean { d with k := d.k.send p s } := by
  have hs := K.send_fields d.k p s
  unfold Clean
  simp only [hs.1, hs.2.1, hs.2.2.1]
  exact hc

/-! ### every command is a sequence of atomic steps: a predicate closed under them holds at every prompt -/

/-- closure conditions: the atomic steps the debugger model is made of -/
structure Stable (P : D → Prop) : Prop where
  /-- `P` only looks at the kernel state, the queue, the list of reported stops and the ghost flag -/
  ext : ∀ d d' : D, d'.k = d.k → d'.queue = d.queue → d'.reported = d.reported → d'.piled = d.piled → P d → P d'
  /-- `resume` with an empty queue: `PTRACE_CONT(0)`, the `waitpid` after it, the queueing of the reported signal -/
  kp0c : ∀ (d : D), P d → d.queue = [] → P (d.kp .cont 0).1
  /-- `single_step`: `PTRACE_SINGLESTEP(0)` or `PTRACE_SYSCALL(0)` (+ wait, + queueing), whatever is queued -/
  kp0s : ∀ (d : D) (m : Mode), P d → m ≠ .cont → P (d.kp m 0).1
  /-- `resume`: the only queued signal is taken off the queue and injected with `PTRACE_CONT` -/
  pop : ∀ (d : D) (s : Sig), P d → d.queue = [s] → P ({ d with queue := [] }.kp .cont s).1
  /-- `single_step`: a quiet signal that has just been queued is taken back and injected with `PTRACE_SINGLESTEP` -/
  qstep : ∀ (d : D) (q0 : List Sig) (a : Sig), P d → a ∈ quiet → d.queue = q0 ++ [a] →
    P ({ d with queue := q0 }.kp .step a).1
  /-- `resume` with two queued signals: the head is dropped -/
  drop : ∀ (d : D) (s s' : Sig) (rest : List Sig), P d → d.queue = s :: s' :: rest → P { d with queue := s' :: rest }
  /-- a signal sent from outside -/
  send : ∀ (d : D) (p : Bool) (s : Sig), P d → d.k.stop ≠ .exited → P { d with k := d.k.send p s }
  /-- a stop for a signal that is not quiet is handed to the user -/
  report : ∀ (d : D) (s : Sig), P d → s ∉ quiet → P (d.report s)

theorem Stable.ext' {P : D → Prop} (hP : Stable P) {d d' : D} (h : P d) (hk : d'.k = d.k) (hq : d'.queue = d.queue)
    (hr : d'.reported = d.reported) (hp : d'.piled = d.piled) : P d' := hP.ext d d' hk hq hr hp h

/-- what a loop of the tracer hands back: either the model ran out of fuel, or no quiet signal waits in the queue -/
def Post (d : D) (fuelOut : Prop) : Prop := fuelOut ∨ NQ d.queue

theorem D.ssLoop_stable {P : D → Prop} (hP : Stable P) :
    ∀ (f ini : Nat) (d : D) (w : WEv), P d → W d w →
      P (D.ssLoop f ini d w).1 ∧ Post (D.ssLoop f ini d w).1 ((D.ssLoop f ini d w).2 = .outOfFuel) ∧
      ∀ s, (D.ssLoop f ini d w).2 = .sig s → s ∉ quiet := by
  intro f
  induction f with
  | zero => intro ini d w h _; exact ⟨by simpa [D.ssLoop] using h, Or.inl (by simp [D.ssLoop]), by simp [D.ssLoop]⟩
  | succ f ih =>
    intro ini d w h hw
    cases w with
    | trap =>
      simp only [D.ssLoop]
      split
      · exact ih _ _ _ (hP.kp0s d .step h (by decide)) (D.kp_W .step 0 hw)
      · exact ⟨h, Or.inr hw, by simp⟩
    | trapBp => simp only [D.ssLoop]; exact ⟨h, Or.inr hw, by simp⟩
    | trap5 =>
      simp only [D.ssLoop]
      have h1 := hP.kp0s d .sysc h (by decide)
      have w1 := D.kp_W (d := d) .sysc 0 hw
      split
      · rename_i e; rw [e] at w1
        exact ih _ _ _ (hP.kp0s _ .step h1 (by decide)) (D.kp_W .step 0 w1)
      · rename_i e; rw [e] at w1
        exact ih _ _ _ (hP.kp0s _ .step h1 (by decide)) (D.kp_W .step 0 w1)
      · rename_i e; rw [e] at w1
        exact ih _ _ _ (hP.kp0s _ .step h1 (by decide)) (D.kp_W .step 0 w1)
      · rename_i s e; rw [e] at w1
        exact ih _ _ _ h1 w1
      · rename_i n1 n2 n3 n4
        refine ⟨h1, Or.inr ?_, by simp⟩
        cases hw2 : (d.kp .sysc 0).2 with
        | sigStop a => exact absurd hw2 (n4 a)
        | trap => exact absurd hw2 n1
        | trap5 => exact absurd hw2 n2
        | trapBp => exact absurd hw2 n3
        | exitEv => rw [hw2] at w1; exact w1
        | unmodelled => rw [hw2] at w1; exact w1
    | sigStop s =>
      simp only [D.ssLoop]
      obtain ⟨q0, hq0, hq⟩ := hw
      split
      · rename_i hs
        have hq : d.queue = q0 ++ [s] := by
          rcases hq with hq | ⟨ht, _⟩
          · exact hq
          · exact absurd ht (quiet_not_transparent s hs)
        rw [hq, D.unqueue_append]
        exact ih _ _ _ (hP.qstep d q0 s h hs hq) (D.kp_W .step s hq0)
      · rename_i hs
        refine ⟨h, Or.inr ?_, fun s' e => by cases e; exact hs⟩
        rcases hq with hq | ⟨_, hq⟩
        · rw [hq]; intro x hx
          simp only [List.mem_append, List.mem_singleton] at hx
          rcases hx with hx | hx
          · exact hq0 x hx
          · rw [hx]; exact hs
        · rw [hq]; exact hq0
    | exitEv => simp only [D.ssLoop]; exact ⟨h, Or.inr hw, by simp⟩
    | unmodelled => simp only [D.ssLoop]; exact ⟨h, Or.inr hw, by simp⟩

theorem D.singleStep_stable {P : D → Prop} (hP : Stable P) (d : D) (h : P d) (hq : NQ d.queue) :
    P d.singleStep.1 ∧ Post d.singleStep.1 (d.singleStep.2 = .outOfFuel) ∧ ∀ s, d.singleStep.2 = .sig s → s ∉ quiet := by
  unfold D.singleStep
  exact D.ssLoop_stable hP _ _ _ _ (hP.kp0s d .step h (by decide)) (D.kp_W .step 0 hq)

theorem NQ_nil : NQ [] := by intro x hx; cases hx

theorem D.resume_stable {P : D → Prop} (hP : Stable P) :
    ∀ (f : Nat) (d : D), P d → (NQ d.queue ∨ d.queue.length ≤ 1) →
      P (D.resume f d).1 ∧ Post (D.resume f d).1 ((D.resume f d).2 = .outOfFuel) ∧
      ∀ s, (D.resume f d).2 = .sig s → s ∉ quiet := by
  intro f
  induction f with
  | zero => intro d h _; exact ⟨by simpa [D.resume] using h, Or.inl (by simp [D.resume]), by simp [D.resume]⟩
  | succ f ih =>
    intro d h hq
    unfold D.resume
    split
    · rename_i s s' rest hqq
      have hn : NQ (s :: s' :: rest) := by
        rcases hq with hq | hq
        · rw [hqq] at hq; exact hq
        · rw [hqq] at hq; simp at hq
      have hs' : s' ∉ quiet := hn s' (by simp)
      refine ⟨hP.drop d s s' rest h hqq, Or.inr ?_, fun x e => by cases e; exact hs'⟩
      intro x hx; exact hn x (List.mem_cons_of_mem _ hx)
    · rename_i hne
      -- the queue holds at most one signal: it is taken off and injected
      have hcase : d.queue = [] ∨ ∃ s, d.queue = [s] := by
        match hd : d.queue with
        | [] => exact Or.inl rfl
        | [s] => exact Or.inr ⟨s, rfl⟩
        | s :: s' :: rest => exact absurd hd (hne s s' rest)
      have h1 : P ({ d with queue := [] }.kp .cont (d.queue.headD 0)).1 := by
        rcases hcase with hd | ⟨s, hd⟩
        · have e : ({ d with queue := [] } : D) = d := by cases d; simp_all
          rw [e, hd]; exact hP.kp0c d h hd
        · rw [hd]; exact hP.pop d s h hd
      have w1 := D.kp_W (d := { d with queue := [] }) .cont (d.queue.headD 0) NQ_nil
      have hlen : ({ d with queue := [] }.kp .cont (d.queue.headD 0)).1.queue.length ≤ 1 := by
        cases hw : ({ d with queue := [] }.kp .cont (d.queue.headD 0)).2 with
        | sigStop a => rw [D.kp_queue_sig hw]; split <;> simp
        | _ => rw [D.kp_queue_other (by intro a h'; rw [hw] at h'; cases h')]; simp
      simp only []
      split
      · rename_i s e
        split
        · exact ih _ h1 (Or.inr hlen)
        · rename_i hs
          refine ⟨h1, Or.inr ?_, fun s' e' => by cases e'; exact hs⟩
          rw [e] at w1
          obtain ⟨q0, hq0, hqq⟩ := w1
          rcases hqq with hqq | ⟨_, hqq⟩
          · rw [hqq]; intro x hx
            simp only [List.mem_append, List.mem_singleton] at hx
            rcases hx with hx | hx
            · exact hq0 x hx
            · rw [hx]; exact hs
          · rw [hqq]; exact hq0
      · rename_i e; rw [e] at w1; exact ⟨h1, Or.inr w1, by simp⟩
      · rename_i e; rw [e] at w1; exact ⟨h1, Or.inr w1, by simp⟩
      · rename_i n1 n2 n3
        refine ⟨h1, Or.inr ?_, by simp⟩
        cases hw2 : ({ d with queue := [] }.kp .cont (d.queue.headD 0)).2 with
        | sigStop a => exact absurd hw2 (n1 a)
        | trapBp => exact absurd hw2 n2
        | exitEv => exact absurd hw2 n3
        | trap => rw [hw2] at w1; exact w1
        | trap5 => rw [hw2] at w1; exact w1
        | unmodelled => rw [hw2] at w1; exact w1

/-- at a prompt: the model has given up (out of fuel), or no quiet signal waits in the queue -/
def Prompt (d : D) : Prop := d.dead = true ∨ NQ d.queue

/-- what a command hands back -/
def Post2 (r : D × Out) : Prop := (r.2 = .outOfFuel ∧ r.1.dead = true) ∨ NQ r.1.queue

theorem Post2.prompt {r : D × Out} (h : Post2 r) : Prompt r.1 := by
  rcases h with ⟨_, h⟩ | h
  · exact Or.inl h
  · exact Or.inr h

theorem D.afterStep_stable {P : D → Prop} (hP : Stable P) (d : D) (h : P d) (hq : NQ d.queue) :
    P d.afterStep.1 ∧ Post2 d.afterStep := by
  have h1 := D.resume_stable hP (D.resFuel d) d h (Or.inl hq)
  unfold D.afterStep
  simp only []
  split
  · rename_i e; exact ⟨h1.1, Or.inr (h1.2.1.resolve_left (by simp [e]))⟩
  · rename_i e; exact ⟨h1.1, Or.inr (h1.2.1.resolve_left (by simp [e]))⟩
  · rename_i s e
    exact ⟨hP.report _ s h1.1 (h1.2.2 s e), Or.inr (h1.2.1.resolve_left (by simp [e]))⟩
  · rename_i e; exact ⟨h1.1, Or.inr (h1.2.1.resolve_left (by simp [e]))⟩
  · exact ⟨hP.ext' h1.1 rfl rfl rfl rfl, Or.inl ⟨rfl, rfl⟩⟩

theorem D.stepOut_stable {P : D → Prop} (hP : Stable P) (d : D) (o : SRes) (h : P d)
    (hq : Post d (o = .outOfFuel)) (ho : ∀ s, o = .sig s → s ∉ quiet) :
    P (D.stepOut d o).1 ∧ Post2 (D.stepOut d o) := by
  cases o with
  | sig s => exact ⟨hP.report _ s h (ho s rfl), Or.inr (hq.resolve_left (by simp))⟩
  | outOfFuel => exact ⟨hP.ext' h rfl rfl rfl rfl, Or.inl ⟨rfl, rfl⟩⟩
  | none => exact ⟨h, Or.inr (hq.resolve_left (by simp))⟩
  | err => exact ⟨h, Or.inr (hq.resolve_left (by simp))⟩
  | unmodelled => exact ⟨h, Or.inr (hq.resolve_left (by simp))⟩

theorem D.contExec_stable {P : D → Prop} (hP : Stable P) (d : D) (h : P d) (hq : NQ d.queue) :
    P d.contExec.1 ∧ Post2 d.contExec := by
  have h1 := D.singleStep_stable hP d h hq
  unfold D.contExec
  split
  · simp only []
    split
    · rename_i e
      exact D.afterStep_stable hP _ h1.1 (h1.2.1.resolve_left (by simp [e]))
    · exact D.stepOut_stable hP _ _ h1.1 h1.2.1 h1.2.2
  · exact D.afterStep_stable hP d h hq

theorem D.stepiExec_stable {P : D → Prop} (hP : Stable P) (d : D) (h : P d) (hq : NQ d.queue) :
    P d.stepiExec.1 ∧ Post2 d.stepiExec :=
  have h1 := D.singleStep_stable hP d h hq
  D.stepOut_stable hP _ _ h1.1 h1.2.1 h1.2.2

theorem D.drainLoop_stable {P : D → Prop} (hP : Stable P) :
    ∀ (n : Nat) (d : D) (acc : List Out), P d → NQ d.queue → P (D.drainLoop n d acc).1 := by
  intro n
  induction n with
  | zero => intro d acc h _; simpa [D.drainLoop] using h
  | succ n ih =>
    intro d acc h hq
    have h1 := D.contExec_stable hP d h hq
    unfold D.drainLoop
    split
    · exact h
    · simp only []
      split
      · exact h1.1
      · rename_i s e
        exact ih _ _ h1.1 (h1.2.resolve_left (by simp [e]))
      · rename_i e
        exact ih _ _ h1.1 (h1.2.resolve_left (by simp [e]))
      · exact h1.1

/-- `P` at a prompt -/
def Inv (P : D → Prop) (d : D) : Prop := P d ∧ Prompt d

/-- a predicate closed under the atomic steps is preserved by every command -/
theorem D.exec_stable {P : D → Prop} (hP : Stable P) (d : D) (c : Cmd) (h : Inv P d) : Inv P (d.exec c).1 := by
  by_cases hd : d.dead = true
  · -- a dead model ignores every command
    have : (d.exec c).1 = d := by cases c <;> simp [D.exec, hd]
    rw [this]; exact h
  · have hq : NQ d.queue := h.2.resolve_left hd
    cases c with
    | brk =>
      simp only [D.exec]; split
      · exact h
      · exact ⟨hP.ext' h.1 rfl rfl rfl rfl, Or.inr hq⟩
    | unbrk =>
      simp only [D.exec]; split
      · exact h
      · split
        · exact ⟨hP.ext' h.1 rfl rfl rfl rfl, Or.inr hq⟩
        · exact h
    | start =>
      simp only [D.exec]; split
      · exact h
      · split
        · exact h
        · have := D.contExec_stable hP { d with started := true } (hP.ext' h.1 rfl rfl rfl rfl) hq
          exact ⟨this.1, this.2.prompt⟩
    | cont =>
      simp only [D.exec]; split
      · exact h
      · split
        · have := D.contExec_stable hP d h.1 hq
          exact ⟨this.1, this.2.prompt⟩
        · exact h
    | stepi =>
      simp only [D.exec]; split
      · exact h
      · split
        · have := D.stepiExec_stable hP d h.1 hq
          exact ⟨this.1, this.2.prompt⟩
        · exact h
    | send p s =>
      simp only [D.exec]; split
      · exact h
      · split
        · rename_i hr
          have hne : d.k.stop ≠ .exited := by
            intro e; simp [D.running, e] at hr
          exact ⟨hP.send d p s h.1 hne, Or.inr hq⟩
        · exact h
    | drain =>
      simp only [D.exec]; split
      · exact h
      · split
        · exact ⟨hP.ext' (D.drainLoop_stable hP 40 { d with bpOn := false } []
            (hP.ext' (d' := { d with bpOn := false }) h.1 rfl rfl rfl rfl) hq) rfl rfl rfl rfl, Or.inl rfl⟩
        · exact ⟨hP.ext' (d := d) h.1 rfl rfl rfl rfl, Or.inl rfl⟩

/-- ... hence at every prompt of every history -/
theorem D.run_stable {P : D → Prop} (hP : Stable P) : ∀ (cs : List Cmd) (d : D), Inv P d → Inv P (d.run cs) := by
  intro cs
  induction cs with
  | nil => intro d h; exact h
  | cons c cs ih => intro d h; exact ih _ (D.exec_stable hP d c h)

theorem D.init_prompt (script : List PEv) : Prompt (D.init script) := Or.inr (by simp [D.init, NQ])

/-- a predicate closed under the atomic steps holds at every prompt of every history -/
theorem D.run_holds {P : D → Prop} (hP : Stable P) (script : List PEv) (cmds : List Cmd) (h0 : P (D.init script)) :
    P ((D.init script).run cmds) :=
  (D.run_stable hP cmds (D.init script) ⟨h0, D.init_prompt script⟩).1

/-! ### the conservation law holds as long as no signal is queued on top of another one -/

theorem cleanStable : Stable (fun d => d.piled = false → Clean d) := by
  refine ⟨?_, ?_, ?_, ?_, ?_, ?_, ?_, ?_⟩
  · intro d d' hk hq _ hp h hf; exact Clean.ext hk hq (h (by rw [← hp]; exact hf))
  · intro d h hq hf
    rw [D.kp_piled_nil .cont 0 hq] at hf
    exact Clean.kp0 .cont (h hf) hq
  · intro d m h hm hf
    obtain ⟨hp, hcase⟩ := D.kp_piled_false hf
    rcases hcase with hq | hno
    · exact Clean.kp0 m (h hp) hq
    · exact Clean.kp0_keep m (h hp) hm hno
  · intro d s h hq hf
    have : ({ d with queue := [] } : D).piled = d.piled := rfl
    rw [D.kp_piled_nil (d := { d with queue := [] }) .cont s rfl, this] at hf
    exact Clean.inj .cont s (h hf) hq
  · intro d q0 a h _ hq hf
    obtain ⟨hp, _⟩ := D.kp_piled_false hf
    have hc := h hp
    have hl := hc.1
    rw [hq] at hl
    have hq0 : q0 = [] := by
      cases q0 with
      | nil => rfl
      | cons x l => simp at hl
    subst hq0
    exact Clean.inj .step a hc (by simpa using hq)
  · intro d s s' rest h hq hf
    have := (h hf).1; rw [hq] at this; simp at this
  · intro d p s h _ hf; exact Clean.send p s (h hf)
  · intro d s h _ hf; exact Clean.ext rfl rfl (h hf)

end BsVerif.Sig
