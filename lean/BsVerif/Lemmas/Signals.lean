import BsVerif.Model.Signals
/-! Helper lemmas for Props/C10: effect of the kernel primitives and of the tracer's atomic steps on the counters. -/
namespace BsVerif.Sig
open BsVerif.Gen.Signals

/-! ### kernel -/

theorem K.dequeue_fields {k k' : K} {s : Sig} (h : k.dequeue = some (s, k')) :
    k'.delivered = k.delivered ∧ k'.arrived = k.arrived ∧ k'.sent = k.sent ∧ k'.script = k.script
    ∧ k'.stop = k.stop ∧ k'.frames = k.frames ∧ k'.pos = k.pos ∧ k'.clock = k.clock := by
  unfold K.dequeue at h
  split at h
  · cases h; simp
  · split at h
    · cases h; simp
    · cases h

theorem K.runMain_spec (b : Bool) (k : K) (l : List PEv) :
    (K.runMain b k l).1.delivered = k.delivered ∧
    (∀ a, (K.runMain b k l).2 = .sigStop a → (K.runMain b k l).1.arrived = k.arrived ++ [a]) ∧
    ((∀ a, (K.runMain b k l).2 ≠ .sigStop a) → (K.runMain b k l).1.arrived = k.arrived) := by
  induction l with
  | nil => simp [K.runMain]
  | cons e r ih =>
    cases e with
    | point =>
      by_cases hb : b = true
      · simp [K.runMain, hb, K.fresh]
      · simp [K.runMain, hb]; simpa [hb] using ih
    | raise s => simp [K.runMain, K.fresh, K.arrive]
    | kill s => simp [K.runMain, K.fresh, K.arrive]

/-- what one resume request does to the handler log and to the arrival log -/
theorem K.resume_spec (k : K) (m : Mode) (s : Sig) (b : Bool) :
    (k.resume m s b).1.delivered = (if k.stop = .exited ∨ s = 0 then k.delivered else k.delivered ++ [s]) ∧
    (∀ a, (k.resume m s b).2 = .sigStop a → (k.resume m s b).1.arrived = k.arrived ++ [a]) ∧
    ((∀ a, (k.resume m s b).2 ≠ .sigStop a) → (k.resume m s b).1.arrived = k.arrived) := by
  unfold K.resume
  by_cases hx : k.stop = .exited
  · simp [hx]
  · simp only [hx, if_false, false_or]
    -- the state after signal disposition
    generalize hk1 : (if k.stop = KStop.sysEntry then k.popFrame else k) = k1
    have h1 : k1.delivered = k.delivered ∧ k1.arrived = k.arrived := by
      subst hk1; split <;> simp [K.popFrame] <;> split <;> simp
    generalize hk2 : (if s = 0 then k1 else k1.deliver s) = k2
    have h2 : k2.delivered = (if s = 0 then k.delivered else k.delivered ++ [s]) ∧ k2.arrived = k.arrived := by
      subst hk2; split <;> simp [K.deliver, h1]
    by_cases hst : m = .step ∧ s ≠ 0
    · simp [hst, h2]
    · simp only [hst, if_false]
      cases hd : k2.dequeue with
      | some p =>
        obtain ⟨a, k3⟩ := p
        have h3 := K.dequeue_fields hd
        simp [K.arrive, h3, h2]
      | none =>
        cases m with
        | step => simp; split <;> simp [K.fresh, h2]
        | sysc => simp; split <;> simp [K.fresh, h2]
        | cont =>
          simp only []
          have := K.runMain_spec b { k2 with frames := [] } k2.script
          simpa [h2] using this

theorem K.runMain_stop (b : Bool) (k : K) (l : List PEv) :
    (∀ a, (K.runMain b k l).2 = .sigStop a → (K.runMain b k l).1.stop = .sig a) ∧
    ((K.runMain b k l).1.stop = .exited → (K.runMain b k l).2 = .exitEv ∨ k.stop = .exited) := by
  induction l with
  | nil => simp [K.runMain]
  | cons e r ih =>
    cases e with
    | point =>
      by_cases hb : b = true
      · simp [K.runMain, hb, K.fresh]
      · simp [K.runMain, hb]; simpa [hb] using ih
    | raise s => simp [K.runMain, K.fresh, K.arrive]
    | kill s => simp [K.runMain, K.fresh, K.arrive]

/-- a reported signal-delivery-stop leaves the thread in that stop; the debuggee only exits under `PTRACE_CONT` -/
theorem K.resume_stop (k : K) (m : Mode) (s : Sig) (b : Bool) :
    (∀ a, (k.resume m s b).2 = .sigStop a → (k.resume m s b).1.stop = .sig a) ∧
    ((k.resume m s b).1.stop = .exited → k.stop = .exited ∨ m = .cont) := by
  unfold K.resume
  by_cases hx : k.stop = .exited
  · simp [hx]
  · simp only [hx, if_false]
    generalize (if s = 0 then (if k.stop = KStop.sysEntry then k.popFrame else k)
      else (if k.stop = KStop.sysEntry then k.popFrame else k).deliver s) = k2
    by_cases hst : m = .step ∧ s ≠ 0
    · simp [hst]
    · simp only [hst, if_false]
      cases hd : k2.dequeue with
      | some p => obtain ⟨a, k3⟩ := p; simp [K.arrive]
      | none =>
        cases m with
        | step => simp; split <;> simp
        | sysc => simp; split <;> simp
        | cont =>
          simp only []
          have := K.runMain_stop b { k2 with frames := [] } k2.script
          exact ⟨this.1, fun _ => Or.inr (by trivial)⟩

theorem K.send_fields (k : K) (p : Bool) (s : Sig) :
    (k.send p s).delivered = k.delivered ∧ (k.send p s).arrived = k.arrived ∧ (k.send p s).stop = k.stop
    ∧ (k.send p s).script = k.script ∧ (k.send p s).pos = k.pos ∧ (k.send p s).clock = k.clock := by
  unfold K.send; split <;> split <;> simp

/-! ### the tracer's atomic steps -/

@[simp] theorem D.kres_queue (d : D) (m : Mode) (s : Sig) : (d.kres m s).1.queue = d.queue := rfl
@[simp] theorem D.kres_k (d : D) (m : Mode) (s : Sig) : (d.kres m s).1.k = (d.k.resume m s d.bpOn).1 := rfl
@[simp] theorem D.kres_ev (d : D) (m : Mode) (s : Sig) : (d.kres m s).2 = (d.k.resume m s d.bpOn).2 := rfl
@[simp] theorem D.kres_bpOn (d : D) (m : Mode) (s : Sig) : (d.kres m s).1.bpOn = d.bpOn := rfl
@[simp] theorem D.kres_reported (d : D) (m : Mode) (s : Sig) : (d.kres m s).1.reported = d.reported := rfl
@[simp] theorem D.push_k (d : D) (s : Sig) : (d.push s).k = d.k := by unfold D.push; split <;> rfl
@[simp] theorem D.push_bpOn (d : D) (s : Sig) : (d.push s).bpOn = d.bpOn := by unfold D.push; split <;> rfl
@[simp] theorem D.push_reported (d : D) (s : Sig) : (d.push s).reported = d.reported := by unfold D.push; split <;> rfl
theorem D.push_queue (d : D) (s : Sig) :
    (d.push s).queue = if s ∈ transparent then d.queue else d.queue ++ [s] := by unfold D.push; split <;> rfl

theorem D.kp_sig {d : D} {m : Mode} {s a : Sig} (h : (d.k.resume m s d.bpOn).2 = .sigStop a) :
    d.kp m s = ((d.kres m s).1.push a, .sigStop a) := by
  have : (d.kres m s).2 = .sigStop a := h
  simp only [D.kp, this]

theorem D.kp_other {d : D} {m : Mode} {s : Sig} (h : ∀ a, (d.k.resume m s d.bpOn).2 ≠ .sigStop a) :
    d.kp m s = d.kres m s := by
  have h' : ∀ a, (d.kres m s).2 ≠ .sigStop a := h
  simp only [D.kp]

theorem D.kp_ev (d : D) (m : Mode) (s : Sig) : (d.kp m s).2 = (d.k.resume m s d.bpOn).2 := by
  cases hw : (d.k.resume m s d.bpOn).2 with
  | sigStop a => rw [D.kp_sig hw]
  | _ => rw [D.kp_other (by simp [hw])]; simpa using hw

theorem D.kp_k (d : D) (m : Mode) (s : Sig) : (d.kp m s).1.k = (d.k.resume m s d.bpOn).1 := by
  cases hw : (d.k.resume m s d.bpOn).2 with
  | sigStop a => rw [D.kp_sig hw]; simp
  | _ => rw [D.kp_other (by simp [hw])]; simp

/-- effect of one atomic step on the counters of a signal `x`: `δ` = "a signal-delivery-stop of `x` was reported" -/
theorem D.kp_counts (d : D) (m : Mode) (s x : Sig) :
    (d.kp m s).1.k.delivered.count x
      = d.k.delivered.count x + (if d.k.stop = .exited ∨ s = 0 then 0 else if s = x then 1 else 0) ∧
    ∃ δ : Nat, δ ≤ 1 ∧ (δ = 1 ↔ (d.kp m s).2 = .sigStop x) ∧
      (d.kp m s).1.k.arrived.count x = d.k.arrived.count x + δ ∧
      (d.kp m s).1.queue.count x = d.queue.count x + (if x ∈ transparent then 0 else δ) := by
  have hs := K.resume_spec d.k m s d.bpOn
  have hev := D.kp_ev d m s
  constructor
  · rw [D.kp_k, hs.1]; split <;> simp [List.count_append, List.count_singleton] <;> split <;> simp_all
  · cases hw : (d.k.resume m s d.bpOn).2 with
    | sigStop a =>
      have harr := hs.2.1 a hw
      have e : d.kp m s = ((d.kres m s).1.push a, .sigStop a) := D.kp_sig hw
      by_cases hax : a = x
      · subst hax
        refine ⟨1, by omega, by simp [e], ?_, ?_⟩
        · simp [e, harr, List.count_append]
        · simp [e, D.push_queue]; split <;> simp_all [List.count_append]
      · refine ⟨0, by omega, by simp [e, hax], ?_, ?_⟩
        · simp [e, harr, List.count_append, hax]
        · simp [e, D.push_queue]; split <;> simp [List.count_append, hax]
    | trap | trap5 | trapBp | exitEv | unmodelled =>
      have harr := hs.2.2 (by simp [hw])
      have e : d.kp m s = d.kres m s := D.kp_other (by simp [hw])
      exact ⟨0, by omega, by simp [e, hw], by simp [e, harr], by simp [e]⟩

/-! ### every command is a sequence of atomic steps: a predicate closed under them holds at every prompt -/

@[simp] theorem D.kres_stepArr (d : D) (m : Mode) (s : Sig) : (d.kres m s).1.stepArr = d.stepArr := rfl
@[simp] theorem D.push_stepArr (d : D) (s : Sig) : (d.push s).stepArr = d.stepArr := by unfold D.push; split <;> rfl
@[simp] theorem D.kp_stepArr (d : D) (m : Mode) (s : Sig) : (d.kp m s).1.stepArr = d.stepArr := by
  cases hw : (d.k.resume m s d.bpOn).2 with
  | sigStop a => rw [D.kp_sig hw]; simp
  | _ => rw [D.kp_other (by simp [hw])]; simp

/-- closure conditions: the atomic steps the debugger model is made of -/
structure Stable (P : D → Prop) : Prop where
  /-- `P` only looks at the kernel state, the queue and the ghost flag -/
  ext : ∀ d d' : D, d'.k = d.k → d'.queue = d.queue → d'.stepArr = d.stepArr → P d → P d'
  /-- `resume` with an empty queue: `PTRACE_CONT(0)` (+ queueing of the reported signal) -/
  kp0c : ∀ (d : D) (b : Bool), P d → d.queue = [] → P ({ d with bpOn := b }.kp .cont 0).1
  /-- `resume`: the only queued signal is taken off the queue and injected with `PTRACE_CONT` -/
  pop : ∀ (d : D) (s : Sig), P d → d.queue = [s] → P ({ d with queue := [] }.kp .cont s).1
  /-- `single_step`: `PTRACE_SINGLESTEP(0)` -/
  kps0 : ∀ (d : D), P d → P (d.kps .step 0).1
  /-- `single_step`: a quiet signal that has just been queued (or is transparent) is injected with `PTRACE_SINGLESTEP` -/
  qstep : ∀ (d : D) (a : Sig), P d → a ∈ quiet → (a ∈ d.queue ∨ a ∈ transparent) → d.stepArr = true →
    P (d.kps .step a).1
  /-- `resume` with two queued signals: the head is dropped -/
  drop : ∀ (d : D) (s s' : Sig) (rest : List Sig), P d → d.queue = s :: s' :: rest → P { d with queue := s' :: rest }
  /-- `PTRACE_SYSCALL` without `apply_new_status` -/
  sysc : ∀ d : D, P d → P d.ksys.1
  /-- a signal sent from outside -/
  send : ∀ (d : D) (p : Bool) (s : Sig), P d → P { d with k := d.k.send p s }

theorem Stable.ext' {P : D → Prop} (hP : Stable P) {d d' : D} (h : P d) (hk : d'.k = d.k) (hq : d'.queue = d.queue)
    (hs : d'.stepArr = d.stepArr) : P d' := hP.ext d d' hk hq hs h

/-- the same for predicates that do not look at the ghost flag -/
structure StableB (P : D → Prop) : Prop where
  ext : ∀ d d' : D, d'.k = d.k → d'.queue = d.queue → P d → P d'
  kp0 : ∀ (d : D) (m : Mode) (b : Bool), P d → P ({ d with bpOn := b }.kp m 0).1
  pop : ∀ (d : D) (s : Sig), P d → d.queue = [s] → P ({ d with queue := [] }.kp .cont s).1
  qstep : ∀ (d : D) (a : Sig), P d → a ∈ quiet → (a ∈ d.queue ∨ a ∈ transparent) → P (d.kp .step a).1
  drop : ∀ (d : D) (s s' : Sig) (rest : List Sig), P d → d.queue = s :: s' :: rest → P { d with queue := s' :: rest }
  sysc : ∀ d : D, P d → P (d.kres .sysc 0).1
  send : ∀ (d : D) (p : Bool) (s : Sig), P d → P { d with k := d.k.send p s }

theorem D.kps_sig {d : D} {m : Mode} {s a : Sig} (h : (d.kp m s).2 = .sigStop a) :
    d.kps m s = ({ (d.kp m s).1 with stepArr := true }, .sigStop a) := by
  simp only [D.kps, h]

theorem D.kps_other {d : D} {m : Mode} {s : Sig} (h : ∀ a, (d.kp m s).2 ≠ .sigStop a) : d.kps m s = d.kp m s := by
  simp only [D.kps]

theorem D.ksys_sig {d : D} {a : Sig} (h : (d.kres .sysc 0).2 = .sigStop a) :
    d.ksys = ({ (d.kres .sysc 0).1 with stepArr := true }, .sigStop a) := by
  simp only [D.ksys, h]

theorem D.ksys_other {d : D} (h : ∀ a, (d.kres .sysc 0).2 ≠ .sigStop a) : d.ksys = d.kres .sysc 0 := by
  simp only [D.ksys]

theorem D.kps_ev (d : D) (m : Mode) (s : Sig) : (d.kps m s).2 = (d.kp m s).2 := by
  cases hw : (d.kp m s).2 with
  | sigStop a => rw [D.kps_sig hw]
  | _ => rw [D.kps_other (by simp [hw])]; exact hw

theorem D.ksys_ev (d : D) : d.ksys.2 = (d.kres .sysc 0).2 := by
  cases hw : (d.kres .sysc 0).2 with
  | sigStop a => rw [D.ksys_sig hw]
  | _ => rw [D.ksys_other (by intro a h; rw [hw] at h; cases h)]; exact hw

theorem StableB.toStable {P : D → Prop} (h : StableB P) : Stable P where
  ext := fun d d' hk hq _ hp => h.ext d d' hk hq hp
  kp0c := fun d b hp _ => h.kp0 d .cont b hp
  pop := h.pop
  kps0 := fun d hp => by
    have h1 : P (d.kp .step 0).1 := h.kp0 d .step d.bpOn hp
    cases hw : (d.kp .step 0).2 with
    | sigStop a => rw [D.kps_sig hw]; exact h.ext (d.kp .step 0).1 _ rfl rfl h1
    | _ => rw [D.kps_other (by simp [hw])]; exact h1
  qstep := fun d a hp ha hq _ => by
    have h1 := h.qstep d a hp ha hq
    cases hw : (d.kp .step a).2 with
    | sigStop a' => rw [D.kps_sig hw]; exact h.ext (d.kp .step a).1 _ rfl rfl h1
    | _ => rw [D.kps_other (by simp [hw])]; exact h1
  drop := h.drop
  sysc := fun d hp => by
    have h1 := h.sysc d hp
    cases hw : (d.kres .sysc 0).2 with
    | sigStop a => rw [D.ksys_sig hw]; exact h.ext (d.kres .sysc 0).1 _ rfl rfl h1
    | _ => rw [D.ksys_other (by intro a h; rw [hw] at h; cases h)]; exact h1
  send := h.send

theorem D.kp_queued {d : D} {m : Mode} {s a : Sig} (h : (d.kp m s).2 = .sigStop a) :
    a ∈ (d.kp m s).1.queue ∨ a ∈ transparent := by
  have hw : (d.k.resume m s d.bpOn).2 = .sigStop a := by rw [← D.kp_ev]; exact h
  rw [D.kp_sig hw]
  by_cases ht : a ∈ transparent
  · exact Or.inr ht
  · left; simp [D.push_queue, ht]

theorem D.kps_queued {d : D} {m : Mode} {s a : Sig} (h : (d.kps m s).2 = .sigStop a) :
    (a ∈ (d.kps m s).1.queue ∨ a ∈ transparent) ∧ (d.kps m s).1.stepArr = true := by
  have h' : (d.kp m s).2 = .sigStop a := by rw [← D.kps_ev]; exact h
  have hq := D.kp_queued h'
  rw [D.kps_sig h']
  exact ⟨hq, rfl⟩

theorem D.ssLoop_stable {P : D → Prop} (hP : Stable P) :
    ∀ (f ini : Nat) (d : D) (w : WEv), P d →
      (∀ a, w = .sigStop a → (a ∈ d.queue ∨ a ∈ transparent) ∧ d.stepArr = true) →
      P (D.ssLoop f ini d w).1 := by
  intro f
  induction f with
  | zero => intro ini d w h _; simpa [D.ssLoop] using h
  | succ f ih =>
    intro ini d w h hq
    cases w with
    | trap =>
      simp only [D.ssLoop]
      split
      · exact ih _ _ _ (hP.kps0 d h) (fun a ha => D.kps_queued ha)
      · exact h
    | trapBp => simpa [D.ssLoop] using h
    | trap5 =>
      simp only [D.ssLoop]
      have h1 := hP.sysc d h
      split
      all_goals first
        | exact h1
        | exact ih _ _ _ (hP.kps0 _ h1) (fun a ha => D.kps_queued ha)
    | sigStop s =>
      simp only [D.ssLoop]
      split
      · rename_i hs
        have h1 := hP.qstep d s h hs (hq s rfl).1 (hq s rfl).2
        exact ih _ _ _ h1 (fun a ha => D.kps_queued ha)
      · exact h
    | exitEv => simpa [D.ssLoop] using h
    | unmodelled => simpa [D.ssLoop] using h

theorem D.singleStep_stable {P : D → Prop} (hP : Stable P) (d : D) (h : P d) : P d.singleStep.1 := by
  unfold D.singleStep
  exact D.ssLoop_stable hP _ _ _ _ (hP.kps0 d h) (fun a ha => D.kps_queued ha)

theorem D.resume_stable {P : D → Prop} (hP : Stable P) :
    ∀ (f : Nat) (d : D), P d → P (D.resume f d).1 := by
  intro f
  induction f with
  | zero => intro d h; simpa [D.resume] using h
  | succ f ih =>
    intro d h
    unfold D.resume
    split
    · rename_i s s' rest hq
      exact hP.drop d s s' rest h hq
    · rename_i q hne
      have h1 : P ({ d with queue := [] }.kp .cont (d.queue.headD 0)).1 := by
        match hq : d.queue with
        | [] =>
          have : ({ d with queue := [] } : D) = { d with bpOn := d.bpOn } := by cases d; simp_all
          rw [this]; simpa using hP.kp0c d d.bpOn h hq
        | [s] => simpa using hP.pop d s h hq
        | s :: s' :: rest => exact absurd hq (hne s s' rest)
      simp only []
      split
      · split
        · exact ih _ h1
        · exact h1
      all_goals exact h1

theorem D.afterStep_stable {P : D → Prop} (hP : Stable P) (d : D) (h : P d) : P d.afterStep.1 := by
  have h1 := D.resume_stable hP (D.resFuel d) d h
  unfold D.afterStep
  simp only []
  split
  all_goals first
    | exact h1
    | exact hP.ext' h1 rfl rfl rfl

theorem D.stepOut_stable {P : D → Prop} (hP : Stable P) (d : D) (o : SRes) (h : P d) : P (D.stepOut d o).1 := by
  cases o <;> first | exact h | exact hP.ext' h rfl rfl rfl

theorem D.contExec_stable {P : D → Prop} (hP : Stable P) (d : D) (h : P d) : P d.contExec.1 := by
  have h1 := D.singleStep_stable hP d h
  unfold D.contExec
  split
  · simp only []
    split
    · exact D.afterStep_stable hP _ h1
    · exact D.stepOut_stable hP _ _ h1
  · exact D.afterStep_stable hP d h

theorem D.stepiExec_stable {P : D → Prop} (hP : Stable P) (d : D) (h : P d) : P d.stepiExec.1 :=
  D.stepOut_stable hP _ _ (D.singleStep_stable hP d h)

theorem D.drainLoop_stable {P : D → Prop} (hP : Stable P) :
    ∀ (n : Nat) (d : D) (acc : List Out), P d → P (D.drainLoop n d acc).1 := by
  intro n
  induction n with
  | zero => intro d acc h; simpa [D.drainLoop] using h
  | succ n ih =>
    intro d acc h
    have h1 := D.contExec_stable hP d h
    unfold D.drainLoop
    split
    · exact h
    · simp only []
      split
      all_goals first
        | exact h1
        | exact ih _ _ h1

/-- a predicate closed under the atomic steps is preserved by every command -/
theorem D.exec_stable {P : D → Prop} (hP : Stable P) (d : D) (c : Cmd) (h : P d) : P (d.exec c).1 := by
  cases c with
  | brk => simp only [D.exec]; split <;> first | exact h | exact hP.ext' h rfl rfl rfl
  | unbrk => simp only [D.exec]; split <;> first | exact h | (split <;> first | exact h | exact hP.ext' h rfl rfl rfl)
  | start =>
    simp only [D.exec]
    split
    · exact h
    · split
      · exact h
      · exact D.contExec_stable hP _ (hP.ext' (d' := { d with started := true }) h rfl rfl rfl)
  | cont =>
    simp only [D.exec]
    split
    · exact h
    · split
      · exact D.contExec_stable hP _ h
      · exact h
  | stepi =>
    simp only [D.exec]
    split
    · exact h
    · split
      · exact D.stepiExec_stable hP _ h
      · exact h
  | send p s =>
    simp only [D.exec]
    split
    · exact h
    · split
      · exact hP.send d p s h
      · exact h
  | drain =>
    simp only [D.exec]
    split
    · exact h
    · split
      · exact hP.ext' (D.drainLoop_stable hP 40 { d with bpOn := false } [] (hP.ext' (d' := { d with bpOn := false }) h rfl rfl rfl)) rfl rfl rfl
      · exact hP.ext' (d := d) h rfl rfl rfl

/-- ... hence at every prompt of every history -/
theorem D.run_stable {P : D → Prop} (hP : Stable P) : ∀ (cs : List Cmd) (d : D), P d → P (d.run cs) := by
  intro cs
  induction cs with
  | nil => intro d h; exact h
  | cons c cs ih => intro d h; exact ih _ (D.exec_stable hP d c h)

theorem D.kps_stepArr_true {d : D} {m : Mode} {s : Sig} (h : d.stepArr = true) : (d.kps m s).1.stepArr = true := by
  cases hw : (d.kp m s).2 with
  | sigStop a => rw [D.kps_sig hw]
  | _ => rw [D.kps_other (by simp [hw])]; simpa using h


end BsVerif.Sig
