import BsVerif.Model.DqeVal
/-! Lexical and round-trip lemmas for the DQE grammar mirror (`Model/Dqe.lean`). -/
namespace BsVerif.Dqe

/-! ### characters -/

theorem ne_of_class (p : Char → Bool) (c d : Char) (h : p c = true) (hd : p d = false) : c ≠ d := by
  rintro rfl; simp [h] at hd

theorem identCont_notWs (c : Char) (h : isIdentCont c = true) : isWs c = false := by
  have hn : c.toNat = c.val.toNat := rfl
  have ha : 'a'.val.toNat = 97 := rfl
  have hz : 'z'.val.toNat = 122 := rfl
  have hA : 'A'.val.toNat = 65 := rfl
  have hZ : 'Z'.val.toNat = 90 := rfl
  have h0 : '0'.val.toNat = 48 := rfl
  have h9 : '9'.val.toNat = 57 := rfl
  simp only [isIdentCont, isAlpha, isDigit, isWs, Bool.or_eq_true, Bool.and_eq_true, decide_eq_true_eq, beq_iff_eq,
    Char.le_def, UInt32.le_iff_toNat_le, ne_eq, Bool.or_eq_false_iff, Bool.and_eq_false_iff, beq_eq_false_iff_ne,
    decide_eq_false_iff_not, hn, ha, hz, hA, hZ, h0, h9] at h ⊢
  rcases h with h | rfl
  · omega
  · decide

theorem identStart_cont (c : Char) (h : isIdentStart c = true) : isIdentCont c = true := by
  simp only [isIdentStart, isIdentCont, Bool.or_eq_true] at h ⊢
  rcases h with h | h
  · exact Or.inl (Or.inl h)
  · exact Or.inr h

/-! ### white space, symbols -/

theorem skipWs_cons (c : Char) (s : Str) (h : isWs c = false) : skipWs (c :: s) = c :: s := by
  simp [skipWs, List.dropWhile, h]

theorem skipWs_nil : skipWs [] = [] := rfl

/-- the next character (if any) is not white space -/
def startsNonWs : Str → Bool
  | [] => true
  | c :: _ => !isWs c

theorem skipWs_id (s : Str) (h : startsNonWs s = true) : skipWs s = s := by
  cases s with
  | nil => rfl
  | cons c r => exact skipWs_cons c r (by simpa [startsNonWs] using h)

theorem sym_hit (c : Char) (s : Str) (hc : isWs c = false) : sym c (c :: s) = some (skipWs s) := by
  simp [sym, skipWs_cons c s hc]

theorem sym_miss (c x : Char) (s : Str) (hx : isWs x = false) (hne : x ≠ c) : sym c (x :: s) = none := by
  simp [sym, skipWs_cons x s hx, hne]

theorem sym_nil (c : Char) : sym c [] = none := rfl

/-! ### identifiers -/

def isIdentB : Str → Bool
  | [] => false
  | c :: cs => isIdentStart c && cs.all isIdentCont

/-- the next character (if any) cannot continue an identifier -/
def stopsIdent : Str → Bool
  | [] => true
  | c :: _ => !isIdentCont c

theorem takeWhile_append_stop (p : Char → Bool) (a b : Str) (ha : a.all p = true)
    (hb : ∀ c r, b = c :: r → p c = false) : (a ++ b).takeWhile p = a ∧ (a ++ b).dropWhile p = b := by
  induction a with
  | nil =>
    cases b with
    | nil => simp
    | cons c r => simp [hb c r rfl]
  | cons x xs ih =>
    simp only [List.all_cons, Bool.and_eq_true] at ha
    simp [ha.1, ih ha.2]

theorem scanIdent_append (n rest : Str) (hn : isIdentB n = true) (hr : stopsIdent rest = true) :
    scanIdent (n ++ rest) = some (n, rest) := by
  cases n with
  | nil => simp [isIdentB] at hn
  | cons c cs =>
    simp only [isIdentB, Bool.and_eq_true] at hn
    have := takeWhile_append_stop isIdentCont cs rest hn.2 (by
      intro x r hx; subst hx; simpa [stopsIdent] using hr)
    simp [scanIdent, hn.1, this.1, this.2]

/-- what may follow an atom or a postfix operator in canonical text: nothing, `.`, `[` or `)` -/
def followPost : Str → Bool
  | [] => true
  | c :: _ => c == '.' || c == ')' || c == '['

theorem followPost_facts (s : Str) (h : followPost s = true) :
    startsNonWs s = true ∧ stopsIdent s = true ∧ stripPrefix [':', ':'] s = none := by
  cases s with
  | nil => simp [startsNonWs, stopsIdent, stripPrefix]
  | cons c r =>
    simp only [followPost, Bool.or_eq_true, beq_iff_eq] at h
    rcases h with (rfl | rfl) | rfl <;> simp [startsNonWs, stopsIdent, stripPrefix] <;> decide

theorem ident_head (n : Str) (hn : isIdentB n = true) : ∃ c cs, n = c :: cs ∧ isIdentStart c = true := by
  cases n with
  | nil => simp [isIdentB] at hn
  | cons c cs => simp only [isIdentB, Bool.and_eq_true] at hn; exact ⟨c, cs, rfl, hn.1⟩

theorem rustIdent_ident (n rest : Str) (hn : isIdentB n = true) (hr : followPost rest = true) :
    rustIdent (n ++ rest) = some (n, rest) := by
  obtain ⟨c, cs, rfl, hc⟩ := ident_head n hn
  obtain ⟨h1, h2, h3⟩ := followPost_facts rest hr
  have hws : isWs c = false := identCont_notWs c (identStart_cont c hc)
  have hcolon : c ≠ ':' := ne_of_class isIdentStart c ':' hc (by decide)
  have hsk : skipWs (c :: cs ++ rest) = c :: cs ++ rest := skipWs_cons c _ hws
  have hsp : stripPrefix [':', ':'] (c :: cs ++ rest) = none := by
    simp [stripPrefix, Ne.symm hcolon]
  have hscan := scanIdent_append (c :: cs) rest hn h2
  have htail : scanPathTail rest.length rest = ([], rest) := by
    cases hl : rest.length with
    | zero => simp [scanPathTail]
    | succ k => simp [scanPathTail, h3]
  unfold rustIdent
  simp only [hsk, hsp, hscan, htail, List.append_nil, skipWs_id rest h1, List.nil_append]


end BsVerif.Dqe
