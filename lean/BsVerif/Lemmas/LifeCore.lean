import BsVerif.Model.Lifecycle
/-! Helper lemmas for C11 (process-table and exit-status part): frame lemmas for the projection `core`,
the three ways a run can end (`RunEnd`), the process-table invariant `InvKill`. The property theorems are in Props/C11.lean. -/
namespace BsVerif.Life

/-! ## the part of the state the process-table clauses talk about -/
structure Core where
  prog : Prog
  old : List Proc
  alive : Bool
  reaped : Bool
  child : Bool
  status : Status
  external : Bool
  detached : Bool
  dropped : Bool

def core (s : St) : Core :=
  ⟨s.prog, s.old, s.proc.alive, s.proc.reaped, s.proc.child, s.status, s.external, s.detached, s.dropped⟩

theorem foldl_core {α} (f : St → α → St) (h : ∀ s x, core (f s x) = core s) (l : List α) (s : St) :
    core (l.foldl f s) = core s := by
  induction l generalizing s with
  | nil => rfl
  | cons x xs ih => simp only [List.foldl]; rw [ih, h]

@[simp] theorem core_pokeByte (s : St) (a b) : core (pokeByte s a b) = core s := by
  unfold pokeByte; split <;> rfl
@[simp] theorem core_bpDisable (s : St) (b) : core (bpDisable s b) = core s := core_pokeByte ..

@[simp] theorem core_addAndEnable (s : St) (b) : core (addAndEnable s b) = core s := by
  unfold addAndEnable; split
  · split
    · exact (core_pokeByte _ _ _).trans (core_bpDisable _ _)
    · exact core_pokeByte _ _ _
  · rfl

@[simp] theorem core_addUninit (s : St) (u) : core (addUninit s u) = core s := rfl

@[simp] theorem core_removeByAddr (s : St) (k) : core (removeByAddr s k).1 = core s := by
  unfold removeByAddr; split
  · rfl
  · split
    · rfl
    · split
      · rfl
      · exact core_bpDisable _ _

@[simp] theorem core_enableAll (s : St) : core (enableAll s) = core s := by
  unfold enableAll; rw [foldl_core _ (fun s x => core_addAndEnable s _)]; rfl

@[simp] theorem core_enableEntry (s : St) : core (enableEntry s) = core s := by
  unfold enableEntry; split
  · rfl
  · exact core_addAndEnable _ _

@[simp] theorem core_backToUninit (s : St) (b) : core (backToUninit s b) = core s := by
  unfold backToUninit; split <;> rfl

@[simp] theorem core_disableAll (s : St) : core (disableAll s) = core s := by
  unfold disableAll
  rw [foldl_core _ (fun s x => (core_backToUninit _ _).trans (core_bpDisable _ _))]; rfl

@[simp] theorem core_syncAll (s : St) (d) : core (syncAll s d) = core s := rfl

@[simp] theorem core_hwDisable (s : St) (w) : core (hwDisable s w).1 = core s := by
  unfold hwDisable; split
  · rfl
  · split <;> rfl

@[simp] theorem core_hwEnable (s : St) : core (hwEnable s).1 = core s := by
  unfold hwEnable; split
  · rfl
  · split <;> rfl

@[simp] theorem core_watch (s : St) (a) : core (watch s a).1 = core s := by
  unfold watch; split
  · rfl
  · split
    · rfl
    · split
      · rename_i h; have := core_hwEnable s; rw [h] at this; exact this
      · rename_i h; have := core_hwEnable s; rw [h] at this; exact this

@[simp] theorem core_removeWp (s : St) (w) : core (removeWp s w).1 = core s := by
  unfold removeWp; split
  · rename_i h; have := core_hwDisable s w; rw [h] at this; exact this
  · rename_i h; have := core_hwDisable s w; rw [h] at this; exact this

@[simp] theorem core_unwatch (s : St) (a) : core (unwatch s a).1 = core s := by
  unfold unwatch; split
  · rfl
  · rename_i pre w post _
    split
    · rename_i h; have := core_removeWp { s with wps := pre ++ post } w; rw [h] at this; exact this
    · rename_i h; have := core_removeWp { s with wps := pre ++ post } w; rw [h] at this; exact this

@[simp] theorem core_clearAll (s : St) : core (clearAll s) = core s := by
  unfold clearAll
  show core (List.foldl _ _ _) = _
  rw [foldl_core _ (fun s x => core_removeWp s x)]; rfl

@[simp] theorem core_disableWps (s : St) : core (disableWps s) = core s := by
  unfold disableWps
  show core (List.foldl _ _ _) = _
  rw [foldl_core]; · rfl
  intro s w
  split
  · rename_i h; have := core_hwDisable s w; rw [h] at this; exact this
  · rename_i h; have := core_hwDisable s w; rw [h] at this; exact this

@[simp] theorem core_refreshWps (s : St) : core (refreshWps s) = core s := by
  unfold refreshWps
  rw [foldl_core]; · rfl
  intro s w
  split
  · rename_i h; have := core_hwEnable s; rw [h] at this; exact this
  · rename_i h; have := core_hwEnable s; rw [h] at this; exact this

@[simp] theorem core_stopAt (s : St) (n) : core (stopAt s n) = core s := rfl

@[simp] theorem core_runFrom (l : List Site) (s : St) : core (runFrom s l) = core s := by
  induction l generalizing s with
  | nil => rfl
  | cons x r ih =>
    unfold runFrom; simp only []
    split
    · rfl
    · rw [ih]; rfl

@[simp] theorem core_stepOver (s : St) : core (stepOver s) = core s := by
  unfold stepOver; split
  · rfl
  · split
    · rfl
    · simp only []
      split
      · exact (core_pokeByte _ _ _).trans (core_bpDisable _ _)
      · exact (core_pokeByte _ _ _).trans (core_bpDisable _ _)


/-! ### what a run can do to the process table: nothing, or the process ends on its own -/
def Core.died (c : Core) : Core := { c with alive := false, reaped := c.child, status := .exited }

@[simp] theorem core_onExit (s : St) (c) : core (onExit s c) = (core s).died := by
  unfold onExit; rw [core_disableAll, core_disableWps]; rfl
@[simp] theorem core_onKilled (s : St) (g) : core (onKilled s g) = (core s).died := rfl

/-- the three ways a run (`continue_execution`) can end, seen from the process table -/
inductive RunEnd (s : St) : St × Out → Prop
  | same (s' o) : core s' = core s → (∀ c, o ≠ .exit c) → RunEnd s (s', o)
  | exited (s' c) : s.prog.fin = .exit c → core s' = (core s).died → RunEnd s (s', .exit c)
  | killed (s' g n) : s.prog.fin = .abort g n → core s' = (core s).died → RunEnd s (s', .err)

theorem runEnd_finish (s : St) : RunEnd s (finish s) := by
  unfold finish
  split
  · rename_i c h; exact .exited _ c h (core_onExit _ _)
  · rename_i g n h
    split
    · exact .killed _ g n h (core_onKilled _ _)
    · exact .same _ _ rfl (by intro c; split <;> simp)

theorem runEnd_of_core {s t : St} {r : St × Out} (h : core t = core s) (hr : RunEnd t r) : RunEnd s r := by
  have hp : t.prog = s.prog := congrArg Core.prog h
  cases hr with
  | same s' o h1 h2 => exact .same _ _ (h1.trans h) h2
  | exited s' c h1 h2 => exact .exited _ c (hp ▸ h1) (h ▸ h2)
  | killed s' g n h1 h2 => exact .killed _ g n (hp ▸ h1) (h ▸ h2)

theorem runEnd_traceLoop (fuel : Nat) (s : St) : RunEnd s (traceLoop fuel s) := by
  induction fuel generalizing s with
  | zero => exact .same _ _ rfl (by intro c; simp)
  | succ f ih =>
    unfold traceLoop
    simp only []
    split
    · refine runEnd_of_core ?_ (runEnd_finish _); exact core_runFrom _ _
    · split
      · exact .same _ _ (core_runFrom _ _) (by intro c; simp)
      · split
        · exact .same _ _ (core_runFrom _ _) (by intro c; simp)
        · refine runEnd_of_core ?_ (ih _); rw [core_stepOver]; exact core_runFrom _ _
        · refine runEnd_of_core ?_ (ih _)
          rw [core_stepOver, core_addAndEnable, core_refreshWps, core_enableAll]; exact core_runFrom _ _

/-! ## C11_drop_kills_launched -/
/-- invariant of the process table -/
structure InvKill (c : Core) : Prop where
  old : ∀ q ∈ c.old, q.child = true → q.alive = false ∧ q.reaped = true
  exited : c.status = .exited → c.alive = false ∧ (c.child = true → c.reaped = true)
  ext : c.external = true → c.child = false
  here : c.detached = false ∧ c.dropped = false

theorem invKill_died {c : Core} (h : InvKill c) : InvKill c.died :=
  ⟨h.old, fun _ => ⟨rfl, fun hc => hc⟩, h.ext, h.here⟩

theorem invKill_runEnd {s : St} {r : St × Out} (h : InvKill (core s)) (hr : RunEnd s r) : InvKill (core r.1) := by
  cases hr with
  | same s' o h1 _ => show InvKill (core s'); rw [h1]; exact h
  | exited s' c _ h2 => show InvKill (core s'); rw [h2]; exact invKill_died h
  | killed s' g n _ h2 => show InvKill (core s'); rw [h2]; exact invKill_died h

@[simp] theorem core_killCur (s : St) :
    core (killCur s) = { core s with alive := false, reaped := (core s).child } := rfl

/-- state in which the run of a restart begins: a fresh child; the previous process went to `old`, dead and
collected unless it had already ended by itself -/
theorem restart_run (s : St) : ∃ t : St, restart s = traceLoop (fuelFor t) t ∧
    (core t).prog = s.prog ∧ (core t).alive = true ∧ (core t).child = true ∧ (core t).status = .inProgress ∧
    (core t).external = false ∧ (core t).detached = s.detached ∧ (core t).dropped = s.dropped ∧
    ∃ q, (core t).old = s.old ++ [q] ∧
      ((q.alive = false ∧ q.reaped = q.child) ∨ (s.status = .exited ∧ q = s.proc)) := by
  unfold restart startFlow
  refine ⟨_, rfl, ?_⟩
  rw [core_enableEntry]
  cases hst : s.status with
  | unload => simp [install, killCur, core, hst, freshProc, procDead]
  | exited => simp [install, core, hst, freshProc]
  | inProgress =>
    have h1 : core (disableAll (disableWps s)) = core s := by rw [core_disableAll, core_disableWps]
    have hs : (disableAll (disableWps s)).status = .inProgress := by
      have := congrArg Core.status h1; simpa [core, hst] using this
    have e1 := congrArg Core.prog h1; have e2 := congrArg Core.old h1
    have e3 := congrArg Core.detached h1; have e4 := congrArg Core.dropped h1
    simp only [core] at e1 e2 e3 e4
    simp [install, killCur, core, hs, freshProc, procDead, e1, e2, e3, e4]

theorem invKill_restart (s : St) (h : InvKill (core s)) : InvKill (core (restart s).1) := by
  obtain ⟨t, ht, _, ha, hc, hst, hext, hd, hdr, q, hold, hq⟩ := restart_run s
  rw [ht]
  apply invKill_runEnd _ (runEnd_traceLoop _ _)
  refine ⟨?_, ?_, ?_, ?_⟩
  · intro x hx hxc
    rw [hold, List.mem_append] at hx
    cases hx with
    | inl hx => exact h.old x hx hxc
    | inr hx =>
      have hx : x = q := by simpa using hx
      subst hx
      cases hq with
      | inl hq => exact ⟨hq.1, by rw [hq.2]; exact hxc⟩
      | inr hq =>
        obtain ⟨hse, hqe⟩ := hq
        subst hqe
        have := h.exited hse
        exact ⟨this.1, this.2 hxc⟩
  · intro hh; rw [hst] at hh; cases hh
  · intro hh; rw [hext] at hh; cases hh
  · exact ⟨hd.trans h.here.1, hdr.trans h.here.2⟩

theorem core_log (s : St) : core { s with log := [] } = core s := rfl

theorem invKill_exec (s : St) (op : Op) (h : InvKill (core s)) : InvKill (core (exec s op).1) := by
  unfold exec
  split
  · exact h
  · cases op with
    | brk a =>
      simp only []
      split
      · show InvKill (core (addAndEnable _ _)); rw [core_addAndEnable]; exact h
      · exact h
    | remove a => show InvKill (core (removeByAddr _ _).1); rw [core_removeByAddr]; exact h
    | watch a => show InvKill (core (watch _ _).1); rw [core_watch]; exact h
    | unwatch a => show InvKill (core (unwatch _ _).1); rw [core_unwatch]; exact h
    | start =>
      simp only []
      split
      · unfold startFlow
        apply invKill_runEnd _ (runEnd_traceLoop _ _)
        rw [core_enableEntry]
        exact ⟨h.old, fun hh => (by cases hh), h.ext, h.here⟩
      · exact h
    | cont =>
      simp only []
      split
      · apply invKill_runEnd _ (runEnd_traceLoop _ _)
        rw [core_stepOver]; exact h
      · exact h
    | restart => exact invKill_restart _ h

theorem invKill_execAll (ops : List Op) (s : St) (h : InvKill (core s)) : InvKill (core (execAll s ops)) := by
  induction ops generalizing s with
  | nil => exact h
  | cons op ops ih => exact ih _ (invKill_exec s op h)

theorem invKill_initLaunched (p : Prog) : InvKill (core (initLaunched p)) :=
  ⟨fun q hq => (by cases hq), fun h => (by cases h), fun h => (by cases h), ⟨rfl, rfl⟩⟩
theorem invKill_initAttached (p : Prog) (k n : Nat) : InvKill (core (initAttached p k n)) :=
  ⟨fun q hq => (by cases hq), fun h => (by cases h), fun _ => rfl, ⟨rfl, rfl⟩⟩

@[simp] theorem core_releaseThreads (s : St) : core (releaseThreads s) = core s := by
  unfold releaseThreads; split <;> rfl

/-- every process the debugger has launched (in any generation) is dead and collected -/
def NoChildLeft (s : St) : Prop := ∀ q ∈ s.old ++ [s.proc], q.child = true → q.alive = false ∧ q.reaped = true

/-- what `Drop` does to the process table: the current process is killed and collected; or killed but NOT collected
(not started); or left as it is because the debugger had detached, or it is an attached one, or it has already ended -/
theorem core_drop (s : St) :
    (core (drop s)).old = s.old ∧ (core (drop s)).child = s.proc.child ∧
    (((core (drop s)).alive = false ∧ (core (drop s)).reaped = s.proc.child) ∨
     (s.status = .unload ∧ (core (drop s)).alive = false ∧ (core (drop s)).reaped = false) ∨
     ((core (drop s)).alive = s.proc.alive ∧ (core (drop s)).reaped = s.proc.reaped ∧
        (s.detached = true ∨ s.external = true ∨ s.status = .exited))) := by
  unfold drop
  split
  · rename_i hd; exact ⟨rfl, rfl, Or.inr (Or.inr ⟨rfl, rfl, Or.inl hd⟩)⟩
  · split
    · rename_i hx
      have e : core (releaseThreads (clearAll (disableAll s))) = core s := by
        rw [core_releaseThreads, core_clearAll, core_disableAll]
      exact ⟨congrArg Core.old e, congrArg Core.child e,
        Or.inr (Or.inr ⟨congrArg Core.alive e, congrArg Core.reaped e, Or.inr (Or.inl hx)⟩)⟩
    · split
      · rename_i hs; exact ⟨rfl, rfl, Or.inr (Or.inl ⟨hs, rfl, rfl⟩)⟩
      · have e : core (clearAll (disableAll s)) = core s := by rw [core_clearAll, core_disableAll]
        exact ⟨congrArg Core.old e, congrArg Core.child e, Or.inl ⟨rfl, congrArg Core.child e⟩⟩
      · rename_i hs; exact ⟨rfl, rfl, Or.inr (Or.inr ⟨rfl, rfl, Or.inr (Or.inr hs)⟩)⟩

theorem noChildLeft_drop (s : St) (h : InvKill (core s)) (hu : s.status ≠ .unload) : NoChildLeft (execDrop s) := by
  have hd : s.dropped = false := h.here.2
  have hdet : s.detached = false := h.here.1
  unfold execDrop
  rw [if_neg (by simp [hd])]
  obtain ⟨hold, hchild, hrest⟩ := core_drop { s with log := [] }
  intro q hq hqc
  simp only [core] at hold hchild hrest
  rw [hold, List.mem_append] at hq
  cases hq with
  | inl hq => exact h.old q hq hqc
  | inr hq =>
    have hq : q = (drop { s with log := [] }).proc := by simpa using hq
    subst hq
    rw [hchild] at hqc
    rcases hrest with hr | hr | hr
    · exact ⟨hr.1, hr.2.trans hqc⟩
    · exact absurd hr.1 hu
    · obtain ⟨ha, hr, hc⟩ := hr
      rcases hc with hc | hc | hc
      · rw [hdet] at hc; cases hc
      · have := h.ext hc; simp only [core] at this; rw [this] at hqc; cases hqc
      · have := h.exited hc; simp only [core] at this
        exact ⟨ha.trans this.1, hr.trans (this.2 hqc)⟩

/-- **C11_drop_kills_launched.** For every program, every command history (break / remove / watch / unwatch /
start / continue / restart, in any order and any number) on a launched program, dropping the debugger leaves
every process it ever launched — the current one and those of earlier generations — dead and collected,
whatever state the history ended in (not started, stopped at a breakpoint or in a signal stop with any number
of threads, exited). -/
theorem life_drop_kills_launched (p : Prog) (ops : List Op) (hu : (execAll (initLaunched p) ops).status ≠ .unload) :
    NoChildLeft (execDrop (execAll (initLaunched p) ops)) :=
  noChildLeft_drop _ (invKill_execAll ops _ (invKill_initLaunched p)) hu

/-- the same for a debugger that attached to a running process (which itself is not a child and is left alone,
see `C11_detach_leaves_clean`): whatever it launched by later restarts is dead and collected -/
theorem life_drop_kills_launched_after_attach (p : Prog) (k n : Nat) (ops : List Op)
    (hu : (execAll (initAttached p k n) ops).status ≠ .unload) :
    NoChildLeft (execDrop (execAll (initAttached p k n) ops)) :=
  noChildLeft_drop _ (invKill_execAll ops _ (invKill_initAttached p k n)) hu


/-! ## C11_exit_code -/
theorem runEnd_exit {t : St} {r : St × Out} {c : Nat} (hr : RunEnd t r) (h : r.2 = .exit c) :
    t.prog.fin = .exit c ∧ r.1.proc.alive = false ∧ r.1.status = .exited ∧ (t.proc.child = true → r.1.proc.reaped = true) := by
  cases hr with
  | same s' o _ h2 => exact absurd h (h2 c)
  | exited s' c' h1 h2 =>
    have hc : c' = c := by simpa using h
    subst hc
    have ea := congrArg Core.alive h2; have es := congrArg Core.status h2; have er := congrArg Core.reaped h2
    simp only [core, Core.died] at ea es er
    exact ⟨h1, ea, es, fun hch => er.trans hch⟩
  | killed s' g n _ _ => simp at h

theorem runEnd_core {t : St} {r : St × Out} (hr : RunEnd t r) : core r.1 = core t ∨ core r.1 = (core t).died := by
  cases hr with
  | same s' o h1 _ => exact Or.inl h1
  | exited s' c _ h2 => exact Or.inr h2
  | killed s' g n _ h2 => exact Or.inr h2

theorem watch_out (s : St) (a) : (watch s a).2 = .ok ∨ (watch s a).2 = .err := by
  unfold watch; split
  · exact Or.inr rfl
  · split
    · exact Or.inr rfl
    · split
      · exact Or.inl rfl
      · exact Or.inr rfl

theorem unwatch_out (s : St) (a) : (unwatch s a).2 = .ok ∨ (unwatch s a).2 = .err ∨ (unwatch s a).2 = .none := by
  unfold unwatch; split
  · exact Or.inr (Or.inr rfl)
  · split
    · exact Or.inl rfl
    · exact Or.inr (Or.inl rfl)

/-- how a command acts on the process table: a plain command leaves it alone; a run command leaves it alone or
the process ends on its own (`RunEnd`) -/
theorem exec_run (s : St) (op : Op) :
    (core (exec s op).1 = core s ∧ ∀ c, (exec s op).2 ≠ .exit c) ∨
    (∃ t, RunEnd t (exec s op) ∧ (core t).prog = s.prog ∧ (core t).child = s.proc.child ∧
          (core t).alive = s.proc.alive ∧ (core t).old = s.old) ∨
    (op = .restart ∧ ∃ t q, RunEnd t (exec s op) ∧ (core t).prog = s.prog ∧ (core t).old = s.old ++ [q]) := by
  unfold exec
  split
  · exact Or.inl ⟨rfl, by intro c; simp⟩
  · cases op with
    | brk a =>
      simp only []
      split
      · exact Or.inl ⟨by show core (addAndEnable _ _) = _; rw [core_addAndEnable]; rfl, by intro c; simp⟩
      · exact Or.inl ⟨rfl, by intro c; simp⟩
    | remove a =>
      refine Or.inl ⟨by show core (removeByAddr _ _).1 = _; rw [core_removeByAddr]; rfl, ?_⟩
      intro c; simp only []; split <;> simp
    | watch a =>
      refine Or.inl ⟨by show core (watch _ _).1 = _; rw [core_watch]; rfl, ?_⟩
      intro c hc; rcases watch_out { s with log := [] } a with h | h <;> rw [h] at hc <;> cases hc
    | unwatch a =>
      refine Or.inl ⟨by show core (unwatch _ _).1 = _; rw [core_unwatch]; rfl, ?_⟩
      intro c hc; rcases unwatch_out { s with log := [] } a with h | h | h <;> rw [h] at hc <;> cases hc
    | start =>
      simp only []
      split
      · unfold startFlow
        refine Or.inr (Or.inl ⟨_, runEnd_traceLoop _ _, ?_⟩)
        rw [core_enableEntry]; exact ⟨rfl, rfl, rfl, rfl⟩
      · exact Or.inl ⟨rfl, by intro c; simp⟩
    | cont =>
      simp only []
      split
      · refine Or.inr (Or.inl ⟨_, runEnd_traceLoop _ _, ?_⟩)
        rw [core_stepOver]; exact ⟨rfl, rfl, rfl, rfl⟩
      · exact Or.inl ⟨rfl, by intro c; simp⟩
    | restart =>
      obtain ⟨t, ht, hp, _, _, _, _, _, _, q, hold, _⟩ := restart_run { s with log := [] }
      refine Or.inr (Or.inr ⟨rfl, t, q, ?_, hp, hold⟩)
      show RunEnd t (restart _); rw [ht]; exact runEnd_traceLoop _ _

theorem prog_exec (s : St) (op : Op) : (exec s op).1.prog = s.prog := by
  rcases exec_run s op with h | ⟨t, hr, hp, _⟩ | ⟨_, t, q, hr, hp, _⟩
  · exact congrArg Core.prog h.1
  · rcases runEnd_core hr with e | e
    · exact (congrArg Core.prog e).trans hp
    · exact (congrArg Core.prog e).trans hp
  · rcases runEnd_core hr with e | e
    · exact (congrArg Core.prog e).trans hp
    · exact (congrArg Core.prog e).trans hp

theorem prog_execAll (ops : List Op) (s : St) : (execAll s ops).prog = s.prog := by
  induction ops generalizing s with
  | nil => rfl
  | cons op ops ih => exact (ih _).trans (prog_exec s op)

/-- in ANY state: a command that reports `exit c` does so only when the program's real way of ending is
`exit c`, and then the process is gone (and collected when it was launched) and the status is Exited -/
theorem exec_exit_sound (s : St) (op : Op) (c : Nat) (h : (exec s op).2 = .exit c) :
    s.prog.fin = .exit c ∧ (exec s op).1.proc.alive = false ∧ (exec s op).1.status = .exited := by
  rcases exec_run s op with h1 | ⟨t, hr, hp, _⟩ | ⟨_, t, q, hr, hp, _⟩
  · exact absurd h (h1.2 c)
  · have := runEnd_exit hr h; rw [show t.prog = s.prog from hp] at this; exact ⟨this.1, this.2.1, this.2.2.1⟩
  · have := runEnd_exit hr h; rw [show t.prog = s.prog from hp] at this; exact ⟨this.1, this.2.1, this.2.2.1⟩

/-- **C11_exit_code.** For every program, every history (launched or attached anywhere) and every further
command: if the command reports `exit c` (what `StopReason::DebugeeExit` / `EventHook::on_exit` carry) then `c`
is the status the program really ends with, and the process has then ended. -/
theorem life_exit_code (p : Prog) (ops : List Op) (op : Op) (c : Nat) :
    ((exec (execAll (initLaunched p) ops) op).2 = .exit c → p.fin = .exit c) ∧
    (∀ k n, (exec (execAll (initAttached p k n) ops) op).2 = .exit c → p.fin = .exit c) := by
  refine ⟨fun h => ?_, fun k n h => ?_⟩
  · have := (exec_exit_sound _ op c h).1; rwa [prog_execAll] at this
  · have := (exec_exit_sound _ op c h).1; rwa [prog_execAll] at this

/-- what reporting the end of the process means -/
def reports (o : Out) : Fin → Bool
  | .exit c => o == .exit c
  | .abort g _ => o == .signal g

/-- full statement: whenever the process of the current generation ends during a command, the command reports
how it ended -/
def EndReportedFull : Prop :=
  ∀ (s : St) (op : Op), s.proc.alive = true → (exec s op).1.old.length = s.old.length →
    (exec s op).1.proc.alive = false → reports (exec s op).2 s.prog.fin = true

theorem runEnd_dead {t : St} {r : St × Out} {c : Nat} (hr : RunEnd t r) (hfin : t.prog.fin = .exit c)
    (ha : t.proc.alive = true) (hd : r.1.proc.alive = false) : r.2 = .exit c := by
  cases hr with
  | same s' o h1 _ =>
    have := congrArg Core.alive h1; simp only [core] at this
    rw [ha] at this; rw [this] at hd; cases hd
  | exited s' c' h1 _ =>
    rw [hfin] at h1
    have : c = c' := by simpa using h1
    rw [this]
  | killed s' g n h1 _ => rw [hfin] at h1; cases h1

/-- proved part: true for every program that ends by `exit` (in any state, for any command) -/
theorem life_end_reported_partial (s : St) (op : Op) (c : Nat) (hfin : s.prog.fin = .exit c)
    (ha : s.proc.alive = true) (hold : (exec s op).1.old.length = s.old.length)
    (hd : (exec s op).1.proc.alive = false) : (exec s op).2 = .exit c := by
  rcases exec_run s op with h1 | ⟨t, hr, hp, _, hal, _⟩ | ⟨_, t, q, hr, _, ho⟩
  · have := congrArg Core.alive h1.1; simp only [core] at this; rw [this, ha] at hd; cases hd
  · exact runEnd_dead hr (by rw [show t.prog = s.prog from hp]; exact hfin) (by simp only [core] at hal; rw [hal]; exact ha) hd
  · exfalso
    have e : (exec s op).1.old = s.old ++ [q] := by
      rcases runEnd_core hr with e | e
      · exact (congrArg Core.old e).trans ho
      · exact (congrArg Core.old e).trans ho
    rw [e] at hold
    simp at hold

def witnessAbort : Prog :=
  { entry := 100, linker := 0, orig := fun _ => 0x55, full := [⟨100, 1⟩, ⟨200, 1⟩], fin := .abort 6 1 }

/-- the unchanged code does not report a death by signal: the last `continue` of a program that aborts answers
with an error ("process not started"), no exit status, no hook call -/
theorem life_end_reported_counterexample : ¬ EndReportedFull := by
  intro h
  have := h (execAll (initLaunched witnessAbort) [.start]) .cont (by decide) (by decide) (by decide)
  revert this
  decide

end BsVerif.Life
