import BsVerif.Lemmas.Signals
/-! Kernel-side conservation: every signal sent is pending, or has entered a signal-delivery-stop. -/
namespace BsVerif.Sig
open BsVerif.Gen.Signals

theorem minL_mem : ∀ {l : List Nat} {m : Nat}, minL l = some m → m ∈ l := by
  intro l
  induction l with
  | nil => intro m h; simp [minL] at h
  | cons a l ih =>
    intro m h
    simp only [minL] at h
    split at h
    · cases h; simp
    · rename_i b hb
      have := ih hb
      cases h
      split <;> simp_all

theorem count_erase_mem {l : List Nat} {a x : Nat} (h : a ∈ l) :
    (l.erase a).count x + (if a = x then 1 else 0) = l.count x := by
  by_cases e : a = x
  · subst e
    have : 0 < l.count a := List.count_pos_iff.mpr h
    simp [List.count_erase_self]; omega
  · have e' : x ≠ a := fun h => e h.symm
    simp [e, List.count_erase_of_ne e']

/-- the conservation law of the kernel part, for one signal number -/
def K.Cons (k : K) (x : Sig) : Prop := k.sent.count x = k.arrived.count x + k.pp.count x + k.sp.count x

theorem K.dequeue_cons {k k' : K} {a : Sig} (x : Sig) (h : k.dequeue = some (a, k')) :
    k'.pp.count x + k'.sp.count x + (if a = x then 1 else 0) = k.pp.count x + k.sp.count x := by
  unfold K.dequeue at h
  split at h
  · rename_i s hs
    cases h
    have := count_erase_mem (x := x) (minL_mem hs)
    simp only []; omega
  · split at h
    · rename_i s hs
      cases h
      have := count_erase_mem (x := x) (minL_mem hs)
      simp only []; omega
    · cases h

theorem K.runMain_cons (b : Bool) (k : K) (l : List PEv) (x : Sig) (h : k.Cons x) : (K.runMain b k l).1.Cons x := by
  induction l with
  | nil => simpa [K.runMain, K.Cons] using h
  | cons e r ih =>
    cases e with
    | point =>
      by_cases hb : b = true
      · simpa [K.runMain, hb, K.fresh, K.Cons] using h
      · simp [K.runMain, hb]; simpa [hb] using ih
    | raise s => simp [K.runMain, K.fresh, K.arrive, K.Cons, List.count_append] at *; omega
    | kill s => simp [K.runMain, K.fresh, K.arrive, K.Cons, List.count_append] at *; omega

theorem K.popFrame_cons (k : K) (x : Sig) (h : k.Cons x) : k.popFrame.Cons x := by
  unfold K.popFrame; split <;> simpa [K.Cons] using h

theorem K.deliver_cons (k : K) (d x : Sig) (h : k.Cons x) : (k.deliver d).Cons x := by
  simpa [K.deliver, K.Cons] using h

theorem K.resume_cons (k : K) (m : Mode) (s : Sig) (b : Bool) (x : Sig) (h : k.Cons x) : (k.resume m s b).1.Cons x := by
  unfold K.resume
  by_cases hx : k.stop = .exited
  · simpa [hx] using h
  · simp only [hx, if_false]
    generalize hk2 : (if s = 0 then (if k.stop = KStop.sysEntry then k.popFrame else k)
      else (if k.stop = KStop.sysEntry then k.popFrame else k).deliver s) = k2
    have h2 : k2.Cons x := by
      subst hk2
      have h1 : (if k.stop = KStop.sysEntry then k.popFrame else k).Cons x := by
        split
        · exact K.popFrame_cons k x h
        · exact h
      split
      · exact h1
      · exact K.deliver_cons _ _ _ h1
    by_cases hst : m = .step ∧ s ≠ 0
    · simpa [hst, K.Cons] using h2
    · simp only [hst, if_false]
      cases hd : k2.dequeue with
      | some p =>
        obtain ⟨a, k3⟩ := p
        have h3 := K.dequeue_fields hd
        have h4 := K.dequeue_cons x hd
        unfold K.Cons at *
        simp only [K.arrive, h3, List.count_append, List.count_singleton]
        split <;> simp_all <;> omega
      | none =>
        cases m with
        | step => simp; split <;> simpa [K.fresh, K.Cons] using h2
        | sysc => simp; split <;> simpa [K.fresh, K.Cons] using h2
        | cont =>
          simp only []
          split
          · simpa [K.Cons] using h2
          · exact K.runMain_cons b { k2 with frames := [] } k2.script x (by simpa [K.Cons] using h2)

theorem K.send_cons (k : K) (p : Bool) (s x : Sig) (h : k.Cons x) : (k.send p s).Cons x := by
  unfold K.send K.Cons at *
  split <;> split <;> simp_all [List.count_append, List.count_cons] <;> split <;> omega

theorem consStable (x : Sig) : Stable (fun d => d.k.Cons x) := by
  refine ⟨?_, ?_, ?_, ?_, ?_, ?_, ?_, ?_⟩
  · intro d d' hk _ _ _ h; rw [hk]; exact h
  · intro d h _; rw [D.kp_k]; exact K.resume_cons _ _ _ _ _ h
  · intro d m h _; rw [D.kp_k]; exact K.resume_cons _ _ _ _ _ h
  · intro d s h _; rw [D.kp_k]; exact K.resume_cons _ _ _ _ _ h
  · intro d q0 a h _ _; rw [D.kp_k]; exact K.resume_cons _ _ _ _ _ h
  · intro d s s' rest h _; exact h
  · intro d p s h _; exact K.send_cons _ _ _ _ h
  · intro d s h _; exact h

/-! ### an exited debuggee has no pending signal -/

theorem minL_none : ∀ {l : List Nat}, minL l = none → l = [] := by
  intro l
  cases l with
  | nil => intro _; rfl
  | cons a l =>
    intro h
    simp only [minL] at h
    split at h <;> cases h

theorem K.dequeue_none {k : K} (h : k.dequeue = none) : k.pp = [] ∧ k.sp = [] := by
  unfold K.dequeue at h
  split at h
  · cases h
  · rename_i h1
    split at h
    · cases h
    · rename_i h2
      exact ⟨minL_none h1, minL_none h2⟩

theorem K.runMain_pending (b : Bool) (k : K) (l : List PEv) :
    (K.runMain b k l).1.pp = k.pp ∧ (K.runMain b k l).1.sp = k.sp := by
  induction l with
  | nil => simp [K.runMain]
  | cons e r ih =>
    cases e with
    | point =>
      by_cases hb : b = true
      · simp [K.runMain, hb, K.fresh]
      · simp [K.runMain, hb]; simpa [hb] using ih
    | raise s => simp [K.runMain, K.fresh, K.arrive]
    | kill s => simp [K.runMain, K.fresh, K.arrive]

/-- the debuggee exits only when nothing is pending -/
theorem K.resume_exited (k : K) (m : Mode) (s : Sig) (b : Bool) (h : k.stop = .exited → k.pp = [] ∧ k.sp = []) :
    (k.resume m s b).1.stop = .exited → (k.resume m s b).1.pp = [] ∧ (k.resume m s b).1.sp = [] := by
  unfold K.resume
  by_cases hx : k.stop = .exited
  · simpa [hx] using h hx
  · simp only [hx, if_false]
    generalize (if s = 0 then (if k.stop = KStop.sysEntry then k.popFrame else k)
      else (if k.stop = KStop.sysEntry then k.popFrame else k).deliver s) = k2
    by_cases hst : m = .step ∧ s ≠ 0
    · simp [hst]
    · simp only [hst, if_false]
      cases hd : k2.dequeue with
      | some p => obtain ⟨a, k3⟩ := p; simp [K.arrive]
      | none =>
        have he := K.dequeue_none hd
        cases m with
        | step => simp; split <;> simp
        | sysc => simp; split <;> simp
        | cont =>
          simp only []
          split
          · simp
          · intro _
            have := K.runMain_pending b { k2 with frames := [] } k2.script
            rw [this.1, this.2]; exact he

theorem exitedStable : Stable (fun d => d.k.stop = .exited → d.k.pp = [] ∧ d.k.sp = []) := by
  refine ⟨?_, ?_, ?_, ?_, ?_, ?_, ?_, ?_⟩
  · intro d d' hk _ _ _ h; rw [hk]; exact h
  · intro d h _; rw [D.kp_k]; exact K.resume_exited _ _ _ _ h
  · intro d m h _; rw [D.kp_k]; exact K.resume_exited _ _ _ _ h
  · intro d s h _; rw [D.kp_k]; exact K.resume_exited _ _ _ _ h
  · intro d q0 a h _ _; rw [D.kp_k]; exact K.resume_exited _ _ _ _ h
  · intro d s s' rest h _; exact h
  · intro d p s _ hne he
    exact absurd (by simpa [(K.send_fields d.k p s).2.2.1] using he) hne
  · intro d s h _; exact h

theorem D.run_append (d : D) (a b : List Cmd) : d.run (a ++ b) = (d.run a).run b := by
  induction a generalizing d with
  | nil => rfl
  | cons c cs ih => simp [D.run, ih]

/-! ### `resume` neither piles signals up nor touches the breakpoint flag -/

theorem D.resume_flags : ∀ (f : Nat) (d : D),
    (D.resume f d).1.piled = d.piled ∧ (D.resume f d).1.bpOn = d.bpOn := by
  intro f
  induction f with
  | zero => intro d; simp [D.resume]
  | succ f ih =>
    intro d
    have hk : ({ d with queue := [] }.kp .cont (d.queue.headD 0)).1.piled = d.piled :=
      D.kp_piled_nil (d := { d with queue := [] }) .cont (d.queue.headD 0) rfl
    unfold D.resume
    split
    · simp
    · simp only []
      split
      · split
        · have := ih ({ d with queue := [] }.kp .cont (d.queue.headD 0)).1
          rw [this.1, this.2, hk]; simp
        · exact ⟨hk, by simp⟩
      all_goals exact ⟨hk, by simp⟩

theorem D.afterStep_flags (d : D) : d.afterStep.1.piled = d.piled ∧ d.afterStep.1.bpOn = d.bpOn := by
  have := D.resume_flags (D.resFuel d) d
  unfold D.afterStep
  simp only []
  split <;> simpa [D.report] using this

def burstCmd : Cmd → Bool
  | .send _ _ => true
  | .cont => true
  | _ => false

theorem D.exec_burst_flags (d : D) (c : Cmd) (hc : burstCmd c = true) (hb : d.bpOn = false) :
    (d.exec c).1.piled = d.piled ∧ (d.exec c).1.bpOn = false := by
  cases c with
  | send p s => simp only [D.exec]; split <;> (try split) <;> simp [hb]
  | cont =>
    simp only [D.exec]
    split
    · simp [hb]
    · split
      · have hat : d.atBp = false := by simp [D.atBp, hb]
        have := D.afterStep_flags d
        simp only [D.contExec, hat]
        simpa [hb] using this
      · simp [hb]
  | _ => simp [burstCmd] at hc

theorem D.run_burst_flags (burst : List Cmd) : ∀ (d : D), (∀ c ∈ burst, burstCmd c = true) → d.bpOn = false →
    (d.run burst).piled = d.piled ∧ (d.run burst).bpOn = false := by
  induction burst with
  | nil => intro d _ hb; exact ⟨rfl, hb⟩
  | cons c cs ih =>
    intro d hc hb
    have h1 := D.exec_burst_flags d c (hc c (by simp)) hb
    have h2 := ih (d.exec c).1 (fun c' hc' => hc c' (by simp [hc'])) h1.2
    simp only [D.run]
    exact ⟨h2.1.trans h1.1, h2.2⟩

end BsVerif.Sig
