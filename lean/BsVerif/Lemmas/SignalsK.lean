import BsVerif.Lemmas.Signals
/-! Kernel-side conservation: every signal sent is pending, or has entered a signal-delivery-stop. -/
namespace BsVerif.Sig
open BsVerif.Gen.Signals

theorem minL_mem : ∀ {l : List Nat} {m : Nat}, minL l = some m → m ∈ l := by
  intro l
  induction l with
  | nil => intro m h; simp [minL] at h
  | cons a l ih =>
    intro m h
    simp only [minL] at h
    split at h
    · cases h; simp
    · rename_i b hb
      have := ih hb
      cases h
      split <;> simp_all

theorem count_erase_mem {l : List Nat} {a x : Nat} (h : a ∈ l) :
    (l.erase a).count x + (if a = x then 1 else 0) = l.count x := by
  by_cases e : a = x
  · subst e
    have : 0 < l.count a := List.count_pos_iff.mpr h
    simp [List.count_erase_self]; omega
  · have e' : x ≠ a := fun h => e h.symm
    simp [e, List.count_erase_of_ne e']

/-- the conservation law of the kernel part, for one signal number -/
def K.Cons (k : K) (x : Sig) : Prop := k.sent.count x = k.arrived.count x + k.pp.count x + k.sp.count x

theorem K.dequeue_cons {k k' : K} {a : Sig} (x : Sig) (h : k.dequeue = some (a, k')) :
    k'.pp.count x + k'.sp.count x + (if a = x then 1 else 0) = k.pp.count x + k.sp.count x := by
  unfold K.dequeue at h
  split at h
  · rename_i s hs
    cases h
    have := count_erase_mem (x := x) (minL_mem hs)
    simp only []; omega
  · split at h
    · rename_i s hs
      cases h
      have := count_erase_mem (x := x) (minL_mem hs)
      simp only []; omega
    · cases h

theorem K.runMain_cons (b : Bool) (k : K) (l : List PEv) (x : Sig) (h : k.Cons x) : (K.runMain b k l).1.Cons x := by
  induction l with
  | nil => simpa [K.runMain, K.Cons] using h
  | cons e r ih =>
    cases e with
    | point =>
      by_cases hb : b = true
      · simpa [K.runMain, hb, K.fresh, K.Cons] using h
      · simp [K.runMain, hb]; simpa [hb] using ih
    | raise s => simp [K.runMain, K.fresh, K.arrive, K.Cons, List.count_append] at *; omega
    | kill s => simp [K.runMain, K.fresh, K.arrive, K.Cons, List.count_append] at *; omega

theorem K.popFrame_cons (k : K) (x : Sig) (h : k.Cons x) : k.popFrame.Cons x := by
  unfold K.popFrame; split <;> simpa [K.Cons] using h

theorem K.deliver_cons (k : K) (d x : Sig) (h : k.Cons x) : (k.deliver d).Cons x := by
  simpa [K.deliver, K.Cons] using h

theorem K.resume_cons (k : K) (m : Mode) (s : Sig) (b : Bool) (x : Sig) (h : k.Cons x) : (k.resume m s b).1.Cons x := by
  unfold K.resume
  by_cases hx : k.stop = .exited
  · simpa [hx] using h
  · simp only [hx, if_false]
    generalize hk2 : (if s = 0 then (if k.stop = KStop.sysEntry then k.popFrame else k)
      else (if k.stop = KStop.sysEntry then k.popFrame else k).deliver s) = k2
    have h2 : k2.Cons x := by
      subst hk2
      have h1 : (if k.stop = KStop.sysEntry then k.popFrame else k).Cons x := by
        split
        · exact K.popFrame_cons k x h
        · exact h
      split
      · exact h1
      · exact K.deliver_cons _ _ _ h1
    by_cases hst : m = .step ∧ s ≠ 0
    · simpa [hst, K.Cons] using h2
    · simp only [hst, if_false]
      cases hd : k2.dequeue with
      | some p =>
        obtain ⟨a, k3⟩ := p
        have h3 := K.dequeue_fields hd
        have h4 := K.dequeue_cons x hd
        unfold K.Cons at *
        simp only [K.arrive, h3, List.count_append, List.count_singleton]
        split <;> simp_all <;> omega
      | none =>
        cases m with
        | step => simp; split <;> simpa [K.fresh, K.Cons] using h2
        | sysc => simp; split <;> simpa [K.fresh, K.Cons] using h2
        | cont =>
          simp only []
          exact K.runMain_cons b { k2 with frames := [] } k2.script x (by simpa [K.Cons] using h2)

theorem K.send_cons (k : K) (p : Bool) (s x : Sig) (h : k.Cons x) : (k.send p s).Cons x := by
  unfold K.send K.Cons at *
  split <;> split <;> simp_all [List.count_append, List.count_cons] <;> split <;> omega

theorem consStable (x : Sig) : StableB (fun d => d.k.Cons x) := by
  refine ⟨?_, ?_, ?_, ?_, ?_, ?_, ?_⟩
  · intro d d' hk _ h; rw [hk]; exact h
  · intro d m b h; rw [D.kp_k]; exact K.resume_cons _ _ _ _ _ h
  · intro d s h _; rw [D.kp_k]; exact K.resume_cons _ _ _ _ _ h
  · intro d a h _ _; rw [D.kp_k]; exact K.resume_cons _ _ _ _ _ h
  · intro d s s' rest h _; exact h
  · intro d h; simp only [D.kres_k]; exact K.resume_cons _ _ _ _ _ h
  · intro d p s h; exact K.send_cons _ _ _ _ h

end BsVerif.Sig

namespace BsVerif.Sig
open BsVerif.Gen.Signals

/-! ### `resume` neither steps nor touches the breakpoint flag -/

@[simp] theorem D.kp_bpOn (d : D) (m : Mode) (s : Sig) : (d.kp m s).1.bpOn = d.bpOn := by
  cases hw : (d.k.resume m s d.bpOn).2 with
  | sigStop a => rw [D.kp_sig hw]; simp
  | _ => rw [D.kp_other (by simp [hw])]; simp

theorem D.resume_flags : ∀ (f : Nat) (d : D),
    (D.resume f d).1.stepArr = d.stepArr ∧ (D.resume f d).1.bpOn = d.bpOn := by
  intro f
  induction f with
  | zero => intro d; simp [D.resume]
  | succ f ih =>
    intro d
    unfold D.resume
    split
    · simp
    · simp only []
      split
      · split
        · have := ih ({ d with queue := [] }.kp .cont (d.queue.headD 0)).1
          simpa using this
        · simp
      all_goals simp

theorem D.afterStep_flags (d : D) : d.afterStep.1.stepArr = d.stepArr ∧ d.afterStep.1.bpOn = d.bpOn := by
  have := D.resume_flags (D.resFuel d) d
  unfold D.afterStep
  simp only []
  split <;> simpa [D.report] using this

def burstCmd : Cmd → Bool
  | .send _ _ => true
  | .cont => true
  | _ => false

theorem D.exec_burst_flags (d : D) (c : Cmd) (hc : burstCmd c = true) (hb : d.bpOn = false) :
    (d.exec c).1.stepArr = d.stepArr ∧ (d.exec c).1.bpOn = false := by
  cases c with
  | send p s => simp only [D.exec]; split <;> (try split) <;> simp [hb]
  | cont =>
    simp only [D.exec]
    split
    · simp [hb]
    · split
      · have hat : d.atBp = false := by simp [D.atBp, hb]
        have := D.afterStep_flags d
        simp only [D.contExec, hat]
        simpa [hb] using this
      · simp [hb]
  | _ => simp [burstCmd] at hc

theorem D.run_append (d : D) (a b : List Cmd) : d.run (a ++ b) = (d.run a).run b := by
  induction a generalizing d with
  | nil => rfl
  | cons c cs ih => simp [D.run, ih]

theorem D.run_burst_flags (burst : List Cmd) : ∀ (d : D), (∀ c ∈ burst, burstCmd c = true) → d.bpOn = false →
    (d.run burst).stepArr = d.stepArr ∧ (d.run burst).bpOn = false := by
  induction burst with
  | nil => intro d _ hb; exact ⟨rfl, hb⟩
  | cons c cs ih =>
    intro d hc hb
    have h1 := D.exec_burst_flags d c (hc c (by simp)) hb
    have h2 := ih (d.exec c).1 (fun c' hc' => hc c' (by simp [hc'])) h1.2
    simp only [D.run]
    exact ⟨h2.1.trans h1.1, h2.2⟩

end BsVerif.Sig
