import BsVerif.Model.Value
/-! B-tree walk: the leaf-level part of `KVIterator::next` (a root that is a leaf: maps of at most 11 entries). -/
namespace BsVerif.Value

/-- the key / value images of entry `i` of a node -/
def Leaf.kd (l : Leaf) (ks i : Nat) : Data := ⟨(l.keys.drop (ks * i)).take ks, l.keysAddr.map (· + ks * i)⟩
def Leaf.vd (l : Leaf) (vs i : Nat) : Data := ⟨(l.vals.drop (vs * i)).take vs, l.valsAddr.map (· + vs * i)⟩

theorem slice_entry (bs : Bytes) (sz len i : Nat) (hi : i < len) (h : sz * len ≤ bs.length) :
    sliceBytes bs (sz * i) sz = some ((bs.drop (sz * i)).take sz) := by
  unfold sliceBytes
  have h1 : sz * (i + 1) ≤ sz * len := Nat.mul_le_mul_left sz hi
  have h2 : sz * (i + 1) = sz * i + sz := by rw [Nat.mul_add, Nat.mul_one]
  have : sz * i + sz ≤ bs.length := by omega
  simp [this]

theorem btNext_leaf_yield (c : Ctx) (lm : LeafMarkup) (im : InternalMarkup) (ks vs fuel : Nat) (n : Node) (idx : Nat)
    (h0 : n.height = 0) (hi : idx < n.leaf.len)
    (hk : ks * n.leaf.len ≤ n.leaf.keys.length) (hv : vs * n.leaf.len ≤ n.leaf.vals.length) :
    btNext c lm im ks vs (fuel + 1) n idx = some (some ((n.leaf.kd ks idx, n.leaf.vd vs idx), (n, idx + 1))) := by
  unfold btNext
  simp [hi, h0, slice_entry _ ks _ idx hi hk, slice_entry _ vs _ idx hi hv, Leaf.kd, Leaf.vd]

theorem btNext_root_end (c : Ctx) (lm : LeafMarkup) (im : InternalMarkup) (ks vs fuel : Nat) (n : Node) (idx : Nat)
    (hp : n.leaf.parent = none) (hi : ¬ idx < n.leaf.len) :
    btNext c lm im ks vs (fuel + 1) n idx = some none := by
  unfold btNext
  simp [hi, hp]

theorem btCollect_leaf (c : Ctx) (lm : LeafMarkup) (im : InternalMarkup) (ks vs : Nat) (n : Node)
    (h0 : n.height = 0) (hp : n.leaf.parent = none)
    (hk : ks * n.leaf.len ≤ n.leaf.keys.length) (hv : vs * n.leaf.len ≤ n.leaf.vals.length) :
    ∀ k idx fuel, idx + k = n.leaf.len → k + 1 ≤ fuel →
      btCollect c lm im ks vs fuel n idx =
        some ((List.range k).map fun j => (n.leaf.kd ks (idx + j), n.leaf.vd vs (idx + j))) := by
  intro k
  induction k with
  | zero =>
    intro idx fuel hlen hf
    obtain ⟨f, rfl⟩ : ∃ f, fuel = f + 1 := ⟨fuel - 1, by omega⟩
    unfold btCollect
    have : ¬ idx < n.leaf.len := by omega
    rw [show (64 : Nat) = 63 + 1 from rfl, btNext_root_end c lm im ks vs 63 n idx hp this]
    simp
  | succ k ih =>
    intro idx fuel hlen hf
    obtain ⟨f, rfl⟩ : ∃ f, fuel = f + 1 := ⟨fuel - 1, by omega⟩
    unfold btCollect
    have hi : idx < n.leaf.len := by omega
    rw [show (64 : Nat) = 63 + 1 from rfl, btNext_leaf_yield c lm im ks vs 63 n idx h0 hi hk hv]
    simp only []
    rw [ih (idx + 1) f (by omega) (by omega)]
    simp only [Option.map_some, List.range_succ_eq_map, List.map_cons, List.map_map, Nat.add_zero]
    congr 2
    apply List.map_congr_left
    intro j _
    simp only [Function.comp]
    have : idx + 1 + j = idx + (j + 1) := by omega
    rw [this]

/-! ## the walk over a whole tree of any height -/

section walk
variable (c : Ctx) (lm : LeafMarkup) (im : InternalMarkup) (ks vs : Nat)

/-- the node the decoder materialises for pointer `p` at height `h` -/
def nodeAt (h p : Nat) : Node := (makeNode c lm im p h).getD default

def NodeOK (n : Node) : Prop := ks * n.leaf.len ≤ n.leaf.keys.length ∧ vs * n.leaf.len ≤ n.leaf.vals.length

def entry (n : Node) (i : Nat) : Data × Data := (n.leaf.kd ks i, n.leaf.vd vs i)

/-- the memory under `p` holds a well-formed B-tree of height `h` whose root says "my parent is `par`, I am its edge `pidx`" -/
def TreeOK : Nat → Nat → Option Nat → Nat → Prop
  | 0, p, par, pidx => ∃ n, makeNode c lm im p 0 = some n ∧ n.height = 0 ∧ n.leaf.parent = par ∧ n.leaf.parentIdx = pidx ∧
      NodeOK ks vs n
  | h + 1, p, par, pidx => ∃ n, makeNode c lm im p (h + 1) = some n ∧ n.height = h + 1 ∧ n.leaf.parent = par ∧
      n.leaf.parentIdx = pidx ∧ NodeOK ks vs n ∧
      ∀ i, i ≤ n.leaf.len → ∃ e, n.edges[i]? = some e ∧ TreeOK h e (some p) i

def edgeOf (n : Node) (i : Nat) : Nat := n.edges.getD i 0

def firstLeaf : Nat → Nat → Node
  | 0, p => nodeAt c lm im 0 p
  | h + 1, p => firstLeaf h (edgeOf (nodeAt c lm im (h + 1) p) 0)

def lastLeaf : Nat → Nat → Node
  | 0, p => nodeAt c lm im 0 p
  | h + 1, p => let n := nodeAt c lm im (h + 1) p; lastLeaf h (edgeOf n n.leaf.len)

/-- the in-order sequence of the tree: child 0, entry 0, child 1, entry 1, …, child len -/
def inorder : Nat → Nat → List (Data × Data)
  | 0, p => let n := nodeAt c lm im 0 p; (List.range n.leaf.len).map (entry ks vs n)
  | h + 1, p =>
    let n := nodeAt c lm im (h + 1) p
    inorder h (edgeOf n 0) ++ (List.range n.leaf.len).flatMap fun j => entry ks vs n j :: inorder h (edgeOf n (j + 1))

theorem edgeOf_eq (n : Node) (i e : Nat) (h : n.edges[i]? = some e) : edgeOf n i = e := by
  simp [edgeOf, List.getD, h]

/-- S3: an exhausted handle climbs to its parent's handle at `parent_idx` -/
theorem btNext_climb (f : Nat) (x q : Node) (i pp : Nat) (hi : ¬ i < x.leaf.len) (hp : x.leaf.parent = some pp)
    (hq : makeNode c lm im pp (x.height + 1) = some q) :
    btNext c lm im ks vs (f + 1) x i = btNext c lm im ks vs f q x.leaf.parentIdx := by
  rw [btNext]
  simp [hi, hp, hq]

/-- S2: an internal node yields entry `i` and continues at the first leaf below edge `i + 1` -/
theorem btNext_internal_yield (f h : Nat) (q child fl : Node) (i e : Nat) (hh : q.height = h + 1) (hi : i < q.leaf.len)
    (hok : NodeOK ks vs q) (he : q.edges[i + 1]? = some e) (hc : makeNode c lm im e h = some child)
    (hd : descend c lm im 64 child = some fl) :
    btNext c lm im ks vs (f + 1) q i = some (some (entry ks vs q i, (fl, 0))) := by
  rw [btNext]
  simp [hi, hh, he, hc, hd, slice_entry _ ks _ i hi hok.1, slice_entry _ vs _ i hi hok.2, entry, Leaf.kd, Leaf.vd]

/-- D: `first_leaf_edge` reaches the first leaf -/
theorem descend_first (h : Nat) : ∀ (p : Nat) (par : Option Nat) (pidx d : Nat), TreeOK c lm im ks vs h p par pidx →
    descend c lm im (h + 1 + d) (nodeAt c lm im h p) = some (firstLeaf c lm im h p) := by
  induction h with
  | zero =>
    intro p par pidx d ht
    obtain ⟨n, hm, hh, -, -, -⟩ := ht
    have : 0 + 1 + d = d + 1 := by omega
    rw [this, descend]
    simp [nodeAt, hm, hh, firstLeaf]
  | succ h ih =>
    intro p par pidx d ht
    obtain ⟨n, hm, hh, -, -, -, hch⟩ := ht
    obtain ⟨e, he, hte⟩ := hch 0 (by omega)
    have hn : nodeAt c lm im (h + 1) p = n := by simp [nodeAt, hm]
    have hmk : makeNode c lm im e h = some (nodeAt c lm im h e) := by
      cases h with
      | zero => obtain ⟨m, hm', -⟩ := hte; simp [nodeAt, hm']
      | succ h' => obtain ⟨m, hm', -⟩ := hte; simp [nodeAt, hm']
    have : h + 1 + 1 + d = (h + 1 + d) + 1 := by omega
    rw [this, descend, hn]
    simp only [hh, Nat.succ_ne_zero, if_false, he, Nat.add_sub_cancel, hmk, Option.bind_eq_bind, Option.bind_some]
    rw [ih e (some p) 0 d hte]
    simp [firstLeaf, hn, edgeOf_eq n 0 e he]

theorem tree_node (h p : Nat) (par : Option Nat) (pidx : Nat) (ht : TreeOK c lm im ks vs h p par pidx) :
    ∃ n, makeNode c lm im p h = some n ∧ nodeAt c lm im h p = n ∧ n.height = h ∧ n.leaf.parent = par ∧
      n.leaf.parentIdx = pidx ∧ NodeOK ks vs n := by
  cases h with
  | zero => obtain ⟨n, hm, hh, hp, hi, hok⟩ := ht; exact ⟨n, hm, by simp [nodeAt, hm], hh, hp, hi, hok⟩
  | succ h => obtain ⟨n, hm, hh, hp, hi, hok, -⟩ := ht; exact ⟨n, hm, by simp [nodeAt, hm], hh, hp, hi, hok⟩

/-- the exhausted rightmost leaf of a subtree climbs (in `h` steps) to the exhausted root of the subtree -/
theorem btNext_exhaust (h : Nat) : ∀ (p : Nat) (par : Option Nat) (pidx f : Nat), TreeOK c lm im ks vs h p par pidx →
    btNext c lm im ks vs (f + h) (lastLeaf c lm im h p) (lastLeaf c lm im h p).leaf.len =
      btNext c lm im ks vs f (nodeAt c lm im h p) (nodeAt c lm im h p).leaf.len := by
  induction h with
  | zero => intro p par pidx f _; simp [lastLeaf]
  | succ h ih =>
    intro p par pidx f ht
    obtain ⟨n, hm, hh, -, -, -, hch⟩ := ht
    have hn : nodeAt c lm im (h + 1) p = n := by simp [nodeAt, hm]
    obtain ⟨e, he, hte⟩ := hch n.leaf.len (Nat.le_refl _)
    obtain ⟨m, hmm, hnm, hmh, hmp, hmi, -⟩ := tree_node c lm im ks vs h e (some p) n.leaf.len hte
    have hl : lastLeaf c lm im (h + 1) p = lastLeaf c lm im h e := by
      simp [lastLeaf, hn, edgeOf_eq n n.leaf.len e he]
    have : f + (h + 1) = (f + 1) + h := by omega
    rw [hl, this, ih e (some p) n.leaf.len (f + 1) hte, hnm, hn]
    have hq : makeNode c lm im p (m.height + 1) = some n := by rw [hmh]; exact hm
    rw [btNext_climb c lm im ks vs f m n m.leaf.len p (by omega) hmp hq, hmi]

/-- a leaf hands out its entries `idx, idx+1, …` and then behaves as its exhausted handle -/
theorem btCollect_leaf_run (n : Node) (h0 : n.height = 0) (hok : NodeOK ks vs n) :
    ∀ k idx F, idx + k = n.leaf.len →
      btCollect c lm im ks vs (F + k) n idx =
        (btCollect c lm im ks vs F n n.leaf.len).map
          (((List.range k).map fun j => entry ks vs n (idx + j)) ++ ·) := by
  intro k
  induction k with
  | zero =>
    intro idx F hlen
    have : idx = n.leaf.len := by omega
    subst this
    simp
  | succ k ih =>
    intro idx F hlen
    have hi : idx < n.leaf.len := by omega
    have : F + (k + 1) = (F + k) + 1 := by omega
    rw [this, btCollect, show (64 : Nat) = 63 + 1 from rfl,
      btNext_leaf_yield c lm im ks vs 63 n idx h0 hi hok.1 hok.2]
    simp only []
    rw [ih (idx + 1) F (by omega)]
    simp only [Option.map_map]
    congr 1
    funext r
    simp only [Function.comp, List.range_succ_eq_map, List.map_cons, List.map_map, Nat.add_zero, List.cons_append, entry]
    congr 2
    apply List.map_congr_left
    intro j _
    simp only [Function.comp]
    have : idx + 1 + j = idx + (j + 1) := by omega
    rw [this]

/-- C(h): walking from the first leaf of a subtree yields exactly its in-order sequence and then continues as the
    exhausted handle of its last leaf -/
theorem btCollect_subtree (h : Nat) (hh : h ≤ 62) : ∀ (p : Nat) (par : Option Nat) (pidx F : Nat),
    TreeOK c lm im ks vs h p par pidx →
    btCollect c lm im ks vs (F + (inorder c lm im ks vs h p).length) (firstLeaf c lm im h p) 0 =
      (btCollect c lm im ks vs F (lastLeaf c lm im h p) (lastLeaf c lm im h p).leaf.len).map
        (inorder c lm im ks vs h p ++ ·) := by
  induction h with
  | zero =>
    intro p par pidx F ht
    obtain ⟨n, hm, hh0, -, -, hok⟩ := ht
    have hn : nodeAt c lm im 0 p = n := by simp [nodeAt, hm]
    simp only [inorder, firstLeaf, lastLeaf, hn, List.length_map, List.length_range]
    have := btCollect_leaf_run c lm im ks vs n hh0 hok n.leaf.len 0 F (by omega)
    simpa using this
  | succ h ih =>
    intro p par pidx F ht
    have ih := ih (by omega)
    obtain ⟨n, hm, hhn, -, -, hok, hch⟩ := ht
    have hn : nodeAt c lm im (h + 1) p = n := by simp [nodeAt, hm]
    -- partial in-order sequences
    let P : Nat → List (Data × Data) := fun k =>
      inorder c lm im ks vs h (edgeOf n 0) ++
        (List.range k).flatMap fun j => entry ks vs n j :: inorder c lm im ks vs h (edgeOf n (j + 1))
    have step : ∀ k, k ≤ n.leaf.len → ∀ F,
        btCollect c lm im ks vs (F + (P k).length) (firstLeaf c lm im h (edgeOf n 0)) 0 =
          (btCollect c lm im ks vs F (lastLeaf c lm im h (edgeOf n k)) (lastLeaf c lm im h (edgeOf n k)).leaf.len).map
            (P k ++ ·) := by
      intro k
      induction k with
      | zero =>
        intro _ F
        obtain ⟨e, he, hte⟩ := hch 0 (by omega)
        have := ih e (some p) 0 F hte
        simpa [P, edgeOf_eq n 0 e he] using this
      | succ k ihk =>
        intro hk F
        obtain ⟨e, he, hte⟩ := hch k (by omega)
        obtain ⟨e', he', hte'⟩ := hch (k + 1) hk
        obtain ⟨m, hmm, hnm, hmh, hmp, hmi, -⟩ := tree_node c lm im ks vs h e (some p) k hte
        obtain ⟨m', hmm', hnm', -, -, -, -⟩ := tree_node c lm im ks vs h e' (some p) (k + 1) hte'
        have hP : P (k + 1) = P k ++ (entry ks vs n k :: inorder c lm im ks vs h e') := by
          simp [P, List.range_succ, List.flatMap_append, edgeOf_eq n (k + 1) e' he']
        have hlen : F + (P (k + 1)).length = (F + (inorder c lm im ks vs h e').length + 1) + (P k).length := by
          rw [hP]; simp; omega
        rw [hlen, ihk (by omega) _, edgeOf_eq n k e he, edgeOf_eq n (k + 1) e' he']
        -- the exhausted last leaf of child k: climb to the child, to `n`, yield entry k, descend into child k+1
        have hnext : btNext c lm im ks vs 64 (lastLeaf c lm im h e) (lastLeaf c lm im h e).leaf.len =
            some (some (entry ks vs n k, (firstLeaf c lm im h e', 0))) := by
          have h64 : (64 : Nat) = (64 - h) + h := by omega
          rw [h64, btNext_exhaust c lm im ks vs h e (some p) k (64 - h) hte, hnm]
          have h2 : 64 - h = (63 - h) + 1 := by omega
          have hq : makeNode c lm im p (m.height + 1) = some n := by rw [hmh]; exact hm
          rw [h2, btNext_climb c lm im ks vs (63 - h) m n m.leaf.len p (by omega) hmp hq, hmi]
          have h3 : 63 - h = (62 - h) + 1 := by omega
          have hd : descend c lm im 64 m' = some (firstLeaf c lm im h e') := by
            have := descend_first c lm im ks vs h e' (some p) (k + 1) (63 - h) hte'
            rw [hnm'] at this
            have h4 : h + 1 + (63 - h) = 64 := by omega
            rw [h4] at this
            exact this
          rw [h3]
          exact btNext_internal_yield c lm im ks vs (62 - h) h n m' _ k e' hhn (by omega) hok he' hmm' hd
        rw [btCollect, hnext]
        simp only []
        rw [ih e' (some p) (k + 1) F hte', hP]
        simp only [Option.map_map]
        congr 1
        funext r
        simp [Function.comp, List.append_assoc]
    have hfin := step n.leaf.len (Nat.le_refl _) F
    have hPn : P n.leaf.len = inorder c lm im ks vs (h + 1) p := by simp [P, inorder, hn]
    rw [hPn] at hfin
    simpa [firstLeaf, lastLeaf, hn] using hfin

/-- **the B-tree walk is the in-order traversal**: for every well-formed tree image of ANY height (≤ 62) rooted at `p`
    (root: no parent), `first_leaf_edge` reaches the first leaf and the iterator yields exactly the in-order
    sequence of (key image, value image) pairs — nothing missing, duplicated or invented — and then stops. -/
theorem btree_walk_inorder (H p : Nat) (hH : H ≤ 62) (ht : TreeOK c lm im ks vs H p none 0)
    (hfuel : (inorder c lm im ks vs H p).length < btFuel) :
    descend c lm im 64 (nodeAt c lm im H p) = some (firstLeaf c lm im H p) ∧
    btCollect c lm im ks vs btFuel (firstLeaf c lm im H p) 0 = some (inorder c lm im ks vs H p) := by
  constructor
  · have := descend_first c lm im ks vs H p none 0 (63 - H) ht
    have h4 : H + 1 + (63 - H) = 64 := by omega
    rw [h4] at this
    exact this
  · obtain ⟨n, hm, hnn, hnh, hnp, -, -⟩ := tree_node c lm im ks vs H p none 0 ht
    have hsplit : btFuel = (btFuel - (inorder c lm im ks vs H p).length - 1 + 1) + (inorder c lm im ks vs H p).length := by
      omega
    rw [hsplit, btCollect_subtree c lm im ks vs H hH p none 0 _ ht, btCollect]
    have h64 : (64 : Nat) = (64 - H) + H := by omega
    rw [h64, btNext_exhaust c lm im ks vs H p none 0 (64 - H) ht, hnn]
    have h2 : 64 - H = (63 - H) + 1 := by omega
    rw [h2, btNext_root_end c lm im ks vs (63 - H) n n.leaf.len hnp (by omega)]
    simp

end walk

end BsVerif.Value
