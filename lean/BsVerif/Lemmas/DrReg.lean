import BsVerif.Lemmas.Dr
/-!
The watchpoint registry of the model: counting lemmas, the encoding relation between a register image and a
watchpoint list, and its preservation by `HardwareBreakpoint::enable` / `disable`.
-/
namespace BsVerif.Dr
open BsVerif.Gen.Dr

/-- number of watchpoints of the list that own slot `i` -/
def cnt (l : List Wp) (i : Nat) : Nat := (l.filter (fun w => w.hw.reg == some i)).length

theorem cnt_nil (i : Nat) : cnt [] i = 0 := rfl
theorem cnt_cons (w : Wp) (l : List Wp) (i : Nat) :
    cnt (w :: l) i = (if w.hw.reg = some i then 1 else 0) + cnt l i := by
  unfold cnt; rw [List.filter_cons]
  by_cases h : w.hw.reg = some i <;> simp [h] <;> omega

theorem cnt_append (l : List Wp) (w : Wp) (i : Nat) :
    cnt (l ++ [w]) i = cnt l i + (if w.hw.reg = some i then 1 else 0) := by
  induction l with
  | nil => simp [cnt_cons, cnt_nil]
  | cons a l ih => simp only [List.cons_append, cnt_cons, ih]; omega

theorem cnt_pos_iff (l : List Wp) (i : Nat) : 0 < cnt l i ↔ ∃ w ∈ l, w.hw.reg = some i := by
  induction l with
  | nil => simp [cnt_nil]
  | cons a l ih =>
    rw [cnt_cons]
    by_cases h : a.hw.reg = some i
    · simp [h]; omega
    · simp only [h, if_false, Nat.zero_add, ih, List.mem_cons, exists_eq_or_imp, false_or]

theorem length_eq_cnt (l : List Wp) (h : ∀ w ∈ l, ∃ r, r < 4 ∧ w.hw.reg = some r) :
    l.length = cnt l 0 + cnt l 1 + cnt l 2 + cnt l 3 := by
  induction l with
  | nil => simp [cnt_nil]
  | cons a l ih =>
    have ih := ih (fun w hw => h w (List.mem_cons_of_mem _ hw))
    obtain ⟨r, hr, ha⟩ := h a (List.mem_cons_self ..)
    simp only [List.length_cons, cnt_cons, ha, ih, Option.some.injEq]
    rcases slot_cases hr with h | h | h | h <;> subst h <;> simp <;> omega

theorem extract_none {p : Wp → Bool} {l : List Wp} (h : extract p l = none) : ∀ y ∈ l, p y = false := by
  induction l with
  | nil => simp
  | cons a l ih =>
    unfold extract at h
    by_cases hp : p a = true
    · simp [hp] at h
    · simp only [hp, Bool.false_eq_true, if_false, Option.map_eq_none_iff] at h
      intro y hy; rcases List.mem_cons.1 hy with rfl | hy
      · simpa using hp
      · exact ih h y hy

theorem extract_some {p : Wp → Bool} {l : List Wp} {x : Wp} {r : List Wp} (h : extract p l = some (x, r)) :
    x ∈ l ∧ p x = true ∧ (∀ y ∈ r, y ∈ l) ∧ (∀ y ∈ l, y = x ∨ y ∈ r) ∧ l.length = r.length + 1 ∧
    ∀ i, cnt l i = cnt r i + (if x.hw.reg = some i then 1 else 0) := by
  induction l generalizing r with
  | nil => simp [extract] at h
  | cons a l ih =>
    unfold extract at h
    by_cases hp : p a = true
    · simp only [hp, if_true, Option.some.injEq, Prod.mk.injEq] at h
      obtain ⟨rfl, rfl⟩ := h
      refine ⟨List.mem_cons_self .., hp, fun y hy => List.mem_cons_of_mem _ hy, ?_, rfl, ?_⟩
      · intro y hy; rcases List.mem_cons.1 hy with h | h
        · exact Or.inl h
        · exact Or.inr h
      · intro i; rw [cnt_cons]; omega
    · simp only [hp, Bool.false_eq_true, if_false, Option.map_eq_some_iff, Prod.mk.injEq] at h
      obtain ⟨⟨x', r'⟩, he, rfl, rfl⟩ := h
      obtain ⟨h1, h2, h3, h4, h5, h6⟩ := ih he
      refine ⟨List.mem_cons_of_mem _ h1, h2, ?_, ?_, ?_, ?_⟩
      · intro y hy; rcases List.mem_cons.1 hy with h | h
        · exact h ▸ List.mem_cons_self ..
        · exact List.mem_cons_of_mem _ (h3 y h)
      · intro y hy; rcases List.mem_cons.1 hy with h | h
        · exact Or.inr (h ▸ List.mem_cons_self ..)
        · rcases h4 y h with h | h
          · exact Or.inl h
          · exact Or.inr (List.mem_cons_of_mem _ h)
      · simp [h5]
      · intro i; have := h6 i; simp only at this ⊢; rw [cnt_cons, cnt_cons, this]; omega


theorem findFree_some {d r : Nat} (h : findFree d = some r) : r < 4 ∧ L d r = 0 := by
  have e0 := drEnabled_local (d := d) (show 0 < 4 by omega)
  have e1 := drEnabled_local (d := d) (show 1 < 4 by omega)
  have e2 := drEnabled_local (d := d) (show 2 < 4 by omega)
  have e3 := drEnabled_local (d := d) (show 3 < 4 by omega)
  rcases L_cases d 0 with h0 | h0 <;> rcases L_cases d 1 with h1 | h1 <;> rcases L_cases d 2 with h2 | h2 <;>
    rcases L_cases d 3 with h3 | h3 <;>
    simp [findFree, freeSearchOrder, List.find?, e0, e1, e2, e3, h0, h1, h2, h3] at h <;> subst h <;> simp [*]

theorem findFree_none {d : Nat} (h : findFree d = none) : L d 0 = 1 ∧ L d 1 = 1 ∧ L d 2 = 1 ∧ L d 3 = 1 := by
  have e0 := drEnabled_local (d := d) (show 0 < 4 by omega)
  have e1 := drEnabled_local (d := d) (show 1 < 4 by omega)
  have e2 := drEnabled_local (d := d) (show 2 < 4 by omega)
  have e3 := drEnabled_local (d := d) (show 3 < 4 by omega)
  rcases L_cases d 0 with h0 | h0 <;> rcases L_cases d 1 with h1 | h1 <;> rcases L_cases d 2 with h2 | h2 <;>
    rcases L_cases d 3 with h3 | h3 <;>
    simp [findFree, freeSearchOrder, List.find?, e0, e1, e2, e3, h0, h1, h2, h3] at h ⊢

theorem setAddr_dr7 (m : Img) (i v : Nat) : (m.setAddr i v).dr7 = m.dr7 := by
  unfold Img.setAddr; split <;> rfl

theorem setAddr_addr {m : Img} {i r v : Nat} (hi : i < 4) (hr : r < 4) :
    (m.setAddr r v).addr i = if i = r then v else m.addr i := by
  rcases slot_cases hi with h | h | h | h <;> subst h <;> rcases slot_cases hr with h | h | h | h <;> subst h <;> rfl

theorem enableImg_dr7 (m : Img) (r : Nat) (hw : Hw) :
    (enableImg m r hw).dr7 = setDr (configureBp m.dr7 r hw.cond hw.size) r false true := by
  simp only [enableImg, setAddr_dr7]

theorem enableImg_addr {m : Img} {i r : Nat} (hw : Hw) (hi : i < 4) (hr : r < 4) :
    (enableImg m r hw).addr i = if i = r then hw.addr else m.addr i := by
  have : (enableImg m r hw).addr i = (m.setAddr r hw.addr).addr i := by
    simp only [enableImg, Img.addr]
  rw [this, setAddr_addr hi hr]

theorem disableImg_addr (m : Img) (k i : Nat) : (disableImg m k).addr i = m.addr i := by
  simp only [disableImg, Img.addr]
theorem disableImg_dr7 (m : Img) (k : Nat) : (disableImg m k).dr7 = setDr m.dr7 k false false := rfl

/-- the register image `m` encodes exactly the watchpoint list `wps` (Intel layout) -/
structure Encodes (m : Img) (wps : List Wp) : Prop where
  enabled : ∀ i, i < 4 → (L m.dr7 i = 1 ↔ ∃ w ∈ wps, w.hw.reg = some i)
  fields : ∀ i, i < 4 → ∀ w ∈ wps, w.hw.reg = some i →
    m.addr i = w.hw.addr ∧ RW m.dr7 i = w.hw.cond.code ∧ LEN m.dr7 i = w.hw.size.code
  global : ∀ i, i < 4 → G m.dr7 i = 0
  ge : GE m.dr7 = 0
  le : LE m.dr7 = 1 ↔ wps ≠ []

/-- every watchpoint of the list owns a slot and no slot has two owners -/
structure RegOk (wps : List Wp) : Prop where
  slots : ∀ w ∈ wps, ∃ r, r < 4 ∧ w.hw.reg = some r
  uniq : ∀ i, i < 4 → cnt wps i ≤ 1

theorem RegOk.length_le {wps : List Wp} (h : RegOk wps) : wps.length ≤ 4 := by
  rw [length_eq_cnt wps h.slots]
  have := h.uniq 0 (by omega); have := h.uniq 1 (by omega); have := h.uniq 2 (by omega); have := h.uniq 3 (by omega)
  omega

theorem encodes_zero : Encodes {} [] where
  enabled := by intro i hi; rcases slot_cases hi with h | h | h | h <;> subst h <;> simp [L, bitN]
  fields := by intro i _ w hw; simp at hw
  global := by intro i hi; rcases slot_cases hi with h | h | h | h <;> subst h <;> simp [G, bitN]
  ge := by simp [GE, bitN]
  le := by simp [LE, bitN]

theorem Encodes.congr {m m' : Img} {wps : List Wp} (h : Encodes m wps) (ha : ∀ i, m'.addr i = m.addr i)
    (hd : m'.dr7 = m.dr7) : Encodes m' wps where
  enabled := by rw [hd]; exact h.enabled
  fields := by intro i hi w hw hr; rw [hd, ha]; exact h.fields i hi w hw hr
  global := by rw [hd]; exact h.global
  ge := by rw [hd]; exact h.ge
  le := by rw [hd]; exact h.le

theorem encodes_enable {m : Img} {wps : List Wp} {r : Nat} {hw : Hw} {w : Wp}
    (hreg : RegOk wps) (he : Encodes m wps) (hr : r < 4) (hfree : L m.dr7 r = 0)
    (hw1 : w.hw.addr = hw.addr) (hw2 : w.hw.cond = hw.cond) (hw3 : w.hw.size = hw.size) (hw4 : w.hw.reg = some r) :
    Encodes (enableImg m r hw) (wps ++ [w]) ∧ RegOk (wps ++ [w]) := by
  have noOwner : ¬ ∃ w' ∈ wps, w'.hw.reg = some r := by
    intro h; have := (he.enabled r hr).2 h; omega
  have Lr : L (enableImg m r hw).dr7 r = 1 := by rw [enableImg_dr7]; exact setDr_enable_L_same hr
  have Lo : ∀ i, i < 4 → i ≠ r → L (enableImg m r hw).dr7 i = L m.dr7 i := by
    intro i hi hne; rw [enableImg_dr7, setDr_enable_L_other hr hi hne, configureBp_L hr hi]
  have hi' : ∀ i, i < 4 → setDr (configureBp m.dr7 r hw.cond hw.size) r false true / 65536 =
      configureBp m.dr7 r hw.cond hw.size / 65536 := fun _ _ => setDr_enable_high hr
  constructor
  · constructor
    · intro i hi
      by_cases hir : i = r
      · subst hir; simp only [Lr, true_iff]; exact ⟨w, by simp, hw4⟩
      · rw [Lo i hi hir, he.enabled i hi]
        constructor
        · rintro ⟨w', hm, hr'⟩; exact ⟨w', List.mem_append_left _ hm, hr'⟩
        · rintro ⟨w', hm, hr'⟩
          rcases List.mem_append.1 hm with hm | hm
          · exact ⟨w', hm, hr'⟩
          · simp only [List.mem_singleton] at hm; subst hm
            rw [hw4] at hr'; exact absurd (Option.some.inj hr').symm hir
    · intro i hi w' hm hr'
      rcases List.mem_append.1 hm with hm | hm
      · have hir : i ≠ r := by rintro rfl; exact noOwner ⟨w', hm, hr'⟩
        obtain ⟨f1, f2, f3⟩ := he.fields i hi w' hm hr'
        refine ⟨?_, ?_, ?_⟩
        · rw [enableImg_addr hw hi hr, if_neg hir]; exact f1
        · rw [enableImg_dr7, RW_of_high (hi' i hi) hi, configureBp_RW_other hr hi hir]; exact f2
        · rw [enableImg_dr7, LEN_of_high (hi' i hi) hi, configureBp_LEN_other hr hi hir]; exact f3
      · simp only [List.mem_singleton] at hm; subst hm
        rw [hw4] at hr'; have hir : r = i := Option.some.inj hr'; subst hir
        refine ⟨?_, ?_, ?_⟩
        · rw [enableImg_addr hw hi hr, if_pos rfl, hw1]
        · rw [enableImg_dr7, RW_of_high (hi' r hi) hi, configureBp_RW_same hr, hw2]
        · rw [enableImg_dr7, LEN_of_high (hi' r hi) hi, configureBp_LEN_same hr, hw3]
    · intro i hi; rw [enableImg_dr7, setDr_enable_G hr hi, configureBp_G hr hi]; exact he.global i hi
    · rw [enableImg_dr7, setDr_enable_GE hr, configureBp_GE hr]; exact he.ge
    · rw [enableImg_dr7, setDr_enable_LE hr]; simp
  · constructor
    · intro w' hm
      rcases List.mem_append.1 hm with hm | hm
      · exact hreg.slots w' hm
      · simp only [List.mem_singleton] at hm; subst hm; exact ⟨r, hr, hw4⟩
    · intro i hi
      rw [cnt_append, hw4]
      by_cases hir : r = i
      · subst hir
        have : ¬ 0 < cnt wps r := fun h => noOwner ((cnt_pos_iff wps r).1 h)
        simp; omega
      · have := hreg.uniq i hi
        simp [hir]; exact this

theorem encodes_disable {m : Img} {wps rest : List Wp} {x : Wp} {k : Nat} {p : Wp → Bool}
    (hreg : RegOk wps) (he : Encodes m wps) (hx : extract p wps = some (x, rest)) (hk : x.hw.reg = some k) :
    Encodes (disableImg m k) rest ∧ RegOk rest := by
  obtain ⟨xin, _, sub, cover, _, hc⟩ := extract_some hx
  obtain ⟨k', hk4, hk'⟩ := hreg.slots x xin
  rw [hk] at hk'; have : k = k' := Option.some.inj hk'; subst this
  have cntk : cnt rest k = 0 := by have := hc k; have := hreg.uniq k hk4; simp [hk] at *; omega
  have noOwner : ¬ ∃ w' ∈ rest, w'.hw.reg = some k := by
    intro h; have := (cnt_pos_iff rest k).2 h; omega
  have owners : ∀ i, i ≠ k → ((∃ w' ∈ wps, w'.hw.reg = some i) ↔ ∃ w' ∈ rest, w'.hw.reg = some i) := by
    intro i hik; constructor
    · rintro ⟨w', hm, hr'⟩
      rcases cover w' hm with h | h
      · subst h; rw [hk] at hr'; exact absurd (Option.some.inj hr').symm hik
      · exact ⟨w', h, hr'⟩
    · rintro ⟨w', hm, hr'⟩; exact ⟨w', sub w' hm, hr'⟩
  have Lk : L (disableImg m k).dr7 k = 0 := by rw [disableImg_dr7]; exact setDr_disable_L_same hk4
  have Lo : ∀ i, i < 4 → i ≠ k → L (disableImg m k).dr7 i = L m.dr7 i := by
    intro i hi hne; rw [disableImg_dr7]; exact setDr_disable_L_other hk4 hi hne
  have enabled : ∀ i, i < 4 → (L (disableImg m k).dr7 i = 1 ↔ ∃ w ∈ rest, w.hw.reg = some i) := by
    intro i hi
    by_cases hik : i = k
    · subst hik; rw [Lk]; simp only [Nat.zero_ne_one, false_iff]; exact noOwner
    · rw [Lo i hi hik, he.enabled i hi, owners i hik]
  constructor
  · constructor
    · exact enabled
    · intro i hi w' hm hr'
      have hik : i ≠ k := by rintro rfl; exact noOwner ⟨w', hm, hr'⟩
      obtain ⟨f1, f2, f3⟩ := he.fields i hi w' (sub w' hm) hr'
      refine ⟨by rw [disableImg_addr]; exact f1, ?_, ?_⟩
      · rw [disableImg_dr7, RW_of_high (setDr_disable_high hk4) hi]; exact f2
      · rw [disableImg_dr7, LEN_of_high (setDr_disable_high hk4) hi]; exact f3
    · intro i hi; rw [disableImg_dr7, setDr_disable_G hk4 hi]; exact he.global i hi
    · rw [disableImg_dr7, setDr_disable_GE hk4]; exact he.ge
    · have hle := setDr_disable_LE (d := m.dr7) hk4
      rw [← disableImg_dr7] at hle
      cases rest with
      | nil =>
        have z : ∀ i, i < 4 → L (disableImg m k).dr7 i = 0 := by
          intro i hi; have := (enabled i hi); have := L_cases (disableImg m k).dr7 i
          rcases this with h | h
          · exact h
          · have := (enabled i hi).1 h; simp at this
        rw [hle, if_pos ⟨z 0 (by omega), z 1 (by omega), z 2 (by omega), z 3 (by omega)⟩]; simp
      | cons y ys =>
        obtain ⟨j, hj4, hj⟩ := hreg.slots y (sub y (List.mem_cons_self ..))
        have hLj : L (disableImg m k).dr7 j = 1 := (enabled j hj4).2 ⟨y, List.mem_cons_self .., hj⟩
        have hwne : wps ≠ [] := by intro h; rw [h] at xin; simp at xin
        have hLE : LE m.dr7 = 1 := he.le.2 hwne
        rw [hle, if_neg]
        · simp [hLE]
        · rintro ⟨a0, a1, a2, a3⟩
          rcases slot_cases hj4 with h | h | h | h <;> subst h <;> omega
  · constructor
    · intro w' hm; exact hreg.slots w' (sub w' hm)
    · intro i hi; have := hc i; have := hreg.uniq i hi; omega


/-- invariant of the whole system: the registry is well formed and the register file of EVERY thread, as well as
the image kept for future threads, encodes exactly the watchpoint list -/
structure Inv (s : Sys) : Prop where
  reg : RegOk s.wps
  main : Encodes s.main s.wps
  others : ∀ t ∈ s.others, Encodes t s.wps
  last : ∀ l, s.last = some l → Encodes l s.wps
  lastNone : s.last = none → s.wps = []

theorem inv_init : Inv {} where
  reg := ⟨by simp, by intro i _; simp [cnt_nil]⟩
  main := encodes_zero
  others := by simp
  last := by simp
  lastNone := by simp

theorem hwEnable_ok {s : Sys} {hw hw' : Hw} {st : Img} {s1 : Sys} (h : hwEnable s hw = .ok (st, hw', s1)) :
    ∃ r, findFree s.main.dr7 = some r ∧ st = enableImg s.main r hw ∧ hw' = { hw with reg := some r } ∧
      s1 = s.syncAll st := by
  unfold hwEnable at h
  split at h
  · simp at h
  · rename_i r hr
    simp only [Except.ok.injEq, Prod.mk.injEq] at h
    obtain ⟨h1, h2, h3⟩ := h
    subst h1; exact ⟨r, hr, rfl, h2.symm, h3.symm⟩

theorem hwEnable_error {s : Sys} {hw : Hw} {e : Err} (h : hwEnable s hw = .error e) :
    findFree s.main.dr7 = none ∧ e = .limitReached := by
  unfold hwEnable at h
  split at h
  · rename_i hr; simp at h; exact ⟨hr, h.symm⟩
  · simp at h

/-- the state after a successful enable + `WatchpointRegistry::add` -/
theorem inv_after_enable {s : Sys} {hw hw' : Hw} {st : Img} {s1 : Sys} (hinv : Inv s)
    (h : hwEnable s hw = .ok (st, hw', s1)) (w : Wp) (hw0 : w.hw = hw') (n : Nat) :
    Inv { s1 with wps := s1.wps ++ [w], last := some st, nextWp := n } := by
  obtain ⟨r, hf, rfl, rfl, rfl⟩ := hwEnable_ok h
  obtain ⟨hr, hfree⟩ := findFree_some hf
  have := encodes_enable (w := w) (hw := hw) hinv.reg hinv.main hr hfree (by rw [hw0]) (by rw [hw0]) (by rw [hw0]) (by rw [hw0])
  obtain ⟨e, ro⟩ := this
  constructor
  · exact ro
  · exact e
  · intro t ht
    simp only [Sys.syncAll, List.mem_map] at ht
    obtain ⟨_, _, rfl⟩ := ht; exact e
  · intro l hl; simp only [Option.some.injEq] at hl; subst hl; exact e
  · intro hl; simp at hl

theorem addMem_inv {s : Sys} (hinv : Inv s) (a : Nat) (sz : BreakSize) (c : BreakCondition) : Inv (addMem s a sz c).2 := by
  unfold addMem
  split
  · exact hinv
  · split
    · exact hinv
    · rename_i st hw' s1 he
      exact inv_after_enable hinv he _ rfl _

/-- companions do not take part in the register invariant -/
theorem inv_comps {s : Sys} (hinv : Inv s) (c : List Comp) (n : Nat) : Inv { s with comps := c, nextBp := n } :=
  ⟨hinv.reg, hinv.main, hinv.others, hinv.last, hinv.lastNone⟩

theorem addCompanion_inv {s : Sys} (hinv : Inv s) (a : Nat) : Inv (addCompanion s a).2 := by
  unfold addCompanion
  split
  · exact inv_comps hinv _ _
  · exact inv_comps hinv _ _

theorem inv_of_fields {s t : Sys} (h : Inv s) (hm : t.main = s.main) (ho : t.others = s.others)
    (hw : t.wps = s.wps) (hl : t.last = s.last) : Inv t :=
  ⟨hw ▸ h.reg, hm ▸ hw ▸ h.main, ho ▸ hw ▸ h.others, hl ▸ hw ▸ h.last, hl ▸ hw ▸ h.lastNone⟩

theorem addCompanion_fields (s : Sys) (a : Nat) :
    (addCompanion s a).2.main = s.main ∧ (addCompanion s a).2.others = s.others ∧
    (addCompanion s a).2.wps = s.wps ∧ (addCompanion s a).2.last = s.last ∧
    (addCompanion s a).2.nextWp = s.nextWp ∧ (addCompanion s a).2.newborn = s.newborn := by
  unfold addCompanion
  split <;> simp

theorem addExpr_inv {s : Sys} (hinv : Inv s) (e a b : Nat) (c : BreakCondition) (se : Option Nat) :
    Inv (addExpr s e a b c se).2 := by
  unfold addExpr
  split
  · exact hinv
  · split
    · exact hinv
    · split
      · exact hinv
      · rename_i size _
        split
        · exact hinv
        · rename_i st hw' s1 he
          cases se with
          | none =>
            simp only
            exact inv_after_enable hinv he _ rfl _
          | some a' =>
            simp only
            obtain ⟨h1, h2, h3, h4, _, _⟩ := addCompanion_fields s1 a'
            exact inv_of_fields (inv_after_enable hinv he
              { num := (addCompanion s1 a').2.nextWp, hw := hw', expr := some e,
                companion := some (addCompanion s1 a').1 } rfl 0) h1 h2 (by simp [h3]) rfl

theorem removeWhere_inv {s : Sys} (hinv : Inv s) (p : Wp → Bool) {n : Option Nat} {s' : Sys}
    (h : removeWhere s p = some (n, s')) : Inv s' := by
  unfold removeWhere at h
  split at h
  · simp only [Option.some.injEq, Prod.mk.injEq] at h; obtain ⟨_, rfl⟩ := h; exact hinv
  · rename_i w rest hx
    unfold wpDisable at h
    obtain ⟨k, hk4, hk⟩ := hinv.reg.slots w (extract_some hx).1
    simp only [hk] at h
    simp only [Option.some.injEq, Prod.mk.injEq] at h
    obtain ⟨_, rfl⟩ := h
    obtain ⟨e, ro⟩ := encodes_disable hinv.reg hinv.main hx hk
    constructor
    · exact ro
    · exact e
    · intro t ht
      simp only [Sys.syncAll, List.mem_map] at ht
      obtain ⟨_, _, rfl⟩ := ht; exact e
    · intro l hl; simp only [Option.some.injEq] at hl; subst hl; exact e
    · intro hl; simp at hl

theorem removeWhere_total {s : Sys} (hinv : Inv s) (p : Wp → Bool) : ∃ n s', removeWhere s p = some (n, s') := by
  unfold removeWhere
  split
  · exact ⟨_, _, rfl⟩
  · rename_i w rest hx
    obtain ⟨k, hk4, hk⟩ := hinv.reg.slots w (extract_some hx).1
    simp only [wpDisable, hk]
    exact ⟨_, _, rfl⟩

theorem rmRes_inv {s : Sys} (hinv : Inv s) (p : Wp → Bool) : Inv (rmRes (removeWhere s p) s).2 := by
  obtain ⟨n, s', h⟩ := removeWhere_total hinv p
  rw [h]; exact removeWhere_inv hinv p h

theorem removeNums_inv {s : Sys} (hinv : Inv s) (l : List Nat) {s' : Sys} (h : removeNums s l = some s') : Inv s' := by
  induction l generalizing s with
  | nil => simp [removeNums] at h; subst h; exact hinv
  | cons n ns ih =>
    unfold removeNums at h
    split at h
    · simp at h
    · rename_i r s1 hr
      exact ih (removeWhere_inv hinv _ hr) h


theorem findFree_exists {m : Img} {wps : List Wp} (hreg : RegOk wps) (he : Encodes m wps) (hlen : wps.length < 4) :
    ∃ r, findFree m.dr7 = some r := by
  cases hf : findFree m.dr7 with
  | some r => exact ⟨r, rfl⟩
  | none =>
    obtain ⟨l0, l1, l2, l3⟩ := findFree_none hf
    have c0 := (cnt_pos_iff wps 0).2 ((he.enabled 0 (by omega)).1 l0)
    have c1 := (cnt_pos_iff wps 1).2 ((he.enabled 1 (by omega)).1 l1)
    have c2 := (cnt_pos_iff wps 2).2 ((he.enabled 2 (by omega)).1 l2)
    have c3 := (cnt_pos_iff wps 3).2 ((he.enabled 3 (by omega)).1 l3)
    have := length_eq_cnt wps hreg.slots
    omega

theorem findFree_none_full {m : Img} {wps : List Wp} (hreg : RegOk wps) (he : Encodes m wps)
    (hf : findFree m.dr7 = none) : wps.length = 4 := by
  have h1 := hreg.length_le
  by_cases h : wps.length < 4
  · obtain ⟨r, hr⟩ := findFree_exists hreg he h; rw [hf] at hr; simp at hr
  · omega

/-- `refresh` on a register file that still has room: every kept watchpoint is re-enabled -/
theorem refreshGo_inv (ws : List Wp) : ∀ {s : Sys}, Inv s → s.wps.length + ws.length ≤ 4 →
    Inv (refreshGo s ws) ∧
    (refreshGo s ws).wps.map (fun w => (w.num, w.hw.addr, w.hw.size, w.hw.cond, w.expr, w.companion)) =
      (s.wps ++ ws).map (fun w => (w.num, w.hw.addr, w.hw.size, w.hw.cond, w.expr, w.companion)) := by
  induction ws with
  | nil => intro s hinv _; simp [refreshGo, hinv]
  | cons w ws ih =>
    intro s hinv hlen
    unfold refreshGo
    simp only [List.length_cons] at hlen
    obtain ⟨r, hr⟩ := findFree_exists hinv.reg hinv.main (by omega)
    have hen : hwEnable s { w.hw with reg := none } =
        .ok (enableImg s.main r { w.hw with reg := none }, { w.hw with reg := some r }, s.syncAll (enableImg s.main r { w.hw with reg := none })) := by
      simp [hwEnable, hr]
    rw [hen]
    simp only
    have hi := inv_after_enable hinv hen { w with hw := { w.hw with reg := some r } } rfl s.nextWp
    have := ih (s := { s.syncAll (enableImg s.main r { w.hw with reg := none }) with
        wps := (s.syncAll (enableImg s.main r { w.hw with reg := none })).wps ++ [{ w with hw := { w.hw with reg := some r } }],
        last := some (enableImg s.main r { w.hw with reg := none }) }) hi (by simp [Sys.syncAll]; omega)
    refine ⟨this.1, ?_⟩
    rw [this.2]; simp [Sys.syncAll]

/-- the abstraction of `clear_local_disable_global` + `disable_all_breakpoints` + process start that the loop model
is proved against: nothing is left but the counters -/
def hibernate (s : Sys) : Sys :=
  { s with main := {}, others := [], newborn := [], last := none, wps := [], comps := [] }

/-- what `clear_local_disable_global` does to a watchpoint it keeps: with a live process its slot is given up
(`register = None`), with a dead one nothing at all happens to it -/
def hibernated (alive : Bool) (w : Wp) : Wp := if alive then { w with hw := { w.hw with reg := none } } else w

theorem hibernated_scoped (alive : Bool) (w : Wp) : (hibernated alive w).scoped = w.scoped := by
  cases alive <;> rfl

theorem wpDisable_wps {s : Sys} {w : Wp} {st : Img} {s2 : Sys} (h : wpDisable s w = some (st, s2)) :
    s2.wps = s.wps := by
  unfold wpDisable at h
  split at h
  · simp at h
  · simp only [Option.some.injEq, Prod.mk.injEq] at h
    rw [← h.2]; simp [Sys.syncAll]

theorem wpDisable_isSome {s : Sys} {w : Wp} (h : w.hw.reg.isSome) : ∃ st s2, wpDisable s w = some (st, s2) := by
  unfold wpDisable
  cases hr : w.hw.reg with
  | none => simp [hr] at h
  | some r => exact ⟨_, _, rfl⟩

/-- the index loop of `clear_local_disable_global`, started at index `|pre|` with `|suf|` iterations to go on the
vector `pre ++ suf`, ends with `pre` followed by the unscoped elements of `suf` (hibernated) — whatever the vector
holds: no element is skipped and none is visited twice although the vector shrinks under the index -/
theorem cldgLoop_wps (alive : Bool) (suf : List Wp) : ∀ (pre : List Wp) (s s' : Sys), s.wps = pre ++ suf →
    cldgLoop alive suf.length pre.length s = some s' →
    s'.wps = pre ++ (suf.filter (fun w => !w.scoped)).map (hibernated alive) := by
  induction suf with
  | nil =>
    intro pre s s' hw h
    simp only [List.length_nil, cldgLoop, Option.some.injEq] at h
    subst h; simpa using hw
  | cons w suf ih =>
    intro pre s s' hw h
    have hj : s.wps[pre.length]? = some w := by rw [hw]; simp
    have he : s.wps.eraseIdx pre.length = pre ++ suf := by
      rw [hw, List.eraseIdx_append_of_length_le (Nat.le_refl _)]; simp
    simp only [List.length_cons, cldgLoop, hj] at h
    by_cases hsc : w.scoped = true
    · simp only [hsc, if_true] at h
      cases alive with
      | true =>
        simp only [if_true] at h
        split at h
        · simp at h
        · rename_i st s2 hd
          have h2 := wpDisable_wps hd
          have := ih pre _ s' (by simp only [h2, he]) h
          simpa [hsc] using this
      | false =>
        simp only [Bool.false_eq_true, if_false] at h
        have := ih pre _ s' (by simp only [he]) h
        simpa [hsc] using this
    · simp only [hsc, Bool.false_eq_true, if_false] at h
      have hns : (!w.scoped) = true := by simp [hsc]
      cases alive with
      | true =>
        simp only [if_true] at h
        split at h
        · simp at h
        · rename_i st s2 hd
          have h2 := wpDisable_wps hd
          have := ih (pre ++ [hibernated true w])
            { s2 with wps := s2.wps.set pre.length { w with hw := { w.hw with reg := none } } } s' (by
            simp only [h2, hw]
            rw [List.set_append_right _ _ (Nat.le_refl _)]
            simp [hibernated]) (by simpa using h)
          simpa [hns] using this
      | false =>
        simp only [Bool.false_eq_true, if_false] at h
        have := ih (pre ++ [w]) s s' (by simp [hw]) (by simpa using h)
        simpa [hns, hibernated] using this

/-- with a dead process the loop cannot panic; with a live one it cannot as long as every watchpoint owns a slot -/
theorem cldgLoop_total (alive : Bool) (suf : List Wp) : ∀ (pre : List Wp) (s : Sys), s.wps = pre ++ suf →
    (alive = false ∨ ∀ w ∈ suf, w.hw.reg.isSome) → ∃ s', cldgLoop alive suf.length pre.length s = some s' := by
  induction suf with
  | nil => intro pre s _ _; exact ⟨s, rfl⟩
  | cons w suf ih =>
    intro pre s hw hreg
    have hj : s.wps[pre.length]? = some w := by rw [hw]; simp
    have he : s.wps.eraseIdx pre.length = pre ++ suf := by
      rw [hw, List.eraseIdx_append_of_length_le (Nat.le_refl _)]; simp
    have hreg' : alive = false ∨ ∀ w ∈ suf, w.hw.reg.isSome := by
      rcases hreg with h | h
      · exact Or.inl h
      · exact Or.inr (fun x hx => h x (List.mem_cons_of_mem _ hx))
    simp only [List.length_cons, cldgLoop, hj]
    by_cases hsc : w.scoped = true
    · simp only [hsc, if_true]
      cases alive with
      | true =>
        have hr : w.hw.reg.isSome := by
          rcases hreg with h | h
          · simp at h
          · exact h w (List.mem_cons_self ..)
        obtain ⟨st, s2, hd⟩ := wpDisable_isSome (s := { s with wps := s.wps.eraseIdx pre.length }) hr
        simp only [if_true, hd]
        exact ih pre _ (by simp only [wpDisable_wps hd, he]) hreg'
      | false =>
        simp only [Bool.false_eq_true, if_false]
        exact ih pre _ (by simp only [he]) hreg'
    · simp only [hsc, Bool.false_eq_true, if_false]
      cases alive with
      | true =>
        have hr : w.hw.reg.isSome := by
          rcases hreg with h | h
          · simp at h
          · exact h w (List.mem_cons_self ..)
        obtain ⟨st, s2, hd⟩ := wpDisable_isSome (s := s) hr
        simp only [if_true, hd]
        have := ih (pre ++ [hibernated true w]) { s2 with wps := s2.wps.set pre.length (hibernated true w) } (by
          simp only [wpDisable_wps hd, hw]
          rw [List.set_append_right _ _ (Nat.le_refl _)]
          simp) hreg'
        simpa [hibernated] using this
      | false =>
        simp only [Bool.false_eq_true, if_false]
        have := ih (pre ++ [w]) s (by simp [hw]) hreg'
        simpa using this

theorem cldg_spec (alive : Bool) (s s' : Sys) (h : clearLocalDisableGlobal alive s = some s') :
    s'.wps = (s.wps.filter (fun w => !w.scoped)).map (hibernated alive) ∧ s'.last = none := by
  unfold clearLocalDisableGlobal at h
  simp only [Option.map_eq_some_iff] at h
  obtain ⟨s1, h1, rfl⟩ := h
  have := cldgLoop_wps alive s.wps [] s s1 (by simp) (by simpa using h1)
  exact ⟨by simpa using this, rfl⟩

theorem cldg_total (alive : Bool) (s : Sys) (hreg : alive = false ∨ ∀ w ∈ s.wps, w.hw.reg.isSome) :
    ∃ s', clearLocalDisableGlobal alive s = some s' := by
  obtain ⟨s1, h1⟩ := cldgLoop_total alive s.wps [] s (by simp) hreg
  refine ⟨{ s1 with last := none }, ?_⟩
  unfold clearLocalDisableGlobal
  simp only [List.length_nil] at h1
  rw [h1]; rfl

theorem restart_inv {s : Sys} (hinv : Inv s) (alive : Bool) :
    ∃ s', restart alive s = some s' ∧ Inv s' ∧
    s'.wps.map (fun w => (w.num, w.hw.addr, w.hw.size, w.hw.cond, w.expr, w.companion)) =
      (s.wps.filter (fun w => !w.scoped)).map (fun w => (w.num, w.hw.addr, w.hw.size, w.hw.cond, w.expr, w.companion)) := by
  have hreg : alive = false ∨ ∀ w ∈ s.wps, w.hw.reg.isSome := by
    refine Or.inr (fun w hw => ?_)
    obtain ⟨r, _, hr⟩ := hinv.reg.slots w hw
    simp [hr]
  obtain ⟨s1, h1⟩ := cldg_total alive s hreg
  obtain ⟨hw1, hl1⟩ := cldg_spec alive s s1 h1
  have hns : (newProcess s1).wps.any (fun w => w.scoped) = false := by
    simp only [newProcess, hw1, List.any_eq_false, List.mem_map, List.mem_filter]
    rintro w ⟨x, ⟨_, hx⟩, rfl⟩
    rw [hibernated_scoped]; simpa using hx
  have h0 : Inv { newProcess s1 with wps := [] } :=
    ⟨⟨by simp, by intro i _; simp [cnt_nil]⟩, encodes_zero, by simp [newProcess], by simp [newProcess, hl1], by simp⟩
  have hl : (newProcess s1).wps.length ≤ 4 := by
    simp only [newProcess, hw1, List.length_map]
    exact Nat.le_trans (List.length_filter_le _ _) hinv.reg.length_le
  have := refreshGo_inv (newProcess s1).wps h0 (by simpa using hl)
  refine ⟨refreshGo { newProcess s1 with wps := [] } (newProcess s1).wps, ?_, this.1, ?_⟩
  · simp only [restart, h1, refresh, hns, Bool.false_eq_true, if_false]
  · rw [this.2]
    simp only [List.nil_append, newProcess, hw1, List.map_map]
    apply List.map_congr_left
    intro w _
    cases alive <;> rfl

/-- what the kernel gives a new thread encodes the empty list whenever its parent's registers do -/
theorem encodes_kernelNew {m : Img} (h : Encodes m []) : Encodes (kernelNewThread m) [] where
  enabled := h.enabled
  fields := by intro i _ w hw; simp at hw
  global := h.global
  ge := h.ge
  le := h.le

/-- a thread registered by either handler receives `last_seen_state`, which encodes the list -/
theorem register_inv {s : Sys} (hinv : Inv s) (t : Nat) : Inv (register s t) := by
  refine ⟨hinv.reg, hinv.main, ?_, hinv.last, hinv.lastNone⟩
  intro x hx
  simp only [register] at hx
  rcases List.mem_append.1 hx with hx | hx
  · exact hinv.others x hx
  · simp only [List.mem_singleton] at hx; subst hx
    show Encodes (s.last.getD (kernelNewThread s.main)) s.wps
    cases hl : s.last with
    | some l => exact hinv.last l hl
    | none =>
      have hm := hinv.main
      rw [hinv.lastNone hl] at hm ⊢
      exact encodes_kernelNew hm

theorem step_inv {s : Sys} (hinv : Inv s) (op : Op) : Inv (step s op).2 := by
  cases op with
  | addMem a sz c => exact addMem_inv hinv a sz c
  | addExpr e a b c se => exact addExpr_inv hinv e a b c se
  | rmNum n => exact rmRes_inv hinv _
  | rmAddr a => exact rmRes_inv hinv _
  | rmExpr e => exact rmRes_inv hinv _
  | clone =>
    simp only [step]
    refine ⟨hinv.reg, hinv.main, ?_, hinv.last, hinv.lastNone⟩
    intro t ht
    rcases List.mem_append.1 ht with ht | ht
    · exact hinv.others t ht
    · simp only [List.mem_singleton] at ht; subst ht
      cases hl : s.last with
      | some l => exact hinv.last l hl
      | none =>
        have hm := hinv.main
        rw [hinv.lastNone hl] at hm ⊢
        exact encodes_kernelNew hm
  | threadExit i =>
    simp only [step]
    exact ⟨hinv.reg, hinv.main, fun t ht => hinv.others t (List.mem_of_mem_eraseIdx ht), hinv.last, hinv.lastNone⟩
  | hit t bits =>
    simp only [step]
    split
    · exact ⟨hinv.reg, hinv.main.congr (fun _ => rfl) rfl, hinv.others, hinv.last, hinv.lastNone⟩
    · split
      · exact hinv
      · rename_i m hm
        refine ⟨hinv.reg, hinv.main, ?_, hinv.last, hinv.lastNone⟩
        intro t' ht'
        rcases List.mem_or_eq_of_mem_set ht' with h | h
        · exact hinv.others t' h
        · subst h
          have : m ∈ s.others := List.mem_of_getElem? hm
          exact (hinv.others m this).congr (fun _ => rfl) rfl
  | scopeEnd a =>
    simp only [step]
    split
    · exact hinv
    · split
      · split
        · rename_i s' hs; exact removeNums_inv hinv _ hs
        · exact hinv
      · exact hinv
  | spawn t =>
    simp only [step]
    split
    · exact hinv
    · exact ⟨hinv.reg, hinv.main, hinv.others, hinv.last, hinv.lastNone⟩
  | evClone t =>
    simp only [step]
    split
    · exact register_inv hinv t
    · exact hinv
  | evStop t =>
    simp only [step]
    split
    · exact register_inv hinv t
    · exact hinv
  | restart alive =>
    obtain ⟨s', h, hi, _⟩ := restart_inv hinv alive
    simp only [step, h]; exact hi

theorem run_inv (ops : List Op) : ∀ {s : Sys}, Inv s → Inv (run s ops) := by
  induction ops with
  | nil => intro s h; exact h
  | cons op ops ih => intro s h; exact ih (step_inv h op)

theorem observed_of_owner {m : Img} {wps : List Wp} (he : Encodes m wps) {w : Wp} (hw : w ∈ wps) {k : Nat} (hk : k < 4)
    (hr : w.hw.reg = some k) : observed m w.hw.addr = true := by
  have hL := (he.enabled k hk).2 ⟨w, hw, hr⟩
  have ha := (he.fields k hk w hw hr).1
  have hen : drEnabled m.dr7 k false = true := by rw [drEnabled_local hk, hL]; rfl
  unfold observed
  rcases slot_cases hk with h | h | h | h <;> subst h <;> simp [List.any, hen, ha]

/-- `position` + `remove` of the first element satisfying `p` -/
def dropFirst (p : Wp → Bool) (l : List Wp) : List Wp :=
  match extract p l with
  | none => l
  | some (_, r) => r

theorem removeWhere_wps {s : Sys} {p : Wp → Bool} {n : Option Nat} {s' : Sys} (h : removeWhere s p = some (n, s')) :
    s'.wps = dropFirst p s.wps := by
  unfold removeWhere at h
  unfold dropFirst
  split at h
  · rename_i hx; simp at h; rw [hx, ← h.2]
  · rename_i w rest hx
    rw [hx]
    cases hreg : w.hw.reg with
    | none => simp [wpDisable, hreg] at h
    | some r => simp [wpDisable, hreg] at h; rw [← h.2]; simp [Sys.syncAll]

theorem removeNums_wps (l : List Nat) : ∀ {s s' : Sys}, removeNums s l = some s' →
    s'.wps = l.foldl (fun ws n => dropFirst (fun w => w.num == n) ws) s.wps := by
  induction l with
  | nil => intro s s' h; simp [removeNums] at h; subst h; rfl
  | cons n ns ih =>
    intro s s' h
    unfold removeNums at h
    split at h
    · simp at h
    · rename_i r s1 hr
      rw [ih h, removeWhere_wps hr]; rfl


end BsVerif.Dr
