import BsVerif.Model.Symbols
/-! Helper lemmas for the symbol-listing part of C17: the replace-or-append map keeps one entry per name,
and that entry is the last one of the symbol table. -/
namespace BsVerif.Symbols

theorem mem_tabInsert_names (s : Sym) (t : List Sym) (n : String) :
    n ∈ (tabInsert s t).map (·.name) ↔ n = s.name ∨ n ∈ t.map (·.name) := by
  induction t with
  | nil => simp [tabInsert]
  | cons x rest ih =>
    unfold tabInsert
    split
    · rename_i h
      simp only [List.map_cons, List.mem_cons, h]
      constructor
      · rintro (h | h)
        · exact Or.inl h
        · exact Or.inr (Or.inr h)
      · rintro (h | h | h)
        · exact Or.inl h
        · exact Or.inl h
        · exact Or.inr h
    · simp only [List.map_cons, List.mem_cons, ih]
      constructor
      · rintro (h | h | h)
        · exact Or.inr (Or.inl h)
        · exact Or.inl h
        · exact Or.inr (Or.inr h)
      · rintro (h | h | h)
        · exact Or.inr (Or.inl h)
        · exact Or.inl h
        · exact Or.inr (Or.inr h)

theorem nodup_tabInsert (s : Sym) (t : List Sym) (h : (t.map (·.name)).Nodup) :
    ((tabInsert s t).map (·.name)).Nodup := by
  induction t with
  | nil => simp [tabInsert]
  | cons x rest ih =>
    have hx : x.name ∉ rest.map (·.name) := (List.nodup_cons.mp h).1
    have hr : (rest.map (·.name)).Nodup := (List.nodup_cons.mp h).2
    unfold tabInsert
    split
    · rename_i e
      simp only [List.map_cons, List.nodup_cons]
      exact ⟨e ▸ hx, hr⟩
    · rename_i e
      simp only [List.map_cons, List.nodup_cons]
      refine ⟨?_, ih hr⟩
      intro hm
      rcases (mem_tabInsert_names s rest x.name).mp hm with h' | h'
      · exact e h'
      · exact hx h'

theorem mem_tabInsert (s : Sym) (t : List Sym) (h : (t.map (·.name)).Nodup) (x : Sym) :
    x ∈ tabInsert s t ↔ x = s ∨ (x ∈ t ∧ x.name ≠ s.name) := by
  induction t with
  | nil => simp [tabInsert]
  | cons y rest ih =>
    have hy : y.name ∉ rest.map (·.name) := (List.nodup_cons.mp h).1
    have hr : (rest.map (·.name)).Nodup := (List.nodup_cons.mp h).2
    unfold tabInsert
    split
    · rename_i e
      simp only [List.mem_cons]
      constructor
      · rintro (h1 | h1)
        · exact Or.inl h1
        · refine Or.inr ⟨Or.inr h1, ?_⟩
          intro hn
          exact hy (by rw [e, ← hn]; exact List.mem_map.mpr ⟨x, h1, rfl⟩)
      · rintro (h1 | ⟨h1 | h1, h2⟩)
        · exact Or.inl h1
        · exact absurd (h1 ▸ e) h2
        · exact Or.inr h1
    · rename_i e
      simp only [List.mem_cons, ih hr]
      constructor
      · rintro (h1 | h1 | ⟨h1, h2⟩)
        · exact Or.inr ⟨Or.inl h1, h1 ▸ e⟩
        · exact Or.inl h1
        · exact Or.inr ⟨Or.inr h1, h2⟩
      · rintro (h1 | ⟨h1 | h1, h2⟩)
        · exact Or.inr (Or.inl h1)
        · exact Or.inl h1
        · exact Or.inr (Or.inr ⟨h1, h2⟩)

theorem lastNamed_cons (n : String) (e : Sym) (es : List Sym) :
    lastNamed n (e :: es) = (lastNamed n es).or (if e.name = n then some e else none) := by
  unfold lastNamed
  rw [List.reverse_cons, List.find?_append]
  congr 1
  by_cases h : e.name = n <;> simp [h]

theorem nodup_foldl (es t : List Sym) (h : (t.map (·.name)).Nodup) :
    ((es.foldl (fun t s => tabInsert s t) t).map (·.name)).Nodup := by
  induction es generalizing t with
  | nil => simpa using h
  | cons e es ih => exact ih _ (nodup_tabInsert e t h)

theorem mem_foldl (es t : List Sym) (h : (t.map (·.name)).Nodup) (x : Sym) :
    x ∈ es.foldl (fun t s => tabInsert s t) t ↔
      lastNamed x.name es = some x ∨ (lastNamed x.name es = none ∧ x ∈ t) := by
  induction es generalizing t with
  | nil => simp [lastNamed]
  | cons e es ih =>
    rw [List.foldl_cons, ih _ (nodup_tabInsert e t h), mem_tabInsert e t h, lastNamed_cons]
    cases hl : lastNamed x.name es with
    | some y => simp
    | none =>
      by_cases hn : e.name = x.name
      · simp only [hn, if_true, Option.or_some, Option.some.injEq, reduceCtorEq, false_and,
          or_false, true_and, false_or]
        constructor
        · rintro (h1 | ⟨_, h2⟩)
          · exact h1.symm
          · exact absurd rfl h2
        · intro h1; exact Or.inl h1.symm
      · simp only [hn, if_false, Option.or_none, reduceCtorEq, true_and, false_or]
        constructor
        · rintro (h1 | ⟨h1, _⟩)
          · exact absurd (h1 ▸ rfl) hn
          · exact h1
        · intro h1; exact Or.inr ⟨h1, fun h2 => hn h2.symm⟩

/-- the map holds, for every name of the table, exactly the LAST entry of that name -/
theorem mem_tabNew (es : List Sym) (x : Sym) : x ∈ tabNew es ↔ lastNamed x.name es = some x := by
  unfold tabNew
  rw [mem_foldl es [] (by simp) x]
  simp

theorem nodup_tabNew (es : List Sym) : ((tabNew es).map (·.name)).Nodup :=
  nodup_foldl es [] (by simp)

theorem lastNamed_some_iff (n : String) (es : List Sym) :
    (∃ s, lastNamed n es = some s) ↔ n ∈ es.map (·.name) := by
  unfold lastNamed
  constructor
  · rintro ⟨s, hs⟩
    have h1 := List.mem_of_find?_eq_some hs
    have h2 := List.find?_some hs
    exact List.mem_map.mpr ⟨s, by simpa using h1, by simpa using h2⟩
  · intro h
    obtain ⟨s, hs, rfl⟩ := List.mem_map.mp h
    cases hf : es.reverse.find? (fun t => t.name = s.name) with
    | some y => exact ⟨y, rfl⟩
    | none =>
      have := List.find?_eq_none.mp hf s (by simpa using hs)
      simp at this

theorem lastNamed_name {n : String} {es : List Sym} {s : Sym} (h : lastNamed n es = some s) : s.name = n := by
  unfold lastNamed at h
  simpa using List.find?_some h

theorem lastNamed_mem {n : String} {es : List Sym} {s : Sym} (h : lastNamed n es = some s) : s ∈ es := by
  unfold lastNamed at h
  simpa using List.mem_of_find?_eq_some h

theorem names_tabNew (es : List Sym) (n : String) :
    n ∈ (tabNew es).map (·.name) ↔ n ∈ es.map (·.name) := by
  constructor
  · intro h
    obtain ⟨s, hs, rfl⟩ := List.mem_map.mp h
    exact (lastNamed_some_iff s.name es).mp ⟨s, (mem_tabNew es s).mp hs⟩
  · intro h
    obtain ⟨s, hs⟩ := (lastNamed_some_iff n es).mpr h
    have hn := lastNamed_name hs
    exact List.mem_map.mpr ⟨s, (mem_tabNew es s).mpr (hn ▸ hs), hn⟩

theorem isInfixChars_iff (l s : List Char) : isInfixChars l s = true ↔ l <:+: s := by
  induction s with
  | nil => simp [isInfixChars]
  | cons c cs ih =>
    unfold isInfixChars
    rw [Bool.or_eq_true, ih, List.isPrefixOf_iff_prefix, List.infix_cons_iff]

end BsVerif.Symbols
