import BsVerif.Lemmas.Lines
/-!
Soundness of the place selection of `find_closest_place`: every selected place is an is_stmt row of the
needle line that belongs to the file.  Core Lean only.
-/
namespace BsVerif.Lines

/-- a (row index, row) pair selected for `needle` out of the rows listed by `fl` -/
def GoodPlace (rows : Array Row) (fl : Array Nat) (needle : Nat) (q : Nat × Row) : Prop :=
  rows[q.1]? = some q.2 ∧ (∃ t : Nat, fl[t]? = some q.1) ∧ q.2.stmt = true ∧ q.2.line = needle

theorem peAhead_spec (rows : Array Row) (fl : Array Nat) (line : Nat) : ∀ fuel ahead cur,
    peAhead rows fl line fuel ahead cur = cur ∨
    ∃ lr : Row, fl[(peAhead rows fl line fuel ahead cur).2]? = some (peAhead rows fl line fuel ahead cur).1 ∧
      rows[(peAhead rows fl line fuel ahead cur).1]? = some lr ∧ lr.line = line ∧ lr.stmt = true := by
  intro fuel
  induction fuel with
  | zero => intro ahead cur; exact Or.inl rfl
  | succ fuel ih =>
    intro ahead cur
    unfold peAhead
    cases h1 : fl[ahead]? with
    | none => exact Or.inl rfl
    | some ai =>
      simp only []
      cases h2 : rows[ai]? with
      | none => exact Or.inl rfl
      | some lr =>
        simp only []
        by_cases hc : (lr.line != line || !lr.stmt) = true
        · rw [if_pos hc]; exact Or.inl rfl
        · rw [if_neg hc]
          by_cases hp : lr.pe = true
          · rw [if_pos hp]
            refine Or.inr ⟨lr, h1, h2, ?_, ?_⟩
            · cases hl : (lr.line != line) with
              | true => simp [hl] at hc
              | false => simpa using hl
            · cases hs : lr.stmt with
              | true => rfl
              | false => simp [hs] at hc
          · rw [if_neg hp]; exact ih (ahead + 1) cur

theorem peAheadFrom_spec (rows : Array Row) (fl : Array Nat) (r : Row) (fuel ahead : Nat) (cur : Nat × Nat) :
    peAheadFrom rows fl r fuel ahead cur = cur ∨
    ∃ lr : Row, fl[(peAheadFrom rows fl r fuel ahead cur).2]? = some (peAheadFrom rows fl r fuel ahead cur).1 ∧
      rows[(peAheadFrom rows fl r fuel ahead cur).1]? = some lr ∧ lr.line = r.line ∧ lr.stmt = true := by
  unfold peAheadFrom
  by_cases hp : r.pe = true
  · rw [if_pos hp]; exact Or.inl rfl
  · rw [if_neg hp]; exact peAhead_spec rows fl r.line fuel ahead cur

theorem suitableLoop_sound (rows : Array Row) (fl : Array Nat) (needle : Nat) : ∀ fuel i acc,
    (∀ q ∈ acc, GoodPlace rows fl needle q) →
    ∀ q ∈ suitableLoop rows fl needle fuel i acc, GoodPlace rows fl needle q := by
  intro fuel
  induction fuel with
  | zero => intro i acc h; simpa [suitableLoop] using h
  | succ fuel ih =>
    intro i acc hacc
    unfold suitableLoop
    cases h1 : fl[i]? with
    | none => exact hacc
    | some lineIdx =>
      simp only []
      cases h2 : rows[lineIdx]? with
      | none => exact hacc
      | some r =>
        simp only []
        cases acc with
        | nil =>
          simp only []
          by_cases hc : (r.line != needle || !r.stmt) = true
          · rw [if_pos hc]; exact ih _ _ hacc
          · rw [if_neg hc]
            have hline : r.line = needle := by
              cases hl : (r.line != needle) with
              | true => simp [hl] at hc
              | false => simpa using hl
            have hstmt : r.stmt = true := by
              cases hs : r.stmt with
              | true => rfl
              | false => simp [hs] at hc
            cases hpa : peAheadFrom rows fl r (fl.size - i) (i + 1) (lineIdx, i) with
            | mk li i' =>
              simp only []
              cases h3 : rows[li]? with
              | none => exact ih _ _ hacc
              | some r' =>
                simp only []
                apply ih
                intro q hq
                simp only [List.mem_singleton] at hq
                subst hq
                rcases peAheadFrom_spec rows fl r (fl.size - i) (i + 1) (lineIdx, i) with he | ⟨lr, e1, e2, e3, e4⟩
                · rw [hpa] at he
                  injection he with he1 he2
                  subst he1
                  rw [h2] at h3; injection h3 with h3; subst h3
                  exact ⟨h2, ⟨i, h1⟩, hstmt, hline⟩
                · rw [hpa] at e1 e2
                  simp only [] at e1 e2
                  rw [h3] at e2; injection e2 with e2; subst e2
                  exact ⟨h3, ⟨i', e1⟩, e4, by rw [e3, hline]⟩
        | cons first rest =>
          simp only []
          by_cases hc : (r.line != first.2.line || r.col != first.2.col || r.pe != first.2.pe || r.eb != first.2.eb
              || r.es != first.2.es || !r.stmt) = true
          · rw [if_pos hc]; exact ih _ _ hacc
          · rw [if_neg hc]
            apply ih
            intro q hq
            rcases List.mem_append.mp hq with hq | hq
            · exact hacc q hq
            · simp only [List.mem_singleton] at hq
              subst hq
              have hf := hacc first (List.mem_cons_self ..)
              simp only [Bool.or_eq_true, not_or, Bool.not_eq_true] at hc
              have hl : r.line = first.2.line := by
                have := hc.1.1.1.1.1; simpa using this
              have hs : r.stmt = true := by
                have := hc.2; simpa using this
              exact ⟨h2, ⟨i, h1⟩, hs, by rw [hl]; exact hf.2.2.2⟩

theorem suitablePlaces_sound (rows : Array Row) (fl : Array Nat) (needle : Nat) :
    ∀ q ∈ suitablePlaces rows fl needle, GoodPlace rows fl needle q :=
  suitableLoop_sound rows fl needle fl.size 0 [] (by intro q hq; cases hq)

theorem dedup_sound (units : Array CUnit) (u : Nat) : ∀ places seen res,
    ∀ p ∈ (dedup units u places seen res).2, p ∈ res ∨ (p.1 = u ∧ (p.2.1, p.2.2) ∈ places) := by
  intro places
  induction places with
  | nil => intro seen res p hp; exact Or.inl (by simpa [dedup] using hp)
  | cons q rest ih =>
    intro seen res p hp
    obtain ⟨i, r⟩ := q
    unfold dedup at hp
    cases hk : keyAt units r.addr with
    | none =>
      rw [hk] at hp; simp only [] at hp
      rcases ih _ _ p hp with h | h
      · rcases List.mem_append.mp h with h | h
        · exact Or.inl h
        · simp only [List.mem_singleton] at h; subst h; exact Or.inr ⟨rfl, List.mem_cons_self ..⟩
      · exact Or.inr ⟨h.1, List.mem_cons_of_mem _ h.2⟩
    | some k =>
      rw [hk] at hp; simp only [] at hp
      by_cases hc : seen.contains k = true
      · rw [if_pos hc] at hp
        rcases ih _ _ p hp with h | h
        · exact Or.inl h
        · exact Or.inr ⟨h.1, List.mem_cons_of_mem _ h.2⟩
      · rw [if_neg hc] at hp
        rcases ih _ _ p hp with h | h
        · rcases List.mem_append.mp h with h | h
          · exact Or.inl h
          · simp only [List.mem_singleton] at h; subst h; exact Or.inr ⟨rfl, List.mem_cons_self ..⟩
        · exact Or.inr ⟨h.1, List.mem_cons_of_mem _ h.2⟩

theorem closestPass_sound (units : Array CUnit) (needle : Nat) : ∀ files seen res,
    ∀ p ∈ (closestPass units needle files seen res).2, p ∈ res ∨
      ∃ fl un, (p.1, fl) ∈ files ∧ units[p.1]? = some un ∧ GoodPlace un.rows fl needle (p.2.1, p.2.2) := by
  intro files
  induction files with
  | nil => intro seen res p hp; exact Or.inl (by simpa [closestPass] using hp)
  | cons f rest ih =>
    intro seen res p hp
    obtain ⟨u, fl⟩ := f
    unfold closestPass at hp
    cases hu : units[u]? with
    | none =>
      rw [hu] at hp; simp only [] at hp
      rcases ih _ _ p hp with h | ⟨fl', un, h1, h2, h3⟩
      · exact Or.inl h
      · exact Or.inr ⟨fl', un, List.mem_cons_of_mem _ h1, h2, h3⟩
    | some un =>
      rw [hu] at hp; simp only [] at hp
      rcases ih _ _ p hp with h | ⟨fl', un', h1, h2, h3⟩
      · rcases dedup_sound units u _ _ _ p h with h | ⟨h1, h2⟩
        · exact Or.inl h
        · refine Or.inr ⟨fl, un, ?_, ?_, suitablePlaces_sound un.rows fl needle _ h2⟩
          · rw [h1]; exact List.mem_cons_self ..
          · rw [h1]; exact hu
      · exact Or.inr ⟨fl', un', List.mem_cons_of_mem _ h1, h2, h3⟩

theorem fileLinesGo_mem (rows : Array Row) (fidx : Nat) : ∀ n acc,
    ∀ i ∈ fileLinesGo rows fidx n acc, i ∈ acc ∨ ∃ r : Row, rows[i]? = some r ∧ r.file = fidx := by
  intro n
  induction n with
  | zero => intro acc i hi; exact Or.inl (by simpa [fileLinesGo] using hi)
  | succ n ih =>
    intro acc i hi
    unfold fileLinesGo at hi
    cases hr : rows[n]? with
    | none => rw [hr] at hi; exact ih _ i hi
    | some r =>
      rw [hr] at hi; simp only [] at hi
      rcases ih _ i hi with h | h
      · by_cases hc : (r.file == fidx) = true
        · rw [if_pos hc] at h
          rcases List.mem_cons.mp h with h | h
          · subst h; exact Or.inr ⟨r, hr, by simpa using hc⟩
          · exact Or.inl h
        · rw [if_neg hc] at h; exact Or.inl h
      · exact Or.inr h

theorem fileLines_mem (rows : Array Row) (fidx : Nat) (t i : Nat) (h : (fileLines rows fidx)[t]? = some i) :
    ∃ r : Row, rows[i]? = some r ∧ r.file = fidx := by
  have hm : i ∈ fileLinesGo rows fidx rows.size [] := by
    unfold fileLines at h
    have := Array.mem_of_getElem? h
    simpa using this
  rcases fileLinesGo_mem rows fidx _ _ i hm with h | h
  · cases h
  · exact h

theorem filesOf_mem (units : Array CUnit) (path u : Nat) (fl : Array Nat) (h : (u, fl) ∈ filesOf units path) :
    ∃ (un : CUnit) (f : Nat), units[u]? = some un ∧ un.files[f]? = some path ∧ fl = fileLines un.rows f := by
  unfold filesOf at h
  rw [List.mem_flatMap] at h
  obtain ⟨u', _, h⟩ := h
  cases hu : units[u']? with
  | none => rw [hu] at h; cases h
  | some un =>
    rw [hu] at h; simp only [] at h
    rw [List.mem_filterMap] at h
    obtain ⟨f, _, hf⟩ := h
    by_cases hc : (un.files[f]? == some path) = true
    · rw [if_pos hc] at hf
      by_cases he : (fileLines un.rows f).isEmpty = true
      · simp [he] at hf
      · simp only [he] at hf
        simp only [Bool.false_eq_true, if_false, Option.some.injEq, Prod.mk.injEq] at hf
        obtain ⟨h1, h2⟩ := hf
        subst h1
        exact ⟨un, f, hu, by simpa using hc, h2.symm⟩
    · rw [if_neg hc] at hf; cases hf

/-! ## the other direction: a line that HAS an is_stmt row (in any unit) always yields a place

These lemmas make the `line + 1` fallback a GLOBAL decision in the theorems: the second pass runs only when the
first pass selected nothing, and the first pass selects nothing only when NO (unit, file) pair of the path has an
is_stmt row of the line. -/

theorem suitableLoop_ne_of_acc (rows : Array Row) (fl : Array Nat) (needle : Nat) : ∀ fuel i acc,
    acc ≠ [] → suitableLoop rows fl needle fuel i acc ≠ [] := by
  intro fuel
  induction fuel with
  | zero => intro i acc h; simpa [suitableLoop] using h
  | succ fuel ih =>
    intro i acc hacc
    unfold suitableLoop
    cases h1 : fl[i]? with
    | none => exact hacc
    | some lineIdx =>
      simp only []
      cases h2 : rows[lineIdx]? with
      | none => exact hacc
      | some r =>
        simp only []
        cases acc with
        | nil => exact absurd rfl hacc
        | cons first rest =>
          simp only []
          by_cases hc : (r.line != first.2.line || r.col != first.2.col || r.pe != first.2.pe || r.eb != first.2.eb
              || r.es != first.2.es || !r.stmt) = true
          · rw [if_pos hc]; exact ih _ _ hacc
          · rw [if_neg hc]; exact ih _ _ (by simp)

/-- every index listed by `fl` is a stored row -/
def ValidIdx (rows : Array Row) (fl : Array Nat) : Prop :=
  ∀ (t idx : Nat), fl[t]? = some idx → ∃ r : Row, rows[idx]? = some r

theorem suitableLoop_complete (rows : Array Row) (fl : Array Nat) (needle : Nat) (hv : ValidIdx rows fl) :
    ∀ fuel i, fl.size ≤ i + fuel →
      (∃ (t idx : Nat) (r : Row), i ≤ t ∧ fl[t]? = some idx ∧ rows[idx]? = some r ∧ r.stmt = true ∧ r.line = needle) →
      suitableLoop rows fl needle fuel i [] ≠ [] := by
  intro fuel
  induction fuel with
  | zero =>
    intro i hsz ⟨t, idx, r, hit, ht, _, _, _⟩
    have := lt_of_getElem? ht
    omega
  | succ fuel ih =>
    intro i hsz ⟨t, idx, r, hit, ht, hr, hst, hl⟩
    unfold suitableLoop
    cases h1 : fl[i]? with
    | none =>
      exfalso
      have h1' : fl.size ≤ i := by
        rcases Nat.lt_or_ge i fl.size with h | h
        · obtain ⟨x, hx⟩ := getElem?_of_lt fl h; rw [hx] at h1; cases h1
        · exact h
      have := lt_of_getElem? ht
      omega
    | some lineIdx =>
      simp only []
      cases h2 : rows[lineIdx]? with
      | none => obtain ⟨x, hx⟩ := hv i lineIdx h1; rw [hx] at h2; cases h2
      | some r0 =>
        simp only []
        by_cases hc : (r0.line != needle || !r0.stmt) = true
        · rw [if_pos hc]
          have hne : t ≠ i := by
            intro he; subst he
            rw [h1] at ht; injection ht with ht; subst ht
            rw [h2] at hr; injection hr with hr; subst hr
            simp [hst, hl] at hc
          exact ih (i + 1) (by omega) ⟨t, idx, r, by omega, ht, hr, hst, hl⟩
        · rw [if_neg hc]
          cases hpa : peAheadFrom rows fl r0 (fl.size - i) (i + 1) (lineIdx, i) with
          | mk li i' =>
            simp only []
            cases h3 : rows[li]? with
            | some r' => exact suitableLoop_ne_of_acc rows fl needle fuel (i' + 1) [(li, r')] (by simp)
            | none =>
              exfalso
              rcases peAheadFrom_spec rows fl r0 (fl.size - i) (i + 1) (lineIdx, i) with he | ⟨lr, _, e2, _, _⟩
              · rw [hpa] at he
                injection he with he1 _
                subst he1
                rw [h2] at h3; cases h3
              · rw [hpa] at e2
                simp only [] at e2
                rw [h3] at e2; cases e2

theorem suitablePlaces_complete (rows : Array Row) (fl : Array Nat) (needle : Nat) (hv : ValidIdx rows fl)
    (t idx : Nat) (r : Row) (ht : fl[t]? = some idx) (hr : rows[idx]? = some r) (hst : r.stmt = true)
    (hl : r.line = needle) : suitablePlaces rows fl needle ≠ [] :=
  suitableLoop_complete rows fl needle hv fl.size 0 (by omega) ⟨t, idx, r, by omega, ht, hr, hst, hl⟩

theorem dedup_res_ne (units : Array CUnit) (u : Nat) : ∀ places seen res,
    res ≠ [] → (dedup units u places seen res).2 ≠ [] := by
  intro places
  induction places with
  | nil => intro seen res h; simpa [dedup] using h
  | cons q rest ih =>
    intro seen res h
    obtain ⟨i, r⟩ := q
    unfold dedup
    cases hk : keyAt units r.addr with
    | none => simp only []; exact ih _ _ (by simp)
    | some k =>
      simp only []
      by_cases hc : seen.contains k = true
      · rw [if_pos hc]; exact ih _ _ h
      · rw [if_neg hc]; exact ih _ _ (by simp)

/-- with nothing seen and nothing selected so far, a non-empty candidate list always selects something -/
theorem dedup_nil_ne (units : Array CUnit) (u : Nat) (places : List (Nat × Row)) (h : places ≠ []) :
    (dedup units u places [] []).2 ≠ [] := by
  cases places with
  | nil => exact absurd rfl h
  | cons q rest =>
    obtain ⟨i, r⟩ := q
    unfold dedup
    cases hk : keyAt units r.addr with
    | none => simp only []; exact dedup_res_ne units u rest _ _ (by simp)
    | some k =>
      simp only []
      have : ([] : List Key).contains k = false := by simp
      rw [this]
      simp only [Bool.false_eq_true, if_false]
      exact dedup_res_ne units u rest _ _ (by simp)

theorem closestPass_res_ne (units : Array CUnit) (needle : Nat) : ∀ files seen res,
    res ≠ [] → (closestPass units needle files seen res).2 ≠ [] := by
  intro files
  induction files with
  | nil => intro seen res h; simpa [closestPass] using h
  | cons f rest ih =>
    intro seen res h
    obtain ⟨u, fl⟩ := f
    unfold closestPass
    cases hu : units[u]? with
    | none => simp only []; exact ih _ _ h
    | some un =>
      simp only []
      exact ih _ _ (dedup_res_ne units u _ seen res h)

/-- a pass that starts with nothing and selects nothing had no candidate in ANY (unit, file) pair -/
theorem closestPass_nil (units : Array CUnit) (needle : Nat) : ∀ files,
    (closestPass units needle files [] []).2 = [] →
    ∀ (u : Nat) (fl : Array Nat) (un : CUnit), (u, fl) ∈ files → units[u]? = some un →
      suitablePlaces un.rows fl needle = [] := by
  intro files
  induction files with
  | nil => intro _ u fl un hm; cases hm
  | cons f rest ih =>
    intro h u fl un hm hun
    obtain ⟨u0, fl0⟩ := f
    unfold closestPass at h
    cases hu : units[u0]? with
    | none =>
      rw [hu] at h; simp only [] at h
      rcases List.mem_cons.mp hm with he | hm'
      · injection he with e1 e2; subst e1; rw [hu] at hun; cases hun
      · exact ih h u fl un hm' hun
    | some un0 =>
      rw [hu] at h; simp only [] at h
      have hsp : suitablePlaces un0.rows fl0 needle = [] := by
        cases hsp : suitablePlaces un0.rows fl0 needle with
        | nil => rfl
        | cons a b =>
          exfalso
          have hne := dedup_nil_ne units u0 (suitablePlaces un0.rows fl0 needle) (by rw [hsp]; simp)
          exact closestPass_res_ne units needle rest _ _ hne h
      rw [hsp] at h
      simp only [dedup] at h
      rcases List.mem_cons.mp hm with he | hm'
      · injection he with e1 e2; subst e1; subst e2
        rw [hu] at hun; injection hun with hun; subst hun
        exact hsp
      · exact ih h u fl un hm' hun

theorem fileLinesGo_acc (rows : Array Row) (fidx : Nat) : ∀ n acc i, i ∈ acc → i ∈ fileLinesGo rows fidx n acc := by
  intro n
  induction n with
  | zero => intro acc i h; simpa [fileLinesGo] using h
  | succ n ih =>
    intro acc i h
    unfold fileLinesGo
    cases hr : rows[n]? with
    | none => exact ih _ i h
    | some r =>
      simp only []
      apply ih
      by_cases hc : (r.file == fidx) = true
      · rw [if_pos hc]; exact List.mem_cons_of_mem _ h
      · rw [if_neg hc]; exact h

theorem fileLinesGo_complete (rows : Array Row) (fidx : Nat) : ∀ n acc (i : Nat) (r : Row),
    i < n → rows[i]? = some r → r.file = fidx → i ∈ fileLinesGo rows fidx n acc := by
  intro n
  induction n with
  | zero => intro acc i r h; omega
  | succ n ih =>
    intro acc i r hi hr hf
    unfold fileLinesGo
    by_cases he : i = n
    · subst he
      rw [hr]; simp only []
      apply fileLinesGo_acc
      have : (r.file == fidx) = true := by simp [hf]
      rw [if_pos this]; exact List.mem_cons_self ..
    · cases hn : rows[n]? with
      | none => exact ih _ i r (by omega) hr hf
      | some r0 => simp only []; exact ih _ i r (by omega) hr hf

/-- every stored row of file index `f` is listed by `fileLines rows f` -/
theorem fileLines_complete (rows : Array Row) (fidx i : Nat) (r : Row) (hr : rows[i]? = some r) (hf : r.file = fidx) :
    ∃ t : Nat, (fileLines rows fidx)[t]? = some i := by
  have hm : i ∈ fileLinesGo rows fidx rows.size [] := fileLinesGo_complete rows fidx _ _ i r (lt_of_getElem? hr) hr hf
  have hm' : i ∈ (fileLines rows fidx).toList := by unfold fileLines; simpa using hm
  obtain ⟨t, ht⟩ := List.getElem?_of_mem hm'
  exact ⟨t, by simpa using ht⟩

theorem fileLines_valid (rows : Array Row) (fidx : Nat) : ValidIdx rows (fileLines rows fidx) := by
  intro t idx h
  obtain ⟨r, hr, _⟩ := fileLines_mem rows fidx t idx h
  exact ⟨r, hr⟩

/-- every (unit, file index) pair whose file is `path` and that has at least one row is visited -/
theorem filesOf_complete (units : Array CUnit) (path u f : Nat) (un : CUnit) (hu : units[u]? = some un)
    (hf : un.files[f]? = some path) (hne : (fileLines un.rows f).isEmpty = false) :
    (u, fileLines un.rows f) ∈ filesOf units path := by
  unfold filesOf
  rw [List.mem_flatMap]
  refine ⟨u, List.mem_range.mpr (lt_of_getElem? hu), ?_⟩
  rw [hu]; simp only []
  rw [List.mem_filterMap]
  refine ⟨f, List.mem_range.mpr (lt_of_getElem? hf), ?_⟩
  have : (un.files[f]? == some path) = true := by rw [hf]; simp
  rw [if_pos this]
  simp [hne]

/-- nothing selected ⇒ nothing recorded in the dedup set: the second pass of `find_closest_place` starts from scratch -/
theorem dedup_seen_of_nil (units : Array CUnit) (u : Nat) : ∀ places seen res,
    (dedup units u places seen res).2 = [] → (dedup units u places seen res).1 = seen := by
  intro places
  induction places with
  | nil => intro seen res _; simp [dedup]
  | cons q rest ih =>
    intro seen res h
    obtain ⟨i, r⟩ := q
    unfold dedup at h ⊢
    cases hk : keyAt units r.addr with
    | none =>
      rw [hk] at h; simp only [] at h ⊢
      exact absurd h (dedup_res_ne units u rest seen _ (by simp))
    | some k =>
      rw [hk] at h; simp only [] at h ⊢
      by_cases hc : seen.contains k = true
      · rw [if_pos hc] at h ⊢; exact ih _ _ h
      · rw [if_neg hc] at h ⊢
        exact absurd h (dedup_res_ne units u rest _ _ (by simp))

theorem closestPass_seen_of_nil (units : Array CUnit) (needle : Nat) : ∀ files seen,
    (closestPass units needle files seen []).2 = [] → (closestPass units needle files seen []).1 = seen := by
  intro files
  induction files with
  | nil => intro seen _; simp [closestPass]
  | cons f rest ih =>
    intro seen h
    obtain ⟨u, fl⟩ := f
    unfold closestPass at h ⊢
    cases hu : units[u]? with
    | none => rw [hu] at h; simp only [] at h ⊢; exact ih _ h
    | some un =>
      rw [hu] at h; simp only [] at h ⊢
      cases hd : dedup units u (suitablePlaces un.rows fl needle) seen [] with
      | mk seen' res' =>
        rw [hd] at h; simp only [] at h ⊢
        cases res' with
        | cons a b => exact absurd h (closestPass_res_ne units needle rest seen' (a :: b) (by simp))
        | nil =>
          have hs := dedup_seen_of_nil units u (suitablePlaces un.rows fl needle) seen [] (by rw [hd])
          rw [hd] at hs; simp only [] at hs
          subst hs
          exact ih _ h

end BsVerif.Lines
