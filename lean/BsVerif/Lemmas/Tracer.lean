import BsVerif.Model.Tracer
/-! Helper lemmas for C09: table algebra, the closure `Reach` of the three table operations, and the fact that every
transition of the tracer machine changes the table only through them. -/
namespace BsVerif.Tracer
open Table

/-- keys are unique, numbers are unique and below the global counter -/
def WF (T : Table) : Prop :=
  T.rows.Pairwise (fun a b => a.tid ≠ b.tid ∧ a.num ≠ b.num) ∧ ∀ r ∈ T.rows, r.num < T.next

theorem wf_remove {T : Table} (t : Tid) (h : WF T) : WF (T.remove t) := by
  refine ⟨h.1.filter _, ?_⟩
  intro r hr
  exact h.2 r (List.mem_filter.mp hr).1

theorem wf_setSt {T : Table} (t : Tid) (st : Status) (h : WF T) : WF (T.setSt t st) := by
  refine ⟨?_, ?_⟩
  · show List.Pairwise _ (List.map _ _)
    rw [List.pairwise_map]
    refine h.1.imp ?_
    intro a b hab
    by_cases ha : (a.tid == t) <;> by_cases hb : (b.tid == t) <;> simp [ha, hb, hab.1, hab.2]
  · intro r hr
    obtain ⟨r0, hr0, rfl⟩ := List.mem_map.mp hr
    have := h.2 r0 hr0
    by_cases ha : (r0.tid == t) <;> simp [ha, this]
    all_goals exact this

theorem wf_add {T : Table} (t : Tid) (h : WF T) : WF (T.add t) := by
  refine ⟨?_, ?_⟩
  · show List.Pairwise _ (_ ++ _)
    rw [List.pairwise_append]
    refine ⟨h.1.filter _, by simp, ?_⟩
    intro a ha b hb
    simp only [List.mem_singleton] at hb
    subst hb
    have ha' := List.mem_filter.mp ha
    have hlt := h.2 a ha'.1
    refine ⟨?_, ?_⟩
    · intro e; simp [e] at ha'
    · simp; omega
  · intro r hr
    show r.num < T.next + 1
    rcases List.mem_append.mp hr with hr | hr
    · have := h.2 r (List.mem_filter.mp hr).1; omega
    · simp only [List.mem_singleton] at hr; subst hr; simp

/-- closure of the three table operations -/
inductive Reach : Table → Table → Prop
  | refl (T) : Reach T T
  | add {T T'} (t) : Reach T T' → Reach T (T'.add t)
  | remove {T T'} (t) : Reach T T' → Reach T (T'.remove t)
  | setSt {T T'} (t st) : Reach T T' → Reach T (T'.setSt t st)

theorem Reach.trans {A B C : Table} (h1 : Reach A B) (h2 : Reach B C) : Reach A C := by
  induction h2 with
  | refl => exact h1
  | add t _ ih => exact .add t ih
  | remove t _ ih => exact .remove t ih
  | setSt t st _ ih => exact .setSt t st ih

theorem Reach.wf {A B : Table} (h : Reach A B) (w : WF A) : WF B := by
  induction h with
  | refl => exact w
  | add t _ ih => exact wf_add t ih
  | remove t _ ih => exact wf_remove t ih
  | setSt t st _ ih => exact wf_setSt t st ih

@[simp] theorem die_tbl (s : St) (w : String) : (die s w).tbl = s.tbl := rfl
@[simp] theorem toPrompt_tbl (s : St) (r : Reason) : (toPrompt s r).tbl = s.tbl := by
  cases r <;> rfl
@[simp] theorem resumeHead_tbl (s : St) : (resumeHead s).tbl = s.tbl := by
  unfold resumeHead; split <;> rfl

theorem reach_finish (T : Table) (t : Tid) : Reach T (T.finish t) := by
  unfold Table.finish; split
  · exact .setSt _ _ (.refl _)
  · exact .refl _

theorem unwind_reach : ∀ (fuel : Nat) (s : St) (v : Ret), Reach s.tbl (unwind fuel s v).tbl := by
  intro fuel
  induction fuel with
  | zero => intro s v; exact .refl _
  | succ n ih =>
    intro s v
    cases v <;> simp only [unwind] <;> repeat' split
    all_goals first
      | exact .refl _
      | (refine Reach.trans ?_ (ih _ _); first | exact .refl _ | exact reach_finish _ _)
      | (simp; exact .refl _)

theorem ret_reach (s : St) (r : Option Reason) : Reach s.tbl (ret s r).tbl := unwind_reach _ _ _

/-- closes `Reach T T'` when `T'` is `T` after at most one table operation -/
macro "reach_one" : tactic => `(tactic| first
  | exact Reach.refl _
  | exact Reach.setSt _ _ (Reach.refl _)
  | exact Reach.add _ (Reach.refl _)
  | exact Reach.remove _ (Reach.refl _)
  | exact reach_finish _ _)

theorem groupStop_reach (s : St) (init : Option Tid) : Reach s.tbl (groupStop s init).tbl := by
  simp only [groupStop]
  repeat' split
  all_goals first
    | reach_one
    | (refine Reach.trans ?_ (unwind_reach _ _ _); reach_one)

theorem applyNew_reach (s : St) (w : WSt) : Reach s.tbl (applyNew s w).tbl := by
  simp only [applyNew]
  repeat' split
  all_goals first
    | reach_one
    | (refine Reach.trans ?_ (ret_reach _ _); reach_one)
    | (simp; reach_one)

theorem onIntr_reach (s : St) (i : Option Tid) (rd : Nat) (td : List Tid) (t : Tid) (r : Ans) :
    Reach s.tbl (onIntr s i rd td t r).tbl := by
  simp only [onIntr]
  repeat' split
  all_goals first
    | reach_one
    | (refine Reach.trans ?_ (unwind_reach _ _ _); reach_one)

theorem cmdContinue_reach (s : St) : Reach s.tbl (cmdContinue s).tbl := by
  simp only [cmdContinue]
  repeat' split
  all_goals first
    | reach_one
    | (simp; reach_one)

theorem step_reach (s : St) (e : Ev) : Reach s.tbl (step s e).tbl := by
  simp only [step]
  repeat' split
  all_goals first
    | reach_one
    | (simp; reach_one)
    | (refine Reach.trans ?_ (ret_reach _ _); reach_one)
    | (refine Reach.trans ?_ (unwind_reach _ _ _); reach_one)
    | (refine Reach.trans ?_ (applyNew_reach _ _); reach_one)
    | (refine Reach.trans ?_ (groupStop_reach _ _); reach_one)
    | (refine Reach.trans ?_ (onIntr_reach _ _ _ _ _ _); reach_one)
    | (refine Reach.trans ?_ (onIntr_reach _ _ _ _ _ _); refine Reach.trans ?_ (groupStop_reach _ _); reach_one)

theorem run_reach (s : St) (es : List Ev) : Reach s.tbl (run s es).tbl := by
  induction es generalizing s with
  | nil => exact .refl _
  | cons e es ih => exact (step_reach s e).trans (ih _)
