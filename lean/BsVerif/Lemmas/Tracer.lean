import BsVerif.Model.Tracer
/-! Helper lemmas for C09: table algebra, the closure `Reach` of the three table operations, and the fact that every
transition of the tracer machine changes the table only through them. -/
namespace BsVerif.Tracer
open Table

/-- keys are unique, numbers are unique and below the global counter -/
def WF (T : Table) : Prop :=
  T.rows.Pairwise (fun a b => a.tid ≠ b.tid ∧ a.num ≠ b.num) ∧ ∀ r ∈ T.rows, r.num < T.next

theorem wf_remove {T : Table} (t : Tid) (h : WF T) : WF (T.remove t) := by
  refine ⟨h.1.filter _, ?_⟩
  intro r hr
  exact h.2 r (List.mem_filter.mp hr).1

theorem wf_setSt {T : Table} (t : Tid) (st : Status) (h : WF T) : WF (T.setSt t st) := by
  refine ⟨?_, ?_⟩
  · show List.Pairwise _ (List.map _ _)
    rw [List.pairwise_map]
    refine h.1.imp ?_
    intro a b hab
    by_cases ha : (a.tid == t) <;> by_cases hb : (b.tid == t) <;> simp [ha, hb, hab.1, hab.2]
  · intro r hr
    obtain ⟨r0, hr0, rfl⟩ := List.mem_map.mp hr
    have := h.2 r0 hr0
    by_cases ha : (r0.tid == t) <;> simp [ha, this]
    all_goals exact this

theorem wf_add {T : Table} (t : Tid) (h : WF T) : WF (T.add t) := by
  refine ⟨?_, ?_⟩
  · show List.Pairwise _ (_ ++ _)
    rw [List.pairwise_append]
    refine ⟨h.1.filter _, by simp, ?_⟩
    intro a ha b hb
    simp only [List.mem_singleton] at hb
    subst hb
    have ha' := List.mem_filter.mp ha
    have hlt := h.2 a ha'.1
    refine ⟨?_, ?_⟩
    · intro e; simp [e] at ha'
    · simp; omega
  · intro r hr
    show r.num < T.next + 1
    rcases List.mem_append.mp hr with hr | hr
    · have := h.2 r (List.mem_filter.mp hr).1; omega
    · simp only [List.mem_singleton] at hr; subst hr; simp

/-- closure of the three table operations -/
inductive Reach : Table → Table → Prop
  | refl (T) : Reach T T
  | add {T T'} (t) : Reach T T' → Reach T (T'.add t)
  | remove {T T'} (t) : Reach T T' → Reach T (T'.remove t)
  | setSt {T T'} (t st) : Reach T T' → Reach T (T'.setSt t st)

theorem Reach.trans {A B C : Table} (h1 : Reach A B) (h2 : Reach B C) : Reach A C := by
  induction h2 with
  | refl => exact h1
  | add t _ ih => exact .add t ih
  | remove t _ ih => exact .remove t ih
  | setSt t st _ ih => exact .setSt t st ih

theorem Reach.wf {A B : Table} (h : Reach A B) (w : WF A) : WF B := by
  induction h with
  | refl => exact w
  | add t _ ih => exact wf_add t ih
  | remove t _ ih => exact wf_remove t ih
  | setSt t st _ ih => exact wf_setSt t st ih

@[simp] theorem die_tbl (s : St) (w : String) : (die s w).tbl = s.tbl := rfl
@[simp] theorem toPrompt_tbl (s : St) (r : Reason) : (toPrompt s r).tbl = s.tbl := by
  cases r <;> rfl
@[simp] theorem resumeHead_tbl (s : St) : (resumeHead s).tbl = s.tbl := by
  unfold resumeHead; split <;> rfl

theorem reach_finish (T : Table) (t : Tid) : Reach T (T.finish t) := by
  unfold Table.finish; split
  · exact .setSt _ _ (.refl _)
  · exact .refl _

/-- closes `Reach T T'` when `T'` is `T` after at most one table operation -/
macro "reach_one" : tactic => `(tactic| first
  | exact Reach.refl _
  | exact Reach.setSt _ _ (Reach.refl _)
  | exact Reach.add _ (Reach.refl _)
  | exact Reach.remove _ (Reach.refl _)
  | exact reach_finish _ _)

theorem deliverOuter_reach (s : St) (r : Option Reason) : Reach s.tbl (deliverOuter s r).tbl := by
  simp only [deliverOuter]
  repeat' split
  all_goals first | reach_one | (simp; reach_one)

theorem gsEnd_reach (s : St) (g : Gs) : Reach s.tbl (gsEnd s g).tbl := by
  simp only [gsEnd]
  repeat' split
  all_goals first
    | reach_one
    | (simp; reach_one)
    | (refine Reach.trans ?_ (deliverOuter_reach _ _); reach_one)

theorem pick1_reach (s : St) (g : Gs) : Reach s.tbl (pick1 s g).tbl := by
  simp only [pick1]
  repeat' split
  all_goals first | reach_one | (refine Reach.trans ?_ (gsEnd_reach _ _); reach_one)

theorem pick_reach (s : St) (g : Gs) : Reach s.tbl (pick s g).tbl := by
  simp only [pick]
  repeat' split
  all_goals first
    | reach_one
    | (refine Reach.trans ?_ (gsEnd_reach _ _); reach_one)
    | (refine Reach.trans ?_ (pick1_reach _ _); reach_one)

theorem deliverGs_reach (s : St) (g : Gs) (c : Tid) (r : Option Reason) : Reach s.tbl (deliverGs s g c r).tbl := by
  simp only [deliverGs]
  repeat' split
  all_goals first | reach_one | (refine Reach.trans ?_ (pick_reach _ _); reach_one)

theorem ret_reach (s : St) (r : Option Reason) : Reach s.tbl (ret s r).tbl := by
  simp only [ret]
  repeat' split
  all_goals first
    | reach_one
    | (refine Reach.trans ?_ (deliverGs_reach _ _ _ _); reach_one)
    | (refine Reach.trans ?_ (deliverOuter_reach _ _); reach_one)

theorem groupStop_reach (s : St) (init : Option Tid) (gr : GRet) : Reach s.tbl (groupStop s init gr).tbl := by
  simp only [groupStop]
  repeat' split
  all_goals first
    | reach_one
    | (refine Reach.trans ?_ (ret_reach _ _); reach_one)
    | (refine Reach.trans ?_ (gsEnd_reach _ _); reach_one)
    | (refine Reach.trans ?_ (pick_reach _ _); reach_one)

theorem applyNew_reach (s : St) (w : WSt) : Reach s.tbl (applyNew s w).tbl := by
  simp only [applyNew]
  repeat' split
  all_goals first
    | reach_one
    | (refine Reach.trans ?_ (ret_reach _ _); reach_one)
    | (simp; reach_one)

theorem onIntr_reach (s : St) (g : Gs) (t : Tid) (r : Ans) : Reach s.tbl (onIntr s g t r).tbl := by
  simp only [onIntr]
  repeat' split
  all_goals first
    | reach_one
    | (refine Reach.trans ?_ (pick_reach _ _); reach_one)

theorem cmdContinue_reach (s : St) : Reach s.tbl (cmdContinue s).tbl := by
  simp only [cmdContinue]
  repeat' split
  all_goals first
    | reach_one
    | (simp; reach_one)

theorem step_reach (s : St) (e : Ev) : Reach s.tbl (step s e).tbl := by
  simp only [step]
  repeat' split
  all_goals first
    | reach_one
    | (simp; reach_one)
    | (refine Reach.trans ?_ (ret_reach _ _); reach_one)
    | (refine Reach.trans ?_ (pick_reach _ _); reach_one)
    | (refine Reach.trans ?_ (applyNew_reach _ _); reach_one)
    | (refine Reach.trans ?_ (groupStop_reach _ _ _); reach_one)
    | (refine Reach.trans ?_ (onIntr_reach _ _ _ _); reach_one)
    | (refine Reach.trans ?_ (onIntr_reach _ _ _ _); refine Reach.trans ?_ (groupStop_reach _ _ _); reach_one)

theorem run_reach (s : St) (es : List Ev) : Reach s.tbl (run s es).tbl := by
  induction es generalizing s with
  | nil => exact .refl _
  | cons e es ih => exact (step_reach s e).trans (ih _)

/-! ## Monotonicity: only `cont_stopped(_ex)` marks a tracee running -/

/-- closure of the table operations that never mark anybody running -/
inductive MReach : Table → Table → Prop
  | refl (T) : MReach T T
  | add {T T'} (t) : MReach T T' → MReach T (T'.add t)
  | remove {T T'} (t) : MReach T T' → MReach T (T'.remove t)
  | setStop {T T'} (t) : MReach T T' → MReach T (T'.setSt t .stop)
  | setSig {T T'} (t sg) : MReach T T' → MReach T (T'.setSt t (.sigstop sg))

theorem MReach.trans {A B C : Table} (h1 : MReach A B) (h2 : MReach B C) : MReach A C := by
  induction h2 with
  | refl => exact h1
  | add t _ ih => exact .add t ih
  | remove t _ ih => exact .remove t ih
  | setStop t _ ih => exact .setStop t ih
  | setSig t sg _ ih => exact .setSig t sg ih

/-- thread ids marked running -/
def runningIds (T : Table) : List Tid := (T.rows.filter (fun r => r.st.isRunning)).map (·.tid)

theorem mem_runningIds {T : Table} {t : Tid} :
    t ∈ runningIds T ↔ ∃ r ∈ T.rows, r.st.isRunning = true ∧ r.tid = t := by
  simp [runningIds, List.mem_map, List.mem_filter, and_assoc]

/-- under the non-resuming operations the set of threads marked running only shrinks -/
theorem MReach.running_subset {A B : Table} (h : MReach A B) : ∀ t, t ∈ runningIds B → t ∈ runningIds A := by
  induction h with
  | refl => exact fun _ h => h
  | add t _ ih =>
    intro x hx
    apply ih
    rw [mem_runningIds] at hx ⊢
    obtain ⟨r, hr, hrun, rfl⟩ := hx
    rcases List.mem_append.mp hr with hr | hr
    · exact ⟨r, (List.mem_filter.mp hr).1, hrun, rfl⟩
    · simp only [List.mem_singleton] at hr; subst hr; simp [Status.isRunning] at hrun
  | remove t _ ih =>
    intro x hx
    apply ih
    rw [mem_runningIds] at hx ⊢
    obtain ⟨r, hr, hrun, rfl⟩ := hx
    exact ⟨r, (List.mem_filter.mp hr).1, hrun, rfl⟩
  | setStop t _ ih =>
    intro x hx
    apply ih
    rw [mem_runningIds] at hx ⊢
    obtain ⟨r, hr, hrun, rfl⟩ := hx
    obtain ⟨r0, hr0, rfl⟩ := List.mem_map.mp hr
    by_cases c : (r0.tid == t) <;> simp [c, Status.isRunning] at hrun ⊢
    exact ⟨r0, hr0, hrun, rfl⟩
  | setSig t sg _ ih =>
    intro x hx
    apply ih
    rw [mem_runningIds] at hx ⊢
    obtain ⟨r, hr, hrun, rfl⟩ := hx
    obtain ⟨r0, hr0, rfl⟩ := List.mem_map.mp hr
    by_cases c : (r0.tid == t) <;> simp [c, Status.isRunning] at hrun ⊢
    exact ⟨r0, hr0, hrun, rfl⟩

theorem mreach_finish (T : Table) (t : Tid) : MReach T (T.finish t) := by
  unfold Table.finish; split
  · exact .setStop _ (.refl _)
  · exact .refl _

macro "mreach_one" : tactic => `(tactic| first
  | exact MReach.refl _
  | exact MReach.setStop _ (MReach.refl _)
  | exact MReach.setSig _ _ (MReach.refl _)
  | exact MReach.add _ (MReach.refl _)
  | exact MReach.remove _ (MReach.refl _)
  | exact mreach_finish _ _)

theorem deliverOuter_mreach (s : St) (r : Option Reason) : MReach s.tbl (deliverOuter s r).tbl := by
  simp only [deliverOuter]
  repeat' split
  all_goals first | mreach_one | (simp; mreach_one)

theorem gsEnd_mreach (s : St) (g : Gs) : MReach s.tbl (gsEnd s g).tbl := by
  simp only [gsEnd]
  repeat' split
  all_goals first
    | mreach_one
    | (simp; mreach_one)
    | (refine MReach.trans ?_ (deliverOuter_mreach _ _); mreach_one)

theorem pick1_mreach (s : St) (g : Gs) : MReach s.tbl (pick1 s g).tbl := by
  simp only [pick1]
  repeat' split
  all_goals first | mreach_one | (refine MReach.trans ?_ (gsEnd_mreach _ _); mreach_one)

theorem pick_mreach (s : St) (g : Gs) : MReach s.tbl (pick s g).tbl := by
  simp only [pick]
  repeat' split
  all_goals first
    | mreach_one
    | (refine MReach.trans ?_ (gsEnd_mreach _ _); mreach_one)
    | (refine MReach.trans ?_ (pick1_mreach _ _); mreach_one)

theorem deliverGs_mreach (s : St) (g : Gs) (c : Tid) (r : Option Reason) : MReach s.tbl (deliverGs s g c r).tbl := by
  simp only [deliverGs]
  repeat' split
  all_goals first | mreach_one | (refine MReach.trans ?_ (pick_mreach _ _); mreach_one)

theorem ret_mreach (s : St) (r : Option Reason) : MReach s.tbl (ret s r).tbl := by
  simp only [ret]
  repeat' split
  all_goals first
    | mreach_one
    | (refine MReach.trans ?_ (deliverGs_mreach _ _ _ _); mreach_one)
    | (refine MReach.trans ?_ (deliverOuter_mreach _ _); mreach_one)

theorem groupStop_mreach (s : St) (init : Option Tid) (gr : GRet) : MReach s.tbl (groupStop s init gr).tbl := by
  simp only [groupStop]
  repeat' split
  all_goals first
    | mreach_one
    | (refine MReach.trans ?_ (ret_mreach _ _); mreach_one)
    | (refine MReach.trans ?_ (gsEnd_mreach _ _); mreach_one)
    | (refine MReach.trans ?_ (pick_mreach _ _); mreach_one)

theorem applyNew_mreach (s : St) (w : WSt) : MReach s.tbl (applyNew s w).tbl := by
  simp only [applyNew]
  repeat' split
  all_goals first
    | mreach_one
    | (refine MReach.trans ?_ (ret_mreach _ _); mreach_one)
    | (simp; mreach_one)

theorem onIntr_mreach (s : St) (g : Gs) (t : Tid) (r : Ans) : MReach s.tbl (onIntr s g t r).tbl := by
  simp only [onIntr]
  repeat' split
  all_goals first
    | mreach_one
    | (refine MReach.trans ?_ (pick_mreach _ _); mreach_one)

theorem cmdContinue_mreach (s : St) : MReach s.tbl (cmdContinue s).tbl := by
  simp only [cmdContinue]
  repeat' split
  all_goals first
    | mreach_one
    | (simp; mreach_one)

/-- the one transition that marks a tracee running: a successful `PTRACE_CONT` issued by `cont_stopped(_ex)` -/
def isResumeCont (s : St) (e : Ev) : Prop :=
  ∃ inj excl vis g t sg, s.aw = .contAll inj excl vis g ∧ e = .cont t sg .ok

theorem step_mreach (s : St) (e : Ev) (h : ¬ isResumeCont s e) : MReach s.tbl (step s e).tbl := by
  simp only [step]
  repeat' split
  all_goals first
    | mreach_one
    | (simp; mreach_one)
    | (refine MReach.trans ?_ (ret_mreach _ _); mreach_one)
    | (refine MReach.trans ?_ (pick_mreach _ _); mreach_one)
    | (refine MReach.trans ?_ (applyNew_mreach _ _); mreach_one)
    | (refine MReach.trans ?_ (groupStop_mreach _ _ _); mreach_one)
    | (refine MReach.trans ?_ (onIntr_mreach _ _ _ _); mreach_one)
    | (refine MReach.trans ?_ (onIntr_mreach _ _ _ _); refine MReach.trans ?_ (groupStop_mreach _ _ _); mreach_one)
    | (exfalso; apply h; simp_all [isResumeCont])

/-! ## Coverage argument of the group stop -/

/-- every thread marked running is still on the group stop's list -/
def Cov (T : Table) (acc : List Tid) : Prop := ∀ t ∈ runningIds T, t ∈ acc

theorem isRunning_iff {T : Table} {t : Tid} : T.isRunning t = true ↔ t ∈ runningIds T := by
  simp only [Table.isRunning, List.any_eq_true, mem_runningIds, Bool.and_eq_true, beq_iff_eq]
  constructor
  · rintro ⟨r, hr, h1, h2⟩; exact ⟨r, hr, h2, h1⟩
  · rintro ⟨r, hr, h1, h2⟩; exact ⟨r, hr, h2, h1⟩

theorem cov_keys (T : Table) : Cov T T.keys := by
  intro t ht
  obtain ⟨r, hr, _, rfl⟩ := mem_runningIds.mp ht
  exact List.mem_map.mpr ⟨r, hr, rfl⟩

theorem cov_mreach {A B : Table} {acc : List Tid} (h : MReach A B) (c : Cov A acc) : Cov B acc :=
  fun t ht => c t (h.running_subset t ht)

theorem cov_cands_empty (s : St) (todo : List Tid) (c : Cov s.tbl todo) (h : gsCands s todo = []) :
    runningIds s.tbl = [] := by
  apply List.eq_nil_iff_forall_not_mem.mpr
  intro t ht
  have h1 := c t ht
  have h2 : s.tbl.isRunning t = true := isRunning_iff.mpr ht
  have : t ∈ gsCands s todo := List.mem_filter.mpr ⟨h1, h2⟩
  rw [h] at this
  exact absurd this (List.not_mem_nil)

theorem not_running_after_setStop (T : Table) (t : Tid) : t ∉ runningIds (T.setSt t .stop) := by
  intro h
  obtain ⟨r, hr, hrun, htid⟩ := mem_runningIds.mp h
  obtain ⟨r0, _, rfl⟩ := List.mem_map.mp hr
  by_cases c : (r0.tid == t) <;> simp [c, Status.isRunning] at hrun htid
  simp [htid] at c

theorem cov_setStop_erase {T : Table} {todo : List Tid} (t : Tid) (c : Cov T todo) :
    Cov (T.setSt t .stop) (todo.erase t) := by
  intro x hx
  have hne : x ≠ t := fun e => not_running_after_setStop T t (e ▸ hx)
  have := c x ((MReach.setStop t (.refl T)).running_subset x hx)
  exact (List.mem_erase_of_ne hne).mpr this

theorem cov_intr_ok {T : Table} {todo : List Tid} (t : Tid) (c : Cov T todo) : Cov T (t :: todo.erase t) := by
  intro x hx
  by_cases e : x = t
  · simp [e]
  · exact List.mem_cons_of_mem _ ((List.mem_erase_of_ne e).mpr (c x hx))

theorem not_running_after_finish (T : Table) (t : Tid) : t ∉ runningIds (T.finish t) := by
  unfold Table.finish
  split
  · exact not_running_after_setStop T t
  · rename_i h; intro hm; exact h (isRunning_iff.mpr hm)

theorem cov_finish {T : Table} {todo : List Tid} (cur : Tid) (c : Cov T (cur :: todo)) : Cov (T.finish cur) todo := by
  intro x hx
  have hne : x ≠ cur := fun e => not_running_after_finish T cur (e ▸ hx)
  have := c x ((mreach_finish T cur).running_subset x hx)
  simpa [hne] using this
