import BsVerif.Model.PathIndex
/-! Helper lemmas for C17 (association lists, one-step behaviour of `insertWHead`). -/
namespace BsVerif.PathIndex

theorem alookup_ainsert_self {κ ν} [BEq κ] [LawfulBEq κ] (k : κ) (v : ν) (l : List (κ × ν)) :
    alookup k (ainsert k v l) = some v := by
  induction l with
  | nil => simp [ainsert, alookup]
  | cons p rest ih =>
    obtain ⟨k', v'⟩ := p
    by_cases h : (k' == k) = true
    · simp [ainsert, h, alookup]
    · simp [ainsert, h, alookup, ih]

theorem alookup_ainsert_ne {κ ν} [BEq κ] [LawfulBEq κ] (k k' : κ) (v : ν) (l : List (κ × ν))
    (hne : k' ≠ k) : alookup k' (ainsert k v l) = alookup k' l := by
  induction l with
  | nil =>
    have : (k == k') = false := by simpa using (fun h => hne h.symm)
    simp [ainsert, alookup, this]
  | cons p rest ih =>
    obtain ⟨k₁, v₁⟩ := p
    by_cases h : (k₁ == k) = true
    · have e : k₁ = k := by simpa using h
      subst e
      have : (k₁ == k') = false := by simpa using (fun h => hne h.symm)
      simp [ainsert, alookup, this]
    · simp [ainsert, h, alookup, ih]

/-- every tail index recorded under a head points inside `tails` -/
def Inv {α} (ix : Index α) : Prop :=
  ∀ h idxs n, alookup h ix.heads = some (idxs, n) → ∀ i ∈ idxs, i < ix.tails.length

theorem inv_empty {α} : Inv (Index.empty : Index α) := by
  intro h idxs n hl; simp [Index.empty, alookup] at hl

theorem inv_insert {α} (ix : Index α) (t : List String) (h : String) (v : α) (hinv : Inv ix) :
    Inv (ix.insertWHead t h v) := by
  intro h' idxs' n' hl i hi
  unfold Index.insertWHead at hl ⊢
  cases hlk : alookup h ix.heads with
  | none =>
    simp only [hlk] at hl ⊢
    simp only [List.length_append, List.length_singleton]
    by_cases e : h' = h
    · subst e
      rw [alookup_ainsert_self] at hl
      have : idxs' = [ix.tails.length] := by injection hl with hl; injection hl with a _; exact a.symm
      subst this; simp at hi; omega
    · rw [alookup_ainsert_ne _ _ _ _ e] at hl
      have := hinv h' idxs' n' hl i hi; omega
  | some p =>
    obtain ⟨idxs, n⟩ := p
    simp only [hlk] at hl ⊢
    simp only [List.length_append, List.length_singleton]
    by_cases e : h' = h
    · subst e
      rw [alookup_ainsert_self] at hl
      have : idxs' = idxs ++ [ix.tails.length] := by injection hl with hl; injection hl with a _; exact a.symm
      subst this
      rcases List.mem_append.mp hi with hi | hi
      · have := hinv h' idxs n hlk i hi; omega
      · simp at hi; omega
    · rw [alookup_ainsert_ne _ _ _ _ e] at hl
      have := hinv h' idxs' n' hl i hi; omega

theorem getD_append_left (l : List (List String)) (t : List String) (i : Nat) (hi : i < l.length) :
    (l ++ [t]).getD i [] = l.getD i [] := by
  simp [List.getD, List.getElem?_append_left hi]

theorem getD_append_self (l : List (List String)) (t : List String) :
    (l ++ [t]).getD l.length [] = t := by
  simp [List.getD]

/-- the part of a `get` that walks already-present tail indices is unaffected by a later insert -/
theorem walk_old {α} (tails : List (List String)) (t et : List String) (data : List ((Nat × Nat) × α))
    (n n' : Nat) (v : α) (idxs : List Nat) (hlt : ∀ i ∈ idxs, i < tails.length) :
    ((idxs.filter fun i => endsWith ((tails ++ [t]).getD i []) et).filterMap fun i =>
        alookup (n, i) (ainsert (n', tails.length) v data))
    = ((idxs.filter fun i => endsWith (tails.getD i []) et).filterMap fun i => alookup (n, i) data) := by
  induction idxs with
  | nil => simp
  | cons a rest ih =>
    have ha : a < tails.length := hlt a (by simp)
    have hrest := ih (fun i hi => hlt i (by simp [hi]))
    have hne : (n, a) ≠ (n', tails.length) := by
      intro e; injection e with _ e2; omega
    simp only [List.filter_cons, getD_append_left tails t a ha]
    split
    · simp only [List.filterMap_cons, alookup_ainsert_ne _ _ _ _ hne, hrest]
    · exact hrest

theorem get_insert {α} (ix : Index α) (t : List String) (h : String) (v : α)
    (et : List String) (eh : String) (hinv : Inv ix) :
    (ix.insertWHead t h v).getComps et eh
      = ix.getComps et eh ++ (if suffixMatch et eh t h then [v] else []) := by
  unfold Index.getComps Index.insertWHead suffixMatch
  cases hlk : alookup h ix.heads with
  | none =>
    simp only []
    by_cases e : eh = h
    · subst e
      simp only [alookup_ainsert_self, hlk, beq_self_eq_true, Bool.true_and, List.nil_append]
      simp only [List.filter_cons, List.filter_nil, getD_append_self]
      split <;> simp [alookup_ainsert_self]
    · rw [alookup_ainsert_ne _ _ _ _ e]
      have hb : (h == eh) = false := by simpa using (fun x => e x.symm)
      simp only [hb, Bool.false_and, Bool.false_eq_true, if_false, List.append_nil]
      cases hle : alookup eh ix.heads with
      | none => rfl
      | some p =>
        obtain ⟨idxs, n⟩ := p
        exact walk_old ix.tails t et ix.data n ix.nextNonce v idxs (hinv eh idxs n hle)
  | some p =>
    obtain ⟨idxs, n⟩ := p
    simp only []
    by_cases e : eh = h
    · subst e
      simp only [alookup_ainsert_self, hlk, beq_self_eq_true, Bool.true_and]
      simp only [List.filter_append, List.filterMap_append,
        walk_old ix.tails t et ix.data n n v idxs (hinv eh idxs n hlk)]
      congr 1
      simp only [List.filter_cons, List.filter_nil, getD_append_self]
      split <;> simp [alookup_ainsert_self]
    · rw [alookup_ainsert_ne _ _ _ _ e]
      have hb : (h == eh) = false := by simpa using (fun x => e x.symm)
      simp only [hb, Bool.false_and, Bool.false_eq_true, if_false, List.append_nil]
      cases hle : alookup eh ix.heads with
      | none => rfl
      | some p =>
        obtain ⟨idxs', n'⟩ := p
        exact walk_old ix.tails t et ix.data n' n v idxs' (hinv eh idxs' n' hle)

theorem endsWith_iff_suffix (l s : List String) : endsWith l s = true ↔ s <:+ l := by
  unfold endsWith
  constructor
  · intro h
    simp only [Bool.and_eq_true, decide_eq_true_eq, beq_iff_eq] at h
    refine ⟨l.take (l.length - s.length), ?_⟩
    have := List.take_append_drop (l.length - s.length) l
    rw [h.2] at this; exact this
  · rintro ⟨p, rfl⟩
    simp

end BsVerif.PathIndex
