import BsVerif.Model.RelocSession
/-!
Helper lemmas for C18, session level: the invariant "every breakpoint the registry lists as enabled has its INT3 in the
process" is preserved by `add_and_enable`, `set_breakpoint_at_fn`, `refresh_deferred`, an `r_brk` hit and by every
execution of the abstract debuggee that contains no `dlclose`.  Core Lean only.
-/
namespace BsVerif.RelocS
open BsVerif.Reloc

/-- every registered (enabled) breakpoint really has its INT3 in memory -/
def Armed (s : St) : Prop := ∀ b ∈ s.active, b.addr ∈ s.patched

instance (s : St) : Decidable (Armed s) := by unfold Armed; infer_instance

theorem Armed.congr {s s' : St} (ha : s'.active = s.active) (hp : s'.patched = s.patched) (h : Armed s) : Armed s' := by
  intro b hb; rw [ha] at hb; rw [hp]; exact h b hb

theorem enableAt_spec {s s' : St} {a : Nat} (h : s.enableAt a = some s') :
    s'.active = s.active ∧ a ∈ s'.patched ∧ ∀ x, x ∈ s.patched → x ∈ s'.patched := by
  unfold St.enableAt at h
  by_cases hm : s.mapped a
  · simp only [hm, if_true] at h
    injection h with h; subst h
    refine ⟨rfl, ?_, ?_⟩
    · by_cases hc : a ∈ s.patched
      · simp [hc]
      · simp [hc]
    · intro x hx
      by_cases hc : a ∈ s.patched
      · simp [hc, hx]
      · simp [hc, hx]
  · simp [hm] at h

theorem disableAt_spec {s s' : St} {a : Nat} (h : s.disableAt a = some s') :
    s'.active = s.active ∧ ∀ x, x ∈ s.patched → x ≠ a → x ∈ s'.patched := by
  unfold St.disableAt at h
  by_cases hm : s.mapped a
  · simp only [hm, if_true] at h
    injection h with h; subst h
    exact ⟨rfl, fun x hx hne => by simp [hx, hne]⟩
  · simp [hm] at h

theorem addAndEnable_armed {s s' : St} {b : ABp} (h : s.addAndEnable b = some s') (ha : Armed s) : Armed s' := by
  unfold St.addAndEnable at h
  -- the state after the optional disable
  have key : ∀ s1 : St, s1.active = s.active → (∀ x, x ∈ s.patched → x ≠ b.addr → x ∈ s1.patched) →
      (match s1.enableAt b.addr with
        | none => none
        | some s2 => some { s2 with active := s2.active.filter (·.addr != b.addr) ++ [b] }) = some s' → Armed s' := by
    intro s1 h1 h2 h3
    cases he : s1.enableAt b.addr with
    | none => simp [he] at h3
    | some s2 =>
      simp only [he] at h3
      injection h3 with h3; subst h3
      have sp := enableAt_spec he
      intro c hc
      simp only [List.mem_append, List.mem_filter, List.mem_singleton] at hc
      rcases hc with ⟨hc1, hc2⟩ | hc
      · have hne : c.addr ≠ b.addr := by simpa using hc2
        rw [sp.1, h1] at hc1
        exact sp.2.2 _ (h2 _ (ha c hc1) hne)
      · subst hc; exact sp.2.1
  by_cases hex : s.active.any (·.addr == b.addr)
  · simp only [hex, if_true] at h
    cases hd : s.disableAt b.addr with
    | none => simp [hd] at h
    | some s1 =>
      simp only [hd] at h
      have sp := disableAt_spec hd
      exact key s1 sp.1 sp.2 h
  · simp only [hex] at h
    exact key s rfl (fun x hx _ => hx) h

theorem setFn_go_armed : ∀ (l : List (Nat × Nat)) (s : St), Armed s → Armed (St.setFn.go s l).1
  | [], s, h => by simpa [St.setFn.go] using h
  | (a, o) :: rest, s, h => by
    unfold St.setFn.go
    cases he : s.addAndEnable ⟨a, .user, some o⟩ with
    | none => simpa using h
    | some s1 => simpa using setFn_go_armed rest s1 (addAndEnable_armed he h)

theorem foldl_addUninit_frame (ps : List (Nat × Nat)) : ∀ (s : St),
    (ps.foldl (fun s p => s.addUninit ⟨.glob p.2, some p.1, .user⟩) s).active = s.active ∧
    (ps.foldl (fun s p => s.addUninit ⟨.glob p.2, some p.1, .user⟩) s).patched = s.patched := by
  induction ps with
  | nil => intro s; exact ⟨rfl, rfl⟩
  | cons p ps ih => intro s; rw [List.foldl_cons]; have := ih (s.addUninit ⟨.glob p.2, some p.1, .user⟩); simpa [St.addUninit] using this

theorem setFn_armed (s : St) (f : Nat) (h : Armed s) : Armed (s.setFn f).1 := by
  unfold St.setFn
  by_cases he : (s.resolve f).isEmpty
  · simpa [he] using h
  · simp only [he]
    by_cases hp : s.status == .inProgress
    · simp only [hp, if_true]
      cases hm : (s.resolve f).mapM (fun p => (s.reg.relocate p.2 p.1).map (fun a => (a, p.1))) with
      | none => simpa using h
      | some as => simpa using setFn_go_armed as s h
    · simp only [hp]
      have := foldl_addUninit_frame (s.resolve f) s
      exact Armed.congr this.1 this.2 h

theorem refreshDeferred_armed (s : St) (h : Armed s) : Armed s.refreshDeferred := by
  unfold St.refreshDeferred
  have : ∀ (ds : List Nat) (t : St), Armed t → Armed (ds.foldl (fun s f =>
      let (s1, o) := s.setFn f
      if o == .active then s1 else { s1 with deferred := s1.deferred ++ [f] }) t) := by
    intro ds
    induction ds with
    | nil => intro t ht; simpa using ht
    | cons d ds ih =>
      intro t ht
      rw [List.foldl_cons]
      apply ih
      have h1 := setFn_armed t d ht
      cases hs : t.setFn d with
      | mk s1 o =>
        rw [hs] at h1
        simp only
        by_cases ho : o == .active
        · simpa [ho] using h1
        · simp only [ho]; exact Armed.congr rfl rfl h1
  exact this _ _ (Armed.congr rfl rfl h)

theorem linkerHit_armed (s : St) (h : Armed s) : Armed s.linkerHit := by
  unfold St.linkerHit
  split
  · exact h
  · split
    · exact h
    · split
      · exact refreshDeferred_armed _ (Armed.congr rfl rfl h)
      · exact h

def noUnload : List Op → Bool
  | [] => true
  | .unload _ :: _ => false
  | _ :: r => noUnload r

theorem setRef_frame (s : St) (o n : Nat) : (s.setRef o n).active = s.active ∧ (s.setRef o n).patched = s.patched := ⟨rfl, rfl⟩

theorem runOps_armed : ∀ (ops : List Op) (s : St) (nm : List MapE), noUnload ops = true → Armed s → Armed (runOps s nm ops).1
  | [], s, nm, _, h => by simpa [runOps] using h
  | .visit o f :: rest, s, nm, hn, h => by
    have hn' : noUnload rest = true := by simpa [noUnload] using hn
    have h0 : Armed { s with pos := s.pos + 1 } := Armed.congr rfl rfl h
    unfold runOps
    simp only
    split
    · split
      · exact h0
      · exact runOps_armed rest _ nm hn' h0
    · exact runOps_armed rest _ nm hn' h0
  | .load o :: rest, s, nm, hn, h => by
    have hn' : noUnload rest = true := by simpa [noUnload] using hn
    have h0 : Armed ({ s with pos := s.pos + 1 }.setRef o (({ s with pos := s.pos + 1 } : St).refOf o + 1)) := Armed.congr rfl rfl h
    unfold runOps
    simp only
    split
    · split
      · split
        · exact h0
        · exact runOps_armed rest _ nm hn' h0
      · apply runOps_armed rest _ nm hn'
        apply linkerHit_armed
        exact Armed.congr rfl rfl (linkerHit_armed _ h0)
    · exact runOps_armed rest _ nm hn' h0
  | .unload o :: rest, s, nm, hn, h => by simp [noUnload] at hn

/-- what the outcome of `set_breakpoint_at_fn` depends on -/
def Frame (s t : St) : Prop := t.reg = s.reg ∧ t.status = s.status ∧ t.maps = s.maps ∧ t.fns = s.fns
/-- … and the deferred list is left alone -/
def FrameD (s t : St) : Prop := Frame s t ∧ t.deferred = s.deferred

theorem Frame.refl (s : St) : Frame s s := ⟨rfl, rfl, rfl, rfl⟩
theorem Frame.trans {a b c : St} (h1 : Frame a b) (h2 : Frame b c) : Frame a c :=
  ⟨h2.1.trans h1.1, h2.2.1.trans h1.2.1, h2.2.2.1.trans h1.2.2.1, h2.2.2.2.trans h1.2.2.2⟩
theorem FrameD.refl (s : St) : FrameD s s := ⟨Frame.refl s, rfl⟩
theorem FrameD.trans {a b c : St} (h1 : FrameD a b) (h2 : FrameD b c) : FrameD a c :=
  ⟨Frame.trans h1.1 h2.1, h2.2.trans h1.2⟩

theorem Frame.mapped {s t : St} (h : Frame s t) (a : Nat) : t.mapped a = s.mapped a := by
  unfold St.mapped; rw [h.2.2.1]

theorem enableAt_ok {s : St} {a : Nat} (hm : s.mapped a = true) : ∃ t, s.enableAt a = some t ∧ FrameD s t := by
  unfold St.enableAt; rw [if_pos hm]; exact ⟨_, rfl, ⟨rfl, rfl, rfl, rfl⟩, rfl⟩
theorem enableAt_fail {s : St} {a : Nat} (hm : s.mapped a = false) : s.enableAt a = none := by
  unfold St.enableAt; simp [hm]
theorem disableAt_ok {s : St} {a : Nat} (hm : s.mapped a = true) : ∃ t, s.disableAt a = some t ∧ FrameD s t := by
  unfold St.disableAt; rw [if_pos hm]; exact ⟨_, rfl, ⟨rfl, rfl, rfl, rfl⟩, rfl⟩
theorem disableAt_fail {s : St} {a : Nat} (hm : s.mapped a = false) : s.disableAt a = none := by
  unfold St.disableAt; simp [hm]

/-- `add_and_enable` succeeds exactly when the address is mapped, and touches nothing the resolution depends on -/
theorem addAndEnable_ok (s : St) (b : ABp) (hm : s.mapped b.addr = true) : ∃ t, s.addAndEnable b = some t ∧ FrameD s t := by
  unfold St.addAndEnable
  by_cases hex : s.active.any (·.addr == b.addr)
  · simp only [hex, if_true]
    obtain ⟨s1, h1, f1⟩ := disableAt_ok hm
    rw [h1]
    obtain ⟨s2, h2, f2⟩ := enableAt_ok ((f1.1.mapped b.addr).trans hm)
    simp only [h2]
    exact ⟨_, rfl, FrameD.trans f1 ⟨⟨f2.1.1, f2.1.2.1, f2.1.2.2.1, f2.1.2.2.2⟩, f2.2⟩⟩
  · simp only [hex]
    obtain ⟨s2, h2, f2⟩ := enableAt_ok hm
    refine ⟨{ s2 with active := s2.active.filter (·.addr != b.addr) ++ [b] }, ?_, ⟨⟨f2.1.1, f2.1.2.1, f2.1.2.2.1, f2.1.2.2.2⟩, f2.2⟩⟩
    simp [h2]

theorem addAndEnable_fail (s : St) (b : ABp) (hm : s.mapped b.addr = false) : s.addAndEnable b = none := by
  unfold St.addAndEnable
  cases hex : s.active.any (fun x => x.addr == b.addr) <;> simp [disableAt_fail hm, enableAt_fail hm]

theorem go_spec : ∀ (l : List (Nat × Nat)) (s : St),
    FrameD s (St.setFn.go s l).1 ∧ (St.setFn.go s l).2 = bif l.all (fun p => s.mapped p.1) then Out.active else Out.err
  | [], s => by simp [St.setFn.go, FrameD.refl]
  | (a, o) :: rest, s => by
    unfold St.setFn.go
    cases hm : s.mapped a with
    | false =>
      rw [addAndEnable_fail s ⟨a, .user, some o⟩ hm]
      simp [hm, FrameD.refl]
    | true =>
      obtain ⟨t, ht, ft⟩ := addAndEnable_ok s ⟨a, .user, some o⟩ hm
      rw [ht]
      have ih := go_spec rest t
      refine ⟨FrameD.trans ft ih.1, ?_⟩
      show (St.setFn.go t rest).2 = _
      rw [ih.2]
      have : (rest.all fun p => t.mapped p.1) = (rest.all fun p => s.mapped p.1) := by
        congr 1; funext p; exact ft.1.mapped p.1
      rw [this]
      simp only [List.all_cons]
      rw [hm, Bool.true_and]

/-- closed form of the outcome of `set_breakpoint_at_fn` -/
def setFnOut (s : St) (f : Nat) : Out :=
  if (s.resolve f).isEmpty then .nosuit
  else if s.status == .inProgress then
    match (s.resolve f).mapM (fun p => (s.reg.relocate p.2 p.1).map (fun a => (a, p.1))) with
    | none => .err
    | some as => bif as.all (fun p => s.mapped p.1) then .active else .err
  else .uninit

theorem foldl_addUninit_frameD (ps : List (Nat × Nat)) : ∀ (s : St),
    FrameD s (ps.foldl (fun s p => s.addUninit ⟨.glob p.2, some p.1, .user⟩) s) := by
  induction ps with
  | nil => intro s; exact FrameD.refl s
  | cons p ps ih => intro s; rw [List.foldl_cons]; exact FrameD.trans ⟨⟨rfl, rfl, rfl, rfl⟩, rfl⟩ (ih _)

theorem setFn_spec (s : St) (f : Nat) : FrameD s (s.setFn f).1 ∧ (s.setFn f).2 = setFnOut s f := by
  unfold St.setFn setFnOut
  by_cases he : (s.resolve f).isEmpty
  · simp [he, FrameD.refl]
  · simp only [he]
    by_cases hp : s.status == .inProgress
    · simp only [hp, if_true]
      cases hm : (s.resolve f).mapM (fun p => (s.reg.relocate p.2 p.1).map (fun a => (a, p.1))) with
      | none => simp [FrameD.refl]
      | some as => simpa using go_spec as s
    · simp only [hp]
      exact ⟨foldl_addUninit_frameD _ s, by simp⟩

theorem setFnOut_congr {s t : St} (h : Frame s t) (f : Nat) : setFnOut t f = setFnOut s f := by
  have hr : t.resolve f = s.resolve f := by unfold St.resolve St.placesOf; rw [h.1, h.2.2.2]
  have : (fun (p : Nat × Nat) => t.mapped p.1) = (fun (p : Nat × Nat) => s.mapped p.1) := by funext p; exact h.mapped p.1
  unfold setFnOut
  rw [hr, h.1, h.2.1]
  simp only [this]

/-- one step of the loop of `refresh_deferred` -/
def dstep (s : St) (f : Nat) : St :=
  if (s.setFn f).2 == .active then (s.setFn f).1 else { (s.setFn f).1 with deferred := (s.setFn f).1.deferred ++ [f] }

theorem refreshDeferred_eq (s : St) : s.refreshDeferred = s.deferred.foldl dstep { s with deferred := [] } := rfl

theorem dstep_fold (s : St) : ∀ (ds : List Nat) (t : St), Frame s t →
    (ds.foldl dstep t).deferred = t.deferred ++ ds.filter (fun q => setFnOut s q != .active)
  | [], t, _ => by simp
  | d :: ds, t, ht => by
    rw [List.foldl_cons]
    have sp := setFn_spec t d
    have hout : (t.setFn d).2 = setFnOut s d := by rw [sp.2, setFnOut_congr ht]
    cases ho : (t.setFn d).2 == .active with
    | true =>
      have hd : dstep t d = (t.setFn d).1 := by unfold dstep; simp [ho]
      rw [hd, dstep_fold s ds _ (Frame.trans ht sp.1.1), sp.1.2]
      have : (setFnOut s d != .active) = false := by rw [← hout]; simp [bne, ho]
      simp [List.filter_cons, this]
    | false =>
      have hd : dstep t d = { (t.setFn d).1 with deferred := (t.setFn d).1.deferred ++ [d] } := by unfold dstep; simp [ho]
      have hf : Frame s { (t.setFn d).1 with deferred := (t.setFn d).1.deferred ++ [d] } :=
        Frame.trans ht ⟨sp.1.1.1, sp.1.1.2.1, sp.1.1.2.2.1, sp.1.1.2.2.2⟩
      rw [hd, dstep_fold s ds _ hf]
      have : (setFnOut s d != .active) = true := by rw [← hout]; simp [bne, ho]
      simp [List.filter_cons, this, sp.1.2]

/-- `refresh_deferred` of the session model keeps exactly the requests whose attempt does not succeed NOW, each judged
against the same registry / mapping state (earlier attempts of the same round do not influence later ones) -/
theorem refreshDeferred_deferred (s : St) :
    s.refreshDeferred.deferred = s.deferred.filter (fun q => setFnOut s q != .active) := by
  rw [refreshDeferred_eq, dstep_fold s s.deferred { s with deferred := [] } ⟨rfl, rfl, rfl, rfl⟩]
  simp

end BsVerif.RelocS
