import BsVerif.Lemmas.DqeNum
/-! The slice operator `[l..r]`: bounds, and why the index alternative fails on it. -/
namespace BsVerif.Dqe

theorem natText_head (n : Nat) : ∃ c cs, natText n = c :: cs ∧ isDigit c = true ∧ (c = '0' → cs = []) := by
  by_cases h0 : n = 0
  · subst h0; exact ⟨'0', [], natText_zero, by decide, fun _ => rfl⟩
  · obtain ⟨d, ds, hds, hd⟩ := toDigs_head 10 (by omega) n n (Nat.le_refl _) (by omega)
    have hlt := toDigs_lt 10 (by omega) n n d (by rw [hds]; simp)
    have hf := digitChar_facts d hlt
    refine ⟨digitChar d, ds.map digitChar, by simp [natText, hds], hf.1, ?_⟩
    intro hc
    have : (digitChar d == '0') = true := by simp [hc]
    rw [hf.2.2.1] at this
    simp at this; omega

/-- what follows a slice bound: `..` or `]` -/
def afterBound : Str → Bool
  | '.' :: '.' :: _ => true
  | ']' :: _ => true
  | _ => false

theorem afterBound_facts (s : Str) (h : afterBound s = true) :
    startsNonWs s = true ∧ stopsDigits s = true ∧ scanInt s = none := by
  unfold afterBound at h
  split at h
  · simp [startsNonWs, stopsDigits, scanInt]; decide
  · simp [startsNonWs, stopsDigits, scanInt]; decide
  · cases h

theorem mbUsize_bound (b : Option Nat) (hb : b.getD 0 < 2 ^ 64) (s : Str) (hs : afterBound s = true) :
    mbUsize (printBound b ++ s) = .ok b s := by
  obtain ⟨h1, h2, h3⟩ := afterBound_facts s hs
  cases b with
  | none => simp [printBound, mbUsize, skipWs_id s h1, h3]
  | some n =>
    obtain ⟨c, cs, hc, hd, _⟩ := natText_head n
    have hws : isWs c = false := identCont_notWs c (by simp [isIdentCont, hd])
    have hsk : skipWs (natText n ++ s) = natText n ++ s := by rw [hc]; exact skipWs_cons c _ hws
    simp only [Option.getD_some] at hb
    simp [printBound, mbUsize, hsk, scanInt_natText n s h2, parseDec_natText n hb, skipWs_id s h1]


theorem parseLit_dots (f : Nat) (more : Str) : parseLit (f + 1) ('.' :: '.' :: more) = .fail := by
  have hsk : skipWs ('.' :: '.' :: more) = '.' :: '.' :: more := skipWs_cons _ _ (by decide)
  have h1 : isIdentStart '.' = false := by decide
  have hdot : isDigit '.' = false := by decide
  have hs : scanInt ('.' :: '.' :: more) = none := by simp [scanInt, hdot]
  have hneg : (('.' :: '.' :: more).head? == some '-') = false := by simp
  simp [parseLit, floatTok, hneg, hs, symS, hsk, stripPrefix, hexTok, intTok, rustIdent, scanIdent, h1, strTok,
    sym_miss '{' '.' _ (by decide) (by decide)]

theorem parseLit_num_dots (f n : Nat) (hn : n < 2 ^ 64) (more : Str) :
    ∃ i, parseLit (f + 1) (natText n ++ '.' :: '.' :: more) = .ok (.int i) ('.' :: '.' :: more) := by
  obtain ⟨c, cs, hc, hd, hz⟩ := natText_head n
  have hws : isWs c = false := identCont_notWs c (by simp [isIdentCont, hd])
  have hstop : stopsDigits ('.' :: '.' :: more) = true := by simp [stopsDigits]; decide
  have hscan := scanInt_natText n ('.' :: '.' :: more) hstop
  have hdec := parseDec_natText n hn
  have hsk : skipWs (natText n ++ '.' :: '.' :: more) = natText n ++ '.' :: '.' :: more := by
    rw [hc]; exact skipWs_cons c _ hws
  have hminus : c ≠ '-' := ne_of_class isDigit c '-' hd (by decide)
  have ht : c ≠ 't' := ne_of_class isDigit c 't' hd (by decide)
  have hf : c ≠ 'f' := ne_of_class isDigit c 'f' hd (by decide)
  have hfloat : floatTok (natText n ++ '.' :: '.' :: more) = none := by
    have hneg : ((natText n ++ '.' :: '.' :: more).head? == some '-') = false := by rw [hc]; simp [hminus]
    have hdot : isDigit '.' = false := by decide
    have hs2 : scanInt ('.' :: more) = none := by simp [scanInt, hdot]
    simp only [floatTok, hneg, Bool.false_eq_true, ↓reduceIte, hscan, hs2]
  have htrue : symS ['t', 'r', 'u', 'e'] (natText n ++ '.' :: '.' :: more) = none := by
    rw [symS, hsk, hc]; simp [stripPrefix, Ne.symm ht]
  have hfalse : symS ['f', 'a', 'l', 's', 'e'] (natText n ++ '.' :: '.' :: more) = none := by
    rw [symS, hsk, hc]; simp [stripPrefix, Ne.symm hf]
  have hhex : hexTok (natText n ++ '.' :: '.' :: more) = .fail := by
    rw [hexTok, hsk, hc]
    by_cases h0 : c = '0'
    · subst h0; rw [hz rfl]; simp [stripPrefix]
    · simp [stripPrefix, Ne.symm h0]
  have hint : ∃ i, intTok (natText n ++ '.' :: '.' :: more) = .ok i ('.' :: '.' :: more) := by
    have hneg : ((natText n ++ '.' :: '.' :: more).head? == some '-') = false := by rw [hc]; simp [hminus]
    refine ⟨if n < 2 ^ 63 then (n : Int) else (n : Int) - 2 ^ 64, ?_⟩
    simp only [intTok, hneg, Bool.false_eq_true, ↓reduceIte, hscan, hdec]
  obtain ⟨i, hi⟩ := hint
  exact ⟨i, by simp [parseLit, hfloat, htrue, hfalse, hhex, hi]⟩


theorem printBound_startsNonWs (b : Option Nat) (s : Str) (hs : afterBound s = true) : startsNonWs (printBound b ++ s) = true := by
  cases b with
  | none => simpa [printBound] using (afterBound_facts s hs).1
  | some n =>
    obtain ⟨c, cs, hc, hd, _⟩ := natText_head n
    have hws : isWs c = false := identCont_notWs c (by simp [isIdentCont, hd])
    simp [printBound, hc, startsNonWs, hws]

theorem parsePost_slice (l r : Option Nat) (hl : l.getD 0 < 2 ^ 64) (hr : r.getD 0 < 2 ^ 64) (rest : Str)
    (hrest : followPost rest = true) :
    parsePost ('[' :: printBound l ++ '.' :: '.' :: printBound r ++ ']' :: rest) = .ok (.slice l r) rest := by
  have hab2 : afterBound (']' :: rest) = true := rfl
  have hab1 : afterBound ('.' :: '.' :: (printBound r ++ ']' :: rest)) = true := rfl
  have hnw0 := printBound_startsNonWs l _ hab1
  have hnw1 := printBound_startsNonWs r _ hab2
  have hrestnw := (followPost_facts rest hrest).1
  have hdotsnw : skipWs ('.' :: '.' :: (printBound r ++ ']' :: rest)) = '.' :: '.' :: (printBound r ++ ']' :: rest) :=
    skipWs_cons _ _ (by decide)
  have hfu : ∀ s : Str, litFuel s = (7 + 4 * s.length) + 1 := by intro s; simp [litFuel]; omega
  have hm1 := mbUsize_bound l hl _ hab1
  have hm2 := mbUsize_bound r hr _ hab2
  have hsyms : symS ['.', '.'] ('.' :: '.' :: (printBound r ++ ']' :: rest)) = some (printBound r ++ ']' :: rest) := by
    simp [symS, hdotsnw, stripPrefix, skipWs_id _ hnw1]
  simp only [List.cons_append, List.append_assoc] at *
  rw [parsePost]
  simp only [sym_miss '.' '[' _ (by decide) (by decide), sym_hit '[' _ (by decide : isWs '[' = false), skipWs_id _ hnw0,
    hm1, hsyms, hm2, sym_hit ']' _ (by decide : isWs ']' = false), skipWs_id _ hrestnw]
  rw [hfu]
  cases l with
  | none =>
    have hp : printBound none = ([] : Str) := rfl
    rw [hp]; simp only [List.nil_append, parseLit_dots]
  | some n =>
    have hp : printBound (some n) = natText n := rfl
    rw [hp]
    obtain ⟨i, hi⟩ := parseLit_num_dots (7 + 4 * (natText n ++ '.' :: '.' :: (printBound r ++ ']' :: rest)).length) n
      (by simpa using hl) (printBound r ++ ']' :: rest)
    rw [hi]
    simp only [hdotsnw, sym_miss ']' '.' _ (by decide) (by decide)]

end BsVerif.Dqe
