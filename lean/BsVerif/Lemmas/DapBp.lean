import BsVerif.Model.DapBp
/-! Helper lemmas about the registry folds of `Model/DapBp.lean`. -/
namespace BsVerif.DapBp

theorem mem_ins {α} [DecidableEq α] (x a : α) (l : List α) : x ∈ ins a l ↔ x = a ∨ x ∈ l := by
  unfold ins
  split
  · constructor
    · intro h; exact Or.inr h
    · rintro (rfl | h) <;> assumption
  · simp [List.mem_append]; constructor <;> (rintro (h | h) <;> simp [h])

theorem mem_del {α} [DecidableEq α] (x a : α) (l : List α) : x ∈ del a l ↔ x ∈ l ∧ x ≠ a := by
  unfold del; simp [List.mem_filter]

/-- folding `ins` over a list adds exactly its members -/
theorem mem_foldl_ins {α β} [DecidableEq α] (f : β → α) (xs : List β) (l : List α) (x : α) :
    x ∈ xs.foldl (fun acc b => ins (f b) acc) l ↔ x ∈ l ∨ ∃ b ∈ xs, x = f b := by
  induction xs generalizing l with
  | nil => simp
  | cons b bs ih =>
    simp only [List.foldl_cons, ih, mem_ins, List.mem_cons]
    constructor
    · rintro ((rfl | h) | ⟨c, hc, rfl⟩)
      · exact Or.inr ⟨b, Or.inl rfl, rfl⟩
      · exact Or.inl h
      · exact Or.inr ⟨c, Or.inr hc, rfl⟩
    · rintro (h | ⟨c, (rfl | hc), rfl⟩)
      · exact Or.inl (Or.inr h)
      · exact Or.inl (Or.inl rfl)
      · exact Or.inr ⟨c, hc, rfl⟩

/-! ### `removeByAddr` on a registry without templates (the state while the process runs) -/

theorem removeByAddr_dis_nil (r : Reg) (a : Addr) (h : r.dis = []) : (r.removeByAddr a).dis = [] := by
  unfold Reg.removeByAddr
  simp [h]
  cases a <;> simp [h]

theorem mem_removeByAddr_en (r : Reg) (a : Addr) (h : r.dis = []) (x : Nat) :
    x ∈ (r.removeByAddr a).en ↔ x ∈ r.en ∧ Addr.rel x ≠ a := by
  unfold Reg.removeByAddr
  simp [h]
  cases a with
  | glob y => simp
  | junk y => simp
  | rel y => simp [mem_del]

theorem removeAddrs_dis_nil (r : Reg) (as : List Addr) (h : r.dis = []) : (as.foldl Reg.removeByAddr r).dis = [] := by
  induction as generalizing r with
  | nil => simpa
  | cons a as ih => exact ih _ (removeByAddr_dis_nil r a h)

theorem mem_removeAddrs_en (r : Reg) (as : List Addr) (h : r.dis = []) (x : Nat) :
    x ∈ (as.foldl Reg.removeByAddr r).en ↔ x ∈ r.en ∧ Addr.rel x ∉ as := by
  induction as generalizing r with
  | nil => simp
  | cons a as ih =>
    simp only [List.foldl_cons, List.mem_cons, not_or]
    rw [ih _ (removeByAddr_dis_nil r a h), mem_removeByAddr_en r a h]
    constructor
    · rintro ⟨⟨h1, h2⟩, h3⟩; exact ⟨h1, h2, h3⟩
    · rintro ⟨h1, h2, h3⟩; exact ⟨⟨h1, h2⟩, h3⟩

theorem removeRecs_dis_nil (r : Reg) (recs : List Rec) (h : r.dis = []) : (removeRecs r recs).dis = [] := by
  unfold removeRecs
  induction recs generalizing r with
  | nil => simpa
  | cons rc rest ih => exact ih _ (removeAddrs_dis_nil r rc.addrs h)

/-- while the process runs, removing previous records removes exactly their relocated addresses -/
theorem mem_removeRecs_en (r : Reg) (recs : List Rec) (h : r.dis = []) (x : Nat) :
    x ∈ (removeRecs r recs).en ↔ x ∈ r.en ∧ ∀ rc ∈ recs, Addr.rel x ∉ rc.addrs := by
  unfold removeRecs
  induction recs generalizing r with
  | nil => simp
  | cons rc rest ih =>
    simp only [List.foldl_cons, List.mem_cons, forall_eq_or_imp]
    rw [ih _ (removeAddrs_dis_nil r rc.addrs h), mem_removeAddrs_en r rc.addrs h]
    constructor
    · rintro ⟨⟨h1, h2⟩, h3⟩; exact ⟨h1, h2, h3⟩
    · rintro ⟨h1, h2, h3⟩; exact ⟨⟨h1, h2⟩, h3⟩

end BsVerif.DapBp
