import BsVerif.Model.Breakpoint
/-!
Helper lemmas for C01/C02 about `Model/Breakpoint.lean`.

1. `firstFrom` (specification lemmas: it *is* the first position),
2. the registry as an association list (`find?`, `erase`, `put`),
3. the live invariant `Inv` and its preservation by `bpEnable/bpDisable/addAndEnable/removeByAddr/enableAll/
   enableEntry/stepOverBreakpoint/run`,
4. `traceLoop` (fuel suffices, lands on the first later position whose address is a user breakpoint),
5. per-command characterisations on the three kinds of prompt states (`Fresh`, `Live`, `Gone`).
-/
namespace BsVerif.Bp
open BsVerif.Mem

/-! ### 1. `firstFrom` -/

theorem firstFrom_unfold (p) (τ : List Addr) (i) :
    firstFrom p τ i = if h : i < τ.length then (if p τ[i] then i else firstFrom p τ (i+1)) else τ.length := by
  rw [firstFrom]

theorem firstFrom_ge (p) (τ : List Addr) (i) (hi : i ≤ τ.length) : i ≤ firstFrom p τ i := by
  fun_induction firstFrom p τ i <;> omega

theorem firstFrom_le (p) (τ : List Addr) (i) : firstFrom p τ i ≤ τ.length := by
  fun_induction firstFrom p τ i <;> omega

theorem firstFrom_of_ge (p) (τ : List Addr) (i) (hi : τ.length ≤ i) : firstFrom p τ i = τ.length := by
  rw [firstFrom_unfold]; simp [Nat.not_lt.mpr hi]

theorem firstFrom_hit (p) (τ : List Addr) (i) (h : firstFrom p τ i < τ.length) :
    p (τ[firstFrom p τ i]'h) = true := by
  fun_induction firstFrom p τ i with
  | case1 i hlt hp => exact hp
  | case2 i hlt hp ih => exact ih h
  | case3 i hge => omega

theorem firstFrom_min (p) (τ : List Addr) (i j) (hij : i ≤ j) (hj : j < firstFrom p τ i)
    (hjl : j < τ.length) : p τ[j] = false := by
  fun_induction firstFrom p τ i with
  | case1 i hlt hp => omega
  | case2 i hlt hp ih =>
    by_cases hji : j = i
    · subst hji; simpa using hp
    · exact ih (by omega) hj
  | case3 i hge => omega

/-- skipping a position that does not satisfy `p` -/
theorem firstFrom_skip (p) (τ : List Addr) (i) (h : i < τ.length) (hp : p τ[i] = false) :
    firstFrom p τ i = firstFrom p τ (i+1) := by
  rw [firstFrom_unfold]; simp [h, hp]

theorem firstFrom_here (p) (τ : List Addr) (i) (h : i < τ.length) (hp : p τ[i] = true) :
    firstFrom p τ i = i := by
  rw [firstFrom_unfold]; simp [h, hp]

/-- only the values of the predicate on the trace matter -/
theorem firstFrom_congr (p q) (τ : List Addr) (i) (h : ∀ a ∈ τ, p a = q a) :
    firstFrom p τ i = firstFrom q τ i := by
  fun_induction firstFrom p τ i with
  | case1 i hlt hp =>
    have : q τ[i] = true := by rw [← h _ (List.getElem_mem hlt)]; exact hp
    rw [firstFrom_here q τ i hlt this]
  | case2 i hlt hp ih =>
    have : q τ[i] = false := by rw [← h _ (List.getElem_mem hlt)]; simpa using hp
    rw [firstFrom_skip q τ i hlt this]; exact ih
  | case3 i hge => rw [firstFrom_of_ge q τ i (by omega)]

/-- skipping a whole stretch without hits: if nothing in `[i, k)` satisfies `p`, start at `k` -/
theorem firstFrom_jump (p) (τ : List Addr) (i k) (hik : i ≤ k) (hk : k ≤ τ.length)
    (h : ∀ j, i ≤ j → j < k → (hj : j < τ.length) → p τ[j] = false) :
    firstFrom p τ i = firstFrom p τ k := by
  induction hd : k - i generalizing i with
  | zero => have : i = k := by omega
            subst this; rfl
  | succ d ih =>
    have hlt : i < τ.length := by omega
    rw [firstFrom_skip p τ i hlt (h i (Nat.le_refl _) (by omega) hlt)]
    exact ih (i+1) (by omega) (fun j h1 h2 hj => h j (by omega) h2 hj) (by omega)

/-- the hits of a trace suffix, as a list: head = the first hit, tail = the hits after it -/
theorem filter_drop_firstFrom (p) (τ : List Addr) (i) :
    (τ.drop i).filter p =
      if h : firstFrom p τ i < τ.length then τ[firstFrom p τ i] :: (τ.drop (firstFrom p τ i + 1)).filter p
      else [] := by
  fun_induction firstFrom p τ i with
  | case1 i hlt hp =>
    rw [dif_pos hlt, List.drop_eq_getElem_cons hlt, List.filter_cons_of_pos hp]
  | case2 i hlt hp ih =>
    rw [List.drop_eq_getElem_cons hlt, List.filter_cons_of_neg (by simpa using hp)]
    exact ih
  | case3 i hge =>
    simp [List.drop_eq_nil_of_le (Nat.not_lt.mp hge)]

/-! ### 2. the registry as an association list -/

/-- some registered breakpoint at `a` is enabled -/
abbrev enabledAt (l : List Bp) (a : Addr) : Bool := l.any (fun b => b.addr == a && b.enabled)

theorem find?_some {l : List Bp} {a b} (h : find? l a = some b) : b ∈ l ∧ b.addr = a := by
  unfold find? at h
  exact ⟨List.mem_of_find?_eq_some h, by simpa using List.find?_some h⟩

theorem find?_none {l : List Bp} {a} (h : find? l a = none) : ∀ b ∈ l, b.addr ≠ a := by
  unfold find? at h
  simpa using h

theorem find?_cons (b : Bp) (l : List Bp) (a : Addr) :
    find? (b :: l) a = if b.addr = a then some b else find? l a := by
  unfold find?; rw [List.find?_cons]; split <;> simp_all

theorem erase_cons (b : Bp) (l : List Bp) (x : Addr) :
    erase (b :: l) x = if b.addr = x then erase l x else b :: erase l x := by
  unfold erase; rw [List.filter_cons]; by_cases h : b.addr = x <;> simp [h]

theorem enabledAt_cons (b : Bp) (l : List Bp) (a : Addr) :
    enabledAt (b :: l) a = ((b.addr == a && b.enabled) || enabledAt l a) := by
  simp [enabledAt]

theorem find?_erase (l : List Bp) (x a : Addr) :
    find? (erase l x) a = if a = x then none else find? l a := by
  induction l with
  | nil => simp [find?, erase]
  | cons b l ih =>
    rw [erase_cons, find?_cons]
    by_cases hb : b.addr = x <;> by_cases ha : a = x <;> by_cases hab : b.addr = a <;>
      simp_all [find?_cons] <;> omega

theorem find?_append_single (l : List Bp) (b : Bp) (a : Addr) :
    find? (l ++ [b]) a = match find? l a with
      | some x => some x
      | none => if b.addr = a then some b else none := by
  unfold find?
  rw [List.find?_append]
  cases h : List.find? (fun x => x.addr == a) l <;> by_cases hab : b.addr = a <;> simp [hab]

theorem find?_put (l : List Bp) (b : Bp) (a : Addr) :
    find? (put l b) a = if a = b.addr then some b else find? l a := by
  unfold put
  rw [find?_append_single, find?_erase]
  by_cases ha : a = b.addr
  · subst ha; simp
  · have : ¬ b.addr = a := fun h => ha h.symm
    simp [ha, this]; cases find? l a <;> rfl

theorem mem_erase {l : List Bp} {x : Addr} {b : Bp} : b ∈ erase l x ↔ b ∈ l ∧ b.addr ≠ x := by
  unfold erase; simp

theorem mem_put {l : List Bp} {nb b : Bp} : b ∈ put l nb ↔ (b ∈ l ∧ b.addr ≠ nb.addr) ∨ b = nb := by
  unfold put; simp [mem_erase]

theorem enabledAt_erase (l : List Bp) (x a : Addr) :
    enabledAt (erase l x) a = if a = x then false else enabledAt l a := by
  induction l with
  | nil => simp [enabledAt, erase]
  | cons b l ih =>
    rw [erase_cons, enabledAt_cons]
    by_cases hb : b.addr = x <;> by_cases ha : a = x <;> by_cases hab : b.addr = a <;>
      simp_all <;> omega

theorem enabledAt_put (l : List Bp) (b : Bp) (a : Addr) :
    enabledAt (put l b) a = if a = b.addr then b.enabled else enabledAt l a := by
  unfold put
  show List.any (erase l b.addr ++ [b]) _ = _
  rw [List.any_append]
  have := enabledAt_erase l b.addr a
  unfold enabledAt at this
  rw [this]
  by_cases ha : a = b.addr
  · subst ha; simp
  · have : ¬ b.addr = a := fun h => ha h.symm
    simp [ha, this]

theorem nodup_erase {l : List Bp} (x : Addr) (h : (l.map (·.addr)).Nodup) : ((erase l x).map (·.addr)).Nodup := by
  unfold erase
  exact (List.Nodup.sublist ((List.filter_sublist).map _) h)

theorem nodup_put {l : List Bp} (b : Bp) (h : (l.map (·.addr)).Nodup) : ((put l b).map (·.addr)).Nodup := by
  unfold put
  rw [List.map_append, List.nodup_append]
  refine ⟨nodup_erase _ h, by simp, ?_⟩
  intro a ha c hc
  simp only [List.map_cons, List.map_nil, List.mem_singleton] at hc
  subst hc
  obtain ⟨x, hx, rfl⟩ := List.mem_map.mp ha
  exact (mem_erase.mp hx).2

theorem find?_of_mem {l : List Bp} {b : Bp} (h : (l.map (·.addr)).Nodup) (hb : b ∈ l) :
    find? l b.addr = some b := by
  unfold find?
  induction l with
  | nil => cases hb
  | cons x l ih =>
    simp only [List.map_cons, List.nodup_cons] at h
    rcases List.mem_cons.mp hb with rfl | hb'
    · simp
    · have : x.addr ≠ b.addr := by
        intro e; exact h.1 (e ▸ List.mem_map.mpr ⟨b, hb', rfl⟩)
      simp [List.find?_cons, this]; exact ih h.2 hb'

theorem enabledAt_of_allEnabled {l : List Bp} (h : ∀ b ∈ l, b.enabled = true) (a : Addr) :
    enabledAt l a = (find? l a).isSome := by
  unfold enabledAt find?
  induction l with
  | nil => simp
  | cons b l ih =>
    have hb := h b (List.mem_cons_self)
    have ih' := ih (fun x hx => h x (List.mem_cons_of_mem _ hx))
    by_cases e : b.addr = a
    · simp [List.find?_cons, e, hb]
    · simp [List.find?_cons, e, ih']

theorem enabledAt_of_find?_none {l : List Bp} {a} (h : find? l a = none) : enabledAt l a = false := by
  have := find?_none h
  simp only [enabledAt, List.any_eq_false]
  intro b hb; simp [this b hb]

theorem set_set (c : Code) (a : Addr) (x y : Nat) : (c.set a x).set a y = c.set a y := by
  funext z; unfold Code.set; split <;> rfl

theorem set_apply (c : Code) (a : Addr) (x : Nat) (z : Addr) : (c.set a x) z = if z = a then x else c z := rfl

/-! ### 3. the live invariant -/

/-- what holds of every state in which the debuggee process exists -/
structure Inv (orig : Code) (s : St) : Prop where
  text : ∀ a, s.code a = if enabledAt s.active a then INT3 else orig a
  saved : ∀ b ∈ s.active, b.saved = orig b.addr
  nodup : (s.active.map (·.addr)).Nodup
  allEn : ∀ b ∈ s.active, b.enabled = true
  idxLe : s.idx ≤ s.τ.length

theorem Inv.bytes {orig s} (h : Inv orig s) (ho : Bytes orig) : Bytes s.code := by
  intro a; rw [h.text a]; split
  · decide
  · exact ho a

/-- everything but text, registry and poke log is unchanged -/
structure Frame (s s' : St) : Prop where
  τ : s'.τ = s.τ
  idx : s'.idx = s.idx
  status : s'.status = s.status
  uninit : s'.uninit = s.uninit
  exitCode : s'.exitCode = s.exitCode

theorem Frame.refl (s : St) : Frame s s := ⟨rfl, rfl, rfl, rfl, rfl⟩
theorem Frame.trans {a b c : St} (h1 : Frame a b) (h2 : Frame b c) : Frame a c :=
  ⟨h2.τ.trans h1.τ, h2.idx.trans h1.idx, h2.status.trans h1.status, h2.uninit.trans h1.uninit,
   h2.exitCode.trans h1.exitCode⟩

theorem bpEnable_code (s : St) (b : Bp) (hb : Bytes s.code) :
    (bpEnable s b).1.code = s.code.set b.addr INT3 := poke_patch _ _ _ (by decide) hb

theorem bpEnable_bp (s : St) (b : Bp) (hb : Bytes s.code) :
    (bpEnable s b).2 = { b with saved := s.code b.addr, enabled := true } := by
  simp [bpEnable, peek_low _ _ hb]

theorem bpDisable_code (s : St) (b : Bp) (hb : Bytes s.code) (hs : b.saved < 256) :
    (bpDisable s b).1.code = s.code.set b.addr b.saved := poke_patch _ _ _ hs hb

theorem addAndEnable_frame (s : St) (nb : Bp) : Frame s (addAndEnable s nb) := by
  unfold addAndEnable
  cases find? s.active nb.addr <;> exact ⟨rfl, rfl, rfl, rfl, rfl⟩

theorem addAndEnable_code {orig s} (h : Inv orig s) (ho : Bytes orig) (nb : Bp) :
    (addAndEnable s nb).code = s.code.set nb.addr INT3 := by
  have hb := h.bytes ho
  unfold addAndEnable
  cases hf : find? s.active nb.addr with
  | none => exact bpEnable_code s nb hb
  | some ex =>
    have hex := find?_some hf
    have hsv : ex.saved = orig nb.addr := by rw [h.saved ex hex.1, hex.2]
    have hc1 : (bpDisable s ex).1.code = s.code.set nb.addr (orig nb.addr) := by
      rw [bpDisable_code s ex hb (by rw [hsv]; exact ho _), hex.2, hsv]
    show (bpEnable (bpDisable s ex).1 nb).1.code = _
    rw [bpEnable_code _ _ (by rw [hc1]; exact set_bytes _ _ _ (ho _) hb), hc1, set_set]

theorem addAndEnable_active {orig s} (h : Inv orig s) (ho : Bytes orig) (nb : Bp) :
    (addAndEnable s nb).active = put s.active { nb with saved := orig nb.addr, enabled := true } := by
  have hb := h.bytes ho
  unfold addAndEnable
  cases hf : find? s.active nb.addr with
  | none =>
    show put s.active (bpEnable s nb).2 = _
    rw [bpEnable_bp s nb hb, h.text, enabledAt_of_find?_none hf]; rfl
  | some ex =>
    have hex := find?_some hf
    have hsv : ex.saved = orig nb.addr := by rw [h.saved ex hex.1, hex.2]
    have hc1 : (bpDisable s ex).1.code = s.code.set nb.addr (orig nb.addr) := by
      rw [bpDisable_code s ex hb (by rw [hsv]; exact ho _), hex.2, hsv]
    show put s.active (bpEnable (bpDisable s ex).1 nb).2 = _
    rw [bpEnable_bp _ _ (by rw [hc1]; exact set_bytes _ _ _ (ho _) hb), hc1]
    simp [set_apply]

theorem addAndEnable_inv {orig s} (h : Inv orig s) (ho : Bytes orig) (nb : Bp) :
    Inv orig (addAndEnable s nb) := by
  have hf := addAndEnable_frame s nb
  refine ⟨?_, ?_, ?_, ?_, ?_⟩
  · intro a
    rw [addAndEnable_code h ho, addAndEnable_active h ho, enabledAt_put, set_apply, h.text a]
    by_cases ha : a = nb.addr <;> simp [ha]
  · intro b hb
    rw [addAndEnable_active h ho] at hb
    rcases mem_put.mp hb with ⟨hb, _⟩ | rfl
    · exact h.saved b hb
    · rfl
  · rw [addAndEnable_active h ho]; exact nodup_put _ h.nodup
  · intro b hb
    rw [addAndEnable_active h ho] at hb
    rcases mem_put.mp hb with ⟨hb, _⟩ | rfl
    · exact h.allEn b hb
    · rfl
  · rw [hf.idx, hf.τ]; exact h.idxLe

theorem addAndEnable_find? {orig s} (h : Inv orig s) (ho : Bytes orig) (nb : Bp) (a : Addr) :
    find? (addAndEnable s nb).active a =
      if a = nb.addr then some { nb with saved := orig nb.addr, enabled := true } else find? s.active a := by
  rw [addAndEnable_active h ho, find?_put]


theorem Inv.congr {orig s s'} (h : Inv orig s) (hc : s'.code = s.code) (ha : s'.active = s.active)
    (hi : s'.idx = s.idx) (hτ : s'.τ = s.τ) : Inv orig s' := by
  refine ⟨?_, ?_, ?_, ?_, ?_⟩
  · rw [hc, ha]; exact h.text
  · rw [ha]; exact h.saved
  · rw [ha]; exact h.nodup
  · rw [ha]; exact h.allEn
  · rw [hi, hτ]; exact h.idxLe

/-- the registry lookup, reduced to what the proofs need: the kind registered at an address -/
abbrev kindAt (l : List Bp) (a : Addr) : Option Kind := (find? l a).map (·.kind)

theorem Inv.text' {orig s} (h : Inv orig s) (a : Addr) :
    s.code a = if (find? s.active a).isSome then INT3 else orig a := by
  rw [h.text a, enabledAt_of_allEnabled h.allEn]

/-- a key of the uninit list -/
abbrev hasKey (u : List (UKey × Kind)) (k : UKey) : Bool := u.any (·.1 == k)

/-! #### `remove_by_addr` -/

theorem removeByAddr_uninit (s : St) (k : UKey) (h : hasKey s.uninit k = true) :
    removeByAddr s k = ({ s with uninit := s.uninit.filter (·.1 != k) }, true) := by
  unfold removeByAddr; rw [if_pos h]

theorem removeByAddr_none (s : St) (a : Addr) (h : hasKey s.uninit ⟨false, a⟩ = false)
    (hf : find? s.active a = none) : removeByAddr s ⟨false, a⟩ = (s, false) := by
  unfold removeByAddr; rw [if_neg (by simp [h])]; simp [hf]

theorem removeByAddr_some {orig s} (hinv : Inv orig s) (ho : Bytes orig) (a : Addr) (b : Bp)
    (h : hasKey s.uninit ⟨false, a⟩ = false) (hf : find? s.active a = some b) :
    (removeByAddr s ⟨false, a⟩).2 = true ∧ Frame s (removeByAddr s ⟨false, a⟩).1 ∧
    Inv orig (removeByAddr s ⟨false, a⟩).1 ∧
    (∀ x, find? (removeByAddr s ⟨false, a⟩).1.active x = if x = a then none else find? s.active x) ∧
    (removeByAddr s ⟨false, a⟩).1.code = s.code.set a (orig a) := by
  have hb := find?_some hf
  have hen := hinv.allEn b hb.1
  have hsv : b.saved = orig a := by rw [hinv.saved b hb.1, hb.2]
  have hcode : (bpDisable s b).1.code = s.code.set a (orig a) := by
    rw [bpDisable_code s b (hinv.bytes ho) (by rw [hsv]; exact ho _), hb.2, hsv]
  have e : removeByAddr s ⟨false, a⟩
      = ({ (bpDisable s b).1 with active := erase s.active a }, true) := by
    unfold removeByAddr; rw [if_neg (by simp [h])]; simp [hf, hen]; rfl
  rw [e]
  refine ⟨rfl, ⟨rfl, rfl, rfl, rfl, rfl⟩, ⟨?_, ?_, ?_, ?_, ?_⟩, ?_, hcode⟩
  · intro x
    show (bpDisable s b).1.code x = if enabledAt (erase s.active a) x then INT3 else orig x
    rw [hcode, set_apply, enabledAt_erase, hinv.text x]
    by_cases hx : x = a <;> simp [hx]
  · intro c hc; exact hinv.saved c (mem_erase.mp hc).1
  · exact nodup_erase _ hinv.nodup
  · intro c hc; exact hinv.allEn c (mem_erase.mp hc).1
  · exact hinv.idxLe
  · intro x; exact find?_erase _ _ _

/-! #### `enable_all_breakpoints`, `enable_entry_breakpoint` -/

theorem foldl_addAndEnable {orig} (ho : Bytes orig) (us : List (UKey × Kind)) : ∀ s, Inv orig s →
    Inv orig (us.foldl (fun acc u => addAndEnable acc { addr := u.1.addr, kind := u.2 }) s) ∧
    Frame s (us.foldl (fun acc u => addAndEnable acc { addr := u.1.addr, kind := u.2 }) s) ∧
    ∀ a, kindAt (us.foldl (fun acc u => addAndEnable acc { addr := u.1.addr, kind := u.2 }) s).active a
      = us.foldl (fun k u => if u.1.addr = a then some u.2 else k) (kindAt s.active a) := by
  induction us with
  | nil => intro s h; exact ⟨h, Frame.refl s, fun _ => rfl⟩
  | cons u us ih =>
    intro s h
    have h1 := addAndEnable_inv h ho { addr := u.1.addr, kind := u.2 }
    obtain ⟨i1, i2, i3⟩ := ih _ h1
    refine ⟨i1, (addAndEnable_frame s _).trans i2, ?_⟩
    intro a
    rw [List.foldl_cons, List.foldl_cons, i3 a]
    congr 1
    unfold kindAt
    rw [addAndEnable_find? h ho]
    by_cases ha : a = u.1.addr
    · simp [ha]
    · have : ¬ u.1.addr = a := fun e => ha e.symm
      simp [ha, this]

theorem foldl_lastKind_const (k : Kind) (us : List (UKey × Kind)) (hk : ∀ u ∈ us, u.2 = k) (a : Addr) :
    ∀ init, us.foldl (fun acc u => if u.1.addr = a then some u.2 else acc) init
      = if us.any (·.1.addr == a) then some k else init := by
  induction us with
  | nil => intro init; simp
  | cons u us ih =>
    intro init
    rw [List.foldl_cons, ih (fun v hv => hk v (List.mem_cons_of_mem _ hv))]
    have := hk u List.mem_cons_self
    rw [List.any_cons]
    by_cases hu : u.1.addr = a
    · simp [hu, this]
    · have hf : (u.1.addr == a) = false := by simpa using hu
      rw [if_neg hu, hf, Bool.false_or]

theorem enableAll_spec {orig s} (h : Inv orig s) (ho : Bytes orig) :
    Inv orig (enableAll s) ∧ (enableAll s).τ = s.τ ∧ (enableAll s).idx = s.idx ∧
    (enableAll s).status = s.status ∧ (enableAll s).uninit = [] ∧ (enableAll s).exitCode = s.exitCode ∧
    ∀ a, kindAt (enableAll s).active a
      = s.uninit.foldl (fun k u => if u.1.addr = a then some u.2 else k) (kindAt s.active a) := by
  have h0 : Inv orig { s with uninit := [] } := h.congr rfl rfl rfl rfl
  obtain ⟨i1, i2, i3⟩ := foldl_addAndEnable ho s.uninit _ h0
  exact ⟨i1, i2.τ, i2.idx, i2.status, i2.uninit, i2.exitCode, i3⟩

theorem enableAll_nil {s : St} (h : s.uninit = []) : enableAll s = s := by
  unfold enableAll; rw [h]; simp
  cases s; simp_all

/-! #### single step and `step_over_breakpoint` -/

theorem singleStep_spec (s : St) (p : Addr) (hp : pc s = some p) :
    singleStep s = if s.code p == INT3 then s
      else { s with idx := s.idx + 1, execd := s.execd ++ [(s.idx, s.code p)] } := by
  unfold singleStep; rw [hp]

theorem stepOver_noop_pc (s : St) (h : pc s = none) : stepOverBreakpoint s = s := by
  unfold stepOverBreakpoint; rw [h]

theorem stepOver_noop_find (s : St) (p : Addr) (hp : pc s = some p) (h : find? s.active p = none) :
    stepOverBreakpoint s = s := by
  unfold stepOverBreakpoint; rw [hp]; simp [h]

/-- `step_over_breakpoint` at a registered (hence enabled) breakpoint: the text is the same before and after, the
registry answers the same lookups, and exactly the instruction at pc is executed, on its original byte (unless the
original byte itself is an INT3, in which case nothing is executed) -/
theorem stepOver_at {orig s} (hinv : Inv orig s) (ho : Bytes orig) (p : Addr) (b : Bp)
    (hp : pc s = some p) (hf : find? s.active p = some b) :
    Inv orig (stepOverBreakpoint s) ∧
    (stepOverBreakpoint s).code = s.code ∧
    (∀ x, find? (stepOverBreakpoint s).active x = find? s.active x) ∧
    (stepOverBreakpoint s).idx = (if orig p = INT3 then s.idx else s.idx + 1) ∧
    (stepOverBreakpoint s).τ = s.τ ∧ (stepOverBreakpoint s).status = s.status ∧
    (stepOverBreakpoint s).uninit = s.uninit ∧ (stepOverBreakpoint s).exitCode = s.exitCode := by
  have hb := find?_some hf
  have hen := hinv.allEn b hb.1
  have hsv : b.saved = orig p := by rw [hinv.saved b hb.1, hb.2]
  have hbytes := hinv.bytes ho
  have hcp : s.code p = INT3 := by rw [hinv.text' p, hf]; rfl
  have hc1 : (bpDisable s b).1.code = s.code.set p (orig p) := by
    rw [bpDisable_code s b hbytes (by rw [hsv]; exact ho _), hb.2, hsv]
  have hb1bytes : Bytes (bpDisable s b).1.code := by rw [hc1]; exact set_bytes _ _ _ (ho _) hbytes
  -- the state in which the single step happens
  let s1' : St := { (bpDisable s b).1 with active := put s.active (bpDisable s b).2 }
  have hpc1 : pc s1' = some p := hp
  have hc1p : s1'.code p = orig p := by show (bpDisable s b).1.code p = _; rw [hc1, set_apply]; simp
  let s2 := singleStep s1'
  have hs2 : s2 = if orig p == INT3 then s1'
      else { s1' with idx := s1'.idx + 1, execd := s1'.execd ++ [(s1'.idx, orig p)] } := by
    show singleStep s1' = _; rw [singleStep_spec s1' p hpc1, hc1p]
  have hs2code : s2.code = s.code.set p (orig p) := by
    rw [hs2]; split <;> exact hc1
  have hs2act : s2.active = put s.active (bpDisable s b).2 := by rw [hs2]; split <;> rfl
  have hs2idx : s2.idx = if orig p = INT3 then s.idx else s.idx + 1 := by
    rw [hs2]; by_cases e : orig p = INT3 <;> simp [e] <;> rfl
  have hs2rest : s2.τ = s.τ ∧ s2.status = s.status ∧ s2.uninit = s.uninit ∧ s2.exitCode = s.exitCode := by
    rw [hs2]; split <;> exact ⟨rfl, rfl, rfl, rfl⟩
  have hb1 : (bpDisable s b).2 = { b with enabled := false } := rfl
  have hb3 : (bpEnable s2 (bpDisable s b).2).2 = b := by
    rw [bpEnable_bp _ _ (by rw [hs2code]; exact set_bytes _ _ _ (ho _) hbytes), hs2code, hb1]
    cases b; simp_all [set_apply]
  have e : stepOverBreakpoint s
      = { (bpEnable s2 (bpDisable s b).2).1 with active := put s2.active (bpEnable s2 (bpDisable s b).2).2 } := by
    unfold stepOverBreakpoint; rw [hp]; simp only [hf, hen, if_true]; rfl
  have hcode : (stepOverBreakpoint s).code = s.code := by
    rw [e]
    show (bpEnable s2 (bpDisable s b).2).1.code = _
    have hbaddr : (bpDisable s b).2.addr = p := hb.2
    rw [bpEnable_code _ _ (by rw [hs2code]; exact set_bytes _ _ _ (ho _) hbytes), hs2code, hbaddr, set_set]
    funext x; rw [set_apply]; split
    · next hx => rw [hx, hcp]
    · rfl
  have hact : (stepOverBreakpoint s).active = put (put s.active { b with enabled := false }) b := by
    rw [e]; show put s2.active _ = _; rw [hb3, hs2act, hb1]
  have hfind : ∀ x, find? (stepOverBreakpoint s).active x = find? s.active x := by
    intro x; rw [hact, find?_put, find?_put]
    by_cases hx : x = b.addr
    · simp [hx, hb.2, hf]
    · simp [hx]
  have hidx : (stepOverBreakpoint s).idx = if orig p = INT3 then s.idx else s.idx + 1 := by
    rw [e]; exact hs2idx
  have hτ : (stepOverBreakpoint s).τ = s.τ := by rw [e]; exact hs2rest.1
  refine ⟨⟨?_, ?_, ?_, ?_, ?_⟩, hcode, hfind, hidx, hτ, ?_, ?_, ?_⟩
  · intro x
    rw [hcode, hact, enabledAt_put, enabledAt_put, hinv.text x]
    by_cases hx : x = b.addr
    · have : enabledAt s.active b.addr = true := by
        rw [enabledAt_of_allEnabled hinv.allEn, hb.2, hf]; rfl
      simp [hx, hen, this]
    · simp [hx]
  · intro c hc; rw [hact] at hc
    rcases mem_put.mp hc with ⟨hc, _⟩ | rfl
    · rcases mem_put.mp hc with ⟨hc, _⟩ | rfl
      · exact hinv.saved c hc
      · exact hinv.saved b hb.1
    · exact hinv.saved c hb.1
  · rw [hact]; exact nodup_put _ (nodup_put _ hinv.nodup)
  · intro c hc; rw [hact] at hc
    rcases mem_put.mp hc with ⟨hc, hne⟩ | rfl
    · rcases mem_put.mp hc with ⟨hc, _⟩ | rfl
      · exact hinv.allEn c hc
      · exact absurd rfl hne
    · exact hen
  · rw [hidx, hτ]
    have : s.idx < s.τ.length := by
      unfold pc at hp
      exact (List.getElem?_eq_some_iff.mp hp).1
    split <;> omega
  · rw [e]; exact hs2rest.2.1
  · rw [e]; exact hs2rest.2.2.1
  · rw [e]; exact hs2rest.2.2.2


/-! ### 4. `run`, `onExit`, `traceLoop` -/

theorem pc_some {s : St} {p} (h : pc s = some p) : ∃ hlt : s.idx < s.τ.length, s.τ[s.idx] = p := by
  unfold pc at h; exact List.getElem?_eq_some_iff.mp h

theorem pc_none {s : St} (h : pc s = none) : s.τ.length ≤ s.idx := by
  unfold pc at h; exact List.getElem?_eq_none_iff.mp h

theorem run_inv {orig s} (h : Inv orig s) : Inv orig (run s) :=
  ⟨h.text, h.saved, h.nodup, h.allEn, firstFrom_le _ _ _⟩

theorem run_idx_ge {orig s} (h : Inv orig s) : s.idx ≤ (run s).idx := firstFrom_ge _ _ _ h.idxLe

theorem stepOver_gen {orig s} (h : Inv orig s) (ho : Bytes orig) :
    Inv orig (stepOverBreakpoint s) ∧ (stepOverBreakpoint s).τ = s.τ ∧
    (stepOverBreakpoint s).status = s.status ∧ (stepOverBreakpoint s).exitCode = s.exitCode ∧
    (stepOverBreakpoint s).uninit = s.uninit ∧
    s.idx ≤ (stepOverBreakpoint s).idx := by
  cases hp : pc s with
  | none => rw [stepOver_noop_pc s hp]; exact ⟨h, rfl, rfl, rfl, rfl, Nat.le_refl _⟩
  | some p =>
    cases hf : find? s.active p with
    | none => rw [stepOver_noop_find s p hp hf]; exact ⟨h, rfl, rfl, rfl, rfl, Nat.le_refl _⟩
    | some b =>
      obtain ⟨i1, _, _, i4, i5, i6, i7, i8⟩ := stepOver_at h ho p b hp hf
      refine ⟨i1, i5, i6, i8, i7, ?_⟩
      rw [i4]; split <;> omega

theorem hasKey_filter_append (u : List (UKey × Kind)) (x : UKey × Kind) (k : UKey) :
    hasKey (u.filter (·.1 != x.1) ++ [x]) k = (hasKey u k || x.1 == k) := by
  unfold hasKey
  rw [List.any_append, List.any_filter]
  by_cases hx : x.1 = k
  · subst hx; simp
  · have : (x.1 == k) = false := by simpa using hx
    simp only [List.any_cons, List.any_nil, Bool.or_false, this]
    congr 1; funext y
    by_cases hy : y.1 = k
    · subst hy; have : (y.1 != x.1) = true := by simpa using fun e => hx e.symm
      simp [this]
    · have : (y.1 == k) = false := by simpa using hy
      simp [this]

theorem hasKey_onExit_fold (back : List (UKey × Kind)) (k : UKey) (hb : ∀ x ∈ back, x.1 ≠ k) :
    ∀ init, hasKey (back.foldl (fun u x => u.filter (·.1 != x.1) ++ [x]) init) k = hasKey init k := by
  induction back with
  | nil => intro init; rfl
  | cons x back ih =>
    intro init
    rw [List.foldl_cons, ih (fun y hy => hb y (List.mem_cons_of_mem _ hy)), hasKey_filter_append]
    have : (x.1 == k) = false := by simpa using hb x List.mem_cons_self
    rw [this, Bool.or_false]

theorem onExit_spec (s : St) :
    (onExit s).active = [] ∧ (onExit s).status = .exited ∧ (onExit s).τ = s.τ ∧ (onExit s).idx = s.idx ∧
    (onExit s).exitCode = s.exitCode ∧
    ∀ k : UKey, k.global = false → hasKey (onExit s).uninit k = hasKey s.uninit k := by
  refine ⟨rfl, rfl, rfl, rfl, rfl, ?_⟩
  intro k hk
  unfold onExit
  apply hasKey_onExit_fold
  intro x hx e
  obtain ⟨b, _, hb⟩ := List.mem_filterMap.mp hx
  cases hkind : b.kind <;> simp [hkind] at hb <;> (subst hb; subst e; simp at hk)

theorem traceLoop_zero (s : St) : traceLoop 0 s = (s, .outOfFuel) := rfl

theorem traceLoop_exit (f : Nat) (s : St) (h : pc (run s) = none) :
    traceLoop (f+1) s = (onExit (run s), .exit (run s).exitCode) := by
  simp only [traceLoop, h]

theorem traceLoop_corrupt (f : Nat) (s : St) (p : Addr) (h : pc (run s) = some p)
    (hf : find? (run s).active p = none) : traceLoop (f+1) s = (run s, .corrupt) := by
  simp only [traceLoop, h, hf]

theorem traceLoop_stop (f : Nat) (s : St) (p : Addr) (b : Bp) (h : pc (run s) = some p)
    (hf : find? (run s).active p = some b) (hk : b.kind ≠ .entry) : traceLoop (f+1) s = (run s, .stop p) := by
  simp only [traceLoop, h, hf]
  cases hkind : b.kind <;> simp_all

theorem traceLoop_entry (f : Nat) (s : St) (p : Addr) (b : Bp) (h : pc (run s) = some p)
    (hf : find? (run s).active p = some b) (hk : b.kind = .entry) :
    traceLoop (f+1) s = traceLoop f (stepOverBreakpoint (enableAll (run s))) := by
  simp only [traceLoop, h, hf, hk]

/-- global invariant of prompt states: while the process exists the live invariant holds; after its exit the
registry of active breakpoints is empty (its text no longer exists) -/
structure GInv (orig : Code) (s : St) : Prop where
  live : s.status ≠ .exited → Inv orig s
  dead : s.status = .exited → s.active = []
  idxLe : s.idx ≤ s.τ.length

/-- hypothesis-free part: the loop of `continue_execution` keeps the invariant and only moves forward -/
theorem traceLoop_ginv {orig} (ho : Bytes orig) : ∀ (fuel : Nat) (s : St), Inv orig s → s.status ≠ .exited →
    GInv orig (traceLoop fuel s).1 ∧ (traceLoop fuel s).1.τ = s.τ ∧
    (traceLoop fuel s).1.exitCode = s.exitCode ∧ s.idx ≤ (traceLoop fuel s).1.idx ∧
    (traceLoop fuel s).1.idx ≤ s.τ.length := by
  intro fuel
  induction fuel with
  | zero => intro s h hs; exact ⟨⟨fun _ => h, fun e => absurd e hs, h.idxLe⟩, rfl, rfl, Nat.le_refl _, h.idxLe⟩
  | succ f ih =>
    intro s h hs
    have h1 := run_inv h
    have hge := run_idx_ge h
    have hst : (run s).status = s.status := rfl
    cases hp : pc (run s) with
    | none =>
      rw [traceLoop_exit f s hp]
      obtain ⟨o1, o2, o3, o4, o5, _⟩ := onExit_spec (run s)
      refine ⟨⟨fun hne => absurd o2 hne, fun _ => o1, ?_⟩, o3, o5, ?_, ?_⟩
      · rw [o4, o3]; exact h1.idxLe
      · rw [o4]; exact hge
      · rw [o4]; exact h1.idxLe
    | some p =>
      cases hf : find? (run s).active p with
      | none =>
        rw [traceLoop_corrupt f s p hp hf]
        exact ⟨⟨fun _ => h1, fun e => absurd (hst ▸ e) hs, h1.idxLe⟩, rfl, rfl, hge, h1.idxLe⟩
      | some b =>
        by_cases hk : b.kind = .entry
        · rw [traceLoop_entry f s p b hp hf hk]
          obtain ⟨e1, e2, e3, e4, _, e6, _⟩ := enableAll_spec h1 ho
          obtain ⟨g1, g2, g3, g4, _, g6⟩ := stepOver_gen e1 ho
          obtain ⟨r1, r2, r3, r4, r5⟩ := ih _ g1 (by rw [g3, e4]; exact hs)
          refine ⟨r1, by rw [r2, g2, e2]; rfl, by rw [r3, g4, e6]; rfl, ?_, ?_⟩
          · rw [e3] at g6; omega
          · rw [g2, e2] at r5; exact r5
        · rw [traceLoop_stop f s p b hp hf hk]
          exact ⟨⟨fun _ => h1, fun e => absurd (hst ▸ e) hs, h1.idxLe⟩, rfl, rfl, hge, h1.idxLe⟩


/-! ### 5. prompt states with a running debuggee -/

/-- a prompt state with a live debuggee whose registry holds the entry breakpoint and user breakpoints exactly at
the addresses `B` -/
structure Live (orig : Code) (entry : Addr) (B : List Addr) (s : St) : Prop where
  inv : Inv orig s
  st : s.status = .inProgress
  un : s.uninit = []
  kinds : ∀ a, kindAt s.active a = if a = entry then some .entry else if a ∈ B then some .user else none
  notEntry : entry ∉ B

/-- the set of user breakpoint addresses as a predicate on addresses -/
abbrev inB (B : List Addr) : Addr → Bool := fun a => decide (a ∈ B)

theorem Live.trap_iff {orig entry B s} (h : Live orig entry B s) (a : Addr) (hcc : orig a ≠ INT3) :
    (s.code a == INT3) = decide (a = entry ∨ a ∈ B) := by
  rw [h.inv.text' a]
  have hk := h.kinds a
  unfold kindAt at hk
  cases hf : find? s.active a with
  | none =>
    rw [hf] at hk
    by_cases he : a = entry
    · simp [he] at hk
    · by_cases hb : a ∈ B
      · simp [he, hb] at hk
      · simp [he, hb, hcc]
  | some b =>
    rw [hf] at hk
    by_cases he : a = entry
    · simp [he]
    · by_cases hb : a ∈ B
      · simp [hb]
      · simp [he, hb] at hk

theorem Live.of_same {orig entry B s s'} (h : Live orig entry B s) (hinv : Inv orig s')
    (hst : s'.status = s.status) (hun : s'.uninit = s.uninit)
    (hfind : ∀ x, find? s'.active x = find? s.active x) : Live orig entry B s' :=
  ⟨hinv, hst.trans h.st, hun.trans h.un, fun a => by unfold kindAt; rw [hfind a]; exact h.kinds a, h.notEntry⟩

/-- **the loop of `continue_execution` on a live prompt state**: it ends at the first position `j ≥ idx` whose
address is a user breakpoint and reports its true pc, or runs to the end and reports the exit code; the fuel
`τ.length + 1 - idx` suffices; `corrupt` and `outOfFuel` do not occur. -/
theorem traceLoop_live {orig entry B} (ho : Bytes orig) : ∀ (fuel : Nat) (s : St), Live orig entry B s →
    (∀ a ∈ s.τ, orig a ≠ INT3) → s.τ.length + 1 ≤ fuel + s.idx →
    (traceLoop fuel s).1.τ = s.τ ∧ (traceLoop fuel s).1.exitCode = s.exitCode ∧
    (traceLoop fuel s).1.idx = firstFrom (inB B) s.τ s.idx ∧
    (traceLoop fuel s).2 = (match s.τ[firstFrom (inB B) s.τ s.idx]? with
      | some a => .stop a
      | none => .exit s.exitCode) ∧
    (firstFrom (inB B) s.τ s.idx < s.τ.length → Live orig entry B (traceLoop fuel s).1) ∧
    (s.τ.length ≤ firstFrom (inB B) s.τ s.idx →
      (traceLoop fuel s).1.status = .exited ∧ (traceLoop fuel s).1.active = [] ∧
      ∀ k : UKey, k.global = false → hasKey (traceLoop fuel s).1.uninit k = false) := by
  intro fuel
  induction fuel with
  | zero => intro s h _ hfuel; have := h.inv.idxLe; omega
  | succ f ih =>
    intro s h hcc hfuel
    have h1 := run_inv h.inv
    have hle := h.inv.idxLe
    -- the trap predicate agrees, on the trace, with "entry or user breakpoint"
    let q : Addr → Bool := fun a => decide (a = entry ∨ a ∈ B)
    have hi1 : (run s).idx = firstFrom q s.τ s.idx :=
      firstFrom_congr _ _ _ _ (fun a ha => h.trap_iff a (hcc a ha))
    have hge : s.idx ≤ (run s).idx := run_idx_ge h.inv
    -- nothing before the trap is a user breakpoint
    have hnone : ∀ j, s.idx ≤ j → j < (run s).idx → (hj : j < s.τ.length) → inB B s.τ[j] = false := by
      intro j h1 h2 hj
      have := firstFrom_min q s.τ s.idx j h1 (hi1 ▸ h2) hj
      simp only [q, decide_eq_false_iff_not, not_or] at this
      simp [inB, this.2]
    have hjump : firstFrom (inB B) s.τ s.idx = firstFrom (inB B) s.τ (run s).idx :=
      firstFrom_jump _ _ _ _ hge h1.idxLe hnone
    cases hp : pc (run s) with
    | none =>
      have hend : s.τ.length ≤ (run s).idx := pc_none hp
      have hj : firstFrom (inB B) s.τ s.idx = s.τ.length := by
        rw [hjump]; exact firstFrom_of_ge _ _ _ hend
      rw [traceLoop_exit f s hp, hj]
      obtain ⟨o1, o2, o3, o4, o5, o6⟩ := onExit_spec (run s)
      refine ⟨o3, o5, ?_, ?_, fun hlt => absurd hlt (Nat.lt_irrefl _), fun _ => ⟨o2, o1, ?_⟩⟩
      · rw [o4]; have := h1.idxLe; exact Nat.le_antisymm this hend
      · simp; rfl
      · intro k hk; rw [o6 k hk]; show hasKey s.uninit k = false; rw [h.un]; rfl
    | some p =>
      obtain ⟨hlt, hpe⟩ := pc_some hp
      have hlt' : (run s).idx < s.τ.length := hlt
      have hpe' : s.τ[(run s).idx] = p := hpe
      have hqp : q p = true := by
        have := firstFrom_hit q s.τ s.idx (hi1 ▸ hlt')
        rw [← hpe']; simpa [hi1] using this
      have hpmem : p ∈ s.τ := hpe' ▸ List.getElem_mem hlt'
      have hk := h.kinds p
      by_cases he : p = entry
      · -- the internal entry breakpoint: transparent
        rw [if_pos he] at hk
        obtain ⟨b, hfb, hkb⟩ : ∃ b, find? s.active p = some b ∧ b.kind = .entry := by
          unfold kindAt at hk
          cases hf : find? s.active p with
          | none => rw [hf] at hk; cases hk
          | some b => rw [hf] at hk; exact ⟨b, rfl, by simpa using hk⟩
        rw [traceLoop_entry f s p b hp hfb hkb, enableAll_nil (show (run s).uninit = [] from h.un)]
        obtain ⟨g1, _, g3, g4, g5, g6, g7, g8⟩ := stepOver_at h1 ho p b hp hfb
        rw [if_neg (hcc p hpmem)] at g4
        have hlive : Live orig entry B (stepOverBreakpoint (run s)) := h.of_same g1 g6 g7 g3
        have hnb : inB B s.τ[(run s).idx] = false := by
          rw [hpe', he]; simpa [inB] using h.notEntry
        have hskip : firstFrom (inB B) s.τ (run s).idx = firstFrom (inB B) s.τ ((run s).idx + 1) :=
          firstFrom_skip _ _ _ hlt' hnb
        have := ih _ hlive (by rw [g5]; exact hcc) (by rw [g5, g4]; show s.τ.length + 1 ≤ f + ((run s).idx + 1); omega)
        rw [g5, g4, g8] at this
        rw [hjump, hskip]
        exact this
      · -- a user breakpoint: report it
        have hb : p ∈ B := by simpa [q, he] using hqp
        rw [if_neg he, if_pos hb] at hk
        obtain ⟨b, hfb, hkb⟩ : ∃ b, find? s.active p = some b ∧ b.kind = .user := by
          unfold kindAt at hk
          cases hf : find? s.active p with
          | none => rw [hf] at hk; cases hk
          | some b => rw [hf] at hk; exact ⟨b, rfl, by simpa using hk⟩
        rw [traceLoop_stop f s p b hp hfb (by rw [hkb]; decide)]
        have hhere : firstFrom (inB B) s.τ (run s).idx = (run s).idx :=
          firstFrom_here _ _ _ hlt' (by rw [hpe']; simpa [inB] using hb)
        rw [hjump, hhere]
        refine ⟨rfl, rfl, rfl, ?_, fun _ => h.of_same h1 rfl rfl (fun _ => rfl), fun hh => ?_⟩
        · show _ = match s.τ[(run s).idx]? with | some a => Out.stop a | none => Out.exit s.exitCode
          rw [List.getElem?_eq_getElem hlt', hpe']
        · omega


/-! ### 6. the commands on the three kinds of prompt states -/

theorem hasKey_filter (u : List (UKey × Kind)) (k k' : UKey) :
    hasKey (u.filter (·.1 != k)) k' = (hasKey u k' && k' != k) := by
  unfold hasKey
  rw [List.any_filter]
  by_cases hk : k' = k
  · subst hk
    simp only [bne_self_eq_false, Bool.and_false, List.any_eq_false]
    intro x _; by_cases hx : x.1 = k' <;> simp [hx]
  · have : (k' != k) = true := by simpa using hk
    rw [this, Bool.and_true]
    congr 1; funext x
    by_cases hx : x.1 = k'
    · subst hx; simp [this]
    · have : (x.1 == k') = false := by simpa using hx
      simp [this]

theorem hasKey_filter_append' (u : List (UKey × Kind)) (k : UKey) (kind : Kind) (k' : UKey) :
    hasKey (u.filter (·.1 != k) ++ [(k, kind)]) k' = (hasKey u k' || k == k') :=
  hasKey_filter_append u (k, kind) k'

theorem Live.pokes {orig entry B s} (h : Live orig entry B s) : Live orig entry B { s with pokes := [] } :=
  ⟨h.inv.congr rfl rfl rfl rfl, h.st, h.un, h.kinds, h.notEntry⟩

/-- before `start`: nothing is patched; the uninit list holds the entry breakpoint (global key) and one
relocated-key user entry per address of `B` -/
structure Fresh (orig : Code) (entry : Addr) (B : List Addr) (s : St) : Prop where
  st : s.status = .unload
  act : s.active = []
  code : s.code = orig
  idx : s.idx = 0
  ent : ((⟨true, entry⟩ : UKey), Kind.entry) ∈ s.uninit
  others : ∀ u ∈ s.uninit, u = ((⟨true, entry⟩ : UKey), Kind.entry) ∨
    (u.1.global = false ∧ u.2 = .user ∧ u.1.addr ≠ entry)
  mem : ∀ a, a ∈ B ↔ hasKey s.uninit ⟨false, a⟩ = true

/-- after the exit of the debuggee: no active breakpoint; `late` = addresses added since (relocated keys) -/
structure Gone (late : List Addr) (s : St) : Prop where
  st : s.status = .exited
  act : s.active = []
  mem : ∀ a, a ∈ late ↔ hasKey s.uninit ⟨false, a⟩ = true

theorem Fresh.pokes {orig entry B s} (h : Fresh orig entry B s) : Fresh orig entry B { s with pokes := [] } :=
  ⟨h.st, h.act, h.code, h.idx, h.ent, h.others, h.mem⟩

theorem Gone.pokes {late s} (h : Gone late s) : Gone late { s with pokes := [] } := ⟨h.st, h.act, h.mem⟩

theorem Fresh.inv {orig entry B s} (h : Fresh orig entry B s) : Inv orig s := by
  refine ⟨?_, ?_, ?_, ?_, ?_⟩
  · intro a; rw [h.act, h.code]; rfl
  · rw [h.act]; intro b hb; cases hb
  · rw [h.act]; exact List.nodup_nil
  · rw [h.act]; intro b hb; cases hb
  · rw [h.idx]; exact Nat.zero_le _

theorem Fresh.notEntry {orig entry B s} (h : Fresh orig entry B s) : entry ∉ B := by
  intro hb
  have := (h.mem entry).mp hb
  simp only [hasKey, List.any_eq_true] at this
  obtain ⟨u, hu, hk⟩ := this
  have hk' : u.1 = ⟨false, entry⟩ := by simpa using hk
  rcases h.others u hu with rfl | ⟨_, _, hne⟩
  · simp at hk'
  · rw [hk'] at hne; exact hne rfl

/-! #### `break` -/

theorem mem_cons_iff_hasKey {B : List Addr} {u : List (UKey × Kind)} {a : Addr} {kind : Kind}
    (h : ∀ x, x ∈ B ↔ hasKey u ⟨false, x⟩ = true) (x : Addr) :
    x ∈ a :: B ↔ hasKey (u.filter (·.1 != (⟨false, a⟩ : UKey)) ++ [((⟨false, a⟩ : UKey), kind)]) ⟨false, x⟩ = true := by
  rw [hasKey_filter_append', List.mem_cons, h x]
  by_cases hx : x = a
  · subst hx; simp
  · have : ((⟨false, a⟩ : UKey) == ⟨false, x⟩) = false := by
      simp; exact fun e => hx e.symm
    simp [hx, this]

theorem exec_brk_fresh {orig entry B s} (h : Fresh orig entry B s) (a : Addr) (ha : a ≠ entry) :
    (exec s (.brk a)).2 = .ok ∧ Fresh orig entry (a :: B) (exec s (.brk a)).1 ∧
    (exec s (.brk a)).1.τ = s.τ ∧ (exec s (.brk a)).1.exitCode = s.exitCode := by
  have e : exec s (.brk a) = (addUninit { s with pokes := [] } ⟨false, a⟩ .user, .ok) := by
    simp only [exec, h.st]
  rw [e]
  refine ⟨rfl, ⟨h.st, h.act, h.code, h.idx, ?_, ?_, ?_⟩, rfl, rfl⟩
  · show _ ∈ s.uninit.filter _ ++ _
    refine List.mem_append_left _ (List.mem_filter.mpr ⟨h.ent, ?_⟩)
    simp
  · intro u hu
    have hu' : u ∈ s.uninit.filter (·.1 != (⟨false, a⟩ : UKey)) ++ [((⟨false, a⟩ : UKey), Kind.user)] := hu
    rcases List.mem_append.mp hu' with hu | hu
    · exact h.others u (List.mem_filter.mp hu).1
    · simp only [List.mem_singleton] at hu; subst hu; exact Or.inr ⟨rfl, rfl, ha⟩
  · exact mem_cons_iff_hasKey h.mem

theorem exec_brk_gone {late s} (h : Gone late s) (a : Addr) :
    (exec s (.brk a)).2 = .ok ∧ Gone (a :: late) (exec s (.brk a)).1 ∧
    (exec s (.brk a)).1.τ = s.τ ∧ (exec s (.brk a)).1.exitCode = s.exitCode := by
  have e : exec s (.brk a) = (addUninit { s with pokes := [] } ⟨false, a⟩ .user, .ok) := by
    simp only [exec, h.st]
  rw [e]
  exact ⟨rfl, ⟨h.st, h.act, mem_cons_iff_hasKey h.mem⟩, rfl, rfl⟩

theorem exec_brk_live {orig entry B s} (ho : Bytes orig) (h : Live orig entry B s) (a : Addr) (ha : a ≠ entry) :
    (exec s (.brk a)).2 = .ok ∧ Live orig entry (a :: B) (exec s (.brk a)).1 ∧
    (exec s (.brk a)).1.τ = s.τ ∧ (exec s (.brk a)).1.exitCode = s.exitCode ∧
    (exec s (.brk a)).1.idx = s.idx := by
  have e : exec s (.brk a) = (addAndEnable { s with pokes := [] } { addr := a, kind := .user }, .ok) := by
    simp only [exec, h.st]
  rw [e]
  have h0 := h.pokes
  have hf := addAndEnable_frame { s with pokes := [] } { addr := a, kind := .user }
  refine ⟨rfl, ⟨addAndEnable_inv h0.inv ho _, hf.status.trans h0.st, hf.uninit.trans h0.un, ?_, ?_⟩,
    hf.τ, hf.exitCode, hf.idx⟩
  · intro x
    unfold kindAt
    rw [addAndEnable_find? h0.inv ho]
    have hk := h0.kinds x
    unfold kindAt at hk
    by_cases hx : x = a
    · subst hx; simp [ha]
    · simp only [hx, if_false, List.mem_cons, false_or]; exact hk
  · intro hb
    rcases List.mem_cons.mp hb with e | hb
    · exact ha e.symm
    · exact h.notEntry hb

/-! #### `remove` -/

theorem mem_filter_iff_hasKey {B : List Addr} {u : List (UKey × Kind)} {a : Addr}
    (h : ∀ x, x ∈ B ↔ hasKey u ⟨false, x⟩ = true) (x : Addr) :
    x ∈ B.filter (· != a) ↔ hasKey (u.filter (·.1 != (⟨false, a⟩ : UKey))) ⟨false, x⟩ = true := by
  rw [hasKey_filter, List.mem_filter, h x]
  by_cases hx : x = a
  · subst hx; simp
  · simp [hx]

theorem filter_ne_of_not_mem {B : List Addr} {a : Addr} (h : a ∉ B) (x : Addr) :
    x ∈ B.filter (· != a) ↔ x ∈ B := by
  rw [List.mem_filter]
  constructor
  · exact fun h => h.1
  · intro hx; refine ⟨hx, ?_⟩
    have : x ≠ a := fun e => h (e ▸ hx)
    simpa using this

theorem exec_remove_eq (s : St) (a : Addr) :
    exec s (.remove a) = ((removeByAddr { s with pokes := [] } ⟨false, a⟩).1,
      if (removeByAddr { s with pokes := [] } ⟨false, a⟩).2 then .ok else .none) := rfl

theorem remove_fresh {orig entry B s} (h : Fresh orig entry B s) (a : Addr) :
    (removeByAddr s ⟨false, a⟩).2 = decide (a ∈ B) ∧
    Fresh orig entry (B.filter (· != a)) (removeByAddr s ⟨false, a⟩).1 ∧
    (removeByAddr s ⟨false, a⟩).1.τ = s.τ ∧ (removeByAddr s ⟨false, a⟩).1.exitCode = s.exitCode := by
  by_cases hk : hasKey s.uninit ⟨false, a⟩ = true
  · have hmem : a ∈ B := (h.mem a).mpr hk
    rw [removeByAddr_uninit s _ hk]
    refine ⟨by simp [hmem], ⟨h.st, h.act, h.code, h.idx, ?_, ?_, mem_filter_iff_hasKey h.mem⟩, rfl, rfl⟩
    · exact List.mem_filter.mpr ⟨h.ent, by simp⟩
    · intro u hu; exact h.others u (List.mem_filter.mp hu).1
  · have hk' : hasKey s.uninit ⟨false, a⟩ = false := Bool.eq_false_iff.mpr hk
    have hmem : a ∉ B := fun hb => hk ((h.mem a).mp hb)
    rw [removeByAddr_none s a hk' (by rw [h.act]; rfl)]
    refine ⟨by simp [hmem], ⟨h.st, h.act, h.code, h.idx, h.ent, h.others, ?_⟩, rfl, rfl⟩
    intro x; rw [filter_ne_of_not_mem hmem]; exact h.mem x

theorem exec_remove_fresh {orig entry B s} (h : Fresh orig entry B s) (a : Addr) :
    (exec s (.remove a)).2 = (if a ∈ B then .ok else .none) ∧
    Fresh orig entry (B.filter (· != a)) (exec s (.remove a)).1 ∧
    (exec s (.remove a)).1.τ = s.τ ∧ (exec s (.remove a)).1.exitCode = s.exitCode := by
  obtain ⟨r1, r2, r3, r4⟩ := remove_fresh h.pokes a
  rw [exec_remove_eq]
  refine ⟨?_, r2, r3, r4⟩
  show (if _ then _ else _) = _
  rw [r1]; by_cases hm : a ∈ B <;> simp [hm]

theorem remove_gone {late s} (h : Gone late s) (a : Addr) :
    (removeByAddr s ⟨false, a⟩).2 = decide (a ∈ late) ∧
    Gone (late.filter (· != a)) (removeByAddr s ⟨false, a⟩).1 ∧
    (removeByAddr s ⟨false, a⟩).1.τ = s.τ ∧ (removeByAddr s ⟨false, a⟩).1.exitCode = s.exitCode := by
  by_cases hk : hasKey s.uninit ⟨false, a⟩ = true
  · have hmem : a ∈ late := (h.mem a).mpr hk
    rw [removeByAddr_uninit s _ hk]
    exact ⟨by simp [hmem], ⟨h.st, h.act, mem_filter_iff_hasKey h.mem⟩, rfl, rfl⟩
  · have hk' : hasKey s.uninit ⟨false, a⟩ = false := Bool.eq_false_iff.mpr hk
    have hmem : a ∉ late := fun hb => hk ((h.mem a).mp hb)
    rw [removeByAddr_none s a hk' (by rw [h.act]; rfl)]
    refine ⟨by simp [hmem], ⟨h.st, h.act, ?_⟩, rfl, rfl⟩
    intro x; rw [filter_ne_of_not_mem hmem]; exact h.mem x

theorem exec_remove_gone {late s} (h : Gone late s) (a : Addr) :
    (exec s (.remove a)).2 = (if a ∈ late then .ok else .none) ∧
    Gone (late.filter (· != a)) (exec s (.remove a)).1 ∧
    (exec s (.remove a)).1.τ = s.τ ∧ (exec s (.remove a)).1.exitCode = s.exitCode := by
  obtain ⟨r1, r2, r3, r4⟩ := remove_gone h.pokes a
  rw [exec_remove_eq]
  refine ⟨?_, r2, r3, r4⟩
  show (if _ then _ else _) = _
  rw [r1]; by_cases hm : a ∈ late <;> simp [hm]

theorem remove_live {orig entry B s} (ho : Bytes orig) (h : Live orig entry B s) (a : Addr)
    (ha : a ≠ entry) :
    (removeByAddr s ⟨false, a⟩).2 = decide (a ∈ B) ∧
    Live orig entry (B.filter (· != a)) (removeByAddr s ⟨false, a⟩).1 ∧
    (removeByAddr s ⟨false, a⟩).1.τ = s.τ ∧ (removeByAddr s ⟨false, a⟩).1.exitCode = s.exitCode ∧
    (removeByAddr s ⟨false, a⟩).1.idx = s.idx ∧ (removeByAddr s ⟨false, a⟩).1.code a = orig a := by
  have hk : hasKey s.uninit ⟨false, a⟩ = false := by rw [h.un]; rfl
  have hkind := h.kinds a
  rw [if_neg ha] at hkind
  unfold kindAt at hkind
  cases hf : find? s.active a with
  | none =>
    rw [hf] at hkind
    have hmem : a ∉ B := by
      intro hb; rw [if_pos hb] at hkind; cases hkind
    rw [removeByAddr_none s a hk hf]
    refine ⟨by simp [hmem], ⟨h.inv, h.st, h.un, ?_, ?_⟩, rfl, rfl, rfl, ?_⟩
    · intro x
      rw [h.kinds x]
      by_cases hx : x = entry
      · simp [hx]
      · simp only [hx, if_false]
        by_cases hb : x ∈ B
        · rw [if_pos hb, if_pos ((filter_ne_of_not_mem hmem x).mpr hb)]
        · rw [if_neg hb, if_neg (fun h' => hb ((filter_ne_of_not_mem hmem x).mp h'))]
    · intro hb; exact h.notEntry (List.mem_filter.mp hb).1
    · rw [h.inv.text' a, hf]; rfl
  | some b =>
    rw [hf] at hkind
    have hmem : a ∈ B := by
      apply Classical.byContradiction; intro hb; rw [if_neg hb] at hkind; cases hkind
    obtain ⟨r1, r2, r3, r4, r5⟩ := removeByAddr_some h.inv ho a b hk hf
    refine ⟨by rw [r1]; simp [hmem], ⟨r3, r2.status.trans h.st, r2.uninit.trans h.un, ?_, ?_⟩,
      r2.τ, r2.exitCode, r2.idx, ?_⟩
    · intro x
      unfold kindAt
      rw [r4 x]
      have hkx := h.kinds x
      unfold kindAt at hkx
      by_cases hx : x = a
      · subst hx; simp [ha]
      · simp only [hx, if_false]
        rw [hkx]
        by_cases hxe : x = entry
        · simp [hxe]
        · simp [hxe, List.mem_filter, hx]
    · intro hb; exact h.notEntry (List.mem_filter.mp hb).1
    · rw [r5, set_apply]; simp

theorem exec_remove_live {orig entry B s} (ho : Bytes orig) (h : Live orig entry B s) (a : Addr)
    (ha : a ≠ entry) :
    (exec s (.remove a)).2 = (if a ∈ B then .ok else .none) ∧
    Live orig entry (B.filter (· != a)) (exec s (.remove a)).1 ∧
    (exec s (.remove a)).1.τ = s.τ ∧ (exec s (.remove a)).1.exitCode = s.exitCode ∧
    (exec s (.remove a)).1.idx = s.idx ∧ (exec s (.remove a)).1.code a = orig a := by
  obtain ⟨r1, r2, r3, r4, r5, r6⟩ := remove_live ho h.pokes a ha
  rw [exec_remove_eq]
  refine ⟨?_, r2, r3, r4, r5, r6⟩
  show (if _ then _ else _) = _
  rw [r1]; by_cases hm : a ∈ B <;> simp [hm]

/-! #### `start` and `continue` in the wrong state -/

theorem exec_start_live {orig entry B s} (h : Live orig entry B s) :
    exec s .start = ({ s with pokes := [] }, .err) := by simp only [exec, h.st]
theorem exec_start_gone {late s} (h : Gone late s) :
    exec s .start = ({ s with pokes := [] }, .err) := by simp only [exec, h.st]
theorem exec_cont_fresh {orig entry B s} (h : Fresh orig entry B s) :
    exec s .cont = ({ s with pokes := [] }, .err) := by simp only [exec, h.st]
theorem exec_cont_gone {late s} (h : Gone late s) :
    exec s .cont = ({ s with pokes := [] }, .err) := by simp only [exec, h.st]


/-! #### `continue` and `start` -/

/-- the answer of a run that lands on position `j` -/
abbrev answerAt (τ : List Addr) (exitCode : Nat) (j : Nat) : Out :=
  match τ[j]? with
  | some a => .stop a
  | none => .exit exitCode

theorem gone_of_exited {s : St} (h1 : s.status = .exited) (h2 : s.active = [])
    (h3 : ∀ k : UKey, k.global = false → hasKey s.uninit k = false) : Gone [] s :=
  ⟨h1, h2, fun a => by rw [h3 ⟨false, a⟩ rfl]; simp⟩

theorem cont_live {orig entry B s} (ho : Bytes orig) (h : Live orig entry B s)
    (hcc : ∀ a ∈ s.τ, orig a ≠ INT3) (hidx : s.idx < s.τ.length) :
    (traceLoop (fuelFor s) (stepOverBreakpoint s)).1.τ = s.τ ∧
    (traceLoop (fuelFor s) (stepOverBreakpoint s)).1.exitCode = s.exitCode ∧
    (traceLoop (fuelFor s) (stepOverBreakpoint s)).1.idx = firstFrom (inB B) s.τ (s.idx + 1) ∧
    (traceLoop (fuelFor s) (stepOverBreakpoint s)).2
      = answerAt s.τ s.exitCode (firstFrom (inB B) s.τ (s.idx + 1)) ∧
    (firstFrom (inB B) s.τ (s.idx + 1) < s.τ.length →
      Live orig entry B (traceLoop (fuelFor s) (stepOverBreakpoint s)).1) ∧
    (s.τ.length ≤ firstFrom (inB B) s.τ (s.idx + 1) →
      Gone [] (traceLoop (fuelFor s) (stepOverBreakpoint s)).1) := by
  have hp : pc s = some s.τ[s.idx] := by unfold pc; exact List.getElem?_eq_getElem hidx
  have hpm : s.τ[s.idx] ∈ s.τ := List.getElem_mem hidx
  cases hf : find? s.active s.τ[s.idx] with
  | none =>
    rw [stepOver_noop_find s _ hp hf]
    have hk := h.kinds s.τ[s.idx]
    unfold kindAt at hk
    rw [hf] at hk
    have hnb : inB B s.τ[s.idx] = false := by
      by_cases he : s.τ[s.idx] = entry
      · rw [if_pos he] at hk; cases hk
      · rw [if_neg he] at hk
        by_cases hb : s.τ[s.idx] ∈ B
        · rw [if_pos hb] at hk; cases hk
        · simpa [inB] using hb
    obtain ⟨r1, r2, r3, r4, r5, r6⟩ := traceLoop_live ho (fuelFor s) s h hcc (by unfold fuelFor; omega)
    rw [firstFrom_skip _ _ _ hidx hnb] at r3 r4 r5 r6
    exact ⟨r1, r2, r3, r4, r5, fun hh => gone_of_exited (r6 hh).1 (r6 hh).2.1 (r6 hh).2.2⟩
  | some b =>
    obtain ⟨g1, _, g3, g4, g5, g6, g7, g8⟩ := stepOver_at h.inv ho _ b hp hf
    rw [if_neg (hcc _ hpm)] at g4
    have hlive : Live orig entry B (stepOverBreakpoint s) := h.of_same g1 g6 g7 g3
    obtain ⟨r1, r2, r3, r4, r5, r6⟩ := traceLoop_live ho (fuelFor s) _ hlive (by rw [g5]; exact hcc)
      (by rw [g5]; unfold fuelFor; omega)
    rw [g5, g4] at r3 r4 r5 r6
    rw [g8] at r4
    exact ⟨r1.trans g5, r2.trans g8, r3, r4, r5, fun hh => gone_of_exited (r6 hh).1 (r6 hh).2.1 (r6 hh).2.2⟩

theorem exec_cont_live {orig entry B s} (ho : Bytes orig) (h : Live orig entry B s)
    (hcc : ∀ a ∈ s.τ, orig a ≠ INT3) (hidx : s.idx < s.τ.length) :
    (exec s .cont).1.τ = s.τ ∧ (exec s .cont).1.exitCode = s.exitCode ∧
    (exec s .cont).1.idx = firstFrom (inB B) s.τ (s.idx + 1) ∧
    (exec s .cont).2 = answerAt s.τ s.exitCode (firstFrom (inB B) s.τ (s.idx + 1)) ∧
    (firstFrom (inB B) s.τ (s.idx + 1) < s.τ.length → Live orig entry B (exec s .cont).1) ∧
    (s.τ.length ≤ firstFrom (inB B) s.τ (s.idx + 1) → Gone [] (exec s .cont).1) := by
  have e : exec s .cont = traceLoop (fuelFor { s with pokes := [] }) (stepOverBreakpoint { s with pokes := [] }) := by
    simp only [exec, h.st]
  rw [e]
  exact cont_live ho h.pokes hcc hidx

/-- `enable_entry_breakpoint` when the only entry-kind uninit breakpoint is the one at `entry` -/
theorem enableEntry_eq (s : St) (entry : Addr)
    (ent : ((⟨true, entry⟩ : UKey), Kind.entry) ∈ s.uninit)
    (others : ∀ u ∈ s.uninit, u = ((⟨true, entry⟩ : UKey), Kind.entry) ∨
      (u.1.global = false ∧ u.2 = .user ∧ u.1.addr ≠ entry)) :
    enableEntry s = addAndEnable { s with uninit := s.uninit.filter (·.1 != (⟨true, entry⟩ : UKey)) }
      { addr := entry, kind := .entry } := by
  unfold enableEntry
  cases hf : s.uninit.find? (·.2 == Kind.entry) with
  | none =>
    have := List.find?_eq_none.mp hf _ ent
    simp at this
  | some u =>
    have hu := List.mem_of_find?_eq_some hf
    have hk : u.2 = .entry := by simpa using List.find?_some hf
    rcases others u hu with rfl | ⟨_, hk', _⟩
    · rfl
    · rw [hk] at hk'; cases hk'

theorem start_fresh {orig entry B s} (ho : Bytes orig) (h : Fresh orig entry B s)
    (hcc : ∀ a ∈ s.τ, orig a ≠ INT3) (hhead : s.τ.head? = some entry) :
    (traceLoop (fuelFor s) (enableEntry { s with status := .inProgress })).1.τ = s.τ ∧
    (traceLoop (fuelFor s) (enableEntry { s with status := .inProgress })).1.exitCode = s.exitCode ∧
    (traceLoop (fuelFor s) (enableEntry { s with status := .inProgress })).1.idx = firstFrom (inB B) s.τ 0 ∧
    (traceLoop (fuelFor s) (enableEntry { s with status := .inProgress })).2
      = answerAt s.τ s.exitCode (firstFrom (inB B) s.τ 0) ∧
    (firstFrom (inB B) s.τ 0 < s.τ.length →
      Live orig entry B (traceLoop (fuelFor s) (enableEntry { s with status := .inProgress })).1) ∧
    (s.τ.length ≤ firstFrom (inB B) s.τ 0 →
      Gone [] (traceLoop (fuelFor s) (enableEntry { s with status := .inProgress })).1) := by
  -- the trace starts at the entry point
  obtain ⟨hlen, h0e⟩ : ∃ hlen : 0 < s.τ.length, s.τ[0] = entry := by
    have : s.τ[0]? = some entry := by rw [← List.head?_eq_getElem?]; exact hhead
    exact List.getElem?_eq_some_iff.mp this
  have hentB := h.notEntry
  -- state after `enable_entry_breakpoint`
  let s' : St := { s with status := .inProgress }
  have hinv' : Inv orig { s' with uninit := s.uninit.filter (·.1 != (⟨true, entry⟩ : UKey)) } :=
    h.inv.congr rfl rfl rfl rfl
  have he : enableEntry s' = addAndEnable { s' with uninit := s.uninit.filter (·.1 != (⟨true, entry⟩ : UKey)) }
      { addr := entry, kind := .entry } := enableEntry_eq s' entry h.ent h.others
  have hfr := addAndEnable_frame { s' with uninit := s.uninit.filter (·.1 != (⟨true, entry⟩ : UKey)) }
      { addr := entry, kind := .entry }
  have hinv1 : Inv orig (enableEntry s') := by rw [he]; exact addAndEnable_inv hinv' ho _
  have hfind1 : ∀ a, find? (enableEntry s').active a
      = if a = entry then some { addr := entry, kind := .entry, saved := orig entry, enabled := true } else none := by
    intro a; rw [he, addAndEnable_find? hinv' ho]
    show _ = if a = entry then _ else _
    split
    · rfl
    · show find? s.active a = none; rw [h.act]; rfl
  have hτ1 : (enableEntry s').τ = s.τ := by rw [he]; exact hfr.τ
  have hidx1 : (enableEntry s').idx = 0 := by rw [he]; exact hfr.idx.trans h.idx
  have hst1 : (enableEntry s').status = .inProgress := by rw [he]; exact hfr.status
  have hx1 : (enableEntry s').exitCode = s.exitCode := by rw [he]; exact hfr.exitCode
  have hun1 : (enableEntry s').uninit = s.uninit.filter (·.1 != (⟨true, entry⟩ : UKey)) := by
    rw [he]; exact hfr.uninit
  -- `cont` traps immediately, on the entry breakpoint
  have hcode1 : (enableEntry s').code entry = INT3 := by
    rw [hinv1.text' entry, hfind1 entry]; simp
  have hrun : (run (enableEntry s')).idx = 0 := by
    show firstFrom _ (enableEntry s').τ (enableEntry s').idx = 0
    rw [hτ1, hidx1]
    exact firstFrom_here _ _ _ hlen (by rw [h0e, hcode1]; rfl)
  have hpc : pc (run (enableEntry s')) = some entry := by
    unfold pc; rw [hrun]; show (enableEntry s').τ[0]? = _; rw [hτ1, List.getElem?_eq_getElem hlen, h0e]
  have hrinv := run_inv hinv1
  rw [show fuelFor s = (s.τ.length + 1) + 1 from rfl,
    traceLoop_entry _ _ entry { addr := entry, kind := .entry, saved := orig entry, enabled := true } hpc
      (by show find? (enableEntry s').active entry = _; rw [hfind1]; simp) rfl]
  -- `enable_all_breakpoints`
  obtain ⟨a1, a2, a3, a4, a5, a6, a7⟩ := enableAll_spec hrinv ho
  have huser : ∀ u ∈ (run (enableEntry s')).uninit,
      u ∈ s.uninit ∧ u.2 = Kind.user ∧ u.1.global = false ∧ u.1.addr ≠ entry := by
    intro u hu
    have hu' : u ∈ s.uninit.filter (·.1 != (⟨true, entry⟩ : UKey)) := hun1 ▸ hu
    obtain ⟨hu1, hu2⟩ := List.mem_filter.mp hu'
    rcases h.others u hu1 with rfl | ⟨g, k, n⟩
    · simp at hu2
    · exact ⟨hu1, k, g, n⟩
  have hany : ∀ a, (run (enableEntry s')).uninit.any (·.1.addr == a) = decide (a ∈ B) := by
    intro a
    rw [Bool.eq_iff_iff, List.any_eq_true, decide_eq_true_iff, h.mem a]
    simp only [hasKey, List.any_eq_true]
    constructor
    · rintro ⟨u, hu, hua⟩
      obtain ⟨h1, _, h3, _⟩ := huser u hu
      refine ⟨u, h1, ?_⟩
      have hua' : u.1.addr = a := by simpa using hua
      obtain ⟨⟨g, ad⟩, k⟩ := u
      simp_all
    · rintro ⟨u, hu, hua⟩
      have hua' : u.1 = ⟨false, a⟩ := by simpa using hua
      refine ⟨u, ?_, by rw [hua']; simp⟩
      show u ∈ (enableEntry s').uninit
      rw [hun1]
      exact List.mem_filter.mpr ⟨hu, by rw [hua']; simp⟩
  have hkinds : ∀ a, kindAt (enableAll (run (enableEntry s'))).active a
      = if a = entry then some .entry else if a ∈ B then some .user else none := by
    intro a
    rw [a7 a, foldl_lastKind_const .user _ (fun u hu => (huser u hu).2.1) a, hany a]
    show (if decide (a ∈ B) = true then some Kind.user else kindAt (enableEntry s').active a) = _
    unfold kindAt
    rw [hfind1 a]
    by_cases hae : a = entry
    · subst hae; simp [hentB]
    · by_cases hb : a ∈ B <;> simp [hae, hb]
  have hlive : Live orig entry B (enableAll (run (enableEntry s'))) :=
    ⟨a1, a4.trans hst1, a5, hkinds, hentB⟩
  -- step over the entry breakpoint, then the generic loop
  have hpc2 : pc (enableAll (run (enableEntry s'))) = some entry := by
    unfold pc at hpc ⊢; rw [a2, a3]; exact hpc
  obtain ⟨b, hfb⟩ : ∃ b, find? (enableAll (run (enableEntry s'))).active entry = some b := by
    have := hkinds entry
    unfold kindAt at this
    cases hf : find? (enableAll (run (enableEntry s'))).active entry with
    | none => rw [hf] at this; simp at this
    | some b => exact ⟨b, rfl⟩
  have hτ2 : (enableAll (run (enableEntry s'))).τ = s.τ := a2.trans hτ1
  have hem : entry ∈ s.τ := h0e ▸ List.getElem_mem hlen
  obtain ⟨g1, _, g3, g4, g5, g6, g7, g8⟩ := stepOver_at a1 ho entry b hpc2 hfb
  rw [if_neg (hcc entry hem), a3, hrun] at g4
  have hlive2 := hlive.of_same g1 g6 g7 g3
  obtain ⟨r1, r2, r3, r4, r5, r6⟩ := traceLoop_live ho (s.τ.length + 1) _ hlive2
    (by rw [g5, hτ2]; exact hcc) (by rw [g5, hτ2, g4]; omega)
  rw [g5, hτ2, g4] at r3 r4 r5 r6
  rw [g8, a6] at r4
  have hskip : firstFrom (inB B) s.τ 0 = firstFrom (inB B) s.τ (0 + 1) :=
    firstFrom_skip _ _ _ hlen (by rw [h0e]; simpa [inB] using hentB)
  rw [hskip]
  refine ⟨r1.trans (g5.trans hτ2), r2.trans (g8.trans (a6.trans hx1)), r3, ?_, r5,
    fun hh => gone_of_exited (r6 hh).1 (r6 hh).2.1 (r6 hh).2.2⟩
  rw [r4]; show answerAt s.τ (enableEntry s').exitCode _ = _; rw [hx1]

theorem exec_start_fresh {orig entry B s} (ho : Bytes orig) (h : Fresh orig entry B s)
    (hcc : ∀ a ∈ s.τ, orig a ≠ INT3) (hhead : s.τ.head? = some entry) :
    (exec s .start).1.τ = s.τ ∧ (exec s .start).1.exitCode = s.exitCode ∧
    (exec s .start).1.idx = firstFrom (inB B) s.τ 0 ∧
    (exec s .start).2 = answerAt s.τ s.exitCode (firstFrom (inB B) s.τ 0) ∧
    (firstFrom (inB B) s.τ 0 < s.τ.length → Live orig entry B (exec s .start).1) ∧
    (s.τ.length ≤ firstFrom (inB B) s.τ 0 → Gone [] (exec s .start).1) := by
  have e : exec s .start = traceLoop (fuelFor { s with pokes := [] })
      (enableEntry { ({ s with pokes := [] } : St) with status := .inProgress }) := by
    simp only [exec, h.st]
  rw [e]
  exact start_fresh ho h.pokes hcc hhead


/-! ### 7. every command keeps the global invariant (no hypothesis on the trace, the entry point or the ops) -/

theorem GInv.congr {orig s s'} (h : GInv orig s) (hc : s'.code = s.code) (ha : s'.active = s.active)
    (hi : s'.idx = s.idx) (hτ : s'.τ = s.τ) (hs : s'.status = s.status) : GInv orig s' :=
  ⟨fun hne => (h.live (hs ▸ hne)).congr hc ha hi hτ, fun he => ha.trans (h.dead (hs ▸ he)),
   by rw [hi, hτ]; exact h.idxLe⟩

theorem removeByAddr_ginv {orig s} (ho : Bytes orig) (h : GInv orig s) (a : Addr) :
    GInv orig (removeByAddr s ⟨false, a⟩).1 ∧ (removeByAddr s ⟨false, a⟩).1.τ = s.τ ∧
    (removeByAddr s ⟨false, a⟩).1.exitCode = s.exitCode ∧ (removeByAddr s ⟨false, a⟩).1.idx = s.idx ∧
    (removeByAddr s ⟨false, a⟩).1.status = s.status := by
  by_cases hk : hasKey s.uninit ⟨false, a⟩ = true
  · rw [removeByAddr_uninit s _ hk]
    exact ⟨h.congr rfl rfl rfl rfl rfl, rfl, rfl, rfl, rfl⟩
  · have hk' : hasKey s.uninit ⟨false, a⟩ = false := Bool.eq_false_iff.mpr hk
    cases hf : find? s.active a with
    | none => rw [removeByAddr_none s a hk' hf]; exact ⟨h, rfl, rfl, rfl, rfl⟩
    | some b =>
      have hne : s.status ≠ .exited := by
        intro he; rw [h.dead he] at hf; cases hf
      obtain ⟨_, r2, r3, _, _⟩ := removeByAddr_some (h.live hne) ho a b hk' hf
      refine ⟨⟨fun _ => r3, fun he => absurd (r2.status ▸ he) hne, r3.idxLe⟩, r2.τ, r2.exitCode, r2.idx, r2.status⟩

theorem enableEntry_inv {orig s} (ho : Bytes orig) (h : Inv orig s) :
    Inv orig (enableEntry s) ∧ (enableEntry s).τ = s.τ ∧ (enableEntry s).exitCode = s.exitCode ∧
    (enableEntry s).idx = s.idx ∧ (enableEntry s).status = s.status := by
  unfold enableEntry
  cases s.uninit.find? (·.2 == Kind.entry) with
  | none => exact ⟨h, rfl, rfl, rfl, rfl⟩
  | some u =>
    have h' : Inv orig { s with uninit := s.uninit.filter (·.1 != u.1) } := h.congr rfl rfl rfl rfl
    have hf := addAndEnable_frame { s with uninit := s.uninit.filter (·.1 != u.1) } { addr := u.1.addr, kind := .entry }
    exact ⟨addAndEnable_inv h' ho _, hf.τ, hf.exitCode, hf.idx, hf.status⟩

/-- every command keeps the invariant and only moves forward along the trace -/
theorem exec_ginv {orig s} (ho : Bytes orig) (h : GInv orig s) (op : Op) :
    GInv orig (exec s op).1 ∧ (exec s op).1.τ = s.τ ∧ (exec s op).1.exitCode = s.exitCode ∧
    s.idx ≤ (exec s op).1.idx := by
  have h0 : GInv orig { s with pokes := [] } := h.congr rfl rfl rfl rfl rfl
  cases op with
  | brk a =>
    cases hs : s.status with
    | inProgress =>
      have e : exec s (.brk a) = (addAndEnable { s with pokes := [] } { addr := a, kind := .user }, .ok) := by
        simp only [exec, hs]
      rw [e]
      have hinv : Inv orig { s with pokes := [] } := h0.live (by show s.status ≠ _; rw [hs]; decide)
      have hf := addAndEnable_frame { s with pokes := [] } { addr := a, kind := .user }
      have hi := addAndEnable_inv hinv ho { addr := a, kind := .user }
      have hst : (addAndEnable { s with pokes := [] } { addr := a, kind := .user }).status = .inProgress :=
        hf.status.trans hs
      exact ⟨⟨fun _ => hi, fun he => (by rw [hst] at he; cases he), hi.idxLe⟩, hf.τ, hf.exitCode,
        Nat.le_of_eq hf.idx.symm⟩
    | unload =>
      have e : exec s (.brk a) = (addUninit { s with pokes := [] } ⟨false, a⟩ .user, .ok) := by
        simp only [exec, hs]
      rw [e]; exact ⟨h.congr rfl rfl rfl rfl rfl, rfl, rfl, Nat.le_refl _⟩
    | exited =>
      have e : exec s (.brk a) = (addUninit { s with pokes := [] } ⟨false, a⟩ .user, .ok) := by
        simp only [exec, hs]
      rw [e]; exact ⟨h.congr rfl rfl rfl rfl rfl, rfl, rfl, Nat.le_refl _⟩
  | remove a =>
    rw [exec_remove_eq]
    obtain ⟨r1, r2, r3, r4, _⟩ := removeByAddr_ginv ho h0 a
    exact ⟨r1, r2, r3, Nat.le_of_eq r4.symm⟩
  | start =>
    cases hs : s.status with
    | unload =>
      have e : exec s .start = traceLoop (fuelFor { s with pokes := [] })
          (enableEntry { ({ s with pokes := [] } : St) with status := .inProgress }) := by
        simp only [exec, hs]
      rw [e]
      have hinv : Inv orig { ({ s with pokes := [] } : St) with status := .inProgress } :=
        (h.live (by rw [hs]; decide)).congr rfl rfl rfl rfl
      obtain ⟨e1, e2, e3, e4, e5⟩ := enableEntry_inv ho hinv
      obtain ⟨t1, t2, t3, t4, _⟩ := traceLoop_ginv ho (fuelFor { s with pokes := [] }) _ e1 (by rw [e5]; show Status.inProgress ≠ Status.exited; decide)
      exact ⟨t1, t2.trans e2, t3.trans e3, by rw [e4] at t4; exact t4⟩
    | inProgress =>
      have e : exec s .start = ({ s with pokes := [] }, .err) := by simp only [exec, hs]
      rw [e]; exact ⟨h0, rfl, rfl, Nat.le_refl _⟩
    | exited =>
      have e : exec s .start = ({ s with pokes := [] }, .err) := by simp only [exec, hs]
      rw [e]; exact ⟨h0, rfl, rfl, Nat.le_refl _⟩
  | cont =>
    cases hs : s.status with
    | inProgress =>
      have e : exec s .cont = traceLoop (fuelFor { s with pokes := [] })
          (stepOverBreakpoint { s with pokes := [] }) := by
        simp only [exec, hs]
      rw [e]
      have hinv : Inv orig { s with pokes := [] } := h0.live (by show s.status ≠ _; rw [hs]; decide)
      obtain ⟨g1, g2, g3, g4, _, g6⟩ := stepOver_gen hinv ho
      obtain ⟨t1, t2, t3, t4, _⟩ := traceLoop_ginv ho (fuelFor { s with pokes := [] }) _ g1
        (by rw [g3]; show s.status ≠ _; rw [hs]; decide)
      exact ⟨t1, t2.trans g2, t3.trans g4, Nat.le_trans g6 t4⟩
    | unload =>
      have e : exec s .cont = ({ s with pokes := [] }, .err) := by simp only [exec, hs]
      rw [e]; exact ⟨h0, rfl, rfl, Nat.le_refl _⟩
    | exited =>
      have e : exec s .cont = ({ s with pokes := [] }, .err) := by simp only [exec, hs]
      rw [e]; exact ⟨h0, rfl, rfl, Nat.le_refl _⟩

theorem init_ginv (τ : List Addr) (entry : Addr) (orig : Code) (x : Nat) : GInv orig (init τ entry orig x) := by
  refine ⟨fun _ => ⟨fun a => rfl, ?_, List.nodup_nil, ?_, Nat.zero_le _⟩, fun _ => rfl, Nat.zero_le _⟩
  · intro b hb; cases hb
  · intro b hb; cases hb

theorem init_fresh (τ : List Addr) (entry : Addr) (orig : Code) (x : Nat) :
    Fresh orig entry [] (init τ entry orig x) := by
  refine ⟨rfl, rfl, rfl, rfl, List.mem_singleton.mpr rfl, ?_, ?_⟩
  · intro u hu; exact Or.inl (List.mem_singleton.mp hu)
  · intro a; simp [hasKey, init]


theorem execAll_cons (s : St) (op : Op) (ops : List Op) :
    execAll s (op :: ops) = ((execAll (exec s op).1 ops).1, (exec s op).2 :: (execAll (exec s op).1 ops).2) := rfl

theorem execAll_ginv {orig} (ho : Bytes orig) : ∀ (ops : List Op) (s : St), GInv orig s →
    GInv orig (execAll s ops).1 ∧ (execAll s ops).1.τ = s.τ ∧ s.idx ≤ (execAll s ops).1.idx := by
  intro ops
  induction ops with
  | nil => intro s h; exact ⟨h, rfl, Nat.le_refl _⟩
  | cons op ops ih =>
    intro s h
    obtain ⟨e1, e2, _, e4⟩ := exec_ginv ho h op
    obtain ⟨i1, i2, i3⟩ := ih _ e1
    rw [execAll_cons]
    exact ⟨i1, i2.trans e2, Nat.le_trans e4 i3⟩

/-! ### 8. the ghost execution log -/

/-- the log is exactly the native run up to `idx`: positions `0 .. idx-1`, each once, in order, each executed on the
original byte of its instruction -/
structure LogOk (orig : Code) (s : St) : Prop where
  pos : s.execd.map (·.1) = List.range s.idx
  byte : ∀ e ∈ s.execd, e.2 = orig (s.τ.getD e.1 0)

theorem LogOk.congr {orig s s'} (h : LogOk orig s) (he : s'.execd = s.execd) (hi : s'.idx = s.idx)
    (hτ : s'.τ = s.τ) : LogOk orig s' := by
  refine ⟨?_, ?_⟩
  · rw [he, hi]; exact h.pos
  · rw [he, hτ]; exact h.byte

theorem getD_of_lt (τ : List Addr) (k : Nat) (h : k < τ.length) : τ.getD k 0 = τ[k] := by
  simp [List.getD, List.getElem?_eq_getElem h]

theorem addAndEnable_execd (s : St) (nb : Bp) : (addAndEnable s nb).execd = s.execd := by
  unfold addAndEnable
  cases find? s.active nb.addr <;> rfl

theorem removeByAddr_execd (s : St) (k : UKey) : (removeByAddr s k).1.execd = s.execd := by
  unfold removeByAddr
  split
  · rfl
  · split
    · rfl
    · split
      · rfl
      · split <;> rfl

theorem foldl_addAndEnable_execd (us : List (UKey × Kind)) : ∀ s : St,
    (us.foldl (fun acc u => addAndEnable acc { addr := u.1.addr, kind := u.2 }) s).execd = s.execd := by
  induction us with
  | nil => intro s; rfl
  | cons u us ih => intro s; rw [List.foldl_cons, ih, addAndEnable_execd]

theorem enableAll_execd (s : St) : (enableAll s).execd = s.execd := by
  unfold enableAll; rw [foldl_addAndEnable_execd]

theorem enableEntry_execd (s : St) : (enableEntry s).execd = s.execd := by
  unfold enableEntry
  split
  · rfl
  · rw [addAndEnable_execd]

theorem run_log {orig s} (h : Inv orig s) (hl : LogOk orig s) : LogOk orig (run s) := by
  have hge : s.idx ≤ firstTrap s.code s.τ s.idx := firstFrom_ge _ _ _ h.idxLe
  have hle : firstTrap s.code s.τ s.idx ≤ s.τ.length := firstFrom_le _ _ _
  refine ⟨?_, ?_⟩
  · show (s.execd ++ (List.range' s.idx (firstTrap s.code s.τ s.idx - s.idx)).map
        fun k => (k, s.code (s.τ.getD k 0))).map (·.1) = List.range (firstTrap s.code s.τ s.idx)
    rw [List.map_append, hl.pos, List.map_map]
    have : ((fun x : Nat × Nat => x.1) ∘ fun k => (k, s.code (s.τ.getD k 0))) = id := rfl
    rw [this, List.map_id, List.range_eq_range', List.range_eq_range']
    have := @List.range'_append 0 s.idx (firstTrap s.code s.τ s.idx - s.idx) 1
    rw [show 0 + 1 * s.idx = s.idx by omega, show s.idx + (firstTrap s.code s.τ s.idx - s.idx)
      = firstTrap s.code s.τ s.idx by omega] at this
    exact this
  · intro e he
    have he' : e ∈ s.execd ++ (List.range' s.idx (firstTrap s.code s.τ s.idx - s.idx)).map
        fun k => (k, s.code (s.τ.getD k 0)) := he
    rcases List.mem_append.mp he' with he | he
    · exact hl.byte e he
    · obtain ⟨k, hk, rfl⟩ := List.mem_map.mp he
      obtain ⟨hk1, hk2⟩ := List.mem_range'_1.mp hk
      have hk3 : k < firstTrap s.code s.τ s.idx := by omega
      have hkl : k < s.τ.length := by omega
      show s.code (s.τ.getD k 0) = orig (s.τ.getD k 0)
      rw [getD_of_lt _ _ hkl]
      have hne : (s.code s.τ[k] == INT3) = false :=
        firstFrom_min (fun a => s.code a == INT3) s.τ s.idx k hk1 hk3 hkl
      have ht := h.text s.τ[k]
      split at ht
      · rw [ht] at hne; simp at hne
      · exact ht

/-- the log after `step_over_breakpoint` at a registered breakpoint -/
theorem stepOver_at_execd {orig s} (hinv : Inv orig s) (ho : Bytes orig) (p : Addr) (b : Bp)
    (hp : pc s = some p) (hf : find? s.active p = some b) :
    (stepOverBreakpoint s).execd = if orig p = INT3 then s.execd else s.execd ++ [(s.idx, orig p)] := by
  have hb := find?_some hf
  have hen := hinv.allEn b hb.1
  have hsv : b.saved = orig p := by rw [hinv.saved b hb.1, hb.2]
  have hbytes := hinv.bytes ho
  have hc1 : (bpDisable s b).1.code = s.code.set p (orig p) := by
    rw [bpDisable_code s b hbytes (by rw [hsv]; exact ho _), hb.2, hsv]
  let s1' : St := { (bpDisable s b).1 with active := put s.active (bpDisable s b).2 }
  have hpc1 : pc s1' = some p := hp
  have hc1p : s1'.code p = orig p := by show (bpDisable s b).1.code p = _; rw [hc1, set_apply]; simp
  have hs2 : singleStep s1' = if orig p == INT3 then s1'
      else { s1' with idx := s1'.idx + 1, execd := s1'.execd ++ [(s1'.idx, orig p)] } := by
    rw [singleStep_spec s1' p hpc1, hc1p]
  have e : stepOverBreakpoint s
      = { (bpEnable (singleStep s1') (bpDisable s b).2).1 with
          active := put (singleStep s1').active (bpEnable (singleStep s1') (bpDisable s b).2).2 } := by
    unfold stepOverBreakpoint; rw [hp]; simp only [hf, hen, if_true]; rfl
  rw [e]
  show (singleStep s1').execd = _
  rw [hs2]
  by_cases hcc : orig p = INT3
  · simp [hcc]; rfl
  · simp [hcc]; exact ⟨rfl, rfl⟩

theorem stepOver_log {orig s} (h : Inv orig s) (ho : Bytes orig) (hl : LogOk orig s) :
    LogOk orig (stepOverBreakpoint s) := by
  cases hp : pc s with
  | none => rw [stepOver_noop_pc s hp]; exact hl
  | some p =>
    cases hf : find? s.active p with
    | none => rw [stepOver_noop_find s p hp hf]; exact hl
    | some b =>
      obtain ⟨_, _, _, g4, g5, _, _, _⟩ := stepOver_at h ho p b hp hf
      have ge := stepOver_at_execd h ho p b hp hf
      obtain ⟨hlt, hpe⟩ := pc_some hp
      by_cases hcc : orig p = INT3
      · rw [if_pos hcc] at g4 ge
        exact hl.congr ge g4 g5
      · rw [if_neg hcc] at g4 ge
        refine ⟨?_, ?_⟩
        · rw [ge, g4, List.map_append, hl.pos, List.range_succ]; rfl
        · rw [ge, g5]
          intro e he
          rcases List.mem_append.mp he with he | he
          · exact hl.byte e he
          · rw [List.mem_singleton.mp he]
            show orig p = orig (s.τ.getD s.idx 0)
            rw [getD_of_lt _ _ hlt, hpe]

theorem traceLoop_log {orig} (ho : Bytes orig) : ∀ (fuel : Nat) (s : St), Inv orig s → LogOk orig s →
    LogOk orig (traceLoop fuel s).1 := by
  intro fuel
  induction fuel with
  | zero => intro s _ hl; exact hl
  | succ f ih =>
    intro s h hl
    have h1 := run_inv h
    have l1 := run_log h hl
    cases hp : pc (run s) with
    | none => rw [traceLoop_exit f s hp]; exact l1.congr rfl rfl rfl
    | some p =>
      cases hf : find? (run s).active p with
      | none => rw [traceLoop_corrupt f s p hp hf]; exact l1
      | some b =>
        by_cases hk : b.kind = .entry
        · rw [traceLoop_entry f s p b hp hf hk]
          obtain ⟨e1, e2, e3, _⟩ := enableAll_spec h1 ho
          have l2 : LogOk orig (enableAll (run s)) := l1.congr (enableAll_execd _) e3 e2
          obtain ⟨g1, _⟩ := stepOver_gen e1 ho
          exact ih _ g1 (stepOver_log e1 ho l2)
        · rw [traceLoop_stop f s p b hp hf hk]; exact l1

theorem exec_log {orig s} (ho : Bytes orig) (h : GInv orig s) (hl : LogOk orig s) (op : Op) :
    LogOk orig (exec s op).1 := by
  have hl0 : LogOk orig { s with pokes := [] } := hl.congr rfl rfl rfl
  cases op with
  | brk a =>
    cases hs : s.status with
    | inProgress =>
      have e : exec s (.brk a) = (addAndEnable { s with pokes := [] } { addr := a, kind := .user }, .ok) := by
        simp only [exec, hs]
      rw [e]
      have hf := addAndEnable_frame { s with pokes := [] } { addr := a, kind := .user }
      exact hl0.congr (addAndEnable_execd _ _) hf.idx hf.τ
    | unload =>
      have e : exec s (.brk a) = (addUninit { s with pokes := [] } ⟨false, a⟩ .user, .ok) := by
        simp only [exec, hs]
      rw [e]; exact hl.congr rfl rfl rfl
    | exited =>
      have e : exec s (.brk a) = (addUninit { s with pokes := [] } ⟨false, a⟩ .user, .ok) := by
        simp only [exec, hs]
      rw [e]; exact hl.congr rfl rfl rfl
  | remove a =>
    rw [exec_remove_eq]
    have h0 : GInv orig { s with pokes := [] } := h.congr rfl rfl rfl rfl rfl
    obtain ⟨_, r2, _, r4, _⟩ := removeByAddr_ginv ho h0 a
    exact hl0.congr (removeByAddr_execd _ _) r4 r2
  | start =>
    cases hs : s.status with
    | unload =>
      have e : exec s .start = traceLoop (fuelFor { s with pokes := [] })
          (enableEntry { ({ s with pokes := [] } : St) with status := .inProgress }) := by
        simp only [exec, hs]
      rw [e]
      have hinv : Inv orig { ({ s with pokes := [] } : St) with status := .inProgress } :=
        (h.live (by rw [hs]; decide)).congr rfl rfl rfl rfl
      obtain ⟨e1, e2, _, e4, _⟩ := enableEntry_inv ho hinv
      exact traceLoop_log ho _ _ e1 (hl.congr (enableEntry_execd _) e4 e2)
    | inProgress =>
      have e : exec s .start = ({ s with pokes := [] }, .err) := by simp only [exec, hs]
      rw [e]; exact hl0
    | exited =>
      have e : exec s .start = ({ s with pokes := [] }, .err) := by simp only [exec, hs]
      rw [e]; exact hl0
  | cont =>
    cases hs : s.status with
    | inProgress =>
      have e : exec s .cont = traceLoop (fuelFor { s with pokes := [] })
          (stepOverBreakpoint { s with pokes := [] }) := by
        simp only [exec, hs]
      rw [e]
      have hinv : Inv orig { s with pokes := [] } :=
        (h.live (by rw [hs]; decide)).congr rfl rfl rfl rfl
      obtain ⟨g1, _⟩ := stepOver_gen hinv ho
      exact traceLoop_log ho _ _ g1 (stepOver_log hinv ho hl0)
    | unload =>
      have e : exec s .cont = ({ s with pokes := [] }, .err) := by simp only [exec, hs]
      rw [e]; exact hl0
    | exited =>
      have e : exec s .cont = ({ s with pokes := [] }, .err) := by simp only [exec, hs]
      rw [e]; exact hl0

theorem execAll_log {orig} (ho : Bytes orig) : ∀ (ops : List Op) (s : St), GInv orig s → LogOk orig s →
    LogOk orig (execAll s ops).1 := by
  intro ops
  induction ops with
  | nil => intro s _ hl; exact hl
  | cons op ops ih =>
    intro s h hl
    rw [execAll_cons]
    exact ih _ (exec_ginv ho h op).1 (exec_log ho h hl op)

theorem init_log (τ : List Addr) (entry : Addr) (orig : Code) (x : Nat) : LogOk orig (init τ entry orig x) :=
  ⟨rfl, fun e he => by cases he⟩

/-- a log satisfying `LogOk`, written out -/
theorem LogOk.eq {orig s} (h : LogOk orig s) :
    s.execd = (List.range s.idx).map (fun k => (k, orig (s.τ.getD k 0))) := by
  rw [← h.pos, List.map_map]
  conv => lhs; rw [← List.map_id s.execd]
  apply List.map_congr_left
  intro e he
  show e = (e.1, orig (s.τ.getD e.1 0))
  rw [← h.byte e he]


end BsVerif.Bp
