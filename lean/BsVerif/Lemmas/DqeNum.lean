import BsVerif.Lemmas.DqeLex
/-! Decimal tokens: printing a number and scanning/converting it back. -/
namespace BsVerif.Dqe

theorem toDigs_lt (b : Nat) (hb : 2 ≤ b) (f n : Nat) : ∀ d ∈ toDigs b f n, d < b := by
  induction f generalizing n with
  | zero => intro d hd; simp [toDigs] at hd; subst hd; exact Nat.mod_lt _ (by omega)
  | succ f ih =>
    intro d hd
    rw [toDigs] at hd
    split at hd
    · simp at hd; omega
    · simp only [List.mem_append, List.mem_singleton] at hd
      rcases hd with hd | rfl
      · exact ih _ d hd
      · exact Nat.mod_lt _ (by omega)

theorem parseDigits_snoc (b bits : Nat) (ds : List Nat) (d acc : Nat) :
    parseDigits b bits (ds ++ [d]) acc =
      match parseDigits b bits ds acc with
      | some v => if v * b + d < 2 ^ bits then some (v * b + d) else none
      | none => none := by
  induction ds generalizing acc with
  | nil => simp [parseDigits]
  | cons x xs ih =>
    simp only [List.cons_append, parseDigits]
    split
    · exact ih _
    · rfl

theorem parseDigits_toDigs (b bits : Nat) (hb : 2 ≤ b) (f n : Nat) (hf : n ≤ f) (hn : n < 2 ^ bits) :
    parseDigits b bits (toDigs b f n) 0 = some n := by
  induction f generalizing n with
  | zero =>
    have : n = 0 := by omega
    subst this
    simp [toDigs, parseDigits, hn]
  | succ f ih =>
    rw [toDigs]
    split
    · simp [parseDigits, hn]
    · next hge =>
      have hdiv : n / b ≤ f := by
        have : n / b ≤ n / 2 := Nat.div_le_div_left hb (by omega)
        omega
      have hlt : n / b < 2 ^ bits := Nat.lt_of_le_of_lt (Nat.div_le_self _ _) hn
      rw [parseDigits_snoc, ih _ hdiv hlt]
      have : n / b * b + n % b = n := by rw [Nat.mul_comm]; exact Nat.div_add_mod n b
      simp [this, hn]

/-- the first digit of a positive number is not zero -/
theorem toDigs_head (b : Nat) (hb : 2 ≤ b) (f n : Nat) (hf : n ≤ f) (hn : 1 ≤ n) :
    ∃ d ds, toDigs b f n = d :: ds ∧ 1 ≤ d := by
  induction f generalizing n with
  | zero => omega
  | succ f ih =>
    rw [toDigs]
    split
    · exact ⟨n, [], rfl, hn⟩
    · next hge =>
      have hdiv : n / b ≤ f := by
        have : n / b ≤ n / 2 := Nat.div_le_div_left hb (by omega)
        omega
      have h1 : 1 ≤ n / b := by
        have : b ≤ n := by omega
        exact (Nat.le_div_iff_mul_le (by omega)).mpr (by omega)
      obtain ⟨d, ds, h, hd⟩ := ih _ hdiv h1
      exact ⟨d, ds ++ [n % b], by rw [h]; rfl, hd⟩

theorem digitChar_facts : ∀ d, d < 10 → isDigit (digitChar d) = true ∧ decVal (digitChar d) = d ∧
    ((digitChar d == '0') = decide (d = 0)) ∧ isWs (digitChar d) = false ∧ digitChar d ≠ ')' := by decide

theorem natText_zero : natText 0 = ['0'] := by decide

theorem natText_all_digits (n : Nat) : (natText n).all isDigit = true := by
  simp only [natText, List.all_map, List.all_eq_true]
  intro d hd
  exact (digitChar_facts d (toDigs_lt 10 (by omega) n n d hd)).1

theorem natText_map_decVal (n : Nat) : (natText n).map decVal = toDigs 10 n n := by
  simp only [natText, List.map_map]
  conv => rhs; rw [← List.map_id (toDigs 10 n n)]
  apply List.map_congr_left
  intro d hd
  exact (digitChar_facts d (toDigs_lt 10 (by omega) n n d hd)).2.1

/-- the next character (if any) is not a digit -/
def stopsDigits : Str → Bool
  | [] => true
  | c :: _ => !isDigit c

theorem scanInt_natText (n : Nat) (rest : Str) (hr : stopsDigits rest = true) :
    scanInt (natText n ++ rest) = some (natText n, rest) := by
  by_cases h0 : n = 0
  · subst h0; simp [natText_zero, scanInt]
  · obtain ⟨d, ds, hds, hd⟩ := toDigs_head 10 (by omega) n n (Nat.le_refl _) (by omega)
    have hall := natText_all_digits n
    have hlt := toDigs_lt 10 (by omega) n n d (by rw [hds]; simp)
    have hfacts := digitChar_facts d hlt
    simp only [natText, hds, List.map_cons, List.all_cons, Bool.and_eq_true] at hall ⊢
    have hnz : (digitChar d == '0') = false := by rw [hfacts.2.2.1]; simp; omega
    have := takeWhile_append_stop isDigit (ds.map digitChar) rest hall.2 (by
      intro x r hx; subst hx; simpa [stopsDigits] using hr)
    simp [scanInt, hnz, hfacts.1, this.1, this.2]

theorem parseDec_natText (n : Nat) (hn : n < 2 ^ 64) : parseDigits 10 64 ((natText n).map decVal) 0 = some n := by
  rw [natText_map_decVal]; exact parseDigits_toDigs 10 64 (by omega) n n (Nat.le_refl _) hn

end BsVerif.Dqe
