import BsVerif.Props.C06
/-!
Structural induction over the type graph: plain structures, arrays and integer scalars, nested to any depth.

`Shows c d id bs v` is the layout-level ground truth ("the program holds `v` at type `id` in the bytes `bs`"), written
declaratively: an integer is its little-endian two's-complement image, a structure holds each member at its constant
offset, an array holds element `j` at `j * size`.  The theorem says the decoder (an algorithm with chunking,
`filter_map`, offsets, sizes from the graph) shows exactly `v`.
-/
namespace BsVerif.Value

def Shows (c : Ctx) : Nat → Nat → Bytes → Val → Prop
  | 0, _, _, _ => False
  | d + 1, id, bs, v =>
    match c.g id with
    | some (.scalar name ns (some w) (some 7)) =>
      ∃ k n, 0 < w ∧ intKind false w name = some k ∧ n < 256 ^ w ∧ bs = leBytes w n ∧
        v = .scalar (Ident.show ⟨ns, name⟩) (some (.num k n))
    | some (.scalar name ns (some w) (some 5)) =>
      ∃ k i, 0 < w ∧ intKind true w name = some k ∧ -((2 ^ (8 * w - 1) : Nat) : Int) ≤ i ∧ i < ((2 ^ (8 * w - 1) : Nat) : Int) ∧
        bs = leBytes w (twos w i) ∧ v = .scalar (Ident.show ⟨ns, name⟩) (some (.num k i))
    | some (.struct name ns _ members tps) =>
      specKind c.ver name ns = .plain ∧
      ∃ vals : List Val, vals.length = members.length ∧
        v = .struct (c.ident id).show (members.map (·.name)) vals tps ∧
        ∀ i (h : i < members.length) (h' : i < vals.length), ∃ o t s : Nat,
          members[i].loc = some (some ((o : Nat) : Int)) ∧ members[i].ty = some t ∧ c.size t = some s ∧ o + s ≤ bs.length ∧
          Shows c d t ((bs.drop o).take s) vals[i]
    | some (.array _ (some el) lb (some len) (some total)) =>
      ∃ (n elsz : Nat) (items : List Val), 0 < n ∧ len = (n : Int) ∧ 0 < elsz ∧ c.size el = some elsz ∧ total = n * elsz ∧
        bs.length = total ∧ items.length = n ∧ v = .array (c.ident id).show (lb.getD 0) items ∧
        ∀ j (h : j < items.length), Shows c d el ((bs.drop (j * elsz)).take elsz) items[j]
    | _ => False

theorem parseMembers_all (c : Ctx) (rec : Rec) (d : Option Data) (members : List Member) (vals : List Val)
    (hl : vals.length = members.length)
    (h : ∀ i (h : i < members.length) (h' : i < vals.length), parseMember c rec members[i] d = some (members[i].name, vals[i])) :
    parseMembers c rec d members = (members.map (·.name)).zip vals := by
  induction members generalizing vals with
  | nil => simp [parseMembers]
  | cons m ms ih =>
    cases vals with
    | nil => simp at hl
    | cons v vs =>
      have h0 := h 0 (by simp) (by simp)
      simp only [List.getElem_cons_zero] at h0
      simp only [parseMembers, h0, List.map_cons, List.zip_cons_cons]
      congr 1
      apply ih vs (by simpa using hl)
      intro i hi hi'
      have := h (i + 1) (by simp; omega) (by simp; omega)
      simpa using this

theorem chunks_getElem (el : Nat) (hel : 0 < el) : ∀ (n : Nat) (bs : Bytes), bs.length = n * el →
    (chunks el n bs).length = n ∧ ∀ j (h : j < n), (chunks el n bs)[j]? = some ((bs.drop (j * el)).take el) := by
  intro n
  induction n with
  | zero => intro bs _; simp [chunks]
  | succ n ih =>
    intro bs hb
    have hlen : (bs.drop el).length = n * el := by
      simp [hb, Nat.succ_mul]
    obtain ⟨h1, h2⟩ := ih (bs.drop el) hlen
    refine ⟨by simp [chunks, h1], ?_⟩
    intro j hj
    cases j with
    | zero => simp [chunks]
    | succ j =>
      simp only [chunks, List.getElem?_cons_succ]
      rw [h2 j (by omega), List.drop_drop]
      have : el + j * el = (j + 1) * el := by rw [Nat.succ_mul]; omega
      rw [this]

theorem parseItems_all (rec : Rec) (el elSize : Nat) (base : Option Nat) (blocks : List Bytes) (items : List Val)
    (hl : items.length = blocks.length)
    (h : ∀ j (h : j < blocks.length) (h' : j < items.length) (a : Option Nat), rec (some ⟨blocks[j], a⟩) el = some items[j]) :
    ∀ i, parseItems rec el elSize base i blocks = items := by
  induction blocks generalizing items with
  | nil => intro i; cases items with | nil => simp [parseItems] | cons _ _ => simp at hl
  | cons b rest ih =>
    intro i
    cases items with
    | nil => simp at hl
    | cons v vs =>
      have h0 := h 0 (by simp) (by simp) (base.map (· + i * elSize))
      simp only [List.getElem_cons_zero] at h0
      simp only [parseItems, h0]
      congr 1
      apply ih vs (by simpa using hl)
      intro j hj hj' a
      have := h (j + 1) (by simp; omega) (by simp; omega) a
      simpa using this

/-- **C06_struct_array_enum (structures, arrays, integers; any nesting depth)**: whenever the bytes hold `v` at type `id`
    in the layout sense (`Shows`), the decoder run with fuel `d` shows exactly `v` — by induction over the depth, for
    every type graph, every offset table, every element count and size, every address. -/
theorem decode_shows (c : Ctx) : ∀ (d id : Nat) (bs : Bytes) (v : Val), Shows c d id bs v →
    ∀ a : Option Nat, parseInner c d (some ⟨bs, a⟩) id = some v := by
  intro d
  induction d with
  | zero => intro id bs v h; exact absurd h (by simp [Shows])
  | succ d ih =>
    intro id bs v h a
    unfold Shows at h
    rw [parseInner]
    split at h
    · next name ns w hg =>
      obtain ⟨k, n, hw, hk, hn, hbs, hv⟩ := h
      simp only [hg]
      rw [hbs, hv, C06_scalar_model_unsigned w k name a n hk hw hn]
    · next name ns w hg =>
      obtain ⟨k, i, hw, hk, lo, hi, hbs, hv⟩ := h
      simp only [hg]
      rw [hbs, hv, C06_scalar_model_signed w k name a i hk hw lo hi]
    · next name ns sz members tps hg =>
      obtain ⟨hplain, vals, hl, hv, hm⟩ := h
      simp only [hg, hplain]
      rw [hv]
      have hpm : parseMembers c (parseInner c d) (some ⟨bs, a⟩) members = (members.map (·.name)).zip vals := by
        apply parseMembers_all c _ _ members vals hl
        intro i hi hi'
        obtain ⟨o, t, s, hloc, hty, hsz, hle, hsh⟩ := hm i hi hi'
        have hmd : memberData c members[i] ⟨bs, a⟩ = some ⟨(bs.drop o).take s, a.map (· + o)⟩ := by
          have hnn : ¬ ((o : Int) < 0) := by omega
          simp [memberData, hty, hloc, hsz, hnn, sliceBytes, hle]
        simp only [parseMember, hty, Option.bind_some, hmd]
        rw [ih t _ _ hsh]
        rfl
      simp only [parseStruct, hpm]
      congr 2
      · rw [List.map_fst_zip]; simp [hl]
      · rw [List.map_snd_zip]; simp [hl]
    · next ns el lb len total hg =>
      obtain ⟨n, elsz, items, hn, hlen, hel, hsz, htot, hbl, hil, hv, hit⟩ := h
      simp only [hg]
      rw [hv]
      have hsize : c.size id = some total := by simp [Ctx.size, typeSize, tyFuel, hg]
      have hne : ¬ (len = 0) := by omega
      have hnn : ¬ (len < 0) := by omega
      have hdiv : total / len.toNat = elsz := by
        rw [hlen, Int.toNat_natCast, htot]
        exact Nat.mul_div_cancel_left elsz hn
      have hcnt : (bs.length + elsz - 1) / elsz = n := by
        rw [hbl, htot]
        have : n * elsz + elsz - 1 = elsz * n + (elsz - 1) := by rw [Nat.mul_comm]; omega
        rw [this, Nat.mul_add_div hel, Nat.div_eq_of_lt (by omega)]
        rfl
      have hz : ¬ (elsz = 0) := by omega
      simp only [hne, hnn, if_false, hsize, hdiv, hz, hcnt]
      obtain ⟨hc1, hc2⟩ := chunks_getElem elsz hel n bs (by rw [hbl, htot])
      have hitems : parseItems (parseInner c d) el elsz a 0 (chunks elsz n bs) = items := by
        apply parseItems_all _ el elsz a _ items (by rw [hil, hc1])
        intro j hj hj' a'
        have hjn : j < n := by omega
        have hcj := hc2 j hjn
        have hget : (chunks elsz n bs)[j] = (bs.drop (j * elsz)).take elsz := by
          have := List.getElem?_eq_getElem hj
          rw [this] at hcj
          exact Option.some.inj hcj
        rw [hget]
        exact ih el _ _ (hit j hj') a'
      rw [hitems]
    · exact absurd h (by simp)

end BsVerif.Value
