import BsVerif.Model.Lines
/-!
Helper lemmas for C04: correctness of the `core::slice::binary_search_by` loop on every sorted key function,
and its consequences for the row / range lookups.  Core Lean only.
-/
namespace BsVerif.Lines

/-- the first `len` keys are sorted (non-strictly) -/
def SortedKey (key : Nat → Nat) (len : Nat) : Prop := ∀ i j, i ≤ j → j < len → key i ≤ key j

/-- invariant of the size-halving loop, for every sorted key function:
the result stays inside `[base, base+size)`, everything to its right is greater than the target,
it is ≤ the target if `key base` is, and it is `base` itself if `key base` is greater. -/
theorem bsLoop_spec (key : Nat → Nat) (t len : Nat) (hs : SortedKey key len) :
    ∀ fuel size base, size ≤ fuel → 0 < size → base + size ≤ len →
      (∀ j, base + size ≤ j → j < len → t < key j) →
      base ≤ bsLoop key t fuel size base ∧ bsLoop key t fuel size base < base + size ∧
      (∀ j, bsLoop key t fuel size base < j → j < len → t < key j) ∧
      (key base ≤ t → key (bsLoop key t fuel size base) ≤ t) ∧
      (t < key base → bsLoop key t fuel size base = base) := by
  intro fuel
  induction fuel with
  | zero => intro size base h1 h2; omega
  | succ fuel ih =>
    intro size base hf hpos hle hab
    unfold bsLoop
    by_cases h1 : 1 < size
    · simp only [h1, if_true]
      have hhalf : 0 < size / 2 := by omega
      by_cases hc : t < key (base + size / 2)
      · simp only [hc, if_true]
        have hab' : ∀ j, base + (size - size / 2) ≤ j → j < len → t < key j := by
          intro j hj hjl
          have : key (base + size / 2) ≤ key j := hs _ _ (by omega) hjl
          omega
        have := ih (size - size / 2) base (by omega) (by omega) (by omega) hab'
        refine ⟨this.1, by omega, this.2.2.1, this.2.2.2.1, this.2.2.2.2⟩
      · simp only [hc, if_false]
        have hab' : ∀ j, (base + size / 2) + (size - size / 2) ≤ j → j < len → t < key j := by
          intro j hj hjl; exact hab j (by omega) hjl
        have := ih (size - size / 2) (base + size / 2) (by omega) (by omega) (by omega) hab'
        have hmid : key (base + size / 2) ≤ t := by omega
        have hbm : key base ≤ key (base + size / 2) := hs _ _ (by omega) (by omega)
        refine ⟨by omega, by omega, this.2.2.1, fun _ => this.2.2.2.1 hmid, fun hb => by omega⟩
    · simp only [h1, if_false]
      have : size = 1 := by omega
      subst this
      refine ⟨by omega, by omega, fun j hj hjl => hab j (by omega) hjl, fun h => h, fun _ => trivial⟩

/-- `Ok(i)`: `i` is the LAST index whose key equals the target. -/
theorem binarySearch_found {key : Nat → Nat} {len t i : Nat} (hs : SortedKey key len)
    (h : binarySearch key len t = .found i) :
    i < len ∧ key i = t ∧ ∀ j, i < j → j < len → t < key j := by
  unfold binarySearch at h
  by_cases h0 : len = 0
  · simp [h0] at h
  · simp only [h0, if_false] at h
    have sp := bsLoop_spec key t len hs len len 0 (Nat.le_refl _) (by omega) (by omega) (by intro j hj hjl; omega)
    by_cases he : key (bsLoop key t len len 0) = t
    · simp only [he, if_true] at h
      injection h with h; subst h
      exact ⟨by omega, he, sp.2.2.1⟩
    · simp only [he, if_false] at h; cases h

/-- `Err(i)`: `i` is the insertion point: everything before is smaller, everything from `i` on is greater. -/
theorem binarySearch_notFound {key : Nat → Nat} {len t i : Nat} (hs : SortedKey key len)
    (h : binarySearch key len t = .notFound i) :
    i ≤ len ∧ (∀ j, j < i → key j < t) ∧ (∀ j, i ≤ j → j < len → t < key j) := by
  unfold binarySearch at h
  by_cases h0 : len = 0
  · simp only [h0, if_true] at h
    injection h with h; subst h
    exact ⟨by omega, by intro j hj; omega, by intro j _ hj; omega⟩
  · simp only [h0, if_false] at h
    have sp := bsLoop_spec key t len hs len len 0 (Nat.le_refl _) (by omega) (by omega) (by intro j hj hjl; omega)
    by_cases he : key (bsLoop key t len len 0) = t
    · simp only [he, if_true] at h; cases h
    · simp only [he, if_false] at h
      injection h with h
      by_cases hl : key (bsLoop key t len len 0) < t
      · simp only [hl, if_true] at h
        subst h
        refine ⟨by omega, ?_, ?_⟩
        · intro j hj
          have : key j ≤ key (bsLoop key t len len 0) := hs _ _ (by omega) (by omega)
          omega
        · intro j hj hjl; exact sp.2.2.1 j (by omega) hjl
      · simp only [hl, if_false] at h
        have hgt : t < key (bsLoop key t len len 0) := by omega
        have h00 : ¬ key 0 ≤ t := fun h0' => by have := sp.2.2.2.1 h0'; omega
        have hb : bsLoop key t len len 0 = 0 := sp.2.2.2.2 (by omega)
        rw [hb] at h
        subst h
        refine ⟨by omega, by intro j hj; omega, ?_⟩
        intro j _ hjl
        have : key 0 ≤ key j := hs _ _ (by omega) hjl
        omega

end BsVerif.Lines

namespace BsVerif.Lines

theorem keyOf_some {α} {a : Array α} {k : α → Nat} {i : Nat} {x : α} (h : a[i]? = some x) : keyOf a k i = k x := by
  simp [keyOf, h]

theorem getElem?_of_lt {α} (a : Array α) {i : Nat} (h : i < a.size) : ∃ x, a[i]? = some x :=
  ⟨a[i], by simp [h]⟩

theorem lt_of_getElem? {α} {a : Array α} {i : Nat} {x : α} (h : a[i]? = some x) : i < a.size := by
  by_cases hi : i < a.size
  · exact hi
  · simp [Array.getElem?_eq_none (Nat.le_of_not_lt hi)] at h

/-- rows sorted by address (what `sort_unstable_by_key(|x| x.address)` establishes) -/
def RowsSorted (rows : Array Row) : Prop := SortedKey (keyOf rows (·.addr)) rows.size

/-- the index `find_place_by_pc` looks at is the greatest index whose address is ≤ pc -/
theorem pcPos_spec (rows : Array Row) (pc : Nat) (hs : RowsSorted rows) (hne : 0 < rows.size)
    (h0 : keyOf rows (·.addr) 0 ≤ pc) :
    pcPos rows pc < rows.size ∧ keyOf rows (·.addr) (pcPos rows pc) ≤ pc ∧
      ∀ j, pcPos rows pc < j → j < rows.size → pc < keyOf rows (·.addr) j := by
  unfold pcPos
  cases hbs : binarySearch (keyOf rows (·.addr)) rows.size pc with
  | found p =>
    have := binarySearch_found hs hbs
    dsimp only
    exact ⟨this.1, by omega, this.2.2⟩
  | notFound p =>
    have := binarySearch_notFound hs hbs
    have hp : p ≠ 0 := by
      intro hp; subst hp
      have := this.2.2 0 (Nat.le_refl _) hne
      omega
    dsimp only
    refine ⟨by omega, ?_, ?_⟩
    · have := this.2.1 (p - 1) (by omega); omega
    · intro j hj hjl; exact this.2.2 j (by omega) hjl

end BsVerif.Lines
