import BsVerif.Core.Proto
import BsVerif.Model.DapArgs
/-! Line-protocol adapter of the DAP argument-decoding model (C08, DAP leg).

`C08D new <sid> <current|asfound|repaired>`            → `ok` (fresh session; `current` = the code as it is)
`C08D msg <class> <trans> <t0|t1> <json tokens ...>`   → outcome class of the message

The first three tokens after `msg` are hints written by the harness from the observed wire: the class of the
answer (used only where the model says "handed to the debugger"), whether a `stopped` / `exited` event followed
(`stop` / `exit` / `-`), and whether the `completions` answer had items carrying `start`.
JSON values travel in prefix notation, one token per node:
`n` null, `t` / `f` booleans, `i<decimal>` integer literal, `d<hex>` any other number literal (kept as `f64`),
`s<hex of utf-8>` string, `a<k>` array of the next k values, `o<k>` object of the next k pairs (`x<hex>` key, value). -/
namespace Driver.C08D
open BsVerif BsVerif.Proto BsVerif.DapArgs

structure St where
  q : Q := {}
  s : Sess := {}

def decS? (tok : String) : Option (List Char) := (decStr? ("x" ++ (tok.drop 1).toString)).map String.toList

mutual
/-- one value from the token stream (fuel: a token is consumed by every call) -/
def parseJ : Nat → List String → Option (J × List String)
  | 0, _ => none
  | _, [] => none
  | f + 1, t :: rest =>
    -- placeholders: values the harness takes from the wire at run time (a thread id, the id of the top frame,
    -- a variables reference, a line with code, a mapped address, the source path, the program path); the
    -- model sees a representative of the same shape
    if t == "pt" then some (.num 4242, rest)
    else if t == "pf" then some (.num (4242 * 65536), rest)
    else if t == "pv" then some (.num 1, rest)
    else if t == "pl" then some (.num 20, rest)
    else if t == "pm" then some (.str "0x400000".toList, rest)
    else if t == "ps" then some (.str "/c08d/src.rs".toList, rest)
    else if t == "pp" then some (.str "/c08d/prog".toList, rest)
    else if t == "n" then some (.null, rest)
    else if t == "t" then some (.bool true, rest)
    else if t == "f" then some (.bool false, rest)
    else if t.startsWith "i" then
      match decInt? (t.drop 1).toString with
      | some n => if -(2 ^ 63) ≤ n ∧ n < 2 ^ 64 then some (.num n, rest) else some (.flt, rest)
      | none => none
    else if t.startsWith "d" then some (.flt, rest)
    else if t.startsWith "s" then (decS? t).map fun s => (.str s, rest)
    else if t.startsWith "a" then
      match decNat? (t.drop 1).toString with
      | some k => (parseJs f k rest).map fun (xs, r) => (.arr xs, r)
      | none => none
    else if t.startsWith "o" then
      match decNat? (t.drop 1).toString with
      | some k => (parseKVs f k rest).map fun (kvs, r) => (.obj kvs, r)
      | none => none
    else none
def parseJs : Nat → Nat → List String → Option (List J × List String)
  | 0, _, _ => none
  | _, 0, ts => some ([], ts)
  | f + 1, k + 1, ts =>
    match parseJ f ts with
    | some (v, r) => (parseJs f k r).map fun (vs, r') => (v :: vs, r')
    | none => none
def parseKVs : Nat → Nat → List String → Option (List (List Char × J) × List String)
  | 0, _, _ => none
  | _, 0, ts => some ([], ts)
  | f + 1, k + 1, ts =>
    match ts with
    | key :: r0 =>
      if !key.startsWith "x" then none else
      match decS? key, parseJ f r0 with
      | some kk, some (v, r) => (parseKVs f k r).map fun (kvs, r') => ((kk, v) :: kvs, r')
      | _, _ => none
    | [] => none
end

def step (st : St) : List String → St × String
  | ["new", _, "current"] => ({ q := current, s := {} }, "ok")
  | ["new", _, "asfound"] => ({ q := asFound, s := {} }, "ok")
  | ["new", _, "repaired"] => ({ q := repaired, s := {} }, "ok")
  | "msg" :: cls :: trans :: tg :: toks =>
    if tg != "t0" && tg != "t1" then (st, "bad-op") else
    match parseJ (2 * toks.length + 2) toks with
    | some (m, []) =>
      let h : Hint := { cls, trans }
      let (s', o) := stepMsg st.q st.s m h
      ({ st with s := s' }, render o h (tg == "t1"))
    | _ => (st, "bad-op")
  | _ => (st, "bad-op")

end Driver.C08D
