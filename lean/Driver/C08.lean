import BsVerif.Core.Proto
import BsVerif.Model.CmdNum
import BsVerif.Model.SliceBuf
namespace Driver.C08
open BsVerif BsVerif.Proto BsVerif.CmdNum

structure Var where
  name : String
  kind : String
  es : Nat
  items : List Nat

structure St where
  q : Quirks := current
  sq : SliceBuf.Quirks := SliceBuf.current
  vars : List Var := []

/-- nominal address of the pointer variable (a user-space stack address; only "4096 ≤ ptr < 2^47" matters
for the generated bounds) and the largest allocation that can succeed (user address space) -/
def nominalPtr : Nat := 2 ^ 46
def allocMax : Nat := 2 ^ 47

def decBound? (t : String) : Option (Option Nat) := if t == "-" then some none else (decNat? t).map some

def showItems (xs : List Nat) : String := "ok:" ++ encList toString xs

def sliceAnswer (s : St) (v : Var) (l r : Option Nat) : String :=
  if v.kind == "ptr" then
    match r with
    | none => "err"                                   -- "for pointer the right bound must always be specified"
    | some r =>
      match SliceBuf.ptrSlice s.sq allocMax nominalPtr v.es l r with
      | .ok rd =>
        if rd.items == 0 then "ok:-"
        else if l.getD 0 + rd.items ≤ v.items.length then showItems ((v.items.drop (l.getD 0)).take rd.items)
        else "ok:?"
      | .err => "err"
      | .panic f => if f == .allocAbort then "abort" else "panic:" ++ f.name
  else
    match SliceBuf.arraySlice s.sq v.items l r with
    | .ok xs => showItems xs
    | .err => "err"
    | .panic f => "panic:" ++ f.name

def relax (mode a : String) : String :=
  if mode == "n" && (a.startsWith "ok" || a == "err") then "nopanic" else a

def classOf (mode : String) (r : Res) : String :=
  match mode, r with
  | "n", .ok _ => "nopanic"
  | "n", .fail => "nopanic"
  | _, r => r.toString

def step (s : St) : List String → St × String
  | ["new", "cmd", "asfound"] => ({ s with q := asFound }, "ok")
  | ["new", "cmd", "repaired"] => ({ s with q := repaired }, "ok")
  | ["cmd", mode, line] =>
    if mode != "x" && mode != "n" then (s, "bad-op") else
    match decStr? line with
    | some l => (s, classOf mode (parseLine s.q l.toList))
    | none => (s, "bad-op")
  | ["dqe", mode, line] =>
    if mode != "x" && mode != "n" then (s, "bad-op") else
    match decStr? line with
    | some l => (s, classOf mode (parseDqe s.q l.toList))
    | none => (s, "bad-op")
  | ["new", "slice", "asfound"] => ({ s with sq := SliceBuf.asFound, vars := [] }, "ok")
  | ["new", "slice", "repaired"] => ({ s with sq := SliceBuf.repaired, vars := [] }, "ok")
  | ["var", name, kind, es, items] =>
    if kind != "array" && kind != "vec" && kind != "ptr" then (s, "bad-op") else
    match decNat? es, decList? decNat? items with
    | some es, some items => ({ s with vars := { name, kind, es, items } :: s.vars }, "ok")
    | _, _ => (s, "bad-op")
  | ["slice", mode, name, l, r] =>
    if mode != "x" && mode != "n" then (s, "bad-op") else
    match s.vars.find? (·.name == name), decBound? l, decBound? r with
    | some v, some l, some r => (s, relax mode (sliceAnswer s v l r))
    | _, _, _ => (s, "bad-op")
  | ["index", name, i] =>
    match s.vars.find? (·.name == name), decInt? i with
    | some v, some i =>
      if v.kind == "ptr" then (s, "err") else
      match SliceBuf.arrayIndex v.items.length i with
      | some k => (s, showItems [v.items.getD k 0])
      | none => (s, "err")
    | _, _ => (s, "bad-op")
  | _ => (s, "bad-op")

end Driver.C08
