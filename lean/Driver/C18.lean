import BsVerif.Core.Proto
import BsVerif.Model.RelocSession
namespace Driver.C18
open BsVerif BsVerif.Proto BsVerif.Reloc BsVerif.RelocS

structure St where
  s : RelocS.St := {}

def hex (n : Nat) : String := String.ofList (Nat.toDigits 16 n)

def insSorted (x : Nat) : List Nat → List Nat
  | [] => [x]
  | y :: ys => if x ≤ y then x :: y :: ys else y :: insSorted x ys
def sortNat (l : List Nat) : List Nat := l.foldr insSorted []

def showOut : Out → String
  | .ok => "ok" | .uninit => "uninit" | .active => "active" | .deferred => "deferred" | .nosuit => "nosuit"
  | .err => "err" | .skip => "skip" | .blind => "model-blind"
  | .stop a => "stop " ++ hex a
  | .exit c => "exit " ++ toString c

def showState (s : RelocS.St) : String :=
  let i := encList hex (sortNat s.patched)
  let gs := sortNat (s.uninit.filterMap (fun u => match u.kind, u.addr with | .user, .glob g => some g | _, _ => none))
  let rs := sortNat ((s.uninit.filterMap (fun u => match u.kind, u.addr with | .user, .rel a => some a | _, _ => none)) ++
                     (s.active.filterMap (fun b => if b.kind == .user then some b.addr else none)))
  let b := if s.status == .exited && s.staleExit then "unstable"
           else encList id (gs.map (fun g => "g" ++ hex g) ++ rs.map (fun a => "r" ++ hex a))
  let l := encList (fun f => match (s.reg.ranges.find? (fun x => x.obj == f)) with
      | some x => toString f ++ ":" ++ hex x.lo ++ ":" ++ hex x.hi
      | none => toString f ++ ":-") (sortNat s.reg.files)
  " i=" ++ i ++ " b=" ++ b ++ " l=" ++ l

def decMap? (t : String) : Option MapE :=
  match t.splitOn ":" with
  | [o, a, b] => match decNat? o, hexNat? a, hexNat? b with
    | some o, some a, some b => some ⟨o, a, b⟩
    | _, _, _ => none
  | _ => none

def decPlace? (t : String) : Option (Nat × Nat) :=
  match t.splitOn ":" with
  | [o, a] => match decNat? o, hexNat? a with
    | some o, some a => some (o, a)
    | _, _ => none
  | _ => none

def decOp? (t : String) : Option Op :=
  match t.toList with
  | 'L' :: r => (String.ofList r).toNat?.map Op.load
  | 'U' :: r => (String.ofList r).toNat?.map Op.unload
  | 'V' :: r => match (String.ofList r).splitOn ":" with
    | [o, f] => match o.toNat?, f.toNat? with
      | some o, some f => some (Op.visit o f)
      | _, _ => none
    | _ => none
  | _ => none

def answer (p : RelocS.St × Out) : St × String := ({ s := p.1 }, showOut p.2 ++ showState p.1)

def step (st : St) : List String → St × String
  | ["new", _prog, _script, entry, interp, exitc, ldd, rbrk, ops] =>
    match hexNat? entry, decNat? interp, decNat? exitc, decList? decNat? ldd, decList? decOp? ops with
    | some e, some it, some x, some ldd, some ops =>
      let rb := if rbrk == "-" then none else decPlace? rbrk
      ({ s := { entry := e, interp := it != 0, exitCode := x, rbrk := rb, ops := ops,
                uninit := [⟨.glob e, none, .entry⟩],
                reg := { program := 0, files := [0] ++ ldd.filter (· != 0) } } }, "ok")
    | _, _, _, _, _ => (st, "bad-op")
  | ["obj", id, v0, parse, _path] =>
    match decNat? id, hexNat? v0, decNat? parse with
    | some id, some v0, some p =>
      let s := st.s
      -- objects that cannot be parsed (the vdso) never enter the registry
      let files := if p == 0 then s.reg.files.filter (· != id) else s.reg.files
      ({ s := { s with objs := s.objs ++ [⟨id, v0, p != 0⟩], reg := { s.reg with files := files } } }, "ok")
    | _, _, _ => (st, "bad-op")
  | ["fn", f, places] =>
    match decNat? f, decList? decPlace? places with
    | some f, some ps => ({ s := { st.s with fns := st.s.fns ++ [(f, ps)] } }, "ok")
    | _, _ => (st, "bad-op")
  | ["req", f] => match decNat? f with
    | some f => if f < 9 then answer (st.s.request f true) else (st, "bad-op")
    | none => (st, "bad-op")
  | ["break", f] => match decNat? f with
    | some f => if f < 9 then answer (st.s.request f false) else (st, "bad-op")
    | none => (st, "bad-op")
  | ["breakat", f, o, a] => match decNat? f, decNat? o with
    | some f, some o =>
      if a == "-" then answer (st.s, .skip)
      else match hexNat? a with
        | some a => answer (st.s.setAddr f o a)
        | none => (st, "bad-op")
    | _, _ => (st, "bad-op")
  | ["start", maps] => match decList? decMap? maps with
    | some m => answer (st.s.start m)
    | none => (st, "bad-op")
  | ["continue", maps] => match decList? decMap? maps with
    | some m => answer (st.s.cont m)
    | none => (st, "bad-op")
  | _ => (st, "bad-op")

end Driver.C18
