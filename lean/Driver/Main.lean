import Driver.C17
/-!
`bsmodel`: one request per line on stdin, one reply per line on stdout.
The first token selects the model area (the property id whose model answers).
-/
open BsVerif.Proto

structure St where
  c17 : Driver.C17.St := {}

def step (s : St) (line : String) : St × String :=
  match tokens line with
  | "C17" :: rest => let (a, out) := Driver.C17.step s.c17 rest; ({ s with c17 := a }, out)
  | _ => (s, "bad-op")

partial def loop (h : IO.FS.Stream) (out : IO.FS.Stream) (s : St) : IO Unit := do
  let line ← h.getLine
  if line.isEmpty then return ()
  let (s', r) := step s line
  out.putStrLn r
  loop h out s'

def main : IO Unit := do
  let out ← IO.getStdout
  loop (← IO.getStdin) out {}
  out.flush
