import BsVerif.Core.Proto
import BsVerif.Model.Scope
import BsVerif.Gen.Dwregs
/-! Line-protocol adapter of `Model/Scope.lean` (area `C19`).  All numbers are hexadecimal.

    new <prog>                                  start a session (forget the program)
    die <id> <parent|-> <tag> <name|-> <ranges> one DIE of a user function's subtree, in document order
                                                 (tag: sub blk inl var par oth; ranges: lo:hi,lo:hi or -)
    loc <id> e <loc>  |  loc <id> l <lo:hi:loc,...>     DW_AT_location of a variable / parameter
    fb <id> <n>                                 DW_AT_frame_base of subprogram <id> is DW_OP_reg<n>
    run <pc|exit> <27 register values> <sp of frames 1,2,..>   a stop: the thread's registers (RegisterMap field order)
                                                 and, per outer frame, the CFA of the frame below it
    frame <k> <pc|noframe>                      select frame k whose pc is <pc> (outer frames: the return address; blocks and
                                                 location lists are then looked up at pc-1); answer: the function DIE
    locals | lookup <name> | args | arg <name>  DIE ids
    read <name> [hint] | readarg <name> [hint]  where the value is read from (address / value); the hint (what the
                                                 implementation showed) is echoed ONLY where this model does not decide: expressions
                                                 outside `Loc`, registers of outer frames other than the stack pointer
    reg2dw <r> | dw2reg <n> | dwmap <n>         the three register tables -/
namespace Driver.C19
open BsVerif BsVerif.Proto BsVerif.Scope

structure RawDie where
  id : Nat
  parent : Option Nat
  info : Info
  deriving Inhabited

structure St where
  dies : Array RawDie := #[]
  locs : List (Nat × LocAttr) := []
  fbs : List (Nat × Nat) := []
  regs0 : List (Option Nat) := []
  sps : List Nat := []
  frame : Nat := 0
  pc : Nat := 0
  fn : Option Nat := none

def decTag? : String → Option Tag
  | "sub" => some .subprogram | "blk" => some .block | "inl" => some .inlined
  | "var" => some .variable | "par" => some .param | "oth" => some .other
  | _ => none

def decOpt? (tok : String) : Option (Option Nat) :=
  if tok == "-" then some none else (hexNat? tok).map some

def decName? (tok : String) : Option (Option Nat) :=
  if tok == "-" then some none
  else match tok.toList with
    | 'x' :: rest => if rest.isEmpty then some (some 0) else (hexNat? (String.ofList rest)).map some
    | _ => none

def decRange? (tok : String) : Option Range :=
  match tok.splitOn ":" with
  | [a, b] => match hexNat? a, hexNat? b with
    | some a, some b => some { lo := a, hi := b }
    | _, _ => none
  | _ => none

def decOff? (s : String) : Option Int :=
  match s.toList with
  | '+' :: r => (hexNat? (String.ofList r)).map fun n => (n : Int)
  | '-' :: r => (hexNat? (String.ofList r)).map fun n => -(n : Int)
  | _ => none

/-- `r5`, `b7+10` (memory at reg+off), `v14+7` (reg+off as value), `f+b8` (fbreg), `c7` (constant), `u` -/
def decLoc? (tok : String) : Option Loc :=
  let splitOff (s : String) : Option (Nat × Int) :=
    let cs := s.toList
    let digits := cs.takeWhile fun c => c != '+' && c != '-'
    let rest := cs.dropWhile fun c => c != '+' && c != '-'
    match hexNat? (String.ofList digits), decOff? (String.ofList rest) with
    | some n, some o => some (n, o)
    | _, _ => none
  match tok.toList with
  | ['u'] => some .unsupported
  | 'r' :: r => (hexNat? (String.ofList r)).map Loc.reg
  | 'c' :: r => (hexNat? (String.ofList r)).map Loc.const
  | 'f' :: r => (decOff? (String.ofList r)).map Loc.fbreg
  | 'b' :: r => (splitOff (String.ofList r)).map fun (n, o) => Loc.breg n o
  | 'v' :: r => (splitOff (String.ofList r)).map fun (n, o) => Loc.bregVal n o
  | _ => none

def decEntry? (tok : String) : Option LocEntry :=
  match tok.splitOn ":" with
  | [a, b, l] => match hexNat? a, hexNat? b, decLoc? l with
    | some a, some b, some l => some { lo := a, hi := b, loc := l }
    | _, _, _ => none
  | _ => none

def hex (n : Nat) : String := String.ofList (Nat.toDigits 16 n)

def childrenOf (s : St) (id : Nat) : List RawDie := s.dies.toList.filter (·.parent == some id)

/-- the subtree of a DIE as a rose tree (fuel = number of DIEs: parents precede children) -/
def build (s : St) : Nat → RawDie → Die
  | 0, d => .node d.info []
  | n + 1, d => .node d.info ((childrenOf s d.id).map (build s n))

def findDie (s : St) (id : Nat) : Option RawDie := s.dies.toList.find? (·.id == id)

/-- function of a pc: the subprogram whose ranges contain it (user functions do not overlap) -/
def fnOfPc (s : St) (pc : Nat) : Option RawDie :=
  s.dies.toList.find? fun d => d.info.tag == Tag.subprogram && inRanges d.info.ranges pc

def curFn (s : St) : Option Die :=
  match s.fn with
  | some id => (findDie s id).map (build s s.dies.size)
  | none => none

def frameRegs (s : St) : FrameRegs := Scope.frameRegs s.regs0 s.sps s.frame

/-- the pc of the scope filter and of the location-list selection in the selected frame -/
def lookPc (s : St) : Nat := lookupPc s.frame s.pc

def showRead (hint : Option String) : ReadResult → String
  | .addr a => s!"addr {hex a}"
  | .val v => s!"val {hex v}"
  | .noEntry => "nodata"
  | .unknownReg _ => match hint with | some h => h.replace "_" " " | none => "unk"
  | .unsupported => match hint with | some h => h.replace "_" " " | none => "unsup"

def readDie (s : St) (id : Nat) (hint : Option String) : String :=
  match s.locs.find? (·.1 == id), s.fn.bind fun f => (s.fbs.find? (·.1 == f)).map (·.2) with
  | some (_, a), some fb => showRead hint (readVar (frameRegs s) fb a (lookPc s))
  | some (_, a), none => showRead hint (readVar (frameRegs s) 0x7f a (lookPc s))
  | none, _ => "nodata"

def step (s : St) : List String → St × String
  | ["new", _] => ({}, "ok")
  | ["die", id, parent, tag, name, ranges] =>
    match hexNat? id, decOpt? parent, decTag? tag, decName? name, decList? decRange? ranges with
    | some id, some parent, some tag, some name, some ranges =>
      ({ s with dies := s.dies.push { id, parent, info := { id, tag, name, ranges } } }, "ok")
    | _, _, _, _, _ => (s, "bad-op")
  | ["loc", id, "e", l] => match hexNat? id, decLoc? l with
    | some id, some l => ({ s with locs := (id, .expr l) :: s.locs }, "ok")
    | _, _ => (s, "bad-op")
  | ["loc", id, "l", es] => match hexNat? id, decList? decEntry? es with
    | some id, some es => ({ s with locs := (id, .list es) :: s.locs }, "ok")
    | _, _ => (s, "bad-op")
  | ["fb", id, n] => match hexNat? id, hexNat? n with
    | some id, some n => ({ s with fbs := (id, n) :: s.fbs }, "ok")
    | _, _ => (s, "bad-op")
  | ["stops", _] => (s, "ok")
  | ["run", "exit"] => (s, "exit")
  | ["run", pc, regs, sps] => match hexNat? pc, decList? hexNat? regs, decList? hexNat? sps with
    | some pc, some regs, some sps =>
      ({ s with regs0 := dwarfMapFrom Gen.Dwregs.dwarfMapInit Gen.Dwregs.dwarfMapInserts regs, sps, frame := 0, pc,
                fn := (fnOfPc s pc).map (·.id) }, s!"stop {hex pc}")
    | _, _, _ => (s, "bad-op")
  | ["frame", _, "noframe"] => (s, "noframe")
  | ["frame", k, pc] => match hexNat? k, hexNat? pc with
    | some k, some pc =>
      let f := (fnOfPc s pc).map (·.id)
      ({ s with frame := k, pc, fn := f }, match f with | some id => s!"fn {hex id}" | none => "nofn")
    | _, _ => (s, "bad-op")
  | ["locals"] => match curFn s with
    | some f => (s, encList (fun (e : Entry) => hex e.2.info.id) (localVariables f (lookPc s)))
    | none => (s, "nofn")
  | ["lookup", name] => match curFn s, decName? name with
    | some f, some (some n) => (s, match localVariable f (lookPc s) n with | some e => hex e.2.info.id | none => "none")
    | none, some _ => (s, "nofn")
    | _, _ => (s, "bad-op")
  | ["args"] => match curFn s with
    | some f => (s, encList (fun (i : Info) => hex i.id) (parameters f))
    | none => (s, "nofn")
  | ["arg", name] => match curFn s, decName? name with
    | some f, some (some n) => (s, encList (fun (i : Info) => hex i.id) (parametersNamed f n))
    | none, some _ => (s, "nofn")
    | _, _ => (s, "bad-op")
  | "read" :: name :: rest => match curFn s, decName? name with
    | some f, some (some n) => (s, match localVariable f (lookPc s) n with
        | some e => readDie s e.2.info.id rest.head?
        | none => "novar")
    | none, some _ => (s, "nofn")
    | _, _ => (s, "bad-op")
  | "readarg" :: name :: rest => match curFn s, decName? name with
    | some f, some (some n) => (s, match parametersNamed f n with
        | i :: _ => readDie s i.id rest.head?
        | [] => "novar")
    | none, some _ => (s, "nofn")
    | _, _ => (s, "bad-op")
  | ["reg2dw", r] => match hexNat? r with
    | some r => (s, match toDwarf Gen.Dwregs.toDwarfTable r with | some n => s!"some {hex n}" | none => "none")
    | none => (s, "bad-op")
  | ["dw2reg", n] => match hexNat? n with
    | some n => (s, match fromDwarf Gen.Dwregs.fromDwarfArms n with | some r => s!"reg {hex r}" | none => "panic")
    | none => (s, "bad-op")
  | ["dwmap", n] => match hexNat? n with
    | some n =>
      let m := dwarfMapFrom Gen.Dwregs.dwarfMapInit Gen.Dwregs.dwarfMapInserts ((List.range Gen.Dwregs.numRegs).map (· + 0x1000))
      (s, match dwarfMapValue m n with | some v => s!"some {hex v}" | none => "none")
    | none => (s, "bad-op")
  | _ => (s, "bad-op")

end Driver.C19
