import BsVerif.Core.Proto
import BsVerif.Model.Lines
/-!
Line protocol of C04 (address <-> source lookups).

    C04 new <prog> <oc>                    start a program; oc = 1 iff the implementation is built with overflow checks
    C04 unit <u> <lo:hi,..> <pathid,..>    unit u (sent in registry order 0,1,2..): ranges (stored order), file table
    C04 rows <u> <a:f:l:c:flags,..>        append line rows (stored order); flags: 1 stmt, 2 pe, 4 eb, 8 es
    C04 fnr <u> <lo:hi:die,..>             append function DIE ranges (stored order)
    C04 fns <u> <die:name:lo;hi;..,..>     append functions; name = 0 (none) or id+1; DIE ranges in DWARF order
    C04 unitof <pc> | pc <pc> | xpc <pc> | fnpc <pc> | line <path> <line> | lrange <path> <a> <b> | fnbp <u> <die>
-/
namespace Driver.C04
open BsVerif BsVerif.Proto BsVerif.Lines

structure St where
  oc : Bool := true
  units : Array CUnit := #[]

def splitNats? (sep : String) (tok : String) : Option (List Nat) :=
  if tok.isEmpty then some [] else (tok.splitOn sep).mapM (·.toNat?)

def decRng? (tok : String) : Option Rng :=
  match splitNats? ":" tok with
  | some [a, b] => some ⟨a, b⟩
  | _ => none

def decRow? (tok : String) : Option Row :=
  match splitNats? ":" tok with
  | some [a, f, l, c, fl] =>
    some { addr := a, file := f, line := l, col := c,
           stmt := fl % 2 == 1, pe := fl / 2 % 2 == 1, eb := fl / 4 % 2 == 1, es := fl / 8 % 2 == 1 }
  | _ => none

def decFnRange? (tok : String) : Option FnRange :=
  match splitNats? ":" tok with
  | some [a, b, d] => some ⟨a, b, d⟩
  | _ => none

def pairUp : List Nat → Option (List Rng)
  | [] => some []
  | a :: b :: rest => (pairUp rest).map (⟨a, b⟩ :: ·)
  | [_] => none

def decFn? (tok : String) : Option FnInfo :=
  match tok.splitOn ":" with
  | [d, n, rs] =>
    match d.toNat?, n.toNat?, (splitNats? ";" rs).bind pairUp with
    | some d, some n, some rs => some { die := d, name := if n = 0 then none else some (n - 1), ranges := rs }
    | _, _, _ => none
  | _ => none

def flagsOf (r : Row) : Nat :=
  (if r.stmt then 1 else 0) + (if r.pe then 2 else 0) + (if r.eb then 4 else 0) + (if r.es then 8 else 0)

def encPlace (p : Nat × Nat × Row) : String :=
  let (u, i, r) := p
  s!"{u}:{i}:{r.addr}:{r.file}:{r.line}:{r.col}:{flagsOf r}"

def encOpt (o : Option (Nat × Nat × Row)) : String :=
  match o with
  | some p => encPlace p
  | none => "none"

def withUnit (s : St) (u : Nat) (f : CUnit → CUnit) : St × String :=
  if u < s.units.size then ({ s with units := s.units.modify u f }, "ok") else (s, "bad-op")

def step (s : St) : List String → St × String
  | ["new", _, oc] => match decNat? oc with
    | some oc => ({ oc := oc != 0, units := #[] }, "ok")
    | none => (s, "bad-op")
  | ["unit", u, rs, fs] => match decNat? u, decList? decRng? rs, decList? decNat? fs with
    | some u, some rs, some fs =>
      if u = s.units.size then
        ({ s with units := s.units.push { ranges := rs.toArray, files := fs.toArray } }, "ok")
      else (s, "bad-op")
    | _, _, _ => (s, "bad-op")
  | ["rows", u, rows] => match decNat? u, decList? decRow? rows with
    | some u, some rows => withUnit s u (fun un => { un with rows := un.rows ++ rows.toArray })
    | _, _ => (s, "bad-op")
  | ["fnr", u, frs] => match decNat? u, decList? decFnRange? frs with
    | some u, some frs => withUnit s u (fun un => { un with fnRanges := un.fnRanges ++ frs.toArray })
    | _, _ => (s, "bad-op")
  | ["fns", u, fns] => match decNat? u, decList? decFn? fns with
    | some u, some fns => withUnit s u (fun un => { un with fns := un.fns ++ fns.toArray })
    | _, _ => (s, "bad-op")
  | ["unitof", pc] => match decNat? pc with
    | some pc => (s, match findUnitByPc s.units pc with | some u => toString u | none => "none")
    | none => (s, "bad-op")
  | ["pc", pc] => match decNat? pc with
    | some pc => (s, encOpt (findPlaceFromPc s.units pc))
    | none => (s, "bad-op")
  | ["xpc", pc] => match decNat? pc with
    | some pc => (s, match findExactPlaceFromPc s.units pc s.oc with | .panic => "panic" | .ok o => encOpt o)
    | none => (s, "bad-op")
  | ["fnpc", pc] => match decNat? pc with
    | some pc => (s, match findFunctionByPc s.units pc with
        | some (u, dr) => s!"{u}:{dr.die}"
        | none => "none")
    | none => (s, "bad-op")
  | ["line", path, line] => match decNat? path, decNat? line with
    | some p, some l => (s, encList encPlace (findClosestPlace s.units p l))
    | _, _ => (s, "bad-op")
  | ["lrange", path, a, b] => match decNat? path, decNat? a, decNat? b with
    | some p, some a, some b => (s, encList encPlace (findPlacesInLineRange s.units p a b))
    | _, _, _ => (s, "bad-op")
  | ["fnbp", u, die] => match decNat? u, decNat? die with
    | some u, some die =>
      match s.units[u]? with
      | none => (s, "bad-op")
      | some un =>
        match un.info? die with
        | none => (s, "bad-op")
        | some fi => (s, match prologEndPlace s.units fi.ranges with | some p => encPlace p | none => "err")
    | _, _ => (s, "bad-op")
  | _ => (s, "bad-op")

end Driver.C04
