import Driver.C02
/-! C03 sessions use the request language of C02 (the machine + breakpoint/step bookkeeping model). -/
namespace Driver.C03
abbrev St := Driver.C02.St
def step (st : St) (toks : List String) : St × String := Driver.C02.step st toks
end Driver.C03
