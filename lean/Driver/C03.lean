import Driver.C02
import BsVerif.Model.Step
/-!
Line protocol of C03 (where the step commands land).

    C03 new <prog> <entry> <exit> <trace> <bytes>          as C01/C02: the abstract machine (pcs + original bytes)
    C03 ann <depth:cfa:ret:gap,..>                          annotation of every trace position (reference tracer)
    C03 fn <id> <declfile|-> <lo:hi,..> <lo:hi,..> <file:path,..> <a:f:l:flags,..>
                                                            a function the trace enters: DIE ranges, inlined ranges,
                                                            file index ↦ path id, window of the unit's rows (stored order)
    C03 break <a> | remove <a> | start | continue            as C02
    C03 stepi [out] | step | next | finish [out]             NO observed parameters: the model computes the temporaries,
                                                            the number of single steps and the landing position itself
Answers of step commands: `done <pc> p=<pokes> t=<temporaries> k=<single steps inside the executable> h=<hooks>`.
The landing position comes from the index-level model (`Model/Step.lean`); the text patches come from the machine
model of C02 run with the temporaries / step counts the index-level model computed; both must agree on the pc.
-/
namespace Driver.C03
open BsVerif BsVerif.Proto BsVerif.Bp BsVerif.Lines BsVerif.Step Driver.C01

structure St where
  s : Bp.St := { τ := [], code := fun _ => 0 }
  τ : Step.Trace := #[]
  fns : Array FnRec := #[]
  inGap : Bool := false       -- executing outside the executable, before `τ[s.idx]`
  dead : Bool := false        -- the debuggee exited during a step command

def splitNats? (sep : String) (tok : String) : Option (List Nat) :=
  if tok.isEmpty then some [] else (tok.splitOn sep).mapM hexNat?

def decPos? (pc : Nat) (tok : String) : Option Pos :=
  match splitNats? ":" tok with
  | some [d, c, r, g] => some { pc := pc, depth := d, cfa := c, ret := r, gap := g }
  | _ => none

def decRng? (tok : String) : Option Rng :=
  match splitNats? ":" tok with
  | some [a, b] => some ⟨a, b⟩
  | _ => none

def decPair? (tok : String) : Option (Nat × Nat) :=
  match splitNats? ":" tok with
  | some [a, b] => some (a, b)
  | _ => none

def decRow? (tok : String) : Option Row :=
  match splitNats? ":" tok with
  | some [a, f, l, fl] =>
    some { addr := a, file := f, line := l, col := 0,
           stmt := fl % 2 == 1, pe := fl / 2 % 2 == 1, eb := fl / 4 % 2 == 1, es := fl / 8 % 2 == 1 }
  | _ => none

def zipAnn : List Nat → List String → Option (List Pos)
  | [], [] => some []
  | pc :: pcs, t :: ts =>
    match decPos? pc t, zipAnn pcs ts with
    | some p, some r => some (p :: r)
    | _, _ => none
  | _, _ => none

/-- enabled user breakpoints of the registry -/
def userSet (s : Bp.St) : List Nat :=
  (s.active.filter (fun b => b.enabled && b.kind != Kind.temp)).map (·.addr)

def hookOf (I : Info) (pc : Nat) : String :=
  "s" ++ hex pc ++ ":" ++ (match I.place pc with | some p => toString p.line | none => "-")

def fin (st : St) (s : Bp.St) (inGap : Bool) (ans : String) : St × String :=
  ({ st with s := s, inGap := inGap }, ans)

/-- answer of a completed step command: machine state `s` (after the patches), landing `l` of the index-level model -/
def answer (st : St) (I : Info) (s : Bp.St) (l : Land) (k : Nat) : St × String :=
  let tail := " p=" ++ showPokes s.pokes ++ " t=" ++ encList hex l.temps ++ " k=" ++ toString k
  match l.why with
  | .exit =>
    if s.idx == st.τ.size then ({ st with s := s, dead := true }, "exit " ++ toString s.exitCode ++ tail)
    else (st, "model-split exit-vs-" ++ toString s.idx)
  | .out => ({ st with s := s, inGap := true }, "done out" ++ tail ++ " h=-")
  | why =>
    if s.idx != l.idx then (st, "model-split " ++ toString s.idx ++ "-vs-" ++ toString l.idx)
    else
      let pc := pcAt st.τ l.idx
      let h := match why with
        | .brk b => "b" ++ hex b ++ "," ++ hookOf I pc
        | _ => hookOf I pc
      fin st s false ("done " ++ hex pc ++ tail ++ " h=" ++ h)

/-- a place / frame that equals no real one: the start of a `step` issued outside the executable -/
def nowhere : Place := { addr := 0, path := 2 ^ 62, line := 0, stmt := false }

def stepCmd (st : St) (cmd : String) (obsOut : Bool) (obsK : Nat := 0) : St × String :=
  let s0 := { st.s with pokes := [] }
  if s0.status != Status.inProgress then (st, "err")
  else
    let I := Info.ofFns st.fns
    let i := s0.idx
    let U := userSet s0
    match cmd with
    | "stepi" =>
      if st.inGap then
        if obsOut then fin st s0 true "done out p=- t=- k=0 h=-"
        else fin st s0 false ("done " ++ hex (pcAt st.τ i) ++ " p=- t=- k=0 h=" ++ hookOf I (pcAt st.τ i))
      else
        let s1 := stepN 1 s0
        if s1.idx ≥ st.τ.size then answer st I s1 { idx := st.τ.size, why := .exit } 1
        else if (at' st.τ s1.idx).gap > 0 then fin st s1 true ("done out p=" ++ showPokes s1.pokes ++ " t=- k=1 h=-")
        else answer st I s1 { idx := i + 1, why := .done } 1
    | "step" =>
      -- issued outside the executable: the start place and frame are libc's; the first candidate is `τ[i]` itself
      let l := if st.inGap then stepInLoop I st.τ nowhere (2 ^ 62) (st.τ.size + 1 - i) (i - 1) else stepIn I st.τ i
      if obsOut then
        -- the implementation stopped OUTSIDE the executable after `obsK` instruction steps inside it (libc has line
        -- information of its own on this machine: environment).  Consistent iff that point lies in a gap of the trace
        -- before the model's own landing.
        let j := i + obsK
        if (j < l || (j == l && l == st.τ.size)) && (j == st.τ.size || (at' st.τ j).gap > 0 || (obsK == 0 && st.inGap)) then
          let s1 := stepN obsK s0
          fin st s1 true ("done out p=" ++ showPokes s1.pokes ++ " t=- k=" ++ toString obsK ++ " h=-")
        else (st, "model-split out-after-" ++ toString obsK ++ "-but-lands-" ++ toString (l - i))
      else
        let k := l - i
        answer st I (stepN k s0) { idx := l, why := if st.τ.size ≤ l then .exit else .done } k
    | "next" =>
      if st.inGap then (st, "skipped-outside") else
      let l := stepOver I st.τ U i
      let s1 := stepN l.pre s0
      let (s2, _) := tempRun s1 l.temps l.tail
      answer st I s2 l l.tail
    | "finish" =>
      if st.inGap then (st, "skipped-outside") else
      let l := stepOut st.τ U i
      match l.why with
      | .out =>
        -- return address outside the executable: the machine runs to the position after the return
        answer st I { s0 with idx := l.idx } l 0
      | _ =>
        if (at' st.τ i).ret = 0 then answer st I s0 { idx := i, why := .done } 0
        else
          let (s2, _) := tempRun s0 l.temps 0
          answer st I s2 l 0
    | _ => (st, "bad-op")

def step (st : St) : List String → St × String
  | "new" :: rest =>
    let (c1, out) := Driver.C01.step {} ("new" :: rest)
    ({ s := c1.s }, out)
  | ["ann", ann] =>
    match decList? some ann with
    | some toks =>
      match zipAnn st.s.τ toks with
      | some ps => ({ st with τ := ps.toArray }, "ok")
      | none => (st, "bad-op")
    | none => (st, "bad-op")
  | ["fn", id, df, rs, inl, paths, rows] =>
    match hexNat? id, decList? decRng? rs, decList? decRng? inl, decList? decPair? paths, decList? decRow? rows with
    | some id, some rs, some inl, some paths, some rows =>
      let df := if df == "-" then none else hexNat? df
      ({ st with fns := st.fns.push { id := id, ranges := rs, declFile := df, inl := inl, rows := rows.toArray, paths := paths } }, "ok")
    | _, _, _, _, _ => (st, "bad-op")
  | toks =>
    if st.dead then (st, "after-exit")
    else match toks with
    | [c] =>
      if c == "stepi" || c == "step" || c == "next" || c == "finish" then stepCmd st c false
      else if c == "continue" && st.inGap && st.s.status == Status.inProgress then
        -- resumed outside the executable: nothing at `τ[idx]` has been executed yet, no breakpoint to step over
        let s0 := { st.s with pokes := [] }
        let (s1, o) := traceLoopT (fuelFor s0) s0
        ({ st with s := s1, inGap := false }, showOut o s1)
      else
        let (c2, out) := Driver.C02.stepLive { s := st.s } toks
        ({ st with s := c2.s, inGap := false }, out)
    | [c, "out"] =>
      if c == "stepi" || c == "finish" || c == "next" then stepCmd st c true else (st, "bad-op")
    | ["step", "out", k] =>
      match decNat? k with
      | some k => stepCmd st "step" true k
      | none => (st, "bad-op")
    | _ =>
      let (c2, out) := Driver.C02.stepLive { s := st.s } toks
      ({ st with s := c2.s, inGap := false }, out)

end Driver.C03
