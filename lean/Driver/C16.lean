import BsVerif.Core.Proto
import BsVerif.Model.Call
/-!
Line-protocol adapter of the C16 model (`BsVerif/Model/Call.lean`).  A session:

  new <prog> <base> <entry> <fns> <reach> <bytes>   fns = `name:addr:size:types`, reach = `start:size` of the code every callable runs besides its own,
                                            (fns: (types `u1 s4 bool ptr char f64 pair` joined by `+`, `-` = none),
                                            bytes = `start:hex` segments of text (global addresses)
  break <gaddr> | start <stop|exit|err> | continue <stop|exit|err> | fault <KIND> <n> | finish
  call <fn> <literals> <pc> <regs0> <page> <dorder> <eorder>

The model works on absolute addresses (`base +` global address); the answer renders them back (`t..` text, `p..` page).
-/
namespace Driver.C16
open BsVerif BsVerif.Proto BsVerif.Mem BsVerif.Call BsVerif.Gen.CallAbi

structure St where
  base : Nat := 0
  entry : Nat := 0
  fns : List (String × Nat × Nat × List Ty) := []
  helpers : List (Nat × Nat) := []           -- (absolute start, size) of code every callable executes besides its own
  segs : Array (Nat × Array Nat) := #[]      -- (absolute start, bytes)
  bps : List Bp := []                        -- breakpoints inside the text (absolute addresses)
  started : Bool := false
  exited : Bool := false
  afterFault : Bool := false
  fault : Option (Op × Nat) := none

def hex (n : Nat) : String := String.ofList (Nat.toDigits 16 n)

def segByte (segs : Array (Nat × Array Nat)) (a : Nat) : Option Nat :=
  segs.foldl (fun acc s => match acc with
    | some b => some b
    | none => if s.1 ≤ a ∧ a < s.1 + s.2.size then some (s.2.getD (a - s.1) 0) else none) none

def baseCode (segs : Array (Nat × Array Nat)) : Code := fun a => (segByte segs a).getD 0

def parseTy : String → Option Ty
  | "u1" => some (.scalar (some .unsigned) (some 1)) | "u2" => some (.scalar (some .unsigned) (some 2))
  | "u4" => some (.scalar (some .unsigned) (some 4)) | "u8" => some (.scalar (some .unsigned) (some 8))
  | "s1" => some (.scalar (some .signed) (some 1)) | "s2" => some (.scalar (some .signed) (some 2))
  | "s4" => some (.scalar (some .signed) (some 4)) | "s8" => some (.scalar (some .signed) (some 8))
  | "bool" => some (.scalar (some .boolean) (some 1))
  | "ptr" => some .pointer
  | "char" => some (.scalar (some .other) (some 4))
  | "f64" => some (.scalar (some .other) (some 8))
  | "pair" => some .other
  | _ => none

def parseFn (tok : String) : Option (String × Nat × Nat × List Ty) :=
  match tok.splitOn ":" with
  | [n, a, sz, tys] =>
    match hexNat? a, hexNat? sz, (if tys == "-" then some [] else (tys.splitOn "+").mapM parseTy) with
    | some a, some sz, some tys => some (n, a, sz, tys)
    | _, _, _ => none
  | _ => none

def parseRange (tok : String) : Option (Nat × Nat) :=
  match tok.splitOn ":" with
  | [a, n] => match hexNat? a, hexNat? n with
    | some a, some n => some (a, n)
    | _, _ => none
  | _ => none

def hexBytesArr : List Char → Array Nat → Option (Array Nat)
  | [], acc => some acc
  | [_], _ => none
  | a :: b :: rest, acc =>
    match hexDigit? a, hexDigit? b with
    | some x, some y => hexBytesArr rest (acc.push (x * 16 + y))
    | _, _ => none

def parseSeg (tok : String) : Option (Nat × Array Nat) :=
  match tok.splitOn ":" with
  | [a, h] => match hexNat? a, hexBytesArr h.toList #[] with
    | some a, some bs => some (a, bs)
    | _, _ => none
  | _ => none

def parseLit (tok : String) : Option Lit :=
  match tok.toList with
  | 'i' :: rest => (String.ofList rest).toInt?.map Lit.int
  | ['b', '0'] => some (.bool false)
  | ['b', '1'] => some (.bool true)
  | 'a' :: rest => (hexNat? (String.ofList rest)).map Lit.addr
  | ['s'] => some .str
  | ['f'] => some .float
  | _ => none

def parseOp : String → Option Op
  | "POKE" => some .poke | "PEEK" => some .peek | "STEP" => some .step | "CONT" => some .cont
  | "SETREGS" => some .setregs | "GETREGS" => some .getregs | _ => none

/-- an item of the observed walk order: `t<global hex>` or `x<absolute hex>.<original 8-byte word, hex>` -/
inductive OrdItem | text (abs : Nat) | foreign (abs : Nat) (word : Nat)

def parseOrd (base : Nat) (tok : String) : Option OrdItem :=
  match tok.toList with
  | 't' :: rest => (hexNat? (String.ofList rest)).map fun a => .text (base + a)
  | 'x' :: rest =>
    match (String.ofList rest).splitOn "." with
    | [a, w] => match hexNat? a, hexNat? w with
      | some a, some w => some (.foreign a w)
      | _, _ => none
    | _ => none
  | _ => none

def OrdItem.addr : OrdItem → Nat
  | .text a => a | .foreign a _ => a

def dedup : List Nat → List Nat
  | [] => []
  | a :: rest => a :: (dedup rest).filter (· != a)

/-- observed order restricted to registered breakpoints (first occurrences), then the rest in address order -/
def walkOrder (bps : List Bp) (obs : List Nat) : List Nat :=
  let known := (dedup obs).filter fun a => bps.any (·.addr == a)
  let rest := (bps.map (·.addr)).filter fun a => !(known.contains a)
  known ++ (rest.toArray.qsort (· < ·)).toList

def regsDiff (r0 r : RegFile) : String :=
  let d := (List.range numRegs).filter fun i => r0 i != r i
  if d.isEmpty then "-" else "/".intercalate (d.map fun i => s!"{i}.{hex (r i)}")

def showAddr (st : St) (page : Nat) (a : Nat) : String :=
  if page != 0 && page != W64 - 1 && inPage page a then "p" ++ hex (a - page)
  else if (segByte st.segs a).isSome then "t" ++ hex (a - st.base)
  else "x" ++ hex a

def bang (ok : Bool) : String := if ok then "" else "!"

def showEv (st : St) (page : Nat) (r0 : RegFile) : Ev → String
  | .peek a ok => "K" ++ showAddr st page a ++ bang ok
  | .poke a w ok => "W" ++ showAddr st page a ++ "=" ++ hex w ++ bang ok
  | .getregs ok => "G" ++ bang ok
  | .setregs r ok => "S" ++ regsDiff r0 r ++ bang ok
  | .step ok => "T" ++ bang ok
  | .cont ok => "C" ++ bang ok

def evFailed : Ev → Bool
  | .peek _ ok => !ok | .poke _ _ ok => !ok | .getregs ok => !ok | .setregs _ ok => !ok | .step ok => !ok | .cont ok => !ok

def showErr : CErr → String
  | .argCount => "e-argcount" | .tooMany => "e-toomany" | .unsupLit => "e-unsuplit" | .unkType => "e-unktype"
  | .litCast => "e-litcast" | .unsupArg => "e-unsuparg" | .notFound => "e-notfound" | .mmap => "e-mmap"
  | .munmap => "e-munmap" | .jmp => "e-jmp" | .ptrace => "e-ptrace" | .notStarted => "e-notstarted"

def runCall (st : St) (name : String) (lits : List Lit) (pc : Nat) (regs0 : Array Nat) (page : Nat)
    (dobs eobs : List OrdItem) : St × String :=
  let r0 : RegFile := fun i => regs0.getD i 0
  -- breakpoints outside the program's text (the dynamic loader's) are learnt from the observed walk
  let foreign : List (Nat × Nat) := (dobs ++ eobs).filterMap fun | .foreign a w => some (a, w) | _ => none
  let fbps : List Bp := (dedup (foreign.map (·.1))).map fun a =>
    { addr := a, saved := ((foreign.find? (·.1 == a)).map (·.2)).getD 0 % 256, enabled := true }
  let bps := st.bps ++ fbps
  -- current text: image + INT3 at the enabled breakpoints
  let code0 : Code := fun a =>
    match foreign.find? (fun f => f.1 ≤ a ∧ a < f.1 + 8) with
    | some f => f.2 / 256 ^ (a - f.1) % 256
    | none => baseCode st.segs a
  let mem0 : Code := fun a => if bps.any (fun b => b.enabled && b.addr == a) then 0xCC else code0 a
  let fails : Op → Nat → Bool := fun k i => match st.fault with
    | some (k', n) => k == k' && i + 1 == n
    | none => false
  let fnInfo := st.fns.find? (·.1 == name)
  -- code the callee executes: its own function and the helpers, as the image has it
  let ranges : List (Nat × Nat) := (match fnInfo with | some f => [(st.base + f.2.1, f.2.2.1)] | none => []) ++ st.helpers
  let reach : List Nat := ranges.flatMap fun r => (List.range r.2).map (· + r.1)
  let W : World := { fails := fails, mmapRes := page, callee := id, reach := reach, orig := baseCode st.segs }
  let d0 : Dbg := { t := { regs := r0, mem := mem0 }, bps := bps }
  let dorder := walkOrder bps (dobs.map OrdItem.addr)
  let eorder := walkOrder bps (eobs.map OrdItem.addr)
  let fn := fnInfo.map fun f => (st.base + f.2.1, f.2.2.2)
  let (res, d) := callCmd W fn lits (st.base + pc) dorder eorder d0
  let cls := match res with
    | .ok _ => "ok" | .err e => showErr e | .panic => "panic"
  let digest := if d.log.isEmpty then "-" else ",".intercalate (d.log.map (showEv st page r0))
  let mapped := if d.t.pages.contains page && page != 0 then "1" else "0"
  let post := s!"{regsDiff r0 d.t.regs};{hex (peek d.t.mem (st.base + pc))};{mapped}"
  let fired := d.log.any evFailed
  let st' := { st with bps := d.bps.filter (fun b => st.bps.any (·.addr == b.addr)), fault := none,
                       afterFault := st.afterFault || fired || d.t.wild }
  -- the callee ran into the debugger's own patch: where the thread ends up is not predictable
  if d.t.wild then (st', "wild") else
  (st', s!"{cls} t={digest} post={post}")

def step (st : St) : List String → St × String
  | ["new", _prog, base, entry, fns, helpers, bytes] =>
    match hexNat? base, hexNat? entry, decList? parseFn fns, decList? parseRange helpers, decList? parseSeg bytes with
    | some base, some entry, some fns, some helpers, some segs =>
      ({ base := base, entry := base + entry, fns := fns, helpers := helpers.map fun h => (base + h.1, h.2),
         segs := (segs.map fun s => (base + s.1, s.2)).toArray }, "ok")
    | _, _, _, _, _ => ({}, "bad-op")
  | ["break", a] =>
    match hexNat? a with
    | some a =>
      let abs := st.base + a
      if st.bps.any (·.addr == abs) then (st, "ok")
      else ({ st with bps := st.bps ++ [{ addr := abs, saved := baseCode st.segs abs, enabled := true }] }, "ok")
    | none => (st, "bad-op")
  | [c, obs] =>
    if c == "start" || c == "continue" then
      let st := if c == "start" && !st.started then
        { st with started := true,
                  bps := if st.bps.any (·.addr == st.entry) then st.bps
                         else st.bps ++ [{ addr := st.entry, saved := baseCode st.segs st.entry, enabled := true }] }
        else st
      ({ st with exited := st.exited || obs == "exit" }, "ok")
    else (st, "bad-op")
  | ["fault", kind, n] =>
    match parseOp kind, decNat? n with
    | some k, some n => ({ st with fault := some (k, n) }, "ok")
    | _, _ => (st, "bad-op")
  | ["finish"] => (st, "ok")
  | ["call", name, lits, pc, regs0, page, dorder, eorder] =>
    match decList? parseLit lits, hexNat? pc, decList? hexNat? regs0, hexNat? page,
          decList? (parseOrd st.base) dorder, decList? (parseOrd st.base) eorder with
    | some lits, some pc, some regs0, some page, some dobs, some eobs =>
      if !st.started || st.exited then (st, "e-notstarted t=- post=-;0;0")
      else if st.afterFault then (st, "after-fault t=- post=-;0;0")
      else runCall st name lits pc regs0.toArray page dobs eobs
    | _, _, _, _, _, _ => (st, "bad-op")
  | _ => (st, "bad-op")

end Driver.C16
