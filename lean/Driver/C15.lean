import BsVerif.Core.Proto
import BsVerif.Model.MemIO
/-!
Line-protocol adapter of the C15 model (`BsVerif/Model/MemIO.lean`).

A session is `C15 new <kind> ...`:

* `new mem <npages> <page:hex,...> <kernel regs, decimal, ABI order>` — a window of `npages` 4 KiB
  pages (addresses are offsets from the window base; pages not listed are unmapped), and the
  registers of the stopped thread.  Then
  `read <off> <n>`, `poke <off> <word>`, `write <off> <hex|->`, `sum`, `getreg <xname>`,
  `setreg <xname> <val>`, `regs`, `finish`.
* `new dis` — `disasm <len> <bp offsets>` (outcome class with the implementation's per-function cache),
  `mask <start> <stop> <texthex> <addr:saved,...>`.
* `new parse` — `parse <kind> <xinput>`.
-/
namespace Driver.C15
open BsVerif BsVerif.Proto BsVerif.MemIO BsVerif.Gen.Regs

structure St where
  mem : Array (Option UInt8) := #[]
  pages : List Nat := []
  regs : Array Nat := #[]
  finished : Bool := false
  disasmCached : Bool := false

def memFn (a : Array (Option UInt8)) : Mem := fun x => if h : x < a.size then a[x] else none

def materialise (size : Nat) (m : Mem) : Array (Option UInt8) := Array.ofFn (n := size) fun i => m i.val

def hexOf (bs : List UInt8) : String :=
  if bs.isEmpty then "-"
  else String.ofList (bs.flatMap fun b => [nibble (b.toNat / 16), nibble (b.toNat % 16)])

/-- tail-recursive hex decoder (pages are 8192 digits long) -/
def unhexAux : List Char → Array UInt8 → Option (Array UInt8)
  | [], acc => some acc
  | [_], _ => none
  | a :: b :: rest, acc =>
    match hexDigit? a, hexDigit? b with
    | some x, some y => unhexAux rest (acc.push (UInt8.ofNat (x * 16 + y)))
    | _, _ => none

def unhex? (tok : String) : Option (List UInt8) :=
  if tok == "-" then some [] else (unhexAux tok.toList #[]).map Array.toList

def parsePage (tok : String) : Option (Nat × List UInt8) :=
  match tok.splitOn ":" with
  | [i, h] => match decNat? i, unhex? h with
    | some i, some bs => if bs.length == pageSize then some (i, bs) else none
    | _, _ => none
  | _ => none

def pageSum (a : Array (Option UInt8)) (p : Nat) : Nat :=
  (List.range pageSize).foldl (fun h i =>
    (h * 31 + (match (memFn a) (p * pageSize + i) with | some b => b.toNat | none => 0) + 1) % 4294967296) 0

def sums (s : St) : String :=
  encList (fun p => s!"{p}:{pageSum s.mem p}") s.pages

def regFn (a : Array Nat) : RegFile := fun i => a.getD i 0

def intKind? : String → Option IntKind
  | "i8" => some .i8 | "i16" => some .i16 | "i32" => some .i32 | "i64" => some .i64
  | "i128" => some .i128 | "isize" => some .isize
  | "u8" => some .u8 | "u16" => some .u16 | "u32" => some .u32 | "u64" => some .u64
  | "u128" => some .u128 | "usize" => some .usize
  | _ => none

def parseBp (tok : String) : Option Bp :=
  match tok.splitOn ":" with
  | [a, b] => match decNat? a, decNat? b with
    | some a, some b => some ⟨a, UInt8.ofNat b⟩
    | _, _ => none
  | _ => none

def step (s : St) : List String → St × String
  | ["new", "mem", np, pages, regs] =>
    match decNat? np, decList? parsePage pages, decList? decNat? regs with
    | some np, some ps, some rs =>
      let size := np * pageSize
      let arr := ps.foldl (fun (arr : Array (Option UInt8)) (p : Nat × List UInt8) =>
        (List.range pageSize).foldl (fun arr i =>
          let idx := p.1 * pageSize + i
          if idx < arr.size then arr.set! idx (p.2[i]?) else arr) arr) (Array.replicate size none)
      ({ mem := arr, pages := ps.map (·.1), regs := rs.toArray }, "ok")
    | _, _, _ => (s, "bad-op")
  | ["new", "dis"] => ({}, "ok")
  | ["new", "dis", _] => ({}, "ok")
  | ["new", "parse"] => ({}, "ok")
  | ["read", off, n] =>
    if s.finished then (s, "bad-op") else
    match decNat? off, decNat? n with
    | some off, some n =>
      match readMemory (memFn s.mem) off n with
      | some bs => (s, s!"ok {hexOf bs}")
      | none => (s, "err")
    | _, _ => (s, "bad-op")
  | ["poke", off, w] =>
    if s.finished then (s, "bad-op") else
    match decNat? off, decNat? w with
    | some off, some w =>
      match pokeData (memFn s.mem) off w with
      | .ok m' => ({ s with mem := materialise s.mem.size m' }, "ok")
      | .err m' => ({ s with mem := materialise s.mem.size m' }, "err")
      | .panic => (s, "panic")
    | _, _ => (s, "bad-op")
  | ["write", off, data] =>
    if s.finished then (s, "bad-op") else
    match decNat? off, unhex? data with
    | some off, some bs =>
      match writeBytesDap (memFn s.mem) off bs with
      | .ok m' => ({ s with mem := materialise s.mem.size m' }, "ok")
      | .err m' => ({ s with mem := materialise s.mem.size m' }, "err")
      | .panic => (s, "panic")
    | _, _ => (s, "bad-op")
  | ["sum"] => if s.finished then (s, "bad-op") else (s, sums s)
  | ["finish"] => if s.finished then (s, "bad-op") else ({ s with finished := true }, sums s)
  | ["getreg", name] =>
    if s.finished then (s, "bad-op") else
    match decStr? name with
    | some n => match regNames.idxOf? n with
      | some r => (s, toString (getRegisterValue (regFn s.regs) r))
      | none => (s, "err")
    | none => (s, "bad-op")
  | ["setreg", name, v] =>
    if s.finished then (s, "bad-op") else
    match decStr? name, decNat? v with
    | some n, some v => match regNames.idxOf? n with
      | some r =>
        let k' := setRegisterValue (regFn s.regs) r v
        ({ s with regs := Array.ofFn (n := s.regs.size) fun i => k' i.val }, "ok")
      | none => (s, "err")
    | _, _ => (s, "bad-op")
  | ["regs"] => if s.finished then (s, "bad-op") else (s, encList toString s.regs.toList)
  | ["disasm", len, offs] =>
    match decNat? len, decList? decNat? offs with
    | some len, some offs =>
      if s.disasmCached then (s, "ok")
      else
        -- only the outcome class is observable: text of `len` zero bytes, breakpoints at the offsets
        match maskPatches 0 len (List.replicate len 0) (offs.map fun o => ⟨o, 0⟩) with
        | .ok _ => ({ s with disasmCached := true }, "ok")
        | .error _ => (s, "panic")
    | _, _ => (s, "bad-op")
  | ["mask", start, stop, text, bps] =>
    match decNat? start, decNat? stop, unhex? text, decList? parseBp bps with
    | some start, some stop, some text, some bps =>
      match maskPatches start stop text bps with
      | .ok t => (s, s!"ok {hexOf t}")
      | .error _ => (s, "panic")
    | _, _, _, _ => (s, "bad-op")
  | ["parse", kind, input] =>
    match decStr? input with
    | some inp =>
      if kind == "bool" then
        match parseSetBool inp.toList with
        | some bs => (s, s!"ok {hexOf bs}")
        | none => (s, "err")
      else match intKind? kind with
        | some k => match parseSetInt k inp.toList with
          | some bs => (s, s!"ok {hexOf bs}")
          | none => (s, "err")
        | none => (s, "bad-op")
    | none => (s, "bad-op")
  | _ => (s, "bad-op")

end Driver.C15
