import Std.Data.HashMap
import BsVerif.Core.Proto
import BsVerif.Model.Unwind
/-!
Line protocol adapter of the unwinder model (C05).

    C05 new <prog>                               session start
    C05 break|start|continue|stepi ...           movement (environment; answers `ok`, forgets the stop description)
    C05 stop <pc> <regs> <objs> <rows> <membase> <words>
        regs  = n:hex,...            DWARF register number : value (raw PTRACE_GETREGS of the stopped thread)
        objs  = lo:hi,...            address ranges of the registered objects (inclusive ends, as the registry keeps them)
        rows  = lo:hi:sec:ra:cfa:rules,...   CFI rows in absolute addresses [lo,hi); sec = e (.eh_frame) | d (.debug_frame);
                cfa = <reg>/<int> | x ;  rules = reg=code;...  | .   with code u | s | o<int> | v<int> | r<reg> | k<nat> | a | x
        words = hex,...              the stack words at membase, membase+8, ...
    C05 bt                                       -> bt <ip,...>
    C05 frame <k>                                -> ok <ip> | err          (selects the frame)
    C05 finfo [env-err]                          -> fi <num> <cfa> <ret|none>
    C05 regs <k>                                 -> regs n:hex,... (DWARF 0..16)
    C05 retaddr                                  -> ra <hex|none>
-/
namespace Driver.C05
open BsVerif BsVerif.Proto BsVerif.Unwind

structure RowR where
  lo : Nat
  hi : Nat
  eh : Bool
  row : Row

structure St where
  fresh : Bool := false
  pc0 : Nat := 0
  regs : List (Nat × Nat) := []
  objs : List (Nat × Nat) := []
  rows : List RowR := []
  membase : Nat := 0
  mem : Std.HashMap Nat Nat := {}
  selPc : Nat := 0
  selNum : Nat := 0

def hex (n : Nat) : String := String.ofList (Nat.toDigits 16 n)

def findRow (rows : List RowR) (eh : Bool) (pc : Nat) : Option Row :=
  (rows.find? (fun r => r.eh == eh && r.lo ≤ pc && pc < r.hi)).map (·.row)

def regsOf (l : List (Nat × Nat)) : Regs := fun i => (l.find? (fun p => p.1 == i)).map (·.2)

def envOf (s : St) : Env :=
  { cfiEh := findRow s.rows true
    cfiDf := findRow s.rows false
    known := fun a => s.objs.any (fun o => o.1 ≤ a && a ≤ o.2)
    mem := fun a => s.mem.get? a }

def decPair? (sep : String) (t : String) : Option (Nat × Nat) :=
  match t.splitOn sep with
  | [a, b] => match hexNat? a, hexNat? b with
    | some a, some b => some (a, b)
    | _, _ => none
  | _ => none

def decRegVal? (t : String) : Option (Nat × Nat) :=
  match t.splitOn ":" with
  | [a, b] => match decNat? a, hexNat? b with
    | some a, some b => some (a, b)
    | _, _ => none
  | _ => none

def decRule? (t : String) : Option (Nat × Rule) :=
  match t.splitOn "=" with
  | [r, c] =>
    match decNat? r with
    | none => none
    | some r =>
      let arg := (c.drop 1).toString
      match c.take 1 |>.toString with
      | "u" => some (r, .undefined)
      | "s" => some (r, .sameValue)
      | "a" => some (r, .architectural)
      | "x" => some (r, .expr)
      | "o" => (decInt? arg).map (fun n => (r, .offset n))
      | "v" => (decInt? arg).map (fun n => (r, .valOffset n))
      | "r" => (decNat? arg).map (fun n => (r, .register n))
      | "k" => (decNat? arg).map (fun n => (r, .constant n))
      | _ => none
  | _ => none

def decCfa? (t : String) : Option CfaRule :=
  if t == "x" then some .expr else
  match t.splitOn "/" with
  | [r, o] => match decNat? r, decInt? o with
    | some r, some o => some (.regOff r o)
    | _, _ => none
  | _ => none

def decRow? (t : String) : Option RowR :=
  match t.splitOn ":" with
  | [lo, hi, sec, ra, cfa, rules] =>
    match hexNat? lo, hexNat? hi, decNat? ra, decCfa? cfa,
          (if rules == "." then some [] else (rules.splitOn ";").mapM decRule?) with
    | some lo, some hi, some ra, some cfa, some rules =>
      if sec == "e" || sec == "d" then
        some { lo := lo, hi := hi, eh := sec == "e", row := { cfa := cfa, rules := rules, ra := ra } }
      else none
    | _, _, _, _, _ => none
  | _ => none

def showFault : Fault → String
  | .err => "err" | .panic => "panic" | .unsupported => "unsupported"

def regs0 (s : St) : Regs := regsOf s.regs

def step (st : St) : List String → St × String
  | ["new", _name] => ({}, "ok")
  | "break" :: _ => ({ st with fresh := false }, "ok")
  | "start" :: _ => ({ st with fresh := false }, "ok")
  | "continue" :: _ => ({ st with fresh := false }, "ok")
  | "stepi" :: _ => ({ st with fresh := false }, "ok")
  | ["stop", "none"] => ({ st with fresh := false }, "ok")
  | ["stop", pc, regs, objs, rows, membase, words] =>
    match hexNat? pc, decList? decRegVal? regs, decList? (decPair? ":") objs, decList? decRow? rows,
          hexNat? membase, decList? hexNat? words with
    | some pc, some regs, some objs, some rows, some mb, some ws =>
      let m : Std.HashMap Nat Nat := (ws.zipIdx).foldl (fun m p => m.insert (mb + 8 * p.2) p.1) {}
      ({ fresh := true, pc0 := pc, regs := regs, objs := objs, rows := rows, membase := mb, mem := m,
         selPc := pc, selNum := 0 }, "ok")
    | _, _, _, _, _, _ => (st, "bad-op")
  | ["bt"] =>
    if !st.fresh then (st, "no-stop-env") else
    match unwind (envOf st) (regs0 st) st.pc0 with
    | .ok bt => (st, "bt " ++ encList hex bt)
    | .error f => (st, showFault f)
  | ["frame", k] =>
    if !st.fresh then (st, "no-stop-env") else
    match decNat? k with
    | none => (st, "bad-op")
    | some k =>
      match setFrame (envOf st) (regs0 st) st.pc0 k with
      | .ok ip => ({ st with selPc := ip, selNum := k }, "ok " ++ hex ip)
      | .error f => (st, showFault f)
  | ["finfo", "env-err"] => (st, if st.fresh then "err" else "no-stop-env")
  | ["finfo"] =>
    if !st.fresh then (st, "no-stop-env") else
    match frameInfo (envOf st) (regs0 st) st.pc0 st.selPc st.selNum with
    | .ok fi => (st, "fi " ++ toString fi.num ++ " " ++ hex fi.cfa ++ " " ++ (match fi.ret with | some r => hex r | none => "none"))
    | .error f => (st, showFault f)
  | ["regs", k] =>
    if !st.fresh then (st, "no-stop-env") else
    match decNat? k with
    | none => (st, "bad-op")
    | some k =>
      match restoreRegs (envOf st) (regs0 st) st.pc0 k with
      | .ok r => (st, "regs " ++ encList (fun i => toString i ++ ":" ++ (match r i with | some v => hex v | none => "none")) (List.range 17))
      | .error f => (st, showFault f)
  | ["retaddr"] =>
    if !st.fresh then (st, "no-stop-env") else
    match returnAddress (envOf st) (regs0 st) st.pc0 with
    | .ok (some r) => (st, "ra " ++ hex r)
    | .ok none => (st, "ra none")
    | .error f => (st, showFault f)
  | _ => (st, "bad-op")

end Driver.C05
