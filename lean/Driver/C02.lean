import Driver.C01
import BsVerif.Model.StepOps
namespace Driver.C02
open BsVerif BsVerif.Proto BsVerif.Bp Driver.C01

structure St where
  s : Bp.St := { τ := [], code := fun _ => 0 }
  afterFault : Bool := false   -- a command ran with an injected ptrace failure: the model has no failure points

def showSOut (o : SOut) (s : Bp.St) : String :=
  match o with
  | .base o => showOut o s
  | .done (some pc) => "done " ++ hex pc ++ " p=" ++ showPokes s.pokes
  | .done none => "done end p=" ++ showPokes s.pokes

def run (st : St) (op : SOp) : St × String :=
  let (s, o) := execS st.s op
  ({ s := s }, showSOut o s)

def stepLive (st : St) : List String → St × String
  | ["break", a] => match hexNat? a with
    | some a => run st (.base (.brk a))
    | none => (st, "bad-op")
  | ["remove", a] => match hexNat? a with
    | some a => run st (.base (.remove a))
    | none => (st, "bad-op")
  | ["start"] => run st (.base .start)
  | ["continue"] => run st (.base .cont)
  -- `stepi`, `step k=<exe single steps observed>`
  | ["stepi"] => run st (.stepn 1)
  | ["step", k] => match decNat? k with
    | some k => run st (.stepn k)
    | none => (st, "bad-op")
  -- the step ended outside the executable (libc, ld.so): the trace machine has no pc for that; only the
  -- bookkeeping (position, pokes) is compared
  | ["stepi", "out"] => let (st', _) := run st (.stepn 1); (st', "done out p=" ++ showPokes st'.s.pokes)
  | ["step", k, "out"] => match decNat? k with
    | some k => let (st', _) := run st (.stepn k); (st', "done out p=" ++ showPokes st'.s.pokes)
    | none => (st, "bad-op")
  -- `next`/`finish` with the temporaries the implementation installed and the number of trailing single steps
  | [_cmd, temps, k] => match decList? hexNat? temps, decNat? k with
    | some t, some k => if _cmd == "next" || _cmd == "finish" then run st (.tempRun t k) else (st, "bad-op")
    | _, _ => (st, "bad-op")
  | _ => (st, "bad-op")

def step (st : St) : List String → St × String
  | "new" :: rest =>
    let (c1, out) := Driver.C01.step {} ("new" :: rest)
    ({ s := c1.s }, out)
  | "fault" :: _ => (st, "ok")
  | "faulted" :: _ => ({ st with afterFault := true }, "faulted")
  | toks => if st.afterFault then (st, "after-fault") else stepLive st toks

end Driver.C02
