import Driver.C01
import BsVerif.Model.StepOps
namespace Driver.C02
open BsVerif BsVerif.Proto BsVerif.Bp Driver.C01

structure St where
  s : Bp.St := { τ := [], code := fun _ => 0 }
  ecx : Bp.Ecx := {}
  -- the last step ended outside the executable: the thread's pc (hence the refreshed exploration context) is not a
  -- position of the trace machine; a context READ prints `out` for it until the context is set again
  ecxOut : Bool := false
  afterFault : Bool := false   -- a command ran with an injected ptrace failure: the model has no failure points

def showSOut (o : SOut) (s : Bp.St) : String :=
  match o with
  | .base o => showOut o s
  | .done (some pc) => "done " ++ hex pc ++ " p=" ++ showPokes s.pokes
  | .done none => "done end p=" ++ showPokes s.pokes

def run (st : St) (op : SOp) : St × String :=
  let (c, o) := execSC { m := st.s, ecx := st.ecx } (.base op)
  -- every command that runs the program refreshes the exploration context
  let keep := match op with | .base (.brk _) => st.ecxOut | .base (.remove _) => st.ecxOut | _ => false
  ({ st with s := c.m, ecx := c.ecx, ecxOut := keep },
   match o with
   | .base o => showSOut o c.m
   | .ctx e => showCtx e c.m)

def runCtx (st : St) (x : CtxOp) : St × String :=
  let (c, o) := execSC { m := st.s, ecx := st.ecx } (.ctx x)
  let isFrame := match x with | .frame _ (some _) => true | _ => false
  let out := match o with
    | .ctx (some e) =>
      if st.ecxOut && !isFrame then "ctx " ++ toString e.frame ++ " out p=" ++ showPokes c.m.pokes else showCtx (some e) c.m
    | .ctx none => showCtx none c.m
    | .base o => showSOut o c.m
  ({ st with s := c.m, ecx := c.ecx, ecxOut := st.ecxOut && !(isFrame && c.m.status == .inProgress) }, out)

def stepLive (st : St) : List String → St × String
  | "frame" :: rest => match decCtx? ("frame" :: rest) with
    | some x => runCtx st x
    | none => (st, "bad-op")
  | ["break", a] => match hexNat? a with
    | some a => run st (.base (.brk a))
    | none => (st, "bad-op")
  | ["remove", a] => match hexNat? a with
    | some a => run st (.base (.remove a))
    | none => (st, "bad-op")
  | ["start"] => run st (.base .start)
  | ["continue"] => run st (.base .cont)
  -- `stepi`, `step k=<exe single steps observed>`
  | ["stepi"] => run st (.stepn 1)
  | ["step", k] => match decNat? k with
    | some k => run st (.stepn k)
    | none => (st, "bad-op")
  -- the step ended outside the executable (libc, ld.so): the trace machine has no pc for that; only the
  -- bookkeeping (position, pokes) is compared
  | ["stepi", "out"] =>
    let (st', _) := run st (.stepn 1); ({ st' with ecxOut := true }, "done out p=" ++ showPokes st'.s.pokes)
  | ["step", k, "out"] => match decNat? k with
    | some k => let (st', _) := run st (.stepn k); ({ st' with ecxOut := true }, "done out p=" ++ showPokes st'.s.pokes)
    | none => (st, "bad-op")
  -- `next`/`finish` with the temporaries the implementation installed and the number of trailing single steps
  | [_cmd, temps, k] => match decList? hexNat? temps, decNat? k with
    | some t, some k => if _cmd == "next" || _cmd == "finish" then run st (.tempRun t k) else (st, "bad-op")
    | _, _ => (st, "bad-op")
  | toks => match decCtx? toks with
    | some x => runCtx st x
    | none => (st, "bad-op")

def step (st : St) : List String → St × String
  | "new" :: rest =>
    let (c1, out) := Driver.C01.step {} ("new" :: rest)
    ({ s := c1.s }, out)
  | "fault" :: _ => (st, "ok")
  | "faulted" :: _ => ({ st with afterFault := true }, "faulted")
  | toks => if st.afterFault then (st, "after-fault") else stepLive st toks

end Driver.C02
