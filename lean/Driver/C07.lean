import BsVerif.Core.Proto
import BsVerif.Model.DqeVal
/-! Line-protocol adapter of the DQE models (see harness/src/props/c07.rs for the request lines). -/
set_option linter.unusedVariables false
namespace Driver.C07
open BsVerif BsVerif.Proto BsVerif.Dqe

structure St where
  vars : List (Str × Val) := []

def hexOf (s : Str) : String := ((encStr (String.ofList s)).drop 1).toString
def S (s : Str) : String := String.ofList s

/-! ### canonical text of ASTs -/

def stripTrailingZeros (s : Str) : Str := (s.reverse.dropWhile (· == '0')).reverse

/-- Rust's `{}` of the `f64` a float token denotes (tokens of at most 15 digits) -/
def floatNorm (neg : Bool) (ip fp : Str) : Str :=
  let fp' := stripTrailingZeros fp
  (if neg then ['-'] else []) ++ ip ++ (if fp'.isEmpty then [] else '.' :: fp')

def insertSorted (x : String) : List String → List String
  | [] => [x]
  | y :: t => if x ≤ y then x :: y :: t else y :: insertSorted x t
def sortStrings (l : List String) : List String := l.foldr insertSorted []

mutual
def litText : Lit → String
  | .str s => "s" ++ hexOf s
  | .int i => "i" ++ toString i
  | .float neg ip fp => "f" ++ S (floatNorm neg ip fp)
  | .addr a => "a" ++ toString a
  | .bool b => if b then "b1" else "b0"
  | .enumV n none => "e" ++ hexOf n
  | .enumV n (some l) => "e" ++ hexOf n ++ "(" ++ litText l ++ ")"
  | .arr items => "[" ++ ",".intercalate (litTexts items) ++ "]"
  | .assoc kvs =>
    -- distinct keys (the last pair of a key wins), sorted by key text (the harness sorts by the key string)
    let ents := kvTexts kvs
    let keys := distinctKeys kvs
    let pick := keys.map fun k => ((ents.reverse.find? (·.1 == k)).map (·.2)).getD ""
    "{" ++ ",".intercalate ((sortStrings (List.zipWith (fun k t => S k ++ "\u0000" ++ hexOf k ++ ":" ++ t) keys pick)).map
      fun e => ((e.splitOn "\u0000").getD 1 "")) ++ "}"
  | .wild => "*"
def litTexts : List Lit → List String
  | [] => []
  | l :: t => litText l :: litTexts t
def kvTexts : List (Str × Lit) → List (Str × String)
  | [] => []
  | (k, v) :: t => (k, litText v) :: kvTexts t
end

def boundText : Option Nat → String
  | none => "-"
  | some n => toString n

def dqeText : Dqe → String
  | .var n => "v" ++ hexOf n
  | .ptrCast ty a => "pc(" ++ hexOf ty ++ "," ++ toString a ++ ")"
  | .field e f => "fld(" ++ dqeText e ++ "," ++ hexOf f ++ ")"
  | .index e l => "idx(" ++ dqeText e ++ "," ++ litText l ++ ")"
  | .slice e l r => "slc(" ++ dqeText e ++ "," ++ boundText l ++ "," ++ boundText r ++ ")"
  | .deref e => "der(" ++ dqeText e ++ ")"
  | .address e => "adr(" ++ dqeText e ++ ")"
  | .canonic e => "can(" ++ dqeText e ++ ")"

/-- a float-looking token with more than 15 digits: answered `bigfloat` by both sides -/
def hasBigFloat : Nat → Str → Bool
  | 0, _ => false
  | _, [] => false
  | f + 1, c :: cs =>
    if isDigit c then
      let d1 := (c :: cs).takeWhile isDigit
      let r := (c :: cs).dropWhile isDigit
      match r with
      | '.' :: r2 =>
        let d2 := r2.takeWhile isDigit
        if d2.isEmpty then hasBigFloat f r
        else if d1.length + d2.length > 15 then true else hasBigFloat f (r2.dropWhile isDigit)
      | _ => hasBigFloat f r
    else hasBigFloat f cs

def parseAnswer (s : Str) : String × Option Dqe :=
  if hasBigFloat (s.length + 1) s then ("bigfloat", none) else
  match parse s with
  | .ok e _ => ("ok " ++ dqeText e, some e)
  | .fail => ("err", none)
  | .panic => ("panic", none)

/-! ### value trees: decoding of the shipped ground truth, rendering of results -/

def isNameCh (c : Char) : Bool := isIdentCont c
def isNumCh (c : Char) : Bool := isDigit c || c == '-'
def isFloatCh (c : Char) : Bool := isDigit c || c == '-' || c == '.' || isAlpha c || c == '+'
def isLowHex (c : Char) : Bool := isDigit c || ('a' ≤ c && c ≤ 'f')

def unhex (s : Str) : Option Str := (decStr? (String.ofList ('x' :: s))).map (·.toList)

def expect (c : Char) : Str → Option Str
  | x :: r => if x == c then some r else none
  | [] => none

mutual
def decVal : Nat → Str → Option (Val × Str)
  | 0, _ => none
  | f + 1, 'i' :: r => (String.ofList (r.takeWhile isNumCh)).toInt?.map fun v => (.int v, r.dropWhile isNumCh)
  | f + 1, 'f' :: r => some (.float (r.takeWhile isFloatCh), r.dropWhile isFloatCh)
  | f + 1, 'b' :: '0' :: r => some (.bool false, r)
  | f + 1, 'b' :: '1' :: r => some (.bool true, r)
  | f + 1, 'Y' :: '0' :: r => some (.synth false, r)
  | f + 1, 'Y' :: '1' :: r => some (.synth true, r)
  | f + 1, 'c' :: r => (unhex (r.takeWhile isLowHex)).map fun s => (.chr s, r.dropWhile isLowHex)
  | f + 1, 'u' :: r => some (.unit, r)
  | f + 1, 'n' :: r => some (.noval, r)
  | f + 1, 'F' :: r => some (.subr, r)
  | f + 1, 'X' :: r => some (.other, r)
  | f + 1, 'S' :: '(' :: r => (decMembers f r []).map fun (ms, r') => (.struct false ms, r')
  | f + 1, 'O' :: '(' :: r => (decMembers f r []).map fun (ms, r') => (.struct true ms, r')
  | f + 1, 'A' :: '[' :: r => (decList f ',' ']' r []).map fun (xs, r') => (.array true xs xs, r')
  | f + 1, 'a' :: '[' :: r => (decList f ',' ']' r []).map fun (xs, r') => (.array false xs xs, r')
  | f + 1, 'E' :: r => some (.cenum (r.takeWhile isNameCh), r.dropWhile isNameCh)
  | f + 1, 'R' :: r =>
    let name := r.takeWhile isNameCh
    match expect '(' (r.dropWhile isNameCh) with
    | none => none
    | some r1 => match decVal f r1 with
      | none => none
      | some (v, r2) => (expect ')' r2).map fun r3 => (.renum name v, r3)
  | f + 1, 'P' :: '[' :: r => (decList f ',' ']' r []).map fun (xs, r') => (.ptr true true xs, r')
  | f + 1, 'p' :: '[' :: r => (decList f ',' ']' r []).map fun (xs, r') => (.ptr false true xs, r')
  | f + 1, 'V' :: '(' :: r => decVec f false r
  | f + 1, 'D' :: '(' :: r => decVec f true r
  | f + 1, 'M' :: '(' :: r => (decKvs f r []).bind fun (kvs, r1) => (decOrig f r1).map fun (o, r2) => (.map true kvs o, r2)
  | f + 1, 'H' :: '(' :: r => (decKvs f r []).bind fun (kvs, r1) => (decOrig f r1).map fun (o, r2) => (.map false kvs o, r2)
  | f + 1, 'T' :: '(' :: r => (decList f ';' '|' r []).bind fun (xs, r1) => (decOrigTail f r1).map fun (o, r2) => (.set true xs o, r2)
  | f + 1, 'U' :: '(' :: r => (decList f ';' '|' r []).bind fun (xs, r1) => (decOrigTail f r1).map fun (o, r2) => (.set false xs o, r2)
  | f + 1, 'G' :: '(' :: r =>
    match unhex (r.takeWhile isLowHex) with
    | none => none
    | some s => (decOrig f (r.dropWhile isLowHex)).map fun (o, r2) => (.string s o, r2)
  | f + 1, 'Q' :: '(' :: r => (decList f ';' '|' r []).bind fun (xs, r1) => (decOrigTail f r1).map fun (o, r2) => (.rc xs o, r2)
  | f + 1, 'C' :: '(' :: r => (decVal f r).bind fun (v, r1) => (decOrig f r1).map fun (o, r2) => (.cell v o, r2)
  | f + 1, _ => none
/-- `|<orig>)` -/
def decOrig : Nat → Str → Option (Val × Str)
  | 0, _ => none
  | f + 1, s =>
    match expect '|' s with
    | none => none
    | some r => decOrigTail f r
/-- `<orig>)` -/
def decOrigTail : Nat → Str → Option (Val × Str)
  | 0, _ => none
  | f + 1, s =>
    match decVal f s with
    | none => none
    | some (o, r) => (expect ')' r).map fun r' => (o, r')
def decVec : Nat → Bool → Str → Option (Val × Str)
  | 0, _, _ => none
  | f + 1, dq, s =>
    match decVal f s with
    | none => none
    | some (buf, r) => (decOrig f r).map fun (o, r') => (.vec dq buf o, r')
/-- items separated by `sep`, closed by `close` (consumed) -/
def decList : Nat → Char → Char → Str → List Val → Option (List Val × Str)
  | 0, _, _, _, _ => none
  | f + 1, sep, close, s, acc =>
    match s with
    | c :: r =>
      if c == close then some (acc.reverse, r) else
      let s' := if c == sep then r else s
      match decVal f s' with
      | none => none
      | some (v, r') => decList f sep close r' (v :: acc)
    | [] => none
def decMembers : Nat → Str → List (Option Str × Val) → Option (List (Option Str × Val) × Str)
  | 0, _, _ => none
  | f + 1, s, acc =>
    match s with
    | ')' :: r => some (acc.reverse, r)
    | c :: r =>
      let s' := if c == ';' then r else s
      let name := s'.takeWhile isNameCh
      match expect '=' (s'.dropWhile isNameCh) with
      | none => none
      | some r1 => match decVal f r1 with
        | none => none
        | some (v, r2) => decMembers f r2 ((if name == ['_'] then none else some name, v) :: acc)
    | [] => none
/-- `k>v;k>v` up to (not including) `|` -/
def decKvs : Nat → Str → List (Val × Val) → Option (List (Val × Val) × Str)
  | 0, _, _ => none
  | f + 1, s, acc =>
    match s with
    | '|' :: _ => some (acc.reverse, s)
    | c :: r =>
      let s' := if c == ';' then r else s
      match decVal f s' with
      | none => none
      | some (k, r1) => match expect '>' r1 with
        | none => none
        | some r2 => match decVal f r2 with
          | none => none
          | some (v, r3) => decKvs f r3 ((k, v) :: acc)
    | [] => none
end

mutual
def render : Val → String
  | .int v => "i" ++ toString v
  | .float t => "f" ++ S t
  | .bool b => if b then "b1" else "b0"
  | .chr c => "c" ++ hexOf c
  | .unit => "u"
  | .noval => "n"
  | .synth b => if b then "Y1" else "Y0"
  | .struct true _ => "O"
  | .struct false ms => "S(" ++ ";".intercalate (renderMembers ms) ++ ")"
  | .array _ items _ => "A[" ++ ",".intercalate (renderList items) ++ "]"
  | .cenum v => "E" ++ S v
  | .renum n v => "R" ++ S n ++ "(" ++ render v ++ ")"
  | .ptr _ _ _ => "P"
  | .subr => "F"
  | .vec dq buf _ => (if dq then "D(" else "V(") ++ render buf ++ ")"
  | .map bt kvs _ =>
    let ents := renderKvs kvs
    (if bt then "M(" else "H(") ++ ";".intercalate (if bt then ents else sortStrings ents) ++ ")"
  | .set bt items _ =>
    let ents := renderList items
    (if bt then "T(" else "U(") ++ ";".intercalate (if bt then ents else sortStrings ents) ++ ")"
  | .string s _ => "G" ++ hexOf s
  | .rc _ _ => "RC"
  | .cell v _ => "C(" ++ render v ++ ")"
  | .canon o _ => render o
  | .other => "X"
def renderList : List Val → List String
  | [] => []
  | v :: t => render v :: renderList t
def renderMembers : List (Option Str × Val) → List String
  | [] => []
  | (n, v) :: t => ((match n with | some n => S n | none => "_") ++ "=" ++ render v) :: renderMembers t
def renderKvs : List (Val × Val) → List String
  | [] => []
  | (k, v) :: t => (render k ++ ">" ++ render v) :: renderKvs t
end

def rootOf : Dqe → Dqe
  | .field e _ | .index e _ | .slice e _ _ | .deref e | .address e | .canonic e => rootOf e
  | e => e

def evalAnswer (s : St) (text : Str) : String :=
  match parseAnswer text with
  | (a, none) => if a == "err" then "perr" else a
  | (_, some e) =>
    match rootOf e with
    | .ptrCast _ _ => "unsupported"
    | _ =>
      match eval (fun n => (s.vars.find? (·.1 == n)).map (·.2)) e with
      | .ok v => "val " ++ render v
      | .none => "none"
      | .panic c => "panic:" ++ c

def step (s : St) : List String → St × String
  | ["new", "parse"] => (s, "ok")
  | ["parse", x] =>
    match decStr? x with
    | some t => (s, (parseAnswer t.toList).1)
    | none => (s, "bad-op")
  | ["parse", x, _expected] =>
    match decStr? x with
    | some t => (s, (parseAnswer t.toList).1)
    | none => (s, "bad-op")
  | ["new", "eval"] => ({ s with vars := [] }, "ok")
  | ["var", name, tree] =>
    match decVal (tree.length + 2) tree.toList with
    | some (v, []) => ({ s with vars := (name.toList, v) :: s.vars }, "ok")
    | _ => (s, "bad-op")
  | ["eval", x] =>
    match decStr? x with
    | some t => (s, evalAnswer s t.toList)
    | none => (s, "bad-op")
  | _ => (s, "bad-op")

end Driver.C07
