import Std.Data.HashMap
import BsVerif.Core.Proto
import BsVerif.Model.Lifecycle
/-! Line-protocol adapter of the life-cycle model (C11).
  C11 new <launch|attach> <entry> <linker> <e<code>|a<sig>> <sites addr:threads,..> <bytes addr:byte,..> <skip> <threads>
  C11 break|remove|watch|unwatch <addr> | start | continue | restart | detach | drop
Answer: `<outcome> b=<user breakpoints num:R|G:addr by number> p=<text pokes by address> x=<ptrace-boundary summary>`. -/
namespace Driver.C11
open BsVerif BsVerif.Proto BsVerif.Life

structure St where
  s : Option Life.St := none

def hex (n : Nat) : String := String.ofList (Nat.toDigits 16 n)

def sortBy (key : α → Nat) (l : List α) : List α :=
  l.foldl (fun acc x =>
    let (le, gt) := acc.span (fun y => key y ≤ key x)
    le ++ [x] ++ gt) []

def showBps (s : Life.St) : String :=
  if s.dropped then "-" else
  let act := (s.active.filter (·.kind == Kind.user)).map fun b => (b.num, "R", b.addr)
  let un := (s.uninit.filter (·.kind == Kind.user)).map fun u => (u.num, if u.key.global then "G" else "R", u.key.addr)
  encList (fun (x : Nat × String × Nat) => toString x.1 ++ ":" ++ x.2.1 ++ ":" ++ hex x.2.2) (sortBy (·.1) (act ++ un))

def showLog (log : List Ev) : String :=
  let pokes := log.filterMap fun e => match e with | .poke a b => some (a, b) | _ => none
  let count (p : Ev → Bool) := (log.filter p).length
  let q := count fun e => match e with | .pokeOut => true | _ => false
  let sz := count fun e => match e with | .seize => true | _ => false
  let d := count fun e => match e with | .detach => true | _ => false
  let c := count fun e => match e with | .contStop => true | _ => false
  let r := log.filterMap fun e => match e with | .dr m => some (toString m) | _ => none
  let w := log.filterMap fun e => match e with
    | .waitKilled => some "K" | .waitExit c => some ("E" ++ toString c) | .waitSig g => some ("S" ++ toString g) | _ => none
  let dots (l : List String) := if l.isEmpty then "-" else ".".intercalate l
  "p=" ++ encList (fun (p : Nat × Nat) => hex p.1 ++ ":" ++ hex p.2) (sortBy (·.1) pokes)
    ++ " x=q" ++ toString q ++ ";s" ++ toString sz ++ ";d" ++ toString d ++ ";c" ++ toString c
    ++ ";r" ++ dots r ++ ";w" ++ dots w

def showOut : Out → String
  | .ok => "ok" | .none => "none" | .err => "err"
  | .stop pc n => "stop " ++ hex pc ++ " " ++ toString n
  | .exit c => "exit " ++ toString c
  | .signal g => "sig " ++ toString g
  | .corrupt => "corrupt" | .outOfFuel => "out-of-fuel" | .gone => "gone"

def answer (o : Out) (s : Life.St) : String :=
  if s.staleGen then (if s.panicked then "panic" else showOut o) ++ " b=* p=* x=*"
  else (if s.panicked then "panic" else showOut o) ++ " b=" ++ showBps s ++ " " ++ showLog s.log

def decPair? (f g : String → Option Nat) (t : String) : Option (Nat × Nat) :=
  match t.splitOn ":" with
  | [a, b] => match f a, g b with
    | some a, some b => some (a, b)
    | _, _ => none
  | _ => none

def decFin? (t : String) : Option Fin :=
  match t.toList with
  | 'e' :: r => (String.ofList r).toNat?.map Fin.exit
  | 'a' :: r => (String.ofList r).toNat?.map fun g => Fin.abort g 1
  | _ => none

def run (st : St) (f : Life.St → Life.St × Out) : St × String :=
  match st.s with
  | none => (st, "no-session")
  | some s => let (s', o) := f s; ({ s := some s' }, answer o s')

def step (st : St) : List String → St × String
  | ["new", mode, entry, linker, fin, sites, bytes, skip, n0] =>
    match hexNat? entry, hexNat? linker, decFin? fin, decList? (decPair? hexNat? decNat?) sites,
          decList? (decPair? hexNat? hexNat?) bytes, decNat? skip, decNat? n0 with
    | some e, some l, some f, some ss, some bs, some k, some n =>
      let m : Std.HashMap Nat Nat := bs.foldl (fun m p => m.insert p.1 p.2) {}
      let p : Prog := { entry := e, linker := l, orig := fun a => (m.get? a).getD 0,
                        full := ss.map fun x => { addr := x.1, nthreads := x.2 }, fin := f }
      if mode == "launch" then ({ s := some (initLaunched p) }, "ok")
      else if mode == "attach" then ({ s := some (initAttached p k n) }, "ok")
      else (st, "bad-op")
    | _, _, _, _, _, _, _ => (st, "bad-op")
  | ["break", a] => match hexNat? a with
    | some a => run st (fun s => exec s (.brk a))
    | none => (st, "bad-op")
  | ["remove", a] => match hexNat? a with
    | some a => run st (fun s => exec s (.remove a))
    | none => (st, "bad-op")
  | ["watch", a] => match hexNat? a with
    | some a => run st (fun s => exec s (.watch a))
    | none => (st, "bad-op")
  | ["unwatch", a] => match hexNat? a with
    | some a => run st (fun s => exec s (.unwatch a))
    | none => (st, "bad-op")
  | ["start"] => run st (fun s => exec s .start)
  | ["continue"] => run st (fun s => exec s .cont)
  | ["restart"] => run st (fun s => exec s .restart)
  | ["detach"] => run st (fun s => if s.detached || s.dropped then (s, .gone) else (execDetach s, .ok))
  | ["drop"] => run st (fun s => if s.dropped then (s, .gone) else (execDrop s, .ok))
  | _ => (st, "bad-op")

end Driver.C11
