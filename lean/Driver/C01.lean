import Std.Data.HashMap
import BsVerif.Core.Proto
import BsVerif.Model.Breakpoint
namespace Driver.C01
open BsVerif BsVerif.Proto BsVerif.Bp

structure St where
  s : Bp.St := { τ := [], code := fun _ => 0 }

def hex (n : Nat) : String := String.ofList (Nat.toDigits 16 n)

/-- stable insertion sort by address (the implementation's poke order across *different* addresses comes from
hash-map iteration and is not compared) -/
def sortPokes (l : List (Nat × Nat)) : List (Nat × Nat) :=
  l.foldl (fun acc x =>
    let (le, gt) := acc.span (fun y => y.1 ≤ x.1)
    le ++ [x] ++ gt) []

def showPokes (l : List (Nat × Nat)) : String :=
  encList (fun p => hex p.1 ++ ":" ++ hex p.2) (sortPokes l)

def showOut (o : Out) (s : Bp.St) : String :=
  let base := match o with
    | .ok => "ok" | .none => "none" | .err => "err"
    | .stop pc => "stop " ++ hex pc
    | .exit c => "exit " ++ toString c
    | .corrupt => "corrupt" | .outOfFuel => "out-of-fuel"
  base ++ " p=" ++ showPokes s.pokes

def decPair? (t : String) : Option (Nat × Nat) :=
  match t.splitOn ":" with
  | [a, b] => match hexNat? a, hexNat? b with
    | some a, some b => some (a, b)
    | _, _ => none
  | _ => none

def step (st : St) : List String → St × String
  | ["new", _name, entry, exitc, trace, bytes] =>
    match hexNat? entry, decNat? exitc, decList? hexNat? trace, decList? decPair? bytes with
    | some e, some x, some τ, some bs =>
      let m : Std.HashMap Nat Nat := bs.foldl (fun m p => m.insert p.1 p.2) {}
      ({ s := Bp.init τ e (fun a => (m.get? a).getD 0) x }, "ok")
    | _, _, _, _ => (st, "bad-op")
  | ["break", a] => match hexNat? a with
    | some a => let (s, o) := Bp.exec st.s (.brk a); ({ s := s }, showOut o s)
    | none => (st, "bad-op")
  | ["remove", a] => match hexNat? a with
    | some a => let (s, o) := Bp.exec st.s (.remove a); ({ s := s }, showOut o s)
    | none => (st, "bad-op")
  | ["start"] => let (s, o) := Bp.exec st.s .start; ({ s := s }, showOut o s)
  | ["continue"] => let (s, o) := Bp.exec st.s .cont; ({ s := s }, showOut o s)
  | _ => (st, "bad-op")

end Driver.C01
